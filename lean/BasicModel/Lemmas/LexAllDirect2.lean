import BasicModel.Lemmas.LexAllDirect
/-
  C05 for ALL strings, part 13: the post-passes (and the splitting of the two-character comparison
  operators by the printer/scanner) do not change the leading digits of a token list; the fixed-point
  theorem for direct lines follows.
-/
set_option linter.unusedSimpArgs false
set_option linter.unusedVariables false
namespace Basic
namespace Lex

/-- a pass that keeps a leading blank run and the digits of the first token keeps `tokDigits` -/
theorem tokDigits_pass (f : List Token → List Token) (F1 : f [] = [])
    (F2 : ∀ n rest, f (.whitespace n :: rest) = .whitespace n :: f rest ∨
      (f (.whitespace n :: rest) = [] ∧ f rest = []))
    (F3 : ∀ t rest, isBlank t = false → (f (t :: rest) = [] ∧ litDigits t = []) ∨
      ∃ t' r', f (t :: rest) = t' :: r' ∧ isBlank t' = false ∧ litDigits t' = litDigits t) :
    ∀ l, tokDigits (f l) = tokDigits l := by
  have F4 : ∀ rest, headDigits (f rest) = headDigits rest := by
    intro rest
    cases rest with
    | nil => rw [F1]
    | cons t r =>
      cases hb : isBlank t with
      | true =>
        obtain ⟨n, rfl⟩ : ∃ n, t = .whitespace n := by
          cases t <;> first | exact ⟨_, rfl⟩ | exact absurd hb (by simp [isBlank])
        rcases F2 n r with e | ⟨e, -⟩ <;> rw [e] <;> rfl
      | false =>
        rcases F3 t r hb with ⟨e, hd⟩ | ⟨t', r', e, -, hd⟩
        · rw [e]; simp [headDigits, hd]
        · rw [e]; simp [headDigits, hd]
  intro l
  cases l with
  | nil => rw [F1]
  | cons t rest =>
    cases hb : isBlank t with
    | true =>
      obtain ⟨n, rfl⟩ : ∃ n, t = .whitespace n := by
        cases t <;> first | exact ⟨_, rfl⟩ | exact absurd hb (by simp [isBlank])
      rcases F2 n rest with e | ⟨e, e2⟩
      · rw [e]; simp only [tokDigits, isBlank, if_true]; exact F4 rest
      · rw [e]
        have := F4 rest
        rw [e2] at this
        simp only [tokDigits, isBlank, if_true]
        exact this
    | false =>
      rcases F3 t rest hb with ⟨e, hd⟩ | ⟨t', r', e, hb', hd⟩
      · rw [e]; simp [tokDigits, hb, hd]
      · rw [e]; simp [tokDigits, hb, hb', hd]

/-! ### the five list transformations -/

theorem trimEndRev_snoc_la (R : List Token) (a : Token) :
    trimEndRev (R ++ [a]) = if (trimEndRev R).isEmpty then trimEndRev [a] else trimEndRev R ++ [a] := by
  induction R with
  | nil => simp [trimEndRev]
  | cons t R ih =>
    cases t with
    | whitespace n => simp only [List.cons_append, trimEndRev]; exact ih
    | unknown s =>
      simp only [List.cons_append, trimEndRev]
      split
      · exact ih
      · simp
    | _ => simp [trimEndRev]

theorem trimEnd_cons_la (a : Token) (l : List Token) :
    trimEnd (a :: l) = if (trimEnd l).isEmpty then trimEnd [a] else a :: trimEnd l := by
  unfold trimEnd
  rw [List.reverse_cons, trimEndRev_snoc_la]
  by_cases h : (trimEndRev l.reverse).isEmpty = true
  · simp [h]
  · simp [h]

theorem tokDigits_trimEnd (l : List Token) : tokDigits (trimEnd l) = tokDigits l := by
  apply tokDigits_pass trimEnd rfl
  · intro n rest
    rw [trimEnd_cons_la]
    by_cases h : (trimEnd rest).isEmpty = true
    · right
      have h' : trimEnd rest = [] := by simpa using h
      rw [if_pos h]
      exact ⟨by simp [trimEnd, trimEndRev], h'⟩
    · left; simp [h]
  · intro t rest hb
    rw [trimEnd_cons_la]
    by_cases h : (trimEnd rest).isEmpty = true
    · simp only [h, if_true]
      cases t with
      | whitespace n => exact absurd hb (by simp [isBlank])
      | unknown s =>
        by_cases he : (trimEndStr s).isEmpty = true
        · left; simp [trimEnd, trimEndRev, he, litDigits]
        · right; exact ⟨.unknown (trimEndStr s), [], by simp [trimEnd, trimEndRev, he], rfl, rfl⟩
      | _ => right; exact ⟨_, [], by simp [trimEnd, trimEndRev], hb, rfl⟩
    · right; exact ⟨t, trimEnd rest, by simp [h], hb, rfl⟩

theorem litDigits_cmp (t : Token) (h : isCmp t = true) : litDigits t = [] ∧ isBlank t = false := by
  cases t <;> first | exact ⟨rfl, rfl⟩ | exact absurd h (by simp [isCmp])

theorem tokDigits_tplRec (l : List Token) : tokDigits (tplRec l) = tokDigits l := by
  apply tokDigits_pass tplRec rfl
  · intro n rest; left; exact tplRec_nohit _ _ (tripleMatch_ws_la n)
  · intro t rest hb
    right
    cases rest with
    | nil => exact ⟨t, [], rfl, hb, rfl⟩
    | cons b r =>
      cases r with
      | nil => exact ⟨t, [b], rfl, hb, rfl⟩
      | cons c r' =>
        rw [tplRec_cons3]
        cases hm : tripleMatch t b c with
        | none => exact ⟨t, _, rfl, hb, rfl⟩
        | some T =>
          refine ⟨T, _, rfl, ?_⟩
          obtain ⟨-, hcase⟩ := tripleMatch_some t b c T hm
          rcases hcase with ⟨h1, -, h3⟩ | ⟨e, (⟨-, e2⟩ | ⟨-, e2⟩)⟩
          · rw [(litDigits_cmp T h3).1, (litDigits_cmp t (isCmp_of_raw t h1)).1]
            exact ⟨(litDigits_cmp T h3).2, rfl⟩
          · subst e; subst e2; exact ⟨rfl, rfl⟩
          · subst e; subst e2; exact ⟨rfl, rfl⟩

theorem doubleMatch_ws (n : Nat) (y : Token) : doubleMatch (.whitespace n) y = none :=
  doubleMatch_of_not_cmp_left _ _ rfl

theorem tokDigits_dblRec (l : List Token) : tokDigits (dblRec l) = tokDigits l := by
  apply tokDigits_pass dblRec rfl
  · intro n rest; left
    cases rest with
    | nil => rfl
    | cons b r => rw [dblRec_cons2, doubleMatch_ws]
  · intro t rest hb
    right
    cases rest with
    | nil => exact ⟨t, [], rfl, hb, rfl⟩
    | cons b r =>
      rw [dblRec_cons2]
      cases hm : doubleMatch t b with
      | none => exact ⟨t, _, rfl, hb, rfl⟩
      | some T =>
        obtain ⟨h1, -, h3⟩ := doubleMatch_some t b T hm
        refine ⟨T, _, rfl, (litDigits_cmp T h3).2, ?_⟩
        rw [(litDigits_cmp T h3).1, (litDigits_cmp t (isCmp_of_raw t h1)).1]

theorem tokDigits_sepRec (l : List Token) : tokDigits (sepRec l) = tokDigits l := by
  apply tokDigits_pass sepRec rfl
  · intro n rest; left
    cases rest with
    | nil => rfl
    | cons b r => rw [sepRec_cons2]; simp [Token.isWord]
  · intro t rest hb
    right
    obtain ⟨tl, e⟩ := sepRec_head t rest
    exact ⟨t, tl, e, hb, rfl⟩

theorem tokDigits_raw (l : List Token) : tokDigits (l.flatMap rawOf) = tokDigits l := by
  apply tokDigits_pass (fun l => l.flatMap rawOf) rfl
  · intro n rest; left; rfl
  · intro t rest hb
    right
    simp only [List.flatMap_cons]
    rcases rawOf_shape t with e | ⟨x1, x2, e, -, hc, -, hb1⟩
    · exact ⟨t, _, by rw [e]; rfl, hb, rfl⟩
    · refine ⟨x1, x2 :: rest.flatMap rawOf, by rw [e]; rfl, hb1, ?_⟩
      rw [(litDigits_cmp t hc).1]
      cases t with
      | operator o => cases o <;> simp [rawOf] at e <;> (rw [← e.1]; rfl)
      | _ => simp [isCmp] at hc

theorem tokDigits_postPasses (l : List Token) : tokDigits ((postPasses l).flatMap rawOf) = tokDigits l := by
  rw [tokDigits_raw]
  unfold postPasses
  rw [separateWords_eq, tokDigits_sepRec, collapseDoubles_eq, tokDigits_dblRec, collapseTriples_eq_la,
    tokDigits_tplRec, tokDigits_trimEnd]

/-- direct lines: the listing of a clash-free line without number is again a line without number,
    with the same tokens -/
theorem lex_print_chain_direct (s : Str) (hs : (splitLineNumber s).1 = none)
    (h1 : tripleClash (postPasses (lexFrom s false)) = false)
    (h2 : doubleClash (postPasses (lexFrom s false)) = false)
    (h5 : remClash (postPasses (lexFrom s false)) = false) :
    lex (printTokens (postPasses (lexFrom s false))) = (none, postPasses (lexFrom s false)) := by
  have hc : Chain (postPasses (lexFrom s false)) := chain_postPasses _ (rawTokens_chain s)
  have h3 := wordClash_postPasses (lexFrom s false)
  have h4 := endOk_postPasses (lexFrom s false)
  have hre := chain_relex _ hc h5 h3 h4
  have hnp : numPrefix s = numPrefix (printTokens (postPasses (lexFrom s false))) := by
    rw [numPrefix_tokDigits, numPrefix_tokDigits, hre, tokDigits_postPasses]
  have hsp := splitLineNumber_congr s _ hnp hs
  simp only [lex, hsp, rawTokens_eq, hre, postPasses_stable _ h1 h2 h3 h4]

end Lex
end Basic
