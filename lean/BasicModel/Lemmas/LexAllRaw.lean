import BasicModel.Lemmas.LexAllLoop
import BasicModel.Lemmas.LexCase
/-
  C05 for ALL strings, part 5: the output invariant of the token iterator.  For every text, the raw
  token list is a `Chain`: every token is one the scanners can produce (`Tok`), and every token is
  followed by a token whose first printed character it does not absorb (`Adj`) — or both are
  word-like, in which case `separate_words` is going to put a blank between them.
-/
set_option linter.unusedSimpArgs false
set_option linter.unusedVariables false
namespace Basic
namespace Lex

/-- the first printed character of the token that starts at source character `c` -/
def pmap (c : Char) : Char := if isWs c then ' ' else if c = '?' then 'P' else upper c

/-- source characters that start a word-like token (literal, word, identifier) -/
def wordStart (c : Char) : Bool :=
  isDigit c || c = '.' || isAlpha c || c = '"' || c = '&' || c = '?' || c = '\''

/-- neighbours: word-like pairs get a blank from `separate_words`; otherwise the first printed
    character of `b` must be one that `a` does not absorb -/
def Adj (a b : Token) : Prop := if (a.isWord && b.isWord) = true then Bnd a (some ' ') else Bnd a (fc b)

/-- a remark marker with its text -/
def RemTail (a b : Token) (rest : List Token) : Prop :=
  (a = .word .rem1 ∨ a = .word .rem2) ∧ rest = [] ∧
    ∃ u, b = .unknown u ∧ u ≠ [] ∧ (a = .word .rem1 → ∀ c ∈ u.head?, isAlpha c = false)

/-- the output invariant.  After a `REM` that is not directly followed by its remark text (glued
    text, or a `REM` that was not the first word of its run of letters) nothing is claimed. -/
def Chain : List Token → Prop
  | [] => True
  | [t] => Tok t
  | a :: b :: rest => RemTail a b rest ∨
      (a ≠ .word .rem2 ∧ Tok a ∧ Adj a b ∧ (a = .word .rem1 ∨ Chain (b :: rest)))

theorem chain_cons (t : Token) (ts : List Token) (h1 : Tok t) (h2 : t ≠ .word .rem2)
    (h3 : ∀ b ∈ ts.head?, Adj t b) (h4 : t = .word .rem1 ∨ Chain ts) : Chain (t :: ts) := by
  cases ts with
  | nil => exact h1
  | cons b rest => exact Or.inr ⟨h2, h1, h3 b (by simp), h4⟩

/-- what a scanner leaves behind is something its token does not absorb -/
def StopOK (t : Token) (cs' : List Char) : Prop :=
  ∀ c ∈ cs'.head?, if (t.isWord && wordStart c) = true then Bnd t (some ' ') else Bnd t (some (pmap c))

/-- the first token of a text starts with the (printed form of the) first character -/
def HeadRel (cs : List Char) (ts : List Token) : Prop :=
  ∀ c ∈ cs.head?, ∃ b, ts.head? = some b ∧ fc b = some (pmap c) ∧ b.isWord = wordStart c

def RawOK (cs : List Char) : Prop := Chain (lexFrom cs false) ∧ HeadRel cs (lexFrom cs false)

theorem adj_of_stop (t : Token) (cs' : List Char) (hs : StopOK t cs') (hh : HeadRel cs' (lexFrom cs' false)) :
    ∀ b ∈ (lexFrom cs' false).head?, Adj t b := by
  intro b hb
  cases cs' with
  | nil => simp at hb
  | cons c r =>
    obtain ⟨b', e1, e2, e3⟩ := hh c (by simp)
    rw [e1] at hb; simp at hb; subst hb
    have := hs c (by simp)
    unfold Adj
    rw [e2, e3]
    exact this

/-! ### character facts -/

theorem pmap_ws (c : Char) (h : isWs c = true) : pmap c = ' ' := by simp [pmap, h]

theorem wordStart_ws (c : Char) (h : isWs c = true) : wordStart c = false := by
  rw [isWs_iff] at h
  have h1 : isDigit c = false := by rw [Bool.eq_false_iff, Ne, isDigit_iff]; omega
  have h2 : isAlpha c = false := by rw [Bool.eq_false_iff, Ne, isAlpha_iff]; omega
  have h3 : c ≠ '.' ∧ c ≠ '"' ∧ c ≠ '&' ∧ c ≠ '?' ∧ c ≠ '\'' := by
    refine ⟨?_, ?_, ?_, ?_, ?_⟩ <;> (rw [Ne, char_eq_iff]; simp; omega)
  simp [wordStart, h1, h2, h3.1, h3.2.1, h3.2.2.1, h3.2.2.2.1, h3.2.2.2.2]

theorem pmap_plain (c : Char) (h1 : isWs c = false) (h2 : c ≠ '?') (h3 : isAlpha c = false) : pmap c = c := by
  simp [pmap, h1, h2, upper_of_not_isAlpha c h3]

theorem pmap_alpha (c : Char) (h : isAlpha c = true) : pmap c = upper c := by
  have h1 := not_isWs_of_isAlpha c h
  have h2 : c ≠ '?' := ne_of_isAlpha c _ h (by decide)
  simp [pmap, h1, h2]

theorem isWs_pmap (c : Char) (h : isWs c = false) : isWs (pmap c) = false := by
  simp only [pmap, h, Bool.false_eq_true, if_false]
  split
  · decide
  · rw [isWs_upper]; exact h

/-- the characters that are not `wordStart`: blanks and what goes to `minutia()` except `?` and `'` -/
theorem not_wordStart (c : Char) (h : wordStart c = false) :
    isDigit c = false ∧ c ≠ '.' ∧ isAlpha c = false ∧ c ≠ '"' ∧ c ≠ '&' ∧ c ≠ '?' ∧ c ≠ '\'' := by
  simp only [wordStart, Bool.or_eq_false_iff, decide_eq_false_iff_not] at h
  obtain ⟨⟨⟨⟨⟨⟨a, b⟩, c'⟩, d⟩, e⟩, f⟩, g⟩ := h
  exact ⟨a, b, c', d, e, f, g⟩

theorem pmap_not_wordStart (c : Char) (h : wordStart c = false) :
    (isWs c = true ∧ pmap c = ' ') ∨ (isWs c = false ∧ pmap c = c) := by
  obtain ⟨-, -, ha, -, -, hq, -⟩ := not_wordStart c h
  cases hw : isWs c with
  | true => exact Or.inl ⟨rfl, pmap_ws c hw⟩
  | false => exact Or.inr ⟨rfl, pmap_plain c hw hq ha⟩

/-! ### the small scanners -/

theorem stringBody_noquote (cs : List Char) : '"' ∉ (stringBody cs).1 := by
  induction cs with
  | nil => simp [stringBody]
  | cons c cs ih =>
    unfold stringBody
    split
    · simp
    · rename_i hc
      simp only [List.mem_cons, not_or]
      exact ⟨fun e => hc e.symm, ih⟩

theorem radixDigits_spec (h : Bool) (cs : List Char) :
    (∀ c ∈ (radixDigits h cs).1, isRadixDigit h c = true) ∧
      ((radixDigits h cs).2 = [] ∨
        ∃ x r, (radixDigits h cs).2 = upper x :: r ∧ isRadixDigit h (upper x) = false) := by
  induction cs with
  | nil => simp [radixDigits]
  | cons c cs ih =>
    rw [radixDigits_cons]
    split
    · rename_i hd
      refine ⟨?_, ih.2⟩
      intro x hx
      rcases List.mem_cons.mp hx with e | hx
      · rw [e]; exact hd
      · exact ih.1 x hx
    · rename_i hd
      exact ⟨by intro x hx; simp at hx, Or.inr ⟨c, cs, rfl, by simpa using hd⟩⟩

/-- `minutia()`: a one-character token, or an `Unknown` run up to a letter, digit or blank -/
theorem minutiaLoop_spec (cs : List Char) : ∀ (s : Str), s ≠ [] → (∀ c ∈ cs.head?, isADW c = false) →
    ∃ r cs', minutiaLoop cs s = (.unknown (s ++ r), cs') ∧ cs = r ++ cs' ∧ (∀ x ∈ r, isADW x = false) ∧
      (∀ c ∈ cs'.head?, isADW c = true) := by
  induction cs with
  | nil => intro s _ _; exact ⟨[], [], by simp [minutiaLoop], rfl, by simp, by simp⟩
  | cons ch rest ih =>
    intro s hs hh
    have hch := hh ch (by simp)
    unfold minutiaLoop
    simp only [matchMinutia_snoc s hs ch]
    cases rest with
    | nil => exact ⟨[ch], [], by simp, rfl, by simpa using hch, by simp⟩
    | cons pk tl =>
      simp only
      split
      · rename_i hpk
        exact ⟨[ch], pk :: tl, by simp, rfl, by simpa using hch,
          by intro c hc; simp at hc; subst hc; simpa [isADW] using hpk⟩
      · rename_i hpk
        obtain ⟨r, cs', e1, e2, e3, e4⟩ := ih (s ++ [ch]) (by simp)
          (by intro c hc; simp at hc; subst hc; simpa [isADW] using hpk)
        refine ⟨ch :: r, cs', by rw [e1]; simp, by rw [e2]; rfl, ?_, e4⟩
        intro x hx
        rcases List.mem_cons.mp hx with e | hx
        · rw [e]; exact hch
        · exact e3 x hx

theorem minutia_spec (pk : Char) (cs : List Char) (hstart : isMinStart pk = true) :
    (∃ t, matchMinutia [pk] = some t ∧ minutia (pk :: cs) = (t, cs)) ∨
    (matchMinutia [pk] = none ∧ ∃ u cs', minutia (pk :: cs) = (.unknown u, cs') ∧ MinU u ∧
      pk :: cs = u ++ cs' ∧ u.head? = some pk ∧ ∀ c ∈ cs'.head?, isADW c = true) := by
  cases hm : matchMinutia [pk] with
  | some t => exact Or.inl ⟨t, rfl, minutia_one pk cs t hm⟩
  | none =>
    right
    refine ⟨rfl, ?_⟩
    rw [minutia]
    unfold minutiaLoop
    simp only [List.nil_append, hm]
    cases cs with
    | nil => exact ⟨[pk], [], rfl, ⟨pk, [], rfl, hstart, hm, by simp⟩, rfl, rfl, by simp⟩
    | cons k tl =>
      simp only
      split
      · rename_i hk
        exact ⟨[pk], k :: tl, rfl, ⟨pk, [], rfl, hstart, hm, by simp⟩, rfl, rfl,
          by intro c hc; simp at hc; subst hc; simpa [isADW] using hk⟩
      · rename_i hk
        obtain ⟨r, cs', e1, e2, e3, e4⟩ := minutiaLoop_spec (k :: tl) [pk] (by simp)
          (by intro c hc; simp at hc; subst hc; simpa [isADW] using hk)
        exact ⟨pk :: r, cs', by rw [e1]; rfl, ⟨pk, r, rfl, hstart, hm, e3⟩, by rw [e2]; rfl, rfl, e4⟩

end Lex
end Basic
