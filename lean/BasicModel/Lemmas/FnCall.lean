import BasicModel.Lemmas.ExprCompile
import BasicModel.Thm.C06
import BasicModel.Lemmas.OpsTypes
/-
  User functions, end to end (property C10).

  * `Spec.evalArgs`, `Spec.bindParams`, `Spec.evalCall` — what a call `FNx(a₁..aₖ)` of
    `DEF FNx(p₁..pₖ)=body` means, written by hand over `Spec.eval`: the arguments are evaluated left to
    right in the caller's variables, parameter i receives argument i through `Var.store`, the body is
    evaluated in the resulting store;
  * `callCode`, `fnCode`, `defCode` — the code of a call, of a function body, of a DEF statement;
  * `acceptExpr_call_shape`, `def_codegen_shape` — the visitor of `Model/Codegen.lean` emits exactly
    that code (arguments and body in the fragment `Spec.Pure`); `acceptExpr_shapeFn` — the shape theorem
    for trees that contain calls (`PureFn`, `flatFn`);
  * `ValueStore`, `eval_isValue` — the value of a tree of the fragment is a number or a string (what
    RETURN needs to find on top of the return address);
  * `call_run_ok`, `call_run_arg_error`, `call_run_bind_error`, `call_run_body_error`, `call_run` — the VM of
    `Model/Runtime.lean`, run on a call whose function is recorded in the function table (`CallSite`),
    ends after the call with the call's value pushed and the variables changed in the parameter slots
    only; `call_wrong_arity`, `call_undefined` — the two errors of the call instruction;
  * `def_run` — running the code of DEF records the function and skips its body; `def_call_run` — DEF,
    then the call; `call_time` — the body is evaluated in the variables of the call.
-/
namespace Basic

namespace Spec

/-- the arguments of a call: left to right, all in the same variables; the first failure wins -/
def evalArgs (vars : Var) : List Expr → Res (List Val)
  | [] => .ok []
  | a :: rest => do
    let v ← eval vars a
    let vs ← evalArgs vars rest
    .ok (v :: vs)

/-- parameter i receives argument i through `Var.store` (which converts to the type of the
    parameter's name), first parameter first; surplus names or values are ignored -/
def bindParams (vars : Var) : List Str → List Val → Res Var
  | p :: ps, v :: vs => do
    let vars' ← vars.store p v
    bindParams vars' ps vs
  | _, _ => .ok vars

/-- the value of the call `F(args)` of a function with parameter slots `params` and body `body`, in
    the variables `vars` of the caller at the time of the call, and the variables after it -/
def evalCall (vars : Var) (params : List Str) (body : Expr) (args : List Expr) : Res (Val × Var) := do
  let vs ← evalArgs vars args
  let vars' ← bindParams vars params vs
  let v ← eval vars' body
  .ok (v, vars')

theorem evalArgs_length {vars : Var} : ∀ {args : List Expr} {vs : List Val},
    evalArgs vars args = .ok vs → vs.length = args.length
  | [], vs, h => by cases h; rfl
  | a :: rest, vs, h => by
    simp only [evalArgs] at h
    cases ha : eval vars a with
    | error e => rw [ha] at h; cases h
    | ok v =>
      cases hr : evalArgs vars rest with
      | error e => rw [ha, hr] at h; cases h
      | ok vs' =>
        rw [ha, hr] at h
        cases h
        simp only [List.length_cons, evalArgs_length hr]

/-- the two variable stores read the same outside the names `ps` -/
def AgreeOff (ps : List Str) (v v' : Var) : Prop := ∀ x, x ∉ ps → v'.fetch x = v.fetch x

theorem AgreeOff.refl (ps : List Str) (v : Var) : AgreeOff ps v v := fun _ _ => rfl

theorem AgreeOff.store {p : Str} {ps : List Str} {v v1 v2 : Var} {x : Val} (h1 : v.store p x = .ok v1)
    (h2 : AgreeOff ps v1 v2) : AgreeOff (p :: ps) v v2 := by
  intro y hy
  simp only [List.mem_cons, not_or] at hy
  rw [h2 y hy.2, Thm.C06.no_alias hy.1 h1]

/-- binding changes the parameter slots only -/
theorem bindParams_agree : ∀ (ps : List Str) (vs : List Val) (v v' : Var),
    bindParams v ps vs = .ok v' → AgreeOff ps v v'
  | [], _, v, v', h => by
    simp only [bindParams] at h; cases h; exact AgreeOff.refl _ _
  | _ :: _, [], v, v', h => by
    simp only [bindParams] at h; cases h; exact AgreeOff.refl _ _
  | p :: ps, x :: vs, v, v', h => by
    simp only [bindParams] at h
    cases h1 : v.store p x with
    | error e => rw [h1] at h; cases h
    | ok v1 =>
      rw [h1] at h
      exact AgreeOff.store h1 (bindParams_agree ps vs v1 v' h)

end Spec

namespace Lemmas.FnCall
open Basic.Spec Basic.Lemmas.ExprCompile

/-! ## the code -/

/-- the code of the call `name(args)`: the arguments' codes in order, the number of arguments, `fn` -/
def callCode (name : Str) (args : List Expr) : List Opcode :=
  args.flatMap flat ++ [.literal (.int (Int16.ofNat args.length)), .fn name]

/-- the code of a function: bind the parameters (first parameter first: argument 1 is on top of the
    stack), compute the body, return -/
def fnCode (params : List Str) (body : Expr) : List Opcode :=
  params.map Opcode.pop ++ flat body ++ [.return]

theorem callCode_length (name : Str) (args : List Expr) :
    (callCode name args).length = (args.flatMap flat).length + 2 := by
  simp [callCode]

theorem fnCode_length (params : List Str) (body : Expr) :
    (fnCode params body).length = params.length + ((flat body).length + 1) := by
  simp [fnCode]

/-- the code of `DEF name(params) = body`: the number of parameters, `def`, a jump over the function
    (to `skip`, the address after the function's `return`), the function -/
def defCode (name : Str) (params : List Str) (body : Expr) (skip : Nat) : List Opcode :=
  [.literal (.int (Int16.ofNat params.length)), .def name, .jump skip] ++ fnCode params body

theorem defCode_length (name : Str) (params : List Str) (body : Expr) (skip : Nat) :
    (defCode name params body skip).length = 3 + (fnCode params body).length := by
  simp [defCode]; omega

/-! ## the shape of the generated code -/

section codegen
open Basic.Codegen Basic.Link

/-- the names the parser and the code generator treat as user functions -/
def userFn (name : Str) : Bool := "FN".toList.isPrefixOf name

/-- no built-in function has a name that starts with FN -/
theorem opcodeAndArity_userFn {name : Str} (h : userFn name = true) : Gen.opcodeAndArity name = none := by
  have key : ∀ r ∈ Gen.builtinTable, userFn r.1.toList = false := by decide
  unfold Gen.opcodeAndArity
  rw [Option.map_eq_none_iff, List.find?_eq_none]
  intro r hr hn
  have : r.1.toList = name := by simpa using hn
  rw [← this, key r hr] at h
  cases h

/-- a user function is not one of the built-in functions of the fragment -/
theorem builtin1_userFn {name : Str} (h : userFn name = true) : builtin1 name = none := by
  cases hb : builtin1 name with
  | none => rfl
  | some f =>
    obtain ⟨oc, ho, _⟩ := builtin1_spec hb
    rw [opcodeAndArity_userFn h] at ho
    cases ho

/-- visiting the arguments: one fragment each, in order -/
theorem acceptExprs_shape_mk : ∀ (args : List Expr), (∀ a ∈ args, Pure a) →
    ∀ (v : Array VarItem) (ex st : Array (Col × Link)) (cur : Link) (errs : List Error),
      (args.flatMap flat).length ≤ Gen.stackMaxLen →
      ∃ frs : List (Col × Link), frs.map (·.2) = args.map (fun a => plain (flat a).toArray) ∧
        acceptExprs args ⟨⟨v, ex, st, cur⟩, errs⟩ = ⟨⟨v, ex ++ frs.toArray, st, cur⟩, errs⟩
  | [], _, v, ex, st, cur, errs, _ => ⟨[], rfl, by simp [acceptExprs]⟩
  | a :: rest, hp, v, ex, st, cur, errs, hlen => by
    rw [List.flatMap_cons, List.length_append] at hlen
    obtain ⟨c, h1⟩ := acceptExpr_shape_mk (hp a List.mem_cons_self) v ex st cur errs (by omega)
    obtain ⟨frs, hfr, h2⟩ := acceptExprs_shape_mk rest (fun x hx => hp x (List.mem_cons_of_mem _ hx)) v
      (ex.push (c, plain (flat a).toArray)) st cur errs (by omega)
    refine ⟨(c, plain (flat a).toArray) :: frs, by simp [hfr], ?_⟩
    simp only [acceptExprs]
    rw [h1, h2]
    congr 2
    apply Array.ext'; simp

/-- appending the arguments' fragments in order -/
theorem forIn_lappend_flat (f : Col × Link → PUnit → GM (ForInStep PUnit))
    (hf : ∀ (x : Col × Link) (ys : Array Opcode) (r : PUnit) (v : Array VarItem) (ex st : Array (Col × Link))
      (xs : Array Opcode), x.2 = plain ys → xs.size + ys.size ≤ Gen.stackMaxLen →
      ((f x r).run).run ⟨v, ex, st, plain xs⟩ = (.ok (.yield ⟨⟩), ⟨v, ex, st, plain (xs ++ ys)⟩)) :
    ∀ (frs : List (Col × Link)) (args : List Expr),
      frs.map (·.2) = args.map (fun a => plain (flat a).toArray) →
      ∀ (v : Array VarItem) (ex st : Array (Col × Link)) (xs : Array Opcode),
        xs.size + (args.flatMap flat).length ≤ Gen.stackMaxLen →
        ((forIn frs PUnit.unit f).run).run ⟨v, ex, st, plain xs⟩ =
          (.ok ⟨⟩, ⟨v, ex, st, plain (xs ++ (args.flatMap flat).toArray)⟩)
  | [], [], _, v, ex, st, xs, _ => by
    simp only [List.forIn_nil, grun_pure, List.flatMap_nil]
    rw [show xs ++ ([] : List Opcode).toArray = xs by simp]
  | [], _ :: _, h, _, _, _, _, _ => by cases h
  | _ :: _, [], h, _, _, _, _, _ => by cases h
  | x :: frs, a :: args, h, v, ex, st, xs, hb => by
    simp only [List.map_cons, List.cons.injEq] at h
    rw [List.flatMap_cons, List.length_append] at hb
    rw [List.forIn_cons, grun_bind, hf x (flat a).toArray ⟨⟩ v ex st xs h.1 (by simp only [List.size_toArray]; omega)]
    simp only
    rw [forIn_lappend_flat f hf frs args h.2 v ex st _
      (by simp only [Array.size_append, List.size_toArray]; omega)]
    congr 3
    apply Array.ext'; simp

/-- the variable item of `F(a₁..aₖ)`: the arguments' code in order, k arguments -/
theorem genVariable_args_run (c : Col) (i : TIdent) (args : List Expr) (frs : List (Col × Link))
    (hfr : frs.map (·.2) = args.map (fun a => plain (flat a).toArray))
    (v : Array VarItem) (pre st : Array (Col × Link)) (h : (args.flatMap flat).length ≤ Gen.stackMaxLen) :
    ((genVariable (.array c i args)).run).run ⟨v, pre ++ frs.toArray, st, {}⟩ =
      (.ok (c, i.name, some args.length), ⟨v, pre, st, plain (args.flatMap flat).toArray⟩) := by
  have hl : args.length = frs.length := by
    have := congrArg List.length hfr
    simpa using this.symm
  unfold genVariable
  have hp := popNExpr_run ⟨v, pre ++ frs.toArray, st, {}⟩ pre frs rfl
  simp only [hl]
  rw [grun_bind, hp]; dsimp only
  show StateT.run (ExceptT.run _) (⟨v, pre, st, plain #[]⟩ : GState) = _
  rw [grun_bind, forIn_lappend_flat _ _ frs args hfr v pre st #[] (by simpa using h)]
  · rw [Array.empty_append]
    rfl
  · intro x ys r v ex st xs hx hb
    obtain ⟨col, ops⟩ := x
    simp only at hx
    subst hx
    simp only [grun_bind, lappend_mk _ _ _ _ _ hb, grun_pure]

/-- the code generator's treatment of a call of a user function: the arguments' code, the count, `fn` -/
theorem pushAsExpression_fn_run (c : Col) (name : Str) (hfn : userFn name = true) (k : Nat) (hk : k ≤ 32767)
    (pv : Array VarItem) (ex st : Array (Col × Link)) (xs : Array Opcode) (h : xs.size + 2 ≤ Gen.stackMaxLen) :
    ((pushAsExpression ⟨c, name, plain xs, some k⟩).run).run ⟨pv, ex, st, {}⟩ =
      (.ok c, ⟨pv, ex, st, plain ((xs.push (.literal (.int (Int16.ofNat k)))).push (.fn name))⟩) := by
  unfold pushAsExpression
  rw [plain_empty, grun_bind, lappend_mk _ _ _ _ _ (by simp; omega)]; dsimp only
  simp only [opcodeAndArity_userFn hfn, Array.empty_append]
  rw [grun_bind, grun_pure]; dsimp only
  simp only [Bool.false_eq_true, if_false]
  have hfn' : ("FN".toList.isPrefixOf name) = true := hfn
  simp only [hfn', if_true]
  rw [grun_bind, grun_lenVal _ _ hk]; dsimp only
  rw [grun_bind, lpush_mk _ _ _ _ _ (by omega)]; dsimp only
  rw [grun_bind, lpush_mk _ _ _ _ _ (by simp only [Array.size_push]; omega)]; dsimp only
  rw [grun_pure]

/-- **Codegen shape of a call.**  Visiting `F(a₁..aₖ)` — `F` a user function name (it starts with
    FN), every argument a tree of the fragment — pushes exactly one entry on the expression stack: a
    plain fragment whose code is `callCode F [a₁..aₖ]`, i.e. the arguments' codes in the order
    written, the literal `k`, `fn F`; nothing is reported, the other stacks are untouched. -/
theorem acceptExpr_call_shape_mk (c : Col) (i : TIdent) (args : List Expr) (hfn : userFn i.name = true)
    (hp : ∀ a ∈ args, Pure a) (hk : args.length ≤ 32767)
    (v : Array VarItem) (ex st : Array (Col × Link)) (cur : Link) (errs : List Error)
    (hlen : (callCode i.name args).length ≤ Gen.stackMaxLen) :
    acceptExpr (.var (.array c i args)) ⟨⟨v, ex, st, cur⟩, errs⟩ =
      ⟨⟨v, ex.push (c, plain (callCode i.name args).toArray), st, cur⟩, errs⟩ := by
  rw [callCode_length] at hlen
  obtain ⟨frs, hfr, h1⟩ := acceptExprs_shape_mk args hp v ex st cur errs (by omega)
  simp only [acceptExpr, acceptVar]
  rw [h1]
  rw [visitVariable_mk (.array c i args) errs v _ st cur (c, i.name, some args.length) _
    (genVariable_args_run c i args frs hfr v ex st (by omega))]
  have hg : ((genExpression (.var (.array c i args))).run).run
      ⟨v.push ⟨c, i.name, plain (args.flatMap flat).toArray, some args.length⟩, ex, st, {}⟩ =
      (.ok c, ⟨v, ex, st, plain (((args.flatMap flat).toArray.push (.literal (.int (Int16.ofNat args.length)))).push
        (.fn i.name))⟩) := by
    show (((popVar >>= fun v => pushAsExpression v : GM Col)).run).run _ = _
    rw [grun_bind, popVar_mk]; dsimp only
    exact pushAsExpression_fn_run c i.name hfn args.length hk _ _ _ _ (by simp only [List.size_toArray]; omega)
  rw [visitExpression_mk _ errs _ ex st cur c _ hg]
  simp only [callCode, List.push_toArray, List.append_assoc, List.cons_append, List.nil_append]

theorem acceptExpr_call_shape (c : Col) (i : TIdent) (args : List Expr) (hfn : userFn i.name = true)
    (hp : ∀ a ∈ args, Pure a) (hk : args.length ≤ 32767) (s : VState)
    (hlen : (callCode i.name args).length ≤ Gen.stackMaxLen) :
    acceptExpr (.var (.array c i args)) s =
      { s with g := { s.g with expr := s.g.expr.push (c, plain (callCode i.name args).toArray) } } := by
  obtain ⟨⟨v, ex, st, cur⟩, errs⟩ := s
  exact acceptExpr_call_shape_mk c i args hfn hp hk v ex st cur errs hlen

/-! ### DEF -/

theorem popNVar_run (g : GState) (pre : Array VarItem) (items : List VarItem) (h : g.var = pre ++ items.toArray) :
    ((popNVar items.length).run).run g = (.ok items, { g with var := pre }) := by
  unfold popNVar
  have h1 : ¬ (items.length > (pre ++ items.toArray).size) := by simp
  simp only [grun_bind, grun_get, h, h1, if_false, grun_set, grun_pure]
  simp

/-- the variable item of a scalar -/
def scalarItem (p : Col × TIdent) : VarItem := ⟨p.1, p.2.name, {}, none⟩

theorem acceptVar_unary_mk (c : Col) (i : TIdent) (v : Array VarItem) (ex st : Array (Col × Link)) (cur : Link)
    (errs : List Error) :
    acceptVar (.unary c i) ⟨⟨v, ex, st, cur⟩, errs⟩ = ⟨⟨v.push (scalarItem (c, i)), ex, st, cur⟩, errs⟩ := by
  simp only [acceptVar]
  rw [visitVariable_mk (.unary c i) errs v ex st cur (c, i.name, none) _ (grun_pure _ _)]
  rfl

/-- visiting a list of scalars pushes their items in order -/
theorem acceptVars_unary_mk : ∀ (pis : List (Col × TIdent)) (v : Array VarItem) (ex st : Array (Col × Link))
    (cur : Link) (errs : List Error),
    acceptVars (pis.map fun p => Variable.unary p.1 p.2) ⟨⟨v, ex, st, cur⟩, errs⟩ =
      ⟨⟨v ++ (pis.map scalarItem).toArray, ex, st, cur⟩, errs⟩
  | [], v, ex, st, cur, errs => by simp [acceptVars]
  | p :: pis, v, ex, st, cur, errs => by
    have ih := acceptVars_unary_mk pis (v.push (scalarItem p)) ex st cur errs
    unfold acceptVars at ih ⊢
    rw [List.map_cons, List.foldl_cons, acceptVar_unary_mk, ih]
    congr 2
    apply Array.ext'; simp

/-- **Codegen shape of DEF.**  `DEF F(p₁..pₖ) = body` — as the parser builds it: the function name and
    the parameters are scalars (the parameters already carry their mangled names), `body` a tree of
    the fragment — compiles to exactly one statement fragment and reports nothing.  Its code is
    `defCode F [p₁..pₖ] body 0`: the literal `k`, `def F`, a `jump` (address 0, to be linked), `pop p₁`
    … `pop pₖ` in the order of the parameter list, the body's code, `return`; the jump (the op at index
    2) refers to the label `-1`, which is defined at the end of the fragment: DEF jumps over the function;
    there is no data. -/
theorem def_codegen_shape {body : Expr} (hp : Pure body) (c fc : Col) (fi : TIdent) (pis : List (Col × TIdent))
    (s : VState) (hk : pis.length ≤ 32767)
    (hlen : 3 + pis.length + (flat body).length + 1 ≤ Gen.stackMaxLen) :
    ∃ frag : Link,
      acceptStmt (.def c (.unary fc fi) (pis.map fun p => Variable.unary p.1 p.2) body) s =
        { s with g := { s.g with stmt := s.g.stmt.push (c, frag) } } ∧
      frag.ops = (defCode fi.name (pis.map (·.2.name)) body 0).toArray ∧
      frag.unlinked.lookup 2 = some (c, -1) ∧
      frag.symbols.lookup (-1) = some (frag.ops.size, 0) ∧
      frag.data = #[] := by
  obtain ⟨⟨v, ex, st, cur⟩, errs⟩ := s
  simp only [acceptStmt]
  rw [acceptVar_unary_mk, acceptVars_unary_mk]
  obtain ⟨ce, he⟩ := acceptExpr_shape_mk hp (v.push (scalarItem (fc, fi)) ++ (pis.map scalarItem).toArray) ex st cur errs
    (by omega)
  rw [he]
  have hnames : (pis.map scalarItem).map (·.name) = pis.map (·.2.name) := by
    simp [scalarItem, Function.comp_def]
  have hg : ((genStatement (.def c (.unary fc fi) (pis.map fun p => Variable.unary p.1 p.2) body)).run).run
      ⟨v.push (scalarItem (fc, fi)) ++ (pis.map scalarItem).toArray, ex.push (ce, plain (flat body).toArray), st, {}⟩ =
      (.ok c, ⟨v, ex, st, defFnLink {} c fi.name (pis.map (·.2.name)) (plain (flat body).toArray)⟩) := by
    simp only [genStatement]
    have hl : (pis.map fun p => Variable.unary p.1 p.2).length = (pis.map scalarItem).length := by simp
    rw [hl, grun_bind, popNVar_run _ (v.push (scalarItem (fc, fi))) (pis.map scalarItem) rfl]; dsimp only
    rw [grun_bind, popVar_mk]; dsimp only
    rw [grun_bind, popExpr_mk]; dsimp only
    rw [hnames, grun_bind, pushDefFn_run _ c _ _ _ rfl (by simpa using hk)
      (by simp [plain, Gen.stackMaxLen] at hlen ⊢; omega) (by simp [plain])]
    rfl
  rw [visitStatement_mk _ errs _ _ st cur _ _ hg]
  refine ⟨_, rfl, ?_, ?_, ?_, ?_⟩
  · rw [defFnLink_ops]
    apply Array.ext'
    simp [defCode, fnCode, plain]
  · exact (defFnLink_skip {} c fi.name _ _).1
  · have := (defFnLink_skip {} c fi.name (pis.map (·.2.name)) (plain (flat body).toArray)).2
    simpa [plain] using this
  · rw [defFnLink_data]; simp [plain]

/-! ### trees that contain calls -/

/-- the fragment `Spec.Pure` extended by calls of user functions whose arguments are in `Spec.Pure`,
    closed under the operators -/
inductive PureFn : Expr → Prop where
  | pure {e : Expr} : Pure e → PureFn e
  | fn (c : Col) (i : TIdent) (args : List Expr) : userFn i.name = true → (∀ a ∈ args, Pure a) →
      args.length ≤ 32767 → PureFn (.var (.array c i args))
  | neg (c : Col) (e : Expr) : PureFn e → PureFn (.neg c e)
  | not (c : Col) (e : Expr) : PureFn e → PureFn (.not c e)
  | bin (op : BinOp) (c : Col) (l r : Expr) : PureFn l → PureFn r → PureFn (.bin op c l r)

/-- the postfix code of such a tree: `flat`, with `callCode` at the calls of user functions -/
def flatFn : Expr → List Opcode
  | .var (.array c i args) => if userFn i.name then callCode i.name args else flat (.var (.array c i args))
  | .neg _ e => flatFn e ++ [Gen.opcodeOfNegation]
  | .not _ e => flatFn e ++ [Gen.opcodeOfNot]
  | .bin op _ l r => flatFn l ++ flatFn r ++ [Gen.opcodeOfBinOp op]
  | e => flat e

theorem flatFn_pure {e : Expr} (hp : Pure e) : flatFn e = flat e := by
  induction hp with
  | single | double | integer | string => simp [flatFn]
  | scalar c i hz => simp [flatFn]
  | call c i e hf _ ih =>
    have hu : userFn i.name = false := by
      cases hu : userFn i.name with
      | false => rfl
      | true => rw [builtin1_userFn hu] at hf; cases hf
    simp [flatFn, hu]
  | neg c e _ ih => simp [flatFn, flat, ih]
  | not c e _ ih => simp [flatFn, flat, ih]
  | bin op c l r _ _ ihl ihr => simp [flatFn, flat, ihl, ihr]

/-- **Codegen shape, with calls.**  `acceptExpr_shape` for the larger fragment: one plain fragment with
    code `flatFn e`, nothing reported -/
theorem acceptExpr_shapeFn_mk {e : Expr} (hp : PureFn e) :
    ∀ (v : Array VarItem) (ex st : Array (Col × Link)) (cur : Link) (errs : List Error),
      (flatFn e).length ≤ Gen.stackMaxLen →
      ∃ c, acceptExpr e ⟨⟨v, ex, st, cur⟩, errs⟩ = ⟨⟨v, ex.push (c, plain (flatFn e).toArray), st, cur⟩, errs⟩ := by
  induction hp with
  | pure hp =>
    intro v ex st cur errs hlen
    rw [flatFn_pure hp] at hlen ⊢
    exact acceptExpr_shape_mk hp v ex st cur errs hlen
  | fn c i args hfn hargs hk =>
    intro v ex st cur errs hlen
    have hf : flatFn (.var (.array c i args)) = callCode i.name args := by simp [flatFn, hfn]
    rw [hf] at hlen ⊢
    exact ⟨c, acceptExpr_call_shape_mk c i args hfn hargs hk v ex st cur errs hlen⟩
  | neg c e _ ih =>
    intro v ex st cur errs hlen
    simp only [flatFn, List.length_append, List.length_cons, List.length_nil] at hlen
    obtain ⟨c1, ih⟩ := ih v ex st cur errs (by omega)
    refine ⟨(c.1, c1.2), ?_⟩
    simp only [acceptExpr]
    rw [ih]
    rw [visitExpression_mk (.neg c e) errs v _ st cur (c.1, c1.2) _
      (unaryExpr_run Gen.opcodeOfNegation c c1 _ _ _ _ (by simp only [List.size_toArray]; omega))]
    simp only [flatFn, List.push_toArray]
  | not c e _ ih =>
    intro v ex st cur errs hlen
    simp only [flatFn, List.length_append, List.length_cons, List.length_nil] at hlen
    obtain ⟨c1, ih⟩ := ih v ex st cur errs (by omega)
    refine ⟨(c.1, c1.2), ?_⟩
    simp only [acceptExpr]
    rw [ih]
    rw [visitExpression_mk (.not c e) errs v _ st cur (c.1, c1.2) _
      (unaryExpr_run Gen.opcodeOfNot c c1 _ _ _ _ (by simp only [List.size_toArray]; omega))]
    simp only [flatFn, List.push_toArray]
  | bin op c l r _ _ ihl ihr =>
    intro v ex st cur errs hlen
    simp only [flatFn, List.length_append, List.length_cons, List.length_nil] at hlen
    obtain ⟨cl, ihl⟩ := ihl v ex st cur errs (by omega)
    obtain ⟨cr, ihr⟩ := ihr v (ex.push (cl, plain (flatFn l).toArray)) st cur errs (by omega)
    refine ⟨(cl.1, cr.2), ?_⟩
    simp only [acceptExpr]
    rw [ihl, ihr]
    rw [visitExpression_mk (.bin op c l r) errs v _ st cur (cl.1, cr.2) _
      (binaryExpr_run (Gen.opcodeOfBinOp op) cl cr _ _ _ _ _ (by simp only [List.size_toArray]; omega))]
    simp only [flatFn, List.push_toArray, List.append_toArray]

theorem acceptExpr_shapeFn {e : Expr} (hp : PureFn e) (s : VState) (hlen : (flatFn e).length ≤ Gen.stackMaxLen) :
    ∃ c, acceptExpr e s = { s with g := { s.g with expr := s.g.expr.push (c, plain (flatFn e).toArray) } } := by
  obtain ⟨⟨v, ex, st, cur⟩, errs⟩ := s
  exact acceptExpr_shapeFn_mk hp v ex st cur errs hlen

end codegen

section values
open Basic.Runtime (isValue)
open Thm.C06 (bind_ok)

/-! ## values -/

/-- every stored value is a number or a string (never a return address or a loop frame) -/
def ValueStore (v : Var) : Prop := ∀ p ∈ v.vars, isValue p.2 = true

theorem isValue_of_ty {v : Val} {t : VarTy} (h : v.ty = t.toTy) : isValue v = true := by
  cases v <;> cases t <;> simp_all [Val.ty, VarTy.toTy, isValue]

theorem valueStore_new : ValueStore Var.new := fun _ h => by cases h

theorem valueStore_of_typed {v : Var} (h : Thm.C06.Typed v) : ValueStore v := by
  intro p hp
  obtain ⟨t, _, ht, _⟩ := h p hp
  exact isValue_of_ty ht

theorem fetch_isValue {v : Var} (hv : ValueStore v) {n : Str} {x : Val} (h : v.fetch n = .ok x) :
    isValue x = true := by
  unfold Var.fetch at h
  cases hg : AL.get n v.vars with
  | some y =>
    rw [hg] at h
    cases h
    exact hv _ (AL.mem_of_get hg)
  | none =>
    rw [hg] at h
    obtain ⟨ot, _, h2⟩ := bind_ok h
    cases ot with
    | none => cases h2; rfl
    | some t => cases h2; cases t <;> rfl

theorem store_valueStore {v v' : Var} (hv : ValueStore v) {n : Str} {x : Val} (h : v.store n x = .ok v') :
    ValueStore v' := by
  obtain ⟨_, t, y, _, hy, rfl⟩ := Thm.C06.store_ok h
  intro p hp
  unfold Var.updateVal at hp
  split at hp
  · exact hv p (AL.mem_erase.1 hp).1
  · rcases AL.mem_set.1 hp with rfl | ⟨hp, _⟩
    · exact isValue_of_ty hy
    · exact hv p hp

theorem bindParams_valueStore : ∀ (ps : List Str) (vs : List Val) (v v' : Var), ValueStore v →
    bindParams v ps vs = .ok v' → ValueStore v'
  | [], _, v, v', hv, h => by simp only [bindParams] at h; cases h; exact hv
  | _ :: _, [], v, v', hv, h => by simp only [bindParams] at h; cases h; exact hv
  | p :: ps, x :: vs, v, v', hv, h => by
    simp only [bindParams] at h
    cases h1 : v.store p x with
    | error e => rw [h1] at h; cases h
    | ok v1 =>
      rw [h1] at h
      exact bindParams_valueStore ps vs v1 v' (store_valueStore hv h1) h

/-! the operators and the built-in functions of the fragment produce numbers and strings -/

theorem arith_isValue {fi fs fd} {a b v : Val} (hfi : ∀ l r w, fi l r = .ok w → isValue w = true)
    (h : Ops.arith fi fs fd a b = .ok v) : isValue v = true := by
  cases a <;> cases b <;> simp only [Ops.arith, err, reduceCtorEq] at h <;> first
    | exact hfi _ _ _ h
    | (cases h; rfl)

theorem ofChecked_isValue {o : Option Int16} {w : Val} (h : Ops.ofChecked o = .ok w) : isValue w = true := by
  cases o <;> simp [Ops.ofChecked, err] at h
  subst h; rfl

theorem isValue_int {v : Val} (h : ∃ n, v = .int n) : isValue v = true := by
  obtain ⟨n, rfl⟩ := h; rfl

theorem rel_isValue {x : Res Bool} {g : Bool → Bool} {v : Val}
    (h : (do return Ops.truth (g (← x)) : Res Val) = .ok v) : isValue v = true := by
  rcases OpsTypes.rel_cases h with rfl | rfl <;> rfl

theorem power_isValue {a b v : Val} (h : Ops.power a b = .ok v) : isValue v = true := by
  cases a <;> cases b <;> simp only [Ops.power, err, reduceCtorEq] at h <;> try (cases h; rfl)
  split at h
  · split at h
    · cases h; rfl
    · cases h
  · cases h; rfl

theorem sum_isValue {a b v : Val} (h : Ops.sum a b = .ok v) : isValue v = true := by
  cases a <;> cases b <;> simp only [Ops.sum, err, reduceCtorEq] at h <;> first
    | (cases h; rfl)
    | exact arith_isValue (fun _ _ _ hw => ofChecked_isValue hw) h

theorem meaningOf_isValue (op : BinOp) {a b v : Val} (h : meaningOf op a b = .ok v) : isValue v = true := by
  cases op <;> simp only [meaningOf] at h
  · exact power_isValue h
  · exact arith_isValue (fun _ _ _ hw => ofChecked_isValue hw) h
  · exact arith_isValue (fun _ _ _ hw => by cases hw; rfl) h
  · exact isValue_int (OpsTypes.divint_int h)
  · exact isValue_int (OpsTypes.remainder_int h)
  · exact sum_isValue h
  · exact arith_isValue (fun _ _ _ hw => ofChecked_isValue hw) h
  · exact rel_isValue (g := id) h
  · exact rel_isValue (g := (!·)) h
  · exact rel_isValue (g := id) h
  · exact rel_isValue (g := id) h
  · exact rel_isValue (g := id) h
  · exact rel_isValue (g := id) h
  · exact isValue_int (OpsTypes.logic2_int h)
  · exact isValue_int (OpsTypes.logic2_int h)
  · exact isValue_int (OpsTypes.logic2_int h)
  · exact isValue_int (OpsTypes.logic2_int h)
  · exact isValue_int (OpsTypes.logic2_int h)

theorem negate_isValue {a v : Val} (h : Ops.negate a = .ok v) : isValue v = true := by
  cases a <;> simp only [Ops.negate, err, reduceCtorEq] at h <;> try (cases h; rfl)
  split at h
  · cases h; rfl
  · cases h

theorem num1_isValue {fs fd} {a v : Val} (h : Func.num1 fs fd a = .ok v) : isValue v = true := by
  cases a <;> simp only [Func.num1, err, reduceCtorEq] at h <;> (cases h; rfl)

theorem abs_isValue {a v : Val} (h : Func.abs a = .ok v) : isValue v = true := by
  cases a <;> simp only [Func.abs, err, reduceCtorEq] at h <;> try (cases h; rfl)
  split at h
  · cases h; rfl
  · cases h

theorem asc_isValue {a v : Val} (h : Func.asc a = .ok v) : isValue v = true := by
  unfold Func.asc at h
  obtain ⟨s, _, h2⟩ := bind_ok h
  cases s with
  | nil => cases h2
  | cons ch r =>
    simp only at h2
    split at h2
    · cases h2; rfl
    · split at h2 <;> (cases h2; rfl)

theorem cdbl_isValue {a v : Val} (h : Func.cdbl a = .ok v) : isValue v = true := by
  cases a <;> simp only [Func.cdbl, err, reduceCtorEq] at h <;> (cases h; rfl)

theorem csng_isValue {a v : Val} (h : Func.csng a = .ok v) : isValue v = true := by
  cases a <;> simp only [Func.csng, err, reduceCtorEq] at h <;> (cases h; rfl)

theorem fix_isValue {a v : Val} (h : Func.fix a = .ok v) : isValue v = true := by
  cases a <;> simp only [Func.fix, err, reduceCtorEq] at h <;> (cases h; rfl)

theorem int_isValue {a v : Val} (h : Func.int a = .ok v) : isValue v = true := by
  cases a <;> simp only [Func.int, err, reduceCtorEq] at h <;> (cases h; rfl)

theorem sgn_isValue {a v : Val} (h : Func.sgn a = .ok v) : isValue v = true := by
  cases a <;> simp only [Func.sgn, err, reduceCtorEq] at h <;> (cases h; rfl)

theorem chr_isValue {a v : Val} (h : Func.chr a = .ok v) : isValue v = true := by
  unfold Func.chr at h
  obtain ⟨n, _, h2⟩ := bind_ok h
  split at h2
  · cases h2; rfl
  · cases h2

theorem cint_isValue {a v : Val} (h : Func.cint a = .ok v) : isValue v = true := by
  unfold Func.cint at h
  obtain ⟨n, _, h2⟩ := bind_ok h
  cases h2; rfl

theorem hex_isValue {a v : Val} (h : Func.hex a = .ok v) : isValue v = true := by
  unfold Func.hex at h
  obtain ⟨n, _, h2⟩ := bind_ok h
  cases h2; rfl

theorem oct_isValue {a v : Val} (h : Func.oct a = .ok v) : isValue v = true := by
  unfold Func.oct at h
  obtain ⟨n, _, h2⟩ := bind_ok h
  cases h2; rfl

theorem ofUsize_isValue {n : Nat} {v : Val} (h : Val.ofUsize n = .ok v) : isValue v = true := by
  unfold Val.ofUsize at h
  split at h
  · cases h; rfl
  · cases h

theorem len_isValue {a v : Val} (h : Func.len a = .ok v) : isValue v = true := by
  unfold Func.len at h
  obtain ⟨n, _, h2⟩ := bind_ok h
  exact ofUsize_isValue h2

theorem spc_isValue {a v : Val} (h : Func.spc a = .ok v) : isValue v = true := by
  unfold Func.spc at h
  obtain ⟨n, _, h2⟩ := bind_ok h
  split at h2
  · cases h2
  · cases h2; rfl

theorem str_isValue {a v : Val} (h : Func.str a = .ok v) : isValue v = true := by
  unfold Func.str at h
  split at h
  · cases h; rfl
  · cases h

theorem ofStr_isValue (s : Str) : isValue (Val.ofStr s) = true := by
  unfold Val.ofStr
  split
  · split
    · split
      · generalize Fmt.parseI16Radix _ _ = o
        cases o
        · simp only [Option.map_none]; split <;> rfl
        · simp only [Option.map_some]; rfl
      · generalize Fmt.parseI16Radix _ _ = o
        cases o
        · simp only [Option.map_none]; split <;> rfl
        · simp only [Option.map_some]; rfl
    · simp only []; split <;> rfl
  · simp only []; split <;> rfl

theorem val_go_isValue : ∀ (fuel : Nat) (s : Str), isValue (Func.val.go fuel s) = true
  | 0, _ => rfl
  | fuel+1, s => by
    unfold Func.val.go
    split
    · rfl
    · split
      · exact val_go_isValue fuel _
      · rename_i w hw _
        exact ofStr_isValue s

theorem val_isValue {a v : Val} (h : Func.val a = .ok v) : isValue v = true := by
  cases a <;> simp only [Func.val, err, reduceCtorEq] at h
  cases h
  exact val_go_isValue _ _

/-- the 22 built-in functions of the fragment yield numbers and strings -/
theorem builtin1_isValue {name : Str} {f : Val → Res Val} (hf : builtin1 name = some f) {a v : Val}
    (h : f a = .ok v) : isValue v = true := by
  unfold builtin1 at hf
  obtain ⟨r, hr, hf⟩ := Option.map_eq_some_iff.1 hf
  have hm := List.mem_of_find?_eq_some hr
  subst hf
  simp only [builtin1Table, List.mem_cons, List.not_mem_nil, or_false] at hm
  rcases hm with rfl | rfl | rfl | rfl | rfl | rfl | rfl | rfl | rfl | rfl | rfl | rfl | rfl | rfl | rfl | rfl | rfl | rfl | rfl | rfl | rfl | rfl
  · exact abs_isValue h
  · exact asc_isValue h
  · exact num1_isValue h
  · exact cdbl_isValue h
  · exact chr_isValue h
  · exact cint_isValue h
  · exact num1_isValue h
  · exact csng_isValue h
  · exact num1_isValue h
  · exact fix_isValue h
  · exact hex_isValue h
  · exact int_isValue h
  · exact len_isValue h
  · exact num1_isValue h
  · exact oct_isValue h
  · exact sgn_isValue h
  · exact num1_isValue h
  · exact spc_isValue h
  · exact num1_isValue h
  · exact str_isValue h
  · exact num1_isValue h
  · exact val_isValue h

/-- **the value of a tree of the fragment is a number or a string**, when the variables hold
    numbers and strings (as they do in every reachable state: `valueStore_of_typed`) -/
theorem eval_isValue {e : Expr} (hp : Pure e) {vars : Var} (hv : ValueStore vars) :
    ∀ {v : Val}, eval vars e = .ok v → isValue v = true := by
  induction hp with
  | single c b => intro v h; cases h; rfl
  | double c b => intro v h; cases h; rfl
  | integer c b => intro v h; cases h; rfl
  | string c b => intro v h; cases h; rfl
  | scalar c i hz => intro v h; exact fetch_isValue hv h
  | call c i e hf _ ih =>
    intro v h
    obtain ⟨f, hf⟩ := Option.isSome_iff_exists.1 hf
    simp only [eval, hf] at h
    obtain ⟨a, _, h2⟩ := bind_ok h
    exact builtin1_isValue hf h2
  | neg c e _ ih =>
    intro v h
    simp only [eval] at h
    obtain ⟨a, _, h2⟩ := bind_ok h
    exact negate_isValue h2
  | not c e _ ih =>
    intro v h
    simp only [eval] at h
    obtain ⟨a, _, h2⟩ := bind_ok h
    exact isValue_int (OpsTypes.not_int h2)
  | bin op c l r _ _ ihl ihr =>
    intro v h
    simp only [eval] at h
    obtain ⟨a, _, h2⟩ := bind_ok h
    obtain ⟨b, _, h3⟩ := bind_ok h2
    exact meaningOf_isValue op h3

end values

section vm
open Basic.Runtime

/-! ## running: generalities -/

theorem runSteps_ok_add {env : Env} {hie : Bool} {a : Nat} {s s' : Runtime}
    (h : runSteps env hie a s = (.ok .continue, s')) (n : Nat) :
    runSteps env hie (a + n) s = runSteps env hie n s' := by
  rw [runSteps_add, h]; rfl

theorem runSteps_error_le {env : Env} {hie : Bool} {a n : Nat} {s s' : Runtime} {e : Error}
    (h : runSteps env hie a s = (.error e, s')) (hle : a ≤ n) :
    runSteps env hie n s = (.error e, s') := by
  obtain ⟨m, rfl⟩ : ∃ m, n = a + m := ⟨n - a, by omega⟩
  rw [runSteps_add, h]; rfl

theorem runSteps_succ (env : Env) (hie : Bool) (n : Nat) (s : Runtime) :
    runSteps env hie (n + 1) s = andThen (((step env hie).run).run s) (runSteps env hie n) := rfl

/-! ## the arguments -/

/-- like `Computes`, for a list of values pushed in order -/
def ComputesL (env : Env) (hie : Bool) (ops : List Opcode) (s : Runtime) : Res (List Val) → Prop
  | .ok vs => Quiet env hie ops.length s ∧ runSteps env hie ops.length s =
      (.ok .continue, { s with pc := s.pc + ops.length, stack := s.stack ++ vs.toArray })
  | .error err => ∃ (k : Nat) (stk stk' : Array Val), k < ops.length ∧ Quiet env hie k s ∧
      runSteps env hie k s = (.ok .continue, { s with pc := s.pc + k, stack := stk }) ∧
      ((step env hie).run).run { s with pc := s.pc + k, stack := stk } =
        (.error err, { s with pc := s.pc + k + 1, stack := stk' })

theorem ComputesL.nil (env : Env) (hie : Bool) (s : Runtime) : ComputesL env hie [] s (.ok []) := by
  refine ⟨Quiet.zero env hie s, ?_⟩
  show (_, s) = (_, { s with pc := s.pc + 0, stack := s.stack ++ #[] })
  rw [Array.append_empty]
  rfl

theorem ComputesL.cons {env : Env} {hie : Bool} {opsa opsr : List Opcode} {s : Runtime} {ra : Res Val}
    {rr : Res (List Val)} (ha : Computes env hie opsa s ra)
    (hr : ∀ a, ra = .ok a →
      ComputesL env hie opsr { s with pc := s.pc + opsa.length, stack := s.stack.push a } rr) :
    ComputesL env hie (opsa ++ opsr) s (do let a ← ra; let vs ← rr; .ok (a :: vs)) := by
  cases ra with
  | error err =>
    obtain ⟨k, stk, stk', hk, hq, h1, h2⟩ := ha
    exact ⟨k, stk, stk', by simp only [List.length_append]; omega, hq, h1, h2⟩
  | ok a =>
    obtain ⟨hqa, ha'⟩ : Quiet env hie opsa.length s ∧ runSteps env hie opsa.length s =
        (.ok .continue, { s with pc := s.pc + opsa.length, stack := s.stack.push a }) := ha
    have hr' := hr a rfl
    cases rr with
    | error err =>
      obtain ⟨k, stk, stk', hk, hq, h1, h2⟩ := hr'
      refine ⟨opsa.length + k, stk, stk', by simp only [List.length_append]; omega,
        Quiet.append hqa ha' hq, ?_, ?_⟩
      · rw [runSteps_add, ha', ← Nat.add_assoc]
        exact h1
      · rw [← Nat.add_assoc]
        exact h2
    | ok vs =>
      obtain ⟨hqr, hr''⟩ : Quiet env hie opsr.length { s with pc := s.pc + opsa.length, stack := s.stack.push a } ∧
          runSteps env hie opsr.length { s with pc := s.pc + opsa.length, stack := s.stack.push a } =
          (.ok .continue, { s with pc := s.pc + opsa.length + opsr.length,
                                   stack := s.stack.push a ++ vs.toArray }) := hr'
      show Quiet env hie (opsa ++ opsr).length s ∧ runSteps env hie (opsa ++ opsr).length s =
        (.ok .continue, { s with pc := s.pc + (opsa ++ opsr).length, stack := s.stack ++ (a :: vs).toArray })
      rw [List.length_append]
      refine ⟨Quiet.append hqa ha' hqr, ?_⟩
      rw [runSteps_add, ha']
      show runSteps env hie opsr.length _ = _
      rw [hr'', Nat.add_assoc]
      have : s.stack.push a ++ vs.toArray = s.stack ++ (a :: vs).toArray := by
        apply Array.ext'; simp
      rw [this]

/-- the code of a tree of the fragment is not empty -/
theorem flat_length_pos {e : Expr} (hp : Pure e) : 0 < (flat e).length := by
  induction hp with
  | single | double | integer | string => simp [flat]
  | scalar c i hz => simp [flat]
  | call c i e hf _ ih =>
    simp only [flat]
    split
    · simp
    · exact ih
  | neg c e _ ih => simp [flat]
  | not c e _ ih => simp [flat]
  | bin op c l r _ _ ihl ihr => simp only [flat, List.length_append, List.length_singleton]; omega

/-- **the arguments' code pushes the arguments' values**, in order, evaluated in the variables of
    the state it starts from; or stops at the first failing operation -/
theorem args_compute (env : Env) (hie : Bool) : ∀ (args : List Expr), (∀ a ∈ args, Pure a) →
    ∀ (s : Runtime), CodeAt s.program.link.ops s.pc (args.flatMap flat) → s.tron = false →
      s.stack.size + (args.flatMap flat).length ≤ Gen.stackMaxLen →
      ComputesL env hie (args.flatMap flat) s (evalArgs s.vars args)
  | [], _, s, _, _, _ => ComputesL.nil env hie s
  | a :: rest, hp, s, hcode, htr, hroom => by
    rw [List.flatMap_cons] at hcode hroom ⊢
    rw [List.length_append] at hroom
    have hpos := flat_length_pos (hp a List.mem_cons_self)
    refine ComputesL.cons (flat_computes env hie (hp a List.mem_cons_self) s hcode.left htr (by omega)) ?_
    intro v _
    exact args_compute env hie rest (fun x hx => hp x (List.mem_cons_of_mem _ hx))
      { s with pc := s.pc + (flat a).length, stack := s.stack.push v } hcode.right htr
      (by simp only [Array.size_push]; omega)

theorem args_length_le : ∀ (args : List Expr), (∀ a ∈ args, Pure a) → args.length ≤ (args.flatMap flat).length
  | [], _ => Nat.le_refl _
  | a :: rest, hp => by
    have h1 := flat_length_pos (hp a List.mem_cons_self)
    have h2 := args_length_le rest (fun x hx => hp x (List.mem_cons_of_mem _ hx))
    rw [List.flatMap_cons, List.length_append, List.length_cons]
    omega

/-! ## the call sequence -/

theorem toInt_ofNat_len {n : Nat} (h : n ≤ 32767) : (Int16.ofNat n).toInt = n :=
  Int16.toInt_ofNat_of_lt (by show n < 32768; omega)

/-- the state in which the arguments' code and the count have been executed -/
theorem call_pushes_args (env : Env) (hie : Bool) (s : Runtime) (name : Str) (args : List Expr) (vs : List Val)
    (hargs : ∀ a ∈ args, Pure a)
    (hcall : CodeAt s.program.link.ops s.pc (callCode name args)) (htr : s.tron = false)
    (hroom : s.stack.size + (args.flatMap flat).length + 1 ≤ Gen.stackMaxLen)
    (hv : evalArgs s.vars args = .ok vs) :
    runSteps env hie ((args.flatMap flat).length + 1) s =
      (.ok .continue, { s with pc := s.pc + ((args.flatMap flat).length + 1),
                               stack := (s.stack ++ vs.toArray).push (.int (Int16.ofNat args.length)) }) := by
  have hA := args_compute env hie args hargs s hcall.left htr (by omega)
  rw [hv] at hA
  obtain ⟨_, hrun⟩ : Quiet env hie (args.flatMap flat).length s ∧ runSteps env hie (args.flatMap flat).length s =
      (.ok .continue, { s with pc := s.pc + (args.flatMap flat).length, stack := s.stack ++ vs.toArray }) := hA
  have hlen := evalArgs_length hv
  have hle := args_length_le args hargs
  have hlit := run_step_literal env hie
    { s with pc := s.pc + (args.flatMap flat).length, stack := s.stack ++ vs.toArray }
    (.int (Int16.ofNat args.length)) htr hcall.right.head
  rw [if_neg (by simp only [Array.size_append, List.size_toArray]; omega)] at hlit
  rw [runSteps_ok_add hrun, runSteps_one, hlit, Nat.add_assoc]

/-- **the call sequence**: the arguments are evaluated in the caller's variables, in order; then
    `σ, a₁ … aₖ, k` becomes `σ, ret (address after the call), aₖ … a₁` and control is at the
    function's entry; nothing else changes -/
theorem call_enter (env : Env) (hie : Bool) (s : Runtime) (name : Str) (args : List Expr) (vs : List Val)
    (entry : Nat) (hargs : ∀ a ∈ args, Pure a)
    (hcall : CodeAt s.program.link.ops s.pc (callCode name args)) (htr : s.tron = false)
    (hfn : s.functions.lookup name = some (args.length, entry)) (hk : args.length ≤ 32767)
    (hroom : s.stack.size + (args.flatMap flat).length + 1 ≤ Gen.stackMaxLen)
    (hv : evalArgs s.vars args = .ok vs) :
    runSteps env hie (callCode name args).length s =
      (.ok .continue, { s with pc := entry,
                               stack := s.stack.push (.ret (s.pc + (callCode name args).length)) ++ vs.reverse.toArray }) := by
  have hlen := evalArgs_length hv
  have hle := args_length_le args hargs
  have hfnop : s.program.link.ops[s.pc + ((args.flatMap flat).length + 1)]? = some (.fn name) := by
    have := hcall.right 1 (by simp)
    rw [Nat.add_assoc] at this
    simpa using this
  have hstep := run_step_fn env hie
    { s with pc := s.pc + ((args.flatMap flat).length + 1),
             stack := (s.stack ++ vs.toArray).push (.int (Int16.ofNat args.length)) } name htr hfnop
  rw [run_doFn _ s.stack vs (Int16.ofNat args.length) name entry rfl (by rw [toInt_ofNat_len hk, hlen])
    (by rw [hlen]; exact hfn) (by omega)] at hstep
  rw [callCode_length, show (args.flatMap flat).length + 2 = ((args.flatMap flat).length + 1) + 1 from rfl,
    runSteps_ok_add (call_pushes_args env hie s name args vs hargs hcall htr hroom hv), runSteps_one, hstep]
  show (_, _) = (_, _)
  simp only [Nat.add_assoc]

/-- an argument fails: the call fails with that error in the arguments' code, before the count is
    pushed and before `fn` is executed; the state differs from `s` in `pc` and `stack` only -/
theorem call_arg_error (env : Env) (hie : Bool) (s : Runtime) (name : Str) (args : List Expr) (err : Error)
    (hargs : ∀ a ∈ args, Pure a)
    (hcall : CodeAt s.program.link.ops s.pc (callCode name args)) (htr : s.tron = false)
    (hroom : s.stack.size + (args.flatMap flat).length ≤ Gen.stackMaxLen)
    (hv : evalArgs s.vars args = .error err) :
    ∃ (k : Nat) (stk stk' : Array Val), k < (args.flatMap flat).length ∧
      runSteps env hie k s = (.ok .continue, { s with pc := s.pc + k, stack := stk }) ∧
      ((step env hie).run).run { s with pc := s.pc + k, stack := stk } =
        (.error err, { s with pc := s.pc + k + 1, stack := stk' }) ∧
      ∀ n, k < n → runSteps env hie n s = (.error err, { s with pc := s.pc + k + 1, stack := stk' }) := by
  have hA := args_compute env hie args hargs s hcall.left htr hroom
  rw [hv] at hA
  obtain ⟨k, stk, stk', hk, _, h1, h2⟩ := hA
  exact ⟨k, stk, stk', hk, h1, h2, fun n hn => runSteps_error_mono env hie k n s _ _ err h1 h2 hn⟩

/-! ## the function -/

/-- **binding**: with `σ, aₖ … a₁` on the stack, the `pop p₁ … pop pₖ` of the function store argument
    i into parameter slot i (`Spec.bindParams`), first parameter first, and leave `σ`; a refused store
    is the error of that `pop`, the earlier slots stay bound, every other variable reads as before -/
theorem pops_run (env : Env) (hie : Bool) : ∀ (params : List Str) (vs : List Val) (t : Runtime) (base : Array Val),
    params.length = vs.length → CodeAt t.program.link.ops t.pc (params.map Opcode.pop) → t.tron = false →
    t.stack = base ++ vs.reverse.toArray →
    match bindParams t.vars params vs with
    | .ok vars' => runSteps env hie params.length t =
        (.ok .continue, { t with pc := t.pc + params.length, stack := base, vars := vars' })
    | .error err => ∃ (j : Nat) (stk stk' : Array Val) (vars1 : Var), j < params.length ∧
        runSteps env hie j t = (.ok .continue, { t with pc := t.pc + j, stack := stk, vars := vars1 }) ∧
        ((step env hie).run).run { t with pc := t.pc + j, stack := stk, vars := vars1 } =
          (.error err, { t with pc := t.pc + j + 1, stack := stk', vars := vars1 }) ∧
        AgreeOff params t.vars vars1
  | [], [], t, base, _, _, _, hst => by
    simp only [bindParams, List.length_nil]
    show (_, t) = (_, { t with pc := t.pc + 0, stack := base, vars := t.vars })
    have : base = t.stack := by rw [hst]; simp
    rw [this]
    rfl
  | [], _ :: _, _, _, h, _, _, _ => by cases h
  | _ :: _, [], _, _, h, _, _, _ => by cases h
  | p :: ps, v :: vs, t, base, hlen, hcode, htr, hst => by
    have hst' : t.stack = (base ++ vs.reverse.toArray).push v := by
      rw [hst, List.reverse_cons]; apply Array.ext'; simp
    have hs := run_step_pop env hie t p (base ++ vs.reverse.toArray) v htr
      (by have := hcode.head; exact this) hst'
    simp only [bindParams]
    cases h1 : t.vars.store p v with
    | error e =>
      rw [h1] at hs
      exact ⟨0, t.stack, base ++ vs.reverse.toArray, t.vars, by simp, rfl, hs, AgreeOff.refl _ _⟩
    | ok vars1 =>
      rw [h1] at hs
      have hcode' : CodeAt t.program.link.ops (t.pc + 1) (ps.map Opcode.pop) := by
        have := CodeAt.right (a := [Opcode.pop p]) (b := ps.map Opcode.pop) hcode
        simpa using this
      have ih := pops_run env hie ps vs
        { t with pc := t.pc + 1, stack := base ++ vs.reverse.toArray, vars := vars1 } base
        (by simpa using hlen) hcode' htr rfl
      show match bindParams vars1 ps vs with
        | .ok vars' => _
        | .error err => _
      cases h2 : bindParams vars1 ps vs with
      | ok vars' =>
        rw [h2] at ih
        show runSteps env hie (ps.length + 1) t = _
        rw [Nat.add_comm, runSteps_ok_add (by rw [runSteps_one]; exact hs), ih]
        show (_, _) = (_, _)
        simp only [Nat.add_assoc, List.length_cons, Nat.add_comm 1]
      | error err =>
        rw [h2] at ih
        obtain ⟨j, stk, stk', varsj, hj, hr1, hr2, hag⟩ := ih
        refine ⟨1 + j, stk, stk', varsj, by simp only [List.length_cons]; omega, ?_, ?_, AgreeOff.store h1 hag⟩
        · rw [runSteps_ok_add (by rw [runSteps_one]; exact hs), hr1]
          show (_, _) = (_, _)
          simp only [Nat.add_assoc]
        · have e : t.pc + (1 + j) = t.pc + 1 + j := by omega
          rw [e]
          exact hr2

/-- RETURN with the body's value `v` on top of the return address: `σ, ret a, v` becomes `σ, v` and
    control resumes at `a` -/
theorem return_step (env : Env) (hie : Bool) (t : Runtime) (σ : Array Val) (a : Nat) (v : Val)
    (htr : t.tron = false) (hop : t.program.link.ops[t.pc]? = some .return)
    (hst : t.stack = (σ.push (.ret a)).push v) (hv : isValue v = true) (hb : σ.size + 1 ≤ Gen.stackMaxLen) :
    ((step env hie).run).run t = (.ok .continue, { t with pc := a, stack := σ.push v }) := by
  have hr : isRet v = false := by cases v <;> simp_all [isRet, isValue]
  rw [run_step_return env hie t htr hop,
    run_doReturn { t with pc := t.pc + 1 } σ a [v] (by intro x hx; simp at hx; subst hx; exact hr) (by simpa using hst)]
  simp only [keptTop, keptOf, hv, Bool.true_and, if_true, finishReturn]
  rw [if_neg (by omega)]
  rfl

theorem fnCode_parts {code : Array Opcode} {pc : Nat} {params : List Str} {body : Expr}
    (h : CodeAt code pc (fnCode params body)) :
    CodeAt code pc (params.map Opcode.pop) ∧ CodeAt code (pc + params.length) (flat body) ∧
    code[pc + params.length + (flat body).length]? = some Opcode.return := by
  unfold fnCode at h
  refine ⟨h.left.left, ?_, ?_⟩
  · have := h.left.right
    rwa [List.length_map] at this
  · have := h.right.head
    rwa [List.length_append, List.length_map, ← Nat.add_assoc] at this

/-- **the function, from its entry**: with `σ, ret r, aₖ … a₁` on the stack the parameters are
    bound, the body is evaluated in the resulting variables and RETURN leaves `σ, v` at address `r` -/
theorem fn_run_ok (env : Env) (hie : Bool) (t : Runtime) (σ : Array Val) (r : Nat) (params : List Str)
    (body : Expr) (vs : List Val) (vars' : Var) (v : Val)
    (hlen : params.length = vs.length) (hbody : Pure body)
    (hcode : CodeAt t.program.link.ops t.pc (fnCode params body)) (htr : t.tron = false)
    (hst : t.stack = σ.push (.ret r) ++ vs.reverse.toArray)
    (hroom : σ.size + 1 + (flat body).length ≤ Gen.stackMaxLen)
    (hb : bindParams t.vars params vs = .ok vars') (hv : eval vars' body = .ok v) (hval : isValue v = true) :
    runSteps env hie (fnCode params body).length t =
      (.ok .continue, { t with pc := r, stack := σ.push v, vars := vars' }) := by
  obtain ⟨hc1, hc2, hc3⟩ := fnCode_parts hcode
  have hp : runSteps env hie params.length t =
      (.ok .continue, { t with pc := t.pc + params.length, stack := σ.push (.ret r), vars := vars' }) := by
    have := pops_run env hie params vs t (σ.push (.ret r)) hlen hc1 htr hst
    rw [hb] at this
    exact this
  have hB : Computes env hie (flat body)
      { t with pc := t.pc + params.length, stack := σ.push (.ret r), vars := vars' } (eval vars' body) :=
    flat_computes env hie hbody _ hc2 htr (by simp only [Array.size_push]; omega)
  rw [hv] at hB
  obtain ⟨_, hBrun⟩ : Quiet env hie (flat body).length _ ∧
      runSteps env hie (flat body).length
        { t with pc := t.pc + params.length, stack := σ.push (.ret r), vars := vars' } =
      (.ok .continue, { t with pc := t.pc + params.length + (flat body).length,
                               stack := (σ.push (.ret r)).push v, vars := vars' }) := hB
  have hR := return_step env hie
    { t with pc := t.pc + params.length + (flat body).length, stack := (σ.push (.ret r)).push v, vars := vars' }
    σ r v htr hc3 rfl hval (by omega)
  rw [fnCode_length, runSteps_ok_add hp, runSteps_ok_add hBrun, runSteps_one, hR]

/-- a parameter slot refuses its argument (`Var.store` fails: TYPE MISMATCH, OVERFLOW …): the run
    stops with that error in the function's `pop`s; all variables outside the parameter slots read
    as before -/
theorem fn_run_bind_error (env : Env) (hie : Bool) (t : Runtime) (σ : Array Val) (r : Nat) (params : List Str)
    (body : Expr) (vs : List Val) (err : Error)
    (hlen : params.length = vs.length)
    (hcode : CodeAt t.program.link.ops t.pc (fnCode params body)) (htr : t.tron = false)
    (hst : t.stack = σ.push (.ret r) ++ vs.reverse.toArray)
    (hb : bindParams t.vars params vs = .error err) :
    ∃ t'', (∀ n, params.length ≤ n → runSteps env hie n t = (.error err, t'')) ∧
      AgreeOff params t.vars t''.vars ∧ t.pc < t''.pc ∧ t''.pc ≤ t.pc + params.length := by
  obtain ⟨hc1, _, _⟩ := fnCode_parts hcode
  have := pops_run env hie params vs t (σ.push (.ret r)) hlen hc1 htr hst
  rw [hb] at this
  obtain ⟨j, stk, stk', vars1, hj, h1, h2, hag⟩ := this
  exact ⟨_, fun n hn => runSteps_error_mono env hie j n t _ _ err h1 h2 (by omega), hag,
    by show t.pc < t.pc + j + 1; omega, by show t.pc + j + 1 ≤ _; omega⟩

/-- the body fails: the run stops with the body's error, the parameters bound -/
theorem fn_run_body_error (env : Env) (hie : Bool) (t : Runtime) (σ : Array Val) (r : Nat) (params : List Str)
    (body : Expr) (vs : List Val) (vars' : Var) (err : Error)
    (hlen : params.length = vs.length) (hbody : Pure body)
    (hcode : CodeAt t.program.link.ops t.pc (fnCode params body)) (htr : t.tron = false)
    (hst : t.stack = σ.push (.ret r) ++ vs.reverse.toArray)
    (hroom : σ.size + 1 + (flat body).length ≤ Gen.stackMaxLen)
    (hb : bindParams t.vars params vs = .ok vars') (hv : eval vars' body = .error err) :
    ∃ t'', (∀ n, params.length + (flat body).length ≤ n → runSteps env hie n t = (.error err, t'')) ∧
      t''.vars = vars' := by
  obtain ⟨hc1, hc2, _⟩ := fnCode_parts hcode
  have hp : runSteps env hie params.length t =
      (.ok .continue, { t with pc := t.pc + params.length, stack := σ.push (.ret r), vars := vars' }) := by
    have := pops_run env hie params vs t (σ.push (.ret r)) hlen hc1 htr hst
    rw [hb] at this
    exact this
  have hB : Computes env hie (flat body)
      { t with pc := t.pc + params.length, stack := σ.push (.ret r), vars := vars' } (eval vars' body) :=
    flat_computes env hie hbody _ hc2 htr (by simp only [Array.size_push]; omega)
  rw [hv] at hB
  obtain ⟨k, stk, stk', hk, _, h1, h2⟩ := hB
  refine ⟨{ t with pc := t.pc + params.length + k + 1, stack := stk', vars := vars' }, fun n hn => ?_, rfl⟩
  obtain ⟨m, rfl⟩ : ∃ m, n = params.length + m := ⟨n - params.length, by omega⟩
  rw [runSteps_ok_add hp]
  exact runSteps_error_mono env hie k m _ _ _ err h1 h2 (by omega)

/-! ## the call, composed -/

theorem evalCall_ok {vars : Var} {params : List Str} {body : Expr} {args : List Expr} {v : Val} {vars' : Var}
    (h : evalCall vars params body args = .ok (v, vars')) :
    ∃ vs, evalArgs vars args = .ok vs ∧ bindParams vars params vs = .ok vars' ∧ eval vars' body = .ok v := by
  unfold evalCall at h
  obtain ⟨vs, h1, h⟩ := Thm.C06.bind_ok h
  obtain ⟨vars1, h2, h⟩ := Thm.C06.bind_ok h
  obtain ⟨v1, h3, h⟩ := Thm.C06.bind_ok h
  cases h
  exact ⟨vs, h1, h2, h3⟩

/-- an error of a call is the error of the first failing argument, else of the first refused
    parameter store, else of the body -/
theorem evalCall_error {vars : Var} {params : List Str} {body : Expr} {args : List Expr} {err : Error}
    (h : evalCall vars params body args = .error err) :
    evalArgs vars args = .error err ∨
    (∃ vs, evalArgs vars args = .ok vs ∧ bindParams vars params vs = .error err) ∨
    (∃ vs vars', evalArgs vars args = .ok vs ∧ bindParams vars params vs = .ok vars' ∧
      eval vars' body = .error err) := by
  cases h1 : evalArgs vars args with
  | error e1 =>
    simp only [evalCall, h1, bind, Except.bind] at h
    cases h; exact Or.inl rfl
  | ok vs =>
    cases h2 : bindParams vars params vs with
    | error e2 =>
      simp only [evalCall, h1, h2, bind, Except.bind] at h
      cases h; exact Or.inr (Or.inl ⟨vs, rfl, h2⟩)
    | ok vars' =>
      cases h3 : eval vars' body with
      | error e3 =>
        simp only [evalCall, h1, h2, h3, bind, Except.bind] at h
        cases h; exact Or.inr (Or.inr ⟨vs, vars', rfl, h2, h3⟩)
      | ok v =>
        simp only [evalCall, h1, h2, h3, bind, Except.bind] at h
        cases h

/-- the hypotheses on the machine shared by the theorems about a call: the function table knows
    `name` with the arity and the entry of the function, the call's code lies at `s.pc`, the
    function's code at `entry`, trace off, room on the stack, variables hold numbers and strings -/
structure CallSite (s : Runtime) (name : Str) (params : List Str) (body : Expr) (args : List Expr)
    (entry : Nat) : Prop where
  pureArgs : ∀ a ∈ args, Pure a
  pureBody : Pure body
  fn : s.functions.lookup name = some (params.length, entry)
  call : CodeAt s.program.link.ops s.pc (callCode name args)
  code : CodeAt s.program.link.ops entry (fnCode params body)
  tron : s.tron = false
  count : args.length ≤ 32767
  room : s.stack.size + (args.flatMap flat).length + 1 ≤ Gen.stackMaxLen
  roomBody : s.stack.size + 1 + (flat body).length ≤ Gen.stackMaxLen
  values : ValueStore s.vars

/-- **a call returns the value of the body** evaluated at the time of the call, in the caller's
    variables with the parameter slots bound to the arguments' values; the machine continues after
    the call with that value pushed and, apart from the variables (changed in the parameter slots
    only, see `bindParams_agree`), exactly the state it had before the call -/
theorem call_run_ok (env : Env) (hie : Bool) {s : Runtime} {name : Str} {params : List Str} {body : Expr}
    {args : List Expr} {entry : Nat} (hs : CallSite s name params body args entry)
    (harity : params.length = args.length) {v : Val} {vars' : Var}
    (h : evalCall s.vars params body args = .ok (v, vars')) :
    runSteps env hie ((callCode name args).length + (fnCode params body).length) s =
      (.ok .continue, { s with pc := s.pc + (callCode name args).length, stack := s.stack.push v, vars := vars' }) := by
  obtain ⟨vs, h1, h2, h3⟩ := evalCall_ok h
  have hlen := evalArgs_length h1
  have henter := call_enter env hie s name args vs entry hs.pureArgs hs.call hs.tron (harity ▸ hs.fn) hs.count hs.room h1
  rw [runSteps_ok_add henter]
  exact fn_run_ok env hie
    { s with pc := entry, stack := s.stack.push (.ret (s.pc + (callCode name args).length)) ++ vs.reverse.toArray }
    s.stack _ params body vs vars' v (by omega) hs.pureBody hs.code hs.tron rfl hs.roomBody h2 h3
    (eval_isValue hs.pureBody (bindParams_valueStore _ _ _ _ hs.values h2) h3)

/-- an argument fails: the call fails with that error before the function is entered — the failing
    instruction lies in the arguments' code, nothing but `pc` and `stack` differs from `s` -/
theorem call_run_arg_error (env : Env) (hie : Bool) {s : Runtime} {name : Str} {params : List Str} {body : Expr}
    {args : List Expr} {entry : Nat} (hs : CallSite s name params body args entry) {err : Error}
    (h : evalArgs s.vars args = .error err) :
    ∃ (k : Nat) (stk : Array Val), k < (args.flatMap flat).length ∧
      ∀ n, k < n → runSteps env hie n s = (.error err, { s with pc := s.pc + k + 1, stack := stk }) := by
  obtain ⟨k, _, stk', hk, _, _, hn⟩ := call_arg_error env hie s name args err hs.pureArgs hs.call hs.tron
    (by have := hs.room; omega) h
  exact ⟨k, stk', hk, hn⟩

/-- a parameter slot refuses its argument: that error, raised inside the function; the variables
    outside the parameter slots read as before -/
theorem call_run_bind_error (env : Env) (hie : Bool) {s : Runtime} {name : Str} {params : List Str} {body : Expr}
    {args : List Expr} {entry : Nat} (hs : CallSite s name params body args entry)
    (harity : params.length = args.length) {vs : List Val} {err : Error}
    (h1 : evalArgs s.vars args = .ok vs) (h2 : bindParams s.vars params vs = .error err) :
    ∃ s'', (∀ n, (callCode name args).length + params.length ≤ n → runSteps env hie n s = (.error err, s'')) ∧
      AgreeOff params s.vars s''.vars ∧ entry < s''.pc ∧ s''.pc ≤ entry + params.length := by
  have hlen := evalArgs_length h1
  have henter := call_enter env hie s name args vs entry hs.pureArgs hs.call hs.tron (harity ▸ hs.fn) hs.count hs.room h1
  obtain ⟨t'', hrun, hag, hpc1, hpc2⟩ := fn_run_bind_error env hie
    { s with pc := entry, stack := s.stack.push (.ret (s.pc + (callCode name args).length)) ++ vs.reverse.toArray }
    s.stack _ params body vs err (by omega) hs.code hs.tron rfl h2
  refine ⟨t'', fun n hn => ?_, hag, hpc1, hpc2⟩
  obtain ⟨m, rfl⟩ : ∃ m, n = (callCode name args).length + m := ⟨n - (callCode name args).length, by omega⟩
  rw [runSteps_ok_add henter]
  exact hrun m (by omega)

/-- the body fails: the error is the body's, the parameter slots are bound -/
theorem call_run_body_error (env : Env) (hie : Bool) {s : Runtime} {name : Str} {params : List Str} {body : Expr}
    {args : List Expr} {entry : Nat} (hs : CallSite s name params body args entry)
    (harity : params.length = args.length) {vs : List Val} {vars' : Var} {err : Error}
    (h1 : evalArgs s.vars args = .ok vs) (h2 : bindParams s.vars params vs = .ok vars')
    (h3 : eval vars' body = .error err) :
    ∃ s'', (∀ n, (callCode name args).length + (params.length + (flat body).length) ≤ n →
        runSteps env hie n s = (.error err, s'')) ∧ s''.vars = vars' := by
  have hlen := evalArgs_length h1
  have henter := call_enter env hie s name args vs entry hs.pureArgs hs.call hs.tron (harity ▸ hs.fn) hs.count hs.room h1
  obtain ⟨t'', hrun, hvars⟩ := fn_run_body_error env hie
    { s with pc := entry, stack := s.stack.push (.ret (s.pc + (callCode name args).length)) ++ vs.reverse.toArray }
    s.stack _ params body vs vars' err (by omega) hs.pureBody hs.code
    hs.tron rfl hs.roomBody h2 h3
  refine ⟨t'', fun n hn => ?_, hvars⟩
  obtain ⟨m, rfl⟩ : ∃ m, n = (callCode name args).length + m := ⟨n - (callCode name args).length, by omega⟩
  rw [runSteps_ok_add henter]
  exact hrun m (by omega)

/-- **the call, all outcomes**: running the call's code and the function's code
    (`callCode.length + fnCode.length` steps) gives what `Spec.evalCall` says — the value pushed after
    the call, or the error of the first failing argument / parameter store / body operation —, and
    in every case the variables outside the parameter slots read as before the call -/
theorem call_run (env : Env) (hie : Bool) {s : Runtime} {name : Str} {params : List Str} {body : Expr}
    {args : List Expr} {entry : Nat} (hs : CallSite s name params body args entry)
    (harity : params.length = args.length) :
    match evalCall s.vars params body args with
    | .ok (v, vars') =>
      runSteps env hie ((callCode name args).length + (fnCode params body).length) s =
        (.ok .continue, { s with pc := s.pc + (callCode name args).length, stack := s.stack.push v, vars := vars' }) ∧
      AgreeOff params s.vars vars'
    | .error err => ∃ s'',
      runSteps env hie ((callCode name args).length + (fnCode params body).length) s = (.error err, s'') ∧
      AgreeOff params s.vars s''.vars := by
  cases h : evalCall s.vars params body args with
  | ok r =>
    obtain ⟨v, vars'⟩ := r
    obtain ⟨vs, _, h2, _⟩ := evalCall_ok h
    exact ⟨call_run_ok env hie hs harity h, bindParams_agree _ _ _ _ h2⟩
  | error err =>
    show ∃ s'', _ ∧ _
    rcases evalCall_error h with h1 | ⟨vs, h1, h2⟩ | ⟨vs, vars', h1, h2, h3⟩
    · obtain ⟨k, stk, hk, hn⟩ := call_run_arg_error env hie hs h1
      exact ⟨_, hn _ (by rw [callCode_length]; omega), AgreeOff.refl _ _⟩
    · obtain ⟨s'', hrun, hag, _⟩ := call_run_bind_error env hie hs harity h1 h2
      exact ⟨s'', hrun _ (by rw [fnCode_length]; omega), hag⟩
    · obtain ⟨s'', hrun, hvars⟩ := call_run_body_error env hie hs harity h1 h2 h3
      refine ⟨s'', hrun _ (by rw [fnCode_length]; omega), ?_⟩
      rw [hvars]
      exact bindParams_agree _ _ _ _ h2

/-! ## the two errors of the call instruction -/

/-- the state in which `fn` is executed -/
theorem fn_op_at {s : Runtime} {name : Str} {args : List Expr}
    (hcall : CodeAt s.program.link.ops s.pc (callCode name args)) :
    s.program.link.ops[s.pc + ((args.flatMap flat).length + 1)]? = some (.fn name) := by
  have := hcall.right 1 (by simp)
  rw [Nat.add_assoc] at this
  simpa using this

/-- **wrong number of arguments**: the arguments are evaluated, then `fn` fails with ILLEGAL FUNCTION
    CALL "WRONG NUMBER OF ARGUMENTS"; the function is not entered, the arguments are gone from the
    stack, nothing else has changed -/
theorem call_wrong_arity (env : Env) (hie : Bool) (s : Runtime) (name : Str) (args : List Expr) (vs : List Val)
    (arity entry : Nat) (hargs : ∀ a ∈ args, Pure a)
    (hcall : CodeAt s.program.link.ops s.pc (callCode name args)) (htr : s.tron = false)
    (hfn : s.functions.lookup name = some (arity, entry)) (hne : arity ≠ args.length) (hk : args.length ≤ 32767)
    (hroom : s.stack.size + (args.flatMap flat).length + 1 ≤ Gen.stackMaxLen)
    (hv : evalArgs s.vars args = .ok vs) :
    runSteps env hie (callCode name args).length s =
      (.error ((Error.mk' Code.illegalFunctionCall).withMsg "WRONG NUMBER OF ARGUMENTS"),
        { s with pc := s.pc + (callCode name args).length }) := by
  have hlen := evalArgs_length hv
  have hstep := run_step_fn env hie
    { s with pc := s.pc + ((args.flatMap flat).length + 1),
             stack := (s.stack ++ vs.toArray).push (.int (Int16.ofNat args.length)) } name htr (fn_op_at hcall)
  rw [run_doFn_wrong_arity
    { s with pc := s.pc + ((args.flatMap flat).length + 1) + 1,
             stack := (s.stack ++ vs.toArray).push (.int (Int16.ofNat args.length)) }
    s.stack vs (Int16.ofNat args.length) name arity entry rfl
    (by rw [toInt_ofNat_len hk, hlen]) hfn (by rw [hlen]; exact hne)] at hstep
  rw [callCode_length, show (args.flatMap flat).length + 2 = ((args.flatMap flat).length + 1) + 1 from rfl,
    runSteps_ok_add (call_pushes_args env hie s name args vs hargs hcall htr hroom hv), runSteps_one, hstep]
  show (_, _) = (_, _)
  simp only [Nat.add_assoc]

/-- **unknown function** (no DEF executed since the last CLEAR/RUN): UNDEFINED USER FUNCTION, again
    after the arguments have been evaluated, with nothing else changed -/
theorem call_undefined (env : Env) (hie : Bool) (s : Runtime) (name : Str) (args : List Expr) (vs : List Val)
    (hargs : ∀ a ∈ args, Pure a)
    (hcall : CodeAt s.program.link.ops s.pc (callCode name args)) (htr : s.tron = false)
    (hfn : s.functions.lookup name = none) (hk : args.length ≤ 32767)
    (hroom : s.stack.size + (args.flatMap flat).length + 1 ≤ Gen.stackMaxLen)
    (hv : evalArgs s.vars args = .ok vs) :
    runSteps env hie (callCode name args).length s =
      (.error (Error.mk' Code.undefinedUserFunction), { s with pc := s.pc + (callCode name args).length }) := by
  have hlen := evalArgs_length hv
  have hstep := run_step_fn env hie
    { s with pc := s.pc + ((args.flatMap flat).length + 1),
             stack := (s.stack ++ vs.toArray).push (.int (Int16.ofNat args.length)) } name htr (fn_op_at hcall)
  rw [run_doFn_undefined
    { s with pc := s.pc + ((args.flatMap flat).length + 1) + 1,
             stack := (s.stack ++ vs.toArray).push (.int (Int16.ofNat args.length)) }
    s.stack vs (Int16.ofNat args.length) name rfl
    (by rw [toInt_ofNat_len hk, hlen]) hfn] at hstep
  rw [callCode_length, show (args.flatMap flat).length + 2 = ((args.flatMap flat).length + 1) + 1 from rfl,
    runSteps_ok_add (call_pushes_args env hie s name args vs hargs hcall htr hroom hv), runSteps_one, hstep]
  show (_, _) = (_, _)
  simp only [Nat.add_assoc]

/-! ## DEF -/

/-- **running DEF** (in a program: the statement lies below `entryAddress`): three steps record
    `name ↦ (number of parameters, address of the function's first instruction)`, replacing any older
    definition, and continue at `skip`; the function's code is not executed, the stack and the
    variables are as before -/
theorem def_run (env : Env) (hie : Bool) (s : Runtime) (name : Str) (k : Int16) (skip : Nat)
    (hcode : CodeAt s.program.link.ops s.pc [.literal (.int k), .def name, .jump skip]) (htr : s.tron = false)
    (hpc : s.pc + 2 < s.entryAddress) (hgate : hie = false ∨ skip ≥ s.entryAddress)
    (hroom : s.stack.size + 1 ≤ Gen.stackMaxLen) :
    runSteps env hie 3 s =
      (.ok .continue, { s with pc := skip,
                               functions := (name, (k.toInt.toNat, s.pc + 3)) :: s.functions.filter (·.1 ≠ name) }) := by
  have h0 := run_step_literal env hie s (.int k) htr hcode.head
  rw [if_neg (by omega)] at h0
  have hop1 : s.program.link.ops[s.pc + 1]? = some (.def name) := by
    have := hcode 1 (by simp); simpa using this
  have hop2 : s.program.link.ops[s.pc + 1 + 1]? = some (.jump skip) := by
    have := hcode 2 (by simp); simpa using this
  have h1 := run_step_def env hie { s with pc := s.pc + 1, stack := s.stack.push (.int k) } name htr hop1
  rw [run_doDef _ s.stack k name rfl (by show s.pc + 1 + 1 < _; omega)] at h1
  have h2 := run_step_jump env hie
    { s with pc := s.pc + 1 + 1, stack := s.stack,
             functions := (name, (k.toInt.toNat, s.pc + 1 + 1 + 1)) :: s.functions.filter (·.1 ≠ name) }
    skip htr hop2 hgate
  rw [show (3 : Nat) = 1 + (1 + 1) from rfl, runSteps_ok_add (by rw [runSteps_one]; exact h0),
    runSteps_ok_add (by rw [runSteps_one]; exact h1), runSteps_one]
  exact h2

/-- the function table after DEF answers `name` with the recorded pair -/
theorem lookup_after_def (name : Str) (k entry : Nat) (fs : List (Str × (Nat × Nat))) :
    ((name, (k, entry)) :: fs.filter (·.1 ≠ name)).lookup name = some (k, entry) := by
  simp

/-- **DEF, then a call** (the call's code directly after the function, as in
    `DEF FNA(X)=…: … FNA(…)`): the DEF statement records the function, skips its code, and the call
    evaluates the body in the variables of the moment of the call -/
theorem def_call_run (env : Env) (hie : Bool) (s : Runtime) (name : Str) (params : List Str) (body : Expr)
    (args : List Expr) (hargs : ∀ a ∈ args, Pure a) (hbody : Pure body) (harity : params.length = args.length)
    (hdef : CodeAt s.program.link.ops s.pc
      (defCode name params body (s.pc + (defCode name params body 0).length)))
    (hcall : CodeAt s.program.link.ops (s.pc + (defCode name params body 0).length) (callCode name args))
    (htr : s.tron = false) (hpc : s.pc + 2 < s.entryAddress) (hie0 : hie = false)
    (hk : args.length ≤ 32767)
    (hroom : s.stack.size + (args.flatMap flat).length + 1 ≤ Gen.stackMaxLen)
    (hroomb : s.stack.size + 1 + (flat body).length ≤ Gen.stackMaxLen)
    (hvals : ValueStore s.vars) {v : Val} {vars' : Var}
    (h : evalCall s.vars params body args = .ok (v, vars')) :
    runSteps env hie (3 + ((callCode name args).length + (fnCode params body).length)) s =
      (.ok .continue,
        { s with pc := s.pc + (defCode name params body 0).length + (callCode name args).length,
                 stack := s.stack.push v, vars := vars',
                 functions := (name, (params.length, s.pc + 3)) :: s.functions.filter (·.1 ≠ name) }) := by
  have hl : ∀ a, (defCode name params body a).length = (defCode name params body 0).length := by
    intro a; rw [defCode_length, defCode_length]
  have hd := def_run env hie s name (Int16.ofNat params.length) (s.pc + (defCode name params body 0).length)
    (CodeAt.left (b := fnCode params body) hdef) htr hpc (Or.inl hie0) (by omega)
  rw [toInt_ofNat_len (by omega), Int.toNat_natCast] at hd
  rw [runSteps_ok_add hd]
  have hsite : CallSite
      { s with pc := s.pc + (defCode name params body 0).length,
               functions := (name, (params.length, s.pc + 3)) :: s.functions.filter (·.1 ≠ name) }
      name params body args (s.pc + 3) :=
    { pureArgs := hargs, pureBody := hbody, fn := lookup_after_def _ _ _ _, call := hcall
      code := CodeAt.right (a := [.literal (.int (Int16.ofNat params.length)), .def name, .jump _]) hdef
      tron := htr, count := hk, room := hroom, roomBody := hroomb, values := hvals }
  exact call_run_ok env hie hsite harity h

/-! ## evaluation at call time -/

/-- **the body is evaluated in the variables of the call, not of the DEF**: the same call site, run
    from two states that differ in the variables only, yields the value `Spec.evalCall` gives for the
    respective variables -/
theorem call_time (env : Env) (hie : Bool) {s : Runtime} {name : Str} {params : List Str} {body : Expr}
    {args : List Expr} {entry : Nat} (hs : CallSite s name params body args entry)
    (harity : params.length = args.length) (vars2 : Var) (hvals2 : ValueStore vars2)
    {v1 v2 : Val} {w1 w2 : Var}
    (h1 : evalCall s.vars params body args = .ok (v1, w1))
    (h2 : evalCall vars2 params body args = .ok (v2, w2)) :
    runSteps env hie ((callCode name args).length + (fnCode params body).length) s =
      (.ok .continue, { s with pc := s.pc + (callCode name args).length, stack := s.stack.push v1, vars := w1 }) ∧
    runSteps env hie ((callCode name args).length + (fnCode params body).length) { s with vars := vars2 } =
      (.ok .continue, { s with pc := s.pc + (callCode name args).length, stack := s.stack.push v2, vars := w2 }) := by
  refine ⟨call_run_ok env hie hs harity h1, ?_⟩
  have hs2 : CallSite { s with vars := vars2 } name params body args entry :=
    { pureArgs := hs.pureArgs, pureBody := hs.pureBody, fn := hs.fn, call := hs.call, code := hs.code
      tron := hs.tron, count := hs.count, room := hs.room, roomBody := hs.roomBody, values := hvals2 }
  exact call_run_ok env hie hs2 harity h2

end vm

end Lemmas.FnCall
end Basic
