import BasicModel.Thm.C06
/-
  The variable pool (C18, part 3): "setting variables back to 0 or the empty string frees their slots".

  * `convTo t x` — the value `Var.store` actually writes: `x` CONVERTED to the type `t` of the name;
    `store_eq_conv`: with room in the pool, or for a name the pool holds, `store` is "convert, then
    `updateVal`";
  * `NoDefaults v` — no stored entry holds a default value (`0`, `±0.0`, `""`); it is an invariant of
    every operation of the store (`noDefaults_*`), needs no other invariant, and holds for `Var.new`;
  * `store_frees_iff` — the test is made on the CONVERTED value: after a successful `store` the slot
    is gone iff the converted value is a default, and then the pool has shrunk (or stayed);
    `fetch_default_iff_absent` — under `NoDefaults` a variable reads as a default iff it has no slot;
  * `store_oom_iff` — the exact condition of OUT OF MEMORY: more than 65 535 entries AND a name the
    pool does not hold yet (the pool test comes first, but it refuses new names only: finding D23,
    repaired by dfafc65 — before, a full pool refused every store, also `A = 0`);
    `full_pool_refuses_new_names`; `store_default_frees_any_pool`, `store_overwrite_any_pool` — on
    ANY pool, a full one included, a variable that holds a value can be set back to a default value
    (the slot is freed, the pool shrinks by one) or overwritten (the pool keeps its size).

  Chain-neutral (imports neither runtime lemma chain).
-/
namespace Basic
namespace Lemmas.VarPool
open Var Thm.C06

/-! ### the converted value -/

/-- the value `insert_integer` / `insert_single` / `insert_double` / `insert_string` hand to
    `update_val`: the value converted to the type of the variable -/
def convTo (t : VarTy) (x : Val) : Res Val :=
  match t with
  | .integer => match x with
    | .int _ => .ok x
    | _ => do let n ← x.toI16; .ok (.int n)
  | .single => match x with
    | .sng _ => .ok x
    | _ => do let y ← x.toF32; .ok (.sng (F.b32 y))
  | .double => match x with
    | .dbl _ => .ok x
    | _ => do let y ← x.toF64; .ok (.dbl (F.b64 y))
  | .string => match x with
    | .str s => if s.length > 255 then errMsg Code.stringTooLong "MAXIMUM STRING LENGTH IS 255" else .ok x
    | _ => err Code.typeMismatch

theorem map_bind_ok {α β γ : Type} (r : Res α) (f : α → β) (g : β → γ) :
    Except.map g (r >>= fun a => .ok (f a)) = r >>= fun a => .ok (g (f a)) := by
  cases r <;> rfl

theorem insertTy_eq_conv (v : Var) (t : VarTy) (n : Str) (x : Val) :
    v.insertTy t n x = (convTo t x).map (v.updateVal n) := by
  cases t <;> cases x <;>
    simp only [insertTy, insertInteger, insertSingle, insertDouble, insertString, convTo] <;>
    first
    | rfl
    | exact (map_bind_ok _ _ _).symm
    | (split <;> rfl)

theorem pool_test_passes {v : Var} {n : Str} (hlen : v.vars.length ≤ 65535 ∨ AL.contains n v.vars = true) :
    ¬ (v.vars.length > 65535 ∧ ¬ AL.contains n v.vars = true) := by
  rcases hlen with h | h
  · intro ⟨h1, _⟩; omega
  · intro ⟨_, h2⟩; exact h2 h

/-- with room in the pool, or for a name the pool already holds, and a name that has a type, `store`
    converts and then updates -/
theorem store_eq_conv (v : Var) (n : Str) (x : Val) (t : VarTy)
    (hlen : v.vars.length ≤ 65535 ∨ AL.contains n v.vars = true)
    (ht : v.tyOf n = .ok (some t)) : v.store n x = (convTo t x).map (v.updateVal n) := by
  unfold store
  rw [if_neg (pool_test_passes hlen), ht]
  exact insertTy_eq_conv v t n x

/-- a successful `store`, read through `convTo` -/
theorem store_ok_conv {v v' : Var} {n : Str} {x : Val} (h : v.store n x = .ok v') :
    (v.vars.length ≤ 65535 ∨ AL.contains n v.vars = true) ∧
      ∃ t y, v.tyOf n = .ok (some t) ∧ convTo t x = .ok y ∧ v' = v.updateVal n y := by
  obtain ⟨hlen, t, _, ht, _, _⟩ := store_ok h
  refine ⟨hlen, t, ?_⟩
  rw [store_eq_conv v n x t hlen ht] at h
  cases hc : convTo t x with
  | error e => rw [hc] at h; cases h
  | ok y =>
    rw [hc] at h
    exact ⟨y, ht, rfl, by injection h with h; exact h.symm⟩

/-- the converted value has the type of the variable -/
theorem convTo_ty {t : VarTy} {x y : Val} (h : convTo t x = .ok y) : y.ty = t.toTy := by
  cases t <;> cases x <;> simp only [convTo, bind, Except.bind] at h <;>
    first
    | (cases h; rfl)
    | (split at h <;> first | (cases h; rfl) | cases h)
    | cases h

/-! ### `NoDefaults` -/

/-- no stored entry holds a default value -/
def NoDefaults (v : Var) : Prop := ∀ p ∈ v.vars, isDefault p.2 = false

theorem noDefaults_new : NoDefaults Var.new := fun _ h => nomatch h

theorem noDefaults_clear (v : Var) : NoDefaults v.clear := noDefaults_new

theorem noDefaults_of_typed {v : Var} (h : Typed v) : NoDefaults v := fun p hp => by
  obtain ⟨_, _, _, hd⟩ := h p hp
  exact hd

theorem noDefaults_of_wf {v : Var} (h : WF v) : NoDefaults v := noDefaults_of_typed h.typed

/-- the invariant depends on the entries only -/
theorem noDefaults_congr {v v' : Var} (h : v'.vars = v.vars) (hv : NoDefaults v) : NoDefaults v' := by
  unfold NoDefaults; rw [h]; exact hv

theorem noDefaults_filter {v v' : Var} (f : Str × Val → Bool) (h : v'.vars = v.vars.filter f)
    (hv : NoDefaults v) : NoDefaults v' := by
  intro p hp
  rw [h] at hp
  exact hv p (List.mem_filter.1 hp).1

theorem noDefaults_updateVal {v : Var} (hv : NoDefaults v) (n : Str) (y : Val) : NoDefaults (v.updateVal n y) := by
  intro p hp
  unfold updateVal at hp
  split at hp
  · exact hv p (AL.mem_erase.1 hp).1
  · rename_i hd
    rcases AL.mem_set.1 hp with rfl | ⟨hp, _⟩
    · simpa using hd
    · exact hv p hp

/-- `store` (LET, READ, INPUT, NEXT, the parameters of a function call) -/
theorem noDefaults_store {v v' : Var} (hv : NoDefaults v) {n : Str} {x : Val} (h : v.store n x = .ok v') :
    NoDefaults v' := by
  obtain ⟨_, _, y, _, _, rfl⟩ := store_ok h
  exact noDefaults_updateVal hv n y

theorem buildArrayKey_vars (v : Var) (n : Str) (arr : List Val) : (v.buildArrayKey n arr).1.vars = v.vars := by
  unfold buildArrayKey
  split
  · rfl
  · dsimp only
    split <;> (split <;> (try split) <;> rfl)

/-- array element assignment, successful or not -/
theorem noDefaults_storeArray {v : Var} (hv : NoDefaults v) (n : Str) (arr : List Val) (x : Val) :
    NoDefaults (v.storeArray n arr x).1 := by
  have hk := buildArrayKey_vars v n arr
  unfold storeArray
  generalize v.buildArrayKey n arr = r at hk
  obtain ⟨v1, r1⟩ := r
  have h1 : NoDefaults v1 := noDefaults_congr hk hv
  cases r1 with
  | error e => exact h1
  | ok key =>
    dsimp only
    cases hs : v1.store key x with
    | error e => exact h1
    | ok v2 => exact noDefaults_store h1 hs

/-- an array element read (it may insert the automatic dimension) -/
theorem noDefaults_fetchArray {v : Var} (hv : NoDefaults v) (n : Str) (arr : List Val) :
    NoDefaults (v.fetchArray n arr).1 := by
  have hk := buildArrayKey_vars v n arr
  unfold fetchArray
  generalize v.buildArrayKey n arr = r at hk
  obtain ⟨v1, r1⟩ := r
  cases r1 <;> exact noDefaults_congr hk hv

theorem noDefaults_dimensionArray {v v' : Var} (hv : NoDefaults v) {n : Str} {arr : List Val}
    (h : v.dimensionArray n arr = .ok v') : NoDefaults v' := by
  unfold dimensionArray at h
  split at h
  · cases h
  · obtain ⟨vi, _, h2⟩ := bind_ok h
    cases h2
    exact noDefaults_congr rfl hv

theorem noDefaults_eraseArray {v v' : Var} (hv : NoDefaults v) {n : Str} (h : v.eraseArray n = .ok v') :
    NoDefaults v' := by
  unfold eraseArray at h
  split at h
  · cases h
  · cases h
    exact noDefaults_filter _ rfl hv

/-- DEFINT / DEFSNG / DEFDBL / DEFSTR -/
theorem noDefaults_defTy {v v' : Var} (hv : NoDefaults v) {t : VarTy} {a b : Val} (h : v.defTy t a b = .ok v') :
    NoDefaults v' := by
  unfold defTy at h
  obtain ⟨f, _, h⟩ := bind_ok h
  obtain ⟨u, _, h⟩ := bind_ok h
  split at h
  · dsimp only at h
    split at h
    · cases h
    · cases h
      exact noDefaults_filter _ rfl hv
  · cases h

/-- every operation of the store, successful or not (`Thm.C06.step`), keeps `NoDefaults` -/
theorem noDefaults_step {v : Var} (hv : NoDefaults v) (op : Thm.C06.Op) : NoDefaults (Thm.C06.step v op) := by
  cases op with
  | store n x =>
    simp only [Thm.C06.step]
    cases h : v.store n x with
    | ok v' => exact noDefaults_store hv h
    | error e => exact hv
  | storeArray n arr x => exact noDefaults_storeArray hv n arr x
  | fetchArray n arr => exact noDefaults_fetchArray hv n arr
  | dim n arr =>
    simp only [Thm.C06.step]
    cases h : v.dimensionArray n arr with
    | ok v' => exact noDefaults_dimensionArray hv h
    | error e => exact hv
  | erase n =>
    simp only [Thm.C06.step]
    cases h : v.eraseArray n with
    | ok v' => exact noDefaults_eraseArray hv h
    | error e => exact hv
  | defTy t a b =>
    simp only [Thm.C06.step]
    cases h : v.defTy t a b with
    | ok v' => exact noDefaults_defTy hv h
    | error e => exact hv
  | clear => exact noDefaults_new

/-- … so it holds after every history of operations -/
theorem noDefaults_run (ops : List Thm.C06.Op) : NoDefaults (ops.foldl Thm.C06.step Var.new) := by
  have gen : ∀ (ops : List Thm.C06.Op) (v : Var), NoDefaults v → NoDefaults (ops.foldl Thm.C06.step v) := by
    intro ops
    induction ops with
    | nil => intro v h; exact h
    | cons op ops ih => intro v h; exact ih _ (noDefaults_step h op)
  exact gen ops Var.new noDefaults_new

/-! ### a default value frees the slot -/

theorem isDefault_default (t : VarTy) : isDefault t.default = true := by cases t <;> rfl

/-- what a variable without a slot reads as is a default value -/
theorem fetch_absent_isDefault (v : Var) (n : Str) (z : Val) (hg : AL.get n v.vars = none)
    (hf : v.fetch n = .ok z) : isDefault z = true := by
  unfold fetch at hf
  rw [hg] at hf
  dsimp only at hf
  cases ht : v.tyOf n with
  | error e => rw [ht] at hf; cases hf
  | ok ot =>
    rw [ht] at hf
    cases ot with
    | none => cases hf; rfl
    | some t => cases hf; exact isDefault_default t

/-- **under `NoDefaults` a variable reads as a default value iff it has no slot** -/
theorem fetch_default_iff_absent {v : Var} (hv : NoDefaults v) (n : Str) (z : Val) (hf : v.fetch n = .ok z) :
    isDefault z = true ↔ AL.get n v.vars = none := by
  constructor
  · intro hz
    cases hg : AL.get n v.vars with
    | none => rfl
    | some y =>
      have : v.fetch n = .ok y := fetch_present v n y hg
      rw [this] at hf
      cases hf
      have := hv _ (AL.mem_of_get hg)
      rw [hz] at this
      cases this
  · intro hg
    exact fetch_absent_isDefault v n z hg hf

/-- **the test is made on the converted value.**  After a successful `store n x`, with `y` the value
    `x` converted to the type of `n`:
    * `y` is a default (`0`, `±0.0`, `""`) iff `n` has no slot afterwards;
    * if it is, the entries are the old ones without `n` — the pool has not grown, and has shrunk by
      one if `n` had a slot (given distinct keys);
    * if it is not, `n` holds exactly `y`. -/
theorem store_frees_iff {v v' : Var} {n : Str} {x : Val} (h : v.store n x = .ok v') :
    ∃ t y, v.tyOf n = .ok (some t) ∧ convTo t x = .ok y ∧
      (isDefault y = true ↔ AL.get n v'.vars = none) ∧
      (isDefault y = true → v'.vars = AL.erase n v.vars ∧ v'.vars.length ≤ v.vars.length) ∧
      (isDefault y = false → AL.get n v'.vars = some y) := by
  obtain ⟨_, t, y, ht, hc, rfl⟩ := store_ok_conv h
  refine ⟨t, y, ht, hc, ?_, ?_, ?_⟩
  · rw [updateVal_get_self]
    constructor
    · intro hd; rw [if_pos hd]
    · intro hg
      split at hg
      · assumption
      · cases hg
  · intro hd
    have : (v.updateVal n y).vars = AL.erase n v.vars := by unfold updateVal; rw [if_pos hd]
    exact ⟨this, by rw [this]; exact AL.length_erase_le n v.vars⟩
  · intro hd
    rw [updateVal_get_self, if_neg (by rw [hd]; exact Bool.false_ne_true)]

/-- the slot of `n` is really given back: with distinct keys the pool is one entry smaller -/
theorem length_erase_of_get {l : List (Str × Val)} (hd : AL.NoDup l) {n : Str} {y : Val}
    (hg : AL.get n l = some y) : (AL.erase n l).length + 1 = l.length := by
  induction l with
  | nil => cases hg
  | cons p r ih =>
    obtain ⟨k, w⟩ := p
    have hd' : AL.NoDup r := by
      unfold AL.NoDup at hd ⊢
      exact (List.nodup_cons.1 hd).2
    by_cases hk : k = n
    · subst hk
      have hnot : AL.get k r = none := by
        rw [AL.get_none_iff]
        intro q hq heq
        have : k ∈ r.map (·.1) := heq ▸ List.mem_map_of_mem hq
        unfold AL.NoDup at hd
        exact (List.nodup_cons.1 hd).1 this
      have : AL.erase k ((k, w) :: r) = AL.erase k r := by
        simp [AL.erase]
      rw [this, AL.erase_of_get_none hnot]
      rfl
    · have hg' : AL.get n r = some y := by
        rw [AL.get_cons, if_neg hk] at hg; exact hg
      have : AL.erase n ((k, w) :: r) = (k, w) :: AL.erase n r := by
        simp [AL.erase, hk]
      rw [this]
      simp only [List.length_cons]
      rw [ih hd' hg']

/-- **setting a variable back to 0 / "" frees its slot**: a variable that holds a value, assigned a
    value whose conversion to the variable's type is a default, leaves a pool one entry smaller -/
theorem store_default_shrinks {v v' : Var} (hd : AL.NoDup v.vars) {n : Str} {x old : Val}
    (hold : AL.get n v.vars = some old) (h : v.store n x = .ok v')
    (hx : ∀ t y, v.tyOf n = .ok (some t) → convTo t x = .ok y → isDefault y = true) :
    v'.vars.length + 1 = v.vars.length ∧ AL.get n v'.vars = none := by
  obtain ⟨t, y, ht, hc, hiff, hfree, _⟩ := store_frees_iff h
  have hy := hx t y ht hc
  obtain ⟨he, _⟩ := hfree hy
  exact ⟨by rw [he]; exact length_erase_of_get hd hold, hiff.1 hy⟩

/-- after a successful `store` the variable reads as a default value iff it has no slot — whatever
    the state was before -/
theorem store_default_frees {v v' : Var} {n : Str} {x z : Val} (h : v.store n x = .ok v')
    (hf : v'.fetch n = .ok z) : isDefault z = true ↔ AL.get n v'.vars = none := by
  obtain ⟨t, y, _, _, hiff, _, hset⟩ := store_frees_iff h
  constructor
  · intro hz
    cases hy : isDefault y with
    | true => exact hiff.1 hy
    | false =>
      have hg := hset hy
      rw [fetch_present v' n y hg] at hf
      cases hf
      rw [hz] at hy; cases hy
  · intro hg
    exact fetch_absent_isDefault v' n z hg hf

/-! ### the pool test -/

theorem toI16_error_code {x : Val} {e : Error} (h : x.toI16 = .error e) :
    e.code = Code.overflow ∨ e.code = Code.typeMismatch := by
  cases x <;> simp only [Val.toI16, err] at h
  case int => cases h
  case sng =>
    split at h
    · split at h
      · cases h
      · cases h; exact .inl rfl
    · cases h; exact .inl rfl
  case dbl =>
    split at h
    · split at h
      · cases h
      · cases h; exact .inl rfl
    · cases h; exact .inl rfl
  all_goals (cases h; exact .inr rfl)

theorem toF32_error_code {x : Val} {e : Error} (h : x.toF32 = .error e) : e.code = Code.typeMismatch := by
  cases x <;> simp only [Val.toF32, err] at h <;> cases h <;> rfl

theorem toF64_error_code {x : Val} {e : Error} (h : x.toF64 = .error e) : e.code = Code.typeMismatch := by
  cases x <;> simp only [Val.toF64, err] at h <;> cases h <;> rfl

theorem bind_ok_error {α β : Type} {r : Res α} {f : α → β} {e : Error}
    (h : (r >>= fun a => (.ok (f a) : Res β)) = .error e) : r = .error e := by
  cases r with
  | ok a => cases h
  | error e' => cases h; rfl

theorem convTo_error_code {t : VarTy} {x : Val} {e : Error} (h : convTo t x = .error e) :
    e.code = Code.overflow ∨ e.code = Code.typeMismatch ∨ e.code = Code.stringTooLong := by
  cases t with
  | integer =>
    have : x.toI16 = .error e := by
      cases x <;> simp only [convTo] at h <;> first | (cases h; done) | exact bind_ok_error h
    rcases toI16_error_code this with h | h
    · exact .inl h
    · exact .inr (.inl h)
  | single =>
    have : x.toF32 = .error e := by
      cases x <;> simp only [convTo] at h <;> first | (cases h; done) | exact bind_ok_error h
    exact .inr (.inl (toF32_error_code this))
  | double =>
    have : x.toF64 = .error e := by
      cases x <;> simp only [convTo] at h <;> first | (cases h; done) | exact bind_ok_error h
    exact .inr (.inl (toF64_error_code this))
  | string =>
    cases x <;> simp only [convTo, err, errMsg] at h
    case str =>
      split at h
      · cases h; exact .inr (.inr rfl)
      · cases h
    all_goals (cases h; exact .inr (.inl rfl))

/-- `tyOf` never fails -/
theorem tyOf_ne_error (v : Var) (n : Str) (e : Error) : v.tyOf n ≠ .error e := by
  intro ht
  unfold tyOf at ht
  split at ht
  · cases ht
  · split at ht
    · cases ht
    · split at ht <;> cases ht

/-- **the exact condition of OUT OF MEMORY in `store`** (after the repair of D23): the pool holds more
    than 65 535 entries AND the name is not in the pool yet — whatever the value.  A name the pool
    holds is never refused for lack of room. -/
theorem store_oom_iff (v : Var) (n : Str) (x : Val) :
    (∃ e, v.store n x = .error e ∧ e.code = Code.outOfMemory) ↔
      (v.vars.length > 65535 ∧ AL.contains n v.vars = false) := by
  constructor
  · rintro ⟨e, he, hc⟩
    by_cases hcond : v.vars.length > 65535 ∧ ¬ AL.contains n v.vars = true
    · exact ⟨hcond.1, by simpa using hcond.2⟩
    · exfalso
      unfold store at he
      rw [if_neg hcond] at he
      cases ht : v.tyOf n with
      | error e' => exact tyOf_ne_error v n e' ht
      | ok ot =>
        rw [ht] at he
        cases ot with
        | none =>
          cases he
          cases hc
        | some t =>
          have he' : v.insertTy t n x = .error e := he
          rw [insertTy_eq_conv] at he'
          cases hcv : convTo t x with
          | ok y => rw [hcv] at he'; cases he'
          | error e' =>
            rw [hcv] at he'
            cases he'
            rcases convTo_error_code hcv with h | h | h <;> (rw [h] at hc; cases hc)
  · rintro ⟨hlen, hn⟩
    exact ⟨Error.mk' Code.outOfMemory, store_full v n x hlen hn, rfl⟩

/-- a full pool (65 536 entries, or more) refuses exactly the NEW names: every store to a name it does
    not hold is OUT OF MEMORY, whatever the value -/
theorem full_pool_refuses_new_names (v : Var) (h : v.vars.length > 65535) (n : Str) (x : Val)
    (hn : AL.contains n v.vars = false) : v.store n x = err Code.outOfMemory :=
  store_full v n x h hn

theorem get_of_contains {l : List (Str × Val)} {n : Str} (hc : AL.contains n l = true) :
    ∃ old, AL.get n l = some old := AL.contains_iff.1 hc

/-- **"setting variables back to 0 or the empty string frees their slots" — on ANY pool**, a full
    one included (D23 repaired): a variable that holds a value, assigned a value whose conversion `y` to
    the variable's type is a default (`0`, `±0.0`, `""`): the store SUCCEEDS, the key is removed, and
    the pool is at least one entry smaller — exactly one with distinct keys.  No hypothesis on the size
    of the pool. -/
theorem store_default_frees_any_pool (v : Var) (n : Str) (x y : Val) (t : VarTy)
    (hc : AL.contains n v.vars = true) (ht : v.tyOf n = .ok (some t)) (hy : convTo t x = .ok y)
    (hd : isDefault y = true) :
    ∃ v', v.store n x = .ok v' ∧ v'.vars = AL.erase n v.vars ∧ AL.get n v'.vars = none ∧
      v'.vars.length + 1 ≤ v.vars.length ∧ (AL.NoDup v.vars → v'.vars.length + 1 = v.vars.length) := by
  have hs : v.store n x = .ok (v.updateVal n y) := by
    rw [store_eq_conv v n x t (.inr hc) ht, hy]; rfl
  have hv : (v.updateVal n y).vars = AL.erase n v.vars := by unfold updateVal; rw [if_pos hd]
  refine ⟨_, hs, hv, ?_, ?_, ?_⟩
  · rw [hv]; exact AL.get_erase_self n v.vars
  · rw [hv]; exact AL.length_erase_lt_of_contains hc
  · intro hnd
    obtain ⟨old, hold⟩ := get_of_contains hc
    rw [hv]; exact length_erase_of_get hnd hold

/-- **overwriting a variable that holds a value works on ANY pool**, a full one included: the store
    succeeds, the variable holds the converted value, the pool has not grown — with distinct keys it
    has exactly the size it had -/
theorem store_overwrite_any_pool (v : Var) (n : Str) (x y : Val) (t : VarTy)
    (hc : AL.contains n v.vars = true) (ht : v.tyOf n = .ok (some t)) (hy : convTo t x = .ok y)
    (hd : isDefault y = false) :
    ∃ v', v.store n x = .ok v' ∧ v'.vars = AL.set n y v.vars ∧ AL.get n v'.vars = some y ∧
      v'.vars.length ≤ v.vars.length ∧ (AL.NoDup v.vars → v'.vars.length = v.vars.length) := by
  have hs : v.store n x = .ok (v.updateVal n y) := by
    rw [store_eq_conv v n x t (.inr hc) ht, hy]; rfl
  have hv : (v.updateVal n y).vars = AL.set n y v.vars := by
    unfold updateVal; rw [if_neg (by rw [hd]; exact Bool.false_ne_true)]
  refine ⟨_, hs, hv, ?_, ?_, ?_⟩
  · rw [hv]; exact AL.get_set_self n y v.vars
  · rw [hv]; exact AL.length_set_le_of_contains y hc
  · intro hnd
    obtain ⟨old, hold⟩ := get_of_contains hc
    rw [hv, AL.set_eq, List.length_cons]
    exact length_erase_of_get hnd hold

/-! ### non-vacuity (Integer variables) -/

/-- `A% = 5`, then `A% = 0.4` (Single 0.4 = 0x3ECCCCCD): the test is made on the converted value `0` -/
example : convTo .integer (.sng 0x3ECCCCCD) = .ok (.int 0) := by decide
example : ((Var.new.store "A%".toList (.int 5)).toOption.bind
    (fun v => (v.store "A%".toList (.sng 0x3ECCCCCD)).toOption.map (·.vars))) = some [] := by decide
example : ((Var.new.store "A%".toList (.int 5)).toOption.map (·.vars)) = some [("A%".toList, .int 5)] := by decide
/-- `A% = -0.4` converts (floor) to `-1`: not a default, the slot stays -/
example : ((Var.new.store "A%".toList (.sng 0xBECCCCCD)).toOption.map (·.vars)) =
    some [("A%".toList, .int (-1))] := by decide
example : ((Var.new.store "A$".toList (.str ['x'])).toOption.bind
    (fun v => (v.store "A$".toList (.str [])).toOption.map (·.vars))) = some [] := by decide
/-- a pool of 65 536 entries whose first is `A% = 5`: `A% = 0` succeeds and leaves 65 535 entries,
    `A% = 7` succeeds and keeps 65 536, a new name is OUT OF MEMORY -/
def fullPool : Var := { vars := ("A%".toList, .int 5) :: List.replicate 65535 ("B%".toList, Val.int 1) }

theorem fullPool_length : fullPool.vars.length = 65536 := by
  show (List.replicate 65535 _).length + 1 = _
  rw [List.length_replicate]

theorem fullPool_contains : AL.contains "A%".toList fullPool.vars = true := rfl

example : ∃ v', fullPool.store "A%".toList (.int 0) = .ok v' ∧ AL.get "A%".toList v'.vars = none ∧
    v'.vars.length + 1 ≤ 65536 := by
  obtain ⟨v', h1, _, h3, h4, _⟩ := store_default_frees_any_pool fullPool "A%".toList (.int 0) (.int 0) .integer
    fullPool_contains rfl rfl rfl
  exact ⟨v', h1, h3, by rw [← fullPool_length]; exact h4⟩
example : ∃ v', fullPool.store "A%".toList (.int 7) = .ok v' ∧ AL.get "A%".toList v'.vars = some (.int 7) ∧
    v'.vars.length ≤ 65536 := by
  obtain ⟨v', h1, _, h3, h4, _⟩ := store_overwrite_any_pool fullPool "A%".toList (.int 7) (.int 7) .integer
    fullPool_contains rfl rfl rfl
  exact ⟨v', h1, h3, by rw [← fullPool_length]; exact h4⟩
example : fullPool.store "C%".toList (.int 1) = err Code.outOfMemory :=
  full_pool_refuses_new_names fullPool (by rw [fullPool_length]; decide) _ _ (by
    show (AL.get "C%".toList fullPool.vars).isSome = false
    have : AL.get "C%".toList fullPool.vars = none := by
      rw [AL.get_none_iff]
      intro p hp
      simp only [fullPool, List.mem_cons, List.mem_replicate] at hp
      rcases hp with rfl | ⟨_, rfl⟩ <;> decide
    rw [this]; rfl)
example : NoDefaults { vars := [("A%".toList, .int 5)] } := by
  intro p hp
  simp only [List.mem_singleton] at hp
  subst hp; rfl
example : ¬ NoDefaults { vars := [("A%".toList, .int 0)] } := fun h => by
  have := h ("A%".toList, .int 0) (List.mem_singleton.2 rfl)
  cases this

end Lemmas.VarPool
end Basic
