import BasicModel.Lemmas.ContLine
/-
  `Program.Linked` is an invariant of the session: every direct line leaves a linked program
  (nothing pending, no open WHILE, `directAddress` set and within the code), and — when nothing
  was edited — the same `directAddress`.  So the hypothesis `Linked s.program` of the CONT
  theorems holds for whatever program the direct line RUN (GOTO …) that started `s` left.
-/
namespace Basic

namespace Link

theorem linkOne_unlinked (l : Link) (a : Nat) (c : Col) (sym : Symbol) :
    (l.linkOne a c sym).1.unlinked = l.unlinked := by
  unfold linkOne
  cases l.symbols.lookup sym with
  | none => dsimp only; split <;> rfl
  | some v => rcases v with ⟨od, dd⟩; dsimp only; split <;> rfl

theorem linkOne_ops_size (l : Link) (a : Nat) (c : Col) (sym : Symbol) :
    (l.linkOne a c sym).1.ops.size = l.ops.size := by
  unfold linkOne
  cases l.symbols.lookup sym with
  | none => dsimp only; split <;> rfl
  | some v =>
    rcases v with ⟨od, dd⟩
    dsimp only
    split <;> first | rfl | exact Array.size_setIfInBounds

/-- the loop of `link` keeps any property of links that `linkOne` keeps -/
theorem link_foldl_inv (P : Link → Prop) (hP : ∀ l a c s, P l → P (l.linkOne a c s).1)
    (pending : List (Nat × (Col × Symbol))) (le : Link × List Error) (h : P le.1) :
    P (pending.foldl (fun (x : Link × List Error) (y : Nat × (Col × Symbol)) =>
        match x, y with
        | (l, errs), (a, (c, s)) =>
          match linkOne l a c s with
          | (l, some e) => (l, errs ++ [e])
          | (l, none) => (l, errs)) le).1 := by
  induction pending generalizing le with
  | nil => exact h
  | cons y rest ih =>
    rcases le with ⟨l, errs⟩
    rcases y with ⟨a, c, s⟩
    simp only [List.foldl_cons]
    apply ih
    have := hP l a c s h
    generalize linkOne l a c s = lo at this ⊢
    rcases lo with ⟨l', o⟩
    cases o <;> exact this

theorem link_unlinked (l : Link) : (l.link).1.unlinked = [] := by
  unfold link
  generalize l.linkWhiles = lw
  rcases lw with ⟨l1, errs1⟩
  dsimp only
  exact link_foldl_inv (fun l => l.unlinked = []) (fun l a c s h => (linkOne_unlinked l a c s).trans h)
    _ ({ l1 with unlinked := [] }, errs1) rfl

theorem link_ops_size (l : Link) : (l.link).1.ops.size = l.ops.size := by
  unfold link
  have hw : (l.linkWhiles).1.ops = l.ops := by unfold linkWhiles; rfl
  generalize l.linkWhiles = lw at hw ⊢
  rcases lw with ⟨l1, errs1⟩
  dsimp only at hw ⊢
  rw [← hw]
  exact link_foldl_inv (fun l => l.ops.size = l1.ops.size)
    (fun l a c s h => (linkOne_ops_size l a c s).trans h) _ ({ l1 with unlinked := [] }, errs1) rfl

/-- appending a fragment never shortens the code -/
theorem append_ops_size (l f : Link) : l.ops.size ≤ (l.append f).1.ops.size := by
  unfold append
  split
  · exact Nat.le_refl _
  · dsimp only
    split
    · dsimp only; rw [Array.size_append]; omega
    · dsimp only; rw [Array.size_append]; omega

end Link

namespace Codegen

theorem appendAll_ops_size (frags : List (Col × Link)) : ∀ (l : Link) (errs : List Error),
    l.ops.size ≤ (codegen.appendAll frags l errs).1.ops.size := by
  induction frags with
  | nil => intro l errs; exact Nat.le_refl _
  | cons f rest ih =>
    intro l errs
    rcases f with ⟨c, f⟩
    unfold codegen.appendAll
    have := Link.append_ops_size l f
    generalize l.append f = la at this ⊢
    rcases la with ⟨l', r⟩
    cases r with
    | error e => exact this
    | ok u => exact Nat.le_trans this (ih l' errs)

theorem codegen_ops_size (l : Link) (ast : List Stmt) : l.ops.size ≤ (codegen l ast).1.ops.size := by
  unfold codegen
  exact appendAll_ops_size _ l _

end Codegen

namespace Program

theorem linkProg_unlinked (p : Program) : (p.linkProg).link.unlinked = [] := by
  rw [linkProg_eq]
  have h2 : (resolve (ensureEnd p)).link.unlinked = [] := by
    unfold resolve
    have := Link.link_unlinked (ensureEnd p).link
    generalize (ensureEnd p).link.link = ll at this ⊢
    rcases ll with ⟨l, es⟩
    dsimp only at this ⊢
    split <;> exact this
  unfold markDirect
  split
  · exact h2
  · exact h2

theorem ensureEnd_ops (p : Program) :
    p.link.ops.size ≤ (ensureEnd p).link.ops.size ∧ 0 < (ensureEnd p).link.ops.size ∧
    (ensureEnd p).directAddress = p.directAddress := by
  rcases ensureEnd_cases p with he | he
  · rw [he]
    refine ⟨Nat.le_refl _, ?_, rfl⟩
    -- `ensureEnd p = p` only when the code already ends with `End`
    unfold ensureEnd at he
    split at he
    · rename_i hb
      cases hsz : p.link.ops.size with
      | zero =>
        have : p.link.ops = #[] := Array.eq_empty_of_size_eq_zero hsz
        rw [this] at hb; cases hb
      | succ n => omega
    · have := congrArg (fun q => q.link.ops.size) he
      unfold pushEndP Link.push at this
      dsimp only at this
      split at this <;> (dsimp only at this; rw [Array.size_push] at this; omega)
  · rw [he]
    dsimp only
    rw [Array.size_push]
    exact ⟨Nat.le_succ _, Nat.succ_pos _, rfl⟩

theorem resolve_ops (p : Program) :
    (resolve p).link.ops.size = p.link.ops.size ∧ (resolve p).directAddress = p.directAddress := by
  unfold resolve
  have := Link.link_ops_size p.link
  generalize p.link.link = ll at this ⊢
  rcases ll with ⟨l, es⟩
  dsimp only at this ⊢
  split <;> exact ⟨this, rfl⟩

/-- after `linkProg` the direct code is marked, and it lies within the code if it did before -/
theorem linkProg_direct (p : Program) (hp : p.directAddress ≤ p.link.ops.size) :
    (p.linkProg).directAddress ≠ 0 ∧ (p.linkProg).directAddress ≤ (p.linkProg).link.ops.size ∧
    (p.directAddress ≠ 0 → (p.linkProg).directAddress = p.directAddress) := by
  rw [linkProg_eq]
  obtain ⟨e1, e2, e3⟩ := ensureEnd_ops p
  obtain ⟨r1, r2⟩ := resolve_ops (ensureEnd p)
  unfold markDirect
  split
  · rename_i h0
    dsimp only [Link.setStartOfDirect]
    refine ⟨by omega, Nat.le_refl _, ?_⟩
    intro hne
    rw [r2, e3] at h0
    exact absurd h0 hne
  · rename_i h0
    refine ⟨h0, ?_, fun _ => by rw [r2, e3]⟩
    rw [r1, r2, e3]
    omega

/-- every direct line leaves a linked program, provided the direct code of the program it is
    compiled onto lies within the code (trivially so before the first link: `directAddress = 0`) -/
theorem linked_codegenLine (p : Program) (line : Line) (hn : line.number = none)
    (hp : p.directAddress ≤ p.link.ops.size) :
    Linked (p.codegenLine line).linkProg ∧
    (p.directAddress ≠ 0 → (p.codegenLine line).linkProg.directAddress = p.directAddress) := by
  obtain ⟨d1, d2, d3⟩ := linkProg_direct p hp
  -- the program handed to the final link
  have hq : (p.codegenLine line).directAddress = p.linkProg.directAddress ∧
      (p.codegenLine line).directAddress ≤ (p.codegenLine line).link.ops.size := by
    unfold codegenLine
    simp only [hn, Option.isNone_none, if_true]
    have hbase : (p.linkProg.link.ops.extract 0 p.linkProg.directAddress).size = p.linkProg.directAddress := by
      rw [Array.size_extract]; omega
    split
    · exact ⟨rfl, by dsimp only; rw [hbase]; exact Nat.le_refl _⟩
    · rename_i ast _
      have hcg := Codegen.codegen_ops_size
        ({ p.linkProg.link with ops := p.linkProg.link.ops.extract 0 p.linkProg.directAddress } : Link) ast
      dsimp only at hcg
      rw [hbase] at hcg
      generalize Codegen.codegen
        ({ p.linkProg.link with ops := p.linkProg.link.ops.extract 0 p.linkProg.directAddress } : Link) ast = cg at hcg ⊢
      rcases cg with ⟨cl, ce⟩
      dsimp only at hcg ⊢
      unfold Link.push
      dsimp only
      split <;> (refine ⟨rfl, ?_⟩; dsimp only; rw [Array.size_push]; omega)
  obtain ⟨f1, f2, f3⟩ := linkProg_direct (p.codegenLine line) hq.2
  refine ⟨⟨linkProg_unlinked _, linkProg_whiles _, f1, f2⟩, ?_⟩
  intro hne
  rw [f3 (by rw [hq.1]; exact d1), hq.1, d3 hne]

end Program

namespace Runtime

/-- a direct line entered at a linked program that was not edited leaves a linked program with
    the same `directAddress` -/
theorem enterDirect_linked (s : Runtime) (line : Line) (hn : line.number = none) (hd : s.dirty = false)
    (hl : Program.Linked s.program) :
    Program.Linked (enterDirect s line).program ∧
    (enterDirect s line).program.directAddress = s.program.directAddress := by
  rw [enterDirect_clean_eq s line hd]
  have := Program.linked_codegenLine s.program line hn hl.inside
  exact ⟨this.1, this.2 hl.direct⟩

end Runtime
end Basic
