import BasicModel.Thm.C08
import BasicModel.Spec.Eval
/-
  The one-argument built-in functions (C02): result TYPE per argument type, the value where it can
  be stated exactly (Integers; floats are opaque bit patterns, their values stay "the model's float
  operation applied to the argument"), and TYPE MISMATCH for an argument of the wrong kind.

  `Spec.funcTy` and `Spec.takesString` are the documented table, written by hand from chapter 3 of
  the manual; the theorems `builtin1_result_type` and `builtin1_type_mismatch` go over the whole
  table `Spec.builtin1Table` (the functions `Spec.eval` calls, proved to be what the VM executes in
  `Lemmas/ExprCompile.builtin1_spec`).
-/
set_option linter.unusedSimpArgs false
namespace Basic
namespace Spec

/-- the functions of one argument whose argument is a string -/
def stringArgFunctions : List String := ["ASC", "LEN", "VAL"]

def takesString (name : String) : Bool := stringArgFunctions.contains name

/-- type of a transcendental function's result: computed in Single unless the argument is a Double -/
def floatTy : Ty → Ty
  | .dbl => .dbl
  | _ => .sng

/-- **the documented result type** by function name and argument type; `none` where the type
    depends on the value (ASC: Integer up to 32767, Single above; VAL: Integer for `&H…`/`&…` text,
    Double otherwise) -/
def funcTy (name : String) (arg : Ty) : Option Ty :=
  if name ∈ ["ABS", "INT", "FIX"] then some arg
  else if name ∈ ["SGN", "CINT", "LEN"] then some .int
  else if name = "CSNG" then some .sng
  else if name = "CDBL" then some .dbl
  else if name ∈ ["ATN", "COS", "EXP", "LOG", "SIN", "SQR", "TAN"] then some (floatTy arg)
  else if name ∈ ["CHR$", "HEX$", "OCT$", "SPC", "STR$"] then some .str
  else none

end Spec

namespace Lemmas.NumFunc
open Spec RStd F Thm.C08

/-! ### ABS -/

/-- ABS keeps the type of its argument -/
theorem abs_ty {v r : Val} (h : Func.abs v = .ok r) : r.ty = v.ty := by
  cases v <;> simp only [Func.abs, err, Except.ok.injEq, reduceCtorEq] at h
  · subst h; rfl
  · subst h; rfl
  · rename_i n
    cases hc : checkedAbs n <;> simp [hc] at h
    subst h; rfl

/-- on floats it is the IEEE absolute value and cannot fail -/
theorem abs_sng (b : UInt32) : Func.abs (.sng b) = .ok (.sng (b32 (f32 b).abs)) := rfl
theorem abs_dbl (b : UInt64) : Func.abs (.dbl b) = .ok (.dbl (b64 (f64 b).abs)) := rfl

/-- on Integers: exactly |n|, or OVERFLOW — which happens for −32768 only -/
theorem abs_int (n : Int16) :
    (n.toInt ≠ -32768 → ∃ r, Func.abs (.int n) = .ok (.int r) ∧ r.toInt = n.toInt.natAbs) ∧
    (n.toInt = -32768 → Func.abs (.int n) = err Code.overflow) := by
  have hr := toInt_range n
  constructor
  · intro h
    exact (abs_checked n).1 (by simp only [InRange] at hr ⊢; omega)
  · intro h
    exact (abs_checked n).2 (by simp only [InRange]; omega)

/-! ### SGN -/

theorem sgn_int (n : Int16) :
    Func.sgn (.int n) = .ok (.int (if n = 0 then 0 else if n.toInt < 0 then -1 else 1)) := rfl

/-- SGN is an Integer: −1, 0 or 1 — for every numeric argument -/
theorem sgn_values {v r : Val} (h : Func.sgn v = .ok r) : r = .int (-1) ∨ r = .int 0 ∨ r = .int 1 := by
  cases v <;> simp only [Func.sgn, err, Except.ok.injEq, reduceCtorEq] at h <;> subst h
  · split
    · exact .inr (.inl rfl)
    · split
      · exact .inl rfl
      · exact .inr (.inr rfl)
  · split
    · exact .inr (.inl rfl)
    · split
      · exact .inl rfl
      · exact .inr (.inr rfl)
  · split
    · exact .inr (.inl rfl)
    · split
      · exact .inl rfl
      · exact .inr (.inr rfl)

theorem sgn_ty {v r : Val} (h : Func.sgn v = .ok r) : r.ty = .int := by
  rcases sgn_values h with rfl | rfl | rfl <;> rfl

/-- the Integer case against the mathematical sign -/
theorem sgn_int_sign (n : Int16) : ∃ r, Func.sgn (.int n) = .ok (.int r) ∧ r.toInt = n.toInt.sign := by
  refine ⟨_, sgn_int n, ?_⟩
  by_cases h0 : n = 0
  · subst h0; rfl
  · have hne : n.toInt ≠ 0 := by
      intro h; apply h0
      have : n = Int16.ofInt n.toInt := (Int16.ofInt_toInt n).symm
      rw [this, h]; rfl
    rw [if_neg h0]
    by_cases hneg : n.toInt < 0
    · rw [if_pos hneg, Int.sign_eq_neg_one_of_neg hneg]; rfl
    · rw [if_neg hneg, Int.sign_eq_one_of_pos (by omega)]; rfl

/-! ### INT and FIX -/

/-- INT and FIX keep the type of the argument; an Integer is returned unchanged -/
theorem int_ty {v r : Val} (h : Func.int v = .ok r) : r.ty = v.ty := by
  cases v <;> simp only [Func.int, err, Except.ok.injEq, reduceCtorEq] at h <;> subst h <;> rfl

theorem fix_ty {v r : Val} (h : Func.fix v = .ok r) : r.ty = v.ty := by
  cases v <;> simp only [Func.fix, err, Except.ok.injEq, reduceCtorEq] at h <;> subst h <;> rfl

theorem int_int (n : Int16) : Func.int (.int n) = .ok (.int n) := rfl
theorem fix_int (n : Int16) : Func.fix (.int n) = .ok (.int n) := rfl

/-- INT is the floor … -/
theorem int_sng (b : UInt32) : Func.int (.sng b) = .ok (.sng (b32 (f32 b).floor)) := rfl
theorem int_dbl (b : UInt64) : Func.int (.dbl b) = .ok (.dbl (b64 (f64 b).floor)) := rfl

/-- … FIX the truncation: towards zero, i.e. the ceiling of a negative number, the floor otherwise -/
theorem fix_sng (b : UInt32) :
    Func.fix (.sng b) = .ok (.sng (b32 (if f32 b < 0 then (f32 b).ceil else (f32 b).floor))) := rfl
theorem fix_dbl (b : UInt64) :
    Func.fix (.dbl b) = .ok (.dbl (b64 (if f64 b < 0 then (f64 b).ceil else (f64 b).floor))) := rfl

/-! ### CINT -/

theorem cint_eq (v : Val) :
    Func.cint v = match v.toI16 with
      | .ok n => .ok (.int n)
      | .error e => .error e := by
  unfold Func.cint
  cases v.toI16 <;> rfl

theorem cint_ty {v r : Val} (h : Func.cint v = .ok r) : r.ty = .int := by
  rw [cint_eq] at h
  cases hv : v.toI16 <;> simp [hv] at h
  subst h; rfl

theorem cint_int (n : Int16) : Func.cint (.int n) = .ok (.int n) := rfl

/-- CINT of a float is its FLOOR (not the nearest Integer) when that lies in −32768..32767, and
    OVERFLOW otherwise — NaN and the infinities included (`Thm.C08.float_to_int`) -/
theorem cint_float (v : Val) (hv : v.ty = .sng ∨ v.ty = .dbl) :
    Func.cint v = match v.floorZ with
      | some z => if InRange z then .ok (.int (Int16.ofInt z)) else err Code.overflow
      | none => err Code.overflow := by
  rw [cint_eq, float_to_int v hv]
  cases v.floorZ with
  | none => rfl
  | some z =>
    by_cases hz : InRange z
    · simp only []; rw [if_pos hz, if_pos hz]
    · simp only []; rw [if_neg hz, if_neg hz]; rfl

/-- … and the Integer returned is exactly ⌊x⌋ -/
theorem cint_float_exact (v : Val) (hv : v.ty = .sng ∨ v.ty = .dbl) (n : Int16)
    (h : Func.cint v = .ok (.int n)) : v.floorZ = some n.toInt := by
  rw [cint_eq] at h
  cases ht : v.toI16 with
  | error e => simp [ht] at h
  | ok m =>
    simp only [ht, Except.ok.injEq, Val.int.injEq] at h
    subst h
    exact float_to_int_exact v m ht hv

/-! ### CSNG, CDBL -/

theorem csng_ty {v r : Val} (h : Func.csng v = .ok r) : r.ty = .sng := by
  cases v <;> simp only [Func.csng, err, Except.ok.injEq, reduceCtorEq] at h <;> subst h <;> rfl

theorem cdbl_ty {v r : Val} (h : Func.cdbl v = .ok r) : r.ty = .dbl := by
  cases v <;> simp only [Func.cdbl, err, Except.ok.injEq, reduceCtorEq] at h <;> subst h <;> rfl

/-- a value that already has the type is returned unchanged -/
theorem csng_sng (b : UInt32) : Func.csng (.sng b) = .ok (.sng b) := rfl
theorem cdbl_dbl (b : UInt64) : Func.cdbl (.dbl b) = .ok (.dbl b) := rfl

/-- the conversions proper: `i16 as f32`, `f64 as f32` (IEEE rounding to nearest; a Double beyond the
    Single range becomes an infinity, there is no OVERFLOW), `i16 as f64`, `f32 as f64` (exact) -/
theorem csng_int (n : Int16) : Func.csng (.int n) = .ok (.sng (b32 (i2s n))) := rfl
theorem csng_dbl (b : UInt64) : Func.csng (.dbl b) = .ok (.sng (b32 (d2s (f64 b)))) := rfl
theorem cdbl_int (n : Int16) : Func.cdbl (.int n) = .ok (.dbl (b64 (i2d n))) := rfl
theorem cdbl_sng (b : UInt32) : Func.cdbl (.sng b) = .ok (.dbl (b64 (s2d (f32 b)))) := rfl

/-- neither conversion fails on a number -/
theorem csng_total (v : Val) (hv : v.isNumeric = true) : ∃ b, Func.csng v = .ok (.sng b) := by
  cases v <;> simp [Val.isNumeric] at hv <;> exact ⟨_, rfl⟩
theorem cdbl_total (v : Val) (hv : v.isNumeric = true) : ∃ b, Func.cdbl v = .ok (.dbl b) := by
  cases v <;> simp [Val.isNumeric] at hv <;> exact ⟨_, rfl⟩

/-! ### SQR and the other functions computed in floating point -/

theorem num1_ty {fs : Float32 → Float32} {fd : Float → Float} {v r : Val}
    (h : Func.num1 fs fd v = .ok r) : r.ty = floatTy v.ty := by
  cases v <;> simp only [Func.num1, err, Except.ok.injEq, reduceCtorEq] at h <;> subst h <;> rfl

/-- they are total on numbers: no argument raises an error -/
theorem num1_total (fs : Float32 → Float32) (fd : Float → Float) (v : Val) (hv : v.isNumeric = true) :
    ∃ r, Func.num1 fs fd v = .ok r := by
  cases v <;> simp [Val.isNumeric] at hv <;> exact ⟨_, rfl⟩

/-- SQR: Single for an Integer or Single argument, Double for a Double … -/
theorem sqr_ty {v r : Val} (h : Func.sqr v = .ok r) : r.ty = floatTy v.ty := num1_ty h

/-- … and it is the IEEE square root: a NEGATIVE argument is not an error (the result is a NaN) -/
theorem sqr_no_error (v : Val) (hv : v.isNumeric = true) : ∃ r, Func.sqr v = .ok r :=
  num1_total _ _ v hv

theorem sqr_int (n : Int16) : Func.sqr (.int n) = .ok (.sng (b32 (i2s n).sqrt)) := rfl
theorem sqr_sng (b : UInt32) : Func.sqr (.sng b) = .ok (.sng (b32 (f32 b).sqrt)) := rfl
theorem sqr_dbl (b : UInt64) : Func.sqr (.dbl b) = .ok (.dbl (b64 (f64 b).sqrt)) := rfl

/-! ### LEN, ASC, VAL -/

theorem len_str (s : Str) :
    Func.len (.str s) = if s.length ≤ 32767 then .ok (.int (Int16.ofNat s.length)) else err Code.overflow := rfl

theorem len_ty {v r : Val} (h : Func.len v = .ok r) : r.ty = .int := by
  cases v <;> simp only [Func.len, Val.toStr, err, bind, Except.bind, reduceCtorEq] at h
  simp only [Val.ofUsize] at h
  split at h
  · cases h; rfl
  · cases h

theorem char_code_lt (c : Char) : c.toNat < 1114112 := by
  have := c.valid
  simp only [UInt32.isValidChar, Nat.isValidChar] at this
  show c.val.toNat < 1114112
  omega

/-- ASC is the code of the first character: an Integer up to 32767, a Single above (every Unicode
    code is below 2^24, so the Double branch of the code is dead); ILLEGAL FUNCTION CALL for "" -/
theorem asc_str (c : Char) (s : Str) :
    Func.asc (.str (c :: s)) =
      if c.toNat ≤ 32767 then .ok (.int (Int16.ofNat c.toNat)) else .ok (.sng (b32 (Float32.ofNat c.toNat))) := by
  have := char_code_lt c
  simp only [Func.asc, Val.toStr, bind, Except.bind]
  split
  · rfl
  · rw [if_pos (by omega)]

theorem asc_empty : Func.asc (.str []) = err Code.illegalFunctionCall := rfl

theorem asc_ty {v r : Val} (h : Func.asc v = .ok r) : r.ty = .int ∨ r.ty = .sng := by
  cases v <;> try (simp [Func.asc, Val.toStr, bind, Except.bind, err] at h; done)
  rename_i s
  cases s with
  | nil => simp [asc_empty, err] at h
  | cons c s =>
    rw [asc_str] at h
    split at h <;> cases h
    · exact .inl rfl
    · exact .inr rfl

theorem val_go_ty (fuel : Nat) (s : Str) : (Func.val.go fuel s).ty = .int ∨ (Func.val.go fuel s).ty = .dbl := by
  induction fuel generalizing s with
  | zero => exact .inl rfl
  | succ n ih =>
    unfold Func.val.go
    split
    · exact .inl rfl
    · have hof : ∀ w, Val.ofStr s = w → w.ty = .str ∨ w.ty = .int ∨ w.ty = .dbl := by
        intro w hw
        subst hw
        unfold Val.ofStr
        simp only []
        split
        · rename_i v hv
          -- the radix reading is an Integer
          split at hv <;> try (cases hv; done)
          rename_i rest
          split at hv
          · split at hv
            · obtain ⟨n, _, rfl⟩ := Option.map_eq_some_iff.1 hv; exact .inr (.inl rfl)
            · obtain ⟨n, _, rfl⟩ := Option.map_eq_some_iff.1 hv; exact .inr (.inl rfl)
          · cases hv
        · split
          · exact .inr (.inr rfl)
          · exact .inl rfl
      split
      · exact ih _
      · rename_i w hw hns
        rcases hof _ rfl with h | h | h
        · exfalso
          cases hv : Val.ofStr s <;> simp [hv, Val.ty] at h
          exact hns _ hv
        · exact .inl h
        · exact .inr h

/-- VAL returns a number: an Integer when the text is a radix constant, otherwise a Double (`VAL("12")`
    is a Double, not an Integer) -/
theorem val_ty {v r : Val} (h : Func.val v = .ok r) : r.ty = .int ∨ r.ty = .dbl := by
  cases v <;> simp only [Func.val, err, Except.ok.injEq, reduceCtorEq] at h
  subst h
  exact val_go_ty _ _

/-! ### the whole table: result types -/

theorem mem_builtin1Table {name : String} {f : Val → Res Val} (h : (name, f) ∈ builtin1Table) :
    (name = "ABS" ∧ f = Func.abs) ∨ (name = "ASC" ∧ f = Func.asc) ∨ (name = "ATN" ∧ f = Func.atn) ∨
    (name = "CDBL" ∧ f = Func.cdbl) ∨ (name = "CHR$" ∧ f = Func.chr) ∨ (name = "CINT" ∧ f = Func.cint) ∨
    (name = "COS" ∧ f = Func.cos) ∨ (name = "CSNG" ∧ f = Func.csng) ∨ (name = "EXP" ∧ f = Func.exp) ∨
    (name = "FIX" ∧ f = Func.fix) ∨ (name = "HEX$" ∧ f = Func.hex) ∨ (name = "INT" ∧ f = Func.int) ∨
    (name = "LEN" ∧ f = Func.len) ∨ (name = "LOG" ∧ f = Func.log) ∨ (name = "OCT$" ∧ f = Func.oct) ∨
    (name = "SGN" ∧ f = Func.sgn) ∨ (name = "SIN" ∧ f = Func.sin) ∨ (name = "SPC" ∧ f = Func.spc) ∨
    (name = "SQR" ∧ f = Func.sqr) ∨ (name = "STR$" ∧ f = Func.str) ∨ (name = "TAN" ∧ f = Func.tan) ∨
    (name = "VAL" ∧ f = Func.val) := by
  simpa [builtin1Table] using h

theorem bind_ok' {α β : Type} {x : Res α} {f : α → Res β} {b : β} (h : (x >>= f) = .ok b) :
    ∃ a, x = .ok a ∧ f a = .ok b := by
  cases x with
  | error e => cases h
  | ok a => exact ⟨a, rfl, h⟩

theorem chr_ty {v r : Val} (h : Func.chr v = .ok r) : r.ty = .str := by
  obtain ⟨n, _, h2⟩ := bind_ok' h
  split at h2 <;> cases h2; rfl

theorem hex_ty {v r : Val} (h : Func.hex v = .ok r) : r.ty = .str := by
  obtain ⟨n, _, h2⟩ := bind_ok' h
  cases h2; rfl

theorem oct_ty {v r : Val} (h : Func.oct v = .ok r) : r.ty = .str := by
  obtain ⟨n, _, h2⟩ := bind_ok' h
  cases h2; rfl

theorem spc_ty {v r : Val} (h : Func.spc v = .ok r) : r.ty = .str := by
  obtain ⟨n, _, h2⟩ := bind_ok' h
  split at h2 <;> cases h2; rfl

theorem str_ty {v r : Val} (h : Func.str v = .ok r) : r.ty = .str := by
  unfold Func.str at h
  split at h <;> cases h; rfl

/-- **result types of the documented one-argument functions**: whenever a call succeeds, its result
    has the type `Spec.funcTy` gives for the function's name and the argument's type -/
theorem builtin1_result_type {name : String} {f : Val → Res Val} (hm : (name, f) ∈ builtin1Table)
    {v r : Val} {t : Ty} (h : f v = .ok r) (ht : funcTy name v.ty = some t) : r.ty = t := by
  rcases mem_builtin1Table hm with ⟨rfl, rfl⟩ | ⟨rfl, rfl⟩ | ⟨rfl, rfl⟩ | ⟨rfl, rfl⟩ | ⟨rfl, rfl⟩ |
    ⟨rfl, rfl⟩ | ⟨rfl, rfl⟩ | ⟨rfl, rfl⟩ | ⟨rfl, rfl⟩ | ⟨rfl, rfl⟩ | ⟨rfl, rfl⟩ | ⟨rfl, rfl⟩ |
    ⟨rfl, rfl⟩ | ⟨rfl, rfl⟩ | ⟨rfl, rfl⟩ | ⟨rfl, rfl⟩ | ⟨rfl, rfl⟩ | ⟨rfl, rfl⟩ | ⟨rfl, rfl⟩ |
    ⟨rfl, rfl⟩ | ⟨rfl, rfl⟩ | ⟨rfl, rfl⟩
  · have e : ∀ a : Ty, funcTy "ABS" a = some a := by intro a; cases a <;> decide
    rw [e] at ht; cases ht; exact abs_ty h
  · have e : ∀ a : Ty, funcTy "ASC" a = none := by intro a; cases a <;> decide
    rw [e] at ht; cases ht
  · have e : ∀ a : Ty, funcTy "ATN" a = some (floatTy a) := by intro a; cases a <;> decide
    rw [e] at ht; cases ht; exact num1_ty h
  · have e : ∀ a : Ty, funcTy "CDBL" a = some .dbl := by intro a; cases a <;> decide
    rw [e] at ht; cases ht; exact cdbl_ty h
  · have e : ∀ a : Ty, funcTy "CHR$" a = some .str := by intro a; cases a <;> decide
    rw [e] at ht; cases ht; exact chr_ty h
  · have e : ∀ a : Ty, funcTy "CINT" a = some .int := by intro a; cases a <;> decide
    rw [e] at ht; cases ht; exact cint_ty h
  · have e : ∀ a : Ty, funcTy "COS" a = some (floatTy a) := by intro a; cases a <;> decide
    rw [e] at ht; cases ht; exact num1_ty h
  · have e : ∀ a : Ty, funcTy "CSNG" a = some .sng := by intro a; cases a <;> decide
    rw [e] at ht; cases ht; exact csng_ty h
  · have e : ∀ a : Ty, funcTy "EXP" a = some (floatTy a) := by intro a; cases a <;> decide
    rw [e] at ht; cases ht; exact num1_ty h
  · have e : ∀ a : Ty, funcTy "FIX" a = some a := by intro a; cases a <;> decide
    rw [e] at ht; cases ht; exact fix_ty h
  · have e : ∀ a : Ty, funcTy "HEX$" a = some .str := by intro a; cases a <;> decide
    rw [e] at ht; cases ht; exact hex_ty h
  · have e : ∀ a : Ty, funcTy "INT" a = some a := by intro a; cases a <;> decide
    rw [e] at ht; cases ht; exact int_ty h
  · have e : ∀ a : Ty, funcTy "LEN" a = some .int := by intro a; cases a <;> decide
    rw [e] at ht; cases ht; exact len_ty h
  · have e : ∀ a : Ty, funcTy "LOG" a = some (floatTy a) := by intro a; cases a <;> decide
    rw [e] at ht; cases ht; exact num1_ty h
  · have e : ∀ a : Ty, funcTy "OCT$" a = some .str := by intro a; cases a <;> decide
    rw [e] at ht; cases ht; exact oct_ty h
  · have e : ∀ a : Ty, funcTy "SGN" a = some .int := by intro a; cases a <;> decide
    rw [e] at ht; cases ht; exact sgn_ty h
  · have e : ∀ a : Ty, funcTy "SIN" a = some (floatTy a) := by intro a; cases a <;> decide
    rw [e] at ht; cases ht; exact num1_ty h
  · have e : ∀ a : Ty, funcTy "SPC" a = some .str := by intro a; cases a <;> decide
    rw [e] at ht; cases ht; exact spc_ty h
  · have e : ∀ a : Ty, funcTy "SQR" a = some (floatTy a) := by intro a; cases a <;> decide
    rw [e] at ht; cases ht; exact num1_ty h
  · have e : ∀ a : Ty, funcTy "STR$" a = some .str := by intro a; cases a <;> decide
    rw [e] at ht; cases ht; exact str_ty h
  · have e : ∀ a : Ty, funcTy "TAN" a = some (floatTy a) := by intro a; cases a <;> decide
    rw [e] at ht; cases ht; exact num1_ty h
  · have e : ∀ a : Ty, funcTy "VAL" a = none := by intro a; cases a <;> decide
    rw [e] at ht; cases ht

/-! ### the whole table: TYPE MISMATCH -/

/-- **a string handed to a numeric function, or a number handed to a string function, is
    TYPE MISMATCH** — for every function of the table -/
theorem builtin1_type_mismatch {name : String} {f : Val → Res Val} (hm : (name, f) ∈ builtin1Table) :
    (takesString name = false → ∀ s : Str, f (.str s) = err Code.typeMismatch) ∧
    (takesString name = true → ∀ v : Val, v.isNumeric = true → f v = err Code.typeMismatch) := by
  rcases mem_builtin1Table hm with ⟨rfl, rfl⟩ | ⟨rfl, rfl⟩ | ⟨rfl, rfl⟩ | ⟨rfl, rfl⟩ | ⟨rfl, rfl⟩ |
    ⟨rfl, rfl⟩ | ⟨rfl, rfl⟩ | ⟨rfl, rfl⟩ | ⟨rfl, rfl⟩ | ⟨rfl, rfl⟩ | ⟨rfl, rfl⟩ | ⟨rfl, rfl⟩ |
    ⟨rfl, rfl⟩ | ⟨rfl, rfl⟩ | ⟨rfl, rfl⟩ | ⟨rfl, rfl⟩ | ⟨rfl, rfl⟩ | ⟨rfl, rfl⟩ | ⟨rfl, rfl⟩ |
    ⟨rfl, rfl⟩ | ⟨rfl, rfl⟩ | ⟨rfl, rfl⟩
  all_goals
    first
    | exact ⟨fun _ s => rfl, fun h => absurd h (by decide)⟩
    | exact ⟨fun h => absurd h (by decide),
        fun _ v hv => by cases v <;> simp [Val.isNumeric] at hv <;> rfl⟩

end Lemmas.NumFunc
end Basic
