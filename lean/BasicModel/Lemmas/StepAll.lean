import BasicModel.Lemmas.Step
/-
  Frame properties that hold for the instructions that can return events as well:
  `KeepListing` (all but DELETE / RENUM / NEW) and `Weak` (all instructions).
-/
namespace Basic
namespace Runtime
variable {α β : Type}

/-! ### `KeepListing` -/

structure KeepListing (s t : Runtime) : Prop where
  eq : t.listing = s.listing

instance : FrameRel KeepListing where
  refl _ := ⟨rfl⟩
  trans h1 h2 := ⟨h2.eq.trans h1.eq⟩

instance : QuietImplies KeepListing where
  imp h := ⟨h.listing⟩

theorem keepListing_doEnd (s : Runtime) : KeepListing s (doEnd s) := by
  constructor; unfold doEnd; dsimp only; split <;> split <;> rfl

macro_rules | `(tactic| frame_rel) => `(tactic| exact ⟨rfl⟩)
macro_rules | `(tactic| frame_rel) => `(tactic| exact keepListing_doEnd _)

theorem keepListing_doCont : Frame KeepListing doCont := by unfold doCont; frame
theorem keepListing_doInput (n : Str) : Frame KeepListing (doInput n) := by unfold doInput; frame
theorem keepListing_doList : Frame KeepListing doList := by unfold doList; frame
theorem keepListing_doPrint : Frame KeepListing doPrint := by unfold doPrint; frame
theorem keepListing_fileOp (mk : Str → Event) (b : Bool) : Frame KeepListing (fileOp mk b) := by
  unfold fileOp; frame

macro_rules | `(tactic| frame_known) => `(tactic| with_reducible exact FrameFrom.of_frame keepListing_doCont)
macro_rules | `(tactic| frame_known) => `(tactic| with_reducible exact FrameFrom.of_frame (keepListing_doInput _))
macro_rules | `(tactic| frame_known) => `(tactic| with_reducible exact FrameFrom.of_frame keepListing_doList)
macro_rules | `(tactic| frame_known) => `(tactic| with_reducible exact FrameFrom.of_frame keepListing_doPrint)
macro_rules | `(tactic| frame_known) => `(tactic| with_reducible exact FrameFrom.of_frame (keepListing_fileOp _ _))

/-- the instructions that edit the stored program -/
def editsListing : Opcode → Bool
  | .delete | .renum | .new => true
  | _ => false

theorem execOp_keepListing (env : Env) (h : Bool) (op : Opcode) (hop : editsListing op = false) :
    Frame KeepListing (execOp env h op) := by
  by_cases hev : isEventOp op = false
  · exact Frame.of_quiet (execOp_quiet env h op hev)
  · cases op <;> first
      | (simp [isEventOp] at hev; done)
      | (simp [editsListing] at hop; done)
      | (simp only [execOp]; frame)

/-! ### `Weak`: what every instruction leaves alone -/

/-- neither `state` nor `cont` is `intro` (true after the first `execute`) -/
def NoIntro (s : Runtime) : Prop := s.state ≠ .intro ∧ s.cont ≠ .intro

structure Weak (s t : Runtime) : Prop where
  entry : t.entryAddress = s.entryAddress
  prompt : t.prompt = s.prompt
  ops : t.program.link.ops = s.program.link.ops
  data : t.program.link.data = s.program.link.data
  symbols : t.program.link.symbols = s.program.link.symbols
  errors : t.program.errors = s.program.errors
  indirectErrors : t.program.indirectErrors = s.program.indirectErrors
  directAddress : t.program.directAddress = s.program.directAddress
  noIntro : NoIntro s → NoIntro t

instance : FrameRel Weak where
  refl _ := ⟨rfl, rfl, rfl, rfl, rfl, rfl, rfl, rfl, id⟩
  trans h1 h2 :=
    ⟨h2.entry.trans h1.entry, h2.prompt.trans h1.prompt, h2.ops.trans h1.ops, h2.data.trans h1.data,
     h2.symbols.trans h1.symbols, h2.errors.trans h1.errors,
     h2.indirectErrors.trans h1.indirectErrors, h2.directAddress.trans h1.directAddress,
     fun h => h2.noIntro (h1.noIntro h)⟩

instance : QuietImplies Weak where
  imp {s t} h := ⟨h.entry, h.prompt, h.ops, h.data, h.symbols, h.errors, h.indirectErrors, h.directAddress,
    fun ⟨h1, h2⟩ => ⟨h.state ▸ h1, h.cont.elim (fun e => e ▸ h2) (fun e => by rw [e]; nofun)⟩⟩

macro "weak" : tactic =>
  `(tactic| (constructor <;> first
      | rfl
      | (intro ⟨h1, h2⟩; constructor <;> first | exact h1 | exact h2 | (intro h; cases h))))

theorem weak_doEnd (s : Runtime) : Weak s (doEnd s) := by
  unfold doEnd; dsimp only
  split <;> split <;> weak

theorem weak_doNew (env : Env) (s : Runtime) : Weak s (doNew env s) := by weak

macro_rules | `(tactic| frame_rel) => `(tactic| weak)
macro_rules | `(tactic| frame_rel) => `(tactic| exact weak_doEnd _)
macro_rules | `(tactic| frame_rel) => `(tactic| exact weak_doNew _ _)

theorem weak_doCont : Frame Weak doCont := by unfold doCont; frame
theorem weak_doInput (n : Str) : Frame Weak (doInput n) := by unfold doInput; frame
theorem weak_doList : Frame Weak doList := by unfold doList; frame
theorem weak_doPrint : Frame Weak doPrint := by unfold doPrint; frame
theorem weak_fileOp (mk : Str → Event) (b : Bool) : Frame Weak (fileOp mk b) := by
  unfold fileOp; frame
theorem weak_doDelete : Frame Weak doDelete := by unfold doDelete; frame
theorem weak_doRenum (env : Env) : Frame Weak (doRenum env) := by unfold doRenum; frame

macro_rules | `(tactic| frame_known) => `(tactic| with_reducible exact FrameFrom.of_frame weak_doCont)
macro_rules | `(tactic| frame_known) => `(tactic| with_reducible exact FrameFrom.of_frame (weak_doInput _))
macro_rules | `(tactic| frame_known) => `(tactic| with_reducible exact FrameFrom.of_frame weak_doList)
macro_rules | `(tactic| frame_known) => `(tactic| with_reducible exact FrameFrom.of_frame weak_doPrint)
macro_rules | `(tactic| frame_known) => `(tactic| with_reducible exact FrameFrom.of_frame (weak_fileOp _ _))
macro_rules | `(tactic| frame_known) => `(tactic| with_reducible exact FrameFrom.of_frame weak_doDelete)
macro_rules | `(tactic| frame_known) => `(tactic| with_reducible exact FrameFrom.of_frame (weak_doRenum _))

theorem execOp_weak (env : Env) (h : Bool) (op : Opcode) : Frame Weak (execOp env h op) := by
  by_cases hev : isEventOp op = false
  · exact Frame.of_quiet (execOp_quiet env h op hev)
  · cases op <;> first
      | (simp [isEventOp] at hev; done)
      | (simp only [execOp]; frame)

/-- every step, whatever it returns, leaves the compiled code, the entry address and the prompt
    alone, and never brings back the `intro` state -/
theorem step_weak (env : Env) (h : Bool) (s : Runtime) : Weak s ((step env h).run.run s).2 :=
  step_frame env h s fun op _ => execOp_weak env h op

/-- every step other than DELETE / RENUM / NEW leaves the listing alone -/
theorem step_keepListing (env : Env) (h : Bool) (s : Runtime)
    (hop : ∀ op, s.program.link.ops[s.pc]? = some op → editsListing op = false) :
    ((step env h).run.run s).2.listing = s.listing :=
  (step_frame (R := KeepListing) env h s fun op hq => execOp_keepListing env h op (hop op hq)).eq

end Runtime
end Basic
