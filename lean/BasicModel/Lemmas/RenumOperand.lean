import BasicModel.Lemmas.RenumVisit
/-
  RENUM and the compiler, part 5: the statements with line-number operands.
  The operand of GOTO n … is a literal leaf; visiting it pushes the one-instruction fragment
  `litFrag v` on the expression stack, and the statement's generator pops it again at once.
-/
namespace Basic
namespace RenumRel
open Link Codegen

variable {φ : Nat → Nat} {α α' β β' : Type}

/-- the fragment of a literal leaf -/
def litFrag (v : Val) : Link := { ops := #[.literal v] }

variable (φ) in
/-- operand fragments: a line number renumbered, or no line number on both sides -/
inductive OpFrag : Col × Link → Col × Link → Prop
  | line (c c' : Col) {v v' : Val} {n : Nat} : v.toLineNumber = .ok (some n) → v'.toLineNumber = .ok (some (φ n)) →
      OpFrag (c, litFrag v) (c', litFrag v')
  | other (c c' : Col) {v : Val} : (∀ n, v.toLineNumber ≠ .ok (some n)) → OpFrag (c, litFrag v) (c', litFrag v)

variable (φ) in
/-- operand fragments of LIST / DELETE: a line number renumbered or kept -/
inductive RangeFrag : Col × Link → Col × Link → Prop
  | mk (c c' : Col) {v v' : Val} {n n' : Nat} : v.toLineNumber = .ok (some n) → v'.toLineNumber = .ok (some n') →
      RangeImg φ n n' → RangeFrag (c, litFrag v) (c', litFrag v')

variable (φ) in
/-- the generator state with given fragments on top of the expression stack, the rest related;
    `k` instructions still fit into the fragment under construction -/
def Top (k : Nat) (xs xs' : List (Col × Link)) (g g' : GState) : Prop :=
  ∃ pre pre', g.expr.toList = pre ++ xs ∧ g'.expr.toList = pre' ++ xs' ∧ All₂ (EntryRel φ) pre pre' ∧
    All₂ (VarItemRel φ) g.var.toList g'.var.toList ∧ All₂ (EntryRel φ) g.stmt.toList g'.stmt.toList ∧
    FragRel φ g.cur g'.cur ∧ g.cur.ops.size + k ≤ Gen.stackMaxLen

theorem Top.grel {k : Nat} {g g' : GState} (h : Top φ k [] [] g g') : GRel φ g g' := by
  obtain ⟨pre, pre', h1, h2, h3, h4, h5, h6, _⟩ := h
  rw [List.append_nil] at h1 h2
  exact ⟨h4, by rw [h1, h2]; exact h3, h5, h6⟩

theorem Top.room {k : Nat} {xs xs' : List (Col × Link)} {g g' : GState} (h : Top φ k xs xs' g g') :
    g.cur.ops.size + k ≤ Gen.stackMaxLen ∧ g'.cur.ops.size + k ≤ Gen.stackMaxLen := by
  obtain ⟨pre, pre', h1, h2, h3, h4, h5, h6, h7⟩ := h
  exact ⟨h7, by rw [h6.size]; exact h7⟩

/-- `popExpr` takes the top fragment -/
theorem gr_popExpr_top (k : Nat) (xs xs' : List (Col × Link)) (x x' : Col × Link) :
    GR φ (Top φ k (xs ++ [x]) (xs' ++ [x'])) popExpr popExpr
      (fun a a' g g' => a = x ∧ a' = x' ∧ Top φ k xs xs' g g') := by
  constructor
  intro g g' hg
  obtain ⟨pre, pre', h1, h2, h3, h4, h5, h6, h7⟩ := hg
  simp only [popExpr, g_bind, g_get]
  rw [back?_eq_getLast?, back?_eq_getLast?, h1, h2, ← List.append_assoc, ← List.append_assoc,
    List.getLast?_concat, List.getLast?_concat]
  refine ⟨rfl, rfl, pre, pre', ?_, ?_, h3, h4, h5, h6, h7⟩
  · show g.expr.pop.toList = _
    rw [Array.toList_pop, h1, ← List.append_assoc, List.dropLast_concat]
  · show g'.expr.pop.toList = _
    rw [Array.toList_pop, h2, ← List.append_assoc, List.dropLast_concat]

/-- `popNExpr` takes the top fragments -/
theorem gr_popNExpr_top (k : Nat) (xs xs' : List (Col × Link)) (n : Nat) (hn : xs.length = n) (hn' : xs'.length = n) :
    GR φ (Top φ k xs xs') (popNExpr n) (popNExpr n)
      (fun a a' g g' => a = xs ∧ a' = xs' ∧ GRel φ g g' ∧ g.cur.ops.size + k ≤ Gen.stackMaxLen) := by
  constructor
  intro g g' hg
  obtain ⟨pre, pre', h1, h2, h3, h4, h5, h6, h7⟩ := hg
  have hs : g.expr.size = pre.length + n := by rw [← Array.length_toList, h1, List.length_append, hn]
  have hs' : g'.expr.size = pre'.length + n := by rw [← Array.length_toList, h2, List.length_append, hn']
  have e1 : (g.expr.extract (g.expr.size - n) g.expr.size).toList = xs := by
    rw [Array.toList_extract, List.extract_eq_take_drop, h1, hs, Nat.add_sub_cancel, List.drop_left,
      Nat.add_sub_cancel_left, ← hn, List.take_length]
  have e1' : (g'.expr.extract (g'.expr.size - n) g'.expr.size).toList = xs' := by
    rw [Array.toList_extract, List.extract_eq_take_drop, h2, hs', Nat.add_sub_cancel, List.drop_left,
      Nat.add_sub_cancel_left, ← hn', List.take_length]
  have e2 : (g.expr.extract 0 (g.expr.size - n)).toList = pre := by
    rw [Array.toList_extract, List.extract_eq_take_drop, h1, hs, Nat.add_sub_cancel, List.drop_zero, Nat.sub_zero,
      List.take_left]
  have e2' : (g'.expr.extract 0 (g'.expr.size - n)).toList = pre' := by
    rw [Array.toList_extract, List.extract_eq_take_drop, h2, hs', Nat.add_sub_cancel, List.drop_zero, Nat.sub_zero,
      List.take_left]
  simp only [popNExpr, g_bind, g_get]
  rw [if_neg (by omega), if_neg (by omega)]
  simp only [g_bind, g_set, g_pure]
  refine ⟨e1, e1', ⟨h4, ?_, h5, h6⟩, h7⟩
  show All₂ _ (g.expr.extract 0 (g.expr.size - n)).toList (g'.expr.extract 0 (g'.expr.size - n)).toList
  rw [e2, e2']
  exact h3

/-- after an exact pop: go on with the generic triples -/
theorem GR.seq_exact {P : GState → GState → Prop} {m : GM α} {m' : GM α'} {f : α → GM β} {f' : α' → GM β'}
    {Q' : β → β' → GState → GState → Prop} {x : α} {x' : α'} {P' : GState → GState → Prop}
    (hm : GR φ P m m' (fun a a' g g' => a = x ∧ a' = x' ∧ P' g g')) (hf : GR φ P' (f x) (f' x') Q') :
    GR φ P (m >>= f) (m' >>= f') Q' := by
  refine GR.seq hm ?_
  intro a a'
  constructor
  rintro g g' ⟨rfl, rfl, hp⟩
  exact hf.run g g' hp

/-! ### what the generator reads from an operand fragment -/

theorem lineNumberOfLink_litFrag (v : Val) : lineNumberOfLink (litFrag v) = v.toLineNumber := rfl

theorem stringOfLink_litFrag (v : Val) :
    stringOfLink (litFrag v) = match v with | .str s => some s | _ => none := by
  cases v <;> rfl

theorem toLineNumber_some {v : Val} {ln : Option Nat} (h : v.toLineNumber = .ok ln) : ∃ n, ln = some n := by
  unfold Val.toLineNumber at h
  cases hu : v.toU16 with
  | error e => rw [hu] at h; cases h
  | ok n =>
    rw [hu] at h
    simp only [bind, Except.bind] at h
    split at h
    · cases h; exact ⟨n, rfl⟩
    · cases h

theorem toLineNumber_str (s : Str) (r : Option Nat) : (Val.str s).toLineNumber ≠ .ok r := by
  intro h
  cases h

theorem lnOf_other {v : Val} (h : ∀ n, v.toLineNumber ≠ .ok (some n)) :
    (match v.toLineNumber with | .ok ln => ln | .error _ => none) = none := by
  cases hv : v.toLineNumber with
  | error e => rfl
  | ok ln =>
    obtain ⟨n, rfl⟩ := toLineNumber_some hv
    exact absurd hv (h n)

theorem toLineNumber_other {v : Val} (h : ∀ n, v.toLineNumber ≠ .ok (some n)) : ∃ e, v.toLineNumber = .error e := by
  cases hv : v.toLineNumber with
  | error e => exact ⟨e, rfl⟩
  | ok ln =>
    obtain ⟨n, rfl⟩ := toLineNumber_some hv
    exact absurd hv (h n)

/-! ### GOTO, GOSUB -/

/-- `exprPopLineNumber` on an operand fragment -/
theorem gr_exprPopLineNumber_op (k : Nat) {x x' : Col × Link} (h : OpFrag φ x x') :
    GR φ (Top φ k [x] [x']) exprPopLineNumber exprPopLineNumber
      (fun r r' g g' => LnRel φ r.2 r'.2 ∧ GRel φ g g') := by
  unfold exprPopLineNumber
  refine GR.seq_exact (P' := Top φ k [] []) (gr_popExpr_top k [] [] x x') ?_
  cases h with
  | line c c' hv hv' =>
    dsimp only
    rw [lineNumberOfLink_litFrag, lineNumberOfLink_litFrag, hv, hv']
    exact GR.ret fun g g' hg => ⟨.line _, hg.grel⟩
  | other c c' hv =>
    dsimp only
    rw [lineNumberOfLink_litFrag]
    obtain ⟨e, he⟩ := toLineNumber_other hv
    rw [he]
    exact GR.thr (ErrRel.inCol (ErrRel.refl e) _ _ _ _) fun g g' hg => hg.grel

theorem gr_gen_goto (k : Nat) (c c' : Col) (e e' : Expr) {x x' : Col × Link} (h : OpFrag φ x x') :
    GR φ (Top φ k [x] [x']) (genStatement (.goto c e)) (genStatement (.goto c' e')) (S φ TT) := by
  simp only [genStatement]
  refine GR.seq (gr_exprPopLineNumber_op k h) ?_
  rintro ⟨sub, ln⟩ ⟨sub', ln'⟩
  refine GR.pre ?_
  intro hl
  dsimp only at hl ⊢
  gr

theorem gr_gen_gosub (k : Nat) (c c' : Col) (e e' : Expr) {x x' : Col × Link} (h : OpFrag φ x x') :
    GR φ (Top φ k [x] [x']) (genStatement (.gosub c e)) (genStatement (.gosub c' e')) (S φ TT) := by
  simp only [genStatement]
  refine GR.seq (gr_exprPopLineNumber_op k h) ?_
  rintro ⟨sub, ln⟩ ⟨sub', ln'⟩
  refine GR.pre ?_
  intro hl
  dsimp only at hl ⊢
  gr

/-! ### RESTORE, RUN -/

theorem gr_gen_restore (k : Nat) (c c' : Col) (e e' : Expr) {x x' : Col × Link} (h : OpFrag φ x x') :
    GR φ (Top φ k [x] [x']) (genStatement (.restore c e)) (genStatement (.restore c' e')) (S φ TT) := by
  simp only [genStatement]
  refine GR.seq_exact (P' := GRel φ) ((gr_popExpr_top k [] [] x x').conseq (fun _ _ h => h)
    (fun _ _ _ _ h => ⟨h.1, h.2.1, h.2.2.grel⟩)) ?_
  cases h with
  | @line c1 c1' v v' n hv hv' =>
    dsimp only
    rw [lineNumberOfLink_litFrag, lineNumberOfLink_litFrag, hv, hv']
    dsimp only
    have hl := LnRel.line (φ := φ) n
    gr
  | @other c1 c1' v hv =>
    dsimp only
    obtain ⟨er, he⟩ := toLineNumber_other hv
    rw [lineNumberOfLink_litFrag, he]
    dsimp only
    have hl := LnRel.none (φ := φ)
    gr

theorem stringOfLink_of_line {v : Val} {r : Option Nat} (h : v.toLineNumber = .ok r) : stringOfLink (litFrag v) = none := by
  cases v with
  | str s => exact absurd h (toLineNumber_str s _)
  | sng _ | dbl _ | int _ | ret _ | nxt _ => rfl

theorem gr_gen_run (k : Nat) (c c' : Col) (e e' : Expr) {x x' : Col × Link} (h : OpFrag φ x x') :
    GR φ (Top φ k [x] [x']) (genStatement (.run c e)) (genStatement (.run c' e')) (S φ TT) := by
  simp only [genStatement]
  refine GR.seq_exact (P' := GRel φ) ((gr_popExpr_top k [] [] x x').conseq (fun _ _ h => h)
    (fun _ _ _ _ h => ⟨h.1, h.2.1, h.2.2.grel⟩)) ?_
  cases h with
  | @line c1 c1' v v' n hv hv' =>
    dsimp only
    rw [stringOfLink_of_line hv, stringOfLink_of_line hv', lineNumberOfLink_litFrag, lineNumberOfLink_litFrag, hv, hv']
    have hl := LnRel.line (φ := φ) n
    dsimp only
    gr
  | @other c1 c1' v hv =>
    dsimp only
    have hl := LnRel.none (φ := φ)
    obtain ⟨er, he⟩ := toLineNumber_other hv
    cases hs : stringOfLink (litFrag v) with
    | some f => dsimp only; gr
    | none =>
      rw [lineNumberOfLink_litFrag, he]
      dsimp only
      gr

end RenumRel
end Basic
