import BasicModel.Spec.PrintStmt
import BasicModel.Lemmas.ExprCompile
import BasicModel.Lemmas.C11
import BasicModel.Lemmas.PrintList
/-
  The PRINT statement end to end (C11): specification `Spec.printSpec` (Spec/PrintStmt.lean) against
  the AST the parser builds, the code the generator emits for it and the run of that code on the VM.

  * `fullItems`, `printAst`, `stmtCode` — the desugared list (`,` is `TAB(Gen.printZone)`, the newline
    item is appended unless the list ends in `;` or `,`), the statement node and its code;
  * `print_list_codegen_shape` — `Codegen.acceptStmt` on `printAst` yields exactly `stmtCode`;
  * `runCollect` — iterate `Runtime.step`, go on through `print` events collecting their texts;
  * `print_run` — running `stmtCode` from any state emits the chunks of `Spec.printSpec`, sets
    `printCol` to its column, restores stack and variables, ends behind the code; or stops in the
    first failing item's error with the chunks written so far.
-/
namespace Basic
namespace Lemmas.PrintRun
open Basic.Spec Basic.Lemmas.ExprCompile

/-! ## the specification: algebra -/

theorem itemText_eq_printText (v : Val) : itemText v = Lemmas.C11.printText v := by
  cases v <;> rfl

theorem printItems_cons_none {vars : Var} {col : Nat} {it : PrItem} (rest : List PrItem)
    (h : itemVal vars col it = none) : printItems vars col (it :: rest) = printItems vars col rest := by
  simp only [printItems, h]

theorem printItems_cons_error {vars : Var} {col : Nat} {it : PrItem} {e : Error} (rest : List PrItem)
    (h : itemVal vars col it = some (.error e)) : printItems vars col (it :: rest) = ⟨[], col, some e⟩ := by
  simp only [printItems, h]

theorem printItems_cons_ok {vars : Var} {col : Nat} {it : PrItem} {v : Val} (rest : List PrItem)
    (h : itemVal vars col it = some (.ok v)) :
    printItems vars col (it :: rest) =
      { chunks := itemText v :: (printItems vars (columnAfter col (itemText v)) rest).chunks,
        col := (printItems vars (columnAfter col (itemText v)) rest).col,
        err := (printItems vars (columnAfter col (itemText v)) rest).err } := by
  simp only [printItems, h]

/-- two lists in sequence: the second starts in the column the first has left; an error in the
    first stops everything -/
theorem printItems_append (vars : Var) (a b : List PrItem) (col : Nat) :
    printItems vars col (a ++ b) =
      if (printItems vars col a).err.isSome then printItems vars col a
      else
        { chunks := (printItems vars col a).chunks ++ (printItems vars (printItems vars col a).col b).chunks,
          col := (printItems vars (printItems vars col a).col b).col,
          err := (printItems vars (printItems vars col a).col b).err } := by
  induction a generalizing col with
  | nil => simp [printItems]
  | cons it rest ih =>
    rw [List.cons_append]
    cases hv : itemVal vars col it with
    | none => rw [printItems_cons_none _ hv, printItems_cons_none _ hv]; exact ih col
    | some r =>
      cases r with
      | error e => rw [printItems_cons_error _ hv, printItems_cons_error _ hv]; rfl
      | ok v =>
        rw [printItems_cons_ok _ hv, printItems_cons_ok _ hv, ih]
        split <;> simp_all

/-- the column of the result is the column function of the transcript -/
theorem printItems_col (vars : Var) (items : List PrItem) (col : Nat) :
    (printItems vars col items).col = columnAfter col (printItems vars col items).text := by
  induction items generalizing col with
  | nil => rfl
  | cons it rest ih =>
    cases hv : itemVal vars col it with
    | none => rw [printItems_cons_none _ hv]; exact ih col
    | some r =>
      cases r with
      | error e => rw [printItems_cons_error _ hv]; rfl
      | ok v =>
        rw [printItems_cons_ok _ hv]
        simp only [PrintResult.text, List.flatten_cons]
        rw [Lemmas.C11.columnAfter_append]
        exact ih _

theorem printSpec_col (vars : Var) (items : List PrItem) (col : Nat) :
    (printSpec vars col items).col = columnAfter col (printSpec vars col items).text := by
  unfold printSpec
  simp only
  split
  · exact printItems_col vars items col
  · simp only [PrintResult.text, List.flatten_append, List.flatten_cons, List.flatten_nil, List.append_nil]
    rw [Lemmas.C11.columnAfter_after_newline]
    rfl

/-! ## the desugared list, the statement node, its code -/

/-- the item a `,` desugars to (`Parse.printList`): `TAB(Gen.printZone)` -/
def zoneExpr (c : Col) : Expr :=
  Expr.var (.array c (.string "TAB".toList) [Expr.integer c Gen.printZone])

def tabCall (c : Col) (e : Expr) : Expr := .var (.array c (.plain "TAB".toList) [e])
def spcCall (c : Col) (e : Expr) : Expr := .var (.array c (.plain "SPC".toList) [e])
def posCall (c : Col) (e : Expr) : Expr := .var (.array c (.plain "POS".toList) [e])

/-- what an item becomes in the parsed list, with the code of that expression: nothing for `;`, one
    expression otherwise -/
def itemArg : PrItem → List (Expr × List Opcode)
  | .expr e => [(e, flat e)]
  | .semi => []
  | .comma c => [(zoneExpr c, [.literal (.int Gen.printZone), .tab])]
  | .tab c e => [(tabCall c e, flat e ++ [.tab])]
  | .spc c e => [(spcCall c e, flat e ++ [.spc])]
  | .pos c e => [(posCall c e, flat e ++ [.literal (.int 1), .pos])]

/-- the newline item the parser appends (recorded at column range `cn`) -/
def newlineItem (cn : Col) : PrItem := .expr (.string cn ['\n'])

/-- the list with the implicit newline made explicit -/
def fullItems (cn : Col) (items : List PrItem) : List PrItem :=
  if endsOpen items then items else items ++ [newlineItem cn]

/-- the expressions of the parsed list -/
def astExprs (items : List PrItem) : List Expr := (items.flatMap itemArg).map (·.1)

/-- **the statement node** of `PRINT items` -/
def printAst (c cn : Col) (items : List PrItem) : Stmt := .print c (astExprs (fullItems cn items))

/-- the code of one item: its expression's code, then `print` -/
def itemCode (it : PrItem) : List Opcode := (itemArg it).flatMap fun p => p.2 ++ [Opcode.print]

def printCode (items : List PrItem) : List Opcode := items.flatMap itemCode

/-- **the code** of `PRINT items` -/
def stmtCode (items : List PrItem) : List Opcode :=
  printCode items ++ if endsOpen items then [] else [.literal (.str ['\n']), .print]

theorem printCode_append (a b : List PrItem) : printCode (a ++ b) = printCode a ++ printCode b := by
  simp [printCode]

theorem printCode_cons (it : PrItem) (rest : List PrItem) : printCode (it :: rest) = itemCode it ++ printCode rest := by
  simp [printCode]

theorem stmtCode_eq (cn : Col) (items : List PrItem) : printCode (fullItems cn items) = stmtCode items := by
  unfold fullItems stmtCode
  split
  · simp
  · rw [printCode_append]; rfl

theorem printCode_eq_flatMap (items : List PrItem) :
    printCode items = (items.flatMap itemArg).flatMap fun p => p.2 ++ [Opcode.print] := by
  simp only [printCode, List.flatMap_assoc]
  rfl

/-- the newline item writes a newline: column 0 -/
theorem printItems_newline (vars : Var) (col : Nat) (cn : Col) :
    printItems vars col [newlineItem cn] = ⟨[['\n']], 0, none⟩ := rfl

/-- the implicit newline, made explicit, means the same -/
theorem printSpec_eq_full (vars : Var) (col : Nat) (cn : Col) (items : List PrItem) :
    printSpec vars col items = printItems vars col (fullItems cn items) := by
  unfold printSpec fullItems
  cases ho : endsOpen items with
  | true => simp
  | false =>
    simp only [Bool.or_false, Bool.false_eq_true, if_false]
    rw [printItems_append, printItems_newline]

/-- `,` means what `TAB(Gen.printZone)` computes -/
theorem tab_printZone (col : Nat) : Func.tab col (.int Gen.printZone) = .ok (.str (zoneBlanks col)) := by
  have hz : Gen.printZone.toInt = -14 := by decide
  rw [Lemmas.C11.tab_int, hz]
  simp [zoneBlanks, zoneWidth]

/-! ## the shape of the generated code -/

section codegen
open Basic.Codegen Basic.Link

/-- visiting `x` pushes exactly one plain fragment with code `code` and reports nothing -/
def Compiles (x : Expr) (code : List Opcode) : Prop :=
  ∀ (v : Array VarItem) (ex st : Array (Col × Link)) (cur : Link) (errs : List Error),
    code.length ≤ Gen.stackMaxLen →
    ∃ c, acceptExpr x ⟨⟨v, ex, st, cur⟩, errs⟩ = ⟨⟨v, ex.push (c, plain code.toArray), st, cur⟩, errs⟩

theorem compiles_pure {e : Expr} (hp : Pure e) : Compiles e (flat e) := acceptExpr_shape_mk hp

/-- a call of a built-in of arity exactly one on an argument of the fragment (TAB is the case that
    `Spec.Pure` leaves out) -/
theorem compiles_call1 (c : Col) (i : TIdent) {e : Expr} (oc : Opcode)
    (ho : Gen.opcodeAndArity i.name = some (oc, 1, 1)) (hp : Pure e) :
    Compiles (.var (.array c i [e])) (flat e ++ [oc]) := by
  intro v ex st cur errs hlen
  simp only [List.length_append, List.length_cons, List.length_nil] at hlen
  obtain ⟨c1, ih⟩ := acceptExpr_shape_mk hp v ex st cur errs (by omega)
  refine ⟨c, ?_⟩
  simp only [acceptExpr, acceptVar, acceptExprs]
  rw [ih]
  rw [visitVariable_mk (.array c i [e]) errs v _ st cur (c, i.name, some 1) _
    (genVariable_call_run c i e c1 _ _ _ _ (by simp; omega))]
  have hg : ((genExpression (.var (.array c i [e]))).run).run
      ⟨v.push ⟨c, i.name, plain (flat e).toArray, some 1⟩, ex, st, {}⟩ =
      (.ok c, ⟨v, ex, st, plain ((flat e).toArray.push oc)⟩) := by
    show (((popVar >>= fun v => pushAsExpression v : GM Col)).run).run _ = _
    rw [grun_bind, popVar_mk]; dsimp only
    exact pushAsExpression_call_run c i.name oc ho _ _ _ _ (by simp; omega)
  rw [visitExpression_mk _ errs _ ex st cur c _ hg]
  simp only [List.push_toArray]

/-- a one-argument call of a built-in of arity 0..1 (POS): the argument's code, the count 1, the opcode -/
theorem pushAsExpression_call01_run (c : Col) (name : Str) (oc : Opcode)
    (ho : Gen.opcodeAndArity name = some (oc, 0, 1))
    (pv : Array VarItem) (ex st : Array (Col × Link)) (xs : Array Opcode) (h : xs.size + 2 ≤ Gen.stackMaxLen) :
    ((pushAsExpression ⟨c, name, plain xs, some 1⟩).run).run ⟨pv, ex, st, {}⟩ =
      (.ok c, ⟨pv, ex, st, plain ((xs.push (.literal (.int 1))).push oc)⟩) := by
  unfold pushAsExpression
  rw [plain_empty, grun_bind, lappend_mk _ _ _ _ _ (by simp; omega)]; dsimp only
  simp only [ho, Array.empty_append]
  simp only [decide_true, decide_false, Bool.and_false, Bool.false_eq_true, if_false,
    Nat.zero_le, Nat.le_refl, Bool.and_self, if_true, ne_eq, Nat.zero_ne_one, not_false_eq_true,
    Nat.succ_ne_self, Option.isNone_some]
  rw [grun_bind, grun_bind, grun_lenVal _ _ (by decide)]; dsimp only
  rw [grun_bind, lpush_mk _ _ _ _ _ (by omega)]; dsimp only
  rw [grun_bind, lpush_mk _ _ _ _ _ (by simp only [Array.size_push]; omega)]; dsimp only
  rw [grun_pure]; dsimp only
  simp only [if_true, grun_pure]
  rfl

theorem compiles_call01 (c : Col) (i : TIdent) {e : Expr} (oc : Opcode)
    (ho : Gen.opcodeAndArity i.name = some (oc, 0, 1)) (hp : Pure e) :
    Compiles (.var (.array c i [e])) (flat e ++ [.literal (.int 1), oc]) := by
  intro v ex st cur errs hlen
  simp only [List.length_append, List.length_cons, List.length_nil] at hlen
  obtain ⟨c1, ih⟩ := acceptExpr_shape_mk hp v ex st cur errs (by omega)
  refine ⟨c, ?_⟩
  simp only [acceptExpr, acceptVar, acceptExprs]
  rw [ih]
  rw [visitVariable_mk (.array c i [e]) errs v _ st cur (c, i.name, some 1) _
    (genVariable_call_run c i e c1 _ _ _ _ (by simp; omega))]
  have hg : ((genExpression (.var (.array c i [e]))).run).run
      ⟨v.push ⟨c, i.name, plain (flat e).toArray, some 1⟩, ex, st, {}⟩ =
      (.ok c, ⟨v, ex, st, plain (((flat e).toArray.push (.literal (.int 1))).push oc)⟩) := by
    show (((popVar >>= fun v => pushAsExpression v : GM Col)).run).run _ = _
    rw [grun_bind, popVar_mk]; dsimp only
    exact pushAsExpression_call01_run c i.name oc ho _ _ _ _ (by simp; omega)
  rw [visitExpression_mk _ errs _ ex st cur c _ hg]
  dsimp only
  congr 5
  apply Array.ext'
  simp

/-- every expression of a well-formed item compiles to the code listed next to it -/
theorem itemArg_compiles {it : PrItem} (hok : it.Ok) : ∀ p ∈ itemArg it, Compiles p.1 p.2 := by
  intro p hp
  cases it with
  | expr e =>
    simp only [itemArg, List.mem_cons, List.not_mem_nil, or_false] at hp
    subst hp; exact compiles_pure hok
  | semi => cases hp
  | comma c =>
    simp only [itemArg, List.mem_cons, List.not_mem_nil, or_false] at hp
    subst hp
    exact compiles_call1 c _ .tab rfl (.integer c Gen.printZone)
  | tab c e =>
    simp only [itemArg, List.mem_cons, List.not_mem_nil, or_false] at hp
    subst hp; exact compiles_call1 c _ .tab rfl hok
  | spc c e =>
    simp only [itemArg, List.mem_cons, List.not_mem_nil, or_false] at hp
    subst hp; exact compiles_call1 c _ .spc rfl hok
  | pos c e =>
    simp only [itemArg, List.mem_cons, List.not_mem_nil, or_false] at hp
    subst hp; exact compiles_call01 c _ .pos rfl hok

theorem items_compile {items : List PrItem} (hok : ∀ it ∈ items, it.Ok) :
    ∀ p ∈ items.flatMap itemArg, Compiles p.1 p.2 := by
  intro p hp
  obtain ⟨it, hit, hp⟩ := List.mem_flatMap.1 hp
  exact itemArg_compiles (hok it hit) p hp

/-- visiting a list of expressions: one fragment each, in order -/
theorem acceptExprs_compiles : ∀ (ps : List (Expr × List Opcode)), (∀ p ∈ ps, Compiles p.1 p.2) →
    ∀ (v : Array VarItem) (ex st : Array (Col × Link)) (cur : Link) (errs : List Error),
      (ps.flatMap (·.2)).length ≤ Gen.stackMaxLen →
      ∃ frs : List (Col × Link), frs.map (·.2) = ps.map (fun p => plain p.2.toArray) ∧
        acceptExprs (ps.map (·.1)) ⟨⟨v, ex, st, cur⟩, errs⟩ = ⟨⟨v, ex ++ frs.toArray, st, cur⟩, errs⟩
  | [], _, v, ex, st, cur, errs, _ => ⟨[], rfl, by simp [acceptExprs]⟩
  | p :: rest, hp, v, ex, st, cur, errs, hlen => by
    rw [List.flatMap_cons, List.length_append] at hlen
    obtain ⟨c, h1⟩ := hp p List.mem_cons_self v ex st cur errs (by omega)
    obtain ⟨frs, hfr, h2⟩ := acceptExprs_compiles rest (fun x hx => hp x (List.mem_cons_of_mem _ hx)) v
      (ex.push (c, plain p.2.toArray)) st cur errs (by omega)
    refine ⟨(c, plain p.2.toArray) :: frs, by simp [hfr], ?_⟩
    simp only [List.map_cons, acceptExprs]
    rw [h1, h2]
    congr 2
    apply Array.ext'; simp

/-- the loop of `genStatement (.print ..)`: each fragment, then `print` -/
theorem forIn_print (f : Col × Link → PUnit → GM (ForInStep PUnit))
    (hf : ∀ (x : Col × Link) (ys : Array Opcode) (r : PUnit) (v : Array VarItem) (ex st : Array (Col × Link))
      (xs : Array Opcode), x.2 = plain ys → xs.size + ys.size + 1 ≤ Gen.stackMaxLen →
      ((f x r).run).run ⟨v, ex, st, plain xs⟩ = (.ok (.yield ⟨⟩), ⟨v, ex, st, plain ((xs ++ ys).push .print)⟩)) :
    ∀ (frs : List (Col × Link)) (ps : List (Expr × List Opcode)),
      frs.map (·.2) = ps.map (fun p => plain p.2.toArray) →
      ∀ (v : Array VarItem) (ex st : Array (Col × Link)) (xs : Array Opcode),
        xs.size + (ps.flatMap fun p => p.2 ++ [Opcode.print]).length ≤ Gen.stackMaxLen →
        ((forIn frs PUnit.unit f).run).run ⟨v, ex, st, plain xs⟩ =
          (.ok ⟨⟩, ⟨v, ex, st, plain (xs ++ (ps.flatMap fun p => p.2 ++ [Opcode.print]).toArray)⟩)
  | [], [], _, v, ex, st, xs, _ => by
    simp only [List.forIn_nil, grun_pure, List.flatMap_nil]
    rw [show xs ++ ([] : List Opcode).toArray = xs by simp]
  | [], _ :: _, h, _, _, _, _, _ => by cases h
  | _ :: _, [], h, _, _, _, _, _ => by cases h
  | x :: frs, p :: ps, h, v, ex, st, xs, hb => by
    simp only [List.map_cons, List.cons.injEq] at h
    rw [List.flatMap_cons, List.length_append, List.length_append, List.length_singleton] at hb
    rw [List.forIn_cons, grun_bind, hf x p.2.toArray ⟨⟩ v ex st xs h.1 (by simp only [List.size_toArray]; omega)]
    simp only
    rw [forIn_print f hf frs ps h.2 v ex st _
      (by simp only [Array.size_push, Array.size_append, List.size_toArray]; omega)]
    congr 3
    apply Array.ext'; simp

/-- **Codegen shape of a PRINT list.**  For a statement node whose items are the expressions `ps`
    (each compiling to the code next to it): one statement fragment, code = every item's code
    followed by `print`, in order; nothing reported -/
theorem print_exprs_codegen_shape (ps : List (Expr × List Opcode)) (hps : ∀ p ∈ ps, Compiles p.1 p.2)
    (c : Col) (s : VState)
    (hlen : (ps.flatMap fun p => p.2 ++ [Opcode.print]).length ≤ Gen.stackMaxLen) :
    acceptStmt (.print c (ps.map (·.1))) s =
      { s with g := { s.g with
          stmt := s.g.stmt.push (c, plain (ps.flatMap fun p => p.2 ++ [Opcode.print]).toArray) } } := by
  obtain ⟨⟨v, ex, st, cur⟩, errs⟩ := s
  have hle : (ps.flatMap (·.2)).length ≤ (ps.flatMap fun p => p.2 ++ [Opcode.print]).length := by
    clear hps hlen
    induction ps with
    | nil => simp
    | cons p ps ih => simp only [List.flatMap_cons, List.length_append, List.length_singleton]; omega
  obtain ⟨frs, hfr, h1⟩ := acceptExprs_compiles ps hps v ex st cur errs (by omega)
  simp only [acceptStmt]
  rw [h1]
  have hl : (ps.map (·.1)).length = frs.length := by
    have := congrArg List.length hfr
    simpa using this.symm
  have hg : ((genStatement (.print c (ps.map (·.1)))).run).run ⟨v, ex ++ frs.toArray, st, {}⟩ =
      (.ok c, ⟨v, ex, st, plain (ps.flatMap fun p => p.2 ++ [Opcode.print]).toArray⟩) := by
    simp only [genStatement]
    have hp := popNExpr_run ⟨v, ex ++ frs.toArray, st, {}⟩ ex frs rfl
    simp only [hl]
    rw [grun_bind, hp]; dsimp only
    show StateT.run (ExceptT.run _) (⟨v, ex, st, plain #[]⟩ : GState) = _
    rw [grun_bind, forIn_print _ _ frs ps hfr v ex st #[] (by simpa using hlen)]
    · rw [Array.empty_append]
      rfl
    · intro x ys r v ex st xs hx hb
      obtain ⟨col, ops⟩ := x
      simp only at hx
      subst hx
      simp only [grun_bind, lappend_mk _ _ _ _ _ (show xs.size + ys.size ≤ Gen.stackMaxLen by omega),
        lpush_mk _ _ _ _ _ (show (xs ++ ys).size + 1 ≤ Gen.stackMaxLen by simp only [Array.size_append]; omega),
        grun_pure]
  rw [visitStatement_mk _ errs _ _ st cur _ _ hg]

/-- **`PRINT items`**, as the parser builds it (`printAst`), compiles to `stmtCode items` -/
theorem print_list_codegen_shape (c cn : Col) (items : List PrItem) (hok : ∀ it ∈ items, it.Ok)
    (s : VState) (hlen : (stmtCode items).length ≤ Gen.stackMaxLen) :
    acceptStmt (printAst c cn items) s =
      { s with g := { s.g with stmt := s.g.stmt.push (c, plain (stmtCode items).toArray) } } := by
  have hok' : ∀ it ∈ fullItems cn items, it.Ok := by
    intro it hit
    unfold fullItems at hit
    split at hit
    · exact hok it hit
    · rcases List.mem_append.1 hit with h | h
      · exact hok it h
      · simp only [List.mem_cons, List.not_mem_nil, or_false] at h
        subst h; exact Pure.string cn ['\n']
  rw [← stmtCode_eq cn, printCode_eq_flatMap] at hlen ⊢
  exact print_exprs_codegen_shape _ (items_compile hok') c s hlen

end codegen

/-! ## running the code -/

section vm
open Basic.Runtime
open Basic.Lemmas.VmDispatch (rr_bind rr_pure rr_set rr_get rr_liftE_ok rr_liftE_error)
open Basic.Lemmas.C17 (run_pop_push run_push_room)

/-- `print` (trace off) on a stack `st, item`: the event carries the item's text, the tracked column
    becomes the column after that text, the item is gone; nothing else changes -/
theorem run_step_print (env : Env) (hie : Bool) (s : Runtime) (st : Array Val) (item : Val)
    (htr : s.tron = false) (hop : s.program.link.ops[s.pc]? = some .print) (hst : s.stack = st.push item) :
    ((step env hie).run).run s =
      (.ok (.event (.print (itemText item))),
       { s with pc := s.pc + 1, stack := st, printCol := columnAfter s.printCol (itemText item) }) := by
  obtain ⟨prompt, listing, dirty, program, pc, tr, tron, entryAddress, stack, vars, state, cont, contPc, printCol,
    rand, functions⟩ := s
  simp only at htr hop hst
  subst htr; subst hst
  unfold step
  simp only [run_bind, run_get, Bool.false_eq_true, if_false, run_pure, hop, run_set]
  rw [Lemmas.C11.doPrint_run _ item (Array.back?_push ..)]
  simp only [Array.pop_push, itemText_eq_printText]

/-- `tab` (trace off) on a stack `st, a`: `Func.tab` of the column tracked *now* -/
theorem run_step_tab (env : Env) (hie : Bool) (s : Runtime) (st : Array Val) (a : Val)
    (htr : s.tron = false) (hop : s.program.link.ops[s.pc]? = some .tab) (hst : s.stack = st.push a)
    (hroom : st.size + 1 ≤ Gen.stackMaxLen) :
    ((step env hie).run).run s =
      match Func.tab s.printCol a with
      | .ok v => (.ok .continue, { s with pc := s.pc + 1, stack := st.push v })
      | .error e => (.error e, { s with pc := s.pc + 1, stack := st }) := by
  obtain ⟨prompt, listing, dirty, program, pc, tr, tron, entryAddress, stack, vars, state, cont, contPc, printCol,
    rand, functions⟩ := s
  simp only at htr hop hst
  subst htr; subst hst
  unfold step
  simp only [run_bind, run_get, Bool.false_eq_true, if_false, run_pure, hop, run_set, run_pop,
    Array.back?_push, Array.pop_push]
  cases hf : Func.tab printCol a with
  | ok v =>
    simp only [run_liftE, run_push]
    rw [if_neg (by omega)]
  | error e => simp only [run_liftE]

/-- `pos` (trace off) on a stack `st, a, 1`: the argument is dropped, `Func.pos` of the column
    tracked now is pushed -/
theorem run_step_pos (env : Env) (hie : Bool) (s : Runtime) (st : Array Val) (a : Val)
    (htr : s.tron = false) (hop : s.program.link.ops[s.pc]? = some .pos)
    (hst : s.stack = (st.push a).push (.int 1)) (hroom : st.size + 1 ≤ Gen.stackMaxLen) :
    ((step env hie).run).run s =
      match Func.pos s.printCol with
      | .ok v => (.ok .continue, { s with pc := s.pc + 1, stack := st.push v })
      | .error e => (.error e, { s with pc := s.pc + 1, stack := st }) := by
  obtain ⟨prompt, listing, dirty, program, pc, tr, tron, entryAddress, stack, vars, state, cont, contPc, printCol,
    rand, functions⟩ := s
  simp only at htr hop hst
  subst htr; subst hst
  unfold step
  simp only [run_bind, run_get, Bool.false_eq_true, if_false, run_pure, hop, run_set]
  rw [run_popVec _ st [a] 1 (by simp only; congr 1) (by show (1 : Int16).toInt = 1; decide)]
  cases hf : Func.pos printCol with
  | ok v =>
    simp only [run_liftE, run_push, hf]
    rw [if_neg (by omega)]
  | error e => simp only [run_liftE, hf]

/-! ### collecting runs -/

/-- how a collecting run ended -/
inductive Outcome where
  /-- the steps asked for were made; each answered `continue` or a `print` event -/
  | done
  /-- a step failed -/
  | error (e : Error)
  /-- a step answered an event other than `print` -/
  | event (ev : Event)

/-- iterate `Runtime.step` (the body of `executeLoop`) `n` times from `s`; a `print` event — which
    in the real machine ends the slice and hands the text to the caller, who calls `execute`
    again — is recorded in the accumulator and the run goes on; an error or any other event stops
    it.  Result: how it ended, the state, the texts printed so far in order. -/
def runCollect (env : Env) (hie : Bool) : Nat → Runtime → List Str → Outcome × Runtime × List Str
  | 0, s, acc => (.done, s, acc)
  | n+1, s, acc =>
    match ((step env hie).run).run s with
    | (.ok .continue, s') => runCollect env hie n s' acc
    | (.ok (.event (.print t)), s') => runCollect env hie n s' (acc ++ [t])
    | (.ok (.event ev), s') => (.event ev, s', acc)
    | (.error e, s') => (.error e, s', acc)

theorem runCollect_succ_continue {env : Env} {hie : Bool} {s s' : Runtime}
    (h : ((step env hie).run).run s = (.ok .continue, s')) (n : Nat) (acc : List Str) :
    runCollect env hie (n + 1) s acc = runCollect env hie n s' acc := by
  simp only [runCollect, h]

theorem runCollect_succ_print {env : Env} {hie : Bool} {s s' : Runtime} {t : Str}
    (h : ((step env hie).run).run s = (.ok (.event (.print t)), s')) (n : Nat) (acc : List Str) :
    runCollect env hie (n + 1) s acc = runCollect env hie n s' (acc ++ [t]) := by
  simp only [runCollect, h]

theorem runCollect_succ_error {env : Env} {hie : Bool} {s s' : Runtime} {e : Error}
    (h : ((step env hie).run).run s = (.error e, s')) (n : Nat) (acc : List Str) :
    runCollect env hie (n + 1) s acc = (.error e, s', acc) := by
  simp only [runCollect, h]

/-- silent steps are passed over -/
theorem runCollect_of_runSteps_continue (env : Env) (hie : Bool) :
    ∀ (k : Nat) (s s' : Runtime), runSteps env hie k s = (.ok .continue, s') →
      ∀ (m : Nat) (acc : List Str), runCollect env hie (k + m) s acc = runCollect env hie m s' acc
  | 0, s, s', h, m, acc => by
    have : s = s' := by injection h with _ h2
    subst this
    rw [Nat.zero_add]
  | k+1, s, s', h, m, acc => by
    have h' : andThen (((step env hie).run).run s) (runSteps env hie k) = (.ok .continue, s') := h
    rcases hs : ((step env hie).run).run s with ⟨r, s1⟩
    rw [hs] at h'
    cases r with
    | error e => cases h'
    | ok st =>
      cases st with
      | event ev => cases h'
      | «continue» =>
        rw [show k + 1 + m = (k + m) + 1 by omega, runCollect_succ_continue hs]
        exact runCollect_of_runSteps_continue env hie k s1 s' h' m acc

/-- an error met on the way is the outcome, whatever fuel is left -/
theorem runCollect_of_runSteps_error (env : Env) (hie : Bool) :
    ∀ (k : Nat) (s s' : Runtime) (e : Error), runSteps env hie k s = (.error e, s') →
      ∀ (n : Nat), k ≤ n → ∀ (acc : List Str), runCollect env hie n s acc = (.error e, s', acc)
  | 0, s, s', e, h, _, _, _ => by cases h
  | k+1, s, s', e, h, n, hn, acc => by
    have h' : andThen (((step env hie).run).run s) (runSteps env hie k) = (.error e, s') := h
    obtain ⟨n, rfl⟩ : ∃ n', n = n' + 1 := ⟨n - 1, by omega⟩
    rcases hs : ((step env hie).run).run s with ⟨r, s1⟩
    rw [hs] at h'
    cases r with
    | error e1 =>
      have : e1 = e ∧ s1 = s' := by
        injection h' with h1 h2
        injection h1 with h1
        exact ⟨h1, h2⟩
      rw [runCollect_succ_error hs, this.1, this.2]
    | ok st =>
      cases st with
      | event ev => cases h'
      | «continue» =>
        rw [runCollect_succ_continue hs]
        exact runCollect_of_runSteps_error env hie k s1 s' e h' n (by omega) acc

/-- collecting runs compose -/
theorem runCollect_add (env : Env) (hie : Bool) (a b : Nat) (s : Runtime) (acc : List Str) :
    runCollect env hie (a + b) s acc =
      match runCollect env hie a s acc with
      | (.done, s', acc') => runCollect env hie b s' acc'
      | r => r := by
  induction a generalizing s acc with
  | zero => rw [Nat.zero_add]; rfl
  | succ a ih =>
    rw [show a + 1 + b = (a + b) + 1 by omega]
    rcases hs : ((step env hie).run).run s with ⟨r, s1⟩
    cases r with
    | error e => rw [runCollect_succ_error hs, runCollect_succ_error hs]
    | ok st =>
      cases st with
      | «continue» => rw [runCollect_succ_continue hs, runCollect_succ_continue hs]; exact ih s1 acc
      | event ev =>
        cases ev with
        | print t => rw [runCollect_succ_print hs, runCollect_succ_print hs]; exact ih s1 _
        | _ => simp only [runCollect, hs]

/-! ### one item -/

/-- the code `ops` at `s.pc` yields `r`: all of it runs silently and ends in `s` with the value
    pushed and `pc` behind the code; or some step of it fails with the error, and the state then
    differs from `s` in `pc` and `stack` only -/
def Yields (env : Env) (hie : Bool) (ops : List Opcode) (s : Runtime) : Res Val → Prop
  | .ok v => runSteps env hie ops.length s =
      (.ok .continue, { s with pc := s.pc + ops.length, stack := s.stack.push v })
  | .error err => ∃ (k pc' : Nat) (stk' : Array Val), k ≤ ops.length ∧
      runSteps env hie k s = (.error err, { s with pc := pc', stack := stk' })

theorem Yields.of_computes {env : Env} {hie : Bool} {ops : List Opcode} {s : Runtime} {r : Res Val}
    (h : Computes env hie ops s r) : Yields env hie ops s r := by
  cases r with
  | ok v => exact h.2
  | error err =>
    obtain ⟨k, stk, stk', hk, _, h1, h2⟩ := h
    exact ⟨k + 1, s.pc + k + 1, stk', by omega,
      runSteps_error_mono env hie k (k + 1) s _ _ err h1 h2 (by omega)⟩

/-- one more instruction that replaces the value on top by `f` of it (or fails) -/
theorem Yields.snoc {env : Env} {hie : Bool} {ops : List Opcode} {s : Runtime} {r : Res Val}
    (oc : Opcode) (f : Val → Res Val) (hy : Yields env hie ops s r)
    (hstep : ∀ a, r = .ok a →
      ((step env hie).run).run { s with pc := s.pc + ops.length, stack := s.stack.push a } =
        match f a with
        | .ok v => (.ok .continue, { s with pc := s.pc + ops.length + 1, stack := s.stack.push v })
        | .error e => (.error e, { s with pc := s.pc + ops.length + 1, stack := s.stack })) :
    Yields env hie (ops ++ [oc]) s (r >>= f) := by
  cases r with
  | error err =>
    obtain ⟨k, pc', stk', hk, h⟩ := hy
    exact ⟨k, pc', stk', by rw [List.length_append]; omega, h⟩
  | ok a =>
    have hs := hstep a rfl
    have hrun : runSteps env hie ops.length s = _ := hy
    show Yields env hie (ops ++ [oc]) s (f a)
    cases hf : f a with
    | ok v =>
      rw [hf] at hs
      show runSteps env hie (ops ++ [oc]).length s = _
      rw [List.length_append, List.length_singleton, runSteps_add, hrun]
      show runSteps env hie 1 _ = _
      rw [runSteps_one, hs, Nat.add_assoc]
    | error e =>
      rw [hf] at hs
      refine ⟨ops.length + 1, s.pc + ops.length + 1, s.stack, by simp, ?_⟩
      rw [runSteps_add, hrun]
      show runSteps env hie 1 _ = _
      rw [runSteps_one, hs]

/-- `…, literal 1, pos`: the value on top is replaced by the column -/
theorem Yields.pos {env : Env} {hie : Bool} {ops : List Opcode} {s : Runtime} {r : Res Val}
    (hy : Yields env hie ops s r) (htr : s.tron = false)
    (hcode : CodeAt s.program.link.ops (s.pc + ops.length) [.literal (.int 1), .pos])
    (hroom : s.stack.size + 2 ≤ Gen.stackMaxLen) :
    Yields env hie (ops ++ [.literal (.int 1), .pos]) s (r >>= fun _ => Func.pos s.printCol) := by
  cases r with
  | error err =>
    obtain ⟨k, pc', stk', hk, h⟩ := hy
    exact ⟨k, pc', stk', by rw [List.length_append]; omega, h⟩
  | ok a =>
    have hrun : runSteps env hie ops.length s = _ := hy
    have h1 := run_step_literal env hie { s with pc := s.pc + ops.length, stack := s.stack.push a } (.int 1)
      htr hcode.head
    rw [if_neg (by simp only [Array.size_push]; omega)] at h1
    have hc2 : s.program.link.ops[s.pc + ops.length + 1]? = some .pos := by
      have := hcode 1 (by simp)
      simpa using this
    have h2 := run_step_pos env hie
      { s with pc := s.pc + ops.length + 1, stack := (s.stack.push a).push (.int 1) } s.stack a htr hc2 rfl
      (by omega)
    show Yields env hie (ops ++ [.literal (.int 1), .pos]) s (Func.pos s.printCol)
    have hpre : runSteps env hie (ops.length + 1) s =
        (.ok .continue, { s with pc := s.pc + ops.length + 1, stack := (s.stack.push a).push (.int 1) }) := by
      rw [runSteps_add, hrun]
      show runSteps env hie 1 _ = _
      rw [runSteps_one, h1]
    cases hf : Func.pos s.printCol with
    | ok v =>
      simp only [hf] at h2
      show runSteps env hie (ops ++ [Opcode.literal (.int 1), Opcode.pos]).length s = _
      rw [List.length_append, show ([Opcode.literal (.int 1), .pos] : List Opcode).length = 1 + 1 from rfl,
        ← Nat.add_assoc, runSteps_add, hpre]
      show runSteps env hie 1 _ = _
      rw [runSteps_one, h2]
      simp only [Nat.add_assoc]
    | error e =>
      simp only [hf] at h2
      refine ⟨ops.length + 1 + 1, s.pc + ops.length + 1 + 1, s.stack, by simp, ?_⟩
      rw [runSteps_add, hpre]
      show runSteps env hie 1 _ = _
      rw [runSteps_one, h2]

theorem itemCode_expr (e : Expr) : itemCode (.expr e) = flat e ++ [.print] := by simp [itemCode, itemArg]
theorem itemCode_semi : itemCode .semi = [] := rfl
theorem itemCode_comma (c : Col) :
    itemCode (.comma c) = ([.literal (.int Gen.printZone)] ++ [.tab]) ++ [.print] := rfl
theorem itemCode_tab (c : Col) (e : Expr) : itemCode (.tab c e) = (flat e ++ [.tab]) ++ [.print] := by
  simp [itemCode, itemArg]
theorem itemCode_spc (c : Col) (e : Expr) : itemCode (.spc c e) = (flat e ++ [.spc]) ++ [.print] := by
  simp [itemCode, itemArg]
theorem itemCode_pos (c : Col) (e : Expr) :
    itemCode (.pos c e) = (flat e ++ [.literal (.int 1), .pos]) ++ [.print] := by
  simp [itemCode, itemArg]

/-- the code in front of an item's `print` yields the item's value — computed from the variables
    and from the column tracked when the item is reached -/
theorem item_yields (env : Env) (hie : Bool) {it : PrItem} (hok : it.Ok) (s : Runtime)
    (hcode : CodeAt s.program.link.ops s.pc (itemCode it)) (htr : s.tron = false)
    (hroom : s.stack.size + (itemCode it).length ≤ Gen.stackMaxLen) :
    (itemVal s.vars s.printCol it = none ∧ itemCode it = []) ∨
    (∃ code r, itemVal s.vars s.printCol it = some r ∧ itemCode it = code ++ [.print] ∧
      Yields env hie code s r) := by
  cases it with
  | semi => exact Or.inl ⟨rfl, rfl⟩
  | expr e =>
    rw [itemCode_expr] at hcode hroom
    simp only [List.length_append, List.length_singleton] at hroom
    exact Or.inr ⟨_, _, rfl, itemCode_expr e,
      .of_computes (flat_computes env hie hok s hcode.left htr (by omega))⟩
  | comma c =>
    rw [itemCode_comma] at hcode hroom
    simp only [List.length_append, List.length_singleton] at hroom
    refine Or.inr ⟨_, _, rfl, itemCode_comma c, ?_⟩
    have h0 : Yields env hie [.literal (.int Gen.printZone)] s (.ok (.int Gen.printZone)) :=
      .of_computes (computes_literal env hie s _ hcode.left.left htr (by omega))
    have := Yields.snoc .tab (Func.tab s.printCol) h0 (fun a _ =>
      run_step_tab env hie _ s.stack a htr hcode.left.right.head rfl (by omega))
    simp only [bind, Except.bind, tab_printZone] at this
    exact this
  | tab c e =>
    rw [itemCode_tab] at hcode hroom
    simp only [List.length_append, List.length_singleton] at hroom
    refine Or.inr ⟨_, _, rfl, itemCode_tab c e, ?_⟩
    have h0 : Yields env hie (flat e) s (eval s.vars e) :=
      .of_computes (flat_computes env hie hok s hcode.left.left htr (by omega))
    exact Yields.snoc .tab (Func.tab s.printCol) h0 (fun a _ =>
      run_step_tab env hie _ s.stack a htr hcode.left.right.head rfl (by omega))
  | spc c e =>
    rw [itemCode_spc] at hcode hroom
    simp only [List.length_append, List.length_singleton] at hroom
    refine Or.inr ⟨_, _, rfl, itemCode_spc c e, ?_⟩
    have h0 : Yields env hie (flat e) s (eval s.vars e) :=
      .of_computes (flat_computes env hie hok s hcode.left.left htr (by omega))
    exact Yields.snoc .spc Func.spc h0 (fun a _ =>
      step_func1_stack env hie _ .spc Func.spc s.stack a htr hcode.left.right.head rfl rfl (by omega))
  | pos c e =>
    rw [itemCode_pos] at hcode hroom
    simp only [List.length_append, List.length_cons, List.length_nil] at hroom
    refine Or.inr ⟨_, _, rfl, itemCode_pos c e, ?_⟩
    have h0 : Yields env hie (flat e) s (eval s.vars e) :=
      .of_computes (flat_computes env hie hok s hcode.left.left htr (by omega))
    exact Yields.pos h0 htr hcode.left.right (by omega)

/-- **one item, run**: nothing for `;`; otherwise the item's text is printed (one `print` event),
    the tracked column moves to the column after that text, stack and variables are as before and
    `pc` is behind the item's code — or the item's error stops the run with nothing printed -/
theorem item_run (env : Env) (hie : Bool) {it : PrItem} (hok : it.Ok) (s : Runtime)
    (hcode : CodeAt s.program.link.ops s.pc (itemCode it)) (htr : s.tron = false)
    (hroom : s.stack.size + (itemCode it).length ≤ Gen.stackMaxLen) :
    (itemVal s.vars s.printCol it = none → itemCode it = []) ∧
    (∀ v, itemVal s.vars s.printCol it = some (.ok v) → ∀ (m : Nat) (acc : List Str),
      runCollect env hie ((itemCode it).length + m) s acc =
        runCollect env hie m
          { s with pc := s.pc + (itemCode it).length, printCol := columnAfter s.printCol (itemText v) }
          (acc ++ [itemText v])) ∧
    (∀ e, itemVal s.vars s.printCol it = some (.error e) → ∃ (pc' : Nat) (stk' : Array Val),
      ∀ n, (itemCode it).length ≤ n → ∀ (acc : List Str),
        runCollect env hie n s acc = (.error e, { s with pc := pc', stack := stk' }, acc)) := by
  rcases item_yields env hie hok s hcode htr hroom with ⟨hv, hc⟩ | ⟨code, r, hv, hc, hy⟩
  · exact ⟨fun _ => hc, fun v h => (by rw [hv] at h; cases h), fun e h => (by rw [hv] at h; cases h)⟩
  · refine ⟨fun h => (by rw [hv] at h; cases h), ?_, ?_⟩
    · intro v h m acc
      rw [hv] at h
      obtain rfl : r = .ok v := by injection h
      have hrun : runSteps env hie code.length s = _ := hy
      rw [hc] at hcode
      have hp := run_step_print env hie { s with pc := s.pc + code.length, stack := s.stack.push v } s.stack v
        htr hcode.right.head rfl
      rw [hc, List.length_append, List.length_singleton, Nat.add_assoc,
        runCollect_of_runSteps_continue env hie _ _ _ hrun, Nat.add_comm 1 m, runCollect_succ_print hp]
      simp only [Nat.add_assoc]
    · intro e h
      rw [hv] at h
      obtain rfl : r = .error e := by injection h
      obtain ⟨k, pc', stk', hk, hrun⟩ := hy
      refine ⟨pc', stk', fun n hn acc => ?_⟩
      rw [hc, List.length_append] at hn
      exact runCollect_of_runSteps_error env hie k _ _ e hrun n (by omega) acc

/-! ### the list -/

/-- what running a piece of PRINT code from `s` must do, given the specification's result `r`:
    * no error: the run passes over the `len` instructions, printing exactly `r.chunks`, and goes on
      (whatever comes next, `m` more steps) from `s` with `pc` behind the code and the tracked
      column at `r.col` — stack, variables and everything else as in `s`;
    * error `e`: the run stops in `e` having printed exactly `r.chunks`; the state differs from `s`
      in `pc`, `stack` and the tracked column (`r.col`) only. -/
def RunsTo (env : Env) (hie : Bool) (len : Nat) (s : Runtime) (r : PrintResult) : Prop :=
  (r.err = none → ∀ (m : Nat) (acc : List Str),
    runCollect env hie (len + m) s acc =
      runCollect env hie m { s with pc := s.pc + len, printCol := r.col } (acc ++ r.chunks)) ∧
  (∀ e, r.err = some e → ∃ (pc' : Nat) (stk' : Array Val), ∀ n, len ≤ n → ∀ (acc : List Str),
    runCollect env hie n s acc =
      (.error e, { s with pc := pc', stack := stk', printCol := r.col }, acc ++ r.chunks))

/-- **the items of a PRINT list, run** (no implicit newline yet) -/
theorem printItems_run (env : Env) (hie : Bool) :
    ∀ (items : List PrItem), (∀ it ∈ items, it.Ok) → ∀ (s : Runtime),
      CodeAt s.program.link.ops s.pc (printCode items) → s.tron = false →
      s.stack.size + (printCode items).length ≤ Gen.stackMaxLen →
      RunsTo env hie (printCode items).length s (printItems s.vars s.printCol items)
  | [], _, s, _, _, _ => by
    refine ⟨fun _ m acc => ?_, fun e h => by cases h⟩
    simp only [printCode, List.flatMap_nil, List.length_nil, Nat.zero_add, printItems, List.append_nil,
      Nat.add_zero]
  | it :: rest, hok, s, hcode, htr, hroom => by
    rw [printCode_cons] at hcode hroom ⊢
    rw [List.length_append] at hroom ⊢
    obtain ⟨h0, h1, h2⟩ := item_run env hie (hok it List.mem_cons_self) s hcode.left htr (by omega)
    have hok' : ∀ x ∈ rest, x.Ok := fun x hx => hok x (List.mem_cons_of_mem _ hx)
    cases hv : itemVal s.vars s.printCol it with
    | none =>
      have hc := h0 hv
      rw [printItems_cons_none _ hv, hc, List.length_nil, Nat.zero_add]
      rw [hc, List.nil_append] at hcode
      rw [hc, List.length_nil, Nat.zero_add] at hroom
      exact printItems_run env hie rest hok' s hcode htr hroom
    | some r =>
      cases r with
      | error e =>
        rw [printItems_cons_error _ hv]
        refine ⟨fun h => (by cases h), fun e' h => ?_⟩
        obtain rfl : e = e' := by injection h
        obtain ⟨pc', stk', hrun⟩ := h2 e hv
        refine ⟨pc', stk', fun n hn acc => ?_⟩
        rw [hrun n (by omega) acc, List.append_nil]
      | ok v =>
        rw [printItems_cons_ok _ hv]
        have ih := printItems_run env hie rest hok'
          { s with pc := s.pc + (itemCode it).length, printCol := columnAfter s.printCol (itemText v) }
          hcode.right htr (by simp only; omega)
        refine ⟨fun h m acc => ?_, fun e h => ?_⟩
        · rw [Nat.add_assoc, h1 v hv, ih.1 h]
          simp only [Nat.add_assoc, List.append_assoc, List.singleton_append]
        · obtain ⟨pc', stk', hrun⟩ := ih.2 e h
          refine ⟨pc', stk', fun n hn acc => ?_⟩
          obtain ⟨n', rfl⟩ : ∃ n', n = (itemCode it).length + n' := ⟨n - (itemCode it).length, by omega⟩
          rw [h1 v hv, hrun n' (by omega)]
          simp only [List.append_assoc, List.singleton_append]

/-- **the PRINT statement, run.**  The code `stmtCode items` of a well-formed list, located at `s.pc`
    (trace off, room on the stack for the code's length), behaves as `Spec.printSpec` says from the
    variables of `s` and the column tracked in `s`: see `RunsTo`. -/
theorem print_run (env : Env) (hie : Bool) (items : List PrItem) (hok : ∀ it ∈ items, it.Ok) (s : Runtime)
    (hcode : CodeAt s.program.link.ops s.pc (stmtCode items)) (htr : s.tron = false)
    (hroom : s.stack.size + (stmtCode items).length ≤ Gen.stackMaxLen) :
    RunsTo env hie (stmtCode items).length s (printSpec s.vars s.printCol items) := by
  have hok' : ∀ it ∈ fullItems (0, 0) items, it.Ok := by
    intro it hit
    unfold fullItems at hit
    split at hit
    · exact hok it hit
    · rcases List.mem_append.1 hit with h | h
      · exact hok it h
      · simp only [List.mem_cons, List.not_mem_nil, or_false] at h
        subst h; exact Pure.string (0, 0) ['\n']
  rw [← stmtCode_eq (0, 0)] at hcode hroom ⊢
  rw [printSpec_eq_full _ _ (0, 0)]
  exact printItems_run env hie _ hok' s hcode htr hroom

/-- runs in sequence: the second piece of code starts where the first ended — same stack and
    variables, the column the first has left -/
theorem RunsTo.seq {env : Env} {hie : Bool} {l1 l2 : Nat} {s : Runtime} {r1 r2 : PrintResult}
    (h1 : RunsTo env hie l1 s r1)
    (h2 : r1.err = none → RunsTo env hie l2 { s with pc := s.pc + l1, printCol := r1.col } r2) :
    RunsTo env hie (l1 + l2) s
      (if r1.err.isSome then r1 else ⟨r1.chunks ++ r2.chunks, r2.col, r2.err⟩) := by
  cases he : r1.err with
  | some e =>
    simp only [Option.isSome_some, if_true]
    refine ⟨fun h => (by rw [he] at h; cases h), fun e' h => ?_⟩
    obtain ⟨pc', stk', hrun⟩ := h1.2 e' h
    exact ⟨pc', stk', fun n hn acc => hrun n (by omega) acc⟩
  | none =>
    simp only [Option.isSome_none, Bool.false_eq_true, if_false]
    have h2' := h2 he
    refine ⟨fun h m acc => ?_, fun e h => ?_⟩
    · rw [Nat.add_assoc, h1.1 he, h2'.1 h]
      simp only [Nat.add_assoc, List.append_assoc]
    · obtain ⟨pc', stk', hrun⟩ := h2'.2 e h
      refine ⟨pc', stk', fun n hn acc => ?_⟩
      obtain ⟨n', rfl⟩ : ∃ n', n = l1 + n' := ⟨n - l1, by omega⟩
      rw [h1.1 he, hrun n' (by omega)]
      simp only [List.append_assoc]

/-- a completed run, read off with no fuel left over -/
theorem RunsTo.done {env : Env} {hie : Bool} {len : Nat} {s : Runtime} {r : PrintResult}
    (h : RunsTo env hie len s r) (he : r.err = none) (acc : List Str) :
    runCollect env hie len s acc =
      (.done, { s with pc := s.pc + len, printCol := r.col }, acc ++ r.chunks) := by
  have := h.1 he 0 acc
  rwa [Nat.add_zero] at this

/-- **two PRINT statements in sequence** -/
theorem print_run_two (env : Env) (hie : Bool) (a b : List PrItem)
    (hoka : ∀ it ∈ a, it.Ok) (hokb : ∀ it ∈ b, it.Ok) (s : Runtime)
    (hcode : CodeAt s.program.link.ops s.pc (stmtCode a ++ stmtCode b)) (htr : s.tron = false)
    (hroom : s.stack.size + (stmtCode a ++ stmtCode b).length ≤ Gen.stackMaxLen) :
    RunsTo env hie (stmtCode a ++ stmtCode b).length s
      (if (printSpec s.vars s.printCol a).err.isSome then printSpec s.vars s.printCol a
       else
        ⟨(printSpec s.vars s.printCol a).chunks ++
            (printSpec s.vars (printSpec s.vars s.printCol a).col b).chunks,
         (printSpec s.vars (printSpec s.vars s.printCol a).col b).col,
         (printSpec s.vars (printSpec s.vars s.printCol a).col b).err⟩) := by
  rw [List.length_append] at hroom ⊢
  exact RunsTo.seq (print_run env hie a hoka s hcode.left htr (by omega))
    (fun _ => print_run env hie b hokb
      { s with pc := s.pc + (stmtCode a).length, printCol := (printSpec s.vars s.printCol a).col }
      hcode.right htr (by simp only; omega))

/-- two statements, neither failing: the texts of the first, then the texts of the second computed
    from the column the first has left -/
theorem print_run_two_done (env : Env) (hie : Bool) (a b : List PrItem)
    (hoka : ∀ it ∈ a, it.Ok) (hokb : ∀ it ∈ b, it.Ok) (s : Runtime)
    (hcode : CodeAt s.program.link.ops s.pc (stmtCode a ++ stmtCode b)) (htr : s.tron = false)
    (hroom : s.stack.size + (stmtCode a ++ stmtCode b).length ≤ Gen.stackMaxLen)
    (h1 : (printSpec s.vars s.printCol a).err = none)
    (h2 : (printSpec s.vars (printSpec s.vars s.printCol a).col b).err = none) (acc : List Str) :
    runCollect env hie (stmtCode a ++ stmtCode b).length s acc =
      (.done,
       { s with pc := s.pc + (stmtCode a ++ stmtCode b).length,
                printCol := (printSpec s.vars (printSpec s.vars s.printCol a).col b).col },
       acc ++ ((printSpec s.vars s.printCol a).chunks ++
         (printSpec s.vars (printSpec s.vars s.printCol a).col b).chunks)) := by
  have h := print_run_two env hie a b hoka hokb s hcode htr hroom
  rw [h1] at h
  simp only [Option.isSome_none, Bool.false_eq_true, if_false] at h
  exact h.done h2 acc

/-! ### the composed statement: compiled, then run -/

/-- **`PRINT items`, compiled and run.**  The node `printAst c cn items` compiles to exactly one
    statement fragment and reports nothing; its code is `stmtCode items`; and wherever that code lies
    in the code segment of a runtime `s` (trace off, room on the stack), running it from there does
    what `Spec.printSpec` says (`RunsTo`). -/
theorem compilePrint_correct (env : Env) (hie : Bool) (c cn : Col) (items : List PrItem)
    (hok : ∀ it ∈ items, it.Ok) (vs : Codegen.VState) (hlen : (stmtCode items).length ≤ 65535) :
    ∃ frag : Link,
      (Codegen.acceptStmt (printAst c cn items) vs).g.stmt = vs.g.stmt.push (c, frag) ∧
      (Codegen.acceptStmt (printAst c cn items) vs).errors = vs.errors ∧
      frag.ops = (stmtCode items).toArray ∧
      ∀ (s : Runtime), CodeAt s.program.link.ops s.pc frag.ops.toList → s.tron = false →
        s.stack.size + frag.ops.size ≤ 65535 →
        RunsTo env hie frag.ops.size s (printSpec s.vars s.printCol items) := by
  have h := print_list_codegen_shape c cn items hok vs hlen
  refine ⟨plain (stmtCode items).toArray, by rw [h], by rw [h], rfl, ?_⟩
  intro s hcode htr hroom
  have e1 : (plain (stmtCode items).toArray).ops.toList = stmtCode items := by simp [plain]
  have e2 : (plain (stmtCode items).toArray).ops.size = (stmtCode items).length := by simp [plain]
  rw [e1] at hcode
  rw [e2] at hroom ⊢
  exact print_run env hie items hok s hcode htr hroom

/-! ### the same through `Runtime.execute`: one slice per printed item -/

theorem runSteps_event_mono (env : Env) (hie : Bool) (k n : Nat) (s s' : Runtime) (ev : Event)
    (hk : runSteps env hie k s = (.ok (.event ev), s')) (hn : k ≤ n) :
    runSteps env hie n s = (.ok (.event ev), s') := by
  obtain ⟨m, rfl⟩ : ∃ m, n = k + m := ⟨n - k, by omega⟩
  rw [runSteps_add, hk]
  rfl

/-- how `execute_loop` reports the outcome of its steps: running out of quantum is the event `running` -/
def loopResult : Except Error Step × Runtime → Except Error Event × Runtime
  | (.ok .continue, s') => (.ok .running, s')
  | (.ok (.event ev), s') => (.ok ev, s')
  | (.error e, s') => (.error e, s')

/-- the loop of `execute_loop` is `runSteps` -/
theorem executeLoop_loop_run (env : Env) (hie : Bool) :
    ∀ (n : Nat) (s : Runtime), ((executeLoop.loop env hie n).run).run s = loopResult (runSteps env hie n s)
  | 0, s => rfl
  | n+1, s => by
    rw [executeLoop.loop, run_bind]
    show _ = loopResult (andThen (((step env hie).run).run s) (runSteps env hie n))
    rcases ((step env hie).run).run s with ⟨r, s1⟩
    cases r with
    | error e => rfl
    | ok st =>
      cases st with
      | «continue» => exact executeLoop_loop_run env hie n s1
      | event ev => rfl

theorem executeLoop_run (env : Env) (n : Nat) (s : Runtime) :
    ((executeLoop env n).run).run s = loopResult (runSteps env (!s.listing.indirectErrors.isEmpty) n s) := by
  unfold executeLoop
  rw [run_bind, run_get]
  exact executeLoop_loop_run env _ n s

/-- a slice of a running machine (no errors among the direct statements) that meets a `print`
    within its quantum returns that text and the state right after the `print` -/
theorem execute_print_slice (env : Env) (s s' : Runtime) (q : Nat) (t : Str)
    (hst : s.state = .running) (hde : s.listing.directErrors.isEmpty = true)
    (hrun : runSteps env (!s.listing.indirectErrors.isEmpty) q s = (.ok (.event (.print t)), s')) :
    execute env s q = (s', .print t) := by
  unfold execute
  simp only [hst, hde, Bool.not_true, Bool.false_eq_true, if_false]
  rw [executeLoop_run, hrun]
  simp only [loopResult]
  split
  · rename_i h; cases h
  · rfl

/-- what `k` successive calls of `execute` with quantum `q` print: the texts of the `print` events,
    in order; the first other event stops the collection -/
def slices (env : Env) (q : Nat) : Nat → Runtime → List Str → Runtime × List Str
  | 0, s, acc => (s, acc)
  | k+1, s, acc =>
    match execute env s q with
    | (s', .print t) => slices env q k s' (acc ++ [t])
    | (s', _) => (s', acc)

/-- one item through `execute`: a slice whose quantum covers the item's code prints the item's text -/
theorem item_slice (env : Env) {it : PrItem} (hok : it.Ok) (s : Runtime) (q : Nat)
    (hcode : CodeAt s.program.link.ops s.pc (itemCode it)) (htr : s.tron = false)
    (hroom : s.stack.size + (itemCode it).length ≤ Gen.stackMaxLen)
    (hst : s.state = .running) (hde : s.listing.directErrors.isEmpty = true)
    (hq : (itemCode it).length ≤ q) (v : Val) (hv : itemVal s.vars s.printCol it = some (.ok v)) :
    execute env s q =
      ({ s with pc := s.pc + (itemCode it).length, printCol := columnAfter s.printCol (itemText v) },
       .print (itemText v)) := by
  rcases item_yields env (!s.listing.indirectErrors.isEmpty) hok s hcode htr hroom with
    ⟨hn, _⟩ | ⟨code, r, hr, hc, hy⟩
  · rw [hn] at hv; cases hv
  · rw [hr] at hv
    obtain rfl : r = .ok v := by injection hv
    have hrun : runSteps env _ code.length s = _ := hy
    rw [hc] at hcode
    have hp := run_step_print env (!s.listing.indirectErrors.isEmpty)
      { s with pc := s.pc + code.length, stack := s.stack.push v } s.stack v htr hcode.right.head rfl
    apply execute_print_slice env s _ q _ hst hde
    apply runSteps_event_mono env _ (code.length + 1) q s _ _ _ (by rw [hc, List.length_append] at hq; exact hq)
    rw [runSteps_add, hrun]
    show runSteps env _ 1 _ = _
    rw [runSteps_one, hp, hc]
    simp only [List.length_append, List.length_singleton, Nat.add_assoc]

/-- **the items of a PRINT list through `execute`** (the case without error): as many slices as
    there are writing items, each with a quantum that covers the code, print exactly the chunks of
    the specification and leave the machine behind the code with the specification's column -/
theorem printItems_slices (env : Env) (q : Nat) :
    ∀ (items : List PrItem), (∀ it ∈ items, it.Ok) → ∀ (s : Runtime),
      CodeAt s.program.link.ops s.pc (printCode items) → s.tron = false →
      s.stack.size + (printCode items).length ≤ Gen.stackMaxLen →
      s.state = .running → s.listing.directErrors.isEmpty = true → (printCode items).length ≤ q →
      (printItems s.vars s.printCol items).err = none → ∀ (acc : List Str),
      slices env q (printItems s.vars s.printCol items).chunks.length s acc =
        ({ s with pc := s.pc + (printCode items).length, printCol := (printItems s.vars s.printCol items).col },
         acc ++ (printItems s.vars s.printCol items).chunks)
  | [], _, s, _, _, _, _, _, _, _, acc => by
    simp only [printItems, List.length_nil, slices, printCode, List.flatMap_nil, Nat.add_zero, List.append_nil]
  | it :: rest, hok, s, hcode, htr, hroom, hst, hde, hq, herr, acc => by
    rw [printCode_cons] at hcode hroom hq ⊢
    rw [List.length_append] at hroom hq ⊢
    have hok' : ∀ x ∈ rest, x.Ok := fun x hx => hok x (List.mem_cons_of_mem _ hx)
    have hit := hok it List.mem_cons_self
    cases hv : itemVal s.vars s.printCol it with
    | none =>
      have hc := (item_run env false hit s hcode.left htr (by omega)).1 hv
      rw [printItems_cons_none _ hv] at herr ⊢
      rw [hc, List.length_nil, Nat.zero_add]
      rw [hc, List.nil_append] at hcode
      rw [hc, List.length_nil, Nat.zero_add] at hroom hq
      exact printItems_slices env q rest hok' s hcode htr hroom hst hde hq herr acc
    | some r =>
      cases r with
      | error e => rw [printItems_cons_error _ hv] at herr; cases herr
      | ok v =>
        rw [printItems_cons_ok _ hv] at herr ⊢
        simp only [List.length_cons, slices]
        rw [item_slice env hit s q hcode.left htr (by omega) hst hde (by omega) v hv]
        simp only
        rw [printItems_slices env q rest hok'
          { s with pc := s.pc + (itemCode it).length, printCol := columnAfter s.printCol (itemText v) }
          hcode.right htr (by simp only; omega) hst hde (by omega) herr]
        simp only [Nat.add_assoc, List.append_assoc, List.singleton_append]

/-- **the PRINT statement through `execute`** (no error): one call per text -/
theorem print_run_execute (env : Env) (q : Nat) (items : List PrItem) (hok : ∀ it ∈ items, it.Ok) (s : Runtime)
    (hcode : CodeAt s.program.link.ops s.pc (stmtCode items)) (htr : s.tron = false)
    (hroom : s.stack.size + (stmtCode items).length ≤ Gen.stackMaxLen)
    (hst : s.state = .running) (hde : s.listing.directErrors.isEmpty = true) (hq : (stmtCode items).length ≤ q)
    (herr : (printSpec s.vars s.printCol items).err = none) (acc : List Str) :
    slices env q (printSpec s.vars s.printCol items).chunks.length s acc =
      ({ s with pc := s.pc + (stmtCode items).length, printCol := (printSpec s.vars s.printCol items).col },
       acc ++ (printSpec s.vars s.printCol items).chunks) := by
  have hok' : ∀ it ∈ fullItems (0, 0) items, it.Ok := by
    intro it hit
    unfold fullItems at hit
    split at hit
    · exact hok it hit
    · rcases List.mem_append.1 hit with h | h
      · exact hok it h
      · simp only [List.mem_cons, List.not_mem_nil, or_false] at h
        subst h; exact Pure.string (0, 0) ['\n']
  rw [← stmtCode_eq (0, 0)] at hcode hroom hq ⊢
  rw [printSpec_eq_full _ _ (0, 0)] at herr ⊢
  exact printItems_slices env q _ hok' s hcode htr hroom hst hde hq herr acc

end vm

/-! ## the parser: `PRINT <items>` yields `printAst` -/

section parser
open Parse Lemmas.ParseExpr Lemmas.PrintList

/-- a written item (`Lemmas.PrintList.PItem`: a tree of the C02 fragment, `,`, `;`) and the item the
    parser makes of it: the same tree up to the recorded columns -/
inductive SameItem : PItem → PrItem → Prop where
  | expr (e e' : Expr) : e'.shape = e.shape → SameItem (.expr e) (.expr e')
  | comma (c : Col) : SameItem .comma (.comma c)
  | semi : SameItem .semi .semi

/-- item by item -/
inductive SameItems : List PItem → List PrItem → Prop where
  | nil : SameItems [] []
  | cons {i : PItem} {i' : PrItem} {is : List PItem} {is' : List PrItem} :
      SameItem i i' → SameItems is is' → SameItems (i :: is) (i' :: is')

theorem astExprs_cons (x : PrItem) (xs : List PrItem) :
    astExprs (x :: xs) = (itemArg x).map (·.1) ++ astExprs xs := by
  simp [astExprs]

theorem astExprs_append (xs ys : List PrItem) : astExprs (xs ++ ys) = astExprs xs ++ astExprs ys := by
  simp [astExprs]

/-- the parsed expressions are the `astExprs` of a list of items of the same form -/
theorem outs_items {items : List PItem} {out : List Expr} (h : Outs items out) :
    ∃ items', SameItems items items' ∧ astExprs items' = out := by
  induction h with
  | nil => exact ⟨[], .nil, rfl⟩
  | cons hi _ ih =>
    obtain ⟨rest', hf, hr⟩ := ih
    cases hi with
    | expr e e' hsh => exact ⟨.expr e' :: rest', .cons (.expr e e' hsh) hf, by rw [astExprs_cons, hr]; rfl⟩
    | comma c => exact ⟨.comma c :: rest', .cons (.comma c) hf, by rw [astExprs_cons, hr]; rfl⟩
    | semi => exact ⟨.semi :: rest', .cons .semi hf, by rw [astExprs_cons, hr]; rfl⟩

/-- the parser's linefeed flag against "the list ends in `;` or `,`" -/
theorem lfAfter_sameItem {items : List PItem} {items' : List PrItem} (h : SameItems items items') :
    ∀ lf, lfAfter lf items = (match items'.getLast? with
      | none => lf
      | some .semi => false
      | some (.comma _) => false
      | some _ => true) := by
  induction h with
  | nil => intro lf; rfl
  | @cons i i' is is' hi hrest ih =>
    intro lf
    cases hrest with
    | nil => cases hi <;> rfl
    | @cons j j' js js' hj hjs =>
      have hl : (i' :: j' :: js').getLast? = (j' :: js').getLast? := List.getLast?_cons_cons
      rw [hl]
      have hne : (j' :: js').getLast? ≠ none := by simp
      cases hi <;> simp only [lfAfter] <;> rw [ih] <;>
        (cases hg : (j' :: js').getLast? with
         | none => exact absurd hg hne
         | some x => cases x <;> rfl)

theorem endsOpen_sameItem {items : List PItem} {items' : List PrItem} (h : SameItems items items') :
    endsOpen items' = !lfAfter true items := by
  rw [lfAfter_sameItem h true]
  unfold endsOpen
  cases items'.getLast? with
  | none => rfl
  | some x => cases x <;> rfl

/-- a tree with the columns of a fragment tree is in `Spec.Pure` -/
theorem pure_of_shape {ok : Int16 → Prop} {e : Expr} (hf : Frag ok e) : ∀ e' : Expr, e'.shape = e.shape → Pure e' := by
  induction hf with
  | int c n _ =>
    intro e' h
    cases e' <;> simp only [Expr.shape, reduceCtorEq] at h
    exact .integer _ _
  | neg c x _ ih =>
    intro e' h
    cases e' <;> simp only [Expr.shape, reduceCtorEq, Expr.neg.injEq, true_and] at h
    exact .neg _ _ (ih _ h)
  | not c x _ ih =>
    intro e' h
    cases e' <;> simp only [Expr.shape, reduceCtorEq, Expr.not.injEq, true_and] at h
    exact .not _ _ (ih _ h)
  | bin op c l r _ _ ihl ihr =>
    intro e' h
    cases e' <;> simp only [Expr.shape, reduceCtorEq, Expr.bin.injEq, true_and] at h
    exact .bin _ _ _ _ (ihl _ h.2.1) (ihr _ h.2.2)

/-- … and has the same value -/
theorem eval_of_shape {ok : Int16 → Prop} (vars : Var) {e : Expr} (hf : Frag ok e) :
    ∀ e' : Expr, e'.shape = e.shape → eval vars e' = eval vars e := by
  induction hf with
  | int c n _ =>
    intro e' h
    cases e' <;> simp only [Expr.shape, reduceCtorEq, Expr.integer.injEq, true_and] at h
    subst h; rfl
  | neg c x _ ih =>
    intro e' h
    cases e' <;> simp only [Expr.shape, reduceCtorEq, Expr.neg.injEq, true_and] at h
    simp only [eval, ih _ h]
  | not c x _ ih =>
    intro e' h
    cases e' <;> simp only [Expr.shape, reduceCtorEq, Expr.not.injEq, true_and] at h
    simp only [eval, ih _ h]
  | bin op c l r _ _ ihl ihr =>
    intro e' h
    cases e' <;> simp only [Expr.shape, reduceCtorEq, Expr.bin.injEq, true_and] at h
    obtain ⟨rfl, h1, h2⟩ := h
    simp only [eval, ihl _ h1, ihr _ h2]

/-- the written items as specification items (columns: none) -/
def ofPItem : PItem → PrItem
  | .expr e => .expr e
  | .comma => .comma (0, 0)
  | .semi => .semi

theorem itemVal_sameItem {ok : Int16 → Prop} (vars : Var) (col : Nat) {i : PItem} {i' : PrItem}
    (h : SameItem i i') (hfr : ∀ e, i = .expr e → Frag ok e) : itemVal vars col i' = itemVal vars col (ofPItem i) := by
  cases h with
  | expr e e' hsh => simp only [itemVal, ofPItem, eval_of_shape vars (hfr e rfl) e' hsh]
  | comma c => rfl
  | semi => rfl

/-- the meaning of the parsed list is the meaning of the written list -/
theorem printItems_sameItem {ok : Int16 → Prop} (vars : Var) {items : List PItem} {items' : List PrItem}
    (h : SameItems items items') (hfr : ∀ e, PItem.expr e ∈ items → Frag ok e) :
    ∀ col, printItems vars col items' = printItems vars col (items.map ofPItem) := by
  induction h with
  | nil => intro col; rfl
  | @cons i i' is is' hi _ ih =>
    intro col
    have hv := itemVal_sameItem vars col hi (fun e he => hfr e (by rw [he]; exact List.mem_cons_self))
    have ih' := ih (fun e he => hfr e (List.mem_cons_of_mem _ he))
    rw [List.map_cons]
    cases hx : itemVal vars col (ofPItem i) with
    | none => rw [printItems_cons_none _ hx, printItems_cons_none _ (hv.trans hx)]; exact ih' col
    | some r =>
      cases r with
      | error e => rw [printItems_cons_error _ hx, printItems_cons_error _ (hv.trans hx)]
      | ok v => rw [printItems_cons_ok _ hx, printItems_cons_ok _ (hv.trans hx), ih']

theorem sameItem_ofPItem (items : List PItem) : SameItems items (items.map ofPItem) := by
  induction items with
  | nil => exact .nil
  | cons i is ih =>
    refine .cons ?_ ih
    cases i with
    | expr e => exact .expr e e rfl
    | comma => exact .comma _
    | semi => exact .semi

theorem printSpec_sameItem {ok : Int16 → Prop} (vars : Var) (col : Nat) {items : List PItem} {items' : List PrItem}
    (h : SameItems items items') (hfr : ∀ e, PItem.expr e ∈ items → Frag ok e) :
    printSpec vars col items' = printSpec vars col (items.map ofPItem) := by
  unfold printSpec
  rw [printItems_sameItem vars h hfr, endsOpen_sameItem h, endsOpen_sameItem (sameItem_ofPItem items)]

theorem sameItem_ok {ok : Int16 → Prop} {items : List PItem} {items' : List PrItem}
    (h : SameItems items items') (hfr : ∀ e, PItem.expr e ∈ items → Frag ok e) :
    ∀ it ∈ items', it.Ok := by
  induction h with
  | nil => intro it hit; cases hit
  | @cons i i' is is' hi _ ih =>
    intro it hit
    rcases List.mem_cons.1 hit with rfl | hit
    · cases hi with
      | expr e e' hsh => exact pure_of_shape (hfr e List.mem_cons_self) e' hsh
      | comma c => trivial
      | semi => trivial
    · exact ih (fun e he => hfr e (List.mem_cons_of_mem _ he)) it hit

theorem plain_word_print : Plain (.word .print) := ⟨fun n => by simp, rfl⟩

/-- **The parser on `PRINT <items>`** (items: trees of the C02 fragment, `,`, `;`, no two trees side
    by side; rendered without blanks up to the end of the line): for all sufficiently large fuel,
    `Parse.statement` returns the node `printAst c cn items'` for a list `items'` of the same form
    as the written one (`SameItem`: the trees up to their recorded columns), and reads everything. -/
theorem print_statement_parse (lit : Int16 → Str) (items : List PItem)
    (hfr : ∀ e, PItem.expr e ∈ items → Frag (Thm.C02.LitOk lit) e) (halt : Alternating items) :
    ∃ (N : Nat) (c cn : Col) (items' : List PrItem) (st' : PState),
      SameItems items items' ∧ st'.toks = [] ∧ st'.peeked = none ∧
      ∀ fuel, N ≤ fuel → items.length < fuel →
        (Parse.statement (fuel + 1)).run { toks := .word .print :: renderItems lit items } =
          .ok (printAst c cn items', st') := by
  have hg : Good ({ toks := .word .print :: renderItems lit items } : PState) :=
    ⟨rfl, fun t ht => by
      rcases List.mem_cons.1 ht with rfl | ht
      · exact plain_word_print
      · exact renderItems_plain lit items t ht⟩
  obtain ⟨st0, h0, hg0, hv0⟩ := peek_cons hg (show view _ = .word .print :: renderItems lit items from rfl)
  obtain ⟨st1, h1, hg1, hv1, _⟩ := next_cons hg0 hv0
  have hend : EndTok [] := rfl
  obtain ⟨N, out, st', hout, _, hv', hrun⟩ :=
    printList_spec lit [] hend items st1 true [] hg1 (by rw [hv1, List.append_nil]) hfr
      (sep_of_alternating lit hend items halt)
  obtain ⟨items', hsame, hast⟩ := outs_items hout
  refine ⟨N, (st1.cs, st1.ce), (st'.ce, st'.ce), items', st', hsame, ?_, ?_, fun fuel hf hn => ?_⟩
  · unfold view at hv'
    cases hpk : st'.peeked with
    | some t => rw [hpk] at hv'; cases hv'
    | none => rw [hpk] at hv'; exact hv'
  · unfold view at hv'
    cases hpk : st'.peeked with
    | some t => rw [hpk] at hv'; cases hv'
    | none => rfl
  · rw [statement]
    simp only [StateT.run_bind, h0, ok_bind, h1, Lemmas.ParseExpr.col_run, hrun fuel fuel hf hn, List.nil_append]
    have : out ++ (if lfAfter true items = true then [Expr.string (st'.ce, st'.ce) ['\n']] else []) =
        astExprs (fullItems (st'.ce, st'.ce) items') := by
      unfold fullItems
      rw [endsOpen_sameItem hsame, ← hast]
      cases lfAfter true items with
      | true => simp only [Bool.not_true, Bool.false_eq_true, if_false, if_true, astExprs_append]; rfl
      | false => simp
    rw [this]
    rfl

/-! ### one round of `Parse.printList`, from the results of `peek` / `next` / `expression`
(for concrete token lists: every hypothesis is an evaluation) -/

theorem printList_step_end {fuel n : Nat} {lf : Bool} {acc : List Expr} {st st1 : PState} {t : Option Token}
    (hp : peek.run st = .ok (t, st1)) (he : isEnd t = true) :
    (printList fuel (n+1) lf acc).run st =
      .ok (if lf then acc ++ [Expr.string (st1.ce, st1.ce) ['\n']] else acc, st1) := by
  rw [printList, Lemmas.C11.run_bind_ok hp]
  simp only [he, if_true]
  rw [Lemmas.C11.run_bind_ok (Lemmas.C11.col_run _)]
  cases lf <;> rfl

theorem printList_step_semi {fuel n : Nat} {lf : Bool} {acc : List Expr} {st st1 st2 : PState} {x : Option Token}
    (hp : peek.run st = .ok (some .semicolon, st1)) (hn : next.run st1 = .ok (x, st2)) :
    (printList fuel (n+1) lf acc).run st = (printList fuel n false acc).run st2 := by
  rw [printList, Lemmas.C11.run_bind_ok hp]
  simp only [isEnd, Bool.false_eq_true, if_false]
  rw [Lemmas.C11.run_bind_ok hn]

theorem printList_step_comma {fuel n : Nat} {lf : Bool} {acc : List Expr} {st st1 st2 : PState} {x : Option Token}
    (hp : peek.run st = .ok (some .comma, st1)) (hn : next.run st1 = .ok (x, st2)) :
    (printList fuel (n+1) lf acc).run st =
      (printList fuel n false (acc ++ [zoneExpr (st2.cs, st2.ce)])).run st2 := by
  rw [printList, Lemmas.C11.run_bind_ok hp]
  simp only [isEnd, Bool.false_eq_true, if_false]
  rw [Lemmas.C11.run_bind_ok hn, Lemmas.C11.run_bind_ok (Lemmas.C11.col_run _)]
  rfl

theorem printList_step_item {fuel n : Nat} {lf : Bool} {acc : List Expr} {st st1 st2 : PState} {t : Token} {e : Expr}
    (hp : peek.run st = .ok (some t, st1)) (he : isEnd (some t) = false) (h1 : t ≠ .semicolon) (h2 : t ≠ .comma)
    (hx : (expression fuel).run st1 = .ok (e, st2)) :
    (printList fuel (n+1) lf acc).run st = (printList fuel n true (acc ++ [e])).run st2 := by
  rw [printList, Lemmas.C11.run_bind_ok hp]
  simp only [he, Bool.false_eq_true, if_false]
  cases t <;> first
    | exact absurd rfl h1
    | exact absurd rfl h2
    | (simp only []; rw [Lemmas.C11.run_bind_ok hx])

/-- `PRINT` in front: the statement parser hands the rest to `printList` -/
theorem statement_print_step {fuel : Nat} {st st1 st2 : PState} {x : Option Token} {es : List Expr} {st3 : PState}
    (hp : peek.run st = .ok (some (.word .print), st1)) (hn : next.run st1 = .ok (x, st2))
    (hl : (printList fuel fuel true []).run st2 = .ok (es, st3)) :
    (statement (fuel + 1)).run st = .ok (.print (st2.cs, st2.ce) es, st3) := by
  rw [statement]
  simp only [StateT.run_bind, hp, ok_bind, hn, Lemmas.ParseExpr.col_run, hl]
  rfl

end parser

end Lemmas.PrintRun
end Basic
