import BasicModel.Lemmas.StructCompile
/-
  The shape of the code the generator (`Model/Codegen.lean`) emits for the structured statements.

  Part 1 (this section): the STATEMENT FRAGMENTS, before linking.  Visiting
    * `WHILE c`            pushes `whileFrag`  — label −1 at the start, the condition, `ifNot 0` with a WHILE mark;
    * `WEND`               pushes `wendFrag`   — `jump 0` with a WEND mark, label −1 after it;
    * `FOR v = a TO b STEP s` pushes `forFrag` — start, `pop v`, limit, step, the name, `literal (nxt 0)`
                                                  referring to label −1, which is defined after it;
    * `NEXT v`             pushes `plain #[next v]`;
    * `IF c THEN th [ELSE el]` pushes `ifFrag` — the condition, `ifNot 0` referring to the ELSE label, the
      THEN fragments appended in order, (with an ELSE part: `jump 0` referring to the end label, the ELSE
      label, the ELSE fragments, the end label).
-/
namespace Basic
namespace Lemmas.StructCodegen
open Basic.Spec Basic.Lemmas.ExprCompile Basic.Lemmas.FnCall Basic.Lemmas.StructCompile
open Basic.Codegen Basic.Link

/-! ## run lemmas on an explicit generator state, arbitrary fragment under construction -/

theorem lnextSymbol_mk (v : Array VarItem) (ex st : Array (Col × Link)) (cur : Link) :
    (lnextSymbol.run).run ⟨v, ex, st, cur⟩ =
      (.ok (cur.currentSymbol - 1), ⟨v, ex, st, { cur with currentSymbol := cur.currentSymbol - 1 }⟩) :=
  grun_lnextSymbol _

theorem lpushSymbol_mk (sym : Symbol) (v : Array VarItem) (ex st : Array (Col × Link)) (cur : Link) :
    ((lpushSymbol sym).run).run ⟨v, ex, st, cur⟩ = (.ok ⟨⟩, ⟨v, ex, st, cur.pushSymbol sym⟩) := rfl

theorem laddUnlinked_mk (c : Col) (sym : Symbol) (v : Array VarItem) (ex st : Array (Col × Link)) (cur : Link) :
    ((laddUnlinked c sym).run).run ⟨v, ex, st, cur⟩ = (.ok ⟨⟩, ⟨v, ex, st, cur.addUnlinked c sym⟩) := rfl

theorem lpush_cur (op : Opcode) (v : Array VarItem) (ex st : Array (Col × Link)) (cur : Link)
    (h : cur.ops.size + 1 ≤ Gen.stackMaxLen) :
    ((lpush op).run).run ⟨v, ex, st, cur⟩ = (.ok (), ⟨v, ex, st, { cur with ops := cur.ops.push op }⟩) :=
  grun_lpush_ok op _ h

theorem lappend_cur (f : Link) (v : Array VarItem) (ex st : Array (Col × Link)) (cur : Link)
    (hd : cur.directSet = false) (ho : cur.ops.size + f.ops.size ≤ Gen.stackMaxLen)
    (hdd : cur.data.size + f.data.size ≤ Gen.stackMaxLen) :
    ((lappend f).run).run ⟨v, ex, st, cur⟩ = (.ok (), ⟨v, ex, st, appended cur f⟩) :=
  grun_lappend_ok f _ hd ho hdd

theorem popNStmt_mk (v : Array VarItem) (ex pre : Array (Col × Link)) (frs : List (Col × Link)) (cur : Link) :
    ((popNStmt frs.length).run).run ⟨v, ex, pre ++ frs.toArray, cur⟩ = (.ok frs, ⟨v, ex, pre, cur⟩) := by
  unfold popNStmt
  have h1 : ¬ (frs.length > (pre ++ frs.toArray).size) := by simp
  simp only [grun_bind, grun_get, h1, if_false, grun_set, grun_pure]
  simp

theorem lnextSymbol_fn (v : Array VarItem) (ex st : Array (Col × Link)) (cur : Link) :
    (lnextSymbol.run).run ⟨v, ex, st, cur⟩ = (.ok (cur.currentSymbol - 1), ⟨v, ex, st, cur.nextSymbol.1⟩) :=
  grun_lnextSymbol _

theorem lpush_fn (op : Opcode) (v : Array VarItem) (ex st : Array (Col × Link)) (cur : Link)
    (h : cur.ops.size + 1 ≤ Gen.stackMaxLen) :
    ((lpush op).run).run ⟨v, ex, st, cur⟩ = (.ok (), ⟨v, ex, st, (cur.push op).1⟩) :=
  grun_lpush_ok op _ h

/-! ## the fragments -/

/-- `WHILE c` -/
def whileFrag (c : Col) (xs : List Opcode) : Link :=
  { currentSymbol := -1, ops := (xs ++ [Opcode.ifNot 0]).toArray, symbols := [(-1, (0, 0))],
    whiles := [(true, c, xs.length, -1)] }

/-- `WEND` -/
def wendFrag (c : Col) : Link :=
  { currentSymbol := -1, ops := #[Opcode.jump 0], symbols := [(-1, (1, 0))], whiles := [(false, c, 0, -1)] }

/-- `FOR name = a TO b STEP s` (`xa`, `xb`, `xs` the codes of the three expressions) -/
def forFrag (col : Col) (name : Str) (xa xb xs : List Opcode) : Link :=
  { currentSymbol := -1,
    ops := (xa ++ ([Opcode.pop name] ++ (xb ++ (xs ++ [Opcode.literal (.str name), Opcode.literal (.nxt 0)])))).toArray,
    unlinked := [(xa.length + 1 + xb.length + xs.length + 1, (col, -1))],
    symbols := [(-1, (xa.length + 1 + xb.length + xs.length + 2, 0))] }

/-- appending fragments in order -/
def appendAllL (l : Link) (fs : List Link) : Link := fs.foldl appended l

/-- the head of an IF fragment: the condition and `ifNot 0` referring to the label −1 -/
def ifHead (c : Col) (xs : List Opcode) : Link :=
  { currentSymbol := -1, ops := (xs ++ [Opcode.ifNot 0]).toArray, unlinked := [(xs.length, (c, -1))] }

/-- `IF c THEN thens [ELSE elses]` (`xs` the code of the condition) -/
def ifFrag (c : Col) (xs : List Opcode) (thens elses : List Link) : Link :=
  let l2 := appendAllL (ifHead c xs) thens
  if elses.length = 0 then l2.pushSymbol (-1)
  else
    let l4 : Link := ((l2.nextSymbol.1.addUnlinked c l2.nextSymbol.2).push (Opcode.jump 0)).1
    let l6 := appendAllL (l4.pushSymbol (-1)) elses
    l6.pushSymbol l2.nextSymbol.2

/-! ## WHILE, WEND -/

theorem while_gen_run (c ce : Col) (e : Expr) (v : Array VarItem) (ex st : Array (Col × Link)) (xs : List Opcode)
    (h : xs.length + 1 ≤ Gen.stackMaxLen) :
    ((genStatement (.while c e)).run).run ⟨v, ex.push (ce, plain xs.toArray), st, {}⟩ =
      (.ok (c.1, ce.2), ⟨v, ex, st, whileFrag c xs⟩) := by
  simp only [genStatement]
  rw [grun_bind, popExpr_mk]; dsimp only
  unfold pushWhile
  rw [grun_bind, grun_bind, lnextSymbol_mk]; dsimp only
  rw [grun_bind, lpushSymbol_mk]; dsimp only
  rw [grun_bind, lappend_cur _ _ _ _ _ rfl (by simp [plain, pushSymbol]; omega) (by simp [plain, pushSymbol])]
  dsimp only
  rw [grun_bind, grun_modify]; dsimp only
  rw [lpush_cur _ _ _ _ _ (by simp [appended, plain, pushSymbol]; omega)]
  dsimp only
  rw [grun_pure]
  congr 2
  simp [whileFrag, appended, appendSymbols, appendUnlinked, appendWhiles, plain, pushSymbol, symInsert]

/-- **`WHILE c`** with a condition in the fragment `Spec.Pure` -/
theorem while_codegen_shape {e : Expr} (hp : Spec.Pure e) (c : Col) (s : VState)
    (hlen : (flat e).length + 1 ≤ Gen.stackMaxLen) :
    ∃ col, acceptStmt (.while c e) s =
      { s with g := { s.g with stmt := s.g.stmt.push (col, whileFrag c (flat e)) } } := by
  obtain ⟨⟨v, ex, st, cur⟩, errs⟩ := s
  simp only [acceptStmt]
  obtain ⟨ce, he⟩ := acceptExpr_shape_mk hp v ex st cur errs (by omega)
  rw [he]
  exact ⟨(c.1, ce.2), by rw [visitStatement_mk _ errs _ _ st cur _ _ (while_gen_run c ce e v ex st (flat e) hlen)]⟩

theorem wend_gen_run (c : Col) (v : Array VarItem) (ex st : Array (Col × Link)) :
    ((genStatement (.wend c)).run).run ⟨v, ex, st, {}⟩ = (.ok c, ⟨v, ex, st, wendFrag c⟩) := by
  simp only [genStatement]
  unfold pushWend
  rw [grun_bind, grun_bind, lnextSymbol_mk]; dsimp only
  rw [grun_bind, grun_modify]; dsimp only
  rw [grun_bind, lpush_cur _ _ _ _ _ (by show 0 + 1 ≤ Gen.stackMaxLen; decide)]; dsimp only
  rw [lpushSymbol_mk]; dsimp only
  rw [grun_pure]
  rfl

/-- **`WEND`** -/
theorem wend_codegen_shape (c : Col) (s : VState) :
    acceptStmt (.wend c) s = { s with g := { s.g with stmt := s.g.stmt.push (c, wendFrag c) } } := by
  obtain ⟨⟨v, ex, st, cur⟩, errs⟩ := s
  simp only [acceptStmt]
  rw [visitStatement_mk _ errs _ _ st cur _ _ (wend_gen_run c v ex st)]

/-! ## FOR, NEXT -/

theorem pushAsPopUnary_scalar_run (c : Col) (name : Str) (l : Link) (hz : isZeroArg name = false)
    (pv : Array VarItem) (ex st : Array (Col × Link)) (xs : Array Opcode) (h : xs.size + 1 ≤ Gen.stackMaxLen) :
    ((pushAsPopUnary ⟨c, name, l, none⟩).run).run ⟨pv, ex, st, plain xs⟩ =
      (.ok c, ⟨pv, ex, st, plain (xs.push (.pop name))⟩) := by
  unfold pushAsPopUnary
  rw [grun_bind, testForBuiltIn_scalar c name l hz, grun_liftE]; dsimp only
  rw [grun_bind, lpush_mk _ _ _ _ _ h]; dsimp only
  rw [grun_pure]

theorem for_gen_run (c cv ca cb cs : Col) (x : Variable) (a b s : Expr) (name : Str) (hz : isZeroArg name = false)
    (v : Array VarItem) (ex st : Array (Col × Link)) (xa xb xs : List Opcode)
    (h : xa.length + 1 + xb.length + xs.length + 2 ≤ Gen.stackMaxLen) :
    ((genStatement (.for c x a b s)).run).run
        ⟨v.push ⟨cv, name, {}, none⟩,
          ((ex.push (ca, plain xa.toArray)).push (cb, plain xb.toArray)).push (cs, plain xs.toArray), st, {}⟩ =
      (.ok (c.1, cs.2), ⟨v, ex, st, forFrag (c.1, cs.2) name xa xb xs⟩) := by
  simp only [genStatement]
  rw [grun_bind, popExpr_mk]; dsimp only
  rw [grun_bind, popExpr_mk]; dsimp only
  rw [grun_bind, popExpr_mk]; dsimp only
  rw [grun_bind, popVar_mk]; dsimp only
  rw [plain_empty, grun_bind, lappend_mk _ _ _ _ _ (by simp; omega)]; dsimp only
  rw [grun_bind, pushAsPopUnary_scalar_run _ _ _ hz _ _ _ _ (by simp; omega)]; dsimp only
  rw [grun_bind, lappend_mk _ _ _ _ _ (by simp; omega)]; dsimp only
  rw [grun_bind, lappend_mk _ _ _ _ _ (by simp; omega)]; dsimp only
  rw [grun_bind, lpush_mk _ _ _ _ _ (by simp; omega)]; dsimp only
  unfold pushFor
  rw [grun_bind, grun_bind, lnextSymbol_mk]; dsimp only
  rw [grun_bind, laddUnlinked_mk]; dsimp only
  rw [grun_bind, lpush_cur _ _ _ _ _ (by simp [plain, addUnlinked]; omega)]; dsimp only
  rw [lpushSymbol_mk]; dsimp only
  rw [grun_pure]
  congr 2
  simp [forFrag, plain, addUnlinked, pushSymbol, symInsert, unlInsert]
  omega

/-- **`FOR v = a TO b STEP s`**: `v` a scalar that is not a zero-argument built-in, the three
    expressions in the fragment -/
theorem for_codegen_shape {a b s : Expr} (hpa : Spec.Pure a) (hpb : Spec.Pure b) (hps : Spec.Pure s) (c cv : Col)
    (i : TIdent) (hz : isZeroArg i.name = false) (vs : VState)
    (hlen : (flat a).length + 1 + (flat b).length + (flat s).length + 2 ≤ Gen.stackMaxLen) :
    ∃ col, acceptStmt (.for c (.unary cv i) a b s) vs =
      { vs with g := { vs.g with stmt := vs.g.stmt.push (col, forFrag col i.name (flat a) (flat b) (flat s)) } } := by
  obtain ⟨⟨v, ex, st, cur⟩, errs⟩ := vs
  simp only [acceptStmt]
  rw [acceptVar_unary_mk]
  obtain ⟨ca, ha⟩ := acceptExpr_shape_mk hpa (v.push (scalarItem (cv, i))) ex st cur errs (by omega)
  rw [ha]
  obtain ⟨cb, hb⟩ := acceptExpr_shape_mk hpb (v.push (scalarItem (cv, i))) (ex.push (ca, plain (flat a).toArray)) st cur
    errs (by omega)
  rw [hb]
  obtain ⟨cs, hs⟩ := acceptExpr_shape_mk hps (v.push (scalarItem (cv, i)))
    ((ex.push (ca, plain (flat a).toArray)).push (cb, plain (flat b).toArray)) st cur errs (by omega)
  rw [hs]
  exact ⟨(c.1, cs.2), visitStatement_mk _ errs _ _ st cur _ _
      (for_gen_run c cv ca cb cs (.unary cv i) a b s i.name hz v ex st (flat a) (flat b) (flat s) hlen)⟩

theorem next_gen_run (c cv : Col) (x : Variable) (name : Str) (hz : isZeroArg name = false)
    (v : Array VarItem) (ex st : Array (Col × Link)) :
    ((genStatement (.next c [x])).run).run ⟨v.push ⟨cv, name, {}, none⟩, ex, st, {}⟩ =
      (.ok c, ⟨v, ex, st, plain #[Opcode.next name]⟩) := by
  simp only [genStatement]
  have hp := popNVar_run ⟨v.push ⟨cv, name, {}, none⟩, ex, st, {}⟩ v [⟨cv, name, {}, none⟩] (by simp)
  simp only [List.length_cons, List.length_nil, Nat.zero_add] at hp ⊢
  rw [grun_bind, hp]; dsimp only
  simp only [List.forIn_cons, List.forIn_nil, grun_bind, grun_pure, testForBuiltIn_scalar cv name {} hz, grun_liftE]
  rw [plain_empty, lpush_mk _ _ _ _ _ (by decide)]
  rfl

/-- **`NEXT v`** -/
theorem next_codegen_shape (c cv : Col) (i : TIdent) (hz : isZeroArg i.name = false) (vs : VState) :
    acceptStmt (.next c [.unary cv i]) vs =
      { vs with g := { vs.g with stmt := vs.g.stmt.push (c, plain #[Opcode.next i.name]) } } := by
  obtain ⟨⟨v, ex, st, cur⟩, errs⟩ := vs
  simp only [acceptStmt, acceptVars, List.foldl_cons, List.foldl_nil]
  rw [acceptVar_unary_mk]
  exact visitStatement_mk _ errs _ _ st cur _ _ (next_gen_run c cv (.unary cv i) i.name hz v ex st)

/-! ## IF -/

/-- total code size of a list of fragments -/
def opsTotal : List Link → Nat
  | [] => 0
  | f :: fs => f.ops.size + opsTotal fs

theorem appendAllL_nil (l : Link) : appendAllL l [] = l := rfl
theorem appendAllL_cons (l f : Link) (fs : List Link) : appendAllL l (f :: fs) = appendAllL (appended l f) fs := rfl

theorem appendAllL_append (l : Link) (fs gs : List Link) :
    appendAllL l (fs ++ gs) = appendAllL (appendAllL l fs) gs := by
  unfold appendAllL
  rw [List.foldl_append]

theorem appendAllL_directSet (fs : List Link) : ∀ (l : Link), (appendAllL l fs).directSet = l.directSet := by
  induction fs with
  | nil => intro l; rfl
  | cons f fs ih => intro l; rw [appendAllL_cons, ih]; rfl

theorem appendAllL_ops_size (fs : List Link) : ∀ (l : Link), (appendAllL l fs).ops.size = l.ops.size + opsTotal fs := by
  induction fs with
  | nil => intro l; rfl
  | cons f fs ih =>
    intro l
    rw [appendAllL_cons, ih]
    simp only [appended, Array.size_append, opsTotal]
    omega

theorem appendAllL_data (fs : List Link) (hfs : ∀ f ∈ fs, f.data = #[]) :
    ∀ (l : Link), (appendAllL l fs).data = l.data := by
  induction fs with
  | nil => intro l; rfl
  | cons f fs ih =>
    intro l
    rw [appendAllL_cons, ih (fun g hg => hfs g (List.mem_cons_of_mem _ hg))]
    simp only [appended, hfs f List.mem_cons_self, Array.append_empty]

/-- a loop that appends every fragment of a list -/
theorem forIn_lappend_all (f : Col × Link → PUnit → GM (ForInStep PUnit))
    (hf : ∀ (x : Col × Link) (r : PUnit) (v : Array VarItem) (ex st : Array (Col × Link)) (cur : Link),
      ((f x r).run).run ⟨v, ex, st, cur⟩ =
        match ((lappend x.2).run).run ⟨v, ex, st, cur⟩ with
        | (.ok _, g) => (.ok (.yield ⟨⟩), g)
        | (.error e, g) => (.error e, g)) :
    ∀ (frs : List (Col × Link)) (v : Array VarItem) (ex st : Array (Col × Link)) (cur : Link),
      cur.directSet = false → cur.data = #[] → (∀ x ∈ frs, x.2.data = #[]) →
      cur.ops.size + opsTotal (frs.map (·.2)) ≤ Gen.stackMaxLen →
      ((forIn frs PUnit.unit f).run).run ⟨v, ex, st, cur⟩ = (.ok ⟨⟩, ⟨v, ex, st, appendAllL cur (frs.map (·.2))⟩)
  | [], v, ex, st, cur, _, _, _, _ => by simp only [List.forIn_nil, grun_pure, List.map_nil, appendAllL_nil]
  | x :: frs, v, ex, st, cur, hd, hdata, hfd, hsz => by
    simp only [List.map_cons, opsTotal] at hsz
    have hx := hfd x List.mem_cons_self
    rw [List.forIn_cons, grun_bind, hf,
      lappend_cur _ _ _ _ _ hd (by omega) (by rw [hdata, hx]; simp)]
    dsimp only
    rw [forIn_lappend_all f hf frs v ex st (appended cur x.2) hd (by simp [appended, hdata, hx])
      (fun y hy => hfd y (List.mem_cons_of_mem _ hy)) (by simp only [appended, Array.size_append]; omega)]
    rfl

theorem forIn_lappend_snd (frs : List (Col × Link)) (v : Array VarItem) (ex st : Array (Col × Link)) (cur : Link)
    (hd : cur.directSet = false) (hdata : cur.data = #[]) (hfd : ∀ x ∈ frs, x.2.data = #[])
    (hsz : cur.ops.size + opsTotal (frs.map (·.2)) ≤ Gen.stackMaxLen) :
    ((forIn frs PUnit.unit
      (fun (x : Col × Link) (_ : PUnit) => (do lappend x.2; pure (ForInStep.yield PUnit.unit) : GM (ForInStep PUnit)))).run).run
        ⟨v, ex, st, cur⟩ = (.ok ⟨⟩, ⟨v, ex, st, appendAllL cur (frs.map (·.2))⟩) :=
  forIn_lappend_all _
    (by
      intro x r v ex st cur
      rw [grun_bind]
      cases h : ((lappend x.2).run).run ⟨v, ex, st, cur⟩ with
      | mk r g => cases r <;> rfl)
    frs v ex st cur hd hdata hfd hsz

theorem ifHead_eq (c : Col) (xs : List Opcode) :
    (((plain (#[] ++ xs.toArray)).nextSymbol.1.addUnlinked c ((plain (#[] ++ xs.toArray)).currentSymbol - 1)).push
      (Opcode.ifNot 0)).1 = ifHead c xs := by
  simp [ifHead, plain, addUnlinked, unlInsert, Link.push, Link.nextSymbol]

theorem if_gen_run (c cp : Col) (p : Expr) (th el : List Stmt) (v : Array VarItem) (ex st : Array (Col × Link))
    (xs : List Opcode) (thens elses : List (Col × Link)) (hth : thens.length = th.length) (hel : elses.length = el.length)
    (hdt : ∀ x ∈ thens, x.2.data = #[]) (hde : ∀ x ∈ elses, x.2.data = #[])
    (hsz : xs.length + 1 + opsTotal (thens.map (·.2)) +
      (if elses.length = 0 then 0 else 1 + opsTotal (elses.map (·.2))) ≤ Gen.stackMaxLen) :
    ((genStatement (.if c p th el)).run).run
        ⟨v, ex.push (cp, plain xs.toArray), st ++ thens.toArray ++ elses.toArray, {}⟩ =
      (.ok c, ⟨v, ex, st, ifFrag c xs (thens.map (·.2)) (elses.map (·.2))⟩) := by
  simp only [genStatement]
  rw [grun_bind, popExpr_mk]; dsimp only
  rw [plain_empty, grun_bind, lappend_mk _ _ _ _ _ (by simp; omega)]; dsimp only
  rw [grun_bind, lnextSymbol_fn]; dsimp only
  unfold pushIfnot
  rw [grun_bind, grun_bind, laddUnlinked_mk]; dsimp only
  rw [lpush_fn _ _ _ _ _ (by simp [plain, addUnlinked, Link.nextSymbol]; omega)]; dsimp only
  rw [ifHead_eq]
  rw [← hel, grun_bind, popNStmt_mk]; dsimp only
  rw [← hth, grun_bind, popNStmt_mk]; dsimp only
  have hsym : (plain (#[] ++ xs.toArray)).currentSymbol - 1 = (-1 : Int) := rfl
  rw [hsym]
  rw [grun_bind]
  erw [forIn_lappend_snd thens v ex st (ifHead c xs) rfl rfl hdt (by simp [ifHead]; omega)]
  dsimp only
  have hsz2 : (appendAllL (ifHead c xs) (thens.map (·.2))).ops.size = xs.length + 1 + opsTotal (thens.map (·.2)) := by
    rw [appendAllL_ops_size]; simp [ifHead]
  by_cases he0 : elses.length = 0
  · have hnil : elses = [] := List.eq_nil_of_length_eq_zero he0
    subst hnil
    simp only [List.length_nil, if_true, grun_bind, lpushSymbol_mk, grun_pure, ifFrag, List.map_nil]
  · simp only [he0, if_false] at hsz
    simp only [he0, if_false]
    rw [grun_bind, lnextSymbol_fn]; dsimp only
    unfold pushJump
    rw [grun_bind, grun_bind, laddUnlinked_mk]; dsimp only
    rw [lpush_fn _ _ _ _ _ (by show (appendAllL _ _).ops.size + 1 ≤ _; rw [hsz2]; omega)]
    dsimp only
    rw [grun_bind, lpushSymbol_mk]; dsimp only
    rw [grun_bind]
    erw [forIn_lappend_snd elses v ex st _
      (by show (appendAllL _ _).directSet = false; rw [appendAllL_directSet]; rfl)
      (by show (appendAllL _ _).data = #[]
          rw [appendAllL_data _ (by intro f hf; obtain ⟨x, hx, rfl⟩ := List.mem_map.1 hf; exact hdt x hx)]; rfl)
      hde
      (by show ((appendAllL _ _).ops.push _).size + _ ≤ _
          rw [Array.size_push, hsz2]; omega)]
    dsimp only
    rw [grun_bind, lpushSymbol_mk]; dsimp only
    rw [grun_pure]
    simp only [ifFrag, List.length_map, he0, if_false]
    rfl

/-! ## structured statements as the parser builds them -/

/-- the structured statements with the columns and identifiers of the AST -/
inductive AStmt where
  | assign (c cv : Col) (i : TIdent) (e : Expr)
  | seq (p q : AStmt)
  | ifThen (c : Col) (cnd : Expr) (p : AStmt)
  | ifThenElse (c : Col) (cnd : Expr) (p q : AStmt)
  /-- `c` the column of WHILE, `cw` that of WEND -/
  | while (c cw : Col) (cnd : Expr) (p : AStmt)
  /-- `c`, `cv` the columns of FOR and of its variable, `cn`, `cnv` those of NEXT and of its variable -/
  | for (c cv cn cnv : Col) (i : TIdent) (a b s : Expr) (p : AStmt)

/-- forgetting the columns -/
def AStmt.erase : AStmt → SStmt
  | .assign _ _ i e => .assign i.name e
  | .seq p q => .seq p.erase q.erase
  | .ifThen _ cnd p => .ifThen cnd p.erase
  | .ifThenElse _ cnd p q => .ifThenElse cnd p.erase q.erase
  | .while _ _ cnd p => .while cnd p.erase
  | .for _ _ _ _ i a b s p => .for i.name a b s p.erase

/-- the statement list of the AST: the statements of one line (or of one THEN / ELSE part) in order;
    WHILE / WEND and FOR / NEXT are statements of their own, IF holds its parts -/
def AStmt.stmts : AStmt → List Stmt
  | .assign c cv i e => [.let c (.unary cv i) e]
  | .seq p q => p.stmts ++ q.stmts
  | .ifThen c cnd p => [.if c cnd p.stmts []]
  | .ifThenElse c cnd p q => [.if c cnd p.stmts q.stmts]
  | .while c cw cnd p => .while c cnd :: (p.stmts ++ [.wend cw])
  | .for c cv cn cnv i a b s p => .for c (.unary cv i) a b s :: (p.stmts ++ [.next cn [.unary cnv i]])

/-- the names are no zero-argument built-ins (DATE$, INKEY$, TIME$) -/
def AStmt.Named : AStmt → Prop
  | .assign _ _ i _ => isZeroArg i.name = false
  | .seq p q => p.Named ∧ q.Named
  | .ifThen _ _ p => p.Named
  | .ifThenElse _ _ p q => p.Named ∧ q.Named
  | .while _ _ _ p => p.Named
  | .for _ _ _ _ i _ _ _ p => isZeroArg i.name = false ∧ p.Named

def AStmt.decNamed : (p : AStmt) → Decidable p.Named
  | .assign _ _ i _ => inferInstanceAs (Decidable (isZeroArg i.name = false))
  | .seq p q => @instDecidableAnd _ _ p.decNamed q.decNamed
  | .ifThen _ _ p => p.decNamed
  | .ifThenElse _ _ p q => @instDecidableAnd _ _ p.decNamed q.decNamed
  | .while _ _ _ p => p.decNamed
  | .for _ _ _ _ _ _ _ _ p => @instDecidableAnd _ _ inferInstance p.decNamed

instance : DecidablePred AStmt.Named := AStmt.decNamed

/-- the statement fragments of a structured statement, in order (the column kept with FOR's pending
    reference is the generator's business) -/
def FragShape : AStmt → List Link → Prop
  | .assign _ _ i e, fs => fs = [plain (flat e ++ [Opcode.pop i.name]).toArray]
  | .seq p q, fs => ∃ f1 f2, fs = f1 ++ f2 ∧ FragShape p f1 ∧ FragShape q f2
  | .ifThen c cnd p, fs => ∃ ft, fs = [ifFrag c (flat cnd) ft []] ∧ FragShape p ft
  | .ifThenElse c cnd p q, fs => ∃ ft fe, fs = [ifFrag c (flat cnd) ft fe] ∧ FragShape p ft ∧ FragShape q fe
  | .while c cw cnd p, fs => ∃ fb, fs = whileFrag c (flat cnd) :: (fb ++ [wendFrag cw]) ∧ FragShape p fb
  | .for _ _ _ _ i a b s p, fs =>
    ∃ col fb, fs = forFrag col i.name (flat a) (flat b) (flat s) :: (fb ++ [plain #[Opcode.next i.name]]) ∧
      FragShape p fb

theorem opsTotal_append (fs gs : List Link) : opsTotal (fs ++ gs) = opsTotal fs + opsTotal gs := by
  induction fs with
  | nil => simp [opsTotal]
  | cons f fs ih => simp only [List.cons_append, opsTotal, ih]; omega

theorem ifFrag_data (c : Col) (xs : List Opcode) (thens elses : List Link) (ht : ∀ f ∈ thens, f.data = #[])
    (he : ∀ f ∈ elses, f.data = #[]) : (ifFrag c xs thens elses).data = #[] := by
  unfold ifFrag
  dsimp only
  split
  · show (appendAllL _ _).data = #[]
    rw [appendAllL_data _ ht]; rfl
  · show (appendAllL _ _).data = #[]
    rw [appendAllL_data _ he]
    show (appendAllL _ _).data = #[]
    rw [appendAllL_data _ ht]; rfl

theorem ifFrag_ops_size (c : Col) (xs : List Opcode) (thens elses : List Link) :
    (ifFrag c xs thens elses).ops.size =
      if elses.length = 0 then xs.length + 1 + opsTotal thens else xs.length + 1 + opsTotal thens + 1 + opsTotal elses := by
  unfold ifFrag
  dsimp only
  split
  · show (appendAllL _ _).ops.size = _
    rw [appendAllL_ops_size]; simp [ifHead]
  · show (appendAllL _ _).ops.size = _
    rw [appendAllL_ops_size]
    show ((appendAllL _ _).ops.push _).size + _ = _
    rw [Array.size_push, appendAllL_ops_size]; simp [ifHead]

theorem FragShape.data : ∀ {p : AStmt} {fs : List Link}, FragShape p fs → ∀ f ∈ fs, f.data = #[]
  | .assign _ _ _ _, fs, h => by
    simp only [FragShape] at h
    subst h
    intro f hf
    simp only [List.mem_singleton] at hf
    subst hf
    rfl
  | .seq p q, fs, h => by
    obtain ⟨f1, f2, rfl, h1, h2⟩ := h
    intro f hf
    rcases List.mem_append.1 hf with hf | hf
    · exact FragShape.data h1 f hf
    · exact FragShape.data h2 f hf
  | .ifThen c cnd p, fs, h => by
    obtain ⟨ft, rfl, h1⟩ := h
    intro f hf
    simp only [List.mem_singleton] at hf
    subst hf
    exact ifFrag_data _ _ _ _ (FragShape.data h1) (fun _ h => nomatch h)
  | .ifThenElse c cnd p q, fs, h => by
    obtain ⟨ft, fe, rfl, h1, h2⟩ := h
    intro f hf
    simp only [List.mem_singleton] at hf
    subst hf
    exact ifFrag_data _ _ _ _ (FragShape.data h1) (FragShape.data h2)
  | .while c cw cnd p, fs, h => by
    obtain ⟨fb, rfl, h1⟩ := h
    intro f hf
    simp only [List.mem_cons, List.mem_append, List.not_mem_nil, or_false] at hf
    rcases hf with rfl | hf | rfl
    · rfl
    · exact FragShape.data h1 f hf
    · rfl
  | .for _ _ _ _ i a b s p, fs, h => by
    obtain ⟨col, fb, rfl, h1⟩ := h
    intro f hf
    simp only [List.mem_cons, List.mem_append, List.not_mem_nil, or_false] at hf
    rcases hf with rfl | hf | rfl
    · rfl
    · exact FragShape.data h1 f hf
    · rfl

theorem FragShape.length : ∀ {p : AStmt} {fs : List Link}, FragShape p fs → fs.length = p.stmts.length
  | .assign _ _ _ _, fs, h => by simp only [FragShape] at h; subst h; rfl
  | .seq p q, fs, h => by
    obtain ⟨f1, f2, rfl, h1, h2⟩ := h
    simp only [List.length_append, AStmt.stmts, FragShape.length h1, FragShape.length h2]
  | .ifThen c cnd p, fs, h => by obtain ⟨ft, rfl, h1⟩ := h; rfl
  | .ifThenElse c cnd p q, fs, h => by obtain ⟨ft, fe, rfl, h1, h2⟩ := h; rfl
  | .while c cw cnd p, fs, h => by
    obtain ⟨fb, rfl, h1⟩ := h
    simp only [List.length_cons, List.length_append, List.length_nil, AStmt.stmts, FragShape.length h1]
  | .for _ _ _ _ i a b s p, fs, h => by
    obtain ⟨col, fb, rfl, h1⟩ := h
    simp only [List.length_cons, List.length_append, List.length_nil, AStmt.stmts, FragShape.length h1]

theorem FragShape.ne_nil : ∀ {p : AStmt} {fs : List Link}, FragShape p fs → fs.length ≠ 0
  | .assign _ _ _ _, fs, h => by simp only [FragShape] at h; subst h; simp
  | .seq p q, fs, h => by
    obtain ⟨f1, f2, rfl, h1, h2⟩ := h
    have := FragShape.ne_nil h1
    simp only [List.length_append]; omega
  | .ifThen c cnd p, fs, h => by obtain ⟨ft, rfl, h1⟩ := h; simp
  | .ifThenElse c cnd p q, fs, h => by obtain ⟨ft, fe, rfl, h1, h2⟩ := h; simp
  | .while c cw cnd p, fs, h => by obtain ⟨fb, rfl, h1⟩ := h; simp
  | .for _ _ _ _ i a b s p, fs, h => by obtain ⟨col, fb, rfl, h1⟩ := h; simp

/-- the fragments' code sizes add up to the size of the linked code -/
theorem FragShape.opsTotal : ∀ {p : AStmt} {fs : List Link}, FragShape p fs → opsTotal fs = size p.erase
  | .assign _ _ _ _, fs, h => by
    simp only [FragShape] at h
    subst h
    simp [StructCodegen.opsTotal, plain, size, AStmt.erase]
  | .seq p q, fs, h => by
    obtain ⟨f1, f2, rfl, h1, h2⟩ := h
    rw [opsTotal_append, FragShape.opsTotal h1, FragShape.opsTotal h2]
    rfl
  | .ifThen c cnd p, fs, h => by
    obtain ⟨ft, rfl, h1⟩ := h
    simp only [StructCodegen.opsTotal, ifFrag_ops_size, List.length_nil, if_true, FragShape.opsTotal h1, size,
      AStmt.erase, Nat.add_zero]
  | .ifThenElse c cnd p q, fs, h => by
    obtain ⟨ft, fe, rfl, h1, h2⟩ := h
    simp only [StructCodegen.opsTotal, ifFrag_ops_size, FragShape.ne_nil h2, if_false, FragShape.opsTotal h1,
      FragShape.opsTotal h2, size, AStmt.erase, Nat.add_zero]
  | .while c cw cnd p, fs, h => by
    obtain ⟨fb, rfl, h1⟩ := h
    simp only [StructCodegen.opsTotal, opsTotal_append, FragShape.opsTotal h1, size, AStmt.erase, whileFrag, wendFrag]
    simp
    omega
  | .for _ _ _ _ i a b s p, fs, h => by
    obtain ⟨col, fb, rfl, h1⟩ := h
    simp only [StructCodegen.opsTotal, opsTotal_append, FragShape.opsTotal h1, size, AStmt.erase, forFrag, plain,
      forInitLen]
    simp
    omega

theorem acceptStmts_append (xs ys : List Stmt) (s : VState) :
    acceptStmts (xs ++ ys) s = acceptStmts ys (acceptStmts xs s) := by
  induction xs generalizing s with
  | nil => simp only [List.nil_append, acceptStmts]
  | cons x xs ih => simp only [List.cons_append, acceptStmts, ih]

/-- **Codegen shape of a structured statement.**  Visiting its statement list pushes its fragments
    (`FragShape`) on the statement stack, in order; nothing is reported; the other stacks and the fragment
    under construction are untouched. -/
theorem acceptStmts_shape : ∀ (p : AStmt), p.erase.Pure → p.Named → size p.erase ≤ Gen.stackMaxLen →
    ∀ (v : Array VarItem) (ex st : Array (Col × Link)) (cur : Link) (errs : List Error),
      ∃ frs : List (Col × Link), FragShape p (frs.map (·.2)) ∧
        acceptStmts p.stmts ⟨⟨v, ex, st, cur⟩, errs⟩ = ⟨⟨v, ex, st ++ frs.toArray, cur⟩, errs⟩
  | .assign c cv i e, hp, hn, hsz, v, ex, st, cur, errs => by
    obtain ⟨col, h⟩ := let_codegen_shape hp c cv i hn ⟨⟨v, ex, st, cur⟩, errs⟩ (by simpa [size, AStmt.erase] using hsz)
    refine ⟨[(col, plain (flat e ++ [Opcode.pop i.name]).toArray)], rfl, ?_⟩
    simp only [AStmt.stmts, acceptStmts]
    rw [h]
    simp
  | .seq p q, hp, hn, hsz, v, ex, st, cur, errs => by
    simp only [AStmt.erase, size] at hsz
    obtain ⟨f1, h1, e1⟩ := acceptStmts_shape p hp.1 hn.1 (by omega) v ex st cur errs
    obtain ⟨f2, h2, e2⟩ := acceptStmts_shape q hp.2 hn.2 (by omega) v ex (st ++ f1.toArray) cur errs
    refine ⟨f1 ++ f2, ⟨f1.map (·.2), f2.map (·.2), by simp, h1, h2⟩, ?_⟩
    simp only [AStmt.stmts, acceptStmts_append]
    rw [e1, e2]
    simp
  | .ifThen c cnd p, hp, hn, hsz, v, ex, st, cur, errs => by
    simp only [AStmt.erase, size] at hsz
    obtain ⟨cp, hc⟩ := acceptExpr_shape_mk hp.1 v ex st cur errs (by omega)
    obtain ⟨ft, ht, et⟩ := acceptStmts_shape p hp.2 hn (by omega) v (ex.push (cp, plain (flat cnd).toArray)) st cur errs
    refine ⟨[(c, ifFrag c (flat cnd) (ft.map (·.2)) [])], ⟨ft.map (·.2), rfl, ht⟩, ?_⟩
    simp only [AStmt.stmts, acceptStmts, acceptStmt]
    rw [hc, et]
    have hlen : ft.length = p.stmts.length := by simpa using FragShape.length ht
    have hg := if_gen_run c cp cnd p.stmts [] v ex st (flat cnd) ft [] hlen rfl
      (by intro x hx; exact FragShape.data ht x.2 (List.mem_map_of_mem hx)) (fun _ h => nomatch h)
      (by simp only [List.length_nil, if_true, FragShape.opsTotal ht]; omega)
    have hst : st ++ ft.toArray ++ ([] : List (Col × Link)).toArray = st ++ ft.toArray := by simp
    rw [hst] at hg
    rw [visitStatement_mk _ errs _ _ (st ++ ft.toArray) cur _ _ hg]
    simp
  | .ifThenElse c cnd p q, hp, hn, hsz, v, ex, st, cur, errs => by
    simp only [AStmt.erase, size] at hsz
    obtain ⟨cp, hc⟩ := acceptExpr_shape_mk hp.1 v ex st cur errs (by omega)
    obtain ⟨ft, ht, et⟩ := acceptStmts_shape p hp.2.1 hn.1 (by omega) v (ex.push (cp, plain (flat cnd).toArray)) st cur
      errs
    obtain ⟨fe, he, ee⟩ := acceptStmts_shape q hp.2.2 hn.2 (by omega) v (ex.push (cp, plain (flat cnd).toArray))
      (st ++ ft.toArray) cur errs
    refine ⟨[(c, ifFrag c (flat cnd) (ft.map (·.2)) (fe.map (·.2)))], ⟨ft.map (·.2), fe.map (·.2), rfl, ht, he⟩, ?_⟩
    simp only [AStmt.stmts, acceptStmts, acceptStmt]
    rw [hc, et, ee]
    have hlt : ft.length = p.stmts.length := by simpa using FragShape.length ht
    have hle : fe.length = q.stmts.length := by simpa using FragShape.length he
    have hne : fe.length ≠ 0 := by simpa using FragShape.ne_nil he
    have hg := if_gen_run c cp cnd p.stmts q.stmts v ex st (flat cnd) ft fe hlt hle
      (by intro x hx; exact FragShape.data ht x.2 (List.mem_map_of_mem hx))
      (by intro x hx; exact FragShape.data he x.2 (List.mem_map_of_mem hx))
      (by simp only [hne, if_false, FragShape.opsTotal ht, FragShape.opsTotal he]; omega)
    rw [visitStatement_mk _ errs _ _ (st ++ ft.toArray ++ fe.toArray) cur _ _ hg]
    simp
  | .while c cw cnd p, hp, hn, hsz, v, ex, st, cur, errs => by
    simp only [AStmt.erase, size] at hsz
    obtain ⟨col, hw⟩ := while_codegen_shape hp.1 c ⟨⟨v, ex, st, cur⟩, errs⟩ (by omega)
    obtain ⟨fb, hb, eb⟩ := acceptStmts_shape p hp.2 hn (by omega) v ex (st.push (col, whileFrag c (flat cnd))) cur errs
    refine ⟨(col, whileFrag c (flat cnd)) :: (fb ++ [(cw, wendFrag cw)]), ⟨fb.map (·.2), by simp, hb⟩, ?_⟩
    simp only [AStmt.stmts, acceptStmts, acceptStmts_append]
    rw [hw]
    dsimp only
    rw [eb, wend_codegen_shape]
    simp
  | .for c cv cn cnv i a b s p, hp, hn, hsz, v, ex, st, cur, errs => by
    simp only [AStmt.erase, size, forInitLen] at hsz
    obtain ⟨col, hf⟩ := for_codegen_shape hp.1 hp.2.1 hp.2.2.1 c cv i hn.1 ⟨⟨v, ex, st, cur⟩, errs⟩ (by omega)
    obtain ⟨fb, hb, eb⟩ := acceptStmts_shape p hp.2.2.2 hn.2 (by omega) v ex
      (st.push (col, forFrag col i.name (flat a) (flat b) (flat s))) cur errs
    refine ⟨(col, forFrag col i.name (flat a) (flat b) (flat s)) :: (fb ++ [(cn, plain #[Opcode.next i.name])]),
      ⟨col, fb.map (·.2), by simp, hb⟩, ?_⟩
    simp only [AStmt.stmts, acceptStmts, acceptStmts_append]
    rw [hf]
    dsimp only
    rw [eb, next_codegen_shape _ _ _ hn.1]
    simp

end Lemmas.StructCodegen

end Basic
