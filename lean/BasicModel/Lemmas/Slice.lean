import BasicModel.Lemmas.StepAll
/-
  `executeLoop` as a pure function with an instruction counter.

  `sliceRun env h n s` runs at most `n` steps and returns
    * `.ok none`     — the quantum is exhausted (all `n` steps returned `continue`),
    * `.ok (some e)` — a step returned the event `e`,
    * `.error e`     — a step threw,
  together with the final state and the number of steps executed.  `executeLoop` maps `none` to
  `Event.running`, which is why the distinction has to be made here: CONT, INPUT and LIST also
  return `Event.running`, as an event.
-/
namespace Basic
namespace Runtime

def sliceRun (env : Env) (h : Bool) : Nat → Runtime → Except Error (Option Event) × Runtime × Nat
  | 0, s => (.ok none, s, 0)
  | k+1, s =>
    match (step env h).run.run s with
    | (.ok .continue, s') => let r := sliceRun env h k s'; (r.1, r.2.1, r.2.2 + 1)
    | (.ok (.event e), s') => (.ok (some e), s', 1)
    | (.error e, s') => (.error e, s', 1)

/-- the flag `executeLoop` reads once at the start of a slice -/
def hasIndirectErrors (s : Runtime) : Bool := !s.listing.indirectErrors.isEmpty

def slice (env : Env) (n : Nat) (s : Runtime) : Except Error (Option Event) × Runtime × Nat :=
  sliceRun env (hasIndirectErrors s) n s

/-- what `executeLoop` reports for a slice result -/
def toEvent : Except Error (Option Event) → Except Error Event
  | .ok none => .ok .running
  | .ok (some e) => .ok e
  | .error e => .error e

theorem loop_run (env : Env) (h : Bool) (n : Nat) (s : Runtime) :
    (executeLoop.loop env h n).run.run s =
      (toEvent (sliceRun env h n s).1, (sliceRun env h n s).2.1) := by
  induction n generalizing s with
  | zero => rfl
  | succ k ih =>
    unfold executeLoop.loop sliceRun
    rw [run_bind]
    rcases hs : (step env h).run.run s with ⟨r, s'⟩
    rcases r with e | st
    · rfl
    · cases st with
      | «continue» => exact ih s'
      | event e => rfl

theorem executeLoop_run (env : Env) (n : Nat) (s : Runtime) :
    (executeLoop env n).run.run s = (toEvent (slice env n s).1, (slice env n s).2.1) := by
  unfold executeLoop
  rw [run_bind_ok (run_get s)]
  exact loop_run env _ n s

theorem sliceRun_steps_le (env : Env) (h : Bool) (n : Nat) (s : Runtime) :
    (sliceRun env h n s).2.2 ≤ n := by
  induction n generalizing s with
  | zero => exact Nat.le_refl 0
  | succ k ih =>
    unfold sliceRun
    split
    · exact Nat.succ_le_succ (ih _)
    · exact Nat.succ_le_succ (Nat.zero_le k)
    · exact Nat.succ_le_succ (Nat.zero_le k)

/-- the quantum is reported exhausted only after exactly `n` steps -/
theorem sliceRun_none_steps (env : Env) (h : Bool) (n : Nat) (s : Runtime)
    (hr : (sliceRun env h n s).1 = .ok none) : (sliceRun env h n s).2.2 = n := by
  induction n generalizing s with
  | zero => rfl
  | succ k ih =>
    unfold sliceRun at hr ⊢
    split
    · rename_i s' heq
      rw [heq] at hr
      exact congrArg (· + 1) (ih s' hr)
    · rename_i e s' heq; rw [heq] at hr; cases hr
    · rename_i e s' heq; rw [heq] at hr; cases hr

/-- while no event occurs the state moves calmly -/
theorem sliceRun_none_calm (env : Env) (h : Bool) (n : Nat) (s : Runtime)
    (hr : (sliceRun env h n s).1 = .ok none) : Calm s (sliceRun env h n s).2.1 := by
  induction n generalizing s with
  | zero => exact FrameRel.refl s
  | succ k ih =>
    unfold sliceRun at hr ⊢
    split
    · rename_i s' heq
      rw [heq] at hr
      exact FrameRel.trans (step_continue_calm heq) (ih s' hr)
    · rename_i e s' heq; rw [heq] at hr; cases hr
    · rename_i e s' heq; rw [heq] at hr; cases hr

theorem sliceRun_succ (env : Env) (h : Bool) (k : Nat) (s : Runtime) :
    sliceRun env h (k + 1) s =
      match (step env h).run.run s with
      | (.ok .continue, s') => let r := sliceRun env h k s'; (r.1, r.2.1, r.2.2 + 1)
      | (.ok (.event e), s') => (.ok (some e), s', 1)
      | (.error e, s') => (.error e, s', 1) := by
  rw [sliceRun]

/-- additivity for a fixed flag -/
theorem sliceRun_add (env : Env) (h : Bool) (m n : Nat) (s : Runtime) :
    sliceRun env h (m + n) s =
      match sliceRun env h m s with
      | (.ok none, s', c) => let r := sliceRun env h n s'; (r.1, r.2.1, c + r.2.2)
      | r => r := by
  induction m generalizing s with
  | zero =>
    rw [Nat.zero_add]
    show _ = ((sliceRun env h n s).1, (sliceRun env h n s).2.1, 0 + (sliceRun env h n s).2.2)
    rw [Nat.zero_add]
  | succ k ih =>
    rw [Nat.succ_add, sliceRun_succ env h (k + n) s, sliceRun_succ env h k s]
    rcases hs : (step env h).run.run s with ⟨r, s'⟩
    rcases r with e | st
    · rfl
    · cases st with
      | event e => rfl
      | «continue» =>
        dsimp only
        rw [ih s']
        rcases hk : sliceRun env h k s' with ⟨r, t, c⟩
        rcases r with e | o
        · rfl
        · cases o with
          | some e => rfl
          | none => dsimp only; rw [Nat.add_right_comm]

/-- additivity of slices: the flag read at the start of the second slice is the one read at the
    start of the first, because no step that returns `continue` touches the listing -/
theorem slice_add (env : Env) (m n : Nat) (s : Runtime) :
    slice env (m + n) s =
      match slice env m s with
      | (.ok none, s', c) => let r := slice env n s'; (r.1, r.2.1, c + r.2.2)
      | r => r := by
  unfold slice
  rw [sliceRun_add]
  rcases hk : sliceRun env (hasIndirectErrors s) m s with ⟨r, t, c⟩
  rcases r with e | o
  · rfl
  · cases o with
    | some e => rfl
    | none =>
      have hc := sliceRun_none_calm env (hasIndirectErrors s) m s (by rw [hk])
      rw [hk] at hc
      have : hasIndirectErrors t = hasIndirectErrors s := by
        unfold hasIndirectErrors; rw [hc.listing]
      dsimp only
      rw [this]

theorem slice_steps_le (env : Env) (n : Nat) (s : Runtime) : (slice env n s).2.2 ≤ n :=
  sliceRun_steps_le env _ n s

theorem slice_none_steps (env : Env) (n : Nat) (s : Runtime)
    (hr : (slice env n s).1 = .ok none) : (slice env n s).2.2 = n :=
  sliceRun_none_steps env _ n s hr

theorem slice_none_calm (env : Env) (n : Nat) (s : Runtime)
    (hr : (slice env n s).1 = .ok none) : Calm s (slice env n s).2.1 :=
  sliceRun_none_calm env _ n s hr

/-- a slice that reports an event `running` has left the `running` state -/
theorem sliceRun_running_state (env : Env) (h : Bool) (n : Nat) (s : Runtime)
    (hr : (sliceRun env h n s).1 = .ok (some .running)) : (sliceRun env h n s).2.1.state ≠ .running := by
  induction n generalizing s with
  | zero => cases hr
  | succ k ih =>
    rw [sliceRun_succ] at hr ⊢
    split
    · rename_i s' heq; rw [heq] at hr; exact ih s' hr
    · rename_i e s' heq
      rw [heq] at hr
      have : e = .running := by injection hr with hr; injection hr
      subst this
      exact step_running_state heq
    · rename_i e s' heq; rw [heq] at hr; cases hr

/-- `executeLoop` returning `Event.running` in state `running` means: quantum exhausted -/
theorem slice_exhausted_of_running (env : Env) (n : Nat) (s : Runtime)
    (hr : toEvent (slice env n s).1 = .ok .running) (hs : (slice env n s).2.1.state = .running) :
    (slice env n s).1 = .ok none := by
  rcases h1 : (slice env n s).1 with e | o
  · rw [h1] at hr; cases hr
  · cases o with
    | none => rfl
    | some e =>
      rw [h1] at hr
      have : e = .running := by injection hr
      subst this
      exact absurd hs (sliceRun_running_state env _ n s h1)

end Runtime
end Basic
