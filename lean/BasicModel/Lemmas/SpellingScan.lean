import BasicModel.Lemmas.SpellingPost
import BasicModel.Lemmas.LexTrail
/-
  C16, scanner part: contexts.  `Cut pre A c` says that the token iterator, having read `pre`,
  has handed out `A` and stands at a token boundary in normal mode (not inside a string literal, a
  remark, a name or a numeral) when the next character is `c`; `lineNo` / `lineBody` split off the
  line-number prefix independently of what follows the junction.
-/
set_option linter.unusedSimpArgs false
set_option linter.unusedVariables false
namespace Basic
namespace Lex

/-! ### junctions -/

/-- the scanner state after `pre`, seen from a following character `c`: the tokens `A` are out, the
    remark flag is off, and the next token starts at `c`, whatever follows `c` -/
def Cut (pre : Str) (A : List Token) (c : Char) : Prop :=
  ∀ r, lexFrom (pre ++ c :: r) false = A ++ lexFrom (c :: r) false

theorem Cut.nil (c : Char) : Cut [] [] c := fun _ => rfl

/-- junctions compose -/
theorem Cut.append {pre mid : Str} {A B : List Token} {d c : Char} {m : Str} (hm : mid = d :: m)
    (h1 : Cut pre A d) (h2 : Cut mid B c) : Cut (pre ++ mid) (A ++ B) c := by
  intro r
  subst hm
  have := h1 (m ++ c :: r)
  simp only [List.append_assoc, List.cons_append] at this ⊢
  rw [this]
  have := h2 r
  simp only [List.cons_append] at this
  rw [this]

theorem follows_congr (t : Token) (r r' : List Char) (h : r.head? = r'.head?) (hf : Follows t r) :
    Follows t r' := by
  cases t with
  | literal l =>
    cases l with
    | string s => trivial
    | hex s => simp only [Follows, RadixBoundary] at hf ⊢; rw [← h]; exact hf
    | octal ds => simp only [Follows, RadixBoundary, List.head?_append] at hf ⊢; rw [← h]; exact hf
    | _ => simp only [Follows, NumBoundary] at hf ⊢; rw [← h]; exact hf
  | word w =>
    cases w <;> simp only [Follows, AlphaBoundary] at hf ⊢ <;> first | trivial | (rw [← h]; exact hf)
  | whitespace n => simp only [Follows] at hf ⊢; rw [← h]; exact hf
  | operator o => simp only [Follows, AlphaBoundary] at hf ⊢; rw [← h]; exact hf
  | ident i => simp only [Follows, AlphaBoundary] at hf ⊢; rw [← h]; exact hf
  | _ => trivial

theorem canonRawT_congr (tail tail' : List Char) (h : tail.head? = tail'.head?) (ts : List Token)
    (hc : CanonRawT tail ts) : CanonRawT tail' ts := by
  induction ts with
  | nil => trivial
  | cons t rest ih =>
    obtain ⟨h1, h2, hp, hf, hr⟩ := hc
    refine ⟨h1, h2, hp, follows_congr t _ _ ?_ hf, ih hr⟩
    simp [List.head?_append, h]

/-- the printed text of a remark-free canonical token list, followed by a character none of its
    tokens can absorb, is a junction -/
theorem Cut.of_printTokens (ps : List Token) (c : Char) (h : CanonRawT [c] ps) :
    Cut (printTokens ps) (ps.flatMap rawOf) c := by
  intro r
  exact lexFrom_printTokens_tail (c :: r) ps (canonRawT_congr [c] (c :: r) rfl ps h)

/-! ### the line-number prefix does not look beyond the junction -/

theorem prefixLen_ctx (pre : List Char) : ∀ (b : Bool) (c c' : Char) (r r' : List Char),
    isDigit c = false → isWs c = false → isDigit c' = false → isWs c' = false →
    prefixLen (pre ++ c :: r) b = prefixLen (pre ++ c' :: r') b ∧ prefixLen (pre ++ c :: r) b ≤ pre.length := by
  induction pre with
  | nil => intro b c c' r r' h1 h2 h3 h4; simp [prefixLen, h1, h2, h3, h4]
  | cons x pre ih =>
    intro b c c' r r' h1 h2 h3 h4
    simp only [List.cons_append, prefixLen]
    split
    · simp
    split
    · have := ih true c c' r r' h1 h2 h3 h4
      simp only [List.length_cons]; omega
    split
    · simp
    · have := ih b c c' r r' h1 h2 h3 h4
      simp only [List.length_cons]; omega

/-- the line number of a line that continues after `pre` with a character that is neither a digit nor a blank -/
def lineNo (pre : Str) : Option Nat := (splitLineNumber (pre ++ ['?'])).1

/-- the part of `pre` that is handed to the token iterator -/
def lineBody (pre : Str) : Str := (splitLineNumber (pre ++ ['?'])).2.dropLast

theorem splitLineNumber_ctx_aux (pre : Str) : ∃ (n : Option Nat) (body : Str), ∀ (c : Char) (r : Str),
    isDigit c = false → isWs c = false → splitLineNumber (pre ++ c :: r) = (n, body ++ c :: r) := by
  have hq1 : isDigit '?' = false := by decide
  have hq2 : isWs '?' = false := by decide
  have hpos : ∀ (c : Char) (r : Str), isDigit c = false → isWs c = false →
      prefixLen (pre ++ c :: r) false = prefixLen (pre ++ ['?']) false ∧
        prefixLen (pre ++ ['?']) false ≤ pre.length := by
    intro c r h1 h2
    have := prefixLen_ctx pre false '?' c [] r hq1 hq2 h1 h2
    exact ⟨this.1.symm, this.2⟩
  have hle := (hpos '?' [] hq1 hq2).2
  have htake : ∀ (c : Char) (r : Str), List.take (prefixLen (pre ++ ['?']) false) (pre ++ c :: r) =
      List.take (prefixLen (pre ++ ['?']) false) pre := by
    intro c r; rw [List.take_append_of_le_length hle]
  have hdrop : ∀ (c : Char) (r : Str), List.drop (prefixLen (pre ++ ['?']) false) (pre ++ c :: r) =
      List.drop (prefixLen (pre ++ ['?']) false) pre ++ c :: r := by
    intro c r; rw [List.drop_append_of_le_length hle]
  cases hp : Fmt.parseU16 ((List.take (prefixLen (pre ++ ['?']) false) pre).dropWhile isWs) with
  | none =>
    refine ⟨none, pre, fun c r h1 h2 => ?_⟩
    simp only [splitLineNumber, (hpos c r h1 h2).1, htake, hp]
  | some num =>
    by_cases hnum : num ≤ maxLineNumber
    · cases hd : List.drop (prefixLen (pre ++ ['?']) false) pre with
      | nil =>
        refine ⟨some num, [], fun c r h1 h2 => ?_⟩
        have hc : c ≠ ' ' := by intro e; subst e; simp [isWs] at h2
        simp only [splitLineNumber, (hpos c r h1 h2).1, htake, hp, hnum, if_true, hdrop, hd,
          List.nil_append]
        split
        · rename_i heq; exact absurd (List.cons.inj heq).1 hc
        · rfl
      | cons x xs =>
        by_cases hx : x = ' '
        · refine ⟨some num, xs, fun c r h1 h2 => ?_⟩
          simp only [splitLineNumber, (hpos c r h1 h2).1, htake, hp, hnum, if_true, hdrop, hd, hx,
            List.cons_append]
        · refine ⟨some num, x :: xs, fun c r h1 h2 => ?_⟩
          simp only [splitLineNumber, (hpos c r h1 h2).1, htake, hp, hnum, if_true, hdrop, hd,
            List.cons_append]
          split
          · rename_i heq; exact absurd (List.cons.inj heq).1 hx
          · rfl
    · refine ⟨none, pre, fun c r h1 h2 => ?_⟩
      simp only [splitLineNumber, (hpos c r h1 h2).1, htake, hp, hnum, if_false]

/-- the line-number prefix scan stops at the junction at the latest -/
theorem splitLineNumber_ctx (pre : Str) (c : Char) (r : Str) (h1 : isDigit c = false) (h2 : isWs c = false) :
    splitLineNumber (pre ++ c :: r) = (lineNo pre, lineBody pre ++ c :: r) := by
  obtain ⟨n, body, h⟩ := splitLineNumber_ctx_aux pre
  have hq := h '?' [] (by decide) (by decide)
  rw [h c r h1 h2]
  simp [lineNo, lineBody, hq]

theorem lex_ctx (pre : Str) (c : Char) (r : Str) (h1 : isDigit c = false) (h2 : isWs c = false) :
    lex (pre ++ c :: r) = (lineNo pre, postPasses (lexFrom (lineBody pre ++ c :: r) false)) := by
  simp only [lex, splitLineNumber_ctx pre c r h1 h2, rawTokens_eq]

theorem lineBody_nil : lineBody [] = [] := by decide +kernel

theorem lineNo_nil : lineNo [] = none := by decide +kernel

/-- a listed program line: `<number><blank>` is split off -/
theorem lineBody_listed (n : Nat) (h : n ≤ 65529) (p : Str) :
    lineNo (RStd.natDigits n ++ ' ' :: p) = some n ∧ lineBody (RStd.natDigits n ++ ' ' :: p) = p := by
  have := splitLineNumber_listed n h (p ++ ['?'])
  simp only [lineNo, lineBody, List.append_assoc, List.cons_append, this]
  simp

/-- a direct line: nothing is split off -/
theorem lineBody_plain (c : Char) (cs : Str) (hd : isDigit c = false) (hw : isWs c = false) :
    lineNo (c :: cs) = none ∧ lineBody (c :: cs) = c :: cs := by
  have := splitLineNumber_plain c (cs ++ ['?']) hd hw
  simp only [lineNo, lineBody, List.cons_append, this]
  rw [show c :: (cs ++ ['?']) = (c :: cs) ++ ['?'] from rfl, List.dropLast_concat]
  simp

/-! ### reserved words before a digit or a type suffix -/

/-- letters (any case) followed by a digit or a type suffix: the text read so far is crunched; if
    nothing is left over, the scanner stops in front of that character -/
theorem alphaLoop_letters_stop (ls : List Char) (hls : ∀ c ∈ ls, isAlpha c = true) (hne : ls ≠ [])
    (k : Char) (tl : List Char) (hk : (isDigit k || isSuffixChar k) = true) (s : Str) (p : List Token) :
    alphaLoop (ls ++ k :: tl) s false p =
      if (scanAlphabetic p (s ++ ls.map upper)).2.isEmpty then
        ((scanAlphabetic p (s ++ ls.map upper)).1, k :: tl)
      else alphaLoop (k :: tl) (scanAlphabetic p (s ++ ls.map upper)).2 false
        (scanAlphabetic p (s ++ ls.map upper)).1 := by
  induction ls generalizing s with
  | nil => contradiction
  | cons c ls ih =>
    have hc := hls c (by simp)
    obtain ⟨n1, n2, n3, n4⟩ := upper_not_suffix_of_isAlpha c hc
    have hd : isDigit (upper c) = false := by
      rw [isDigit_upper]; exact not_isDigit_of_isAlpha c hc
    rw [List.cons_append, alphaLoop_cons]
    simp only [n1, n2, n3, n4, if_false, hd, Bool.or_false, Bool.false_eq_true]
    cases ls with
    | nil =>
      have hka : isAlpha k = false := by
        simp only [Bool.or_eq_true] at hk
        rcases hk with hk | hk
        · exact not_isAlpha_of_isDigit k hk
        · rw [isSuffixChar_iff] at hk
          rcases hk with h | h | h | h <;> subst h <;> decide
      have hkc : (isDigit k || k = '$' || k = '!' || k = '#' || k = '%') = true := by
        simpa [isSuffixChar, Bool.or_assoc] using hk
      simp only [List.nil_append, hka, Bool.false_eq_true, if_false, hkc, if_true, List.map_cons,
        List.map_nil]
    | cons c' ls' =>
      have hc' := hls c' (by simp)
      simp only [List.cons_append, hc', if_true]
      have := ih (fun x hx => hls x (by simp [hx])) (by simp) (s ++ [upper c])
      simp only [List.cons_append] at this
      rw [this]
      simp

/-- a reserved word followed by anything but a letter is that word -/
theorem alphabetic_keyword' (p : Str × Token) (hp : p ∈ keywords) (rest : List Char)
    (hb : ∀ c ∈ rest.head?, isAlpha c = false) : alphabetic (p.1 ++ rest) = ([p.2], rest) := by
  cases rest with
  | nil => exact alphabetic_keyword p hp [] (by intro c hc; simp at hc)
  | cons k tl =>
    have hka := hb k (by simp)
    by_cases hk : (isDigit k || isSuffixChar k) = true
    · obtain ⟨h1, h2, h3⟩ := keywords_alpha p hp
      rw [alphabetic, alphaLoop_letters_stop p.1 h2 h3 k tl hk [] [], List.nil_append, h1,
        keywords_scan p hp]
      simp
    · have hk' : isDigit k = false ∧ isSuffixChar k = false := by
        simpa [Bool.or_eq_false_iff] using hk
      exact alphabetic_keyword p hp (k :: tl) (by
        intro c hc; simp at hc; subst hc; exact ⟨hka, hk'.1, hk'.2⟩)

theorem lexFrom_keyword' (p : Str × Token) (hp : p ∈ keywords) (rest : List Char)
    (hb : ∀ c ∈ rest.head?, isAlpha c = false) :
    lexFrom (p.1 ++ rest) false = p.2 :: lexFrom rest (p.2 == .word .rem1) := by
  have ha := alphabetic_keyword' p hp rest hb
  obtain ⟨-, h2, h3⟩ := keywords_alpha p hp
  obtain ⟨c, cs, e⟩ : ∃ c cs, p.1 = c :: cs := by
    cases hh : p.1 with
    | nil => exact absurd hh h3
    | cons c cs => exact ⟨c, cs, rfl⟩
  rw [e, List.cons_append] at ha ⊢
  rw [lexFrom_alpha c _ (h2 c (by simp [e])) _ _ _ ha]
  simp

/-! ### blank runs -/

theorem dropWhile_isWs_append (sep post : List Char) (h : ∀ c ∈ sep, isWs c = true) :
    (sep ++ post).dropWhile isWs = post.dropWhile isWs := by
  induction sep with
  | nil => rfl
  | cons c sep ih =>
    simp [List.dropWhile_cons, h c (by simp), ih (fun x hx => h x (by simp [hx]))]

/-- a non-empty run of blanks in front of `post`: one blank token, merged with the blanks `post`
    starts with, if any -/
theorem lexFrom_blanks (sep : List Char) (h : ∀ c ∈ sep, isWs c = true) (hne : sep ≠ []) (post : List Char) :
    ∃ (k : Nat) (V : List Token), lexFrom (sep ++ post) false = .whitespace k :: V ∧
      (lexFrom post false = V ∨ ∃ j, lexFrom post false = .whitespace j :: V) := by
  cases sep with
  | nil => contradiction
  | cons c sep =>
    have hc := h c (by simp)
    refine ⟨1 + (List.takeWhile isWs (sep ++ post)).length, lexFrom ((post.dropWhile isWs)) false, ?_, ?_⟩
    · rw [List.cons_append, lexFrom_ws c _ hc]
      simp only [whitespace]
      rw [dropWhile_isWs_append sep post (fun x hx => h x (by simp [hx]))]
    · cases post with
      | nil => left; rfl
      | cons d post' =>
        by_cases hd : isWs d = true
        · right
          refine ⟨1 + (List.takeWhile isWs post').length, ?_⟩
          rw [lexFrom_ws d _ hd]
          simp only [whitespace, List.dropWhile_cons, hd, if_true]
        · left
          simp [List.dropWhile_cons, hd]

end Lex
end Basic
