import BasicModel.Thm.C04
import BasicModel.Thm.C15
import BasicModel.Lemmas.Layout
/-
  RENUM at run time (`Runtime.doRenum`, the instruction `Opcode.renum`): lemmas for
  `Thm/C14Program.lean`.

  * `popU16`, `renumArgs`: what `doRenum` takes off the operand stack, as functions on the bare
    stack (`step` is on top, `oldStart` below it, `newStart` below that);
  * `doRenum_run`: the complete case analysis of `(doRenum env).run.run s`;
  * `doRenum_failure`, `doRenum_success`: the two halves as implications;
  * `step_renum_run`, `step_renum_cases`: the instruction inside `step`;
  * `finishLoop_error_fields`: what `execute` does with the error a failed RENUM throws;
  * `compile_clean_lines_parse`: a listing that compiles without errors consists of lines that parse.

  This file belongs to the second lemma chain (`BasicModelRt.lean`).
-/
namespace Basic
namespace Runtime
variable {β : Type}

/-! ### the operands -/

/-- one operand of RENUM, `u16::try_from(self.stack.pop()?)`, on the bare stack: the result and the
    stack left behind.  The value is popped *before* it is converted, so a value that is not a
    `u16` is gone when the conversion fails. -/
def popU16 (st : Array Val) : Except Error Nat × Array Val :=
  match st.back? with
  | none => (.error underflow, st)
  | some v => (v.toU16, st.pop)

theorem popU16_empty : popU16 #[] = (.error underflow, #[]) := rfl

theorem popU16_push (st : Array Val) (v : Val) : popU16 (st.push v) = (v.toU16, st) := by
  unfold popU16
  rw [Array.back?_push, Array.pop_push]

theorem popU16_stack (st : Array Val) : (popU16 st).2 = st ∨ (popU16 st).2 = st.pop := by
  unfold popU16
  cases st.back? with
  | none => exact .inl rfl
  | some v => exact .inr rfl

theorem popU16_ok {st st' : Array Val} {n : Nat} (h : popU16 st = (.ok n, st')) :
    ∃ v, st = st'.push v ∧ v.toU16 = .ok n := by
  unfold popU16 at h
  cases hb : st.back? with
  | none => rw [hb] at h; cases h
  | some v =>
    rw [hb] at h
    dsimp only at h
    have h1 : v.toU16 = .ok n := congrArg Prod.fst h
    have h2 : st.pop = st' := congrArg Prod.snd h
    obtain ⟨ys, rfl⟩ := Array.back?_eq_some_iff.1 hb
    rw [Array.pop_push] at h2
    exact ⟨v, by rw [h2], h1⟩

/-- `let v ← pop; let n ← liftE v.toU16; f n` -/
theorem run_popU16_bind (f : Nat → RM β) (s : Runtime) :
    (pop >>= fun v => liftE v.toU16 >>= f).run.run s =
      match popU16 s.stack with
      | (.error e, st) => (.error e, { s with stack := st })
      | (.ok n, st) => (f n).run.run { s with stack := st } := by
  rw [run_bind, run_pop]
  unfold popU16
  cases s.stack.back? with
  | none => rfl
  | some v =>
    dsimp only
    rw [run_bind, run_liftE]
    cases v.toU16 <;> rfl

/-- the three operands of RENUM taken off the stack, in the order of `doRenum`: `step` (the top),
    then `oldStart`, then `newStart`; the result is `(newStart, oldStart, step)`.  On a failure
    the second component is the stack with exactly the operands popped so far removed (the one
    that failed to convert included). -/
def renumArgs (st : Array Val) : Except Error (Nat × Nat × Nat) × Array Val :=
  match popU16 st with
  | (.error e, st1) => (.error e, st1)
  | (.ok step, st1) =>
    match popU16 st1 with
    | (.error e, st2) => (.error e, st2)
    | (.ok oldStart, st2) =>
      match popU16 st2 with
      | (.error e, st3) => (.error e, st3)
      | (.ok newStart, st3) => (.ok (newStart, oldStart, step), st3)

/-- the stack left behind is the old one with at most three values popped -/
theorem renumArgs_stack (st : Array Val) :
    (renumArgs st).2 = st ∨ (renumArgs st).2 = st.pop ∨ (renumArgs st).2 = st.pop.pop ∨
    (renumArgs st).2 = st.pop.pop.pop := by
  unfold renumArgs
  have h1 := popU16_stack st
  generalize popU16 st = x1 at h1 ⊢
  rcases x1 with ⟨r1, st1⟩
  dsimp only at h1
  cases r1 with
  | error e => rcases h1 with h | h <;> subst h <;> simp
  | ok a =>
    dsimp only
    have h2 := popU16_stack st1
    generalize popU16 st1 = x2 at h2 ⊢
    rcases x2 with ⟨r2, st2⟩
    dsimp only at h2
    cases r2 with
    | error e =>
      dsimp only
      rcases h1 with h | h <;> rcases h2 with k | k <;> subst h <;> subst k <;> simp
    | ok b =>
      dsimp only
      have h3 := popU16_stack st2
      generalize popU16 st2 = x3 at h3 ⊢
      rcases x3 with ⟨r3, st3⟩
      dsimp only at h3
      cases r3 <;> dsimp only <;>
        rcases h1 with h | h <;> rcases h2 with k | k <;> rcases h3 with m | m <;>
        subst h <;> subst k <;> subst m <;> simp

/-- the operands as the compiled statement pushes them: `newStart`, `oldStart`, `step` (top) -/
theorem renumArgs_push3 (rest : Array Val) (vNew vOld vStep : Val) :
    renumArgs (((rest.push vNew).push vOld).push vStep) =
      match vStep.toU16 with
      | .error e => (.error e, (rest.push vNew).push vOld)
      | .ok step =>
        match vOld.toU16 with
        | .error e => (.error e, rest.push vNew)
        | .ok oldStart =>
          match vNew.toU16 with
          | .error e => (.error e, rest)
          | .ok newStart => (.ok (newStart, oldStart, step), rest) := by
  unfold renumArgs
  rw [popU16_push]
  cases vStep.toU16 with
  | error e => rfl
  | ok step =>
    dsimp only
    rw [popU16_push]
    cases vOld.toU16 with
    | error e => rfl
    | ok oldStart =>
      dsimp only
      rw [popU16_push]
      cases vNew.toU16 <;> rfl

/-- success: the stack ended with three values convertible to `u16`, and all three are gone -/
theorem renumArgs_ok {st st' : Array Val} {n o k : Nat} (h : renumArgs st = (.ok (n, o, k), st')) :
    ∃ vNew vOld vStep, st = ((st'.push vNew).push vOld).push vStep ∧
      vNew.toU16 = .ok n ∧ vOld.toU16 = .ok o ∧ vStep.toU16 = .ok k := by
  unfold renumArgs at h
  rcases h1 : popU16 st with ⟨r1, st1⟩
  rw [h1] at h
  cases r1 with
  | error e => cases h
  | ok a =>
    dsimp only at h
    rcases h2 : popU16 st1 with ⟨r2, st2⟩
    rw [h2] at h
    cases r2 with
    | error e => cases h
    | ok b =>
      dsimp only at h
      rcases h3 : popU16 st2 with ⟨r3, st3⟩
      rw [h3] at h
      cases r3 with
      | error e => cases h
      | ok c =>
        dsimp only at h
        cases h
        obtain ⟨v1, e1, c1⟩ := popU16_ok h1
        obtain ⟨v2, e2, c2⟩ := popU16_ok h2
        obtain ⟨v3, e3, c3⟩ := popU16_ok h3
        exact ⟨v3, v2, v1, by rw [e1, e2, e3], c3, c2, c1⟩

theorem renumArgs_too_few_0 : renumArgs #[] = (.error underflow, #[]) := rfl

/-! ### `doRenum` -/

/-- the state a successful RENUM ends in: the new listing, the compiled program marked stale,
    nothing left to resume, the program stopped.  Everything else — in particular the variables,
    the (now stale) compiled program, `pc`, `entryAddress`, `contPc`, TRON — is as before. -/
def renumed (s : Runtime) (l : Listing) : Runtime :=
  { s with listing := l, dirty := true, cont := .stopped, stack := #[], functions := [], state := .stopped }

/-- the `r#end` that closes a successful RENUM does nothing: RENUM is only executed from a direct
    line (`pc ≥ entryAddress`), so END's "remember where to continue" branch is not taken, and
    `cont` and `state` are `stopped` already -/
theorem doEnd_renumed (s : Runtime) (l : Listing) (h : ¬ s.pc < s.entryAddress) :
    doEnd (renumed s l) = renumed s l := by
  unfold doEnd renumed
  dsimp only
  rw [if_neg h]
  split <;> rfl

/-- **`doRenum`, completely**: refused inside a program; refused (with the compile errors as the
    event) while the listing has compile errors; otherwise the three operands are popped and
    converted, the listing is renumbered, and only if all of that succeeds is anything but the
    operand stack changed. -/
theorem doRenum_run (env : Env) (s : Runtime) :
    (doRenum env).run.run s =
      if s.pc < s.entryAddress then (.error (Error.mk' Code.illegalDirect), s)
      else if s.listing.indirectErrors ≠ [] then (.ok (.errors s.listing.indirectErrors), s)
      else match renumArgs s.stack with
        | (.error e, st) => (.error e, { s with stack := st })
        | (.ok (newStart, oldStart, step), st) =>
          match s.listing.renum env.lineRenum newStart oldStart step with
          | .error e => (.error e, { s with stack := st })
          | .ok l => (.ok .stopped, renumed s l) := by
  unfold doRenum
  rw [run_bind_ok (run_get s)]
  dsimp only
  by_cases h1 : s.pc < s.entryAddress
  · rw [if_pos h1, if_pos h1]; rfl
  · rw [if_neg h1, if_neg h1]
    by_cases h2 : s.listing.indirectErrors = []
    · rw [if_neg (by simp [h2]), if_neg (by simp [h2])]
      rw [run_popU16_bind]
      unfold renumArgs
      rcases popU16 s.stack with ⟨r1, st1⟩
      cases r1 with
      | error e => rfl
      | ok step =>
        dsimp only
        rw [run_popU16_bind]
        rcases popU16 st1 with ⟨r2, st2⟩
        cases r2 with
        | error e => rfl
        | ok oldStart =>
          dsimp only
          rw [run_popU16_bind]
          rcases popU16 st2 with ⟨r3, st3⟩
          cases r3 with
          | error e => rfl
          | ok newStart =>
            dsimp only
            rw [run_bind_ok (run_get _), run_bind, run_liftE]
            cases hl : s.listing.renum env.lineRenum newStart oldStart step with
            | error e => rfl
            | ok l =>
              dsimp only
              rw [run_bind_ok (run_set _ _), run_bind_ok (run_modify _ _)]
              have := doEnd_renumed s l h1
              unfold renumed at this ⊢
              rw [this]
              rfl
    · have : (!s.listing.indirectErrors.isEmpty) = true := by
        cases hh : s.listing.indirectErrors with
        | nil => exact absurd hh h2
        | cons a b => rfl
      rw [if_pos this, if_pos h2]; rfl

/-- every outcome other than `Ok(Event::Stopped)`: the final state is the initial one with at most
    three operands popped -/
theorem doRenum_failure {env : Env} {s t : Runtime} {r : Except Error Event}
    (h : (doRenum env).run.run s = (r, t)) (hf : r ≠ .ok .stopped) :
    ∃ st, t = { s with stack := st } ∧
      (st = s.stack ∨ st = s.stack.pop ∨ st = s.stack.pop.pop ∨ st = s.stack.pop.pop.pop) := by
  rw [doRenum_run] at h
  split at h
  · cases h; exact ⟨s.stack, rfl, .inl rfl⟩
  · split at h
    · cases h; exact ⟨s.stack, rfl, .inl rfl⟩
    · have hst := renumArgs_stack s.stack
      split at h
      · rename_i e st heq
        rw [heq] at hst
        cases h
        exact ⟨st, rfl, hst⟩
      · rename_i n o k st heq
        rw [heq] at hst
        split at h
        · cases h; exact ⟨st, rfl, hst⟩
        · cases h; exact absurd rfl hf

/-- the outcome `Ok(Event::Stopped)` arises on the success path only -/
theorem doRenum_success {env : Env} {s t : Runtime} (h : (doRenum env).run.run s = (.ok .stopped, t)) :
    ¬ s.pc < s.entryAddress ∧ s.listing.indirectErrors = [] ∧
    ∃ newStart oldStart step st l,
      renumArgs s.stack = (.ok (newStart, oldStart, step), st) ∧
      s.listing.renum env.lineRenum newStart oldStart step = .ok l ∧ t = renumed s l := by
  rw [doRenum_run] at h
  split at h
  · cases h
  · rename_i h1
    split at h
    · cases h
    · rename_i h2
      refine ⟨h1, Classical.byContradiction h2, ?_⟩
      split at h
      · cases h
      · rename_i n o k st heq
        split at h
        · cases h
        · rename_i l hl
          cases h
          exact ⟨n, o, k, st, l, heq, hl, rfl⟩

/-- what `Listing.renum` builds: the plan from the stored numbers, every line rewritten with it
    and stored again under its (new) number; the diagnostics are carried over -/
theorem listing_renum_ok {f : List (Nat × Nat) → Line → Line} {l l' : Listing} {n o k : Nat}
    (h : l.renum f n o k = .ok l') :
    ∃ changes, Listing.renumPlan (l.source.map (·.1)) n o k = .ok changes ∧
      l' = { l with source := Listing.rebuild (l.lines.map (f changes)), rooted := !l.source.isEmpty } := by
  unfold Listing.renum at h
  cases hp : Listing.renumPlan (l.source.map (·.1)) n o k with
  | error e => rw [hp] at h; cases h
  | ok ch =>
    rw [hp] at h
    simp only [bind, Except.bind, Except.ok.injEq] at h
    exact ⟨ch, rfl, h.symm⟩

theorem listing_renum_error {f : List (Nat × Nat) → Line → Line} {l : Listing} {n o k : Nat} {e : Error}
    (h : l.renum f n o k = .error e) : Listing.renumPlan (l.source.map (·.1)) n o k = .error e := by
  unfold Listing.renum at h
  cases hp : Listing.renumPlan (l.source.map (·.1)) n o k with
  | error e' => rw [hp] at h; cases h; rfl
  | ok ch => rw [hp] at h; cases h

/-- a step of 0 is rejected whatever the listing -/
theorem listing_renum_step_zero (f : List (Nat × Nat) → Line → Line) (l : Listing) (n o : Nat) :
    l.renum f n o 0 = .error (Error.mk' Code.illegalFunctionCall) := by
  unfold Listing.renum
  rw [Thm.C15.renumPlan_step_zero]
  rfl

/-! ### the instruction inside `step` -/

theorem execOp_renum_run (env : Env) (h : Bool) (s : Runtime) :
    (execOp env h .renum).run.run s =
      match (doRenum env).run.run s with
      | (.ok e, t) => (.ok (.event e), t)
      | (.error e, t) => (.error e, t) := by
  simp only [execOp]
  rw [run_bind]
  rcases (doRenum env).run.run s with ⟨r, t⟩
  cases r <;> rfl

/-- with tracing off: `pc` is advanced, then `doRenum` runs; its event ends the slice -/
theorem step_renum_run (env : Env) (h : Bool) (s : Runtime) (ht : s.tron = false)
    (hop : s.program.link.ops[s.pc]? = some .renum) :
    (step env h).run.run s =
      match (doRenum env).run.run { s with pc := s.pc + 1 } with
      | (.ok e, t) => (.ok (.event e), t)
      | (.error e, t) => (.error e, t) := by
  rw [step_troff env h s ht, run_fetchExec, hop]
  exact execOp_renum_run env h _

/-- with tracing on: either this `step` only prints the trace marker `[n]` (and RENUM is still the
    next instruction), or it is the above with `tr` updated -/
theorem step_renum_cases (env : Env) (h : Bool) (s : Runtime)
    (hop : s.program.link.ops[s.pc]? = some .renum) :
    (∃ text tr col, (step env h).run.run s =
        (.ok (.event (.print text)), { s with tr := tr, printCol := col })) ∨
    (∃ tr, (step env h).run.run s =
      match (doRenum env).run.run { s with tr := tr, pc := s.pc + 1 } with
      | (.ok e, t) => (.ok (.event e), t)
      | (.error e, t) => (.error e, t)) := by
  rcases step_cases env h s with ⟨text, tr, col, he⟩ | ⟨tr, he⟩
  · exact .inl ⟨text, tr, col, he⟩
  · refine .inr ⟨tr, ?_⟩
    rw [he, run_fetchExec]
    show (match s.program.link.ops[s.pc]? with
      | none => _
      | some op => (execOp env h op).run.run { s with tr := tr, pc := s.pc + 1 }) = _
    rw [hop]
    exact execOp_renum_run env h _

/-! ### what `execute` does with the error -/

/-- `execute` turns an error thrown by the slice into the state `runtimeError`; it touches neither
    the listing nor `dirty`, the compiled program, the variables or the DEF FN table -/
theorem finishLoop_error_fields (e : Error) (t : Runtime) :
    (finishLoop (.error e) t).1.listing = t.listing ∧ (finishLoop (.error e) t).1.dirty = t.dirty ∧
    (finishLoop (.error e) t).1.program = t.program ∧ (finishLoop (.error e) t).1.vars = t.vars ∧
    (finishLoop (.error e) t).1.functions = t.functions ∧
    (finishLoop (.error e) t).1.entryAddress = t.entryAddress := by
  unfold finishLoop
  dsimp only
  split
  · exact ⟨rfl, rfl, rfl, rfl, rfl, rfl⟩
  · split <;> exact ⟨rfl, rfl, rfl, rfl, rfl, rfl⟩

/-- … but an error in a direct line (`pc ≥ entryAddress`; RENUM is only ever executed there)
    empties the operand stack and cancels the CONT point, as for every other statement -/
theorem finishLoop_error_direct (e : Error) (t : Runtime) (hs : t.state ≠ .inputRunning)
    (hp : ¬ t.pc < t.entryAddress) :
    (finishLoop (.error e) t).1 =
      { t with cont := .stopped, state := .runtimeError (e.inLine (lineNumber t)), contPc := t.pc,
               stack := #[] } ∧
    (finishLoop (.error e) t).2 = .running := by
  unfold finishLoop
  dsimp only
  rw [if_neg hs]
  have : (decide (t.pc ≥ t.entryAddress) || isFull
      { t with cont := t.state, state := .runtimeError (e.inLine (lineNumber t)), contPc := t.pc }) = true := by
    rw [Bool.or_eq_true]; exact .inl (decide_eq_true (Nat.le_of_not_lt hp))
  rw [if_pos this]
  exact ⟨rfl, rfl⟩

end Runtime

/-! ### a listing that compiles without errors -/

namespace Program

theorem genNumbered_errors_nil {p : Program} {n : Nat} {toks : List Token}
    (h : (genNumbered p n toks).errors = []) :
    p.errors = [] ∧ ∃ ast, Parse.parse (some n) toks = .ok ast := by
  unfold genNumbered at h
  cases hp : Parse.parse (some n) toks with
  | error e =>
    rw [hp] at h
    dsimp only at h
    exact absurd h (by simp)
  | ok ast =>
    rw [hp] at h
    dsimp only at h
    exact ⟨(List.append_eq_nil_iff.1 h).1, ast, rfl⟩

theorem codegenLines_errors_nil (ls : List Line) (hnum : Numbered ls) :
    ∀ p : Program, (p.codegenLines ls).errors = [] →
      p.errors = [] ∧ ∀ l ∈ ls, ∃ ast, Parse.parse l.number l.tokens = .ok ast := by
  induction ls with
  | nil => intro p h; exact ⟨h, fun _ hl => by cases hl⟩
  | cons a as ih =>
    intro p h
    obtain ⟨n, hn⟩ := hnum a List.mem_cons_self
    rw [codegenLines_cons] at h
    obtain ⟨h1, h2⟩ := ih (fun l hl => hnum l (List.mem_cons_of_mem _ hl)) _ h
    rw [codegenLine_numbered p a n hn] at h1
    obtain ⟨h3, ast, h4⟩ := genNumbered_errors_nil h1
    refine ⟨h3, ?_⟩
    intro l hl
    rcases List.mem_cons.1 hl with rfl | hl
    · exact ⟨ast, by rw [hn]; exact h4⟩
    · exact h2 l hl

theorem ensureEnd_errors_nil {p : Program} (h : (ensureEnd p).errors = []) : p.errors = [] := by
  rw [ensureEnd_eq] at h
  split at h
  · exact h
  · unfold pushEndP at h
    dsimp only at h
    split at h
    · exact h
    · exact absurd h (by simp)

theorem resolve_errors_nil {q : Program} (h : (resolve q).errors = []) :
    q.errors = [] ∧ q.link.link.2 = [] := by
  rw [resolve_eq] at h
  split at h
  · rename_i he
    exact ⟨List.isEmpty_iff.1 he, h⟩
  · rename_i he
    dsimp only at h
    rw [h] at he
    exact absurd rfl he

/-- a listing (every line numbered) that compiles without errors: every line parses, and the
    linker had nothing to report (no reference to a missing line, no unmatched WHILE / WEND …) -/
theorem compile_clean_lines_parse (ls : List Line) (hnum : Numbered ls)
    (h : (compile ls).indirectErrors = []) :
    (∀ l ∈ ls, ∃ ast, Parse.parse l.number l.tokens = .ok ast) ∧
    (ensureEnd (({} : Program).codegenLines ls)).link.link.2 = [] := by
  rw [compile_indirectErrors ls hnum] at h
  obtain ⟨h1, h2⟩ := resolve_errors_nil h
  exact ⟨(codegenLines_errors_nil ls hnum _ (ensureEnd_errors_nil h1)).2, h2⟩

end Program

namespace Runtime

/-- the lines of a well-formed store all carry a number -/
theorem numbered_of_wf {l : Listing} (hl : Thm.C15.WF l) : Program.Numbered l.lines := by
  intro x hx
  obtain ⟨p, hp, rfl⟩ := List.mem_map.1 hx
  exact ⟨p.1, hl.coherent p hp⟩

end Runtime
end Basic
