import BasicModel.Lemmas.LexForms
/-
  Printable tokens, what may follow them, and the boundary lemma
  `lexFrom (t.text ++ rest) = rawOf t ++ lexFrom rest` (DESIGN App. B).
-/
set_option linter.unusedSimpArgs false
namespace Basic
namespace Lex

/-! ### table facts used for words -/

theorem keywords_alpha : ∀ p ∈ keywords, p.1.map upper = p.1 ∧ (∀ c ∈ p.1, isAlpha c = true) ∧ p.1 ≠ [] := by
  decide +kernel

theorem keywords_scan : ∀ p ∈ keywords, scanAlphabetic [] p.1 = ([p.2], []) := by decide +kernel

/-- a reserved word followed by a boundary is that word -/
theorem alphabetic_keyword (p : Str × Token) (hp : p ∈ keywords) (rest : List Char)
    (hb : AlphaBoundary rest) : alphabetic (p.1 ++ rest) = ([p.2], rest) := by
  obtain ⟨h1, h2, h3⟩ := keywords_alpha p hp
  rw [alphabetic, alphaLoop_letters p.1 h2 h3 rest hb, List.nil_append, h1, alphaFinish, keywords_scan p hp]
  simp

theorem word_in_keywords (w : Word) (h : w ≠ .rem2) : (w.text, Token.word w) ∈ keywords := by
  cases w <;> first | (exact absurd rfl h) | decide

theorem operator_in_keywords (o : Operator) (h : o.isWord = true) :
    (o.text, Token.operator o) ∈ keywords := by
  cases o <;> first | (exact absurd h (by decide)) | decide

/-- `Display for Operator`, spelled as character lists (so that it reduces by `simp`) -/
def opChars : Operator → Str
  | .caret => ['^'] | .multiply => ['*'] | .divide => ['/'] | .divideInt => ['\\']
  | .modulo => ['M', 'O', 'D'] | .plus => ['+'] | .minus => ['-'] | .equal => ['=']
  | .notEqual => ['<', '>'] | .less => ['<'] | .lessEqual => ['<', '='] | .greater => ['>']
  | .greaterEqual => ['>', '='] | .not => ['N', 'O', 'T'] | .and => ['A', 'N', 'D'] | .or => ['O', 'R']
  | .xor => ['X', 'O', 'R'] | .imp => ['I', 'M', 'P'] | .eqv => ['E', 'Q', 'V']

theorem Operator.text_eq (o : Operator) : o.text = opChars o := by cases o <;> decide

/-! ### printable tokens and what may follow them -/

/-- the raw tokens the iterator produces for the text of a token (before the post-passes) -/
def rawOf : Token → List Token
  | .operator .lessEqual => [.operator .less, .operator .equal]
  | .operator .greaterEqual => [.operator .greater, .operator .equal]
  | .operator .notEqual => [.operator .less, .operator .greater]
  | t => [t]

/-- tokens whose printed text lexes back to them -/
def Printable : Token → Prop
  | .unknown _ => False
  | .whitespace n => 0 < n
  | .literal (.string s) => '"' ∉ s
  | .literal (.hex ds) => ∀ c ∈ ds, isRadixDigit true c = true
  | .literal (.octal ds) => ∀ c ∈ ds, isRadixDigit false c = true
  | .literal l => ∃ nm : Numeral, nm.WF ∧ nm.token = .literal l
  | .ident i => ∃ nm : Name, nm.WF ∧ nm.token = .ident i ∧ nm.letters.map upper = nm.letters
  | _ => True

/-- what the text after a token must look like for the token to end where its text ends -/
def Follows : Token → List Char → Prop
  | .whitespace _, rest => ∀ c ∈ rest.head?, isWs c = false
  | .literal (.string _), _ => True
  | .literal (.hex _), rest => RadixBoundary true rest
  | .literal (.octal ds), rest => RadixBoundary false rest ∧ ∀ c ∈ (ds ++ rest).head?, c ≠ 'H' ∧ c ≠ 'h'
  | .literal _, rest => NumBoundary rest
  | .word .rem2, _ => True
  | .word _, rest => AlphaBoundary rest
  | .operator o, rest => o.isWord = true → AlphaBoundary rest
  | .ident _, rest => AlphaBoundary rest
  | _, _ => True

theorem Numeral.token_text (nm : Numeral) : nm.token.text = nm.text := by
  simp only [Numeral.token, numeralToken, Numeral.text]
  cases nm.sfx with
  | none =>
    simp only [numberFinish, Option.toList_none, List.append_nil]
    split
    · rfl
    split <;> rfl
  | some c =>
    simp only [suffixLiteral, Option.toList_some]
    split
    · rfl
    split <;> rfl

theorem Numeral.text_head (nm : Numeral) (h : nm.WF) :
    ∃ c cs, nm.text = c :: cs ∧ (isDigit c || c = '.') = true := by
  obtain ⟨int, frac, expo, sfx⟩ := nm
  obtain ⟨h1, h2, h3, -, -⟩ := h
  cases int with
  | cons k ks => exact ⟨k, _, rfl, by simp [h1 k (by simp)]⟩
  | nil =>
    cases frac with
    | none => exact absurd rfl (h3 rfl)
    | some f => exact ⟨'.', _, rfl, by simp⟩

theorem Name.text_head (nm : Name) (h : nm.WF) :
    ∃ c cs, nm.text = c :: cs ∧ isAlpha c = true := by
  obtain ⟨letters, digits, sfx⟩ := nm
  obtain ⟨h1, h2, -, -, -⟩ := h
  cases letters with
  | nil => exact absurd rfl h2
  | cons k ks => exact ⟨k, _, rfl, h1 k (by simp)⟩

theorem lexFrom_numeral (nm : Numeral) (hw : nm.WF) (rest : List Char) (hb : nm.sfx = none → NumBoundary rest) :
    lexFrom (nm.text ++ rest) false = nm.token :: lexFrom rest false := by
  obtain ⟨c, cs, e, hc⟩ := nm.text_head hw
  have hn := number_numeral nm hw rest hb
  rw [e, List.cons_append] at hn ⊢
  rw [lexFrom_number c _ hc, hn]

theorem lexFrom_name (nm : Name) (hw : nm.WF) (rest : List Char) (hb : nm.sfx = none → AlphaBoundary rest) :
    lexFrom (nm.text ++ rest) false = nm.token :: lexFrom rest false := by
  obtain ⟨c, cs, e, hc⟩ := nm.text_head hw
  have hn := alphabetic_name nm hw rest hb
  rw [e, List.cons_append] at hn ⊢
  rw [lexFrom_alpha c _ hc _ _ _ hn]
  have : (nm.token == Token.word Word.rem1) = false := by
    simp only [Name.token]; split <;> simp
  simp [this]

theorem lexFrom_keyword (p : Str × Token) (hp : p ∈ keywords) (rest : List Char) (hb : AlphaBoundary rest) :
    lexFrom (p.1 ++ rest) false = p.2 :: lexFrom rest (p.2 == .word .rem1) := by
  have ha := alphabetic_keyword p hp rest hb
  obtain ⟨-, h2, h3⟩ := keywords_alpha p hp
  obtain ⟨c, cs, e⟩ : ∃ c cs, p.1 = c :: cs := by
    cases hh : p.1 with
    | nil => exact absurd hh h3
    | cons c cs => exact ⟨c, cs, rfl⟩
  rw [e, List.cons_append] at ha ⊢
  rw [lexFrom_alpha c _ (h2 c (by simp [e])) _ _ _ ha]
  simp

/-- the boundary lemma: a printable token other than a remark marker, followed by text it cannot
    absorb, is lexed as itself (two-character comparison operators as their two halves) -/
theorem lexFrom_token (t : Token) (rest : List Char) (hp : Printable t) (hf : Follows t rest)
    (h1 : t ≠ .word .rem1) (h2 : t ≠ .word .rem2) :
    lexFrom (t.text ++ rest) false = rawOf t ++ lexFrom rest false := by
  cases t with
  | unknown s => exact absurd hp id
  | whitespace n =>
    obtain ⟨m, rfl⟩ : ∃ m, n = m + 1 := ⟨n - 1, by simp only [Printable] at hp; omega⟩
    simp only [Token.text, List.replicate_succ, List.cons_append]
    rw [lexFrom_ws ' ' _ (by decide)]
    have := whitespace_run m rest hf
    simp only [List.replicate_succ, List.cons_append] at this
    rw [this]; rfl
  | literal l =>
    cases l with
    | string s =>
      simp only [Token.text, Literal.text, List.cons_append]
      rw [lexFrom_string]
      have := string_text s rest hp
      simp only [Literal.text, List.cons_append, List.append_assoc, List.nil_append] at this
      simp only [List.append_assoc, List.cons_append, List.nil_append, this]; rfl
    | hex ds =>
      have := radix_hex_text ds rest hp hf
      simp only [Literal.text, List.cons_append] at this
      simp only [Token.text, Literal.text, List.cons_append]
      rw [lexFrom_radix, this]; rfl
    | octal ds =>
      have := radix_octal_text ds rest hp hf.1 hf.2
      simp only [Literal.text, List.cons_append] at this
      simp only [Token.text, Literal.text, List.cons_append]
      rw [lexFrom_radix, this]; rfl
    | single s =>
      obtain ⟨nm, hw, ht⟩ := hp
      have htx : nm.text = s := by rw [← nm.token_text, ht]; rfl
      have := lexFrom_numeral nm hw rest (fun _ => hf)
      rw [htx, ht] at this
      exact this
    | double s =>
      obtain ⟨nm, hw, ht⟩ := hp
      have htx : nm.text = s := by rw [← nm.token_text, ht]; rfl
      have := lexFrom_numeral nm hw rest (fun _ => hf)
      rw [htx, ht] at this
      exact this
    | integer s =>
      obtain ⟨nm, hw, ht⟩ := hp
      have htx : nm.text = s := by rw [← nm.token_text, ht]; rfl
      have := lexFrom_numeral nm hw rest (fun _ => hf)
      rw [htx, ht] at this
      exact this
  | word w =>
    have hw : w ≠ .rem2 := fun e => h2 (by rw [e])
    have hw1 : w ≠ .rem1 := fun e => h1 (by rw [e])
    have hmem := word_in_keywords w hw
    have hb : AlphaBoundary rest := by
      cases w <;> first | exact hf | exact absurd rfl hw
    have := lexFrom_keyword _ hmem rest hb
    have hne : (Token.word w == Token.word Word.rem1) = false := by simp [hw1]
    simpa [hne, rawOf, Token.text] using this
  | operator o =>
    by_cases ho : o.isWord = true
    · have := lexFrom_keyword _ (operator_in_keywords o ho) rest (hf ho)
      have hne : (Token.operator o == Token.word Word.rem1) = false := by simp
      simp only [hne] at this
      cases o <;> first | exact absurd ho (by decide) | exact this
    · simp only [Token.text, Operator.text_eq]
      cases o <;> first
        | exact absurd rfl ho
        | (simp only [opChars, List.cons_append, List.nil_append]
           rw [lexFrom_minutia _ _ _ (by rfl)]
           first | rfl | (rw [show ((_ : Token) == Token.word Word.rem2) = false from by decide,
             lexFrom_minutia _ _ _ (by rfl)]; rfl))
  | ident i =>
    obtain ⟨nm, hw, ht, hu⟩ := hp
    have htx : (Token.ident i).text = nm.text := by
      rw [← ht, nm.token_text hw, Name.base, hu, Name.text, List.append_assoc]
    have := lexFrom_name nm hw rest (fun _ => hf)
    rw [htx, this, ht]; rfl
  | lparen => exact lexFrom_minutia _ _ _ rfl
  | rparen => exact lexFrom_minutia _ _ _ rfl
  | comma => exact lexFrom_minutia _ _ _ rfl
  | colon => exact lexFrom_minutia _ _ _ rfl
  | semicolon => exact lexFrom_minutia _ _ _ rfl

end Lex
end Basic
