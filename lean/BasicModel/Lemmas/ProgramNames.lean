import BasicModel.Lemmas.ParseNames
import BasicModel.Lemmas.CodegenNames
import BasicModel.Lemmas.Program
/-
  Program memory: whatever is compiled from lines whose identifier tokens are `Letter1` has fine
  name operands (`ProgOk`), through `codegenLine`, `codegenLines`, `linkProg`, `clear`.
-/
namespace Basic
open Lemmas.ParseNames Codegen

namespace Link

theorem opsOk_set {ops : Array Opcode} (h : OpsOk ops) (i : Nat) {op : Opcode} (ho : OpOk op) :
    OpsOk (ops.setIfInBounds i op) := by
  intro x hx
  rw [← Array.mem_def] at hx
  rcases Array.mem_or_eq_of_mem_setIfInBounds hx with hx | rfl
  · exact h x (Array.mem_def.1 hx)
  · exact ho

theorem opsOk_extract {ops : Array Opcode} (h : OpsOk ops) (i j : Nat) : OpsOk (ops.extract i j) :=
  fun x hx => h x (Codegen.mem_of_mem_extract hx)

theorem LinkOk.linkWhiles {l : Link} (h : LinkOk l) : LinkOk l.linkWhiles.1 := h

theorem LinkOk.linkOne {l : Link} (h : LinkOk l) (a : Nat) (c : Col) (sym : Symbol) :
    LinkOk (l.linkOne a c sym).1 := by
  unfold Link.linkOne
  dsimp only
  split
  · split <;> exact h
  · split
    all_goals first | exact h | exact opsOk_set h _ trivial

theorem LinkOk.link {l : Link} (h : LinkOk l) : LinkOk l.link.1 := by
  unfold Link.link
  dsimp only
  have key : ∀ (pend : List (Nat × (Col × Symbol))) (acc : Link × List Error), LinkOk acc.1 →
      LinkOk (pend.foldl (fun (x : Link × List Error) (y : Nat × (Col × Symbol)) =>
        match x, y with
        | (l, errs), (a, (c, s)) =>
          match Link.linkOne l a c s with
          | (l, some e) => (l, errs ++ [e])
          | (l, none) => (l, errs)) acc).1 := by
    intro pend
    induction pend with
    | nil => intro acc h; exact h
    | cons y rest ih =>
      intro acc hacc
      rw [List.foldl_cons]
      apply ih
      obtain ⟨l0, errs⟩ := acc
      obtain ⟨a, c, s⟩ := y
      have := LinkOk.linkOne hacc a c s
      dsimp only
      generalize Link.linkOne l0 a c s = r at this
      obtain ⟨l1, o⟩ := r
      cases o <;> exact this
  exact key _ _ h

theorem LinkOk.clear (l : Link) : LinkOk l.clear := Codegen.opsOk_empty
theorem LinkOk.setStartOfDirect {l : Link} (h : LinkOk l) (a : Nat) : LinkOk (l.setStartOfDirect a) := h

end Link

namespace Program
open Link

/-- every name operand in program memory is fine -/
def ProgOk (p : Program) : Prop := p.link.LinkOk

theorem ProgOk.empty : ProgOk {} := LinkOk.empty
theorem ProgOk.clear (p : Program) : ProgOk p.clear := LinkOk.clear _

theorem ProgOk.pushEndP {p : Program} (h : ProgOk p) : ProgOk (pushEndP p) := by
  unfold Program.pushEndP
  have := LinkOk.push h (op := .end) trivial
  generalize p.link.push Opcode.end = r at this
  obtain ⟨l, r'⟩ := r
  cases r' <;> exact this

theorem ProgOk.ensureEnd {p : Program} (h : ProgOk p) : ProgOk (ensureEnd p) := by
  unfold Program.ensureEnd
  split
  · split
    · exact h.pushEndP
    · exact h
  · exact h.pushEndP

theorem ProgOk.resolve {p : Program} (h : ProgOk p) : ProgOk (resolve p) := by
  unfold Program.resolve
  have hl : LinkOk p.link.link.1 := LinkOk.link h
  dsimp only
  split <;> exact hl

theorem ProgOk.markDirect {p : Program} (h : ProgOk p) : ProgOk (markDirect p) := by
  unfold Program.markDirect
  split
  · exact h
  · exact h

theorem ProgOk.linkProg {p : Program} (h : ProgOk p) : ProgOk p.linkProg := by
  rw [linkProg_eq]; exact h.ensureEnd.resolve.markDirect

/-- the tokens of the line are fine -/
def LineOk (line : Line) : Prop := ToksOk line.tokens

theorem ProgOk.codegenLine {p : Program} (h : ProgOk p) {line : Line} (hl : LineOk line) :
    ProgOk (p.codegenLine line) := by
  unfold Program.codegenLine
  have h0 : ProgOk (if line.number.isNone then p.linkProg else p) := by
    split
    · exact h.linkProg
    · exact h
  revert h0
  generalize (if line.number.isNone then p.linkProg else p) = q
  intro hq
  cases hn : line.number with
  | some n =>
    dsimp only
    cases hp : Parse.parse (some n) line.tokens with
    | error e => exact hq
    | ok ast =>
      dsimp only
      have hast := parse_stmtsOk _ _ hl ast hp
      exact codegen_linkOk (q.link.pushSymbol n) ast hast hq
  | none =>
    dsimp only
    cases hp : Parse.parse none line.tokens with
    | error e => exact opsOk_extract hq _ _
    | ok ast =>
      dsimp only
      have hast := parse_stmtsOk _ _ hl ast hp
      have hc := codegen_linkOk ({ q.link with ops := q.link.ops.extract 0 q.directAddress } : Link) ast hast
        (opsOk_extract hq _ _)
      generalize Codegen.codegen ({ q.link with ops := q.link.ops.extract 0 q.directAddress } : Link) ast = cg at hc
      rcases cg with ⟨cl, ce⟩
      dsimp only
      have := LinkOk.push hc (op := .end) trivial
      generalize cl.push Opcode.end = r2 at this
      obtain ⟨l2, r2'⟩ := r2
      cases r2' <;> exact this

theorem ProgOk.codegenLines {p : Program} (h : ProgOk p) {lines : List Line} (hl : ∀ l ∈ lines, LineOk l) :
    ProgOk (p.codegenLines lines) := by
  unfold Program.codegenLines
  induction lines generalizing p with
  | nil => exact h
  | cons l ls ih =>
    rw [List.foldl_cons]
    exact ih (h.codegenLine (hl l List.mem_cons_self)) (fun x hx => hl x (List.mem_cons_of_mem _ hx))

/-- **a program compiled from any listing whose lines are fine has fine name operands** -/
theorem compile_progOk (lines : List Line) (hl : ∀ l ∈ lines, LineOk l) : ProgOk (Program.compile lines) :=
  (ProgOk.empty.codegenLines hl).linkProg

end Program
end Basic
