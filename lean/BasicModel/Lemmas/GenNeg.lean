import BasicModel.Model.Codegen
/-
  The code generator only ever defines *local* labels.

  `NegSyms l`: every key of `l.symbols` is negative and `l.currentSymbol ≤ 0`.  Every fragment the
  generator builds (`acceptStmts ast {}`) satisfies it: `lpushSymbol` is only called with a label
  handed out by `lnextSymbol`, and `Link.append` re-bases negative keys by a non-positive offset.
  Consequence (used by `Lemmas/Inv.lean`): compiling a statement never adds or changes a *line*
  symbol (key `≥ 0`) of the link it is appended to.

  The proof is a small Hoare calculus on `GM`: `GH m Q` — from a good generator state `m` ends in
  a good state (whether it succeeds or throws) and every successful result satisfies `Q`.
-/
namespace Basic
namespace Link

theorem mem_symInsert_iff {k : Symbol} {v : Nat × Nat} {m : List (Symbol × (Nat × Nat))}
    {p : Symbol × (Nat × Nat)} (h : p ∈ symInsert k v m) : p = (k, v) ∨ p ∈ m := by
  induction m with
  | nil =>
    simp only [symInsert, List.mem_singleton] at h
    exact .inl h
  | cons hd tl ih =>
    rcases hd with ⟨k', v'⟩
    unfold symInsert at h
    split at h
    · rcases List.mem_cons.1 h with h | h
      · exact .inl h
      · exact .inr h
    · split at h
      · rcases List.mem_cons.1 h with h | h
        · exact .inl h
        · exact .inr (List.mem_cons_of_mem _ h)
      · rcases List.mem_cons.1 h with h | h
        · exact .inr (h ▸ List.mem_cons_self)
        · rcases ih h with h | h
          · exact .inl h
          · exact .inr (List.mem_cons_of_mem _ h)

/-- only local labels: what every generated fragment satisfies -/
def NegSyms (l : Link) : Prop := l.currentSymbol ≤ 0 ∧ ∀ p ∈ l.symbols, p.1 < 0

theorem NegSyms.empty : NegSyms {} := ⟨Int.le_refl 0, fun _ h => nomatch h⟩

theorem NegSyms.push {l : Link} (h : NegSyms l) (op : Opcode) : NegSyms (l.push op).1 := h
theorem NegSyms.pushData {l : Link} (h : NegSyms l) (v : Val) : NegSyms (l.pushData v).1 := h
theorem NegSyms.addUnlinked {l : Link} (h : NegSyms l) (c : Col) (s : Symbol) :
    NegSyms (l.addUnlinked c s) := h
theorem NegSyms.setWhiles {l : Link} (h : NegSyms l) (w : List (Bool × Col × Nat × Symbol)) :
    NegSyms { l with whiles := w } := h
theorem NegSyms.setOps {l : Link} (h : NegSyms l) (o : Array Opcode) :
    NegSyms { l with ops := o } := h

theorem NegSyms.nextSymbol {l : Link} (h : NegSyms l) :
    NegSyms l.nextSymbol.1 ∧ l.nextSymbol.2 < 0 := by
  have hc : l.currentSymbol ≤ 0 := h.1
  refine ⟨⟨?_, h.2⟩, ?_⟩
  · show l.currentSymbol - 1 ≤ 0
    simp only [Symbol] at *; omega
  · show l.currentSymbol - 1 < 0
    simp only [Symbol] at *; omega

theorem NegSyms.pushSymbol {l : Link} (h : NegSyms l) {sym : Symbol} (hs : sym < 0) :
    NegSyms (l.pushSymbol sym) := by
  refine ⟨h.1, ?_⟩
  intro p hp
  rcases mem_symInsert_iff hp with e | hp
  · rw [e]; exact hs
  · exact h.2 p hp

theorem foldl_symInsert_neg (f : Symbol × (Nat × Nat) → Symbol × (Nat × Nat)) (bs : List (Symbol × (Nat × Nat))) :
    (∀ b ∈ bs, (f b).1 < 0) → ∀ (m : List (Symbol × (Nat × Nat))), (∀ p ∈ m, p.1 < 0) →
      ∀ p ∈ bs.foldl (fun m b => symInsert (f b).1 (f b).2 m) m, p.1 < 0 := by
  induction bs with
  | nil => intro _ m hm; exact hm
  | cons b rest ih =>
    intro hf m hm
    rw [List.foldl_cons]
    apply ih (fun b hb => hf b (List.mem_cons_of_mem _ hb))
    intro p hp
    rcases mem_symInsert_iff hp with e | hp
    · rw [e]; exact hf b List.mem_cons_self
    · exact hm p hp

theorem NegSyms.append {a b : Link} (ha : NegSyms a) (hb : NegSyms b) : NegSyms (a.append b).1 := by
  have hca : a.currentSymbol ≤ 0 := ha.1
  have hcb : b.currentSymbol ≤ 0 := hb.1
  have hcs : a.currentSymbol + b.currentSymbol ≤ 0 := by simp only [Symbol] at *; omega
  have hsym : ∀ p ∈ b.symbols.foldl (fun m (x : Symbol × (Nat × Nat)) =>
      match x with
      | (s, (oa, da)) => symInsert (if s < 0 then s + a.currentSymbol else s) (oa + a.ops.size, da + a.data.size) m)
      a.symbols, p.1 < 0 := by
    refine foldl_symInsert_neg
      (fun x => ((if x.1 < 0 then x.1 + a.currentSymbol else x.1), (x.2.1 + a.ops.size, x.2.2 + a.data.size)))
      b.symbols ?_ a.symbols ha.2
    intro x hx
    have := hb.2 x hx
    show (if x.1 < 0 then x.1 + a.currentSymbol else x.1) < 0
    rw [if_pos this]
    simp only [Symbol] at *; omega
  unfold Link.append
  split
  · exact ha
  · dsimp only
    split
    · exact ⟨hcs, hsym⟩
    · exact ⟨hcs, hsym⟩

end Link

namespace Codegen
open Link
variable {α β : Type}

/-! ### run lemmas for `GM` -/

theorem g_bind (m : GM α) (f : α → GM β) (g : GState) :
    (m >>= f).run.run g =
      match m.run.run g with
      | (.ok a, g') => (f a).run.run g'
      | (.error e, g') => (.error e, g') := by
  simp only [bind, ExceptT.bind, ExceptT.mk, ExceptT.bindCont, StateT.bind, ExceptT.run, StateT.run]
  generalize m g = x
  rcases x with ⟨r, g'⟩
  cases r <;> rfl

theorem g_pure (a : α) (g : GState) : (pure a : GM α).run.run g = (.ok a, g) := rfl
theorem g_throw (e : Error) (g : GState) : (throw e : GM α).run.run g = (.error e, g) := rfl
theorem g_get (g : GState) : (get : GM GState).run.run g = (.ok g, g) := rfl
theorem g_set (t g : GState) : (set t : GM Unit).run.run g = (.ok (), t) := rfl
theorem g_modify (f : GState → GState) (g : GState) : (modify f : GM Unit).run.run g = (.ok (), f g) := rfl
theorem g_liftE (r : Except Error α) (g : GState) : (liftE r : GM α).run.run g = (r, g) := by
  cases r <;> rfl

/-! ### good generator states -/

/-- the fragment under construction and every fragment on the three stacks define local labels only -/
structure GGood (g : GState) : Prop where
  cur : g.cur.NegSyms
  var : ∀ v ∈ g.var.toList, v.link.NegSyms
  expr : ∀ x ∈ g.expr.toList, x.2.NegSyms
  stmt : ∀ x ∈ g.stmt.toList, x.2.NegSyms

theorem GGood.empty : GGood {} := ⟨NegSyms.empty, fun _ h => (nomatch h), fun _ h => (nomatch h), fun _ h => (nomatch h)⟩

theorem GGood.setCur {g : GState} (h : GGood g) {l : Link} (hl : l.NegSyms) : GGood { g with cur := l } :=
  ⟨hl, h.var, h.expr, h.stmt⟩

/-- `GH m Q`: `m` keeps the generator state good, and its successful results satisfy `Q` -/
structure GH (m : GM α) (Q : α → Prop) : Prop where
  run : ∀ g, GGood g → GGood (m.run.run g).2 ∧ ∀ a, (m.run.run g).1 = .ok a → Q a

abbrev T {α : Type} : α → Prop := fun _ => True

theorem GH.ret {Q : α → Prop} {a : α} (h : Q a) : GH (pure a : GM α) Q :=
  ⟨fun _ hg => ⟨hg, fun b hb => by cases hb; exact h⟩⟩

theorem GH.thr {Q : α → Prop} (e : Error) : GH (throw e : GM α) Q :=
  ⟨fun _ hg => ⟨hg, fun b hb => by cases hb⟩⟩

theorem GH.lift (r : Except Error α) : GH (liftE r : GM α) T :=
  ⟨fun g hg => by rw [g_liftE]; exact ⟨hg, fun _ _ => trivial⟩⟩

theorem GH.mod {f : GState → GState} (h : ∀ g, GGood g → GGood (f g)) : GH (modify f : GM Unit) T :=
  ⟨fun g hg => ⟨h g hg, fun _ _ => trivial⟩⟩

theorem GH.weaken {Q Q' : α → Prop} {m : GM α} (h : GH m Q) (hq : ∀ a, Q a → Q' a) : GH m Q' :=
  ⟨fun g hg => ⟨(h.run g hg).1, fun a ha => hq a ((h.run g hg).2 a ha)⟩⟩

theorem GH.any {Q : α → Prop} {m : GM α} (h : GH m Q) : GH m T := h.weaken fun _ _ => trivial

theorem GH.seq {Q : α → Prop} {Q' : β → Prop} {m : GM α} {f : α → GM β}
    (hm : GH m Q) (hf : ∀ a, Q a → GH (f a) Q') : GH (m >>= f) Q' := by
  constructor
  intro g hg
  have h1 := hm.run g hg
  rw [g_bind]
  rcases h : m.run.run g with ⟨r, g'⟩
  rw [h] at h1
  cases r with
  | ok a => exact (hf a (h1.2 a rfl)).run g' h1.1
  | error e => exact ⟨h1.1, fun b hb => by cases hb⟩

theorem GH.seq_any {Q' : β → Prop} {m : GM α} {f : α → GM β}
    (hm : GH m T) (hf : ∀ a, GH (f a) Q') : GH (m >>= f) Q' :=
  GH.seq hm fun a _ => hf a

theorem GH.forLoop {γ : Type} {P : γ → Prop} (l : List γ) (init : β) (f : γ → β → GM (ForInStep β))
    (hl : ∀ a ∈ l, P a) (hf : ∀ a b, P a → GH (f a b) T) : GH (forIn l init f) T := by
  induction l generalizing init with
  | nil => exact GH.ret trivial
  | cons a as ih =>
    rw [List.forIn_cons]
    refine GH.seq_any (hf a init (hl a List.mem_cons_self)) ?_
    intro r
    cases r with
    | done b => exact GH.ret trivial
    | yield b => exact ih b (fun x hx => hl x (List.mem_cons_of_mem _ hx))

/-! ### the primitives -/

theorem mem_of_back? {γ : Type} {a : Array γ} {x : γ} (h : a.back? = some x) : x ∈ a.toList := by
  rw [Array.back?_eq_getElem?] at h
  exact Array.mem_toList_iff.2 (Array.mem_of_getElem? h)

theorem mem_of_mem_pop {γ : Type} {a : Array γ} {x : γ} (h : x ∈ a.pop.toList) : x ∈ a.toList := by
  rw [Array.toList_pop] at h
  exact List.dropLast_subset _ h

theorem mem_of_mem_extract {γ : Type} {a : Array γ} {i j : Nat} {x : γ} (h : x ∈ (a.extract i j).toList) :
    x ∈ a.toList := by
  rw [Array.toList_extract] at h
  exact List.mem_of_mem_drop (List.mem_of_mem_take h)

theorem gh_popExpr : GH popExpr (fun x => x.2.NegSyms) := by
  constructor
  intro g hg
  simp only [popExpr, g_bind, g_get]
  cases hb : g.expr.back? with
  | none => exact ⟨hg, fun a ha => by cases ha⟩
  | some x =>
    refine ⟨⟨hg.cur, hg.var, fun y hy => hg.expr y (mem_of_mem_pop hy), hg.stmt⟩, ?_⟩
    intro a ha
    cases ha
    exact hg.expr x (mem_of_back? hb)

theorem gh_popVar : GH popVar (fun v => v.link.NegSyms) := by
  constructor
  intro g hg
  simp only [popVar, g_bind, g_get]
  cases hb : g.var.back? with
  | none => exact ⟨hg, fun a ha => by cases ha⟩
  | some x =>
    refine ⟨⟨hg.cur, fun y hy => hg.var y (mem_of_mem_pop hy), hg.expr, hg.stmt⟩, ?_⟩
    intro a ha
    cases ha
    exact hg.var x (mem_of_back? hb)

theorem gh_popNExpr (n : Nat) : GH (popNExpr n) (fun l => ∀ x ∈ l, x.2.NegSyms) := by
  constructor
  intro g hg
  simp only [popNExpr, g_bind, g_get]
  split
  · exact ⟨hg, fun a ha => by cases ha⟩
  · refine ⟨⟨hg.cur, hg.var, fun y hy => hg.expr y (mem_of_mem_extract hy), hg.stmt⟩, ?_⟩
    intro a ha
    cases ha
    exact fun y hy => hg.expr y (mem_of_mem_extract hy)

theorem gh_popNVar (n : Nat) : GH (popNVar n) (fun l => ∀ x ∈ l, x.link.NegSyms) := by
  constructor
  intro g hg
  simp only [popNVar, g_bind, g_get]
  split
  · exact ⟨hg, fun a ha => by cases ha⟩
  · refine ⟨⟨hg.cur, fun y hy => hg.var y (mem_of_mem_extract hy), hg.expr, hg.stmt⟩, ?_⟩
    intro a ha
    cases ha
    exact fun y hy => hg.var y (mem_of_mem_extract hy)

theorem gh_popNStmt (n : Nat) : GH (popNStmt n) (fun l => ∀ x ∈ l, x.2.NegSyms) := by
  constructor
  intro g hg
  simp only [popNStmt, g_bind, g_get]
  split
  · exact ⟨hg, fun a ha => by cases ha⟩
  · refine ⟨⟨hg.cur, hg.var, hg.expr, fun y hy => hg.stmt y (mem_of_mem_extract hy)⟩, ?_⟩
    intro a ha
    cases ha
    exact fun y hy => hg.stmt y (mem_of_mem_extract hy)

theorem gh_lpush (op : Opcode) : GH (lpush op) T := by
  constructor
  intro g hg
  simp only [lpush, g_bind, g_get, g_set, g_liftE]
  exact ⟨hg.setCur (hg.cur.push op), fun _ _ => trivial⟩

theorem gh_lappend (f : Link) (hf : f.NegSyms) : GH (lappend f) T := by
  constructor
  intro g hg
  simp only [lappend, g_bind, g_get, g_set, g_liftE]
  exact ⟨hg.setCur (hg.cur.append hf), fun _ _ => trivial⟩

theorem gh_lnextSymbol : GH lnextSymbol (fun s => s < 0) := by
  constructor
  intro g hg
  simp only [lnextSymbol, g_bind, g_get, g_set, g_pure]
  refine ⟨hg.setCur hg.cur.nextSymbol.1, ?_⟩
  intro a ha
  cases ha
  exact hg.cur.nextSymbol.2

theorem gh_lpushSymbol (sym : Symbol) (hs : sym < 0) : GH (lpushSymbol sym) T :=
  GH.mod fun _ hg => hg.setCur (hg.cur.pushSymbol hs)

theorem gh_laddUnlinked (c : Col) (sym : Symbol) : GH (laddUnlinked c sym) T :=
  GH.mod fun _ hg => hg.setCur (hg.cur.addUnlinked c sym)

theorem gh_lenVal (n : Nat) : GH (lenVal n) T := GH.lift _

/-! ### the walk through a `do` block -/

/-- lemmas for the actions met so far; extended by `macro_rules` -/
syntax "gh_known" : tactic
macro_rules | `(tactic| gh_known) => `(tactic| assumption)
macro_rules | `(tactic| gh_known) => `(tactic| with_reducible exact gh_lpush _)
macro_rules | `(tactic| gh_known) => `(tactic| with_reducible exact gh_lappend _ (by assumption))
macro_rules | `(tactic| gh_known) => `(tactic| with_reducible exact gh_lpushSymbol _ (by assumption))
macro_rules | `(tactic| gh_known) => `(tactic| with_reducible exact gh_laddUnlinked _ _)
macro_rules | `(tactic| gh_known) => `(tactic| with_reducible exact gh_lenVal _)
macro_rules | `(tactic| gh_known) => `(tactic| with_reducible exact GH.any gh_lnextSymbol)
macro_rules | `(tactic| gh_known) => `(tactic| with_reducible exact GH.any gh_popExpr)
macro_rules | `(tactic| gh_known) => `(tactic| with_reducible exact GH.any gh_popVar)
macro_rules | `(tactic| gh_known) => `(tactic| with_reducible exact GH.any (gh_popNExpr _))
macro_rules | `(tactic| gh_known) => `(tactic| with_reducible exact GH.any (gh_popNVar _))
macro_rules | `(tactic| gh_known) => `(tactic| with_reducible exact GH.any (gh_popNStmt _))

/-- binds whose result is needed later: the postcondition goes into the context -/
syntax "gh_post" : tactic
macro_rules | `(tactic| gh_post) => `(tactic| (with_reducible refine GH.seq gh_lnextSymbol ?_; intro _ _))
macro_rules | `(tactic| gh_post) => `(tactic| (with_reducible refine GH.seq gh_popExpr ?_; intro _ _))
macro_rules | `(tactic| gh_post) => `(tactic| (with_reducible refine GH.seq gh_popVar ?_; intro _ _))
macro_rules | `(tactic| gh_post) => `(tactic| (with_reducible refine GH.seq (gh_popNExpr _) ?_; intro _ _))
macro_rules | `(tactic| gh_post) => `(tactic| (with_reducible refine GH.seq (gh_popNVar _) ?_; intro _ _))
macro_rules | `(tactic| gh_post) => `(tactic| (with_reducible refine GH.seq (gh_popNStmt _) ?_; intro _ _))

macro "gh_step" : tactic =>
  `(tactic| first
    | with_reducible exact GH.ret trivial
    | with_reducible exact GH.thr _
    | with_reducible exact GH.lift _
    | gh_known
    | gh_post
    | (with_reducible refine GH.forLoop _ _ _ (by assumption) ?_; intro _ _ _)
    | (with_reducible refine GH.forLoop (P := T) _ _ _ (fun _ _ => trivial) ?_; intro _ _ _)
    | with_reducible apply GH.seq_any
    | intro _
    | split)

macro "gh" : tactic => `(tactic| (try dsimp only
                                  repeat' gh_step))

/-! ### `Link::push_*` -/

theorem gh_pushJump (c : Col) (sym : Symbol) : GH (pushJump c sym) T := by unfold pushJump; gh
theorem gh_pushIfnot (c : Col) (sym : Symbol) : GH (pushIfnot c sym) T := by unfold pushIfnot; gh
theorem gh_pushReturnVal (c : Col) (sym : Symbol) : GH (pushReturnVal c sym) T := by unfold pushReturnVal; gh
macro_rules | `(tactic| gh_known) => `(tactic| with_reducible exact gh_pushJump _ _)
macro_rules | `(tactic| gh_known) => `(tactic| with_reducible exact gh_pushIfnot _ _)
macro_rules | `(tactic| gh_known) => `(tactic| with_reducible exact gh_pushReturnVal _ _)

theorem gh_pushGoto (c : Col) (ln : Option Nat) : GH (pushGoto c ln) T := by unfold pushGoto; gh
theorem gh_pushGosub (c : Col) (ln : Option Nat) : GH (pushGosub c ln) T := by unfold pushGosub; gh
theorem gh_pushFor (c : Col) : GH (pushFor c) T := by unfold pushFor; gh
theorem gh_pushRestore (c : Col) (ln : Option Nat) : GH (pushRestore c ln) T := by unfold pushRestore; gh
theorem gh_pushRun (c : Col) (ln : Option Nat) : GH (pushRun c ln) T := by unfold pushRun; gh
macro_rules | `(tactic| gh_known) => `(tactic| with_reducible exact gh_pushGoto _ _)
macro_rules | `(tactic| gh_known) => `(tactic| with_reducible exact gh_pushGosub _ _)
macro_rules | `(tactic| gh_known) => `(tactic| with_reducible exact gh_pushFor _)
macro_rules | `(tactic| gh_known) => `(tactic| with_reducible exact gh_pushRestore _ _)
macro_rules | `(tactic| gh_known) => `(tactic| with_reducible exact gh_pushRun _ _)

theorem gh_setWhiles (w : GState → List (Bool × Col × Nat × Symbol)) :
    GH (modify fun s => { s with cur := { s.cur with whiles := w s } } : GM Unit) T :=
  GH.mod fun g hg => hg.setCur (hg.cur.setWhiles (w g))
macro_rules | `(tactic| gh_known) => `(tactic| with_reducible exact gh_setWhiles _)

theorem gh_pushWend (c : Col) : GH (pushWend c) T := by unfold pushWend; gh
theorem gh_pushWhile (c : Col) (e : Link) (he : e.NegSyms) : GH (pushWhile c e) T := by unfold pushWhile; gh
theorem gh_pushDefFn (c : Col) (ident : Str) (vars : List Str) (e : Link) (he : e.NegSyms) :
    GH (pushDefFn c ident vars e) T := by unfold pushDefFn; gh
macro_rules | `(tactic| gh_known) => `(tactic| with_reducible exact gh_pushWend _)
macro_rules | `(tactic| gh_known) => `(tactic| with_reducible exact gh_pushWhile _ _ (by assumption))
macro_rules | `(tactic| gh_known) => `(tactic| with_reducible exact gh_pushDefFn _ _ _ _ (by assumption))

/-! ### `VarItem` -/

theorem gh_pushAsDim (v : VarItem) (hv : v.link.NegSyms) : GH (pushAsDim v) T := by unfold pushAsDim; gh
theorem gh_pushAsPopUnary (v : VarItem) : GH (pushAsPopUnary v) T := by unfold pushAsPopUnary; gh
theorem gh_pushAsPop (v : VarItem) (hv : v.link.NegSyms) : GH (pushAsPop v) T := by unfold pushAsPop; gh
theorem gh_pushAsExpression (v : VarItem) (hv : v.link.NegSyms) : GH (pushAsExpression v) T := by
  unfold pushAsExpression; gh
macro_rules | `(tactic| gh_known) => `(tactic| with_reducible exact gh_pushAsDim _ (by assumption))
macro_rules | `(tactic| gh_known) => `(tactic| with_reducible exact gh_pushAsPopUnary _)
macro_rules | `(tactic| gh_known) => `(tactic| with_reducible exact gh_pushAsPop _ (by assumption))
macro_rules | `(tactic| gh_known) => `(tactic| with_reducible exact gh_pushAsExpression _ (by assumption))

/-! ### `Generator` -/

theorem gh_exprPopLineNumber : GH exprPopLineNumber T := by unfold exprPopLineNumber; gh
macro_rules | `(tactic| gh_known) => `(tactic| with_reducible exact gh_exprPopLineNumber)

theorem gh_genVariable (v : Variable) : GH (genVariable v) T := by
  cases v <;> (simp only [genVariable]; gh)

theorem gh_unaryExpr (op : Opcode) (c : Col) : GH (unaryExpr op c) T := by unfold unaryExpr; gh
theorem gh_binaryExpr (op : Opcode) : GH (binaryExpr op) T := by unfold binaryExpr; gh
macro_rules | `(tactic| gh_known) => `(tactic| with_reducible exact gh_unaryExpr _ _)
macro_rules | `(tactic| gh_known) => `(tactic| with_reducible exact gh_binaryExpr _)

theorem gh_genExpression (e : Expr) : GH (genExpression e) T := by
  cases e <;> (simp only [genExpression]; gh)

theorem gh_defType (op : Opcode) (c : Col) : GH (defType op c) T := by unfold defType; gh
theorem gh_rangeStmt (op : Opcode) (c : Col) : GH (rangeStmt op c) T := by unfold rangeStmt; gh
theorem gh_genOn (c : Col) (len : Nat) (b : Bool) : GH (genOn c len b) T := by unfold genOn; gh
macro_rules | `(tactic| gh_known) => `(tactic| with_reducible exact gh_defType _ _)
macro_rules | `(tactic| gh_known) => `(tactic| with_reducible exact gh_rangeStmt _ _)
macro_rules | `(tactic| gh_known) => `(tactic| with_reducible exact gh_genOn _ _ _)

theorem negSyms_transformToData {l : Link} (h : l.NegSyms) (c : Col) : (transformToData l c).1.NegSyms := by
  unfold transformToData
  dsimp only
  repeat' split
  all_goals first | exact h | exact (h.setOps #[]) | exact (h.setOps #[]).pushData _

theorem negSyms_of_transformToData {l l' : Link} {c : Col} {r : Except Error Unit} (h : l.NegSyms)
    (e : transformToData l c = (l', r)) : l'.NegSyms := by
  have := negSyms_transformToData h c
  rw [e] at this
  exact this
macro_rules | `(tactic| gh_known) => `(tactic| with_reducible exact gh_lappend _ (negSyms_of_transformToData (by assumption) (by assumption)))
macro_rules | `(tactic| gh_known) => `(tactic| with_reducible exact gh_lappend _ (negSyms_transformToData (by assumption) _))

theorem gh_genStatement (st : Stmt) : GH (genStatement st) T := by
  cases st <;> (simp only [genStatement]; gh)

/-! ### the visitor -/

theorem runFresh_good {m : GM α} {Q : α → Prop} (hm : GH m Q) (g : GState) (hg : GGood g) :
    (runFresh m g).2.1.NegSyms ∧ GGood (runFresh m g).2.2 := by
  have h := (hm.run { g with cur := {} } (hg.setCur NegSyms.empty)).1
  unfold runFresh
  exact ⟨h.cur, ⟨hg.cur, h.var, h.expr, h.stmt⟩⟩

theorem mem_push_toList {γ : Type} {a : Array γ} {x y : γ} (h : y ∈ (a.push x).toList) :
    y ∈ a.toList ∨ y = x := by
  rw [Array.toList_push, List.mem_append, List.mem_singleton] at h
  exact h

theorem visitVariable_good (v : Variable) (s : VState) (h : GGood s.g) : GGood (visitVariable v s).g := by
  have hr := runFresh_good (gh_genVariable v) s.g h
  unfold visitVariable
  generalize runFresh (genVariable v) s.g = x at hr
  rcases x with ⟨r, link, g⟩
  cases r <;>
    exact ⟨hr.2.cur, fun y hy => (mem_push_toList hy).elim (hr.2.var y) (fun e => e ▸ hr.1), hr.2.expr, hr.2.stmt⟩

theorem visitExpression_good (e : Expr) (s : VState) (h : GGood s.g) : GGood (visitExpression e s).g := by
  have hr := runFresh_good (gh_genExpression e) s.g h
  unfold visitExpression
  generalize runFresh (genExpression e) s.g = x at hr
  rcases x with ⟨r, link, g⟩
  cases r <;>
    exact ⟨hr.2.cur, hr.2.var, fun y hy => (mem_push_toList hy).elim (hr.2.expr y) (fun e => e ▸ hr.1), hr.2.stmt⟩

theorem visitStatement_good (st : Stmt) (s : VState) (h : GGood s.g) : GGood (visitStatement st s).g := by
  have hr := runFresh_good (gh_genStatement st) s.g h
  unfold visitStatement
  generalize runFresh (genStatement st) s.g = x at hr
  rcases x with ⟨r, link, g⟩
  cases r <;>
    exact ⟨hr.2.cur, hr.2.var, hr.2.expr, fun y hy => (mem_push_toList hy).elim (hr.2.stmt y) (fun e => e ▸ hr.1)⟩

mutual
theorem acceptVar_good : ∀ (v : Variable) (s : VState), GGood s.g → GGood (acceptVar v s).g
  | .unary c i, s, h => by rw [acceptVar]; exact visitVariable_good _ _ h
  | .array c i es, s, h => by rw [acceptVar]; exact visitVariable_good _ _ (acceptExprs_good es s h)
theorem acceptExpr_good : ∀ (e : Expr) (s : VState), GGood s.g → GGood (acceptExpr e s).g
  | .var v, s, h => by rw [acceptExpr]; exact visitExpression_good _ _ (acceptVar_good v s h)
  | .neg c e, s, h => by rw [acceptExpr]; exact visitExpression_good _ _ (acceptExpr_good e s h)
  | .not c e, s, h => by rw [acceptExpr]; exact visitExpression_good _ _ (acceptExpr_good e s h)
  | .bin op c l r, s, h => by
    rw [acceptExpr]; exact visitExpression_good _ _ (acceptExpr_good r _ (acceptExpr_good l s h))
  | .single c b, s, h => by rw [acceptExpr] <;> first | exact visitExpression_good _ _ h | nofun
  | .double c b, s, h => by rw [acceptExpr] <;> first | exact visitExpression_good _ _ h | nofun
  | .integer c b, s, h => by rw [acceptExpr] <;> first | exact visitExpression_good _ _ h | nofun
  | .string c b, s, h => by rw [acceptExpr] <;> first | exact visitExpression_good _ _ h | nofun
theorem acceptExprs_good : ∀ (es : List Expr) (s : VState), GGood s.g → GGood (acceptExprs es s).g
  | [], s, h => by rw [acceptExprs]; exact h
  | e :: es, s, h => by rw [acceptExprs]; exact acceptExprs_good es _ (acceptExpr_good e s h)
end

theorem acceptVars_good (vs : List Variable) (s : VState) (h : GGood s.g) : GGood (acceptVars vs s).g := by
  unfold acceptVars
  induction vs generalizing s with
  | nil => exact h
  | cons v vs ih => rw [List.foldl_cons]; exact ih _ (acceptVar_good v s h)

mutual
theorem acceptStmt_good : ∀ (st : Stmt) (s : VState), GGood s.g → GGood (acceptStmt st s).g
  | .data c es, s, h => by rw [acceptStmt]; exact visitStatement_good _ _ (acceptExprs_good es s h)
  | .print c es, s, h => by rw [acceptStmt]; exact visitStatement_good _ _ (acceptExprs_good es s h)
  | .def c v ps e, s, h => by
    rw [acceptStmt]
    exact visitStatement_good _ _ (acceptExpr_good e _ (acceptVars_good ps _ (acceptVar_good v s h)))
  | .defdbl c a b, s, h => by
    rw [acceptStmt]; exact visitStatement_good _ _ (acceptVar_good b _ (acceptVar_good a s h))
  | .defint c a b, s, h => by
    rw [acceptStmt]; exact visitStatement_good _ _ (acceptVar_good b _ (acceptVar_good a s h))
  | .defsng c a b, s, h => by
    rw [acceptStmt]; exact visitStatement_good _ _ (acceptVar_good b _ (acceptVar_good a s h))
  | .defstr c a b, s, h => by
    rw [acceptStmt]; exact visitStatement_good _ _ (acceptVar_good b _ (acceptVar_good a s h))
  | .swap c a b, s, h => by
    rw [acceptStmt]; exact visitStatement_good _ _ (acceptVar_good b _ (acceptVar_good a s h))
  | .mid c v e1 e2 e3, s, h => by
    rw [acceptStmt]
    exact visitStatement_good _ _
      (acceptExpr_good e3 _ (acceptExpr_good e2 _ (acceptExpr_good e1 _ (acceptVar_good v s h))))
  | .for c v e1 e2 e3, s, h => by
    rw [acceptStmt]
    exact visitStatement_good _ _
      (acceptExpr_good e3 _ (acceptExpr_good e2 _ (acceptExpr_good e1 _ (acceptVar_good v s h))))
  | .gosub c e, s, h => by rw [acceptStmt]; exact visitStatement_good _ _ (acceptExpr_good e s h)
  | .goto c e, s, h => by rw [acceptStmt]; exact visitStatement_good _ _ (acceptExpr_good e s h)
  | .load c e, s, h => by rw [acceptStmt]; exact visitStatement_good _ _ (acceptExpr_good e s h)
  | .restore c e, s, h => by rw [acceptStmt]; exact visitStatement_good _ _ (acceptExpr_good e s h)
  | .run c e, s, h => by rw [acceptStmt]; exact visitStatement_good _ _ (acceptExpr_good e s h)
  | .save c e, s, h => by rw [acceptStmt]; exact visitStatement_good _ _ (acceptExpr_good e s h)
  | .while c e, s, h => by rw [acceptStmt]; exact visitStatement_good _ _ (acceptExpr_good e s h)
  | .if c p th el, s, h => by
    rw [acceptStmt]
    exact visitStatement_good _ _ (acceptStmts_good el _ (acceptStmts_good th _ (acceptExpr_good p s h)))
  | .let c v e, s, h => by
    rw [acceptStmt]; exact visitStatement_good _ _ (acceptExpr_good e _ (acceptVar_good v s h))
  | .delete c a b, s, h => by
    rw [acceptStmt]; exact visitStatement_good _ _ (acceptExpr_good b _ (acceptExpr_good a s h))
  | .list c a b, s, h => by
    rw [acceptStmt]; exact visitStatement_good _ _ (acceptExpr_good b _ (acceptExpr_good a s h))
  | .input c e1 e2 vs, s, h => by
    rw [acceptStmt]
    exact visitStatement_good _ _ (acceptVars_good vs _ (acceptExpr_good e2 _ (acceptExpr_good e1 s h)))
  | .onGoto c e ls, s, h => by
    rw [acceptStmt]; exact visitStatement_good _ _ (acceptExprs_good ls _ (acceptExpr_good e s h))
  | .onGosub c e ls, s, h => by
    rw [acceptStmt]; exact visitStatement_good _ _ (acceptExprs_good ls _ (acceptExpr_good e s h))
  | .renum c a b st, s, h => by
    rw [acceptStmt]
    exact visitStatement_good _ _ (acceptExpr_good st _ (acceptExpr_good b _ (acceptExpr_good a s h)))
  | .dim c vs, s, h => by rw [acceptStmt]; exact visitStatement_good _ _ (acceptVars_good vs s h)
  | .erase c vs, s, h => by rw [acceptStmt]; exact visitStatement_good _ _ (acceptVars_good vs s h)
  | .next c vs, s, h => by rw [acceptStmt]; exact visitStatement_good _ _ (acceptVars_good vs s h)
  | .read c vs, s, h => by rw [acceptStmt]; exact visitStatement_good _ _ (acceptVars_good vs s h)
  | .clear c, s, h => by rw [acceptStmt] <;> first | exact visitStatement_good _ _ h | nofun
  | .cls c, s, h => by rw [acceptStmt] <;> first | exact visitStatement_good _ _ h | nofun
  | .cont c, s, h => by rw [acceptStmt] <;> first | exact visitStatement_good _ _ h | nofun
  | .end c, s, h => by rw [acceptStmt] <;> first | exact visitStatement_good _ _ h | nofun
  | .new c, s, h => by rw [acceptStmt] <;> first | exact visitStatement_good _ _ h | nofun
  | .return c, s, h => by rw [acceptStmt] <;> first | exact visitStatement_good _ _ h | nofun
  | .stop c, s, h => by rw [acceptStmt] <;> first | exact visitStatement_good _ _ h | nofun
  | .troff c, s, h => by rw [acceptStmt] <;> first | exact visitStatement_good _ _ h | nofun
  | .tron c, s, h => by rw [acceptStmt] <;> first | exact visitStatement_good _ _ h | nofun
  | .wend c, s, h => by rw [acceptStmt] <;> first | exact visitStatement_good _ _ h | nofun
theorem acceptStmts_good : ∀ (sts : List Stmt) (s : VState), GGood s.g → GGood (acceptStmts sts s).g
  | [], s, h => by rw [acceptStmts]; exact h
  | st :: sts, s, h => by rw [acceptStmts]; exact acceptStmts_good sts _ (acceptStmt_good st s h)
end

/-- every statement fragment the generator hands to `codegen` defines local labels only -/
theorem fragments_negSyms (ast : List Stmt) :
    ∀ x ∈ (acceptStmts ast {}).g.stmt.toList, x.2.NegSyms :=
  (acceptStmts_good ast {} GGood.empty).stmt

end Codegen
end Basic
