import BasicModel.Lemmas.NameOk
import BasicModel.Lemmas.GenNeg
/-
  The code generator only emits name operands taken from the `Variable` nodes it visits
  (a clone of the Hoare calculus of `Lemmas/GenNeg.lean`, for the predicate `LinkOk`):
  if the AST is `StmtsOk`, every fragment handed to `codegen` is `LinkOk`, and so is the link
  after `Codegen.codegen` (`codegen_linkOk`).
-/
namespace Basic
namespace Link

/-- every opcode of the fragment has fine name operands -/
def LinkOk (l : Link) : Prop := OpsOk l.ops

theorem LinkOk.empty : LinkOk {} := fun _ h => nomatch h

theorem opsOk_push {ops : Array Opcode} (h : OpsOk ops) {op : Opcode} (ho : OpOk op) : OpsOk (ops.push op) := by
  intro x hx
  rw [Array.toList_push, List.mem_append, List.mem_singleton] at hx
  rcases hx with hx | rfl
  · exact h x hx
  · exact ho

theorem opsOk_append {a b : Array Opcode} (ha : OpsOk a) (hb : OpsOk b) : OpsOk (a ++ b) := by
  intro x hx
  rw [Array.toList_append, List.mem_append] at hx
  exact hx.elim (ha x) (hb x)

theorem LinkOk.push {l : Link} (h : LinkOk l) {op : Opcode} (ho : OpOk op) : LinkOk (l.push op).1 :=
  opsOk_push h ho
theorem LinkOk.pushData {l : Link} (h : LinkOk l) (v : Val) : LinkOk (l.pushData v).1 := h
theorem LinkOk.addUnlinked {l : Link} (h : LinkOk l) (c : Col) (s : Symbol) : LinkOk (l.addUnlinked c s) := h
theorem LinkOk.setWhiles {l : Link} (h : LinkOk l) (w : List (Bool × Col × Nat × Symbol)) :
    LinkOk { l with whiles := w } := h
theorem LinkOk.setOps {l : Link} (_ : LinkOk l) {o : Array Opcode} (ho : OpsOk o) : LinkOk { l with ops := o } := ho
theorem LinkOk.nextSymbol {l : Link} (h : LinkOk l) : LinkOk l.nextSymbol.1 := h
theorem LinkOk.pushSymbol {l : Link} (h : LinkOk l) (sym : Symbol) : LinkOk (l.pushSymbol sym) := h

theorem LinkOk.append {a b : Link} (ha : LinkOk a) (hb : LinkOk b) : LinkOk (a.append b).1 := by
  unfold Link.append
  split
  · exact ha
  · dsimp only
    split
    · exact opsOk_append ha hb
    · exact opsOk_append ha hb

instance (op : Opcode) : Decidable (OpOk op) := by
  cases op <;> (unfold OpOk; exact inferInstance)

/-- the opcodes of the built-in functions have no name operand -/
theorem builtin_opOk {name : Str} {oc : Opcode} {lo hi : Nat}
    (ho : Gen.opcodeAndArity name = some (oc, lo, hi)) : OpOk oc := by
  have key : ∀ r ∈ Gen.builtinTable, OpOk r.2.1 := by decide
  unfold Gen.opcodeAndArity at ho
  obtain ⟨r, hr, hf⟩ := Option.map_eq_some_iff.1 ho
  have := key r (List.mem_of_find?_eq_some hr)
  rw [hf] at this
  exact this

theorem binOp_opOk (b : BinOp) : OpOk (Gen.opcodeOfBinOp b) := by cases b <;> trivial

end Link

namespace Codegen
open Link
variable {α β : Type}

/-- a variable item: its name is fine, an *array* (or call) name is `Letter1`, its index code is fine -/
structure VOk (v : VarItem) : Prop where
  name : NameOk v.name
  arr : ∀ n, v.argLen = some n → Letter1 v.name
  link : v.link.LinkOk

/-- the fragment under construction and everything on the three stacks is fine -/
structure NGood (g : GState) : Prop where
  cur : g.cur.LinkOk
  var : ∀ v ∈ g.var.toList, VOk v
  expr : ∀ x ∈ g.expr.toList, x.2.LinkOk
  stmt : ∀ x ∈ g.stmt.toList, x.2.LinkOk

theorem NGood.empty : NGood {} := ⟨LinkOk.empty, fun _ h => (nomatch h), fun _ h => (nomatch h), fun _ h => (nomatch h)⟩

theorem NGood.setCur {g : GState} (h : NGood g) {l : Link} (hl : l.LinkOk) : NGood { g with cur := l } :=
  ⟨hl, h.var, h.expr, h.stmt⟩

/-- `NH m Q`: `m` keeps the generator state good, and its successful results satisfy `Q` -/
structure NH (m : GM α) (Q : α → Prop) : Prop where
  run : ∀ g, NGood g → NGood (m.run.run g).2 ∧ ∀ a, (m.run.run g).1 = .ok a → Q a


theorem NH.ret {Q : α → Prop} {a : α} (h : Q a) : NH (pure a : GM α) Q :=
  ⟨fun _ hg => ⟨hg, fun b hb => by cases hb; exact h⟩⟩

theorem NH.thr {Q : α → Prop} (e : Error) : NH (throw e : GM α) Q :=
  ⟨fun _ hg => ⟨hg, fun b hb => by cases hb⟩⟩

theorem NH.lift (r : Except Error α) : NH (liftE r : GM α) T :=
  ⟨fun g hg => by rw [g_liftE]; exact ⟨hg, fun _ _ => trivial⟩⟩

theorem NH.mod {f : GState → GState} (h : ∀ g, NGood g → NGood (f g)) : NH (modify f : GM Unit) T :=
  ⟨fun g hg => ⟨h g hg, fun _ _ => trivial⟩⟩

theorem NH.weaken {Q Q' : α → Prop} {m : GM α} (h : NH m Q) (hq : ∀ a, Q a → Q' a) : NH m Q' :=
  ⟨fun g hg => ⟨(h.run g hg).1, fun a ha => hq a ((h.run g hg).2 a ha)⟩⟩

theorem NH.any {Q : α → Prop} {m : GM α} (h : NH m Q) : NH m T := h.weaken fun _ _ => trivial

theorem NH.seq {Q : α → Prop} {Q' : β → Prop} {m : GM α} {f : α → GM β}
    (hm : NH m Q) (hf : ∀ a, Q a → NH (f a) Q') : NH (m >>= f) Q' := by
  constructor
  intro g hg
  have h1 := hm.run g hg
  rw [g_bind]
  rcases h : m.run.run g with ⟨r, g'⟩
  rw [h] at h1
  cases r with
  | ok a => exact (hf a (h1.2 a rfl)).run g' h1.1
  | error e => exact ⟨h1.1, fun b hb => by cases hb⟩

theorem NH.seq_any {Q' : β → Prop} {m : GM α} {f : α → GM β}
    (hm : NH m T) (hf : ∀ a, NH (f a) Q') : NH (m >>= f) Q' :=
  NH.seq hm fun a _ => hf a

theorem NH.forLoop {γ : Type} {P : γ → Prop} (l : List γ) (init : β) (f : γ → β → GM (ForInStep β))
    (hl : ∀ a ∈ l, P a) (hf : ∀ a b, P a → NH (f a b) T) : NH (forIn l init f) T := by
  induction l generalizing init with
  | nil => exact NH.ret trivial
  | cons a as ih =>
    rw [List.forIn_cons]
    refine NH.seq_any (hf a init (hl a List.mem_cons_self)) ?_
    intro r
    cases r with
    | done b => exact NH.ret trivial
    | yield b => exact ih b (fun x hx => hl x (List.mem_cons_of_mem _ hx))

/-! ### the primitives -/

theorem nh_popExpr : NH popExpr (fun x => x.2.LinkOk) := by
  constructor
  intro g hg
  simp only [popExpr, g_bind, g_get]
  cases hb : g.expr.back? with
  | none => exact ⟨hg, fun a ha => by cases ha⟩
  | some x =>
    refine ⟨⟨hg.cur, hg.var, fun y hy => hg.expr y (mem_of_mem_pop hy), hg.stmt⟩, ?_⟩
    intro a ha
    cases ha
    exact hg.expr x (mem_of_back? hb)

theorem nh_popVar : NH popVar VOk := by
  constructor
  intro g hg
  simp only [popVar, g_bind, g_get]
  cases hb : g.var.back? with
  | none => exact ⟨hg, fun a ha => by cases ha⟩
  | some x =>
    refine ⟨⟨hg.cur, fun y hy => hg.var y (mem_of_mem_pop hy), hg.expr, hg.stmt⟩, ?_⟩
    intro a ha
    cases ha
    exact hg.var x (mem_of_back? hb)

theorem nh_popNExpr (n : Nat) : NH (popNExpr n) (fun l => ∀ x ∈ l, x.2.LinkOk) := by
  constructor
  intro g hg
  simp only [popNExpr, g_bind, g_get]
  split
  · exact ⟨hg, fun a ha => by cases ha⟩
  · refine ⟨⟨hg.cur, hg.var, fun y hy => hg.expr y (mem_of_mem_extract hy), hg.stmt⟩, ?_⟩
    intro a ha
    cases ha
    exact fun y hy => hg.expr y (mem_of_mem_extract hy)

theorem nh_popNVar (n : Nat) : NH (popNVar n) (fun l => ∀ x ∈ l, VOk x) := by
  constructor
  intro g hg
  simp only [popNVar, g_bind, g_get]
  split
  · exact ⟨hg, fun a ha => by cases ha⟩
  · refine ⟨⟨hg.cur, fun y hy => hg.var y (mem_of_mem_extract hy), hg.expr, hg.stmt⟩, ?_⟩
    intro a ha
    cases ha
    exact fun y hy => hg.var y (mem_of_mem_extract hy)

theorem nh_popNStmt (n : Nat) : NH (popNStmt n) (fun l => ∀ x ∈ l, x.2.LinkOk) := by
  constructor
  intro g hg
  simp only [popNStmt, g_bind, g_get]
  split
  · exact ⟨hg, fun a ha => by cases ha⟩
  · refine ⟨⟨hg.cur, hg.var, hg.expr, fun y hy => hg.stmt y (mem_of_mem_extract hy)⟩, ?_⟩
    intro a ha
    cases ha
    exact fun y hy => hg.stmt y (mem_of_mem_extract hy)

theorem nh_lpush (op : Opcode) (ho : OpOk op) : NH (lpush op) T := by
  constructor
  intro g hg
  simp only [lpush, g_bind, g_get, g_set, g_liftE]
  exact ⟨hg.setCur (hg.cur.push ho), fun _ _ => trivial⟩

theorem nh_lappend (f : Link) (hf : f.LinkOk) : NH (lappend f) T := by
  constructor
  intro g hg
  simp only [lappend, g_bind, g_get, g_set, g_liftE]
  exact ⟨hg.setCur (hg.cur.append hf), fun _ _ => trivial⟩

theorem nh_lnextSymbol : NH lnextSymbol T := by
  constructor
  intro g hg
  simp only [lnextSymbol, g_bind, g_get, g_set, g_pure]
  exact ⟨hg.setCur hg.cur.nextSymbol, fun _ _ => trivial⟩

theorem nh_lpushSymbol (sym : Symbol) : NH (lpushSymbol sym) T :=
  NH.mod fun _ hg => hg.setCur (hg.cur.pushSymbol sym)

theorem nh_laddUnlinked (c : Col) (sym : Symbol) : NH (laddUnlinked c sym) T :=
  NH.mod fun _ hg => hg.setCur (hg.cur.addUnlinked c sym)

theorem nh_lenVal (n : Nat) : NH (lenVal n) T := NH.lift _

/-! ### the walk through a `do` block -/

/-- the side condition of `lpush`: the opcode's name operand is fine -/
macro "opok" : tactic => `(tactic| first
  | exact trivial
  | exact binOp_opOk _
  | exact builtin_opOk (by assumption)
  | exact VOk.name (by assumption)
  | exact VOk.arr (by assumption) _ (by assumption)
  | assumption
  | exact NameOk.nil)

/-- lemmas for the actions met so far; extended by `macro_rules` -/
syntax "nh_known" : tactic
macro_rules | `(tactic| nh_known) => `(tactic| assumption)
macro_rules | `(tactic| nh_known) => `(tactic| ((with_reducible refine nh_lpush _ ?_); opok))
macro_rules | `(tactic| nh_known) => `(tactic| with_reducible exact nh_lappend _ (by first | assumption | exact VOk.link (by assumption)))
macro_rules | `(tactic| nh_known) => `(tactic| with_reducible exact nh_lpushSymbol _)
macro_rules | `(tactic| nh_known) => `(tactic| with_reducible exact nh_laddUnlinked _ _)
macro_rules | `(tactic| nh_known) => `(tactic| with_reducible exact nh_lenVal _)
macro_rules | `(tactic| nh_known) => `(tactic| with_reducible exact NH.any nh_lnextSymbol)
macro_rules | `(tactic| nh_known) => `(tactic| with_reducible exact NH.any nh_popExpr)
macro_rules | `(tactic| nh_known) => `(tactic| with_reducible exact NH.any nh_popVar)
macro_rules | `(tactic| nh_known) => `(tactic| with_reducible exact NH.any (nh_popNExpr _))
macro_rules | `(tactic| nh_known) => `(tactic| with_reducible exact NH.any (nh_popNVar _))
macro_rules | `(tactic| nh_known) => `(tactic| with_reducible exact NH.any (nh_popNStmt _))

/-- binds whose result is needed later: the postcondition goes into the context -/
syntax "nh_post" : tactic
macro_rules | `(tactic| nh_post) => `(tactic| (with_reducible refine NH.seq nh_lnextSymbol ?_; intro _ _))
macro_rules | `(tactic| nh_post) => `(tactic| (with_reducible refine NH.seq nh_popExpr ?_; intro _ _))
macro_rules | `(tactic| nh_post) => `(tactic| (with_reducible refine NH.seq nh_popVar ?_; intro _ _))
macro_rules | `(tactic| nh_post) => `(tactic| (with_reducible refine NH.seq (nh_popNExpr _) ?_; intro _ _))
macro_rules | `(tactic| nh_post) => `(tactic| (with_reducible refine NH.seq (nh_popNVar _) ?_; intro _ _))
macro_rules | `(tactic| nh_post) => `(tactic| (with_reducible refine NH.seq (nh_popNStmt _) ?_; intro _ _))

macro "nh_step" : tactic =>
  `(tactic| first
    | with_reducible exact NH.ret trivial
    | with_reducible exact NH.thr _
    | with_reducible exact NH.lift _
    | nh_known
    | nh_post
    | (with_reducible refine NH.forLoop _ _ _ (by assumption) ?_; intro _ _ _)
    | (with_reducible refine NH.forLoop (P := T) _ _ _ (fun _ _ => trivial) ?_; intro _ _ _)
    | with_reducible apply NH.seq_any
    | intro _
    | split)

macro "nh" : tactic => `(tactic| (try dsimp only
                                  repeat' nh_step))

/-! ### `Link::push_*` -/

theorem nh_pushJump (c : Col) (sym : Symbol) : NH (pushJump c sym) T := by unfold pushJump; nh
theorem nh_pushIfnot (c : Col) (sym : Symbol) : NH (pushIfnot c sym) T := by unfold pushIfnot; nh
theorem nh_pushReturnVal (c : Col) (sym : Symbol) : NH (pushReturnVal c sym) T := by unfold pushReturnVal; nh
macro_rules | `(tactic| nh_known) => `(tactic| with_reducible exact nh_pushJump _ _)
macro_rules | `(tactic| nh_known) => `(tactic| with_reducible exact nh_pushIfnot _ _)
macro_rules | `(tactic| nh_known) => `(tactic| with_reducible exact nh_pushReturnVal _ _)

theorem nh_pushGoto (c : Col) (ln : Option Nat) : NH (pushGoto c ln) T := by unfold pushGoto; nh
theorem nh_pushGosub (c : Col) (ln : Option Nat) : NH (pushGosub c ln) T := by unfold pushGosub; nh
theorem nh_pushFor (c : Col) : NH (pushFor c) T := by unfold pushFor; nh
theorem nh_pushRestore (c : Col) (ln : Option Nat) : NH (pushRestore c ln) T := by unfold pushRestore; nh
theorem nh_pushRun (c : Col) (ln : Option Nat) : NH (pushRun c ln) T := by unfold pushRun; nh
macro_rules | `(tactic| nh_known) => `(tactic| with_reducible exact nh_pushGoto _ _)
macro_rules | `(tactic| nh_known) => `(tactic| with_reducible exact nh_pushGosub _ _)
macro_rules | `(tactic| nh_known) => `(tactic| with_reducible exact nh_pushFor _)
macro_rules | `(tactic| nh_known) => `(tactic| with_reducible exact nh_pushRestore _ _)
macro_rules | `(tactic| nh_known) => `(tactic| with_reducible exact nh_pushRun _ _)

theorem nh_setWhiles (w : GState → List (Bool × Col × Nat × Symbol)) :
    NH (modify fun s => { s with cur := { s.cur with whiles := w s } } : GM Unit) T :=
  NH.mod fun g hg => hg.setCur (hg.cur.setWhiles (w g))
macro_rules | `(tactic| nh_known) => `(tactic| with_reducible exact nh_setWhiles _)

theorem nh_pushWend (c : Col) : NH (pushWend c) T := by unfold pushWend; nh
theorem nh_pushWhile (c : Col) (e : Link) (he : e.LinkOk) : NH (pushWhile c e) T := by unfold pushWhile; nh
theorem nh_pushDefFn (c : Col) (ident : Str) (vars : List Str) (e : Link) (hi : NameOk ident)
    (hv : ∀ v ∈ vars, NameOk v) (he : e.LinkOk) :
    NH (pushDefFn c ident vars e) T := by unfold pushDefFn; nh
macro_rules | `(tactic| nh_known) => `(tactic| with_reducible exact nh_pushWend _)
macro_rules | `(tactic| nh_known) => `(tactic| with_reducible exact nh_pushWhile _ _ (by assumption))
macro_rules | `(tactic| nh_known) => `(tactic| with_reducible exact nh_pushDefFn _ _ _ _ (VOk.name (by assumption)) (names_ok (by assumption)) (by assumption))

/-! ### `VarItem` -/

theorem names_ok {vars : List VarItem} (h : ∀ x ∈ vars, VOk x) : ∀ n ∈ vars.map (·.name), NameOk n := by
  intro n hn
  simp only [List.mem_map] at hn
  obtain ⟨v, hv, rfl⟩ := hn
  exact (h v hv).name


theorem nh_pushAsDim (v : VarItem) (hv : VOk v) : NH (pushAsDim v) T := by unfold pushAsDim; nh
theorem nh_pushAsPopUnary (v : VarItem) (hv : VOk v) : NH (pushAsPopUnary v) T := by unfold pushAsPopUnary; nh
theorem nh_pushAsPop (v : VarItem) (hv : VOk v) : NH (pushAsPop v) T := by unfold pushAsPop; nh
theorem nh_pushAsExpression (v : VarItem) (hv : VOk v) : NH (pushAsExpression v) T := by
  unfold pushAsExpression; nh
macro_rules | `(tactic| nh_known) => `(tactic| with_reducible exact nh_pushAsDim _ (by assumption))
macro_rules | `(tactic| nh_known) => `(tactic| with_reducible exact nh_pushAsPopUnary _ (by assumption))
macro_rules | `(tactic| nh_known) => `(tactic| with_reducible exact nh_pushAsPop _ (by assumption))
macro_rules | `(tactic| nh_known) => `(tactic| with_reducible exact nh_pushAsExpression _ (by assumption))

/-! ### `Generator` -/

theorem nh_exprPopLineNumber : NH exprPopLineNumber T := by unfold exprPopLineNumber; nh
macro_rules | `(tactic| nh_known) => `(tactic| with_reducible exact nh_exprPopLineNumber)

/-- what `genVariable` returns: a fine name, `Letter1` when it is an array -/
def NameLen (r : Col × Str × Option Nat) : Prop := NameOk r.2.1 ∧ ∀ n, r.2.2 = some n → Letter1 r.2.1

theorem nh_genVariable (v : Variable) (hv : VarOk v) : NH (genVariable v) NameLen := by
  cases v with
  | unary c i =>
    simp only [genVariable]
    exact NH.ret ⟨by simpa [VarOk] using hv, fun n h => by cases h⟩
  | array c i es =>
    have hl : Letter1 i.name := by simp only [VarOk] at hv; exact hv.1
    simp only [genVariable]
    refine NH.seq (nh_popNExpr _) (fun frags hf => ?_)
    refine NH.seq_any ?_ (fun _ => NH.ret ⟨hl.nameOk, fun _ _ => hl⟩)
    nh

theorem nh_unaryExpr (op : Opcode) (c : Col) (ho : OpOk op) : NH (unaryExpr op c) T := by unfold unaryExpr; nh
theorem nh_binaryExpr (op : Opcode) (ho : OpOk op) : NH (binaryExpr op) T := by unfold binaryExpr; nh
macro_rules | `(tactic| nh_known) => `(tactic| ((with_reducible refine nh_unaryExpr _ _ ?_); opok))
macro_rules | `(tactic| nh_known) => `(tactic| ((with_reducible refine nh_binaryExpr _ ?_); opok))

theorem nh_genExpression (e : Expr) : NH (genExpression e) T := by
  cases e <;> (simp only [genExpression]; nh)

theorem nh_defType (op : Opcode) (c : Col) (ho : OpOk op) : NH (defType op c) T := by unfold defType; nh
theorem nh_rangeStmt (op : Opcode) (c : Col) (ho : OpOk op) : NH (rangeStmt op c) T := by unfold rangeStmt; nh
theorem nh_genOn (c : Col) (len : Nat) (b : Bool) : NH (genOn c len b) T := by unfold genOn; nh
macro_rules | `(tactic| nh_known) => `(tactic| ((with_reducible refine nh_defType _ _ ?_); opok))
macro_rules | `(tactic| nh_known) => `(tactic| ((with_reducible refine nh_rangeStmt _ _ ?_); opok))
macro_rules | `(tactic| nh_known) => `(tactic| with_reducible exact nh_genOn _ _ _)

theorem opsOk_empty : OpsOk #[] := fun _ h => nomatch h

theorem linkOk_transformToData {l : Link} (h : l.LinkOk) (c : Col) : (transformToData l c).1.LinkOk := by
  unfold transformToData
  dsimp only
  repeat' split
  all_goals first | exact h | exact (h.setOps opsOk_empty) | exact (h.setOps opsOk_empty).pushData _

theorem linkOk_of_transformToData {l l' : Link} {c : Col} {r : Except Error Unit} (h : l.LinkOk)
    (e : transformToData l c = (l', r)) : l'.LinkOk := by
  have := linkOk_transformToData h c
  rw [e] at this
  exact this
macro_rules | `(tactic| nh_known) => `(tactic| with_reducible exact nh_lappend _ (linkOk_of_transformToData (by assumption) (by assumption)))
macro_rules | `(tactic| nh_known) => `(tactic| with_reducible exact nh_lappend _ (linkOk_transformToData (by assumption) _))

theorem nh_genStatement (st : Stmt) : NH (genStatement st) T := by
  cases st <;> (simp only [genStatement]; nh)
  exact nh_pushDefFn _ _ _ _ (VOk.name (by assumption)) (names_ok (by assumption)) (by assumption)

/-! ### the visitor -/

theorem runFresh_nok {m : GM α} {Q : α → Prop} (hm : NH m Q) (g : GState) (hg : NGood g) :
    (runFresh m g).2.1.LinkOk ∧ NGood (runFresh m g).2.2 := by
  have h := (hm.run { g with cur := {} } (hg.setCur LinkOk.empty)).1
  unfold runFresh
  exact ⟨h.cur, ⟨hg.cur, h.var, h.expr, h.stmt⟩⟩

theorem visitVariable_nok (v : Variable) (hv : VarOk v) (s : VState) (h : NGood s.g) :
    NGood (visitVariable v s).g := by
  have hr := runFresh_nok (nh_genVariable v hv) s.g h
  have hq := ((nh_genVariable v hv).run { s.g with cur := {} } (h.setCur LinkOk.empty)).2
  unfold visitVariable
  have hq' : ∀ a, (runFresh (genVariable v) s.g).1 = .ok a → NameLen a := hq
  generalize runFresh (genVariable v) s.g = x at hr hq'
  rcases x with ⟨r, link, g⟩
  cases r with
  | error e =>
    exact ⟨hr.2.cur, fun y hy => (mem_push_toList hy).elim (hr.2.var y)
      (fun e => e ▸ ⟨NameOk.nil, (fun _ h => nomatch h), hr.1⟩), hr.2.expr, hr.2.stmt⟩
  | ok a =>
    obtain ⟨c, name, len⟩ := a
    have := hq' _ rfl
    exact ⟨hr.2.cur, fun y hy => (mem_push_toList hy).elim (hr.2.var y)
      (fun e => e ▸ ⟨this.1, this.2, hr.1⟩), hr.2.expr, hr.2.stmt⟩

theorem visitExpression_nok (e : Expr) (s : VState) (h : NGood s.g) : NGood (visitExpression e s).g := by
  have hr := runFresh_nok (nh_genExpression e) s.g h
  unfold visitExpression
  generalize runFresh (genExpression e) s.g = x at hr
  rcases x with ⟨r, link, g⟩
  cases r <;>
    exact ⟨hr.2.cur, hr.2.var, fun y hy => (mem_push_toList hy).elim (hr.2.expr y) (fun e => e ▸ hr.1), hr.2.stmt⟩

theorem visitStatement_nok (st : Stmt) (s : VState) (h : NGood s.g) : NGood (visitStatement st s).g := by
  have hr := runFresh_nok (nh_genStatement st) s.g h
  unfold visitStatement
  generalize runFresh (genStatement st) s.g = x at hr
  rcases x with ⟨r, link, g⟩
  cases r <;>
    exact ⟨hr.2.cur, hr.2.var, hr.2.expr, fun y hy => (mem_push_toList hy).elim (hr.2.stmt y) (fun e => e ▸ hr.1)⟩

mutual
theorem acceptVar_nok : ∀ (v : Variable) (s : VState), VarOk v → NGood s.g → NGood (acceptVar v s).g
  | .unary c i, s, hv, h => by rw [acceptVar]; exact visitVariable_nok _ hv _ h
  | .array c i es, s, hv, h => by
    rw [acceptVar]
    have hes : ExprsOk es := by simp only [VarOk] at hv; exact hv.2
    exact visitVariable_nok _ hv _ (acceptExprs_nok es s hes h)
theorem acceptExpr_nok : ∀ (e : Expr) (s : VState), ExprOk e → NGood s.g → NGood (acceptExpr e s).g
  | .var v, s, he, h => by
    rw [acceptExpr]; exact visitExpression_nok _ _ (acceptVar_nok v s (by simpa only [ExprOk] using he) h)
  | .neg c e, s, he, h => by
    rw [acceptExpr]; exact visitExpression_nok _ _ (acceptExpr_nok e s (by simpa only [ExprOk] using he) h)
  | .not c e, s, he, h => by
    rw [acceptExpr]; exact visitExpression_nok _ _ (acceptExpr_nok e s (by simpa only [ExprOk] using he) h)
  | .bin op c l r, s, he, h => by
    rw [acceptExpr]
    have he' : ExprOk l ∧ ExprOk r := by simpa only [ExprOk] using he
    exact visitExpression_nok _ _ (acceptExpr_nok r _ he'.2 (acceptExpr_nok l s he'.1 h))
  | .single c b, s, _, h => by rw [acceptExpr] <;> first | exact visitExpression_nok _ _ h | nofun
  | .double c b, s, _, h => by rw [acceptExpr] <;> first | exact visitExpression_nok _ _ h | nofun
  | .integer c b, s, _, h => by rw [acceptExpr] <;> first | exact visitExpression_nok _ _ h | nofun
  | .string c b, s, _, h => by rw [acceptExpr] <;> first | exact visitExpression_nok _ _ h | nofun
theorem acceptExprs_nok : ∀ (es : List Expr) (s : VState), ExprsOk es → NGood s.g → NGood (acceptExprs es s).g
  | [], s, _, h => by rw [acceptExprs]; exact h
  | e :: es, s, hes, h => by
    rw [acceptExprs]
    have hes' : ExprOk e ∧ ExprsOk es := by simpa only [ExprsOk] using hes
    exact acceptExprs_nok es _ hes'.2 (acceptExpr_nok e s hes'.1 h)
end

theorem acceptVars_nok (vs : List Variable) (s : VState) (hvs : VarsOk vs) (h : NGood s.g) :
    NGood (acceptVars vs s).g := by
  unfold acceptVars
  induction vs generalizing s with
  | nil => exact h
  | cons v vs ih =>
    rw [List.foldl_cons]
    exact ih _ (fun x hx => hvs x (List.mem_cons_of_mem _ hx)) (acceptVar_nok v s (hvs v List.mem_cons_self) h)

/-- the local tactic of `acceptStmt_nok`: unfold the hypothesis, then thread it through the visits -/
macro "acc_stmt" h:ident : tactic => `(tactic| (
  rw [acceptStmt]
  simp only [StmtOk] at $h:ident
  refine visitStatement_nok _ _ ?_
  repeat' (first
    | assumption
    | (refine acceptExprs_nok _ _ ?_ ?_)
    | (refine acceptExpr_nok _ _ ?_ ?_)
    | (refine acceptVars_nok _ _ ?_ ?_)
    | (refine acceptVar_nok _ _ ?_ ?_)
    | exact ($h).1 | exact ($h).2.1 | exact ($h).2.2.1 | exact ($h).2.2.2 | exact ($h).2.2 | exact ($h).2)))

mutual
theorem acceptStmt_nok : ∀ (st : Stmt) (s : VState), StmtOk st → NGood s.g → NGood (acceptStmt st s).g
  | .data c es, s, hst, h => by acc_stmt hst
  | .print c es, s, hst, h => by acc_stmt hst
  | .def c v ps e, s, hst, h => by acc_stmt hst
  | .defdbl c a b, s, hst, h => by acc_stmt hst
  | .defint c a b, s, hst, h => by acc_stmt hst
  | .defsng c a b, s, hst, h => by acc_stmt hst
  | .defstr c a b, s, hst, h => by acc_stmt hst
  | .swap c a b, s, hst, h => by acc_stmt hst
  | .mid c v e1 e2 e3, s, hst, h => by acc_stmt hst
  | .for c v e1 e2 e3, s, hst, h => by acc_stmt hst
  | .gosub c e, s, hst, h => by acc_stmt hst
  | .goto c e, s, hst, h => by acc_stmt hst
  | .load c e, s, hst, h => by acc_stmt hst
  | .restore c e, s, hst, h => by acc_stmt hst
  | .run c e, s, hst, h => by acc_stmt hst
  | .save c e, s, hst, h => by acc_stmt hst
  | .while c e, s, hst, h => by acc_stmt hst
  | .if c p th el, s, hst, h => by
    rw [acceptStmt]
    simp only [StmtOk] at hst
    exact visitStatement_nok _ _ (acceptStmts_nok el _ hst.2.2 (acceptStmts_nok th _ hst.2.1 (acceptExpr_nok p s hst.1 h)))
  | .let c v e, s, hst, h => by acc_stmt hst
  | .delete c a b, s, hst, h => by acc_stmt hst
  | .list c a b, s, hst, h => by acc_stmt hst
  | .input c e1 e2 vs, s, hst, h => by acc_stmt hst
  | .onGoto c e ls, s, hst, h => by acc_stmt hst
  | .onGosub c e ls, s, hst, h => by acc_stmt hst
  | .renum c a b st, s, hst, h => by acc_stmt hst
  | .dim c vs, s, hst, h => by acc_stmt hst
  | .erase c vs, s, hst, h => by acc_stmt hst
  | .next c vs, s, hst, h => by acc_stmt hst
  | .read c vs, s, hst, h => by acc_stmt hst
  | .clear c, s, _, h => by rw [acceptStmt] <;> first | exact visitStatement_nok _ _ h | nofun
  | .cls c, s, _, h => by rw [acceptStmt] <;> first | exact visitStatement_nok _ _ h | nofun
  | .cont c, s, _, h => by rw [acceptStmt] <;> first | exact visitStatement_nok _ _ h | nofun
  | .end c, s, _, h => by rw [acceptStmt] <;> first | exact visitStatement_nok _ _ h | nofun
  | .new c, s, _, h => by rw [acceptStmt] <;> first | exact visitStatement_nok _ _ h | nofun
  | .return c, s, _, h => by rw [acceptStmt] <;> first | exact visitStatement_nok _ _ h | nofun
  | .stop c, s, _, h => by rw [acceptStmt] <;> first | exact visitStatement_nok _ _ h | nofun
  | .troff c, s, _, h => by rw [acceptStmt] <;> first | exact visitStatement_nok _ _ h | nofun
  | .tron c, s, _, h => by rw [acceptStmt] <;> first | exact visitStatement_nok _ _ h | nofun
  | .wend c, s, _, h => by rw [acceptStmt] <;> first | exact visitStatement_nok _ _ h | nofun
theorem acceptStmts_nok : ∀ (sts : List Stmt) (s : VState), StmtsOk sts → NGood s.g → NGood (acceptStmts sts s).g
  | [], s, _, h => by rw [acceptStmts]; exact h
  | st :: sts, s, hs, h => by
    rw [acceptStmts]
    have hs' : StmtOk st ∧ StmtsOk sts := by simpa only [StmtsOk] using hs
    exact acceptStmts_nok sts _ hs'.2 (acceptStmt_nok st s hs'.1 h)
end

/-- every statement fragment the generator hands to `codegen` has fine name operands -/
theorem fragments_linkOk (ast : List Stmt) (h : StmtsOk ast) :
    ∀ x ∈ (acceptStmts ast {}).g.stmt.toList, x.2.LinkOk :=
  (acceptStmts_nok ast {} h NGood.empty).stmt

theorem appendAll_linkOk (frags : List (Col × Link)) (hf : ∀ x ∈ frags, x.2.LinkOk) :
    ∀ (link : Link) (errs : List Error), link.LinkOk → (codegen.appendAll frags link errs).1.LinkOk := by
  induction frags with
  | nil => intro link errs h; rw [codegen.appendAll]; exact h
  | cons x rest ih =>
    intro link errs h
    obtain ⟨c, f⟩ := x
    rw [codegen.appendAll]
    have hx : f.LinkOk := hf (c, f) List.mem_cons_self
    have ha := h.append hx
    generalize link.append f = r at ha
    obtain ⟨l', r'⟩ := r
    cases r' with
    | ok u => exact ih (fun y hy => hf y (List.mem_cons_of_mem _ hy)) l' errs ha
    | error e => exact ha

/-- **codegen only emits name operands taken from the AST**: a fine link stays fine -/
theorem codegen_linkOk (link : Link) (ast : List Stmt) (h : StmtsOk ast) (hl : link.LinkOk) :
    (codegen link ast).1.LinkOk := by
  unfold codegen
  exact appendAll_linkOk _ (fragments_linkOk ast h) _ _ hl

end Codegen
end Basic
