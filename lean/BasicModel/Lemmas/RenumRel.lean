import BasicModel.Lemmas.Layout
/-
  RENUM and the compiler, part 1: the relations.

  `φ : Nat → Nat` is the renumbering of line numbers.  Two syntax trees are related (`StmtRel φ`)
  when they are equal up to columns and every line-number operand `n` has become `φ n`; two link
  objects are related (`FragRel φ` for the relocatable fragments the generator builds,
  `ProgLinkRel φ K` for the program under construction) when they are equal up to
    * the columns kept for diagnostics in `unlinked` / `whiles`,
    * the symbols of pending references, mapped by `symMap φ` (local labels, negative, stay),
    * the two literal operands in front of a `List` / `Delete` opcode (`OpsRel φ`),
    * (program level) the keys of the symbol table, mapped by `symMap φ`.
-/
namespace Basic
namespace RenumRel
open Link

variable (φ : Nat → Nat)

/-! ### symbols -/

/-- the renumbering on symbols: line numbers (≥ 0) are renumbered, local labels (< 0) stay -/
def symMap (s : Symbol) : Symbol := if 0 ≤ s then ((φ s.toNat : Nat) : Int) else s

theorem symMap_neg {s : Symbol} (h : s < 0) : symMap φ s = s := by
  unfold symMap; rw [if_neg (by simp only [Symbol] at *; omega)]

theorem symMap_nat (n : Nat) : symMap φ (n : Int) = ((φ n : Nat) : Int) := by
  unfold symMap; rw [if_pos (by simp only [Symbol]; omega)]; simp

theorem symMap_nonneg {s : Symbol} (h : 0 ≤ s) : 0 ≤ symMap φ s := by
  unfold symMap; rw [if_pos h]; simp only [Symbol]; omega

theorem symMap_neg_iff (s : Symbol) : symMap φ s < 0 ↔ s < 0 := by
  constructor
  · intro h
    by_cases h0 : 0 ≤ s
    · have := symMap_nonneg φ h0; simp only [Symbol] at *; omega
    · simp only [Symbol] at *; omega
  · intro h; rw [symMap_neg φ h]; exact h

theorem symMap_rebase {so : Int} (hso : so ≤ 0) (s : Symbol) :
    symMap φ (rebase so s) = rebase so (symMap φ s) := by
  unfold rebase
  by_cases hs : s < 0
  · have h1 : s + so < 0 := by simp only [Symbol] at *; omega
    rw [if_pos hs, symMap_neg φ h1, symMap_neg φ hs, if_pos hs]
  · have h0 : 0 ≤ s := by simp only [Symbol] at *; omega
    have h2 : ¬ symMap φ s < 0 := by have := symMap_nonneg φ h0; simp only [Symbol] at *; omega
    rw [if_neg hs, if_neg h2]

/-! ### code: equal up to the operands of LIST / DELETE -/

/-- the literal the generator pushes for a line-number operand of LIST / DELETE -/
def lineLit (n : Nat) : Opcode := .literal (.sng (F.b32 (Float32.ofNat n)))

/-- an operand of LIST / DELETE is renumbered, or kept (the defaults 0 / 65529 of an open range) -/
def RangeImg (a a' : Nat) : Prop := a' = φ a ∨ a' = a

/-- two code sequences that differ at most in the two line-number literals in front of a
    `List` / `Delete` opcode, where the second has the renumbered (or the same) numbers -/
inductive OpsRel : List Opcode → List Opcode → Prop
  | nil : OpsRel [] []
  | cons (op : Opcode) {xs ys : List Opcode} : OpsRel xs ys → OpsRel (op :: xs) (op :: ys)
  | range (a a' b b' : Nat) (op : Opcode) {xs ys : List Opcode} : RangeImg φ a a' → RangeImg φ b b' →
      (op = .list ∨ op = .delete) → OpsRel xs ys →
      OpsRel (lineLit a :: lineLit b :: op :: xs) (lineLit a' :: lineLit b' :: op :: ys)

variable {φ}

theorem OpsRel.refl : ∀ xs : List Opcode, OpsRel φ xs xs
  | [] => .nil
  | x :: xs => .cons x (OpsRel.refl xs)

theorem OpsRel.append {xs ys xs' ys' : List Opcode} (h : OpsRel φ xs ys) (h' : OpsRel φ xs' ys') :
    OpsRel φ (xs ++ xs') (ys ++ ys') := by
  induction h with
  | nil => exact h'
  | cons op _ ih => exact .cons op ih
  | range a a' b b' op ha hb ho _ ih => exact .range a a' b b' op ha hb ho ih

theorem OpsRel.length_eq {xs ys : List Opcode} (h : OpsRel φ xs ys) : ys.length = xs.length := by
  induction h with
  | nil => rfl
  | cons op _ ih => simp only [List.length_cons, ih]
  | range a a' b b' op ha hb ho _ ih => simp only [List.length_cons, ih]

/-- a fragment of at most two instructions is the same on both sides -/
theorem OpsRel.eq_of_short {xs ys : List Opcode} (h : OpsRel φ xs ys) (hl : xs.length ≤ 2) : ys = xs := by
  cases h with
  | nil => rfl
  | cons op h1 =>
    cases h1 with
    | nil => rfl
    | cons op2 h2 =>
      cases h2 with
      | nil => rfl
      | cons op3 h3 => simp only [List.length_cons] at hl; omega
      | range a a' b b' op ha hb ho _ => simp only [List.length_cons] at hl; omega
    | range a a' b b' op ha hb ho _ => simp only [List.length_cons] at hl; omega
  | range a a' b b' op ha hb ho _ => simp only [List.length_cons] at hl; omega

/-- position by position: the same instruction, or two line-number literals -/
theorem OpsRel.getElem? {xs ys : List Opcode} (h : OpsRel φ xs ys) (i : Nat) :
    ys[i]? = xs[i]? ∨ ∃ n n', xs[i]? = some (lineLit n) ∧ ys[i]? = some (lineLit n') := by
  induction h generalizing i with
  | nil => exact .inl rfl
  | cons op _ ih =>
    cases i with
    | zero => exact .inl rfl
    | succ i => simpa only [List.getElem?_cons_succ] using ih i
  | range a a' b b' op ha hb ho _ ih =>
    match i with
    | 0 => exact .inr ⟨a, a', rfl, rfl⟩
    | 1 => exact .inr ⟨b, b', rfl, rfl⟩
    | 2 => exact .inl rfl
    | i + 3 => simpa only [List.getElem?_cons_succ] using ih i

/-- the instructions the linker patches -/
def IsPatch : Opcode → Prop
  | .ifNot _ | .jump _ | .literal (.ret _) | .literal (.nxt _) | .restore _ => True
  | _ => False

theorem not_isPatch_lineLit (n : Nat) : ¬ IsPatch (lineLit n) := fun h => h

theorem OpsRel.getElem?_patch {xs ys : List Opcode} (h : OpsRel φ xs ys) {i : Nat} {o : Opcode}
    (hx : xs[i]? = some o) (hp : IsPatch o) : ys[i]? = some o := by
  rcases h.getElem? i with h1 | ⟨n, n', h1, _⟩
  · rw [h1, hx]
  · rw [hx] at h1; cases h1; exact absurd hp (not_isPatch_lineLit n)

theorem OpsRel.getElem?_patch' {xs ys : List Opcode} (h : OpsRel φ xs ys) {i : Nat} {o : Opcode}
    (hy : ys[i]? = some o) (hp : IsPatch o) : xs[i]? = some o := by
  rcases h.getElem? i with h1 | ⟨n, n', _, h1⟩
  · rw [← h1, hy]
  · rw [hy] at h1; cases h1; exact absurd hp (not_isPatch_lineLit n')

/-- patching the same instruction at the same address on both sides -/
theorem OpsRel.set {xs ys : List Opcode} (h : OpsRel φ xs ys) {i : Nat} {o : Opcode}
    (hx : xs[i]? = some o) (hp : IsPatch o) (op : Opcode) : OpsRel φ (xs.set i op) (ys.set i op) := by
  induction h generalizing i with
  | nil => exact .nil
  | cons op0 h0 ih =>
    cases i with
    | zero => exact .cons op h0
    | succ i => exact .cons op0 (ih (by simpa only [List.getElem?_cons_succ] using hx))
  | range a a' b b' opr ha hb ho h0 ih =>
    match i with
    | 0 => simp only [List.getElem?_cons_zero, Option.some.injEq] at hx; subst hx; exact absurd hp (not_isPatch_lineLit a)
    | 1 =>
      simp only [List.getElem?_cons_succ, List.getElem?_cons_zero, Option.some.injEq] at hx
      subst hx; exact absurd hp (not_isPatch_lineLit b)
    | 2 =>
      simp only [List.getElem?_cons_succ, List.getElem?_cons_zero, Option.some.injEq] at hx
      subst hx; rcases ho with rfl | rfl <;> exact absurd hp (fun h => h)
    | i + 3 =>
      exact .range a a' b b' opr ha hb ho (ih (by simpa only [List.getElem?_cons_succ] using hx))

theorem OpsRel.getLast? {xs ys : List Opcode} (h : OpsRel φ xs ys) : ys.getLast? = xs.getLast? := by
  induction h with
  | nil => rfl
  | cons op h0 ih =>
    cases h0 with
    | nil => rfl
    | cons op2 h2 => simpa only [List.getLast?_cons_cons] using ih
    | range a a' b b' o ha hb ho h2 => simpa only [List.getLast?_cons_cons] using ih
  | range a a' b b' op ha hb ho h0 ih =>
    cases h0 with
    | nil => rfl
    | cons op2 h2 => simpa only [List.getLast?_cons_cons] using ih
    | range a2 a2' b2 b2' o ha2 hb2 ho2 h2 => simpa only [List.getLast?_cons_cons] using ih

variable (φ)

/-! ### lists related element by element (`List.Forall₂` of Mathlib) -/

inductive All₂ {α β : Type} (R : α → β → Prop) : List α → List β → Prop
  | nil : All₂ R [] []
  | cons {a : α} {b : β} {l₁ : List α} {l₂ : List β} : R a b → All₂ R l₁ l₂ → All₂ R (a :: l₁) (b :: l₂)

theorem All₂.append {α β : Type} {R : α → β → Prop} {xs xs' : List α} {ys ys' : List β}
    (h : All₂ R xs ys) (h' : All₂ R xs' ys') : All₂ R (xs ++ xs') (ys ++ ys') := by
  induction h with
  | nil => exact h'
  | cons hab _ ih => exact .cons hab ih

theorem All₂.length_eq {α β : Type} {R : α → β → Prop} {xs : List α} {ys : List β}
    (h : All₂ R xs ys) : ys.length = xs.length := by
  induction h with
  | nil => rfl
  | cons _ _ ih => simp only [List.length_cons, ih]

theorem All₂.imp {α β : Type} {R S : α → β → Prop} (hrs : ∀ a b, R a b → S a b) {xs : List α} {ys : List β}
    (h : All₂ R xs ys) : All₂ S xs ys := by
  induction h with
  | nil => exact .nil
  | cons hab _ ih => exact .cons (hrs _ _ hab) ih

/-! ### pending references and WHILE / WEND marks -/

/-- a pending reference: same address, the symbol renumbered; the column is free -/
def UnlRel (p p' : Nat × (Col × Symbol)) : Prop := p'.1 = p.1 ∧ p'.2.2 = symMap φ p.2.2

/-- a WHILE / WEND mark: same kind, address and (local) label; the column is free -/
def WhRel (w w' : Bool × Col × Nat × Symbol) : Prop :=
  w'.1 = w.1 ∧ w'.2.2.1 = w.2.2.1 ∧ w'.2.2.2 = w.2.2.2 ∧ w.2.2.2 < 0

/-- everything of a link object but its symbol table -/
structure LinkCore (l l' : Link) : Prop where
  cur : l'.currentSymbol = l.currentSymbol
  curNeg : l.currentSymbol ≤ 0
  ops : OpsRel φ l.ops.toList l'.ops.toList
  data : l'.data = l.data
  dataPos : l'.dataPos = l.dataPos
  directSet : l'.directSet = l.directSet
  unlinked : All₂ (UnlRel φ) l.unlinked l'.unlinked
  whiles : All₂ WhRel l.whiles l'.whiles

/-- relocatable fragments: the local symbol tables are equal -/
structure FragRel (l l' : Link) : Prop extends LinkCore φ l l' where
  symbols : l'.symbols = l.symbols

variable {φ}

theorem LinkCore.size {l l' : Link} (h : LinkCore φ l l') : l'.ops.size = l.ops.size := by
  have := h.ops.length_eq
  simpa only [Array.length_toList] using this

theorem LinkCore.empty : LinkCore φ {} {} :=
  ⟨rfl, Int.le_refl 0, .nil, rfl, rfl, rfl, .nil, .nil⟩

theorem FragRel.empty : FragRel φ {} {} := ⟨LinkCore.empty, rfl⟩

theorem FragRel.size {l l' : Link} (h : FragRel φ l l') : l'.ops.size = l.ops.size := h.toLinkCore.size

/-- a fragment without pending references is related to itself -/
theorem FragRel.refl_of {l : Link} (hc : l.currentSymbol ≤ 0) (hu : l.unlinked = []) (hw : l.whiles = []) :
    FragRel φ l l :=
  ⟨⟨rfl, hc, OpsRel.refl _, rfl, rfl, rfl, by rw [hu]; exact .nil, by rw [hw]; exact .nil⟩, rfl⟩

/-! #### the primitives of `Link` -/

theorem LinkCore.push {l l' : Link} (h : LinkCore φ l l') (op : Opcode) :
    LinkCore φ (l.push op).1 (l'.push op).1 ∧ (l'.push op).2 = (l.push op).2 := by
  refine ⟨⟨h.cur, h.curNeg, ?_, h.data, h.dataPos, h.directSet, h.unlinked, h.whiles⟩, ?_⟩
  · show OpsRel φ (l.ops.push op).toList (l'.ops.push op).toList
    rw [Array.toList_push, Array.toList_push]
    exact h.ops.append (.cons op .nil)
  · show (if (l'.ops.push op).size > Gen.stackMaxLen then _ else _) = (if (l.ops.push op).size > Gen.stackMaxLen then _ else _)
    rw [Array.size_push, Array.size_push, h.size]

theorem FragRel.push {l l' : Link} (h : FragRel φ l l') (op : Opcode) :
    FragRel φ (l.push op).1 (l'.push op).1 ∧ (l'.push op).2 = (l.push op).2 :=
  ⟨⟨(h.toLinkCore.push op).1, h.symbols⟩, (h.toLinkCore.push op).2⟩

theorem LinkCore.pushData {l l' : Link} (h : LinkCore φ l l') (v : Val) :
    LinkCore φ (l.pushData v).1 (l'.pushData v).1 ∧ (l'.pushData v).2 = (l.pushData v).2 := by
  refine ⟨⟨h.cur, h.curNeg, h.ops, ?_, h.dataPos, h.directSet, h.unlinked, h.whiles⟩, ?_⟩
  · show l'.data.push v = l.data.push v
    rw [h.data]
  · show (if (l'.data.push v).size > Gen.stackMaxLen then _ else _) = (if (l.data.push v).size > Gen.stackMaxLen then _ else _)
    rw [h.data]

theorem FragRel.pushData {l l' : Link} (h : FragRel φ l l') (v : Val) :
    FragRel φ (l.pushData v).1 (l'.pushData v).1 ∧ (l'.pushData v).2 = (l.pushData v).2 :=
  ⟨⟨(h.toLinkCore.pushData v).1, h.symbols⟩, (h.toLinkCore.pushData v).2⟩

theorem FragRel.pushSymbol {l l' : Link} (h : FragRel φ l l') (sym : Symbol) :
    FragRel φ (l.pushSymbol sym) (l'.pushSymbol sym) := by
  refine ⟨⟨h.cur, h.curNeg, h.ops, h.data, h.dataPos, h.directSet, h.unlinked, h.whiles⟩, ?_⟩
  show symInsert sym (l'.ops.size, l'.data.size) l'.symbols = symInsert sym (l.ops.size, l.data.size) l.symbols
  rw [h.size, h.data, h.symbols]

theorem FragRel.nextSymbol {l l' : Link} (h : FragRel φ l l') :
    FragRel φ l.nextSymbol.1 l'.nextSymbol.1 ∧ l'.nextSymbol.2 = l.nextSymbol.2 ∧ l.nextSymbol.2 < 0 := by
  have hc := h.curNeg
  refine ⟨⟨⟨?_, ?_, h.ops, h.data, h.dataPos, h.directSet, h.unlinked, h.whiles⟩, h.symbols⟩, ?_, ?_⟩
  · show l'.currentSymbol - 1 = l.currentSymbol - 1
    rw [h.cur]
  · show l.currentSymbol - 1 ≤ 0
    simp only [Symbol] at *; omega
  · show l'.currentSymbol - 1 = l.currentSymbol - 1
    rw [h.cur]
  · show l.currentSymbol - 1 < 0
    simp only [Symbol] at *; omega

theorem forall₂_filter {α β : Type} {R : α → β → Prop} {p : α → Bool} {q : β → Bool}
    (hpq : ∀ a b, R a b → p a = q b) : ∀ {xs : List α} {ys : List β}, All₂ R xs ys →
    All₂ R (xs.filter p) (ys.filter q)
  | _, _, .nil => .nil
  | _, _, .cons (a := a) (b := b) hab h => by
    rw [List.filter_cons, List.filter_cons, hpq a b hab]
    split
    · exact .cons hab (forall₂_filter hpq h)
    · exact forall₂_filter hpq h

theorem unlInsert_rel {k : Nat} {v v' : Col × Symbol} (hv : v'.2 = symMap φ v.2)
    {m m' : List (Nat × (Col × Symbol))} (h : All₂ (UnlRel φ) m m') :
    All₂ (UnlRel φ) (unlInsert k v m) (unlInsert k v' m') := by
  unfold unlInsert
  refine .cons ⟨rfl, hv⟩ (forall₂_filter ?_ h)
  intro a b hab
  rw [hab.1]

theorem LinkCore.addUnlinked {l l' : Link} (h : LinkCore φ l l') (c c' : Col) {sym sym' : Symbol}
    (hs : sym' = symMap φ sym) : LinkCore φ (l.addUnlinked c sym) (l'.addUnlinked c' sym') := by
  refine ⟨h.cur, h.curNeg, h.ops, h.data, h.dataPos, h.directSet, ?_, h.whiles⟩
  show All₂ (UnlRel φ) (unlInsert l.ops.size (c, sym) l.unlinked) (unlInsert l'.ops.size (c', sym') l'.unlinked)
  rw [h.size]
  exact unlInsert_rel hs h.unlinked

theorem FragRel.addUnlinked {l l' : Link} (h : FragRel φ l l') (c c' : Col) {sym sym' : Symbol}
    (hs : sym' = symMap φ sym) : FragRel φ (l.addUnlinked c sym) (l'.addUnlinked c' sym') :=
  ⟨h.toLinkCore.addUnlinked c c' hs, h.symbols⟩

theorem LinkCore.addWhile {l l' : Link} (h : LinkCore φ l l') (k : Bool) (c c' : Col) {sym : Symbol} (hs : sym < 0) :
    LinkCore φ { l with whiles := l.whiles ++ [(k, c, l.ops.size, sym)] }
      { l' with whiles := l'.whiles ++ [(k, c', l'.ops.size, sym)] } := by
  refine ⟨h.cur, h.curNeg, h.ops, h.data, h.dataPos, h.directSet, h.unlinked, ?_⟩
  show All₂ WhRel (l.whiles ++ [(k, c, l.ops.size, sym)]) (l'.whiles ++ [(k, c', l'.ops.size, sym)])
  rw [h.size]
  exact All₂.append h.whiles (.cons ⟨rfl, rfl, rfl, hs⟩ .nil)

/-! #### `append` -/

theorem foldr_unlInsert_rel {so : Int} (hso : so ≤ 0) (oo : Nat) {u u' m m' : List (Nat × (Col × Symbol))}
    (hu : All₂ (UnlRel φ) u u') (hm : All₂ (UnlRel φ) m m') :
    All₂ (UnlRel φ) (u.foldr (fun p m => unlInsert (p.1 + oo) (p.2.1, rebase so p.2.2) m) m)
      (u'.foldr (fun p m => unlInsert (p.1 + oo) (p.2.1, rebase so p.2.2) m) m') := by
  induction hu with
  | nil => exact hm
  | cons hpq _ ih =>
    simp only [List.foldr_cons]
    rw [hpq.1]
    refine unlInsert_rel ?_ ih
    show rebase so _ = symMap φ (rebase so _)
    rw [hpq.2, symMap_rebase φ hso]

theorem appendUnlinked_rel {a a' b b' : Link} (ha : LinkCore φ a a') (hb : LinkCore φ b b') :
    All₂ (UnlRel φ) (appendUnlinked a b) (appendUnlinked a' b') := by
  unfold appendUnlinked
  rw [ha.size, ha.cur]
  exact foldr_unlInsert_rel ha.curNeg _ hb.unlinked ha.unlinked

theorem map_while_rel {so : Int} (hso : so ≤ 0) (oo : Nat) {w w' : List (Bool × Col × Nat × Symbol)}
    (hw : All₂ WhRel w w') :
    All₂ WhRel (w.map (fun p => (p.1, p.2.1, p.2.2.1 + oo, p.2.2.2 + so)))
      (w'.map (fun p => (p.1, p.2.1, p.2.2.1 + oo, p.2.2.2 + so))) := by
  induction hw with
  | nil => exact .nil
  | cons hpq _ ih =>
    simp only [List.map_cons]
    refine .cons ⟨hpq.1, ?_, ?_, ?_⟩ ih
    · show _ + _ = _ + _
      rw [hpq.2.1]
    · show _ + _ = _ + _
      rw [hpq.2.2.1]
    · have := hpq.2.2.2
      show _ + _ < 0
      simp only [Symbol] at *; omega

theorem appendWhiles_rel {a a' b b' : Link} (ha : LinkCore φ a a') (hb : LinkCore φ b b') :
    All₂ WhRel (appendWhiles a b) (appendWhiles a' b') := by
  unfold appendWhiles
  rw [ha.size, ha.cur]
  exact All₂.append ha.whiles (map_while_rel ha.curNeg _ hb.whiles)

/-- the link object after `append` (when `append` reports an overflow of the code the data is not
    appended); related fragments give related results -/
theorem LinkCore.appended {a a' b b' : Link} (ha : LinkCore φ a a') (hb : LinkCore φ b b') :
    LinkCore φ (Link.appended a b) (Link.appended a' b') := by
  have h1 := ha.curNeg
  have h2 := hb.curNeg
  refine ⟨?_, ?_, ?_, ?_, ha.dataPos, ha.directSet, appendUnlinked_rel ha hb, appendWhiles_rel ha hb⟩
  · show a'.currentSymbol + b'.currentSymbol = a.currentSymbol + b.currentSymbol
    rw [ha.cur, hb.cur]
  · show a.currentSymbol + b.currentSymbol ≤ 0
    simp only [Symbol] at *; omega
  · show OpsRel φ (a.ops ++ b.ops).toList (a'.ops ++ b'.ops).toList
    rw [Array.toList_append, Array.toList_append]
    exact ha.ops.append hb.ops
  · show a'.data ++ b'.data = a.data ++ b.data
    rw [ha.data, hb.data]

theorem LinkCore.appended_noData {a a' b b' : Link} (ha : LinkCore φ a a') (hb : LinkCore φ b b') :
    LinkCore φ { Link.appended a b with data := a.data } { Link.appended a' b' with data := a'.data } := by
  have h := ha.appended hb
  exact ⟨h.cur, h.curNeg, h.ops, ha.data, h.dataPos, h.directSet, h.unlinked, h.whiles⟩

theorem appendSymbols_frag {a a' b b' : Link} (ha : FragRel φ a a') (hb : FragRel φ b b') :
    appendSymbols a' b' = appendSymbols a b := by
  unfold appendSymbols
  rw [ha.symbols, hb.symbols, ha.cur, ha.size, ha.data]

/-- `append` on related fragments: same outcome, related results -/
theorem FragRel.append {a a' b b' : Link} (ha : FragRel φ a a') (hb : FragRel φ b b') :
    FragRel φ (a.append b).1 (a'.append b').1 ∧ (a'.append b').2 = (a.append b).2 := by
  have e1 : (a'.directSet && !b'.data.isEmpty) = (a.directSet && !b.data.isEmpty) := by rw [ha.directSet, hb.data]
  have e2 : a'.ops.size + b'.ops.size = a.ops.size + b.ops.size := by rw [ha.size, hb.size]
  have e3 : a'.data.size + b'.data.size = a.data.size + b.data.size := by rw [ha.data, hb.data]
  rw [append_eq a' b', append_eq a b, e1, e2, e3]
  split
  · exact ⟨ha, rfl⟩
  · split
    · exact ⟨⟨ha.toLinkCore.appended_noData hb.toLinkCore, appendSymbols_frag ha hb⟩, rfl⟩
    · exact ⟨⟨ha.toLinkCore.appended hb.toLinkCore, appendSymbols_frag ha hb⟩, rfl⟩

end RenumRel
end Basic
