import BasicModel.Model.Renum
/-
  `RenumVisitor` characterised: the replacements it collects are the line-number operands of the
  AST that are keys of the change map; plus two parser facts that evaluate in the kernel.
-/
namespace Basic
namespace Lex

/-- the line-number operands a line refers to (column and number), in visiting order, whatever
    the change map: what `RenumVisitor::line` is called with and accepts -/
def operandOf (e : Expr) : List (Col × Nat) :=
  match lineOperand e with
  | some (c, n) => if c.1 = c.2 then [] else [(c, n)]
  | none => []

mutual
def operandsStmt : Stmt → List (Col × Nat)
  | .goto _ e | .gosub _ e | .restore _ e | .run _ e => operandOf e
  | .delete _ a b | .list _ a b => operandOf a ++ operandOf b
  | .onGoto _ _ ls | .onGosub _ _ ls => ls.flatMap operandOf
  | .if _ _ th el => operandsStmts th ++ operandsStmts el
  | _ => []
def operandsStmts : List Stmt → List (Col × Nat)
  | [] => []
  | st :: sts => operandsStmt st ++ operandsStmts sts
end

/-- rewrite one operand -/
def rewrite (changes : List (Nat × Nat)) (r : Col × Nat) : Option (Col × Nat) :=
  (changes.lookup r.2).map fun new => (r.1, new)

theorem lineRef_eq (changes : List (Nat × Nat)) (e : Expr) :
    lineRef changes e = (operandOf e).filterMap (rewrite changes) := by
  unfold lineRef operandOf
  cases lineOperand e with
  | none => rfl
  | some p =>
    obtain ⟨c, n⟩ := p
    simp only
    split
    · rfl
    · simp only [List.filterMap_cons, List.filterMap_nil, rewrite]
      cases changes.lookup n <;> rfl

theorem flatMap_lineRef (changes : List (Nat × Nat)) (ls : List Expr) :
    ls.flatMap (lineRef changes) = (ls.flatMap operandOf).filterMap (rewrite changes) := by
  induction ls with
  | nil => rfl
  | cons e ls ih => simp [List.flatMap_cons, List.filterMap_append, lineRef_eq, ih]

mutual
theorem visitStmt_eq (changes : List (Nat × Nat)) : ∀ st : Stmt,
    visitStmt changes st = (operandsStmt st).filterMap (rewrite changes)
  | .goto _ e | .gosub _ e | .restore _ e | .run _ e => by
    simp [visitStmt, operandsStmt, lineRef_eq]
  | .delete _ a b | .list _ a b => by
    simp [visitStmt, operandsStmt, lineRef_eq, List.filterMap_append]
  | .onGoto _ _ ls | .onGosub _ _ ls => by
    simp [visitStmt, operandsStmt, flatMap_lineRef]
  | .if _ _ th el => by
    simp [visitStmt, operandsStmt, List.filterMap_append, visitStmts_eq changes th, visitStmts_eq changes el]
  | .clear _ | .cls _ | .cont _ | .data _ _ | .def _ _ _ _ | .defdbl _ _ _ | .defint _ _ _
  | .defsng _ _ _ | .defstr _ _ _ | .dim _ _ | .end _ | .erase _ _ | .for _ _ _ _ _
  | .input _ _ _ _ | .let _ _ _ | .load _ _ | .mid _ _ _ _ _ | .new _ | .next _ _
  | .print _ _ | .read _ _ | .renum _ _ _ _ | .return _ | .save _ _ | .stop _ | .swap _ _ _
  | .troff _ | .tron _ | .wend _ | .while _ _ => by simp [visitStmt, operandsStmt]
theorem visitStmts_eq (changes : List (Nat × Nat)) : ∀ sts : List Stmt,
    visitStmts changes sts = (operandsStmts sts).filterMap (rewrite changes)
  | [] => by simp [visitStmts, operandsStmts]
  | st :: sts => by
    simp [visitStmts, operandsStmts, List.filterMap_append, visitStmt_eq changes st, visitStmts_eq changes sts]
end

/-- two parses that can be evaluated in the kernel (the parser model as a whole cannot: it stores
    line numbers through the opaque `Float32.ofNat`), used for the non-vacuity examples -/
theorem parse_empty (n : Option Nat) : Parse.parse n [] = .ok [] := by
  simp [Parse.parse, Parse.parseTokens, Parse.fuelFor, Parse.statements, Parse.peek, Parse.next,
    Parse.nextLoop, StateT.run, bind, StateT.bind, Except.bind, get, getThe, MonadStateOf.get, StateT.get,
    pure, StateT.pure, Except.pure, set, StateT.set, modify, modifyGet, MonadStateOf.modifyGet, StateT.modifyGet,
    Except.map]

theorem parse_number_first (n : Option Nat) :
    ∃ e, Parse.parse n [.literal (.integer ['1'])] = .error e := ⟨_, rfl⟩

end Lex
end Basic
