import BasicModel.Lemmas.Codegen
/-
  The exact code emitted by two generator functions: `pushDefFn` (DEF FN) and `genOn` (ON … GOSUB).
-/
namespace Basic
namespace Codegen
open Link

set_option linter.unusedSimpArgs false

/-! ### DEF FN -/

/-- the link `pushDefFn` builds -/
def defFnLink (l : Link) (c : Col) (ident : Str) (vars : List Str) (body : Link) : Link :=
  (((appended
      (((((l.push (.literal (.int (Int16.ofNat vars.length)))).1.push (.def ident)).1.nextSymbol.1.addUnlinked c
          (l.currentSymbol - 1)).push (.jump 0)).1.pushOps (vars.map Opcode.pop).toArray)
      body).push .return).1).pushSymbol (l.currentSymbol - 1)

theorem pushDefFn_run (g : GState) (c : Col) (ident : Str) (vars : List Str) (body : Link)
    (hd : g.cur.directSet = false) (hv : vars.length ≤ 32767)
    (ho : g.cur.ops.size + 3 + vars.length + body.ops.size + 1 ≤ Gen.stackMaxLen)
    (hdd : g.cur.data.size + body.data.size ≤ Gen.stackMaxLen) :
    ((pushDefFn c ident vars body).run).run g = (.ok (), withCur g (defFnLink g.cur c ident vars body)) := by
  unfold pushDefFn pushJump
  rw [grun_bind, grun_lenVal _ _ hv]; simp only [withCur_cur, withCur_withCur]
  rw [grun_bind, lpush_run _ _ (by omega)]; simp only [withCur_cur, withCur_withCur]
  rw [grun_bind, lpush_run _ _ (by simp; omega)]; simp only [withCur_cur, withCur_withCur]
  rw [grun_bind, lnextSymbol_run]; simp only [withCur_cur, withCur_withCur]
  rw [grun_bind, grun_bind, laddUnlinked_run]; simp only [withCur_cur, withCur_withCur]
  rw [lpush_run _ _ (by simp; omega)]; simp only [withCur_cur, withCur_withCur]
  rw [grun_bind, forIn_lpush_run vars Opcode.pop _ (by simp; omega)]; simp only [withCur_cur, withCur_withCur]
  rw [grun_bind, lappend_run _ _ (by simp [hd]) (by simp; omega) (by simp; omega)]; simp only [withCur_cur, withCur_withCur]
  rw [grun_bind, lpush_run _ _ (by simp; omega)]; simp only [withCur_cur, withCur_withCur]
  rw [lpushSymbol_run]
  simp only [withCur_cur, withCur_withCur, push_currentSymbol]
  rfl

theorem defFnLink_ops (l : Link) (c : Col) (ident : Str) (vars : List Str) (body : Link) :
    (defFnLink l c ident vars body).ops =
      l.ops ++ #[.literal (.int (Int16.ofNat vars.length)), .def ident, .jump 0] ++ (vars.map Opcode.pop).toArray
        ++ body.ops ++ #[.return] := by
  unfold defFnLink
  simp

theorem defFnLink_data (l : Link) (c : Col) (ident : Str) (vars : List Str) (body : Link) :
    (defFnLink l c ident vars body).data = l.data ++ body.data := by
  unfold defFnLink
  simp

/-- the `jump` (third op) refers to the label defined right after the final `return`: DEF skips the body -/
theorem defFnLink_skip (l : Link) (c : Col) (ident : Str) (vars : List Str) (body : Link) :
    (defFnLink l c ident vars body).unlinked.lookup (l.ops.size + 2) = some (c, l.currentSymbol - 1) ∧
    (defFnLink l c ident vars body).symbols.lookup (l.currentSymbol - 1) =
      some ((defFnLink l c ident vars body).ops.size, l.data.size + body.data.size) := by
  constructor
  · unfold defFnLink
    simp only [pushSymbol_unlinked, push_unlinked, appended_unlinked]
    rw [appendUnlinked_lookup_left _ _ _ (by simp)]
    simp only [pushOps_unlinked, push_unlinked, addUnlinked_unlinked, nextSymbol_ops, push_ops, Array.size_push,
      unlInsert_lookup, if_true]
  · rw [defFnLink_ops]
    unfold defFnLink
    simp only [pushSymbol_symbols, symInsert_lookup, if_true]
    simp

/-! ### ON … GOSUB / GOTO -/

def withExpr (g : GState) (e : Array (Col × Link)) : GState := { g with expr := e }
@[simp] theorem withExpr_cur (g : GState) (e : Array (Col × Link)) : (withExpr g e).cur = g.cur := rfl
@[simp] theorem withExpr_expr (g : GState) (e : Array (Col × Link)) : (withExpr g e).expr = e := rfl
@[simp] theorem withExpr_withExpr (g : GState) (e e' : Array (Col × Link)) :
    withExpr (withExpr g e) e' = withExpr g e' := rfl

theorem popNExpr_run (g : GState) (pre : Array (Col × Link)) (frags : List (Col × Link))
    (h : g.expr = pre ++ frags.toArray) :
    ((popNExpr frags.length).run).run g = (.ok frags, withExpr g pre) := by
  unfold popNExpr
  have h1 : ¬ (frags.length > (pre ++ frags.toArray).size) := by simp
  simp only [grun_bind, grun_get, h, h1, if_false, grun_set, grun_pure, withExpr]
  simp

theorem popExpr_run (g : GState) (pre : Array (Col × Link)) (x : Col × Link) (h : g.expr = pre.push x) :
    (popExpr.run).run g = (.ok x, withExpr g pre) := by
  unfold popExpr
  simp only [grun_bind, grun_get, h, Array.back?_push, grun_set, grun_pure, Array.pop_push, withExpr]

/-- `l'` is `l` plus `k` unresolved jumps: nothing else changed, earlier references untouched -/
structure JumpsAdded (l l' : Link) (k : Nat) : Prop where
  ops : l'.ops = l.ops ++ Array.replicate k (.jump 0)
  symbols : l'.symbols = l.symbols
  data : l'.data = l.data
  currentSymbol : l'.currentSymbol = l.currentSymbol
  directSet : l'.directSet = l.directSet
  unlinked : ∀ x, x < l.ops.size → l'.unlinked.lookup x = l.unlinked.lookup x

theorem JumpsAdded.refl (l : Link) : JumpsAdded l l 0 :=
  ⟨by simp, rfl, rfl, rfl, rfl, fun _ _ => rfl⟩

theorem JumpsAdded.trans {l l' l'' : Link} {j k : Nat} (h1 : JumpsAdded l l' j) (h2 : JumpsAdded l' l'' k) :
    JumpsAdded l l'' (j + k) := by
  refine ⟨?_, h2.symbols.trans h1.symbols, h2.data.trans h1.data, h2.currentSymbol.trans h1.currentSymbol,
    h2.directSet.trans h1.directSet, ?_⟩
  · rw [h2.ops, h1.ops, Array.append_assoc]
    congr 1
    apply Array.ext'; simp
  · intro x hx
    rw [h2.unlinked x (by rw [h1.ops]; simp; omega), h1.unlinked x hx]

theorem pushGoto_run (c : Col) (n : Nat) (g : GState) (h : g.cur.ops.size + 1 ≤ Gen.stackMaxLen) :
    ((pushGoto c (some n)).run).run g = (.ok (), withCur g ((g.cur.addUnlinked c n).push (.jump 0)).1) := by
  unfold pushGoto
  simp only [grun_bind, Link.symbolForLineNumber, grun_liftE, laddUnlinked_run]
  rw [lpush_run _ _ (by simpa using h)]
  simp only [withCur_cur, withCur_withCur]

theorem pushGoto_jumpsAdded (l : Link) (c : Col) (n : Nat) :
    JumpsAdded l ((l.addUnlinked c n).push (.jump 0)).1 1 := by
  refine ⟨?_, rfl, rfl, rfl, rfl, ?_⟩
  · simp only [push_ops, addUnlinked_ops]
    apply Array.ext'; simp
  · intro x hx
    simp only [push_unlinked, addUnlinked_unlinked, unlInsert_lookup]
    rw [if_neg (by omega)]

/-- the link after the jump table: one unresolved `jump` per listed line number -/
def jumpsLink (l : Link) : List (Col × Link) → Link
  | [] => l
  | x :: rest =>
    match lineNumberOfLink x.2 with
    | .ok (some n) => jumpsLink ((l.addUnlinked x.1 n).push (.jump 0)).1 rest
    | _ => l

def lastColEnd (init : Nat) : List (Col × Link) → Nat
  | [] => init
  | x :: rest => lastColEnd x.1.2 rest

theorem jumpsLink_jumpsAdded (frags : List (Col × Link)) (l : Link)
    (hfrag : ∀ x ∈ frags, ∃ n, lineNumberOfLink x.2 = .ok (some n)) :
    JumpsAdded l (jumpsLink l frags) frags.length := by
  induction frags generalizing l with
  | nil => exact JumpsAdded.refl _
  | cons hd tl ih =>
    obtain ⟨n, hn⟩ := hfrag hd List.mem_cons_self
    simp only [jumpsLink, hn, List.length_cons]
    have := JumpsAdded.trans (pushGoto_jumpsAdded l hd.1 n) (ih _ (fun x hx => hfrag x (List.mem_cons_of_mem _ hx)))
    rw [Nat.add_comm] at this
    exact this

theorem forIn_jumps_run (frags : List (Col × Link)) (f : Col × Link → Nat → GM (ForInStep Nat))
    (hfrag : ∀ x ∈ frags, ∃ n, lineNumberOfLink x.2 = .ok (some n))
    (hf : ∀ (x : Col × Link) (n : Nat) (s : Nat) (g : GState), lineNumberOfLink x.2 = .ok (some n) →
      g.cur.ops.size + 1 ≤ Gen.stackMaxLen →
      ((f x s).run).run g = (.ok (.yield x.1.2), withCur g ((g.cur.addUnlinked x.1 n).push (.jump 0)).1))
    (g : GState) (init : Nat) (hb : g.cur.ops.size + frags.length ≤ Gen.stackMaxLen) :
    ((forIn frags init f).run).run g = (.ok (lastColEnd init frags), withCur g (jumpsLink g.cur frags)) := by
  induction frags generalizing g init with
  | nil => rfl
  | cons hd tl ih =>
    obtain ⟨n, hn⟩ := hfrag hd List.mem_cons_self
    simp only [List.length_cons] at hb
    rw [List.forIn_cons, grun_bind, hf hd n init g hn (by omega)]
    simp only
    rw [ih (fun x hx => hfrag x (List.mem_cons_of_mem _ hx)) _ hd.1.2 (by simp; omega)]
    simp only [withCur_withCur, withCur_cur, jumpsLink, hn, lastColEnd]

/-- `ON x GOSUB n₁,…,nₖ` on a fresh fragment, with the `k` line-number fragments and the selector
    fragment on the expression stack: the emitted code is
    `ret ↦L, k, ⟨selector⟩, on, jump n₁, …, jump nₖ, return, L:` -/
theorem genOn_gosub_run (g : GState) (c : Col) (pre : Array (Col × Link)) (subCol : Col) (varOps : Link)
    (frags : List (Col × Link))
    (hexpr : g.expr = (pre.push (subCol, varOps)) ++ frags.toArray) (hcur : g.cur = {})
    (hlen : frags.length ≤ 32767)
    (hfrag : ∀ x ∈ frags, ∃ n, lineNumberOfLink x.2 = .ok (some n))
    (ho : 2 + varOps.ops.size + 1 + frags.length + 1 ≤ Gen.stackMaxLen)
    (hdd : varOps.data.size ≤ Gen.stackMaxLen) :
    ∃ col l', ((genOn c frags.length true).run).run g = (.ok col, withCur (withExpr g pre) l') ∧
      l'.ops = #[.literal (.ret 0), .literal (.int (Int16.ofNat frags.length))] ++ varOps.ops ++ #[.on]
                ++ Array.replicate frags.length (.jump 0) ++ #[.return] ∧
      l'.unlinked.lookup 0 = some (c, -1) ∧
      l'.symbols.lookup (-1) = some (l'.ops.size, varOps.data.size) := by
  unfold genOn pushReturnVal
  rw [grun_bind, popNExpr_run g _ frags hexpr]; simp only
  rw [grun_bind, grun_lenVal _ _ hlen]; simp only
  rw [grun_bind, popExpr_run _ pre (subCol, varOps) (by simp)]; simp only [withExpr_withExpr]
  have e0 : ({} : Link).currentSymbol - 1 = (-1 : Symbol) := rfl
  rw [grun_bind, lnextSymbol_run]; simp only [withExpr_cur, hcur, e0]
  simp only [if_true]
  rw [grun_bind, grun_bind, laddUnlinked_run]; simp only [withCur_cur, withCur_withCur]
  rw [lpush_run _ _ (by simp; decide)]; simp only [withCur_cur, withCur_withCur]
  rw [grun_bind, lpush_run _ _ (by simp; decide)]; simp only [withCur_cur, withCur_withCur]
  rw [grun_bind, lappend_run _ _ (by simp) (by simp; omega) (by simp; omega)]; simp only [withCur_cur, withCur_withCur]
  rw [grun_bind, lpush_run _ _ (by simp; omega)]; simp only [withCur_cur, withCur_withCur]
  rw [grun_bind, forIn_jumps_run frags _ hfrag]
  rotate_left
  · intro x n s g' hn hb
    obtain ⟨col, ops⟩ := x
    simp only at hn
    simp only [hn, grun_bind, pushGoto_run col n g' hb, grun_pure]
  · simp; omega
  simp only [withCur_cur, withCur_withCur]
  have hj := jumpsLink_jumpsAdded frags
    (((appended ((((({} : Link).nextSymbol.1.addUnlinked c (-1)).push
      (.literal (.ret 0))).1.push (.literal (.int (Int16.ofNat frags.length)))).1) varOps).push .on).1) hfrag
  rw [grun_bind, lpush_run _ _ (by simp [hj.ops]; omega)]; simp only [withCur_cur, withCur_withCur]
  rw [grun_bind, lpushSymbol_run]; simp only [withCur_cur, withCur_withCur, grun_pure]
  refine ⟨_, _, rfl, ?_, ?_, ?_⟩
  · simp only [pushSymbol_ops, push_ops, hj.ops]
    apply Array.ext'; simp
  · simp only [pushSymbol_unlinked, push_unlinked]
    rw [hj.unlinked 0 (by simp; omega)]
    simp only [push_unlinked, appended_unlinked]
    rw [appendUnlinked_lookup_left _ _ _ (by simp)]
    simp only [push_unlinked, addUnlinked_unlinked, nextSymbol_ops, unlInsert_lookup]
    rfl
  · simp only [pushSymbol_symbols, symInsert_lookup, pushSymbol_ops, push_ops, push_data, hj.data]
    simp

end Codegen
end Basic
