import BasicModel.Lemmas.NoFaultSession
import BasicModel.Lemmas.VarPool
/-
  The invariant of the variable store (`Thm.C06.WF`: every entry typed and NOT A DEFAULT VALUE, keys
  distinct, at most 65 536 entries) is an invariant of the virtual machine and of the session
  protocol (C18, chain 2).

  `VarsWF s t` — "if the store of `s` is well-formed so is the store of `t`" — is a frame relation;
  every helper, every instruction (`execOp_varsWF`), `step`, a slice, `execute`, `enter`,
  `interrupt` and `set_listing` satisfy it, whether they succeed, fail or return an event.
-/
namespace Basic
namespace Runtime
variable {α β : Type}
open Thm.C06

/-- the store of `t` is well-formed if the store of `s` is -/
def VarsWF (s t : Runtime) : Prop := WF s.vars → WF t.vars

instance : FrameRel VarsWF where
  refl _ := fun h => h
  trans h1 h2 := fun h => h2 (h1 h)

theorem varsWF_of_eq {s t : Runtime} (h : t.vars = s.vars) : VarsWF s t := fun hw => h ▸ hw

theorem varsWF_of_wf {s t : Runtime} (h : WF t.vars) : VarsWF s t := fun _ => h

theorem doEnd_vars (s : Runtime) : (doEnd s).vars = s.vars := by
  unfold doEnd; dsimp only
  split <;> split <;> rfl

theorem varsWF_doEnd (s : Runtime) : VarsWF s (doEnd s) := varsWF_of_eq (doEnd_vars s)
theorem varsWF_doClear (env : Env) (s : Runtime) : VarsWF s (doClear env s) := varsWF_of_wf wf_new
theorem varsWF_doNew (env : Env) (s : Runtime) : VarsWF s (doNew env s) := varsWF_of_wf wf_new

theorem wf_of_storeArray_eq {v vars : Var} {n : Str} {arr : List Val} {x : Val} {r : Res Unit}
    (heq : v.storeArray n arr x = (vars, r)) (h : WF v) : WF vars := by
  have := wf_storeArray h n arr x
  rw [heq] at this
  exact this

theorem wf_of_fetchArray_eq {v vars : Var} {n : Str} {arr : List Val} {r : Res Val}
    (heq : v.fetchArray n arr = (vars, r)) (h : WF v) : WF vars := by
  have := (wf_fetchArray h n arr).1
  rw [heq] at this
  exact this

/-- the walk sets a state whose store is the result of a store operation on the store just read -/
theorem FrameFrom.mod_vars {s₀ : Runtime} {v : Var} (h : WF s₀.vars → WF v) :
    FrameFrom VarsWF s₀ (modify fun s => { s with vars := v } : RM Unit) :=
  ⟨fun _ _ hw => h hw⟩

/-- closes `VarsWF s t` when `t` is `s` with fields other than `vars` replaced -/
macro "varswf" : tactic => `(tactic| exact fun h => h)

macro_rules | `(tactic| frame_rel) => `(tactic| varswf)
macro_rules | `(tactic| frame_rel) => `(tactic| exact varsWF_doClear _ _)
macro_rules | `(tactic| frame_rel) => `(tactic| exact varsWF_doEnd _)
macro_rules | `(tactic| frame_rel) => `(tactic| exact varsWF_doNew _ _)
macro_rules | `(tactic| frame_rel) => `(tactic| exact fun h => wf_store h (by assumption))
macro_rules | `(tactic| frame_rel) => `(tactic| exact fun h => wf_dimensionArray h (by assumption))
macro_rules | `(tactic| frame_rel) => `(tactic| exact fun h => wf_eraseArray h (by assumption))
macro_rules | `(tactic| frame_rel) => `(tactic| exact fun h => wf_defTy h (by assumption))
macro_rules | `(tactic| frame_rel) => `(tactic| exact fun h => wf_of_storeArray_eq (by assumption) h)
macro_rules | `(tactic| frame_rel) => `(tactic| exact fun h => wf_of_fetchArray_eq (by assumption) h)
macro_rules | `(tactic| frame_rel) => `(tactic| exact fun h => wf_storeArray h _ _ _)
macro_rules | `(tactic| frame_rel) => `(tactic| exact fun h => (wf_fetchArray h _ _).1)

-- a `liftE r >>= f` keeps `r = .ok a` in sight (the store operations are lifted results)
macro_rules | `(tactic| frame_known) => `(tactic| ((with_reducible apply FrameFrom.lift_seq (R := VarsWF)); intro _ _))
macro_rules | `(tactic| frame_known) => `(tactic| exact FrameFrom.mod_vars (fun h => wf_store h (by assumption)))
macro_rules | `(tactic| frame_known) => `(tactic| exact FrameFrom.mod_vars (fun h => wf_defTy h (by assumption)))

theorem vwf_push (v : Val) : Frame VarsWF (push v) := by
  constructor; intro s; rw [run_push]; varswf
macro_rules | `(tactic| frame_known) => `(tactic| with_reducible exact FrameFrom.of_frame (vwf_push _))

theorem vwf_pop : Frame VarsWF pop := by
  constructor; intro s; rw [run_pop]; split <;> varswf
macro_rules | `(tactic| frame_known) => `(tactic| with_reducible exact FrameFrom.of_frame vwf_pop)

theorem vwf_pop2 : Frame VarsWF pop2 := by unfold pop2; frame
macro_rules | `(tactic| frame_known) => `(tactic| with_reducible exact FrameFrom.of_frame vwf_pop2)

theorem vwf_popN (n : Nat) : Frame VarsWF (popN n) := by unfold popN; frame
macro_rules | `(tactic| frame_known) => `(tactic| with_reducible exact FrameFrom.of_frame (vwf_popN _))

theorem vwf_popVec : Frame VarsWF popVec := by unfold popVec; frame
macro_rules | `(tactic| frame_known) => `(tactic| with_reducible exact FrameFrom.of_frame vwf_popVec)

theorem vwf_pop1Push (f : Val → Res Val) : Frame VarsWF (pop1Push f) := by unfold pop1Push; frame
macro_rules | `(tactic| frame_known) => `(tactic| with_reducible exact FrameFrom.of_frame (vwf_pop1Push _))

theorem vwf_pop2Push (f : Val → Val → Res Val) : Frame VarsWF (pop2Push f) := by unfold pop2Push; frame
macro_rules | `(tactic| frame_known) => `(tactic| with_reducible exact FrameFrom.of_frame (vwf_pop2Push _))

theorem vwf_doDef (name : Str) : Frame VarsWF (doDef name) := by unfold doDef; frame
macro_rules | `(tactic| frame_known) => `(tactic| with_reducible exact FrameFrom.of_frame (vwf_doDef _))

/-- DEFINT / DEFSNG / DEFDBL / DEFSTR -/
theorem vwf_doDefType (t : VarTy) : Frame VarsWF (doDefType fun v a b => v.defTy t a b) := by
  unfold doDefType; frame

theorem vwf_doFn (name : Str) : Frame VarsWF (doFn name) := by unfold doFn; frame
macro_rules | `(tactic| frame_known) => `(tactic| with_reducible exact FrameFrom.of_frame (vwf_doFn _))

theorem vwf_doLetMid : Frame VarsWF doLetMid := by unfold doLetMid; frame
macro_rules | `(tactic| frame_known) => `(tactic| with_reducible exact FrameFrom.of_frame vwf_doLetMid)

theorem vwf_doOn : Frame VarsWF doOn := by unfold doOn; frame
macro_rules | `(tactic| frame_known) => `(tactic| with_reducible exact FrameFrom.of_frame vwf_doOn)

theorem vwf_doRead : Frame VarsWF doRead := by unfold doRead; frame
macro_rules | `(tactic| frame_known) => `(tactic| with_reducible exact FrameFrom.of_frame vwf_doRead)

theorem vwf_doSwap : Frame VarsWF doSwap := by unfold doSwap; frame
macro_rules | `(tactic| frame_known) => `(tactic| with_reducible exact FrameFrom.of_frame vwf_doSwap)

/-- NEXT stores the loop variable through `Var.store` -/
theorem vwf_doNext_loop (name : Str) : ∀ fuel, Frame VarsWF (doNext.loop name fuel) := by
  intro fuel
  induction fuel with
  | zero => unfold doNext.loop; frame
  | succ k ih =>
    have ih' : ∀ s₀, FrameFrom VarsWF s₀ (doNext.loop name k) := fun _ => FrameFrom.of_frame ih
    unfold doNext.loop; frame
    all_goals exact ih' _

theorem vwf_doNext (name : Str) : Frame VarsWF (doNext name) := by
  have := vwf_doNext_loop name
  unfold doNext
  try dsimp only
  apply Frame.of_from; intro _
  apply FrameFrom.rd_seq; intro s
  exact FrameFrom.of_frame (this _)
macro_rules | `(tactic| frame_known) => `(tactic| with_reducible exact FrameFrom.of_frame (vwf_doNext _))

theorem vwf_doReturn_loop : ∀ fuel rv first, Frame VarsWF (doReturn.loop fuel rv first) := by
  intro fuel
  induction fuel with
  | zero => intro rv first; unfold doReturn.loop; frame
  | succ k ih =>
    intro rv first
    have ih' : ∀ rv first s₀, FrameFrom VarsWF s₀ (doReturn.loop k rv first) :=
      fun _ _ _ => FrameFrom.of_frame (ih _ _)
    unfold doReturn.loop; frame
    all_goals exact ih' _ _ _

theorem vwf_doReturn : Frame VarsWF doReturn := by
  have := vwf_doReturn_loop
  unfold doReturn
  try dsimp only
  apply Frame.of_from; intro _
  apply FrameFrom.rd_seq; intro s
  exact FrameFrom.of_frame (this _ _ _)
macro_rules | `(tactic| frame_known) => `(tactic| with_reducible exact FrameFrom.of_frame vwf_doReturn)

theorem vwf_doCont : Frame VarsWF doCont := by unfold doCont; frame
theorem vwf_doInput (n : Str) : Frame VarsWF (doInput n) := by unfold doInput; frame
theorem vwf_doList : Frame VarsWF doList := by unfold doList; frame
theorem vwf_doPrint : Frame VarsWF doPrint := by unfold doPrint; frame
theorem vwf_fileOp (mk : Str → Event) (b : Bool) : Frame VarsWF (fileOp mk b) := by unfold fileOp; frame
theorem vwf_doDelete : Frame VarsWF doDelete := by unfold doDelete; frame
theorem vwf_doRenum (env : Env) : Frame VarsWF (doRenum env) := by unfold doRenum; frame

macro_rules | `(tactic| frame_known) => `(tactic| with_reducible exact FrameFrom.of_frame vwf_doCont)
macro_rules | `(tactic| frame_known) => `(tactic| with_reducible exact FrameFrom.of_frame (vwf_doInput _))
macro_rules | `(tactic| frame_known) => `(tactic| with_reducible exact FrameFrom.of_frame vwf_doList)
macro_rules | `(tactic| frame_known) => `(tactic| with_reducible exact FrameFrom.of_frame vwf_doPrint)
macro_rules | `(tactic| frame_known) => `(tactic| with_reducible exact FrameFrom.of_frame (vwf_fileOp _ _))
macro_rules | `(tactic| frame_known) => `(tactic| with_reducible exact FrameFrom.of_frame vwf_doDelete)
macro_rules | `(tactic| frame_known) => `(tactic| with_reducible exact FrameFrom.of_frame (vwf_doRenum _))
macro_rules | `(tactic| frame_known) => `(tactic| exact FrameFrom.of_frame (vwf_doDefType _))

set_option maxHeartbeats 1000000 in
/-- **every instruction keeps the store well-formed** — whether it succeeds, fails or returns an event -/
theorem execOp_varsWF (env : Env) (h : Bool) (op : Opcode) : Frame VarsWF (execOp env h op) := by
  cases op <;> (simp only [execOp]; frame)

/-- `step`: the trace part touches only `tr` and the print column -/
theorem step_varsWF (env : Env) (h : Bool) (s : Runtime) : VarsWF s ((step env h).run.run s).2 := by
  rcases step_cases env h s with ⟨text, tr, col, he⟩ | ⟨tr, he⟩
  · rw [he]; varswf
  · rw [he, run_fetchExec]
    show VarsWF s (match s.program.link.ops[s.pc]? with
      | none => _
      | some op => (execOp env h op).run.run { s with tr := tr, pc := s.pc + 1 }).2
    cases s.program.link.ops[s.pc]? with
    | none => varswf
    | some op =>
      exact FrameRel.trans (show VarsWF s { s with tr := tr, pc := s.pc + 1 } by varswf)
        ((execOp_varsWF env h op).run _)

theorem sliceRun_varsWF (env : Env) (h : Bool) (n : Nat) (s : Runtime) : VarsWF s (sliceRun env h n s).2.1 := by
  induction n generalizing s with
  | zero => exact FrameRel.refl s
  | succ k ih =>
    have hw := step_varsWF env h s
    rw [sliceRun_succ]
    rcases hs : (step env h).run.run s with ⟨r, s'⟩
    rw [hs] at hw
    rcases r with e | st
    · exact hw
    · cases st with
      | «continue» => exact FrameRel.trans hw (ih s')
      | event e => exact hw

theorem executeLoop_varsWF (env : Env) (n : Nat) (s : Runtime) :
    VarsWF s ((executeLoop env n).run.run s).2 := by
  rw [executeLoop_run]; exact sliceRun_varsWF env _ n s

theorem vwf_executeInput : Frame VarsWF executeInput := by unfold executeInput; frame

theorem readyPrompt_varsWF (s : Runtime) : VarsWF s (readyPrompt s).1 := by
  unfold readyPrompt; split
  · varswf
  · exact FrameRel.refl s

theorem executePre_varsWF (s : Runtime) : VarsWF s (executePre s).1 := by
  unfold executePre
  split
  · varswf
  · have := readyPrompt_varsWF s
    split <;> rename_i heq <;> rw [heq] at this <;> exact this
  · varswf
  · split <;> varswf
  · have hq := vwf_executeInput.run s
    generalize executeInput.run.run s = x at hq ⊢
    rcases x with ⟨r, s'⟩
    cases r with
    | ok e => exact hq
    | error e => exact FrameRel.trans hq (by varswf)
  · varswf
  · split
    · varswf
    · exact FrameRel.refl s
  · split
    · varswf
    · exact FrameRel.refl s
  · exact FrameRel.refl s
  · exact FrameRel.refl s

theorem finishLoop_varsWF (r : Except Error Event) (s : Runtime) : VarsWF s (finishLoop r s).1 := by
  unfold finishLoop
  split
  · split
    · have := readyPrompt_varsWF s
      split <;> rename_i heq <;> rw [heq] at this <;> exact this
    · exact FrameRel.refl s
  · split
    · varswf
    · dsimp only; split <;> varswf

theorem executeRest_varsWF (env : Env) (s : Runtime) (n : Nat) : VarsWF s (executeRest env s n).1 := by
  unfold executeRest
  split
  · split <;> varswf
  · exact FrameRel.trans (executeLoop_varsWF env n s) (finishLoop_varsWF _ _)

/-- the API call `execute`, whatever it does -/
theorem execute_varsWF (env : Env) (s : Runtime) (n : Nat) : VarsWF s (execute env s n).1 := by
  rw [execute_eq]
  have hp := executePre_varsWF s
  generalize executePre s = x at hp ⊢
  rcases x with ⟨s', o⟩
  cases o with
  | some e => exact hp
  | none => exact FrameRel.trans hp (executeRest_varsWF env s' n)

theorem varsWF_swap (m : RM Unit) (s : Runtime) (hf : Frame VarsWF m) :
    VarsWF s (match m.run.run s with | (r, s') => (s', r)).1 := by
  have := hf.run s
  generalize m.run.run s = x at this ⊢
  rcases x with ⟨r, s'⟩
  exact this

theorem vwf_replyPush (fs : List Str) : Frame VarsWF (replyPush fs) := by unfold replyPush; frame

theorem doInputReply_varsWF (s : Runtime) (str : Str) : VarsWF s (doInputReply s str).1 := by
  unfold doInputReply
  split
  · dsimp only
    split
    · varswf
    · rename_i fs _
      exact varsWF_swap (replyPush fs) s (vwf_replyPush fs)
  · exact FrameRel.refl s

theorem interrupt_varsWF (s : Runtime) : VarsWF s (interrupt s) := by
  unfold interrupt
  dsimp only
  split <;> varswf

theorem enterDirect_varsWF (s : Runtime) (line : Line) : VarsWF s (enterDirect s line) := by
  unfold enterDirect
  dsimp only
  split <;> varswf

theorem enterIndirect_varsWF (s : Runtime) (line : Line) : VarsWF s (enterIndirect s line) := by
  unfold enterIndirect
  dsimp only
  split
  · split <;> varswf
  · varswf

/-- the API call `enter`: a program line, a direct line, a reply to INPUT or INKEY$ -/
theorem enter_varsWF (env : Env) (s : Runtime) (str : Str) : VarsWF s (enter env s str) := by
  unfold enter
  split
  · dsimp only
    split
    · varswf
    · have hk := doInputReply_varsWF s str
      generalize doInputReply s str = x at hk ⊢
      rcases x with ⟨s', r⟩
      cases r with
      | ok u => exact FrameRel.trans hk (by varswf)
      | error e => exact varsWF_of_wf wf_new
  · dsimp only
    have hq := (vwf_push (Val.str (if RStd.utf8Len str > Gen.maxLineLen then [] else str))).run s
    generalize (push (Val.str (if RStd.utf8Len str > Gen.maxLineLen then [] else str))).run.run s = x at hq ⊢
    rcases x with ⟨r, s'⟩
    cases r with
    | ok u => exact FrameRel.trans hq (by varswf)
    | error e => exact varsWF_of_wf wf_new
  · split
    · varswf
    · dsimp only
      split
      · split
        · exact FrameRel.refl s
        · exact enterDirect_varsWF s _
      · split
        · varswf
        · exact enterIndirect_varsWF s _

theorem setListing_varsWF (env : Env) (s : Runtime) (l : Listing) (run : Bool) :
    VarsWF s (setListing env s l run) := by
  unfold setListing
  dsimp only
  have h0 : WF ({ doNew env s with listing := l } : Runtime).vars := wf_new
  split
  · exact fun _ => enter_varsWF env _ _ h0
  · exact fun _ => h0

end Runtime
end Basic
