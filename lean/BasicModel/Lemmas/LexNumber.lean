import BasicModel.Lemmas.LexForms
/-
  The line-number prefix of a listed line: `<digits of n><blank>` is split off again
  (`Display for u16` / `str::parse::<u16>` round trip from core's `Nat.toDigits` lemmas).
-/
set_option linter.unusedSimpArgs false
namespace Basic
namespace Lex

/-! ### the line number of a listed line -/

theorem fmt_isDigit_eq (c : Char) : Fmt.isDigit c = isDigit c := by
  rw [Bool.eq_iff_iff, isDigit_iff]
  simp [Fmt.isDigit, Char.le_def, UInt32.le_iff_toNat_le]

theorem digitsToNat_eq (l : List Char) : Fmt.digitsToNat l = Nat.ofDigitChars 10 l 0 := by
  unfold Fmt.digitsToNat Nat.ofDigitChars
  congr 1
  funext acc c
  simp [Fmt.digitVal, Nat.mul_comm]

theorem ofDigitChars_dropZeros (l : List Char) :
    Nat.ofDigitChars 10 (l.dropWhile (· = '0')) 0 = Nat.ofDigitChars 10 l 0 := by
  induction l with
  | nil => rfl
  | cons c l ih =>
    by_cases h : c = '0'
    · subst h; simp [List.dropWhile_cons, Nat.ofDigitChars_cons, ih]
    · simp [List.dropWhile_cons, h]

theorem natDigits_eq (n : Nat) : RStd.natDigits n = Nat.toDigits 10 n := by
  simp [RStd.natDigits, Nat.toString_eq_repr, Nat.toList_repr]

theorem natDigits_allDigits (n : Nat) : ∀ c ∈ RStd.natDigits n, isDigit c = true := by
  intro c hc
  rw [natDigits_eq] at hc
  exact Nat.isDigit_of_mem_toDigits (by decide) (by decide) hc

theorem natDigits_ne_nil (n : Nat) : RStd.natDigits n ≠ [] := by
  rw [natDigits_eq]; exact Nat.toDigits_ne_nil

theorem parseU16_digits (l : List Char) (hne : l ≠ []) (hd : ∀ c ∈ l, isDigit c = true)
    (hlen : l.length ≤ 6) (hv : Nat.ofDigitChars 10 l 0 ≤ 65535) :
    Fmt.parseU16 l = some (Nat.ofDigitChars 10 l 0) := by
  cases l with
  | nil => contradiction
  | cons c cs =>
    have hplus : c ≠ '+' := ne_of_isDigit c _ (hd c (by simp)) (by decide)
    have hall : (c :: cs).all Fmt.isDigit = true := by
      rw [List.all_eq_true]; intro x hx; rw [fmt_isDigit_eq]; exact hd x hx
    have hdl : ((c :: cs).dropWhile (· = '0')).length ≤ 6 := by
      have := length_dropWhile_le (fun x => decide (x = '0')) (c :: cs)
      omega
    have h6 : ¬ (((c :: cs).dropWhile (· = '0')).length > 6) := by omega
    unfold Fmt.parseU16
    split
    · rename_i r heq; exact absurd (List.cons.inj heq).1 hplus
    · simp only [hall, digitsToNat_eq, ofDigitChars_dropZeros, h6, hv]
      simp

/-- `str::parse::<u16>` reads back what `Display for u16` prints -/
theorem parseU16_natDigits (n : Nat) (h : n ≤ 65535) : Fmt.parseU16 (RStd.natDigits n) = some n := by
  have hlen : (RStd.natDigits n).length ≤ 5 := by
    rw [natDigits_eq]
    exact (Nat.length_toDigits_le_iff (by decide) (by decide)).2 (by omega)
  have hval : Nat.ofDigitChars 10 (RStd.natDigits n) 0 = n := by
    rw [natDigits_eq]; exact Nat.ofDigitChars_ten_toDigits
  rw [parseU16_digits _ (natDigits_ne_nil n) (natDigits_allDigits n) (by omega) (by omega), hval]

theorem prefixLen_digits_seen (ds rest : List Char) (hd : ∀ c ∈ ds, isDigit c = true) :
    prefixLen (ds ++ ' ' :: rest) true = ds.length := by
  induction ds with
  | nil => simp [prefixLen, isWs]
  | cons d ds ih =>
    have h := hd d (by simp)
    have hw := not_isWs_of_isDigit d h
    simp [prefixLen, h, hw, ih (fun c hc => hd c (by simp [hc]))]; omega

theorem prefixLen_digits (ds rest : List Char) (hd : ∀ c ∈ ds, isDigit c = true) (hne : ds ≠ []) :
    prefixLen (ds ++ ' ' :: rest) false = ds.length := by
  cases ds with
  | nil => contradiction
  | cons d ds =>
    have h := hd d (by simp)
    simp [prefixLen, h, prefixLen_digits_seen ds rest (fun c hc => hd c (by simp [hc]))]; omega

/-- the prefix `<number><blank>` of a listed line is split off again -/
theorem splitLineNumber_listed (n : Nat) (h : n ≤ 65529) (rest : List Char) :
    splitLineNumber (RStd.natDigits n ++ ' ' :: rest) = (some n, rest) := by
  have hd := natDigits_allDigits n
  have hne := natDigits_ne_nil n
  have hw : (RStd.natDigits n).dropWhile isWs = RStd.natDigits n := by
    cases hh : RStd.natDigits n with
    | nil => rfl
    | cons c cs => simp [List.dropWhile_cons, not_isWs_of_isDigit c (hd c (by simp [hh]))]
  unfold splitLineNumber
  simp only [prefixLen_digits _ rest hd hne, List.take_left', List.drop_left', hw,
    parseU16_natDigits n (by omega), maxLineNumber, h, if_true]

end Lex
end Basic
