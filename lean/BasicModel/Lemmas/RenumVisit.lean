import BasicModel.Lemmas.RenumStmt
/-
  RENUM and the compiler, part 4: `genStatement` on related statements.
  Statements without line-number operands go through the generic triples; the operands of GOTO,
  GOSUB, RESTORE, RUN, ON, LIST, DELETE are literal leaves whose fragments lie on top of the
  expression stack (`Top`), they are popped explicitly.
-/
namespace Basic
namespace RenumRel
open Link Codegen

variable {φ : Nat → Nat} {α α' β β' : Type}

macro_rules
  | `(tactic| gr_post) =>
    `(tactic| (with_reducible refine GRs.seq gr_exprPopLineNumber ?_; rintro ⟨_, _⟩ ⟨_, _⟩ hs; dsimp only at hs; subst hs))

/-! ### DATA -/

theorem FragRel.clearOps {l l' : Link} (h : FragRel φ l l') : FragRel φ { l with ops := #[] } { l' with ops := #[] } :=
  ⟨⟨h.cur, h.curNeg, .nil, h.data, h.dataPos, h.directSet, h.unlinked, h.whiles⟩, h.symbols⟩

theorem transformToData_rel {l l' : Link} (h : FragRel φ l l') (c c' : Col) :
    FragRel φ (transformToData l c).1 (transformToData l' c').1 ∧
    (match (transformToData l c).2, (transformToData l' c').2 with
      | .ok _, .ok _ => True
      | .error e, .error e' => ErrRel e e'
      | _, _ => False) := by
  unfold transformToData
  dsimp only
  rw [h.size]
  by_cases h1 : l.ops.size = 1
  · rw [if_pos h1, if_pos h1, h.ops_eq_of_short (by omega)]
    split
    · rename_i v _
      have hp := h.clearOps.pushData v
      refine ⟨hp.1, ?_⟩
      rw [hp.2]
      cases ({ l with ops := #[] } : Link).pushData v |>.2 with
      | ok _ => trivial
      | error e => exact ErrRel.refl e
    · exact ⟨h.clearOps, ⟨rfl, rfl⟩⟩
  · rw [if_neg h1, if_neg h1]
    by_cases h2 : l.ops.size = 2
    · rw [if_pos h2, if_pos h2, h.ops_eq_of_short (by omega)]
      split
      · rename_i v _ _
        cases Ops.negate v with
        | ok nv =>
          dsimp only
          have hp := h.clearOps.pushData nv
          refine ⟨hp.1, ?_⟩
          rw [hp.2]
          cases ({ l with ops := #[] } : Link).pushData nv |>.2 with
          | ok _ => trivial
          | error e => exact ErrRel.refl e
        | error e => exact ⟨h.clearOps, ErrRel.refl e⟩
      · exact ⟨h.clearOps, ⟨rfl, rfl⟩⟩
    · rw [if_neg h2, if_neg h2]
      exact ⟨h, ⟨rfl, rfl⟩⟩

theorem gr_gen_data (c c' : Col) {es es' : List Expr} (h : ExprsRel es es') :
    GRs φ (genStatement (.data c es)) (genStatement (.data c' es')) TT := by
  simp only [genStatement, h.length_eq]
  refine GRs.seq (gr_popNExpr _) ?_
  intro xs xs' hxs
  refine GRs.seq_any ?_ (fun _ _ => GRs.ret trivial)
  refine GRs.forLoop hxs _ _ _ _ ?_
  rintro ⟨ec, el⟩ ⟨ec', el'⟩ _ _ hel
  dsimp only
  have ht := transformToData_rel hel ec ec'
  generalize transformToData el ec = x at ht
  generalize transformToData el' ec' = x' at ht
  rcases x with ⟨l1, r1⟩
  rcases x' with ⟨l1', r1'⟩
  dsimp only at ht ⊢
  refine GRs.seq_any (GRs.lift₂ (R := TT) ?_) ?_
  · cases r1 <;> cases r1' <;> first | exact ht.2 | trivial
  · intro _ _
    have := ht.1
    gr

/-! ### statements without line-number operands -/

theorem gr_gen_simple (op : Opcode) (c c' : Col) :
    GRs φ (do lpush op; pure c : GM Col) (do lpush op; pure c' : GM Col) TT := by gr

theorem map_name_eq {vs vs' : List VarItem} (h : All₂ (VarItemRel φ) vs vs') : vs'.map (·.name) = vs.map (·.name) := by
  induction h with
  | nil => rfl
  | cons hab _ ih => simp only [List.map_cons, ih, hab.name]

theorem gr_gen_def (c c' : Col) (v v' : Variable) (ps ps' : List Variable) (e e' : Expr) (hl : ps'.length = ps.length) :
    GRs φ (genStatement (.def c v ps e)) (genStatement (.def c' v' ps' e')) TT := by
  simp only [genStatement, hl]
  refine GRs.seq (gr_popNVar _) ?_
  intro vars vars' hv
  rw [map_name_eq hv]
  gr

theorem gr_gen_dim (c c' : Col) (vs vs' : List Variable) (hl : vs'.length = vs.length) :
    GRs φ (genStatement (.dim c vs)) (genStatement (.dim c' vs')) TT := by
  simp only [genStatement, hl]; gr

theorem gr_gen_erase (c c' : Col) (vs vs' : List Variable) (hl : vs'.length = vs.length) :
    GRs φ (genStatement (.erase c vs)) (genStatement (.erase c' vs')) TT := by
  simp only [genStatement, hl]; gr

theorem gr_gen_for (c c' : Col) (v v' : Variable) (a a' b b' s s' : Expr) :
    GRs φ (genStatement (.for c v a b s)) (genStatement (.for c' v' a' b' s')) TT := by
  simp only [genStatement]; gr

theorem gr_gen_if (c c' : Col) (p p' : Expr) (th th' el el' : List Stmt) (h1 : th'.length = th.length)
    (h2 : el'.length = el.length) :
    GRs φ (genStatement (.if c p th el)) (genStatement (.if c' p' th' el')) TT := by
  simp only [genStatement, h1, h2]; gr

theorem gr_gen_input (c c' : Col) (e1 e1' e2 e2' : Expr) (vs vs' : List Variable) (hl : vs'.length = vs.length) :
    GRs φ (genStatement (.input c e1 e2 vs)) (genStatement (.input c' e1' e2' vs')) TT := by
  simp only [genStatement, hl]; gr

theorem gr_gen_let (c c' : Col) (v v' : Variable) (e e' : Expr) :
    GRs φ (genStatement (.let c v e)) (genStatement (.let c' v' e')) TT := by
  simp only [genStatement]; gr

theorem gr_gen_load (c c' : Col) (e e' : Expr) :
    GRs φ (genStatement (.load c e)) (genStatement (.load c' e')) TT := by
  simp only [genStatement]; gr

theorem gr_gen_save (c c' : Col) (e e' : Expr) :
    GRs φ (genStatement (.save c e)) (genStatement (.save c' e')) TT := by
  simp only [genStatement]; gr

theorem gr_gen_mid (c c' : Col) (v v' : Variable) (e1 e1' e2 e2' e3 e3' : Expr) :
    GRs φ (genStatement (.mid c v e1 e2 e3)) (genStatement (.mid c' v' e1' e2' e3')) TT := by
  simp only [genStatement]; gr

theorem gr_gen_next (c c' : Col) (vs vs' : List Variable) (hl : vs'.length = vs.length) :
    GRs φ (genStatement (.next c vs)) (genStatement (.next c' vs')) TT := by
  simp only [genStatement, hl]; gr

theorem gr_gen_print (c c' : Col) (es es' : List Expr) (hl : es'.length = es.length) :
    GRs φ (genStatement (.print c es)) (genStatement (.print c' es')) TT := by
  simp only [genStatement, hl]; gr

theorem gr_gen_read (c c' : Col) (vs vs' : List Variable) (hl : vs'.length = vs.length) :
    GRs φ (genStatement (.read c vs)) (genStatement (.read c' vs')) TT := by
  simp only [genStatement, hl]; gr

theorem gr_gen_renum (c c' : Col) (a a' b b' s s' : Expr) :
    GRs φ (genStatement (.renum c a b s)) (genStatement (.renum c' a' b' s')) TT := by
  simp only [genStatement]
  refine GRs.seq gr_exprPopLineNumber ?_
  rintro ⟨_, x1⟩ ⟨_, x1'⟩ h1
  dsimp only at h1
  subst h1
  refine GRs.seq gr_exprPopLineNumber ?_
  rintro ⟨_, x2⟩ ⟨_, x2'⟩ h2
  dsimp only at h2
  subst h2
  refine GRs.seq gr_exprPopLineNumber ?_
  rintro ⟨_, x3⟩ ⟨_, x3'⟩ h3
  dsimp only at h3
  subst h3
  dsimp only
  gr

theorem gr_gen_swap (c c' : Col) (a a' b b' : Variable) :
    GRs φ (genStatement (.swap c a b)) (genStatement (.swap c' a' b')) TT := by
  simp only [genStatement]; gr

theorem gr_gen_wend (c c' : Col) : GRs φ (genStatement (.wend c)) (genStatement (.wend c')) TT := by
  simp only [genStatement]; gr

theorem gr_gen_while (c c' : Col) (e e' : Expr) :
    GRs φ (genStatement (.while c e)) (genStatement (.while c' e')) TT := by
  simp only [genStatement]; gr

end RenumRel
end Basic
