import BasicModel.Lemmas.Frame
/-
  What one `step` can do, for every instruction:

  * `Rets m P`: every successful result of `m` satisfies `P` (used for "returns only `continue`",
    "never returns `continue`", "never returns the event `running`");
  * `Calm`: what a step that returns `continue` leaves alone (`Quiet`, but `state` may move from
    `inputRunning` to `running`);
  * `KeepListing`: the listing is untouched — every instruction except DELETE / RENUM / NEW;
  * `Weak`: what *every* step leaves alone (compiled code, entry address, prompt, and "neither
    `state` nor `cont` is `intro`").
-/
namespace Basic
namespace Runtime
variable {α β : Type}

/-! ### results -/

structure Rets (m : RM α) (P : α → Prop) : Prop where
  run : ∀ s a s', m.run.run s = (.ok a, s') → P a

theorem Rets.ret {P : α → Prop} {a : α} (h : P a) : Rets (pure a : RM α) P :=
  ⟨fun s b s' hr => by rw [run_pure] at hr; cases hr; exact h⟩

theorem Rets.thr {P : α → Prop} (e : Error) : Rets (throw e : RM α) P :=
  ⟨fun s b s' hr => by rw [run_throw] at hr; cases hr⟩

theorem Rets.seq {P : β → Prop} {m : RM α} {f : α → RM β} (hf : ∀ a, Rets (f a) P) :
    Rets (m >>= f) P := by
  constructor
  intro s b s' hr
  rw [run_bind] at hr
  rcases h : m.run.run s with ⟨r, t⟩
  rw [h] at hr
  cases r with
  | ok a => exact (hf a).run t b s' hr
  | error e => cases hr

syntax "rets_known" : tactic
macro_rules | `(tactic| rets_known) => `(tactic| assumption)

macro "rets_step" : tactic =>
  `(tactic| first
    | with_reducible exact Rets.thr _
    | ((with_reducible apply Rets.ret); first | rfl | (intro h; cases h))
    | rets_known
    | with_reducible apply Rets.seq
    | intro _
    | split)

macro "rets" : tactic => `(tactic| (try dsimp only
                                    repeat' rets_step))

/-- the ordinary instructions return `continue` or throw -/
theorem execOp_continue (env : Env) (h : Bool) (op : Opcode) (hop : isEventOp op = false) :
    Rets (execOp env h op) (· = .continue) := by
  cases op <;> first
    | (simp [isEventOp] at hop; done)
    | (simp only [execOp]; rets)

theorem rets_doDelete : Rets doDelete (· ≠ .running) := by unfold doDelete; rets
theorem rets_doRenum (env : Env) : Rets (doRenum env) (· ≠ .running) := by unfold doRenum; rets
theorem rets_doPrint : Rets doPrint (· ≠ .running) := by unfold doPrint; rets
theorem rets_fileOp_load : Rets (fileOp .load true) (· ≠ .running) := by unfold fileOp; rets
theorem rets_fileOp_run : Rets (fileOp .run false) (· ≠ .running) := by unfold fileOp; rets
theorem rets_fileOp_save : Rets (fileOp .save true) (· ≠ .running) := by unfold fileOp; rets

/-- `do pure (.event (← m))` -/
theorem Rets.event {P : Step → Prop} {Q : Event → Prop} {m : RM Event} (hm : Rets m Q)
    (h : ∀ e, Q e → P (.event e)) : Rets (do pure (Step.event (← m))) P := by
  constructor
  intro s b s' hr
  rw [run_bind] at hr
  rcases hh : m.run.run s with ⟨r, t⟩
  rw [hh] at hr
  cases r with
  | ok a =>
    have hr' : (Except.ok (Step.event a), t) = (Except.ok b, s') := hr
    cases hr'; exact h a (hm.run s a _ hh)
  | error e => cases hr

/-- instructions that always end the slice: they return an event or throw -/
def alwaysEvent : Opcode → Bool
  | .cls | .delete | .end | .list | .load | .loadRun | .new | .print | .renum | .save | .inkey => true
  | _ => false

theorem execOp_never_continue (env : Env) (h : Bool) (op : Opcode) (hop : alwaysEvent op = true) :
    Rets (execOp env h op) (· ≠ .continue) := by
  cases op <;> first
    | (simp [alwaysEvent] at hop; done)
    | (simp only [execOp]; rets)

/-- only CONT, INPUT and LIST return the event `running` -/
def mayReturnRunning : Opcode → Bool
  | .cont | .input _ | .list => true
  | _ => false

theorem execOp_not_running (env : Env) (h : Bool) (op : Opcode) (hop : mayReturnRunning op = false) :
    Rets (execOp env h op) (· ≠ .event .running) := by
  by_cases hev : isEventOp op = false
  · exact ⟨fun s a s' hr => by rw [(execOp_continue env h op hev).run s a s' hr]; nofun⟩
  · have inj : ∀ e, e ≠ Event.running → Step.event e ≠ Step.event Event.running :=
      fun e he h => he (by injection h)
    cases op <;> first
      | (simp [isEventOp] at hev; done)
      | (simp [mayReturnRunning] at hop; done)
      | (simp only [execOp]; rets; done)
      | (simp only [execOp]; exact Rets.event rets_doDelete inj)
      | (simp only [execOp]; exact Rets.event (rets_doRenum env) inj)
      | (simp only [execOp]; exact Rets.event rets_doPrint inj)
      | (simp only [execOp]; exact Rets.event rets_fileOp_load inj)
      | (simp only [execOp]; exact Rets.event rets_fileOp_run inj)
      | (simp only [execOp]; exact Rets.event rets_fileOp_save inj)

theorem Frame.snd_of_eq {R : Runtime → Runtime → Prop} {m : RM α} {s t : Runtime}
    {r : Except Error α} (hf : Frame R m) (h : m.run.run s = (r, t)) : R s t := by
  have := hf.run s; rw [h] at this; exact this

theorem Rets.of_eq {P : α → Prop} {m : RM α} {s t : Runtime} {a : α}
    (hf : Rets m P) (h : m.run.run s = (.ok a, t)) : P a := hf.run s a t h

/-! ### `Calm`: what a step that returns `continue` leaves alone -/

structure Calm (s t : Runtime) : Prop where
  listing : t.listing = s.listing
  state : t.state = s.state ∨ t.state = .running
  cont : t.cont = s.cont ∨ t.cont = .stopped
  contPc : t.contPc = s.contPc
  entry : t.entryAddress = s.entryAddress
  dirty : t.dirty = s.dirty
  prompt : t.prompt = s.prompt
  ops : t.program.link.ops = s.program.link.ops
  data : t.program.link.data = s.program.link.data
  symbols : t.program.link.symbols = s.program.link.symbols
  errors : t.program.errors = s.program.errors
  indirectErrors : t.program.indirectErrors = s.program.indirectErrors
  directAddress : t.program.directAddress = s.program.directAddress

instance : FrameRel Calm where
  refl _ := ⟨rfl, .inl rfl, .inl rfl, rfl, rfl, rfl, rfl, rfl, rfl, rfl, rfl, rfl, rfl⟩
  trans h1 h2 :=
    ⟨h2.listing.trans h1.listing,
     h2.state.elim (fun h => h1.state.elim (fun h' => .inl (h.trans h')) (fun h' => .inr (h.trans h'))) .inr,
     h2.cont.elim (fun h => h1.cont.elim (fun h' => .inl (h.trans h')) (fun h' => .inr (h.trans h'))) .inr,
     h2.contPc.trans h1.contPc, h2.entry.trans h1.entry, h2.dirty.trans h1.dirty,
     h2.prompt.trans h1.prompt, h2.ops.trans h1.ops, h2.data.trans h1.data,
     h2.symbols.trans h1.symbols, h2.errors.trans h1.errors,
     h2.indirectErrors.trans h1.indirectErrors, h2.directAddress.trans h1.directAddress⟩

instance : QuietImplies Calm where
  imp h := ⟨h.listing, .inl h.state, h.cont, h.contPc, h.entry, h.dirty, h.prompt, h.ops, h.data,
            h.symbols, h.errors, h.indirectErrors, h.directAddress⟩

macro "calm" : tactic =>
  `(tactic| (constructor <;> first | rfl | exact Or.inl rfl | exact Or.inr rfl))
macro_rules | `(tactic| frame_rel) => `(tactic| calm)

/-- the part of INPUT that runs while `state = inputRunning` is calm -/
theorem doInput_spec (name : Str) (s : Runtime) :
    (∀ t, (doInput name).run.run s = (.ok true, t) → t.state = .input) ∧
    (∀ t, (doInput name).run.run s = (.ok false, t) → Calm s t) := by
  unfold doInput
  rw [run_bind_ok (run_get s)]
  by_cases h1 : s.state = .running
  · rw [if_pos h1]
    constructor
    · intro t ht; cases ht; rfl
    · intro t ht; cases ht
  · rw [if_neg h1]
    constructor
    · intro t ht
      exfalso
      revert ht
      split
      · split
        · intro ht; exact Bool.noConfusion (Rets.of_eq (P := (· = false)) (by rets) ht)
        · intro ht; exact Bool.noConfusion (Rets.of_eq (P := (· = false)) (by rets) ht)
      · intro ht; cases ht
    · intro t ht
      exact Frame.snd_of_eq (by frame) ht

theorem execOp_jump_run (env : Env) (h : Bool) (a : Nat) (s : Runtime) :
    (execOp env h (.jump a)).run.run s =
      if h && a < s.entryAddress then
        (.ok (.event (.errors s.listing.indirectErrors)),
         { s with pc := a, state := .stopped, cont := .stopped })
      else (.ok .continue, { s with pc := a }) := by
  simp only [execOp, run_bind, run_modify, run_get]
  split <;> rfl

theorem execOp_cont_run (env : Env) (h : Bool) (s : Runtime) :
    (execOp env h .cont).run.run s =
      if s.cont = .stopped then (.error (Error.mk' Code.cantContinue), s)
      else if s.state = .running then
        (.ok (if s.cont = .running then .continue else .event .running),
         { s with state := s.cont, cont := .stopped, pc := s.contPc })
      else (.error (Error.mk' Code.cantContinue), s) := by
  simp only [execOp, run_bind, run_doCont]
  by_cases h1 : s.cont = .stopped
  · simp only [h1, if_true]
  · simp only [h1, if_false]
    by_cases h2 : s.state = .running
    · simp only [h2, if_true]
      by_cases h3 : s.cont = .running
      · simp only [h3, bne_self_eq_false, Bool.false_eq_true, if_false, if_true]; rfl
      · have : (s.cont != .running) = true := by simp [bne, h3]
        simp only [this, h3, if_true, if_false]; rfl
    · simp only [h2, if_false]

theorem run_ifM (m : RM Bool) (s : Runtime) :
    (do if ← m then pure (Step.event .running) else pure Step.continue : RM Step).run.run s =
      match m.run.run s with
      | (.ok true, t) => (.ok (.event .running), t)
      | (.ok false, t) => (.ok .continue, t)
      | (.error e, t) => (.error e, t) := by
  rw [run_bind]
  rcases m.run.run s with ⟨r, t⟩
  rcases r with e | b
  · rfl
  · cases b <;> rfl

theorem execOp_input_run (env : Env) (h : Bool) (name : Str) (s : Runtime) :
    (execOp env h (.input name)).run.run s =
      match (doInput name).run.run s with
      | (.ok true, t) => (.ok (.event .running), t)
      | (.ok false, t) => (.ok .continue, t)
      | (.error e, t) => (.error e, t) := by
  simp only [execOp]; exact run_ifM _ s

/-- a step that returns `continue` is calm -/
theorem execOp_continue_calm {env : Env} {h : Bool} {op : Opcode} {s t : Runtime}
    (hr : (execOp env h op).run.run s = (.ok .continue, t)) : Calm s t := by
  by_cases hev : isEventOp op = false
  · exact QuietImplies.imp (Frame.snd_of_eq (execOp_quiet env h op hev) hr)
  · by_cases hal : alwaysEvent op = true
    · exact (Rets.of_eq (execOp_never_continue env h op hal) hr rfl).elim
    · cases op <;> first
        | (simp [isEventOp] at hev; done)
        | (simp [alwaysEvent] at hal; done)
        | skip
      case jump a =>
        rw [execOp_jump_run] at hr
        split at hr
        · cases hr
        · cases hr; calm
      case cont =>
        rw [execOp_cont_run] at hr
        split at hr
        · cases hr
        · split at hr
          · rename_i h1 h2
            by_cases h3 : s.cont = .running
            · rw [if_pos h3] at hr; cases hr
              constructor <;> first | rfl | exact Or.inl rfl | exact Or.inr rfl | exact Or.inr h3
            · rw [if_neg h3] at hr; cases hr
          · cases hr
      case input name =>
        rw [execOp_input_run] at hr
        split at hr
        · cases hr
        · rename_i t' heq
          cases hr
          exact (doInput_spec name s).2 _ heq
        · cases hr

theorem doList_state {s t : Runtime} {u : Unit} (hr : doList.run.run s = (.ok u, t)) :
    ∃ lo hi, t.state = .listing lo hi := by
  simp only [doList, run_bind, run_modify, run_liftE] at hr
  repeat' split at hr
  all_goals first
    | (cases hr; done)
    | (cases hr; exact ⟨_, _, rfl⟩)

/-- the event `running` is only returned with a `state` other than `running` -/
theorem execOp_running_state {env : Env} {h : Bool} {op : Opcode} {s t : Runtime}
    (hr : (execOp env h op).run.run s = (.ok (.event .running), t)) : t.state ≠ .running := by
  by_cases hm : mayReturnRunning op = false
  · exact (Rets.of_eq (execOp_not_running env h op hm) hr rfl).elim
  · cases op <;> first
      | (simp [mayReturnRunning] at hm; done)
      | skip
    case cont =>
      rw [execOp_cont_run] at hr
      split at hr
      · cases hr
      · split at hr
        · by_cases h3 : s.cont = .running
          · rw [if_pos h3] at hr; cases hr
          · rw [if_neg h3] at hr; cases hr; exact h3
        · cases hr
    case input name =>
      rw [execOp_input_run] at hr
      split at hr
      · rename_i t' heq
        cases hr
        rw [(doInput_spec name s).1 _ heq]; nofun
      · cases hr
      · cases hr
    case list =>
      simp only [execOp, run_bind] at hr
      split at hr
      · rename_i u t' heq
        cases hr
        obtain ⟨lo, hi, hl⟩ := doList_state heq
        rw [hl]; nofun
      · cases hr

/-! ### `step` by cases: a trace event, an invalid address, or an instruction -/

theorem run_fetchExec (env : Env) (h : Bool) (t : Runtime) :
    (fetchExec env h).run.run t =
      match t.program.link.ops[t.pc]? with
      | none => (.error ((Error.mk' Code.internalError).withMsg "INVALID PC ADDRESS"), t)
      | some op => (execOp env h op).run.run { t with pc := t.pc + 1 } := by
  unfold fetchExec
  rw [run_bind_ok (run_get t)]
  cases t.program.link.ops[t.pc]? with
  | none => rfl
  | some op => exact run_bind_ok (run_set _ t)

/-- the trace part either prints `[n]` (changing `tr` and `printCol`) or changes at most `tr` -/
theorem step_cases (env : Env) (h : Bool) (s : Runtime) :
    (∃ text tr col, (step env h).run.run s =
        (.ok (.event (.print text)), { s with tr := tr, printCol := col })) ∨
    (∃ tr, (step env h).run.run s = (fetchExec env h).run.run { s with tr := tr }) := by
  rw [step_eq, run_bind_ok (run_get s)]
  unfold traceOf
  by_cases h1 : s.tron = true
  · rw [if_pos h1]
    by_cases h2 : s.program.link.lineNumberFor s.pc ≠ s.tr
    · rw [if_pos h2]
      cases s.program.link.lineNumberFor s.pc with
      | none => exact .inr ⟨none, rfl⟩
      | some n => exact .inl ⟨_, _, _, rfl⟩
    · rw [if_neg h2]
      exact .inr ⟨s.tr, rfl⟩
  · rw [if_neg h1]
    exact .inr ⟨s.tr, rfl⟩

/-- with tracing off, `step` is fetch-and-execute -/
theorem step_troff (env : Env) (h : Bool) (s : Runtime) (ht : s.tron = false) :
    (step env h).run.run s = (fetchExec env h).run.run s := by
  rw [step_eq, run_bind_ok (run_get s)]
  unfold traceOf
  rw [if_neg (by simp [ht])]
  rfl

theorem quiet_tr (s : Runtime) (tr : Option Nat) : Quiet s { s with tr := tr } := by quiet
theorem quiet_tr_pc (s : Runtime) (tr : Option Nat) : Quiet s { s with tr := tr, pc := s.pc + 1 } := by quiet
theorem quiet_tr_col (s : Runtime) (tr : Option Nat) (c : Nat) :
    Quiet s { s with tr := tr, printCol := c } := by quiet

/-- lifting a frame property of the instruction at `pc` to `step` -/
theorem step_frame {R : Runtime → Runtime → Prop} [FrameRel R] [QuietImplies R]
    (env : Env) (h : Bool) (s : Runtime)
    (hop : ∀ op, s.program.link.ops[s.pc]? = some op → Frame R (execOp env h op)) :
    R s ((step env h).run.run s).2 := by
  rcases step_cases env h s with ⟨text, tr, col, he⟩ | ⟨tr, he⟩
  · rw [he]; exact QuietImplies.imp (quiet_tr_col s tr col)
  · rw [he, run_fetchExec]
    show R s (match s.program.link.ops[s.pc]? with
      | none => _
      | some op => (execOp env h op).run.run { s with tr := tr, pc := s.pc + 1 }).2
    cases hq : s.program.link.ops[s.pc]? with
    | none => exact QuietImplies.imp (quiet_tr s tr)
    | some op =>
      exact FrameRel.trans (QuietImplies.imp (quiet_tr_pc s tr)) ((hop op hq).run _)

theorem step_continue_calm {env : Env} {h : Bool} {s t : Runtime}
    (hr : (step env h).run.run s = (.ok .continue, t)) : Calm s t := by
  rcases step_cases env h s with ⟨text, tr, col, he⟩ | ⟨tr, he⟩
  · rw [he] at hr; cases hr
  · rw [he, run_fetchExec] at hr
    change (match s.program.link.ops[s.pc]? with
      | none => _
      | some op => (execOp env h op).run.run { s with tr := tr, pc := s.pc + 1 }) = _ at hr
    cases hq : s.program.link.ops[s.pc]? with
    | none => rw [hq] at hr; cases hr
    | some op =>
      rw [hq] at hr
      exact FrameRel.trans (QuietImplies.imp (quiet_tr_pc s tr)) (execOp_continue_calm hr)

theorem step_running_state {env : Env} {h : Bool} {s t : Runtime}
    (hr : (step env h).run.run s = (.ok (.event .running), t)) : t.state ≠ .running := by
  rcases step_cases env h s with ⟨text, tr, col, he⟩ | ⟨tr, he⟩
  · rw [he] at hr; cases hr
  · rw [he, run_fetchExec] at hr
    change (match s.program.link.ops[s.pc]? with
      | none => _
      | some op => (execOp env h op).run.run { s with tr := tr, pc := s.pc + 1 }) = _ at hr
    cases hq : s.program.link.ops[s.pc]? with
    | none => rw [hq] at hr; cases hr
    | some op =>
      rw [hq] at hr
      exact execOp_running_state hr

end Runtime
end Basic
