import BasicModel.Lemmas.LexChar
/-
  Fuel sufficiency for the token iterator: every scanner returns a strictly shorter remainder, so
  `lexLoop` with any fuel above the remaining length computes the same list; `lexFrom` hides the
  fuel and `lexFrom_cons` is the one-step unfolding used by all later proofs.
-/
namespace Basic
namespace Lex

theorem length_dropWhile_le {α} (p : α → Bool) (l : List α) : (l.dropWhile p).length ≤ l.length := by
  induction l with
  | nil => simp
  | cons a l ih => simp only [List.dropWhile_cons]; split <;> simp <;> omega

theorem whitespace_shortens (c : Char) (cs : List Char) :
    (whitespace (c :: cs)).2.length < (c :: cs).length := by
  simp only [whitespace, List.length_cons]
  have := length_dropWhile_le isWs cs
  omega

theorem numberLoop_length_le (cs : List Char) : ∀ s dg dec ex,
    (numberLoop cs s dg dec ex).2.length ≤ cs.length := by
  induction cs with
  | nil => intros; simp [numberLoop]
  | cons ch0 rest ih =>
    intro s dg dec ex
    unfold numberLoop
    extract_lets ch s' dg' dec' dg''
    split
    · simp
    split
    · simp
    split
    · simp
    split
    · simp
    · rename_i pk tl
      repeat' split
      all_goals first
        | (simp only [List.length_cons]; omega)
        | (refine Nat.le_trans (ih _ _ _ _) ?_; simp)

/-- the scanner never pushes back when it starts on a digit or a period -/
theorem number_shortens (c : Char) (cs : List Char) (h : (isDigit c || c = '.') = true) :
    (number (c :: cs)).2.length < (c :: cs).length := by
  have hE : c ≠ 'E' ∧ c ≠ 'D' ∧ c ≠ 'e' ∧ c ≠ 'd' := by
    simp only [Bool.or_eq_true, decide_eq_true_eq] at h
    rcases h with h | h
    · exact ⟨ne_of_isDigit c _ h (by decide), ne_of_isDigit c _ h (by decide),
        ne_of_isDigit c _ h (by decide), ne_of_isDigit c _ h (by decide)⟩
    · subst h; decide
  obtain ⟨h1, h2, h3, h4⟩ := hE
  unfold number numberLoop
  extract_lets ch s' dg' dec' dg''
  have hch : ch = c := by simp [ch, h3, h4]
  split
  · simp
  split
  · simp
  split
  · simp
  split
  · simp
  · rename_i pk tl
    simp only [hch, h1, h2, decide_false, Bool.or_false, Bool.false_eq_true, if_false]
    repeat' split
    all_goals first
      | (simp only [List.length_cons]; omega)
      | (refine Nat.lt_of_le_of_lt (numberLoop_length_le _ _ _ _ _) ?_; simp)

theorem stringBody_length_le (cs : List Char) : (stringBody cs).2.length ≤ cs.length := by
  induction cs with
  | nil => simp [stringBody]
  | cons c cs ih =>
    unfold stringBody
    split
    · simp
    · simp only [List.length_cons]; omega

theorem string_shortens (c : Char) (cs : List Char) :
    (string (c :: cs)).2.length < (c :: cs).length := by
  simp only [string, List.tail_cons, List.length_cons]
  have := stringBody_length_le cs
  omega

theorem alphaLoop_length_lt (cs : List Char) : ∀ s d p, cs ≠ [] →
    (alphaLoop cs s d p).2.length < cs.length := by
  induction cs with
  | nil => intros; contradiction
  | cons ch0 rest ih =>
    intro s d p _
    unfold alphaLoop
    extract_lets ch s' d' r fin
    have hfin : fin.2.length < (ch0 :: rest).length := by
      simp only [fin]; split <;> simp
    repeat' split
    all_goals first
      | exact hfin
      | (simp only [List.length_cons, List.length_nil]; omega)
      | (refine Nat.lt_trans (ih _ _ _ (by simp)) ?_; simp)

theorem alphabetic_shortens (c : Char) (cs : List Char) :
    (alphabetic (c :: cs)).2.length < (c :: cs).length :=
  alphaLoop_length_lt _ _ _ _ (by simp)

theorem radixDigits_length_le (h : Bool) (cs : List Char) :
    (radixDigits h cs).2.length ≤ cs.length := by
  induction cs with
  | nil => simp [radixDigits]
  | cons c cs ih =>
    unfold radixDigits
    extract_lets ch r
    split
    · simp only [List.length_cons, r]; omega
    · simp

theorem radix_shortens (c : Char) (cs : List Char) :
    (radix (c :: cs)).2.length < (c :: cs).length := by
  unfold radix
  simp only [List.tail_cons]
  split
  · have := radixDigits_length_le true ‹List Char›
    simp only [List.length_cons] at *; omega
  · have := radixDigits_length_le true ‹List Char›
    simp only [List.length_cons] at *; omega
  · have := radixDigits_length_le false cs
    simp only [List.length_cons] at *; omega

theorem minutiaLoop_length_lt (cs : List Char) : ∀ s, cs ≠ [] →
    (minutiaLoop cs s).2.length < cs.length := by
  induction cs with
  | nil => intros; contradiction
  | cons ch rest ih =>
    intro s _
    unfold minutiaLoop
    extract_lets s'
    repeat' split
    all_goals first
      | (simp only [List.length_cons, List.length_nil]; omega)
      | (refine Nat.lt_trans (ih _ (by simp)) ?_; simp)

theorem minutia_shortens (c : Char) (cs : List Char) :
    (minutia (c :: cs)).2.length < (c :: cs).length :=
  minutiaLoop_length_lt _ _ (by simp)

theorem lexLoop_nil (f : Nat) (r : Bool) : lexLoop f [] r = [] := by
  cases f <;> rfl

/-- fuel sufficiency: any two fuels above the remaining length give the same tokens -/
theorem lexLoop_fuel (f : Nat) : ∀ (g : Nat) (cs : List Char) (r : Bool),
    cs.length < f → cs.length < g → lexLoop f cs r = lexLoop g cs r := by
  induction f with
  | zero => intro g cs r h; omega
  | succ f ih =>
    intro g cs r hf hg
    cases g with
    | zero => omega
    | succ g =>
      cases cs with
      | nil => rfl
      | cons pk cs =>
        simp only [List.length_cons] at hf hg
        unfold lexLoop
        dsimp only
        split
        · rfl
        split
        · have := whitespace_shortens pk cs
          simp only [List.length_cons] at this
          rw [ih g _ _ (by omega) (by omega)]
        split
        · rename_i hd
          have := number_shortens pk cs hd
          simp only [List.length_cons] at this
          rw [ih g _ _ (by omega) (by omega)]
        split
        · have := alphabetic_shortens pk cs
          simp only [List.length_cons] at this
          split
          · rfl
          · rw [ih g _ _ (by omega) (by omega)]
        split
        · have := string_shortens pk cs
          simp only [List.length_cons] at this
          rw [ih g _ _ (by omega) (by omega)]
        split
        · have := radix_shortens pk cs
          simp only [List.length_cons] at this
          rw [ih g _ _ (by omega) (by omega)]
        · have := minutia_shortens pk cs
          simp only [List.length_cons] at this
          rw [ih g _ _ (by omega) (by omega)]

/-- the token iterator from a lexer state (characters, remark flag), fuel hidden -/
def lexFrom (cs : List Char) (remark : Bool) : List Token := lexLoop (cs.length + 1) cs remark

theorem rawTokens_eq (cs : List Char) : rawTokens cs = lexFrom cs false := rfl

@[simp] theorem lexFrom_nil (r : Bool) : lexFrom [] r = [] := rfl

theorem lexLoop_eq_lexFrom (f : Nat) (cs : List Char) (r : Bool) (h : cs.length < f) :
    lexLoop f cs r = lexFrom cs r :=
  lexLoop_fuel f _ cs r h (by omega)

/-- one step of `Iterator::next`, with the fuel gone -/
theorem lexFrom_cons (pk : Char) (cs : List Char) (remark : Bool) :
    lexFrom (pk :: cs) remark =
      if remark then [.unknown (pk :: cs)]
      else if isWs pk then
        (whitespace (pk :: cs)).1 :: lexFrom (whitespace (pk :: cs)).2 false
      else if isDigit pk || pk = '.' then
        (number (pk :: cs)).1 :: lexFrom (number (pk :: cs)).2 false
      else if isAlpha pk then
        match (alphabetic (pk :: cs)).1 with
        | [] => []
        | t :: ts => t :: ts ++ lexFrom (alphabetic (pk :: cs)).2 (t == .word .rem1)
      else if pk = '"' then
        (string (pk :: cs)).1 :: lexFrom (string (pk :: cs)).2 false
      else if pk = '&' then
        (radix (pk :: cs)).1 :: lexFrom (radix (pk :: cs)).2 false
      else
        (minutia (pk :: cs)).1 :: lexFrom (minutia (pk :: cs)).2 ((minutia (pk :: cs)).1 == .word .rem2) := by
  unfold lexFrom
  simp only [List.length_cons]
  conv => lhs; unfold lexLoop
  dsimp only
  split
  · rfl
  split
  · have := whitespace_shortens pk cs
    simp only [List.length_cons] at this
    rw [lexLoop_fuel _ _ _ _ (by omega) (Nat.lt_succ_self _)]
  split
  · rename_i hd
    have := number_shortens pk cs hd
    simp only [List.length_cons] at this
    rw [lexLoop_fuel _ _ _ _ (by omega) (Nat.lt_succ_self _)]
  split
  · have := alphabetic_shortens pk cs
    simp only [List.length_cons] at this
    split
    · rename_i h; simp only [h]
    · rename_i t ts h; simp only [h]
      rw [lexLoop_fuel _ _ _ _ (by omega) (Nat.lt_succ_self _)]
  split
  · have := string_shortens pk cs
    simp only [List.length_cons] at this
    rw [lexLoop_fuel _ _ _ _ (by omega) (Nat.lt_succ_self _)]
  split
  · have := radix_shortens pk cs
    simp only [List.length_cons] at this
    rw [lexLoop_fuel _ _ _ _ (by omega) (Nat.lt_succ_self _)]
  · have := minutia_shortens pk cs
    simp only [List.length_cons] at this
    rw [lexLoop_fuel _ _ _ _ (by omega) (Nat.lt_succ_self _)]

end Lex
end Basic
