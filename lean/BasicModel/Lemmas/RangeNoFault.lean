import BasicModel.Lemmas.Step
import BasicModel.Model.Parse
/-
  The ranges handed to `Listing.removeRange` / `Listing.listLine` (the real code panics in
  `BTreeMap::range` when the start is greater than the end):

  * the parser's `lineNumberRange` only returns ordered pairs of line literals `m ≤ n ≤ 65529`;
  * `doList` / `doDelete` use exactly `toLineNumber` of the two top values of the stack;
  * stepping through a listing never inverts the range.

  `LineLiteralRoundTrip` is the one fact the kernel cannot compute (`Float32.ofNat` is opaque): a
  line-number literal converts back to its number.  It is validated by the differential tests
  (`toline` requests of the ops layer) and is a hypothesis wherever it is used.
-/
namespace Basic

/-- a Single literal built from a line number converts back to that line number -/
def LineLiteralRoundTrip : Prop :=
  ∀ n, n ≤ maxLineNumber → (Val.sng (F.b32 (Float32.ofNat n))).toLineNumber = .ok (some n)

namespace Parse

/-- partial correctness of a parser action, on the value only -/
structure Ret {α : Type} (m : PM α) (Q : α → Prop) : Prop where
  out : ∀ s a s', m.run s = .ok (a, s') → Q a

theorem Ret.pure {α} {Q : α → Prop} {a : α} (h : Q a) : Ret (pure a : PM α) Q :=
  ⟨fun s a' s' hr => by cases hr; exact h⟩

theorem Ret.bind {α β} {Q : α → Prop} {R : β → Prop} {m : PM α} {k : α → PM β}
    (hm : Ret m Q) (hk : ∀ a, Q a → Ret (k a) R) : Ret (m >>= k) R := by
  constructor
  intro s b s' hr
  simp only [StateT.run_bind] at hr
  cases hms : m.run s with
  | error e => rw [hms] at hr; cases hr
  | ok p =>
    rw [hms] at hr
    exact (hk p.1 (hm.out s p.1 p.2 hms)).out p.2 b s' hr

theorem Ret.any {α} (m : PM α) : Ret m (fun _ => True) := ⟨fun _ _ _ _ => trivial⟩

theorem Ret.fail {α} {Q : α → Prop} (code : Nat) (c : Col) (msg : String) : Ret (fail code c msg : PM α) Q :=
  ⟨fun s a s' hr => by cases hr⟩

theorem Ret.failHere {α} {Q : α → Prop} (code : Nat) (msg : String) : Ret (failHere code msg : PM α) Q :=
  ⟨fun s a s' hr => by cases hr⟩

theorem ret_lineNumberOf (s : Str) :
    Ret (do
      let _ ← next
      match Fmt.parseU16 s with
      | some n => if n ≤ maxLineNumber then pure (some n) else failHere Code.undefinedLine "INVALID LINE NUMBER"
      | none => failHere Code.undefinedLine "INVALID LINE NUMBER" : PM (Option Nat))
      (fun o => ∀ n, o = some n → n ≤ maxLineNumber) := by
  refine Ret.bind (Ret.any _) (fun _ _ => ?_)
  split
  · split
    · rename_i n _ hle
      exact Ret.pure (fun k hk => by cases hk; exact hle)
    · exact Ret.failHere _ _
  · exact Ret.failHere _ _

theorem ret_maybeLineNumber : Ret maybeLineNumber (fun o => ∀ n, o = some n → n ≤ maxLineNumber) := by
  unfold maybeLineNumber
  refine Ret.bind (Ret.any _) (fun t _ => ?_)
  split
  · exact ret_lineNumberOf _
  · exact ret_lineNumberOf _
  · exact ret_lineNumberOf _
  · exact Ret.pure (fun k hk => nomatch hk)

/-- **the parser only returns ordered ranges**: both ends are line literals, `m ≤ n ≤ 65529` -/
theorem lineNumberRange_ordered :
    Ret lineNumberRange (fun p => ∃ ca cb m n, p = (lineExpr ca m, lineExpr cb n) ∧ m ≤ n ∧ n ≤ maxLineNumber) := by
  unfold lineNumberRange
  refine Ret.bind (Ret.any _) (fun c0 _ => ?_)
  refine Ret.bind (Q := fun p => (∃ c, p.1 = lineExpr c p.2.1) ∧ p.2.1 ≤ maxLineNumber ∧ p.2.2 ≤ maxLineNumber) ?_
    (fun p hp => ?_)
  · refine Ret.bind ret_maybeLineNumber (fun o ho => ?_)
    split
    · rename_i n
      exact Ret.bind (Ret.any _) (fun c _ => Ret.pure ⟨⟨c, rfl⟩, ho n rfl, ho n rfl⟩)
    · exact Ret.bind (Ret.any _) (fun c _ => Ret.pure ⟨⟨_, rfl⟩, Nat.zero_le _, Nat.le_refl _⟩)
  · obtain ⟨from_, fromNum, toNum0⟩ := p
    obtain ⟨⟨cf, hf⟩, hfn, ht0⟩ := hp
    dsimp only at hf hfn ht0
    refine Ret.bind (Q := fun q => (∃ c, q.1 = lineExpr c q.2) ∧ q.2 ≤ maxLineNumber) ?_ (fun q hq => ?_)
    · refine Ret.bind (Ret.any _) (fun b _ => ?_)
      split
      · refine Ret.bind ret_maybeLineNumber (fun o ho => ?_)
        split
        · rename_i n
          exact Ret.bind (Ret.any _) (fun c _ => Ret.pure ⟨⟨c, rfl⟩, ho n rfl⟩)
        · exact Ret.bind (Ret.any _) (fun c _ => Ret.pure ⟨⟨_, rfl⟩, Nat.le_refl _⟩)
      · exact Ret.bind (Ret.any _) (fun c _ => Ret.pure ⟨⟨_, rfl⟩, ht0⟩)
    · obtain ⟨to_, toNum⟩ := q
      obtain ⟨⟨ct, ht⟩, htn⟩ := hq
      dsimp only at ht htn ⊢
      split
      · exact Ret.bind (Ret.any _) (fun _ _ => Ret.fail _ _ _)
      · rename_i hle
        refine Ret.pure ⟨cf, ct, fromNum, toNum, ?_, Nat.le_of_not_gt hle, htn⟩
        rw [hf, ht]

end Parse

namespace Listing

theorem inverted_some (a b : Nat) : inverted (some a) (some b) = decide (b < a) := rfl

/-- the continuation range of `listLine` is not inverted when the range was not -/
theorem listLine_next_not_inverted (l : Listing) (lo hi : Option Nat) (x : Str × List (Nat × Nat))
    (r : Option Nat × Option Nat) (h : l.listLine lo hi = some (x, r)) : inverted r.1 r.2 = false := by
  unfold listLine at h
  split at h
  · cases h
  · rename_i n line hf
    have hin := List.find?_some hf
    dsimp only at h
    cases h
    cases hi with
    | none => simp [inverted]
    | some b =>
      dsimp only
      split
      · rename_i hlt
        simp only [inverted, decide_eq_false_iff_not, Nat.not_lt]
        omega
      · simp [inverted]

end Listing

namespace Runtime

/-- LIST: the listing state entered carries exactly `toLineNumber` of the two top values -/
theorem doList_range (s : Runtime) (stk : Array Val) (a b : Val) (lo hi : Option Nat)
    (h : s.stack = (stk.push a).push b) (ha : a.toLineNumber = .ok lo) (hb : b.toLineNumber = .ok hi) :
    doList.run.run s = (.ok (), { s with stack := stk, state := .listing lo hi }) := by
  unfold doList pop2
  simp only [run_bind, run_pop, h, Array.back?_push, Array.pop_push, run_pure, run_liftE, ha, hb, run_modify]

theorem doEnd_listing (s : Runtime) : (doEnd s).listing = s.listing := by
  unfold doEnd; dsimp only
  split <;> split <;> rfl

/-- DELETE: the range removed is exactly `toLineNumber` of the two top values -/
theorem doDelete_range (s : Runtime) (stk : Array Val) (a b : Val) (lo hi : Option Nat)
    (h : s.stack = (stk.push a).push b) (ha : a.toLineNumber = .ok lo) (hb : b.toLineNumber = .ok hi) :
    (doDelete.run.run s).2.listing = (s.listing.removeRange lo hi).1 := by
  unfold doDelete pop2
  simp only [run_bind, run_pop, h, Array.back?_push, Array.pop_push, run_pure, run_liftE, ha, hb, run_get]
  have hrm : (s.listing.removeRange lo hi).2 = false → (s.listing.removeRange lo hi).1 = s.listing := by
    unfold Listing.removeRange
    split
    · intro hc; cases hc
    · intro _; rfl
  generalize s.listing.removeRange lo hi = r at hrm
  obtain ⟨l, removed⟩ := r
  cases removed with
  | true => simp only [if_true, run_bind, run_set, run_modify, run_pure]; exact doEnd_listing _
  | false =>
    simp only [Bool.false_eq_true, if_false, run_bind, run_pure, run_modify]
    rw [doEnd_listing]; exact (hrm rfl).symm

/-- with the two literals of an ordered range on top of the stack — what the code of a parsed
    LIST / DELETE pushes — neither statement is handed an inverted range -/
theorem range_literals_not_inverted (hrt : LineLiteralRoundTrip) (m n : Nat) (hmn : m ≤ n) (hn : n ≤ maxLineNumber) :
    (Val.sng (F.b32 (Float32.ofNat m))).toLineNumber = .ok (some m) ∧
    (Val.sng (F.b32 (Float32.ofNat n))).toLineNumber = .ok (some n) ∧
    Listing.inverted (some m) (some n) = false :=
  ⟨hrt m (Nat.le_trans hmn hn), hrt n hn, by simp [Listing.inverted_some]; omega⟩

end Runtime
end Basic
