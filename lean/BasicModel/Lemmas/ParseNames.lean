import BasicModel.Lemmas.NameOk
/-
  The parser only puts identifier-token texts into the AST: if every identifier token of the input
  is `Letter1`, every `Variable` of the result is `VarOk` (`parse_stmtsOk`).

  A logical relation over `PM`: `HasOk α` says which values of type `α` are fine (by type),
  `Pres m` that `m`, started in a state whose tokens are fine, returns a fine value and a fine state.
-/
namespace Basic
namespace Lemmas.ParseNames
open Parse

class HasOk (α : Type) where
  ok : α → Prop

export HasOk (ok)

def TokOk (t : Token) : Prop := ∀ i, t = .ident i → Letter1 i.name
def StOk (s : PState) : Prop := (∀ t ∈ s.toks, TokOk t) ∧ (∀ t, s.peeked = some t → TokOk t)

instance : HasOk Token := ⟨TokOk⟩
instance : HasOk TIdent := ⟨fun i => Letter1 i.name⟩
instance : HasOk Variable := ⟨VarOk⟩
instance : HasOk Expr := ⟨ExprOk⟩
instance : HasOk Stmt := ⟨StmtOk⟩
instance : HasOk PState := ⟨StOk⟩
instance : HasOk Unit := ⟨fun _ => True⟩
instance : HasOk Bool := ⟨fun _ => True⟩
instance : HasOk Nat := ⟨fun _ => True⟩
instance : HasOk Char := ⟨fun _ => True⟩
instance : HasOk Str := ⟨fun _ => True⟩
instance {α} [HasOk α] : HasOk (Option α) := ⟨fun o => ∀ a, o = some a → ok a⟩
instance {α} [HasOk α] : HasOk (List α) := ⟨fun l => ∀ a ∈ l, ok a⟩
instance {α β} [HasOk α] [HasOk β] : HasOk (α × β) := ⟨fun p => ok p.1 ∧ ok p.2⟩

theorem ok_token (t : Token) : ok t ↔ TokOk t := Iff.rfl
theorem ok_tident (i : TIdent) : ok i ↔ Letter1 i.name := Iff.rfl
theorem ok_variable (v : Variable) : ok v ↔ VarOk v := Iff.rfl
theorem ok_expr (e : Expr) : ok e ↔ ExprOk e := Iff.rfl
theorem ok_stmt (s : Stmt) : ok s ↔ StmtOk s := Iff.rfl
theorem ok_pstate (s : PState) : ok s ↔ StOk s := Iff.rfl
theorem ok_unit (u : Unit) : ok u ↔ True := Iff.rfl
theorem ok_bool (u : Bool) : ok u ↔ True := Iff.rfl
theorem ok_nat (u : Nat) : ok u ↔ True := Iff.rfl
theorem ok_char (u : Char) : ok u ↔ True := Iff.rfl
theorem ok_str (u : Str) : ok u ↔ True := Iff.rfl
theorem ok_option {α} [HasOk α] (o : Option α) : ok o ↔ ∀ a, o = some a → ok a := Iff.rfl
theorem ok_list {α} [HasOk α] (l : List α) : ok l ↔ ∀ a ∈ l, ok a := Iff.rfl
theorem ok_prod {α β} [HasOk α] [HasOk β] (p : α × β) : ok p ↔ ok p.1 ∧ ok p.2 := Iff.rfl

theorem ok_exprs (es : List Expr) : ok es ↔ ExprsOk es := by
  rw [exprsOk_iff]; exact Iff.rfl
theorem ok_stmts (ss : List Stmt) : ok ss ↔ StmtsOk ss := by
  rw [stmtsOk_iff]; exact Iff.rfl
theorem ok_vars (vs : List Variable) : ok vs ↔ VarsOk vs := Iff.rfl

/-- partial correctness: from a fine state, a successful run yields a fine value and a fine state -/
structure Pres {α} [HasOk α] (m : PM α) : Prop where
  run : ∀ s, StOk s → ∀ a s', m.run s = .ok (a, s') → ok a ∧ StOk s'

/-- a proof obligation about a returned value (a wrapper, so that the automation leaves it alone) -/
structure Leaf (p : Prop) : Prop where
  out : p

theorem Pres.pure {α} [HasOk α] {a : α} (h : Leaf (ok a)) : Pres (pure a : PM α) := by
  refine ⟨fun s hs a' s' hr => ?_⟩
  cases hr
  exact ⟨h.out, hs⟩

theorem Pres.bind {α β} [HasOk α] [HasOk β] {m : PM α} {k : α → PM β}
    (hm : Pres m) (hk : ∀ a, ok a → Pres (k a)) : Pres (m >>= k) := by
  refine ⟨fun s hs b s' hr => ?_⟩
  simp only [StateT.run_bind] at hr
  cases hms : m.run s with
  | error e => rw [hms] at hr; cases hr
  | ok p =>
    rw [hms] at hr
    obtain ⟨ha, hs1⟩ := hm.run s hs p.1 p.2 hms
    exact (hk p.1 ha).run p.2 hs1 b s' hr

theorem Pres.throw {α} [HasOk α] (e : Error) : Pres (throw e : PM α) :=
  ⟨fun s _ a s' hr => by cases hr⟩

theorem Pres.get : Pres (get : PM PState) :=
  ⟨fun s hs a s' hr => by cases hr; exact ⟨hs, hs⟩⟩

theorem Pres.set {s0 : PState} (h : StOk s0) : Pres (set s0 : PM PUnit) :=
  ⟨fun s _ a s' hr => by cases hr; exact ⟨trivial, h⟩⟩

theorem Pres.modify {f : PState → PState} (h : ∀ s, StOk s → StOk (f s)) : Pres (modify f : PM PUnit) :=
  ⟨fun s hs a s' hr => by cases hr; exact ⟨trivial, h s hs⟩⟩

theorem Pres.fail {α} [HasOk α] (code : Nat) (c : Col) (msg : String) : Pres (fail code c msg : PM α) :=
  Pres.throw _

theorem Pres.col : Pres col :=
  ⟨fun s hs a s' hr => by cases hr; exact ⟨⟨trivial, trivial⟩, hs⟩⟩

theorem Pres.failHere {α} [HasOk α] (code : Nat) (msg : String) : Pres (failHere code msg : PM α) :=
  ⟨fun s hs a s' hr => by cases hr⟩

theorem Pres.outOfFuel {α} [HasOk α] : Pres (outOfFuel : PM α) := Pres.throw _

/-! ### the token source -/

theorem nextLoop_ok (ts : List Token) (rem : Bool) (cs ce : Nat) (h : ∀ t ∈ ts, TokOk t) :
    (∀ t, (nextLoop ts rem cs ce).1 = some t → TokOk t) ∧ (∀ t ∈ (nextLoop ts rem cs ce).2.1, TokOk t) := by
  induction ts generalizing rem cs ce with
  | nil => simp [nextLoop]
  | cons t ts ih =>
    have ht : TokOk t := h t (by simp)
    have hts : ∀ t ∈ ts, TokOk t := fun t' h' => h t' (by simp [h'])
    unfold nextLoop
    dsimp only
    split
    · exact ih _ _ _ hts
    · split
      · exact ih _ _ _ hts
      · refine ⟨?_, hts⟩
        intro t' h'
        cases h'
        exact ht

theorem Pres.next : Pres next := by
  unfold Parse.next
  refine Pres.bind Pres.get (fun s hs => ?_)
  split
  · rename_i t ht
    refine Pres.bind (Pres.set ⟨hs.1, fun t' h' => by cases h'⟩) (fun _ _ => Pres.pure ⟨?_⟩)
    intro a ha; cases ha; exact hs.2 t ht
  · rename_i hp
    have hn := nextLoop_ok s.toks s.rem s.cs s.ce hs.1
    generalize nextLoop s.toks s.rem s.cs s.ce = r at hn
    obtain ⟨t, ts, rem, cs, ce⟩ := r
    exact Pres.bind (Pres.set ⟨hn.2, fun t' h' => by rw [hp] at h'; cases h'⟩) (fun _ _ => Pres.pure ⟨hn.1⟩)

theorem Pres.peek : Pres peek := by
  unfold Parse.peek
  refine Pres.bind Pres.get (fun s hs => ?_)
  split
  · rename_i t ht
    exact Pres.pure ⟨fun a ha => by cases ha; exact hs.2 t ht⟩
  · refine Pres.bind Pres.next (fun t ht => ?_)
    refine Pres.bind (Pres.modify (fun s hs => ⟨hs.1, fun t' h' => ht t' h'⟩)) (fun _ _ => Pres.pure ⟨ht⟩)

theorem Pres.maybe (tok : Token) : Pres (maybe tok) := by
  unfold Parse.maybe
  refine Pres.bind Pres.peek (fun t _ => ?_)
  split
  · split
    · exact Pres.bind Pres.next (fun _ _ => Pres.pure ⟨trivial⟩)
    · exact Pres.pure ⟨trivial⟩
  · exact Pres.pure ⟨trivial⟩

theorem Pres.expect (tok : Token) : Pres (expect tok) := by
  unfold Parse.expect
  refine Pres.bind Pres.next (fun t _ => ?_)
  split
  · split
    · exact Pres.pure ⟨trivial⟩
    · exact Pres.failHere _ _
  · exact Pres.failHere _ _

/-! ### automation -/

/-- unfold `ok` at every type, and the AST predicates at constructors -/
macro "ok_simp" : tactic => `(tactic|
  simp_all only [ok_token, ok_tident, ok_variable, ok_expr, ok_stmt, ok_unit, ok_bool, ok_nat, ok_char, ok_str,
    ok_option, ok_prod, ok_list, TokOk, VarOk, ExprOk, Parse.lineExpr, exprsOk_iff, stmtsOk_iff, StmtOk, VarsOk, NameOk,
    Option.some.injEq, Token.ident.injEq, forall_eq', forall_eq, and_self, and_true, true_and, implies_true,
    reduceCtorEq, false_implies, List.mem_cons, List.mem_nil_iff, or_false, forall_eq_or_imp, List.not_mem_nil,
    List.mem_append, List.mem_singleton, or_true, true_or, List.mem_map, forall_exists_index,
    forall_apply_eq_imp_iff₂, or_imp, forall_and])

/-- close the leaves: induction hypotheses and obligations about returned values -/
macro "pres_close" : tactic => `(tactic| (
  all_goals first | (solve_by_elim) | skip
  all_goals first | (refine ⟨?_⟩; first | trivial | (ok_simp; done)) | skip
  all_goals first | (apply_assumption <;> first | trivial | (ok_simp; done)) | skip))

macro "pres_step" : tactic => `(tactic| first
  | exact Pres.col | exact Pres.next | exact Pres.peek | exact Pres.maybe _ | exact Pres.expect _
  | exact Pres.failHere _ _ | exact Pres.fail _ _ _ | exact Pres.throw _ | exact Pres.outOfFuel | exact Pres.get
  | apply Pres.bind
  | apply Pres.pure
  | intro _ _
  | dsimp only
  | split
  )

theorem lookup_ok (vm : VarMap) (i : TIdent) (v : Variable) (h : ok vm) (hl : vm.lookup i = some v) : ok v := by
  induction vm with
  | nil => cases hl
  | cons p vm ih =>
    obtain ⟨k, w⟩ := p
    simp only [List.lookup] at hl
    split at hl
    · cases hl; exact (h (k, v) (by simp)).2
    · exact ih (fun a ha => h a (by simp [ha])) hl

theorem Pres.literal (c : Col) (l : Literal) : Pres (literal c l) := by
  unfold Parse.literal
  repeat' pres_step
  pres_close

theorem descend_step (f : Nat)
    (hd : ∀ vm p, ok vm → Pres (descend f vm p))
    (hb : ∀ vm p l, ok vm → ok l → Pres (binLoop f vm p l))
    (he : ∀ vm, ok vm → Pres (exprList f vm)) :
    ∀ vm p, ok vm → Pres (descend (f+1) vm p) := by
  intro vm p hvm
  simp only [descend]
  repeat' pres_step
  pres_close
  · exact ⟨lookup_ok _ _ _ hvm (by assumption)⟩
  · exact Pres.literal _ _

theorem binLoop_step (f : Nat)
    (hd : ∀ vm p, ok vm → Pres (descend f vm p))
    (hb : ∀ vm p l, ok vm → ok l → Pres (binLoop f vm p l)) :
    ∀ vm p l, ok vm → ok l → Pres (binLoop (f+1) vm p l) := by
  intro vm p l hvm hl
  simp only [binLoop]
  repeat' pres_step
  pres_close

theorem exprList_step (f : Nat)
    (hd : ∀ vm p, ok vm → Pres (descend f vm p))
    (he : ∀ vm, ok vm → Pres (exprList f vm)) :
    ∀ vm, ok vm → Pres (exprList (f+1) vm) := by
  intro vm hvm
  simp only [exprList]
  repeat' pres_step
  pres_close

theorem expr_pres (f : Nat) :
    (∀ vm p, ok vm → Pres (descend f vm p)) ∧
    (∀ vm p l, ok vm → ok l → Pres (binLoop f vm p l)) ∧
    (∀ vm, ok vm → Pres (exprList f vm)) := by
  induction f with
  | zero =>
    refine ⟨fun vm p _ => ?_, fun vm p l _ _ => ?_, fun vm _ => ?_⟩
    · rw [descend]; exact Pres.outOfFuel
    · rw [binLoop]; exact Pres.outOfFuel
    · rw [exprList]; exact Pres.outOfFuel
  | succ f ih =>
    exact ⟨descend_step f ih.1 ih.2.1 ih.2.2, binLoop_step f ih.1 ih.2.1, exprList_step f ih.1 ih.2.2⟩

theorem ok_nil_vm : ok ([] : VarMap) := fun _ h => by cases h

theorem Pres.expression (f : Nat) : Pres (expression f) := (expr_pres f).1 [] 0 ok_nil_vm
theorem Pres.exprList (f : Nat) : Pres (exprList f []) := (expr_pres f).2.2 [] ok_nil_vm

macro_rules | `(tactic| pres_step) => `(tactic| first
  | exact Pres.expression _ | exact Pres.exprList _ | exact Pres.literal _ _)

/-! ### the list parsers -/

theorem Pres.printList (fuel : Nat) : ∀ n lf acc, ok acc → Pres (printList fuel n lf acc) := by
  intro n
  induction n with
  | zero => intro lf acc _; rw [Parse.printList]; exact Pres.outOfFuel
  | succ n ih =>
    intro lf acc hacc
    rw [Parse.printList]
    repeat' pres_step
    pres_close
    apply ih
    have hTab : Letter1 (TIdent.string "TAB".toList).name := by decide
    ok_simp

theorem Pres.expectIdent : Pres expectIdent := by
  unfold Parse.expectIdent
  repeat' pres_step
  pres_close

macro_rules | `(tactic| pres_step) => `(tactic| exact Pres.expectIdent)

theorem Pres.identList : ∀ n e acc, ok acc → Pres (identList n e acc) := by
  intro n
  induction n with
  | zero => intro e acc _; rw [Parse.identList]; exact Pres.outOfFuel
  | succ n ih =>
    intro e acc hacc
    rw [Parse.identList]
    repeat' pres_step
    pres_close

theorem Pres.expectVar (fuel : Nat) : Pres (expectVar fuel) := by
  unfold Parse.expectVar
  repeat' pres_step
  pres_close

macro_rules | `(tactic| pres_step) => `(tactic| exact Pres.expectVar _)

theorem Pres.varList (fuel : Nat) : ∀ n, Pres (varList fuel n) := by
  intro n
  induction n with
  | zero => rw [Parse.varList]; exact Pres.outOfFuel
  | succ n ih =>
    rw [Parse.varList]
    repeat' pres_step
    pres_close

theorem Pres.maybeLineNumber : Pres maybeLineNumber := by
  unfold Parse.maybeLineNumber
  repeat' pres_step
  pres_close

macro_rules | `(tactic| pres_step) => `(tactic| exact Pres.maybeLineNumber)

theorem ok_lineExpr (c : Col) (n : Nat) : ok (lineExpr c n) := trivial

theorem Pres.expectLineNumber : Pres expectLineNumber := by
  unfold Parse.expectLineNumber
  repeat' pres_step
  pres_close

macro_rules | `(tactic| pres_step) => `(tactic| exact Pres.expectLineNumber)

theorem Pres.lineNumberList : ∀ n e acc, ok acc → Pres (lineNumberList n e acc) := by
  intro n
  induction n with
  | zero => intro e acc _; rw [Parse.lineNumberList]; exact Pres.outOfFuel
  | succ n ih =>
    intro e acc hacc
    rw [Parse.lineNumberList]
    repeat' pres_step
    pres_close

theorem Pres.lineNumberRange : Pres lineNumberRange := by
  unfold Parse.lineNumberRange
  repeat' pres_step
  pres_close

theorem Pres.varRange : Pres varRange := by
  unfold Parse.varRange
  repeat' pres_step
  pres_close

theorem Pres.skipToEnd : ∀ n, Pres (skipToEnd n) := by
  intro n
  induction n with
  | zero => rw [Parse.skipToEnd]; exact Pres.outOfFuel
  | succ n ih =>
    rw [Parse.skipToEnd]
    repeat' pres_step
    pres_close

macro_rules | `(tactic| pres_step) => `(tactic| first
  | exact Pres.lineNumberRange | exact Pres.varRange | exact Pres.skipToEnd _ | exact Pres.varList _ _
  | exact Pres.identList _ _ _ (fun _ h => by cases h) | exact Pres.lineNumberList _ _ _ (fun _ h => by cases h)
  | exact Pres.printList _ _ _ _ (fun _ h => by cases h))

/-! ### statements -/

theorem mangle_name (f p : TIdent) : (mangle f p).name = f.name ++ '.' :: p.name := by
  cases p <;> rfl

theorem mangle_ok (f p : TIdent) (hf : Letter1 f.name) : Letter1 (mangle f p).name := by
  rw [mangle_name]; exact hf.append _

theorem Pres.letStmt (f : Nat) (b : Bool) : Pres (letStmt f b) := by
  unfold Parse.letStmt
  repeat' pres_step
  pres_close

theorem Pres.inputStmt (f : Nat) : Pres (inputStmt f) := by
  unfold Parse.inputStmt
  repeat' pres_step
  pres_close

theorem Pres.renumStmt : Pres renumStmt := by
  unfold Parse.renumStmt
  repeat' pres_step
  pres_close

theorem vm_foldl_ok (fn : TIdent) (hf : Letter1 fn.name) (ids : List (Col × TIdent)) (hids : ok ids) :
    ∀ m : VarMap, ok m →
      ok (ids.foldl (fun m (p : Col × TIdent) => (p.2, Variable.unary p.1 (mangle fn p.2)) :: m) m) := by
  induction ids with
  | nil => intro m hm; exact hm
  | cons p ids ih =>
    intro m hm
    simp only [List.foldl_cons]
    apply ih (fun a ha => hids a (by simp [ha]))
    intro a ha
    simp only [List.mem_cons] at ha
    rcases ha with rfl | ha
    · exact ⟨(hids p (by simp)).2, (mangle_ok fn p.2 hf).nameOk⟩
    · exact hm a ha

theorem Pres.defStmt (f : Nat) : Pres (defStmt f) := by
  unfold Parse.defStmt
  repeat' pres_step
  pres_close
  · rename_i ident _ _ _ _ _ _ ids hids _ _ _ _
    have hf : Letter1 ident.name := by ok_simp
    exact (expr_pres f).1 _ 0 (vm_foldl_ok ident hf ids hids [] ok_nil_vm)
  · rename_i ident hid _ _ _ _ _ ids hids _ _ _ _ e he
    have hf : Letter1 ident.name := by ok_simp
    refine ⟨⟨hf.nameOk, ?_, he⟩⟩
    intro v hv
    simp only [List.mem_map] at hv
    obtain ⟨p, _, rfl⟩ := hv
    exact (mangle_ok ident p.2 hf).nameOk

macro_rules | `(tactic| pres_step) => `(tactic| first
  | exact Pres.letStmt _ _ | exact Pres.inputStmt _ | exact Pres.renumStmt | exact Pres.defStmt _)

theorem ifStmt_step (f : Nat) (hs : ∀ ec acc, ok acc → Pres (statements f ec acc)) : Pres (ifStmt f) := by
  unfold Parse.ifStmt
  repeat' pres_step
  pres_close

theorem unary_map_ok (ids : List (Col × TIdent)) (h : ok ids) :
    VarsOk (ids.map fun x => Variable.unary x.1 x.2) := by
  intro v hv
  simp only [List.mem_map] at hv
  obtain ⟨p, hp, rfl⟩ := hv
  exact (h p hp).2.nameOk

set_option maxHeartbeats 1000000 in
theorem statement_step (f : Nat) (hs : ∀ ec acc, ok acc → Pres (statements f ec acc)) :
    Pres (statement (f+1)) := by
  have hif := ifStmt_step f hs
  rw [Parse.statement]
  refine Pres.bind Pres.peek (fun t ht => ?_)
  split
  · exact Pres.letStmt _ _
  · rename_i w
    refine Pres.bind Pres.next (fun _ _ => ?_)
    cases w <;> dsimp only
    all_goals (repeat' pres_step)
    all_goals pres_close
    · exact ⟨unary_map_ok _ (by assumption)⟩
    · refine ⟨?_⟩
      intro v hv
      simp only [List.mem_singleton] at hv
      subst hv
      exact NameOk.nil
    · exact ⟨unary_map_ok _ (by assumption)⟩
  · exact Pres.failHere _ _

theorem statements_step (f : Nat) (hst : Pres (statement f))
    (hs : ∀ ec acc, ok acc → Pres (statements f ec acc)) :
    ∀ ec acc, ok acc → Pres (statements (f+1) ec acc) := by
  intro ec acc hacc
  rw [Parse.statements]
  repeat' pres_step
  pres_close

theorem stmt_pres (f : Nat) :
    (∀ ec acc, ok acc → Pres (statements f ec acc)) ∧ Pres (statement f) := by
  induction f with
  | zero =>
    refine ⟨fun ec acc _ => ?_, ?_⟩
    · rw [Parse.statements]; exact Pres.outOfFuel
    · rw [Parse.statement]; exact Pres.outOfFuel
  | succ f ih => exact ⟨statements_step f ih.2 ih.1, statement_step f ih.1⟩

/-- all identifier tokens of a token list are `Letter1` -/
def ToksOk (ts : List Token) : Prop := ∀ i, Token.ident i ∈ ts → Letter1 i.name

/-- **the parser only puts identifier-token texts into `Variable` nodes** (plus the `FNname.`
    prefix of parameters, `TAB` for the print zones and the empty dummy of a bare NEXT) -/
theorem parseTokens_stmtsOk (ts : List Token) (h : ToksOk ts) (ast : List Stmt)
    (hp : parseTokens ts = .ok ast) : StmtsOk ast := by
  unfold parseTokens at hp
  have hpres : Pres (do
      match ← peek with
      | some (.literal (.integer _)) | some (.literal (.single _)) | some (.literal (.double _)) =>
        failHere Code.undefinedLine "INVALID LINE NUMBER"
      | _ => statements (fuelFor ts) false [] : PM (List Stmt)) := by
    refine Pres.bind Pres.peek (fun t _ => ?_)
    split
    · exact Pres.failHere _ _
    · exact Pres.failHere _ _
    · exact Pres.failHere _ _
    · exact (stmt_pres _).1 false [] (fun _ h => by cases h)
  dsimp only at hp
  generalize hrun : StateT.run _ ({ toks := ts } : PState) = r at hp
  cases r with
  | error e => cases hp
  | ok p =>
    cases hp
    have := hpres.run { toks := ts } ⟨fun t ht i hi => h i (hi ▸ ht), fun t ht => by cases ht⟩ p.1 p.2 hrun
    exact (ok_stmts _).1 this.1

theorem parse_stmtsOk (ln : Option Nat) (ts : List Token) (h : ToksOk ts) (ast : List Stmt)
    (hp : parse ln ts = .ok ast) : StmtsOk ast := by
  unfold parse at hp
  split at hp
  · cases hp; exact parseTokens_stmtsOk ts h _ (by assumption)
  · cases hp

end Lemmas.ParseNames
end Basic
