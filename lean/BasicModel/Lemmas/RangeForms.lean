import BasicModel.Model.Parse
import BasicModel.Model.Runtime
import BasicModel.Lemmas.C19
import BasicModel.Lemmas.LexNumber
/-
  Statement-level lemmas for C15: the operand parser of LIST / DELETE (`Parse.lineNumberRange`),
  the refusal of a bare DELETE by `Parse.statement`, and the runtime statements `doDelete`,
  `doList` and the LIST states of `execute`.

  The parser part steps the monad on explicit states `st0 ts cs ce` (no look-ahead, no remark seen);
  arbitrary runs of `.whitespace _` tokens are allowed before every operand token (`AllWs`).
  The runtime part runs `RM` actions as `(m.run).run s`; its run lemmas are local (`rm_…`) so that
  this file belongs to neither of the two runtime lemma chains.
-/
set_option linter.unusedSimpArgs false
namespace Basic
namespace Lemmas.RangeForms
open Parse Lemmas.C19

/-! ### parser states and `nextLoop` -/

/-- a parser state without look-ahead in which no remark has been seen -/
def st0 (ts : List Token) (cs ce : Nat) : PState :=
  { toks := ts, peeked := none, rem := false, cs := cs, ce := ce }

/-- the state in which the token `t` has been peeked (columns `cs`, `ce` are those of `t`) -/
def stPeeked (t : Token) (ts : List Token) (cs ce : Nat) : PState :=
  { toks := ts, peeked := some t, rem := false, cs := cs, ce := ce }

/-- the state `peek` leaves behind when started without look-ahead -/
def afterPeek (ts : List Token) (rem : Bool) (cs ce : Nat) : PState :=
  let r := nextLoop ts rem cs ce
  { toks := r.2.1, peeked := r.1, rem := r.2.2.1, cs := r.2.2.2.1, ce := r.2.2.2.2 }

/-- the token `peek` delivers when started without look-ahead -/
def peekTok (ts : List Token) (rem : Bool) (cs ce : Nat) : Option Token := (nextLoop ts rem cs ce).1

/-- width of a run of tokens as listed -/
def width (ws : List Token) : Nat := (printTokens ws).length

/-- neither whitespace nor a remark word: `nextLoop` hands such a token out -/
def Solid (t : Token) : Prop := (∀ n, t ≠ .whitespace n) ∧ isRem t = false

theorem nextLoop_cs (ts : List Token) (r : Bool) (cs cs' ce : Nat) :
    nextLoop ts r cs ce = nextLoop ts r cs' ce := by
  cases ts with
  | nil => simp [nextLoop]
  | cons t ts => cases t <;> simp [nextLoop]

theorem nextLoop_ws_append (ws ts : List Token) (h : AllWs ws) (cs ce : Nat) :
    nextLoop (ws ++ ts) false cs ce = nextLoop ts false cs (ce + width ws) := by
  induction ws generalizing cs ce with
  | nil => simp [width, printTokens]
  | cons w ws ih =>
    obtain ⟨n, rfl⟩ := h _ List.mem_cons_self
    have h' : AllWs ws := fun t ht => h t (List.mem_cons_of_mem _ ht)
    rw [List.cons_append, nextLoop_ws, ih h', nextLoop_cs _ _ ce cs]
    simp only [width, printTokens_length_cons, Nat.add_assoc]

theorem nextLoop_solid (ws : List Token) (t : Token) (ts : List Token) (h : AllWs ws) (ht : Solid t)
    (cs ce : Nat) :
    nextLoop (ws ++ t :: ts) false cs ce
      = (some t, ts, false, ce + width ws, ce + width ws + t.text.length) := by
  rw [nextLoop_ws_append ws _ h, nextLoop_tok t ts _ _ ht.2 ht.1]

/-- when `nextLoop` delivers nothing the tokens are used up and the column range is empty -/
theorem nextLoop_none (ts : List Token) (r : Bool) (cs ce : Nat) (h : (nextLoop ts r cs ce).1 = none) :
    ∃ r' c, nextLoop ts r cs ce = (none, [], r', c, c) := by
  induction ts generalizing r cs ce with
  | nil => exact ⟨r, ce, by simp [nextLoop]⟩
  | cons t ts ih =>
    unfold nextLoop at h ⊢
    simp only at h ⊢
    split
    · rename_i hr; rw [if_pos hr] at h; exact ih _ _ _ h
    · rename_i hr
      rw [if_neg hr] at h
      split
      · rename_i n; exact ih _ _ _ h
      · rename_i hn
        split at h
        · exact absurd rfl (hn _)
        · cases h

/-! ### `next`, `peek`, `maybe`, `col` as equations on `run` -/

theorem ok_bind {ε α β} (a : α) (f : α → Except ε β) : (Except.ok a >>= f) = f a := rfl
theorem error_bind {ε α β} (e : ε) (f : α → Except ε β) : (Except.error e >>= f) = .error e := rfl

theorem col_run (st : PState) : col.run st = .ok ((st.cs, st.ce), st) := rfl

theorem next_run_peeked (st : PState) (t : Token) (h : st.peeked = some t) :
    next.run st = .ok (some t, { st with peeked := none }) := by
  simp [next, h, StateT.run, bind, StateT.bind, get, getThe, MonadStateOf.get, StateT.get, set,
    StateT.set, pure, StateT.pure, Except.bind, Except.pure]

theorem peek_run_peeked (st : PState) (t : Token) (h : st.peeked = some t) :
    peek.run st = .ok (some t, st) := by
  simp [peek, h, StateT.run, bind, StateT.bind, get, getThe, MonadStateOf.get, StateT.get,
    pure, StateT.pure, Except.bind, Except.pure]

theorem peek_run_none (st : PState) (h : st.peeked = none) :
    peek.run st = .ok (peekTok st.toks st.rem st.cs st.ce, afterPeek st.toks st.rem st.cs st.ce) := by
  obtain ⟨toks, peeked, rem, cs, ce⟩ := st
  simp only at h
  subst h
  simp [peek, next, peekTok, afterPeek, StateT.run, bind, StateT.bind, get, getThe, MonadStateOf.get,
    StateT.get, set, StateT.set, pure, StateT.pure, Except.bind, Except.pure, modify, modifyGet,
    MonadStateOf.modifyGet, StateT.modifyGet]

theorem peek_st0 (ts : List Token) (cs ce : Nat) :
    peek.run (st0 ts cs ce) = .ok (peekTok ts false cs ce, afterPeek ts false cs ce) :=
  peek_run_none (st0 ts cs ce) rfl

/-- `peek` is idempotent -/
theorem peek_afterPeek (ts : List Token) (r : Bool) (cs ce : Nat) :
    peek.run (afterPeek ts r cs ce) = .ok (peekTok ts r cs ce, afterPeek ts r cs ce) := by
  cases h : peekTok ts r cs ce with
  | some t => exact peek_run_peeked _ t h
  | none =>
    obtain ⟨r', c, hn⟩ := nextLoop_none ts r cs ce h
    have hs : afterPeek ts r cs ce = { toks := [], peeked := none, rem := r', cs := c, ce := c } := by
      simp [afterPeek, hn]
    rw [hs, peek_run_none _ rfl]
    simp [peekTok, afterPeek, nextLoop]

theorem afterPeek_solid (ws : List Token) (t : Token) (ts : List Token) (h : AllWs ws) (ht : Solid t)
    (cs ce : Nat) :
    peekTok (ws ++ t :: ts) false cs ce = some t ∧
    afterPeek (ws ++ t :: ts) false cs ce
      = stPeeked t ts (ce + width ws) (ce + width ws + t.text.length) := by
  simp [peekTok, afterPeek, stPeeked, nextLoop_solid ws t ts h ht]

theorem next_stPeeked (t : Token) (ts : List Token) (cs ce : Nat) :
    next.run (stPeeked t ts cs ce) = .ok (some t, st0 ts cs ce) :=
  next_run_peeked _ t rfl

/-! ### `maybeLineNumber` and `maybe` -/

/-- the text of a numeral token (`maybe_line_number` accepts the three numeric literal kinds) -/
def numStr : Option Token → Option Str
  | some (.literal (.integer s)) => some s
  | some (.literal (.single s)) => some s
  | some (.literal (.double s)) => some s
  | _ => none

/-- the error of `failHere` -/
def errAt (code : Nat) (cs ce : Nat) (msg : String) : Error :=
  ((Error.mk' code).inCol cs ce).withMsg msg

theorem errAt_code (code cs ce : Nat) (msg : String) : (errAt code cs ce msg).code = code := rfl

theorem failHere_run {α} (code : Nat) (msg : String) (st : PState) :
    (failHere code msg : PM α).run st = .error (errAt code st.cs st.ce msg) := rfl

theorem fail_run {α} (code : Nat) (c : Col) (msg : String) (st : PState) :
    (fail code c msg : PM α).run st = .error (errAt code c.1 c.2 msg) := rfl

/-- the outcome of `maybe_line_number` once the numeral `s` has been consumed, in state `st` -/
def lineNumberOf (s : Str) (st : PState) : Except Error (Option Nat × PState) :=
  match Fmt.parseU16 s with
  | some n =>
    if n ≤ maxLineNumber then .ok (some n, st)
    else .error (errAt Code.undefinedLine st.cs st.ce "INVALID LINE NUMBER")
  | none => .error (errAt Code.undefinedLine st.cs st.ce "INVALID LINE NUMBER")

theorem maybeLineNumber_of_peek {st st1 : PState} {e : Option Token}
    (hp : peek.run st = .ok (e, st1)) :
    maybeLineNumber.run st =
      match numStr e with
      | none => .ok (none, st1)
      | some s => (next.run st1) >>= fun p => lineNumberOf s p.2 := by
  unfold maybeLineNumber
  simp only [StateT.run_bind, hp, ok_bind]
  rcases e with _ | (_|_|l|_|_|_|_|_|_|_|_) <;> try rfl
  cases l <;> simp only [numStr, StateT.run_bind, StateT.run_pure] <;> try rfl
  all_goals
    cases next.run st1 with
    | error err => rfl
    | ok p =>
      simp only [ok_bind, lineNumberOf]
      cases Fmt.parseU16 _ with
      | none => rfl
      | some n => simp only; split <;> rfl

/-- a numeral token -/
def IsNum (t : Token) (s : Str) : Prop :=
  t = .literal (.integer s) ∨ t = .literal (.single s) ∨ t = .literal (.double s)

theorem IsNum.solid {t : Token} {s : Str} (h : IsNum t s) : Solid t := by
  rcases h with rfl | rfl | rfl <;> exact ⟨fun n => by simp, rfl⟩

theorem IsNum.numStr {t : Token} {s : Str} (h : IsNum t s) : numStr (some t) = some s := by
  rcases h with rfl | rfl | rfl <;> rfl

theorem IsNum.text {t : Token} {s : Str} (h : IsNum t s) : t.text = s := by
  rcases h with rfl | rfl | rfl <;> rfl

/-- `maybe_line_number` on a numeral (after any whitespace): the numeral is consumed -/
theorem maybeLineNumber_num (ws : List Token) (t : Token) (s : Str) (ts : List Token)
    (hw : AllWs ws) (ht : IsNum t s) (cs ce : Nat) :
    maybeLineNumber.run (st0 (ws ++ t :: ts) cs ce)
      = lineNumberOf s (st0 ts (ce + width ws) (ce + width ws + s.length)) := by
  obtain ⟨h1, h2⟩ := afterPeek_solid ws t ts hw ht.solid cs ce
  have hp := peek_st0 (ws ++ t :: ts) cs ce
  rw [h1, h2] at hp
  rw [maybeLineNumber_of_peek hp, ht.numStr]
  simp only [next_stPeeked, ok_bind, ht.text]

/-- `maybe_line_number` when the next token is no numeral: nothing is consumed -/
theorem maybeLineNumber_other {st st1 : PState} {e : Option Token}
    (hp : peek.run st = .ok (e, st1)) (he : numStr e = none) :
    maybeLineNumber.run st = .ok (none, st1) := by
  rw [maybeLineNumber_of_peek hp, he]

theorem maybe_of_peek {st st1 : PState} {e : Option Token} (tok : Token)
    (hp : peek.run st = .ok (e, st1)) :
    (maybe tok).run st =
      if e = some tok then (next.run st1) >>= fun p => .ok (true, p.2) else .ok (false, st1) := by
  unfold maybe
  simp only [StateT.run_bind, hp, ok_bind]
  cases e with
  | none => simp; rfl
  | some t =>
    by_cases h : t = tok
    · subst h
      simp only [if_true, StateT.run_bind]
      cases next.run st1 <;> rfl
    · simp [h]; rfl

/-- `maybe tok` when `tok` is next (after any whitespace): it is consumed -/
theorem maybe_hit (ws : List Token) (tok : Token) (ts : List Token) (hw : AllWs ws) (ht : Solid tok)
    (cs ce : Nat) :
    (maybe tok).run (st0 (ws ++ tok :: ts) cs ce)
      = .ok (true, st0 ts (ce + width ws) (ce + width ws + tok.text.length)) := by
  obtain ⟨h1, h2⟩ := afterPeek_solid ws tok ts hw ht cs ce
  have hp := peek_st0 (ws ++ tok :: ts) cs ce
  rw [h1, h2] at hp
  rw [maybe_of_peek tok hp, if_pos rfl, next_stPeeked]
  rfl

/-- `maybe tok` when `tok` has been peeked -/
theorem maybe_hit_peeked (tok : Token) (ts : List Token) (cs ce : Nat) :
    (maybe tok).run (stPeeked tok ts cs ce) = .ok (true, st0 ts cs ce) := by
  rw [maybe_of_peek tok (peek_run_peeked _ tok rfl), if_pos rfl, next_stPeeked]
  rfl

theorem maybe_miss {st st1 : PState} {e : Option Token} (tok : Token)
    (hp : peek.run st = .ok (e, st1)) (he : e ≠ some tok) :
    (maybe tok).run st = .ok (false, st1) := by
  rw [maybe_of_peek tok hp, if_neg he]

/-! ### what follows the operand -/

/-- the statement ends after any whitespace: end of the tokens, `:`, ELSE (or a remark) -/
def StmtEnd (ts : List Token) : Prop := ∀ cs ce, isEnd (peekTok ts false cs ce) = true

/-- the next token is not `-` -/
def NoMinusNext (ts : List Token) : Prop := ∀ cs ce, peekTok ts false cs ce ≠ some (.operator .minus)

/-- the next token is not a numeral -/
def NoNumNext (ts : List Token) : Prop := ∀ cs ce, numStr (peekTok ts false cs ce) = none

theorem StmtEnd.noMinus {ts : List Token} (h : StmtEnd ts) : NoMinusNext ts := by
  intro cs ce hm
  have := h cs ce
  rw [hm] at this
  cases this

theorem StmtEnd.noNum {ts : List Token} (h : StmtEnd ts) : NoNumNext ts := by
  intro cs ce
  have := h cs ce
  rcases hp : peekTok ts false cs ce with _ | (_|_|l|_|_|_|_|_|_|_|_) <;> try rfl
  rw [hp] at this
  cases l <;> cases this

theorem stmtEnd_nil : StmtEnd [] := fun _ _ => rfl

theorem stmtEnd_colon (more : List Token) : StmtEnd (.colon :: more) := by
  intro cs ce; simp [peekTok, nextLoop, isRem, isEnd]

theorem stmtEnd_else (more : List Token) : StmtEnd (.word .else :: more) := by
  intro cs ce; simp [peekTok, nextLoop, isRem, isEnd]

theorem stmtEnd_rem (t : Token) (more : List Token) (h : isRem t = true) : StmtEnd (t :: more) := by
  intro cs ce; simp [peekTok, nextLoop_rem_head t more false cs ce h, isEnd]

theorem stmtEnd_ws (ws ts : List Token) (hw : AllWs ws) (h : StmtEnd ts) : StmtEnd (ws ++ ts) := by
  intro cs ce
  unfold peekTok
  rw [nextLoop_ws_append ws ts hw]
  exact h cs _

/-! ### the five operand forms of `lineNumberRange` -/

theorem lineNumberOf_ok {s : Str} {a : Nat} (hs : Fmt.parseU16 s = some a) (ha : a ≤ maxLineNumber)
    (st : PState) : lineNumberOf s st = .ok (some a, st) := by
  simp [lineNumberOf, hs, ha]

/-- a numeral that is no `u16`, or one above 65529, is refused -/
theorem lineNumberOf_bad {s : Str} (hs : ∀ a, Fmt.parseU16 s = some a → maxLineNumber < a)
    (st : PState) :
    lineNumberOf s st = .error (errAt Code.undefinedLine st.cs st.ce "INVALID LINE NUMBER") := by
  unfold lineNumberOf
  cases h : Fmt.parseU16 s with
  | none => rfl
  | some n =>
    have := hs n h
    simp only
    rw [if_neg (by omega)]

/-- the error of an inverted range -/
def rangeErr (c0 c : Nat) : Error := errAt Code.undefinedLine c0 c "INVALID RANGE"

theorem minus_len : (Token.operator Operator.minus).text.length = 1 := rfl

theorem minus_solid : Solid (.operator .minus) := ⟨fun n => by simp, rfl⟩

/-- form `n`: both ends are `n` -/
theorem range_n (ws : List Token) (t : Token) (s : Str) (a : Nat) (tl : List Token)
    (hw : AllWs ws) (ht : IsNum t s) (hs : Fmt.parseU16 s = some a) (ha : a ≤ maxLineNumber)
    (htl : NoMinusNext tl) (cs ce : Nat) :
    lineNumberRange.run (st0 (ws ++ t :: tl) cs ce) =
      let c1 := ce + width ws
      let c2 := c1 + s.length
      let st := afterPeek tl false c1 c2
      .ok ((lineExpr (c1, c2) a, lineExpr (st.cs, st.cs) a), st) := by
  unfold lineNumberRange
  simp only [StateT.run_bind, col_run, ok_bind, maybeLineNumber_num ws t s tl hw ht,
    lineNumberOf_ok hs ha, StateT.run_pure, pure_bind,
    maybe_miss _ (peek_st0 tl _ _) (htl _ _), Bool.false_eq_true, if_false, if_true,
    gt_iff_lt, Nat.lt_irrefl]
  rfl

/-- form `n-`: from `n` to the largest line number -/
theorem range_n_minus (ws ws1 : List Token) (t : Token) (s : Str) (a : Nat) (tl : List Token)
    (hw : AllWs ws) (hw1 : AllWs ws1) (ht : IsNum t s) (hs : Fmt.parseU16 s = some a)
    (ha : a ≤ maxLineNumber) (htl : NoNumNext tl) (cs ce : Nat) :
    lineNumberRange.run (st0 (ws ++ t :: (ws1 ++ .operator .minus :: tl)) cs ce) =
      let c1 := ce + width ws
      let c2 := c1 + s.length
      let c3 := c2 + width ws1
      let st := afterPeek tl false c3 (c3 + 1)
      .ok ((lineExpr (c1, c2) a, lineExpr (st.cs, st.cs) maxLineNumber), st) := by
  unfold lineNumberRange
  simp only [StateT.run_bind, col_run, ok_bind, maybeLineNumber_num ws t s _ hw ht,
    lineNumberOf_ok hs ha, StateT.run_pure, pure_bind,
    maybe_hit ws1 (.operator .minus) tl hw1 minus_solid,
    maybeLineNumber_other (peek_st0 tl _ _) (htl _ _), Bool.false_eq_true, if_false, if_true,
    gt_iff_lt, Nat.not_lt.2 ha, minus_len]
  rfl

theorem peek_solid (ws : List Token) (t : Token) (ts : List Token) (hw : AllWs ws) (ht : Solid t)
    (cs ce : Nat) :
    peek.run (st0 (ws ++ t :: ts) cs ce)
      = .ok (some t, stPeeked t ts (ce + width ws) (ce + width ws + t.text.length)) := by
  obtain ⟨h1, h2⟩ := afterPeek_solid ws t ts hw ht cs ce
  rw [peek_st0, h1, h2]

/-- form `-n`: from 0 to `n` -/
theorem range_minus_n (ws ws1 : List Token) (t : Token) (s : Str) (b : Nat) (tl : List Token)
    (hw : AllWs ws) (hw1 : AllWs ws1) (ht : IsNum t s) (hs : Fmt.parseU16 s = some b)
    (hb : b ≤ maxLineNumber) (cs ce : Nat) :
    lineNumberRange.run (st0 (ws ++ .operator .minus :: (ws1 ++ t :: tl)) cs ce) =
      let c1 := ce + width ws
      let c3 := c1 + 1 + width ws1
      let c4 := c3 + s.length
      .ok ((lineExpr (c1, c1) 0, lineExpr (c3, c4) b), st0 tl c3 c4) := by
  unfold lineNumberRange
  simp only [StateT.run_bind, col_run, ok_bind,
    maybeLineNumber_other (peek_solid ws _ _ hw minus_solid cs ce) rfl, maybe_hit_peeked,
    maybeLineNumber_num ws1 t s tl hw1 ht, lineNumberOf_ok hs hb, StateT.run_pure, pure_bind,
    if_false, if_true, gt_iff_lt, Nat.not_lt_zero, minus_len]
  rfl

/-- the two-numeral form, before the comparison of the ends -/
theorem range_n_minus_n_raw (ws ws1 ws2 : List Token) (t t' : Token) (s s' : Str) (a b : Nat)
    (tl : List Token) (hw : AllWs ws) (hw1 : AllWs ws1) (hw2 : AllWs ws2) (ht : IsNum t s)
    (ht' : IsNum t' s') (hs : Fmt.parseU16 s = some a) (ha : a ≤ maxLineNumber)
    (hs' : Fmt.parseU16 s' = some b) (hb : b ≤ maxLineNumber) (cs ce : Nat) :
    lineNumberRange.run (st0 (ws ++ t :: (ws1 ++ .operator .minus :: (ws2 ++ t' :: tl))) cs ce) =
      let c1 := ce + width ws
      let c2 := c1 + s.length
      let c3 := c2 + width ws1 + 1 + width ws2
      let c4 := c3 + s'.length
      if a > b then .error (rangeErr cs c4)
      else .ok ((lineExpr (c1, c2) a, lineExpr (c3, c4) b), st0 tl c3 c4) := by
  unfold lineNumberRange
  simp only [StateT.run_bind, col_run, ok_bind, maybeLineNumber_num ws t s _ hw ht,
    lineNumberOf_ok hs ha, StateT.run_pure, pure_bind,
    maybe_hit ws1 (.operator .minus) _ hw1 minus_solid,
    maybeLineNumber_num ws2 t' s' tl hw2 ht', lineNumberOf_ok hs' hb, if_true, minus_len]
  by_cases h : a > b
  · simp only [h, if_true, StateT.run_bind, col_run, ok_bind, fail_run]
    rfl
  · simp only [h, if_false, StateT.run_pure]
    rfl

/-- form `a-b` with `a ≤ b` -/
theorem range_n_minus_n (ws ws1 ws2 : List Token) (t t' : Token) (s s' : Str) (a b : Nat)
    (tl : List Token) (hw : AllWs ws) (hw1 : AllWs ws1) (hw2 : AllWs ws2) (ht : IsNum t s)
    (ht' : IsNum t' s') (hs : Fmt.parseU16 s = some a) (hs' : Fmt.parseU16 s' = some b)
    (hab : a ≤ b) (hb : b ≤ maxLineNumber) (cs ce : Nat) :
    lineNumberRange.run (st0 (ws ++ t :: (ws1 ++ .operator .minus :: (ws2 ++ t' :: tl))) cs ce) =
      let c1 := ce + width ws
      let c2 := c1 + s.length
      let c3 := c2 + width ws1 + 1 + width ws2
      let c4 := c3 + s'.length
      .ok ((lineExpr (c1, c2) a, lineExpr (c3, c4) b), st0 tl c3 c4) := by
  rw [range_n_minus_n_raw ws ws1 ws2 t t' s s' a b tl hw hw1 hw2 ht ht' hs (by omega) hs' hb]
  simp only [gt_iff_lt, Nat.not_lt.2 hab, if_false]

/-- an inverted range `a-b`, `a > b`, is refused (UNDEFINED LINE, "INVALID RANGE") -/
theorem range_inverted (ws ws1 ws2 : List Token) (t t' : Token) (s s' : Str) (a b : Nat)
    (tl : List Token) (hw : AllWs ws) (hw1 : AllWs ws1) (hw2 : AllWs ws2) (ht : IsNum t s)
    (ht' : IsNum t' s') (hs : Fmt.parseU16 s = some a) (hs' : Fmt.parseU16 s' = some b)
    (hab : b < a) (ha : a ≤ maxLineNumber) (cs ce : Nat) :
    lineNumberRange.run (st0 (ws ++ t :: (ws1 ++ .operator .minus :: (ws2 ++ t' :: tl))) cs ce) =
      .error (rangeErr cs (ce + width ws + s.length + width ws1 + 1 + width ws2 + s'.length)) := by
  rw [range_n_minus_n_raw ws ws1 ws2 t t' s s' a b tl hw hw1 hw2 ht ht' hs ha hs' (by omega)]
  simp only [gt_iff_lt, hab, if_true]

/-- no operand: the full range -/
theorem range_empty (tl : List Token) (h1 : NoNumNext tl) (h2 : NoMinusNext tl) (cs ce : Nat) :
    lineNumberRange.run (st0 tl cs ce) =
      let st := afterPeek tl false cs ce
      .ok ((lineExpr (st.cs, st.cs) 0, lineExpr (st.cs, st.cs) maxLineNumber), st) := by
  unfold lineNumberRange
  simp only [StateT.run_bind, col_run, ok_bind, maybeLineNumber_other (peek_st0 tl cs ce) (h1 cs ce),
    maybe_miss _ (peek_afterPeek tl false cs ce) (h2 cs ce), StateT.run_pure, pure_bind,
    Bool.false_eq_true, if_false, gt_iff_lt, Nat.not_lt_zero]
  rfl

/-- a first numeral that is no line number (above 65529, or no `u16`) is refused -/
theorem range_bad_first (ws : List Token) (t : Token) (s : Str) (tl : List Token)
    (hw : AllWs ws) (ht : IsNum t s) (hs : ∀ a, Fmt.parseU16 s = some a → maxLineNumber < a)
    (cs ce : Nat) :
    lineNumberRange.run (st0 (ws ++ t :: tl) cs ce) =
      .error (errAt Code.undefinedLine (ce + width ws) (ce + width ws + s.length)
        "INVALID LINE NUMBER") := by
  unfold lineNumberRange
  simp only [StateT.run_bind, col_run, ok_bind, maybeLineNumber_num ws t s tl hw ht,
    lineNumberOf_bad hs, error_bind]
  rfl

/-- `-n` with a numeral that is no line number is refused -/
theorem range_minus_bad (ws ws1 : List Token) (t : Token) (s : Str) (tl : List Token)
    (hw : AllWs ws) (hw1 : AllWs ws1) (ht : IsNum t s)
    (hs : ∀ a, Fmt.parseU16 s = some a → maxLineNumber < a) (cs ce : Nat) :
    lineNumberRange.run (st0 (ws ++ .operator .minus :: (ws1 ++ t :: tl)) cs ce) =
      .error (errAt Code.undefinedLine (ce + width ws + 1 + width ws1)
        (ce + width ws + 1 + width ws1 + s.length) "INVALID LINE NUMBER") := by
  unfold lineNumberRange
  simp only [StateT.run_bind, col_run, ok_bind,
    maybeLineNumber_other (peek_solid ws _ _ hw minus_solid cs ce) rfl, maybe_hit_peeked,
    maybeLineNumber_num ws1 t s tl hw1 ht, lineNumberOf_bad hs, StateT.run_pure, pure_bind,
    if_true, error_bind, minus_len]
  rfl

/-- `a-n` with a second numeral that is no line number is refused -/
theorem range_bad_second (ws ws1 ws2 : List Token) (t t' : Token) (s s' : Str) (a : Nat)
    (tl : List Token) (hw : AllWs ws) (hw1 : AllWs ws1) (hw2 : AllWs ws2) (ht : IsNum t s)
    (ht' : IsNum t' s') (hs : Fmt.parseU16 s = some a) (ha : a ≤ maxLineNumber)
    (hs' : ∀ b, Fmt.parseU16 s' = some b → maxLineNumber < b) (cs ce : Nat) :
    lineNumberRange.run (st0 (ws ++ t :: (ws1 ++ .operator .minus :: (ws2 ++ t' :: tl))) cs ce) =
      .error (errAt Code.undefinedLine (ce + width ws + s.length + width ws1 + 1 + width ws2)
        (ce + width ws + s.length + width ws1 + 1 + width ws2 + s'.length)
        "INVALID LINE NUMBER") := by
  unfold lineNumberRange
  simp only [StateT.run_bind, col_run, ok_bind, maybeLineNumber_num ws t s _ hw ht,
    lineNumberOf_ok hs ha, StateT.run_pure, pure_bind,
    maybe_hit ws1 (.operator .minus) _ hw1 minus_solid,
    maybeLineNumber_num ws2 t' s' tl hw2 ht', lineNumberOf_bad hs', if_true, error_bind, minus_len]
  rfl

/-! ### the operand after a look-ahead (DELETE peeks before it parses its operand) -/

theorem peek_afterPeek_eq (ts : List Token) (cs cs' ce : Nat) :
    peek.run (afterPeek ts false cs ce) = peek.run (st0 ts cs' ce) := by
  rw [peek_afterPeek, peek_st0]
  simp only [peekTok, afterPeek, nextLoop_cs ts false cs cs' ce]

theorem maybeLineNumber_afterPeek (ts : List Token) (cs cs' ce : Nat) :
    maybeLineNumber.run (afterPeek ts false cs ce) = maybeLineNumber.run (st0 ts cs' ce) := by
  have h1 := peek_afterPeek ts false cs ce
  have h2 := peek_st0 ts cs' ce
  rw [maybeLineNumber_of_peek h1, maybeLineNumber_of_peek h2]
  simp only [peekTok, afterPeek, nextLoop_cs ts false cs cs' ce]

/-- the operand parser started on a state with look-ahead behaves as on the state without, except
    that its column range starts at the peeked token -/
theorem lineNumberRange_afterPeek (ts : List Token) (cs ce : Nat) :
    lineNumberRange.run (afterPeek ts false cs ce)
      = lineNumberRange.run (st0 ts (afterPeek ts false cs ce).cs ce) := by
  unfold lineNumberRange
  simp only [StateT.run_bind, col_run, ok_bind]
  rw [maybeLineNumber_afterPeek ts cs (afterPeek ts false cs ce).cs ce]
  rfl

/-! ### the statements DELETE and LIST -/

theorem word_solid_delete : Solid (.word .delete) := ⟨fun n => by simp, rfl⟩
theorem word_solid_list : Solid (.word .list) := ⟨fun n => by simp, rfl⟩

/-- the error of a bare DELETE: ILLEGAL FUNCTION CALL at the columns of the word -/
def bareDeleteErr (cs ce : Nat) : Error := (Error.mk' Code.illegalFunctionCall).inCol cs ce

/-- `DELETE` with nothing after it (end of line, `:`, ELSE, remark) is refused by the parser;
    `st` is any state in which DELETE is the next token -/
theorem statement_delete_bare' (fuel : Nat) (st : PState) (tl : List Token) (c1 c2 : Nat)
    (hp : peek.run st = .ok (some (.word .delete), stPeeked (.word .delete) tl c1 c2))
    (htl : StmtEnd tl) :
    (statement (fuel + 1)).run st = .error (bareDeleteErr c1 c2) := by
  rw [statement]
  simp only [StateT.run_bind, hp, ok_bind, next_stPeeked, col_run, peek_st0, htl _ _, if_true]
  rfl

/-- `DELETE` with an operand: the statement is the operand parser's result -/
theorem statement_delete' (fuel : Nat) (st : PState) (rest : List Token) (c1 c2 : Nat)
    (hp : peek.run st = .ok (some (.word .delete), stPeeked (.word .delete) rest c1 c2))
    (hne : isEnd (peekTok rest false c1 c2) = false) :
    (statement (fuel + 1)).run st =
      (lineNumberRange.run (st0 rest (afterPeek rest false c1 c2).cs c2)) >>= fun p =>
        .ok (.delete (c1, c2) p.1.1 p.1.2, p.2) := by
  rw [statement]
  simp only [StateT.run_bind, hp, ok_bind, next_stPeeked, col_run, peek_st0]
  rw [hne]
  simp only [Bool.false_eq_true, if_false, StateT.run_pure, pure_bind, StateT.run_bind,
    lineNumberRange_afterPeek]
  cases lineNumberRange.run (st0 rest _ _) <;> rfl

/-- `LIST`: the statement is the operand parser's result -/
theorem statement_list' (fuel : Nat) (st : PState) (rest : List Token) (c1 c2 : Nat)
    (hp : peek.run st = .ok (some (.word .list), stPeeked (.word .list) rest c1 c2)) :
    (statement (fuel + 1)).run st =
      (lineNumberRange.run (st0 rest c1 c2)) >>= fun p => .ok (.list (c1, c2) p.1.1 p.1.2, p.2) := by
  rw [statement]
  simp only [StateT.run_bind, hp, ok_bind, next_stPeeked, col_run]
  cases lineNumberRange.run (st0 rest _ _) <;> rfl

theorem statement_delete_bare (fuel : Nat) (ws tl : List Token) (hw : AllWs ws) (htl : StmtEnd tl)
    (cs ce : Nat) :
    (statement (fuel + 1)).run (st0 (ws ++ .word .delete :: tl) cs ce)
      = .error (bareDeleteErr (ce + width ws) (ce + width ws + 6)) :=
  statement_delete_bare' fuel _ tl _ _ (peek_solid ws _ tl hw word_solid_delete cs ce) htl

theorem statement_delete (fuel : Nat) (ws rest : List Token) (hw : AllWs ws) (cs ce : Nat)
    (hne : isEnd (peekTok rest false (ce + width ws) (ce + width ws + 6)) = false) :
    (statement (fuel + 1)).run (st0 (ws ++ .word .delete :: rest) cs ce) =
      let c1 := ce + width ws
      let c2 := c1 + 6
      (lineNumberRange.run (st0 rest (afterPeek rest false c1 c2).cs c2)) >>= fun p =>
        .ok (.delete (c1, c2) p.1.1 p.1.2, p.2) :=
  statement_delete' fuel _ rest _ _ (peek_solid ws _ rest hw word_solid_delete cs ce) hne

theorem statement_list (fuel : Nat) (ws rest : List Token) (hw : AllWs ws) (cs ce : Nat) :
    (statement (fuel + 1)).run (st0 (ws ++ .word .list :: rest) cs ce) =
      let c1 := ce + width ws
      let c2 := c1 + 4
      (lineNumberRange.run (st0 rest c1 c2)) >>= fun p => .ok (.list (c1, c2) p.1.1 p.1.2, p.2) :=
  statement_list' fuel _ rest _ _ (peek_solid ws _ rest hw word_solid_list cs ce)

/-! ### whole lines: `Parse.parseTokens` / `Parse.parse` -/

/-- nothing but whitespace (or a remark) is left -/
def LineEnd (ts : List Token) : Prop := ∀ cs ce, peekTok ts false cs ce = none

theorem LineEnd.stmtEnd {ts : List Token} (h : LineEnd ts) : StmtEnd ts := by
  intro cs ce; rw [h cs ce]; rfl

theorem lineEnd_nil : LineEnd [] := fun _ _ => rfl

theorem lineEnd_ws (ws : List Token) (hw : AllWs ws) : LineEnd ws := by
  intro cs ce
  have := nextLoop_ws_append ws [] hw cs ce
  rw [List.append_nil] at this
  simp [peekTok, this, nextLoop]

/-- one round of `statements`: a statement starts here -/
theorem statements_word (fuel : Nat) (acc : List Stmt) (st st1 : PState) (w : Word)
    (hp : peek.run st = .ok (some (.word w), st1)) (hw : w ≠ .else) :
    (statements (fuel + 1) false acc).run st =
      (statement fuel).run st1 >>= fun p => (statements fuel true (acc ++ [p.1])).run p.2 := by
  rw [statements]
  simp only [StateT.run_bind, hp, ok_bind]
  cases w <;> first | exact absurd rfl hw | (simp only [Bool.false_eq_true, if_false, StateT.run_bind])

/-- `statements` at the end of the line -/
theorem statements_end (fuel : Nat) (b : Bool) (acc : List Stmt) (st st1 : PState)
    (hp : peek.run st = .ok (none, st1)) :
    (statements (fuel + 1) b acc).run st = .ok (acc, st1) := by
  rw [statements]
  simp only [StateT.run_bind, hp, ok_bind]
  rfl

theorem parseTokens_word (ts : List Token) (w : Word) (st1 : PState)
    (hp : peek.run (st0 ts 0 0) = .ok (some (.word w), st1)) :
    parseTokens ts = ((statements (fuelFor ts) false []).run st1).map (·.1) := by
  unfold parseTokens
  have : ({ toks := ts } : PState) = st0 ts 0 0 := rfl
  simp only [this, StateT.run_bind, hp, ok_bind]

/-- a line `DELETE` (then end of line, `:`, ELSE or a remark) does not parse: ILLEGAL FUNCTION CALL -/
theorem parseTokens_delete_bare (ws tl : List Token) (hw : AllWs ws) (htl : StmtEnd tl) :
    parseTokens (ws ++ .word .delete :: tl)
      = .error (bareDeleteErr (width ws) (width ws + 6)) := by
  have hp := peek_solid ws _ tl hw word_solid_delete 0 0
  have hp' := peek_run_peeked (stPeeked (.word .delete) tl (0 + width ws)
    (0 + width ws + (Token.word Word.delete).text.length)) _ rfl
  rw [parseTokens_word _ _ _ hp]
  have hf : fuelFor (ws ++ .word .delete :: tl) = (6 * (ws ++ .word .delete :: tl).length + 18) + 1 + 1 := by
    unfold fuelFor; omega
  rw [hf, statements_word _ _ _ _ _ hp' (by decide), statement_delete_bare' _ _ tl _ _ hp' htl]
  simp only [Nat.zero_add]
  rfl

/-- a line `LIST <operand>` in which the operand parser succeeds and nothing follows parses to the
    one statement LIST with the operand's two ends; if the operand is refused so is the line -/
theorem parseTokens_list (ws rest : List Token) (hw : AllWs ws) :
    (∀ e, lineNumberRange.run (st0 rest (width ws) (width ws + 4)) = .error e →
      parseTokens (ws ++ .word .list :: rest) = .error e) ∧
    (∀ a b st' st'', lineNumberRange.run (st0 rest (width ws) (width ws + 4)) = .ok ((a, b), st') →
      peek.run st' = .ok (none, st'') →
      parseTokens (ws ++ .word .list :: rest) = .ok [.list (width ws, width ws + 4) a b]) := by
  have hp := peek_solid ws _ rest hw word_solid_list 0 0
  have hp' := peek_run_peeked (stPeeked (.word .list) rest (0 + width ws)
    (0 + width ws + (Token.word Word.list).text.length)) _ rfl
  have hf : fuelFor (ws ++ .word .list :: rest) = (6 * (ws ++ .word .list :: rest).length + 18) + 1 + 1 := by
    unfold fuelFor; omega
  have h4 : (Token.word Word.list).text.length = 4 := rfl
  simp only [Nat.zero_add, h4] at hp hp'
  constructor
  · intro e he
    rw [parseTokens_word _ _ _ hp, hf, statements_word _ _ _ _ _ hp' (by decide),
      statement_list' _ _ rest _ _ hp', he]
    rfl
  · intro a b st' st'' hr hend
    rw [parseTokens_word _ _ _ hp, hf, statements_word _ _ _ _ _ hp' (by decide),
      statement_list' _ _ rest _ _ hp', hr]
    simp only [ok_bind, statements_end _ _ _ _ _ hend]
    rfl

/-- the same for `DELETE <operand>` (an operand is there: the next token does not end the statement) -/
theorem parseTokens_delete (ws rest : List Token) (hw : AllWs ws)
    (hne : isEnd (peekTok rest false (width ws) (width ws + 6)) = false) :
    let c0 := (afterPeek rest false (width ws) (width ws + 6)).cs
    (∀ e, lineNumberRange.run (st0 rest c0 (width ws + 6)) = .error e →
      parseTokens (ws ++ .word .delete :: rest) = .error e) ∧
    (∀ a b st' st'', lineNumberRange.run (st0 rest c0 (width ws + 6)) = .ok ((a, b), st') →
      peek.run st' = .ok (none, st'') →
      parseTokens (ws ++ .word .delete :: rest) = .ok [.delete (width ws, width ws + 6) a b]) := by
  have hp := peek_solid ws _ rest hw word_solid_delete 0 0
  have hp' := peek_run_peeked (stPeeked (.word .delete) rest (0 + width ws)
    (0 + width ws + (Token.word Word.delete).text.length)) _ rfl
  have hf : fuelFor (ws ++ .word .delete :: rest) = (6 * (ws ++ .word .delete :: rest).length + 18) + 1 + 1 := by
    unfold fuelFor; omega
  have h6 : (Token.word Word.delete).text.length = 6 := rfl
  simp only [Nat.zero_add, h6] at hp hp'
  constructor
  · intro e he
    rw [parseTokens_word _ _ _ hp, hf, statements_word _ _ _ _ _ hp' (by decide),
      statement_delete' _ _ rest _ _ hp' hne, he]
    rfl
  · intro a b st' st'' hr hend
    rw [parseTokens_word _ _ _ hp, hf, statements_word _ _ _ _ _ hp' (by decide),
      statement_delete' _ _ rest _ _ hp' hne, hr]
    simp only [ok_bind, statements_end _ _ _ _ _ hend]
    rfl

/-! ### numerals as the lexer delivers them -/

/-- the token of the decimal numeral of `a` (`Lex.numberFinish`: an Integer literal when it fits
    `i16`, a Single literal otherwise; see `number_lit`) -/
def lit (a : Nat) : Token :=
  if a ≤ 32767 then .literal (.integer (RStd.natDigits a)) else .literal (.single (RStd.natDigits a))

theorem lit_isNum (a : Nat) : IsNum (lit a) (RStd.natDigits a) := by
  unfold lit; split
  · exact Or.inl rfl
  · exact Or.inr (Or.inl rfl)

theorem parseU16_lit {a : Nat} (h : a ≤ maxLineNumber) : Fmt.parseU16 (RStd.natDigits a) = some a :=
  Lex.parseU16_natDigits a (by simp only [maxLineNumber] at h; omega)

/-- the numeral of a number above 65535 is no `u16` at all -/
theorem parseU16_natDigits_big (a : Nat) (h : 65535 < a) : Fmt.parseU16 (RStd.natDigits a) = none := by
  have hd := Lex.natDigits_allDigits a
  have hval : Nat.ofDigitChars 10 (RStd.natDigits a) 0 = a := by
    rw [Lex.natDigits_eq]; exact Nat.ofDigitChars_ten_toDigits
  cases hl : RStd.natDigits a with
  | nil => exact absurd hl (Lex.natDigits_ne_nil a)
  | cons c cs =>
    rw [hl] at hd hval
    have hplus : c ≠ '+' := Lex.ne_of_isDigit c _ (hd c (by simp)) (by decide)
    have hall : (c :: cs).all Fmt.isDigit = true := by
      rw [List.all_eq_true]; intro x hx; rw [Lex.fmt_isDigit_eq]; exact hd x hx
    unfold Fmt.parseU16
    split
    · rename_i r heq; exact absurd (List.cons.inj heq).1 hplus
    · simp only [hall, Lex.digitsToNat_eq, Lex.ofDigitChars_dropZeros, hval]
      have : ¬ a ≤ 65535 := by omega
      simp [this]

/-- the numeral of a number above 65529 is refused by `maybe_line_number` -/
theorem parseU16_lit_bad {a : Nat} (h : maxLineNumber < a) :
    ∀ n, Fmt.parseU16 (RStd.natDigits a) = some n → maxLineNumber < n := by
  intro n hn
  by_cases h2 : a ≤ 65535
  · rw [Lex.parseU16_natDigits a h2] at hn
    cases hn; exact h
  · rw [parseU16_natDigits_big a (by omega)] at hn
    cases hn

section
open Lex
theorem parseI16_natDigits_isSome (a : Nat) (ha : a ≤ 65535) :
    (Fmt.parseI16 (RStd.natDigits a)).isSome = decide (a ≤ 32767) := by
  have hd := Lex.natDigits_allDigits a
  have hval : Nat.ofDigitChars 10 (RStd.natDigits a) 0 = a := by
    rw [Lex.natDigits_eq]; exact Nat.ofDigitChars_ten_toDigits
  have hlen : (RStd.natDigits a).length ≤ 5 := by
    rw [natDigits_eq]
    exact (Nat.length_toDigits_le_iff (by decide) (by decide)).2 (by omega)
  cases hl : RStd.natDigits a with
  | nil => exact absurd hl (Lex.natDigits_ne_nil a)
  | cons c cs =>
    rw [hl] at hd hval hlen
    have hplus : c ≠ '+' := Lex.ne_of_isDigit c _ (hd c (by simp)) (by decide)
    have hminus : c ≠ '-' := Lex.ne_of_isDigit c _ (hd c (by simp)) (by decide)
    have hall : (c :: cs).all Fmt.isDigit = true := by
      rw [List.all_eq_true]; intro x hx; rw [Lex.fmt_isDigit_eq]; exact hd x hx
    have hdl : ((c :: cs).dropWhile (· = '0')).length ≤ 6 := by
      have := length_dropWhile_le (fun x => decide (x = '0')) (c :: cs)
      omega
    have h6 : ¬ (((c :: cs).dropWhile (· = '0')).length > 6) := by omega
    unfold Fmt.parseI16
    split
    rename_i neg r heq
    split at heq
    · rename_i r' heq'; exact absurd (List.cons.inj heq').1 hminus
    · rename_i r' heq'; exact absurd (List.cons.inj heq').1 hplus
    · cases heq
      simp only [hall, Lex.digitsToNat_eq, Lex.ofDigitChars_dropZeros, hval, h6]
      by_cases h : a ≤ 32767
      · simp [RStd.inI16, h]; omega
      · simp [RStd.inI16, h]; omega

/-- the lexer's `number()` reads the decimal numeral of `a` as `lit a` -/
theorem number_lit (a : Nat) (ha : a ≤ 65535) (rest : List Char) (hb : NumBoundary rest) :
    number (RStd.natDigits a ++ rest) = (lit a, rest) := by
  have h := number_numeral ⟨RStd.natDigits a, none, none, none⟩
    ⟨natDigits_allDigits a, by simp, fun _ => natDigits_ne_nil a, by simp, by simp⟩ rest (fun _ => hb)
  simp only [Numeral.text, Numeral.body, Numeral.mantissa, fracText, expoText, Option.toList,
    List.append_nil] at h
  rw [h]
  congr 1
  have hlen : (RStd.natDigits a).length ≤ 5 := by
    rw [natDigits_eq]
    exact (Nat.length_toDigits_le_iff (by decide) (by decide)).2 (by omega)
  simp only [Numeral.token, numeralToken, Numeral.body, Numeral.mantissa, fracText, expoText,
    Numeral.count, fracCount, expoCount, List.append_nil, numberFinish, Option.isSome_none]
  have := parseI16_natDigits_isSome a ha
  unfold lit
  by_cases h2 : a ≤ 32767
  · simp [this, h2]; omega
  · simp [this, h2]; omega
end

/-! ### the runtime statements: run lemmas (local copies, see the header) -/

section Rt
open _root_.Basic.Runtime

theorem rm_bind {α β} (m : RM α) (f : α → RM β) (s : Runtime) :
    ((m >>= f).run).run s =
      match (m.run).run s with
      | (.ok a, s1) => ((f a).run).run s1
      | (.error e, s1) => (.error e, s1) := by
  simp only [bind, ExceptT.bind, ExceptT.mk, ExceptT.run, StateT.bind, StateT.run, ExceptT.bindCont]
  cases h : m s with
  | mk r s1 => cases r <;> rfl

theorem rm_pure {α} (a : α) (s : Runtime) : ((pure a : RM α).run).run s = (.ok a, s) := rfl
theorem rm_get (s : Runtime) : ((get : RM Runtime).run).run s = (.ok s, s) := rfl
theorem rm_set (s1 s : Runtime) : ((set s1 : RM PUnit).run).run s = (.ok ⟨⟩, s1) := rfl
theorem rm_modify (f : Runtime → Runtime) (s : Runtime) :
    ((modify f : RM PUnit).run).run s = (.ok ⟨⟩, f s) := rfl
theorem rm_liftE {α} (r : Except Error α) (s : Runtime) : ((liftE r : RM α).run).run s = (r, s) := by
  cases r <;> rfl

theorem rm_pop_push (s : Runtime) (stk : Array Val) (v : Val) (h : s.stack = stk.push v) :
    (pop.run).run s = (.ok v, { s with stack := stk }) := by
  unfold pop
  simp only [rm_bind, rm_get, h, Array.back?_push, Array.pop_push]
  rfl

/-- `pop_2` on a stack `… a b` -/
theorem rm_pop2 (s : Runtime) (stk : Array Val) (a b : Val) (h : s.stack = (stk.push a).push b) :
    (pop2.run).run s = (.ok (a, b), { s with stack := stk }) := by
  unfold pop2
  rw [rm_bind, rm_pop_push s _ b h]
  simp only
  rw [rm_bind, rm_pop_push _ stk a rfl]
  rfl

/-- the state DELETE leaves when a line was removed (before `r#end`) -/
def deleted (s : Runtime) (l : Listing) : Runtime :=
  { s with listing := l, dirty := true, state := .stopped, cont := .stopped, stack := #[],
           functions := [] }

/-- `r#delete` with two line numbers on the stack -/
theorem doDelete_ok (s : Runtime) (stk : Array Val) (a b : Val) (lo hi : Option Nat)
    (h : s.stack = (stk.push a).push b) (ha : a.toLineNumber = .ok lo) (hb : b.toLineNumber = .ok hi) :
    (doDelete.run).run s =
      (.ok .stopped,
        doEnd (if (s.listing.removeRange lo hi).2 then
            deleted { s with stack := stk } (s.listing.removeRange lo hi).1
          else { s with stack := stk })) := by
  unfold doDelete
  rw [rm_bind, rm_pop2 s stk a b h]
  simp only [ha, hb, rm_bind, rm_liftE, rm_get]
  cases hr : (s.listing.removeRange lo hi).2 with
  | true => simp [hr, rm_bind, rm_set, rm_modify, rm_pure, deleted]; rfl
  | false => simp [hr, rm_bind, rm_modify, rm_pure]; rfl

/-- a first operand that is no line number: the error of the conversion, nothing else happens
    (the two operands are popped) -/
theorem doDelete_bad_lo (s : Runtime) (stk : Array Val) (a b : Val) (e : Error)
    (h : s.stack = (stk.push a).push b) (ha : a.toLineNumber = .error e) :
    (doDelete.run).run s = (.error e, { s with stack := stk }) := by
  unfold doDelete
  rw [rm_bind, rm_pop2 s stk a b h]
  simp only [ha, rm_bind, rm_liftE]

theorem doDelete_bad_hi (s : Runtime) (stk : Array Val) (a b : Val) (lo : Option Nat) (e : Error)
    (h : s.stack = (stk.push a).push b) (ha : a.toLineNumber = .ok lo)
    (hb : b.toLineNumber = .error e) :
    (doDelete.run).run s = (.error e, { s with stack := stk }) := by
  unfold doDelete
  rw [rm_bind, rm_pop2 s stk a b h]
  simp only [ha, hb, rm_bind, rm_liftE]

theorem doEnd_listing (s : Runtime) : (doEnd s).listing = s.listing := by
  unfold doEnd; simp only; split <;> split <;> rfl

theorem doEnd_dirty (s : Runtime) : (doEnd s).dirty = s.dirty := by
  unfold doEnd; simp only; split <;> split <;> rfl

/-- the store after DELETE is `remove_range` of the store before, and `dirty` is raised exactly
    when a line was removed -/
theorem doDelete_listing (s : Runtime) (stk : Array Val) (a b : Val) (lo hi : Option Nat)
    (h : s.stack = (stk.push a).push b) (ha : a.toLineNumber = .ok lo) (hb : b.toLineNumber = .ok hi) :
    ((doDelete.run).run s).1 = .ok .stopped ∧
    ((doDelete.run).run s).2.listing = (s.listing.removeRange lo hi).1 ∧
    ((doDelete.run).run s).2.dirty = (s.dirty || (s.listing.removeRange lo hi).2) := by
  rw [doDelete_ok s stk a b lo hi h ha hb]
  refine ⟨rfl, ?_, ?_⟩
  · simp only [doEnd_listing]
    unfold Listing.removeRange
    split <;> simp [deleted]
  · simp only [doEnd_dirty]
    cases hr : (s.listing.removeRange lo hi).2 <;> simp [deleted]

/-- nothing in the range: the store is the same object and `dirty` keeps its value -/
theorem doDelete_noop (s : Runtime) (stk : Array Val) (a b : Val) (lo hi : Option Nat)
    (h : s.stack = (stk.push a).push b) (ha : a.toLineNumber = .ok lo) (hb : b.toLineNumber = .ok hi)
    (hn : s.listing.source.any (fun p => Listing.inRange lo hi p.1) = false) :
    (doDelete.run).run s = (.ok .stopped, doEnd { s with stack := stk }) := by
  have hr : s.listing.removeRange lo hi = (s.listing, false) := by
    unfold Listing.removeRange; simp [hn]
  rw [doDelete_ok s stk a b lo hi h ha hb, hr]
  simp

/-- `r#list` with two line numbers on the stack enters the listing state for that range -/
theorem doList_ok (s : Runtime) (stk : Array Val) (a b : Val) (lo hi : Option Nat)
    (h : s.stack = (stk.push a).push b) (ha : a.toLineNumber = .ok lo) (hb : b.toLineNumber = .ok hi) :
    (doList.run).run s = (.ok (), { s with stack := stk, state := .listing lo hi }) := by
  unfold doList
  rw [rm_bind, rm_pop2 s stk a b h]
  simp only [ha, hb, rm_bind, rm_liftE, rm_modify]

theorem doList_bad_lo (s : Runtime) (stk : Array Val) (a b : Val) (e : Error)
    (h : s.stack = (stk.push a).push b) (ha : a.toLineNumber = .error e) :
    (doList.run).run s = (.error e, { s with stack := stk }) := by
  unfold doList
  rw [rm_bind, rm_pop2 s stk a b h]
  simp only [ha, rm_bind, rm_liftE]

theorem doList_bad_hi (s : Runtime) (stk : Array Val) (a b : Val) (lo : Option Nat) (e : Error)
    (h : s.stack = (stk.push a).push b) (ha : a.toLineNumber = .ok lo)
    (hb : b.toLineNumber = .error e) :
    (doList.run).run s = (.error e, { s with stack := stk }) := by
  unfold doList
  rw [rm_bind, rm_pop2 s stk a b h]
  simp only [ha, hb, rm_bind, rm_liftE]

/-- a value above 65529 (as `u16`) is no line number: UNDEFINED LINE -/
theorem toLineNumber_big (v : Val) (n : Nat) (h : v.toU16 = .ok n) (hn : maxLineNumber < n) :
    v.toLineNumber = err Code.undefinedLine := by
  unfold Val.toLineNumber
  rw [h]
  show (if n ≤ maxLineNumber then _ else _) = _
  rw [if_neg (by omega)]

/-- a value that is no `u16` (negative, too large, not a number) is no line number -/
theorem toLineNumber_noU16 (v : Val) (e : Error) (h : v.toU16 = .error e) :
    v.toLineNumber = .error e := by
  unfold Val.toLineNumber
  rw [h]; rfl

/-- successful conversions yield line numbers -/
theorem toLineNumber_ok (v : Val) (r : Option Nat) (h : v.toLineNumber = .ok r) :
    ∃ n, r = some n ∧ n ≤ maxLineNumber ∧ v.toU16 = .ok n := by
  unfold Val.toLineNumber at h
  cases hu : v.toU16 with
  | error e => rw [hu] at h; cases h
  | ok n =>
    rw [hu] at h
    have h' : (if n ≤ maxLineNumber then Except.ok (some n) else err Code.undefinedLine) = .ok r := h
    split at h'
    · cases h'; exact ⟨n, rfl, by assumption, rfl⟩
    · cases h'

/-! ### LIST: the listing state of `execute` -/

/-- `execute` in a listing state with a line left in the range: that line is the event, the state
    keeps the rest of the range; nothing else changes except the print column -/
theorem execute_listing_some (env : Env) (s : Runtime) (n : Nat) (lo hi lo' hi' : Option Nat)
    (text : Str) (cols : List (Nat × Nat)) (hs : s.state = .listing lo hi)
    (hl : s.listing.listLine lo hi = some ((text, cols), (lo', hi'))) :
    execute env s n = ({ s with state := .listing lo' hi', printCol := 0 }, .list text cols) := by
  unfold execute
  simp only [hs, hl]

/-- `execute` in a listing state whose range is exhausted carries on as the running state -/
theorem execute_listing_done (env : Env) (s : Runtime) (n : Nat) (lo hi : Option Nat)
    (hs : s.state = .listing lo hi) (hl : s.listing.listLine lo hi = none)
    (hd : s.listing.directErrors.isEmpty = true) :
    execute env s n = execute env { s with state := .running } n := by
  unfold execute
  simp only [hs, hl, hd]
  rfl

/-- `k` calls of `execute`: the events and the final state -/
def executeN (env : Env) (n : Nat) : Nat → Runtime → List Event × Runtime
  | 0, s => ([], s)
  | k + 1, s =>
    let r := execute env s n
    let rest := executeN env n k r.1
    (r.2 :: rest.1, rest.2)

/-- iterating `list_line` until the range is exhausted: the emitted lines and the last range
    (`none`: out of fuel) -/
def listLines (l : Listing) :
    Nat → Option Nat → Option Nat → Option (List (Str × List (Nat × Nat)) × (Option Nat × Option Nat))
  | 0, _, _ => none
  | fuel + 1, lo, hi =>
    match l.listLine lo hi with
    | none => some ([], (lo, hi))
    | some (x, (lo', hi')) => (listLines l fuel lo' hi').map fun r => (x :: r.1, r.2)

theorem listLines_last (l : Listing) : ∀ (fuel : Nat) (lo hi : Option Nat) out r,
    listLines l fuel lo hi = some (out, r) → l.listLine r.1 r.2 = none
  | 0, _, _, _, _, h => by cases h
  | fuel + 1, lo, hi, out, r, h => by
    unfold listLines at h
    cases hl : l.listLine lo hi with
    | none => rw [hl] at h; cases h; exact hl
    | some x =>
      obtain ⟨x, lo', hi'⟩ := x
      rw [hl] at h
      simp only at h
      cases hr : listLines l fuel lo' hi' with
      | none => rw [hr] at h; cases h
      | some q =>
        obtain ⟨o, r'⟩ := q
        rw [hr] at h
        cases h
        exact listLines_last l fuel lo' hi' o r' hr

/-- LIST at run time: from a listing state, as many calls of `execute` as there are lines in the
    range emit exactly those lines (`Event.list`), in the order `list_line` finds them; the runtime
    state is then the listing state of an exhausted range and, apart from the print column, nothing
    else has changed (in particular not the store) -/
theorem executeN_listing (env : Env) (n : Nat) : ∀ (fuel : Nat) (s : Runtime) (lo hi : Option Nat)
    out r, s.state = .listing lo hi → listLines s.listing fuel lo hi = some (out, r) →
    executeN env n out.length s =
      (out.map (fun x => Event.list x.1 x.2),
        { s with state := .listing r.1 r.2, printCol := if out.isEmpty then s.printCol else 0 })
  | 0, _, _, _, _, _, _, h => by cases h
  | fuel + 1, s, lo, hi, out, r, hs, h => by
    unfold listLines at h
    cases hl : s.listing.listLine lo hi with
    | none =>
      rw [hl] at h
      cases h
      simp only [List.length_nil, executeN, List.map_nil, List.isEmpty_nil, if_true, ← hs]
    | some x =>
      obtain ⟨⟨text, cols⟩, lo', hi'⟩ := x
      rw [hl] at h
      simp only at h
      cases hr : listLines s.listing fuel lo' hi' with
      | none => rw [hr] at h; cases h
      | some q =>
        obtain ⟨o, r'⟩ := q
        rw [hr] at h
        cases h
        have ih := executeN_listing env n fuel
          { s with state := .listing lo' hi', printCol := 0 } lo' hi' o r' rfl hr
        simp only [List.length_cons, executeN, execute_listing_some env s n lo hi lo' hi' text cols hs hl,
          ih, List.map_cons, List.isEmpty_cons, Bool.false_eq_true, if_false]
        congr 2
        split <;> rfl
end Rt

end Lemmas.RangeForms
end Basic
