import BasicModel.Lemmas.Link
import BasicModel.Lemmas.GenNeg
import BasicModel.Lemmas.GenBound
import BasicModel.Lemmas.Program
import BasicModel.Lemmas.DirectFrame
import BasicModel.Lemmas.Sim
/-
  C20, whole-program layout invariance: a numbered line that compiles to nothing (`REM`) can be
  inserted anywhere without moving any code.

  `Link.withSym l k v` is `l` with the extra symbol-table entry `k ↦ v`.  Part 1 shows that every
  operation of the compile pipeline commutes with `withSym k v` for a line number `k` that no
  other line carries; part 2 follows the entry through `codegenLines` and `linkProg`; part 3 is
  the runtime view (`Runtime.Sim`).
-/
namespace Basic
namespace Link

def withSym (l : Link) (k : Symbol) (v : Nat × Nat) : Link := { l with symbols := symInsert k v l.symbols }

theorem symInsert_comm {k k' : Symbol} (h : k ≠ k') (v v' : Nat × Nat) (m : List (Symbol × (Nat × Nat))) :
    symInsert k v (symInsert k' v' m) = symInsert k' v' (symInsert k v m) := by
  induction m with
  | nil =>
    simp only [symInsert]
    repeat' split
    all_goals first | rfl | (exfalso; simp only [Symbol] at *; omega)
  | cons hd tl ih =>
    obtain ⟨x, y⟩ := hd
    simp only [symInsert]
    repeat' split
    all_goals first | rfl | (exfalso; simp only [Symbol] at *; omega) | skip
    all_goals simp only [symInsert]
    all_goals repeat' split
    all_goals first | rfl | (exfalso; simp only [Symbol] at *; omega) | rw [ih]

theorem symInsert_filter_nonneg {k : Symbol} (hk : 0 ≤ k) (v : Nat × Nat) (m : List (Symbol × (Nat × Nat))) :
    (symInsert k v m).filter (fun p => p.1 ≥ 0) = symInsert k v (m.filter (fun p => p.1 ≥ 0)) := by
  have hkk : decide (k ≥ 0) = true := decide_eq_true hk
  induction m with
  | nil => simp only [symInsert, List.filter_cons, hkk, if_true, List.filter_nil]
  | cons hd tl ih =>
    obtain ⟨x, y⟩ := hd
    by_cases h1 : k < x
    · have hx : decide (x ≥ 0) = true := decide_eq_true (by simp only [Symbol] at *; omega)
      simp only [symInsert, if_pos h1, List.filter_cons, hkk, hx, if_true]
    · by_cases h2 : k = x
      · subst h2
        simp only [symInsert, if_neg h1, List.filter_cons, hkk, if_true]
      · simp only [symInsert, if_neg h1, if_neg h2, List.filter_cons]
        by_cases hx : x ≥ 0
        · simp only [decide_eq_true hx, if_true, symInsert, if_neg h1, if_neg h2, ih]
        · simp only [decide_eq_false hx, ih]
          simp

theorem any_symInsert (P : Symbol × (Nat × Nat) → Bool) {k : Symbol} {v : Nat × Nat}
    {m : List (Symbol × (Nat × Nat))} (hk : ∀ p ∈ m, p.1 ≠ k) :
    (symInsert k v m).any P = (P (k, v) || m.any P) := by
  induction m with
  | nil => simp [symInsert]
  | cons hd tl ih =>
    obtain ⟨x, y⟩ := hd
    have hx : x ≠ k := hk (x, y) List.mem_cons_self
    have ih' := ih (fun p hp => hk p (List.mem_cons_of_mem _ hp))
    by_cases h1 : k < x
    · simp only [symInsert, if_pos h1, List.any_cons]
    · simp only [symInsert, if_neg h1, if_neg (fun e : k = x => hx e.symm), List.any_cons, ih']
      cases P (x, y) <;> cases P (k, v) <;> simp

theorem foldl_symInsert_comm (f : Symbol × (Nat × Nat) → Symbol × (Nat × Nat)) (bs : List (Symbol × (Nat × Nat)))
    (k : Symbol) (v : Nat × Nat) (h : ∀ b ∈ bs, (f b).1 ≠ k) (m : List (Symbol × (Nat × Nat))) :
    bs.foldl (fun m b => symInsert (f b).1 (f b).2 m) (symInsert k v m) =
      symInsert k v (bs.foldl (fun m b => symInsert (f b).1 (f b).2 m) m) := by
  induction bs generalizing m with
  | nil => rfl
  | cons b rest ih =>
    simp only [List.foldl_cons]
    rw [symInsert_comm (h b List.mem_cons_self), ih (fun b hb => h b (List.mem_cons_of_mem _ hb))]

theorem appendSymbols_withSym (a b : Link) (k : Symbol) (v : Nat × Nat)
    (h : ∀ q ∈ b.symbols, rebase a.currentSymbol q.1 ≠ k) :
    appendSymbols (a.withSym k v) b = symInsert k v (appendSymbols a b) := by
  unfold appendSymbols
  exact foldl_symInsert_comm
    (fun p => (rebase a.currentSymbol p.1, (p.2.1 + a.ops.size, p.2.2 + a.data.size))) b.symbols k v h a.symbols

theorem append_eq (a b : Link) :
    a.append b =
      if (a.directSet && !b.data.isEmpty) = true then (a, .error (Error.mk' Code.illegalDirect))
      else if a.ops.size + b.ops.size > Gen.stackMaxLen then
        ({ appended a b with data := a.data }, .error opsOverflow)
      else (appended a b,
        if a.data.size + b.data.size > Gen.stackMaxLen then .error dataOverflow else .ok ()) := by
  have hs : (b.symbols.foldl (fun m (x : Symbol × (Nat × Nat)) =>
        match x with
        | (s, (oa, da)) => symInsert (if s < 0 then s + a.currentSymbol else s) (oa + a.ops.size, da + a.data.size) m)
        a.symbols) = appendSymbols a b := by
    unfold appendSymbols rebase
    congr 1
  have hu : (b.unlinked.foldr (fun (x : Nat × (Col × Symbol)) m =>
        match x with
        | (ad, (c, s)) => unlInsert (ad + a.ops.size) (c, if s < 0 then s + a.currentSymbol else s) m)
        a.unlinked) = appendUnlinked a b := by
    unfold appendUnlinked rebase
    congr 1
  have hw : a.whiles ++ b.whiles.map (fun (x : Bool × Col × Nat × Symbol) =>
        match x with
        | (k, c, ad, s) => (k, c, ad + a.ops.size, s + a.currentSymbol)) = appendWhiles a b := by
    unfold appendWhiles
    congr 1
  unfold append
  by_cases hd : (a.directSet && !b.data.isEmpty) = true
  · simp only [hd, if_true]
  · simp only [hd]
    simp only [hs, hu, hw, Array.size_append]
    by_cases ho : a.ops.size + b.ops.size > Gen.stackMaxLen
    · simp only [ho, if_true, appended]
    · simp only [ho, if_false]
      by_cases hdd : a.data.size + b.data.size > Gen.stackMaxLen
      · simp only [hdd, if_true, appended]
      · simp only [hdd, if_false, appended]

theorem appended_withSym (a b : Link) (k : Symbol) (v : Nat × Nat)
    (h : ∀ q ∈ b.symbols, rebase a.currentSymbol q.1 ≠ k) :
    appended (a.withSym k v) b = (appended a b).withSym k v := by
  unfold appended
  rw [appendSymbols_withSym a b k v h]
  rfl

theorem append_withSym (a b : Link) (k : Symbol) (v : Nat × Nat)
    (h : ∀ q ∈ b.symbols, rebase a.currentSymbol q.1 ≠ k) :
    (a.withSym k v).append b = ((a.append b).1.withSym k v, (a.append b).2) := by
  rw [append_eq, append_eq a b, appended_withSym a b k v h]
  show (if (a.directSet && !b.data.isEmpty) = true then _
      else if a.ops.size + b.ops.size > Gen.stackMaxLen then _ else _) = _
  split
  · rfl
  · split
    · rfl
    · rfl
end Link
end Basic
namespace Basic
namespace Link

theorem append_cur_le (a b : Link) (ha : a.currentSymbol ≤ 0) (hb : b.currentSymbol ≤ 0) :
    (a.append b).1.currentSymbol ≤ 0 := by
  have hcs : a.currentSymbol + b.currentSymbol ≤ 0 := by simp only [Symbol] at *; omega
  rw [append_eq]
  split
  · exact ha
  · split
    · exact hcs
    · exact hcs

/-- the symbol table after `append`, whether or not it overflowed -/
theorem append_symbols_cases (a b : Link) :
    (a.append b).1.symbols = a.symbols ∨ (a.append b).1.symbols = appendSymbols a b := by
  rw [append_eq]
  split
  · exact .inl rfl
  · split
    · exact .inr rfl
    · exact .inr rfl

theorem rebase_neg_ne {cs : Int} (hc : cs ≤ 0) {s k : Symbol} (hs : s < 0) (hk : 0 ≤ k) : rebase cs s ≠ k := by
  unfold rebase
  rw [if_pos hs]
  simp only [Symbol] at *
  omega

/-- appending a generated fragment leaves every line-number entry alone -/
theorem append_lookup_line (a b : Link) (hb : NegSyms b) (ha : a.currentSymbol ≤ 0) (x : Symbol) (hx : 0 ≤ x) :
    (a.append b).1.symbols.lookup x = a.symbols.lookup x := by
  rcases append_symbols_cases a b with e | e
  · rw [e]
  · rw [e]
    exact appendSymbols_lookup_left x (fun q hq => rebase_neg_ne ha (hb.2 q hq) hx)

theorem append_sorted (a b : Link) (ha : SymSorted a.symbols) : SymSorted (a.append b).1.symbols := by
  rcases append_symbols_cases a b with e | e
  · rw [e]; exact ha
  · rw [e]; exact appendSymbols_sorted ha

end Link

namespace Codegen
open Link

theorem appendAll_withSym (frags : List (Col × Link)) (hf : ∀ x ∈ frags, x.2.NegSyms) (k : Symbol) (hk : 0 ≤ k)
    (v : Nat × Nat) :
    ∀ (l : Link) (errs : List Error), l.currentSymbol ≤ 0 →
      codegen.appendAll frags (l.withSym k v) errs =
        ((codegen.appendAll frags l errs).1.withSym k v, (codegen.appendAll frags l errs).2) := by
  induction frags with
  | nil => intro l errs _; rfl
  | cons f rest ih =>
    intro l errs hc
    rcases f with ⟨c, f⟩
    have hfn := hf (c, f) List.mem_cons_self
    have h1 := append_withSym l f k v (fun q hq => rebase_neg_ne hc (hfn.2 q hq) hk)
    have h2 := append_cur_le l f hc hfn.1
    unfold codegen.appendAll
    rw [h1]
    generalize l.append f = x at h2
    rcases x with ⟨l', r⟩
    cases r with
    | error e => rfl
    | ok u => exact ih (fun x hx => hf x (List.mem_cons_of_mem _ hx)) l' errs h2

theorem codegen_withSym (l : Link) (ast : List Stmt) (k : Symbol) (hk : 0 ≤ k) (v : Nat × Nat)
    (hc : l.currentSymbol ≤ 0) :
    codegen (l.withSym k v) ast = ((codegen l ast).1.withSym k v, (codegen l ast).2) := by
  unfold codegen
  exact appendAll_withSym _ (fragments_negSyms ast) k hk v l _ hc

/-- what `codegen` keeps: the label counter stays `≤ 0`, the table sorted, line entries untouched -/
theorem appendAll_keeps (frags : List (Col × Link)) (hf : ∀ x ∈ frags, x.2.NegSyms) :
    ∀ (l : Link) (errs : List Error), l.currentSymbol ≤ 0 →
      (codegen.appendAll frags l errs).1.currentSymbol ≤ 0 ∧
      (SymSorted l.symbols → SymSorted (codegen.appendAll frags l errs).1.symbols) ∧
      (∀ x : Symbol, 0 ≤ x → (codegen.appendAll frags l errs).1.symbols.lookup x = l.symbols.lookup x) := by
  induction frags with
  | nil => intro l errs hc; exact ⟨hc, id, fun _ _ => rfl⟩
  | cons f rest ih =>
    intro l errs hc
    rcases f with ⟨c, f⟩
    have hfn := hf (c, f) List.mem_cons_self
    have h2 := append_cur_le l f hc hfn.1
    have h3 := append_sorted l f
    have h4 := append_lookup_line l f hfn hc
    unfold codegen.appendAll
    generalize l.append f = x at h2 h3 h4
    rcases x with ⟨l', r⟩
    cases r with
    | error e => exact ⟨h2, h3, h4⟩
    | ok u =>
      obtain ⟨i1, i2, i3⟩ := ih (fun x hx => hf x (List.mem_cons_of_mem _ hx)) l' errs h2
      exact ⟨i1, fun hs => i2 (h3 hs), fun x hx => (i3 x hx).trans (h4 x hx)⟩

theorem codegen_keeps (l : Link) (ast : List Stmt) (hc : l.currentSymbol ≤ 0) :
    (codegen l ast).1.currentSymbol ≤ 0 ∧
    (SymSorted l.symbols → SymSorted (codegen l ast).1.symbols) ∧
    (∀ x : Symbol, 0 ≤ x → (codegen l ast).1.symbols.lookup x = l.symbols.lookup x) := by
  unfold codegen
  exact appendAll_keeps _ (fragments_negSyms ast) l _ hc

end Codegen

namespace Program
open Link

def withSym (p : Program) (k : Symbol) (v : Nat × Nat) : Program := { p with link := p.link.withSym k v }

/-- `codegenLine` for a numbered line -/
def genNumbered (p : Program) (n : Nat) (toks : List Token) : Program :=
  match Parse.parse (some n) toks with
  | .error e => { p with lineNumber := some n, link := p.link.pushSymbol n, errors := p.errors ++ [e] }
  | .ok ast =>
    { p with lineNumber := some n, link := (Codegen.codegen (p.link.pushSymbol n) ast).1,
             errors := p.errors ++ (Codegen.codegen (p.link.pushSymbol n) ast).2.map (·.inLine (some n)) }

theorem codegenLine_numbered (p : Program) (line : Line) (n : Nat) (h : line.number = some n) :
    p.codegenLine line = genNumbered p n line.tokens := by
  unfold codegenLine genNumbered
  simp only [h, Option.isNone_some]
  cases Parse.parse (some n) line.tokens with
  | error e => rfl
  | ok ast => rfl

end Program
end Basic
namespace Basic
namespace Link

/-! ### the linker and an extra line entry -/

/-- `lineNumberFor` reads the symbol table only -/
theorem lineNumberFor_congr {l l' : Link} (h : l'.symbols = l.symbols) (a : Nat) :
    l'.lineNumberFor a = l.lineNumberFor a := by
  unfold lineNumberFor; rw [h]

/-- `linkOne` with the line number used in its error reports as a parameter -/
def linkOneWith (l : Link) (ln : Option Nat) (opAddr : Nat) (c : Col) (sym : Symbol) : Link × Option Error :=
  let failure := some (((Error.mk' Code.internalError).inLine ln).inCol c.1 c.2 |>.withMsg "LINK FAILURE")
  match l.symbols.lookup sym with
  | none =>
    if sym ≥ 0 then (l, some (mkErr Code.undefinedLine ln c))
    else (l, failure)
  | some (opDest, dataDest) =>
    match l.ops[opAddr]? with
    | some (.ifNot _) => ({ l with ops := l.ops.setIfInBounds opAddr (.ifNot opDest) }, none)
    | some (.jump _) => ({ l with ops := l.ops.setIfInBounds opAddr (.jump opDest) }, none)
    | some (.literal (.ret _)) => ({ l with ops := l.ops.setIfInBounds opAddr (.literal (.ret opDest)) }, none)
    | some (.literal (.nxt _)) => ({ l with ops := l.ops.setIfInBounds opAddr (.literal (.nxt opDest)) }, none)
    | some (.restore _) => ({ l with ops := l.ops.setIfInBounds opAddr (.restore dataDest) }, none)
    | _ => (l, failure)

theorem linkOne_eq_with (l : Link) (a : Nat) (c : Col) (sym : Symbol) :
    l.linkOne a c sym = linkOneWith l (l.lineNumberFor a) a c sym := rfl

theorem linkOneWith_withSym (l : Link) (ln : Option Nat) (a : Nat) (c : Col) (sym : Symbol)
    (k : Symbol) (v : Nat × Nat) (hs : sym ≠ k) :
    linkOneWith (l.withSym k v) ln a c sym =
      ((linkOneWith l ln a c sym).1.withSym k v, (linkOneWith l ln a c sym).2) := by
  have hlook : (l.withSym k v).symbols.lookup sym = l.symbols.lookup sym := by
    show (symInsert k v l.symbols).lookup sym = _
    rw [symInsert_lookup, if_neg hs]
  unfold linkOneWith
  rw [hlook]
  show (match l.symbols.lookup sym with
    | none => _
    | some (opDest, dataDest) => match l.ops[a]? with
      | some (.ifNot _) => _
      | some (.jump _) => _
      | some (.literal (.ret _)) => _
      | some (.literal (.nxt _)) => _
      | some (.restore _) => _
      | _ => _) = _
  split
  · split <;> rfl
  · split <;> rfl

/-- without an error report the line number is not used -/
theorem linkOneWith_of_none (l : Link) (ln ln' : Option Nat) (a : Nat) (c : Col) (sym : Symbol)
    (h : (linkOneWith l ln a c sym).2 = none) : linkOneWith l ln' a c sym = linkOneWith l ln a c sym := by
  unfold linkOneWith at h ⊢
  split
  · rename_i hl
    rw [hl] at h
    dsimp only at h
    split at h <;> cases h
  · rename_i o d hl
    rw [hl] at h
    dsimp only at h
    split <;> first | rfl | (rename_i hop; exfalso; revert h; split <;> first | (intro h; cases h) | skip)
    all_goals simp_all


theorem linkOne_withSym (l : Link) (a : Nat) (c : Col) (sym : Symbol) (k : Symbol) (v : Nat × Nat) (hs : sym ≠ k)
    (hl : (l.withSym k v).lineNumberFor a = l.lineNumberFor a ∨ (l.linkOne a c sym).2 = none) :
    (l.withSym k v).linkOne a c sym = ((l.linkOne a c sym).1.withSym k v, (l.linkOne a c sym).2) := by
  rw [linkOne_eq_with, linkOne_eq_with l, linkOneWith_withSym _ _ _ _ _ _ _ hs]
  rcases hl with hl | hl
  · rw [hl]
  · rw [linkOne_eq_with] at hl
    rw [linkOneWith_of_none l _ ((l.withSym k v).lineNumberFor a) a c sym hl]

theorem linkStep_withSym (acc : Link × List Error) (p : Nat × (Col × Symbol)) (k : Symbol) (v : Nat × Nat)
    (hs : p.2.2 ≠ k)
    (hl : (acc.1.withSym k v).lineNumberFor p.1 = acc.1.lineNumberFor p.1 ∨
      (acc.1.linkOne p.1 p.2.1 p.2.2).2 = none) :
    linkStep (acc.1.withSym k v, acc.2) p = ((linkStep acc p).1.withSym k v, (linkStep acc p).2) := by
  unfold linkStep
  dsimp only
  rw [linkOne_withSym _ _ _ _ _ _ hs hl]
  generalize acc.1.linkOne p.1 p.2.1 p.2.2 = r
  rcases r with ⟨l', o⟩
  cases o <;> rfl

theorem linkStep_errs_nil {acc : Link × List Error} {p : Nat × (Col × Symbol)} (h : (linkStep acc p).2 = []) :
    acc.2 = [] ∧ (acc.1.linkOne p.1 p.2.1 p.2.2).2 = none := by
  unfold linkStep at h
  generalize acc.1.linkOne p.1 p.2.1 p.2.2 = r at h ⊢
  rcases r with ⟨l', o⟩
  cases o with
  | none => exact ⟨h, rfl⟩
  | some e =>
    dsimp only at h
    exact absurd h (by simp)

theorem foldl_linkStep_errs_nil (ps : List (Nat × (Col × Symbol))) {acc : Link × List Error}
    (h : (ps.foldl linkStep acc).2 = []) : acc.2 = [] := by
  cases hacc : acc.2 with
  | nil => rfl
  | cons e es =>
    have := foldl_linkStep_errs_mono ps acc e (by rw [hacc]; exact List.mem_cons_self)
    rw [h] at this
    cases this

theorem foldl_linkStep_withSym (ps : List (Nat × (Col × Symbol))) (k : Symbol) (v : Nat × Nat)
    (hs : ∀ p ∈ ps, p.2.2 ≠ k) (acc : Link × List Error)
    (hl : (∀ a, (acc.1.withSym k v).lineNumberFor a = acc.1.lineNumberFor a) ∨ (ps.foldl linkStep acc).2 = []) :
    ps.foldl linkStep (acc.1.withSym k v, acc.2) =
      ((ps.foldl linkStep acc).1.withSym k v, (ps.foldl linkStep acc).2) := by
  induction ps generalizing acc with
  | nil => rfl
  | cons p rest ih =>
    simp only [List.foldl_cons] at hl ⊢
    have hstep : linkStep (acc.1.withSym k v, acc.2) p = ((linkStep acc p).1.withSym k v, (linkStep acc p).2) := by
      apply linkStep_withSym acc p k v (hs p List.mem_cons_self)
      rcases hl with hl | hl
      · exact .inl (hl p.1)
      · exact .inr (linkStep_errs_nil (foldl_linkStep_errs_nil rest hl)).2
    rw [hstep]
    apply ih (fun q hq => hs q (List.mem_cons_of_mem _ hq))
    rcases hl with hl | hl
    · left
      intro a
      have e1 : ((linkStep acc p).1.withSym k v).lineNumberFor a = (acc.1.withSym k v).lineNumberFor a :=
        lineNumberFor_congr (by show symInsert k v _ = symInsert k v _; rw [linkStep_symbols]) a
      rw [e1, hl a]
      exact (lineNumberFor_congr (linkStep_symbols acc p) a).symm
    · exact .inr hl

theorem linkWhiles_withSym (l : Link) (k : Symbol) (v : Nat × Nat)
    (hl : (∀ a, (l.withSym k v).lineNumberFor a = l.lineNumberFor a) ∨ l.linkWhiles.2 = []) :
    (l.withSym k v).linkWhiles = (l.linkWhiles.1.withSym k v, l.linkWhiles.2) := by
  rw [linkWhiles_matches, linkWhiles_matches l]
  rcases hl with hl | hl
  · have : (l.withSym k v).lineNumberFor = l.lineNumberFor := funext hl
    rw [this]
    rfl
  · rw [linkWhiles_matches] at hl
    dsimp only at hl
    obtain ⟨h1, h2⟩ := List.append_eq_nil_iff.1 hl
    rw [List.map_eq_nil_iff] at h1 h2
    show (_, List.map _ (Spec.bracketMatch l.whiles).2.1 ++ List.map _ (Spec.bracketMatch l.whiles).2.2) = _
    rw [h1, h2]
    rfl

/-- `link` after `linkWhiles` -/
def linkFrom (w : Link × List Error) : Link × List Error :=
  let r := w.1.unlinked.foldl linkStep ({ w.1 with unlinked := [] }, w.2)
  ({ r.1 with symbols := r.1.symbols.filter (fun p => p.1 ≥ 0), currentSymbol := 0 }, r.2)

theorem link_eq_from (l : Link) : l.link = linkFrom l.linkWhiles := rfl

theorem linkFrom_withSym (w : Link) (es : List Error) (k : Symbol) (hk : 0 ≤ k) (v : Nat × Nat)
    (href : ∀ p ∈ w.unlinked, p.2.2 ≠ k)
    (hl : (∀ a, (w.withSym k v).lineNumberFor a = w.lineNumberFor a) ∨ (linkFrom (w, es)).2 = []) :
    linkFrom (w.withSym k v, es) = ((linkFrom (w, es)).1.withSym k v, (linkFrom (w, es)).2) := by
  have hf := foldl_linkStep_withSym w.unlinked k v href ({ w with unlinked := [] }, es) (by
    rcases hl with h | h
    · left
      intro a
      exact h a
    · exact .inr h)
  unfold linkFrom
  dsimp only at hf ⊢
  have e3 : ({ (Link.withSym w k v : Link) with unlinked := [] } : Link) = (({ w with unlinked := [] } : Link).withSym k v) := rfl
  have e0 : (w.withSym k v).unlinked = w.unlinked := rfl
  rw [e0, e3, hf]
  dsimp only
  congr 1
  unfold withSym
  dsimp only
  rw [symInsert_filter_nonneg hk]

/-- **the linker commutes with an extra line entry** that nothing pending refers to, provided the
    line numbers it reports do not change — or it reports nothing at all -/
theorem link_withSym (l : Link) (k : Symbol) (hk : 0 ≤ k) (v : Nat × Nat)
    (href : ∀ p ∈ l.linkWhiles.1.unlinked, p.2.2 ≠ k)
    (hl : (∀ a, (l.withSym k v).lineNumberFor a = l.lineNumberFor a) ∨ l.link.2 = []) :
    (l.withSym k v).link = (l.link.1.withSym k v, l.link.2) := by
  have hw : (l.withSym k v).linkWhiles = (l.linkWhiles.1.withSym k v, l.linkWhiles.2) := by
    apply linkWhiles_withSym
    rcases hl with h | h
    · exact .inl h
    · right
      rw [link_eq_from] at h
      exact foldl_linkStep_errs_nil _ (acc := ({ l.linkWhiles.1 with unlinked := [] }, l.linkWhiles.2)) h
  rw [link_eq_from, link_eq_from l, hw]
  apply linkFrom_withSym l.linkWhiles.1 l.linkWhiles.2 k hk v href
  rcases hl with h | h
  · left
    intro a
    have e1 : (l.linkWhiles.1.withSym k v).lineNumberFor a = (l.withSym k v).lineNumberFor a :=
      lineNumberFor_congr (by rw [linkWhiles_matches]; rfl) a
    have e2 : l.linkWhiles.1.lineNumberFor a = l.lineNumberFor a :=
      lineNumberFor_congr (by rw [linkWhiles_matches]) a
    exact e1.trans ((h a).trans e2.symm)
  · exact .inr (by rw [link_eq_from] at h; exact h)

end Link
end Basic
namespace Basic
namespace Link

/-! ### `lineNumberFor` and `hasLineAtEnd` with an extra line entry -/

theorem lineNumberFor_some_le {l : Link} {a n : Nat} (h : l.lineNumberFor a = some n) : n ≤ Gen.maxLineNumber := by
  unfold lineNumberFor at h
  simp only at h
  split at h
  · rename_i k _ _
    split at h
    · rename_i hk
      injection h with h
      have : ((k.toNat : Nat) : Int) ≤ (Gen.maxLineNumber : Int) := by simp only [Symbol] at *; omega
      subst h
      exact_mod_cast this
    · cases h
  · cases h

/-- the condition of `lineNumberFor_eq_some_iff` -/
def IsLineOf (m : List (Symbol × (Nat × Nat))) (a n : Nat) : Prop :=
  (∃ o d, ((n : Int), (o, d)) ∈ m ∧ o ≤ a) ∧ (∀ p ∈ m, 0 ≤ p.1 → p.2.1 ≤ a → p.1 ≤ (n : Int))

theorem lineNumberFor_eq_of_iff {l l' : Link} (hs : SymSorted l.symbols) (hs' : SymSorted l'.symbols) (a : Nat)
    (h : ∀ n : Nat, IsLineOf l'.symbols a n ↔ IsLineOf l.symbols a n) :
    l'.lineNumberFor a = l.lineNumberFor a := by
  cases h1 : l.lineNumberFor a with
  | some n =>
    exact (lineNumberFor_eq_some_iff hs' a n (lineNumberFor_some_le h1)).2
      ((h n).2 ((lineNumberFor_eq_some_iff hs a n (lineNumberFor_some_le h1)).1 h1))
  | none =>
    cases h2 : l'.lineNumberFor a with
    | none => rfl
    | some n =>
      have := (lineNumberFor_eq_some_iff hs a n (lineNumberFor_some_le h2)).2
        ((h n).1 ((lineNumberFor_eq_some_iff hs' a n (lineNumberFor_some_le h2)).1 h2))
      rw [h1] at this
      cases this

theorem mem_symInsert_new {k : Symbol} {v : Nat × Nat} {m : List (Symbol × (Nat × Nat))}
    (hk : ∀ p ∈ m, p.1 ≠ k) (p : Symbol × (Nat × Nat)) : p ∈ symInsert k v m ↔ p = (k, v) ∨ p ∈ m := by
  constructor
  · exact mem_symInsert
  · rintro (e | hp)
    · rw [e]; exact mem_symInsert_self k v m
    · exact mem_symInsert_of_mem hp (hk p hp)

/-- an entry for a new line `k` whose address `v.1` is also the address of a later line: no code
    address changes its line -/
theorem lineNumberFor_withSym_all {l : Link} (hs : SymSorted l.symbols) {k : Symbol} {v : Nat × Nat}
    (hk : ∀ p ∈ l.symbols, p.1 ≠ k) (hk0 : 0 ≤ k)
    (hm : ∃ p ∈ l.symbols, k < p.1 ∧ p.2.1 ≤ v.1) (a : Nat) :
    (l.withSym k v).lineNumberFor a = l.lineNumberFor a := by
  apply lineNumberFor_eq_of_iff hs (symInsert_sorted k v hs) a
  intro n
  obtain ⟨q, hq, hkq, hqv⟩ := hm
  show IsLineOf (symInsert k v l.symbols) a n ↔ _
  unfold IsLineOf
  constructor
  · rintro ⟨⟨o, d, hmem, hoa⟩, hmax⟩
    have hmax' : ∀ p ∈ l.symbols, 0 ≤ p.1 → p.2.1 ≤ a → p.1 ≤ (n : Int) :=
      fun p hp => hmax p ((mem_symInsert_new hk p).2 (.inr hp))
    rcases (mem_symInsert_new hk _).1 hmem with e | hmem
    · exfalso
      injection e with e1 e2
      have hva : v.1 ≤ a := by rw [← e2]; exact hoa
      have := hmax' q hq (by simp only [Symbol] at *; omega) (by omega)
      simp only [Symbol] at *; omega
    · exact ⟨⟨o, d, hmem, hoa⟩, hmax'⟩
  · rintro ⟨⟨o, d, hmem, hoa⟩, hmax⟩
    refine ⟨⟨o, d, (mem_symInsert_new hk _).2 (.inr hmem), hoa⟩, ?_⟩
    intro p hp h0 hpa
    rcases (mem_symInsert_new hk p).1 hp with e | hp
    · subst e
      have := hmax q hq (by simp only [Symbol] at *; omega) (by simp only at hpa; omega)
      show k ≤ (n : Int)
      simp only [Symbol] at *; omega
    · exact hmax p hp h0 hpa

/-- below the address of the new entry nothing changes -/
theorem lineNumberFor_withSym_below {l : Link} (hs : SymSorted l.symbols) {k : Symbol} {v : Nat × Nat}
    (hk : ∀ p ∈ l.symbols, p.1 ≠ k) (a : Nat) (ha : a < v.1) :
    (l.withSym k v).lineNumberFor a = l.lineNumberFor a := by
  apply lineNumberFor_eq_of_iff hs (symInsert_sorted k v hs) a
  intro n
  show IsLineOf (symInsert k v l.symbols) a n ↔ _
  unfold IsLineOf
  constructor
  · rintro ⟨⟨o, d, hmem, hoa⟩, hmax⟩
    refine ⟨?_, fun p hp => hmax p ((mem_symInsert_new hk p).2 (.inr hp))⟩
    rcases (mem_symInsert_new hk _).1 hmem with e | hmem
    · exfalso
      injection e with e1 e2
      have : v.1 ≤ a := by rw [← e2]; exact hoa
      omega
    · exact ⟨o, d, hmem, hoa⟩
  · rintro ⟨⟨o, d, hmem, hoa⟩, hmax⟩
    refine ⟨⟨o, d, (mem_symInsert_new hk _).2 (.inr hmem), hoa⟩, ?_⟩
    intro p hp h0 hpa
    rcases (mem_symInsert_new hk p).1 hp with e | hp
    · subst e
      simp only at hpa
      omega
    · exact hmax p hp h0 hpa

/-- from the address of the new entry on, a code address belongs to the new line `k` if every
    other line starting at or before it has a smaller number -/
theorem lineNumberFor_withSym_at {l : Link} (hs : SymSorted l.symbols) {k : Nat} {v : Nat × Nat}
    (hkm : k ≤ Gen.maxLineNumber) (hk : ∀ p ∈ l.symbols, p.1 ≠ (k : Int)) (a : Nat) (ha : v.1 ≤ a)
    (hlt : ∀ p ∈ l.symbols, 0 ≤ p.1 → p.2.1 ≤ a → p.1 < (k : Int)) :
    (l.withSym k v).lineNumberFor a = some k := by
  rw [lineNumberFor_eq_some_iff (l := l.withSym k v) (symInsert_sorted k v hs) a k hkm]
  refine ⟨⟨v.1, v.2, mem_symInsert_self _ _ _, ha⟩, ?_⟩
  intro p hp h0 hpa
  rcases (mem_symInsert_new hk p).1 hp with e | hp
  · subst e; exact Int.le_refl _
  · exact Int.le_of_lt (hlt p hp h0 hpa)

theorem hasLineAtEnd_withSym (l : Link) (k : Symbol) (v : Nat × Nat) (hk : ∀ p ∈ l.symbols, p.1 ≠ k) :
    (l.withSym k v).hasLineAtEnd =
      ((v.1 == l.ops.size) || l.hasLineAtEnd) := by
  unfold hasLineAtEnd
  show (symInsert k v l.symbols).any _ = _
  rw [any_symInsert _ hk]
  rfl

end Link
end Basic
namespace Basic
namespace Program
open Link

/-! ### `codegenLines` and an extra line entry -/

theorem pushSymbol_withSym (l : Link) (n : Nat) (k : Symbol) (v : Nat × Nat) (h : (n : Symbol) ≠ k) :
    (l.withSym k v).pushSymbol n = (l.pushSymbol n).withSym k v := by
  unfold pushSymbol Link.withSym
  dsimp only
  rw [symInsert_comm h]

theorem genNumbered_withSym (p : Program) (n : Nat) (toks : List Token) (k : Symbol) (v : Nat × Nat)
    (hk : 0 ≤ k) (hn : (n : Symbol) ≠ k) (hc : p.link.currentSymbol ≤ 0) :
    genNumbered (p.withSym k v) n toks = (genNumbered p n toks).withSym k v := by
  unfold genNumbered
  have e : (p.withSym k v).link.pushSymbol n = (p.link.pushSymbol n).withSym k v :=
    pushSymbol_withSym p.link n k v hn
  cases Parse.parse (some n) toks with
  | error err => dsimp only; rw [e]; rfl
  | ok ast =>
    dsimp only
    rw [e, Codegen.codegen_withSym _ _ _ hk _ (show (p.link.pushSymbol n).currentSymbol ≤ 0 from hc)]
    rfl

/-- what compiling a numbered line keeps and what it adds to the symbol table -/
theorem genNumbered_keeps (p : Program) (n : Nat) (toks : List Token) (hc : p.link.currentSymbol ≤ 0) :
    (genNumbered p n toks).link.currentSymbol ≤ 0 ∧
    (SymSorted p.link.symbols → SymSorted (genNumbered p n toks).link.symbols) ∧
    (∀ x : Nat, (genNumbered p n toks).link.symbols.lookup (x : Int) =
      if x = n then some (p.link.ops.size, p.link.data.size) else p.link.symbols.lookup (x : Int)) ∧
    (genNumbered p n toks).directAddress = p.directAddress ∧
    (genNumbered p n toks).indirectErrors = p.indirectErrors := by
  have hlk : ∀ x : Nat, (p.link.pushSymbol n).symbols.lookup (x : Int) =
      if x = n then some (p.link.ops.size, p.link.data.size) else p.link.symbols.lookup (x : Int) := by
    intro x
    show (symInsert (n : Int) _ p.link.symbols).lookup (x : Int) = _
    rw [symInsert_lookup]
    by_cases hx : x = n
    · subst hx; rw [if_pos rfl, if_pos rfl]
    · rw [if_neg hx, if_neg (by intro e; exact hx (by exact_mod_cast e))]
  have hso : SymSorted p.link.symbols → SymSorted (p.link.pushSymbol n).symbols :=
    fun h => symInsert_sorted _ _ h
  unfold genNumbered
  cases Parse.parse (some n) toks with
  | error err => exact ⟨hc, hso, hlk, rfl, rfl⟩
  | ok ast =>
    obtain ⟨h1, h2, h3⟩ := Codegen.codegen_keeps (p.link.pushSymbol n) ast hc
    exact ⟨h1, fun h => h2 (hso h), fun x => (h3 (x : Int) (Int.natCast_nonneg x)).trans (hlk x), rfl, rfl⟩

/-- all lines carry a number -/
def Numbered (ls : List Line) : Prop := ∀ l ∈ ls, ∃ n : Nat, l.number = some n

theorem codegenLines_cons (p : Program) (l : Line) (ls : List Line) :
    p.codegenLines (l :: ls) = (p.codegenLine l).codegenLines ls := rfl

theorem codegenLines_append (p : Program) (xs ys : List Line) :
    p.codegenLines (xs ++ ys) = (p.codegenLines xs).codegenLines ys := by
  unfold codegenLines; rw [List.foldl_append]

theorem codegenLines_keeps (ls : List Line) (hnum : Numbered ls) :
    ∀ p : Program, p.link.currentSymbol ≤ 0 →
      (p.codegenLines ls).link.currentSymbol ≤ 0 ∧
      (SymSorted p.link.symbols → SymSorted (p.codegenLines ls).link.symbols) ∧
      (∀ x : Nat, (∀ l ∈ ls, l.number ≠ some x) →
        (p.codegenLines ls).link.symbols.lookup (x : Int) = p.link.symbols.lookup (x : Int)) ∧
      (p.codegenLines ls).directAddress = p.directAddress ∧
      (p.codegenLines ls).indirectErrors = p.indirectErrors := by
  induction ls with
  | nil => intro p hc; exact ⟨hc, id, fun _ _ => rfl, rfl, rfl⟩
  | cons l rest ih =>
    intro p hc
    obtain ⟨n, hn⟩ := hnum l List.mem_cons_self
    rw [codegenLines_cons, codegenLine_numbered p l n hn]
    obtain ⟨g1, g2, g3, g4, g5⟩ := genNumbered_keeps p n l.tokens hc
    obtain ⟨i1, i2, i3, i4, i5⟩ := ih (fun l hl => hnum l (List.mem_cons_of_mem _ hl)) _ g1
    refine ⟨i1, fun h => i2 (g2 h), ?_, i4.trans g4, i5.trans g5⟩
    intro x hx
    rw [i3 x (fun l hl => hx l (List.mem_cons_of_mem _ hl)), g3 x]
    rw [if_neg (fun e => hx l List.mem_cons_self (by rw [hn, e]))]

theorem codegenLines_withSym (ls : List Line) (k : Symbol) (hk : 0 ≤ k) (v : Nat × Nat)
    (hnum : ∀ l ∈ ls, ∃ n : Nat, l.number = some n ∧ (n : Symbol) ≠ k) :
    ∀ p : Program, p.link.currentSymbol ≤ 0 →
      (p.withSym k v).codegenLines ls = (p.codegenLines ls).withSym k v := by
  induction ls with
  | nil => intro p _; rfl
  | cons l rest ih =>
    intro p hc
    obtain ⟨n, hn, hnk⟩ := hnum l List.mem_cons_self
    rw [codegenLines_cons, codegenLines_cons, codegenLine_numbered _ l n hn, codegenLine_numbered _ l n hn,
      genNumbered_withSym p n l.tokens k v hk hnk hc]
    exact ih (fun l hl => hnum l (List.mem_cons_of_mem _ hl)) _ (genNumbered_keeps p n l.tokens hc).1

/-- the line number being compiled is overwritten by the next line -/
theorem genNumbered_lineNumber (p : Program) (ln : Option Nat) (n : Nat) (toks : List Token) :
    genNumbered { p with lineNumber := ln } n toks = genNumbered p n toks := by
  unfold genNumbered
  cases Parse.parse (some n) toks <;> rfl

/-- a numbered line that compiles to nothing: its statements parse, and generating them leaves
    every link as it is and reports nothing (`REM …`, an empty line, `:`) -/
def CodeLess (line : Line) : Prop :=
  ∃ ast, Parse.parse line.number line.tokens = .ok ast ∧ ∀ l : Link, Codegen.codegen l ast = (l, [])

/-- a code-less line only enters its number, with the current end of code and data as address -/
theorem codegenLine_codeLess (p : Program) (r : Line) (n : Nat) (hn : r.number = some n) (hc : CodeLess r) :
    p.codegenLine r =
      { p.withSym (n : Int) (p.link.ops.size, p.link.data.size) with lineNumber := some n } := by
  obtain ⟨ast, hp, hg⟩ := hc
  rw [hn] at hp
  rw [codegenLine_numbered p r n hn]
  unfold genNumbered
  rw [hp]
  dsimp only
  rw [hg]
  simp only [List.map_nil, List.append_nil]
  rfl

end Program
end Basic
namespace Basic
namespace Parse

theorem nextLoop_none_rest : ∀ (ts : List Token) (rem : Bool) (cs ce : Nat),
    (nextLoop ts rem cs ce).1 = none →
      ∃ rem' c, nextLoop ts rem cs ce = (none, [], rem', c, c) := by
  intro ts
  induction ts with
  | nil => intro rem cs ce _; exact ⟨rem, ce, rfl⟩
  | cons t ts ih =>
    intro rem cs ce h
    unfold nextLoop at h ⊢
    dsimp only at h ⊢
    split
    · rename_i hr
      rw [if_pos hr] at h
      exact ih _ _ _ h
    · rename_i hr
      rw [if_neg hr] at h
      split
      · rename_i n
        exact ih _ _ _ h
      · rename_i hnw
        exfalso
        revert h
        split
        · rename_i n; exact absurd rfl (hnw n)
        · intro h; cases h

/-- the parser sees no token at all: only whitespace, or a remark (everything from `REM` / `'` on) -/
def Blank (ts : List Token) : Prop := (nextLoop ts false 0 0).1 = none

theorem parse_blank (n : Option Nat) (ts : List Token) (h : Blank ts) : parse n ts = .ok [] := by
  obtain ⟨rem', c, hr⟩ := nextLoop_none_rest ts false 0 0 h
  have hf : fuelFor ts = (6 * ts.length + 19) + 1 := rfl
  have h2 : ∀ c1 c2, nextLoop [] rem' c1 c2 = (none, [], rem', c2, c2) := fun _ _ => rfl
  simp [Parse.parse, Parse.parseTokens, hf, Parse.statements, Parse.peek,
    Parse.next, hr, h2, StateT.run, bind, StateT.bind, Except.bind, get,
    getThe, MonadStateOf.get, StateT.get, pure, StateT.pure, Except.pure, set, StateT.set, modify,
    modifyGet, MonadStateOf.modifyGet, StateT.modifyGet, Except.map]

theorem nextLoop_rem (ts : List Token) : ∀ cs ce, (nextLoop ts true cs ce).1 = none := by
  induction ts with
  | nil => intro _ _; rfl
  | cons t ts ih =>
    intro cs ce
    unfold nextLoop
    dsimp only
    rw [if_pos (by simp)]
    exact ih _ _

/-- `REM …` and `' …` lines, with any whitespace in front -/
inductive RemTokens : List Token → Prop
  | rem (t : Token) (ts : List Token) : isRem t = true → RemTokens (t :: ts)
  | ws (n : Nat) (ts : List Token) : RemTokens ts → RemTokens (.whitespace n :: ts)

theorem nextLoop_remTokens {ts : List Token} (h : RemTokens ts) : ∀ cs ce, (nextLoop ts false cs ce).1 = none := by
  induction h with
  | rem t ts ht =>
    intro cs ce
    unfold nextLoop
    dsimp only
    have e : (false || isRem t) = true := by rw [ht]; rfl
    rw [e, if_pos rfl]
    exact nextLoop_rem ts _ _
  | ws n ts _ ih =>
    intro cs ce
    unfold nextLoop
    dsimp only
    rw [if_neg (by simp [isRem])]
    exact ih _ _

theorem blank_of_remTokens {ts : List Token} (h : RemTokens ts) : Blank ts := nextLoop_remTokens h 0 0

theorem blank_nil : Blank [] := rfl

end Parse

namespace Program

theorem codeLess_of_blank (line : Line) (h : Parse.Blank line.tokens) : CodeLess line :=
  ⟨[], Parse.parse_blank _ _ h, fun _ => rfl⟩

/-- a `REM` line compiles to nothing -/
theorem codeLess_of_rem (line : Line) (h : Parse.RemTokens line.tokens) : CodeLess line :=
  codeLess_of_blank line (Parse.blank_of_remTokens h)

end Program
end Basic
namespace Basic
namespace Program
open Link

/-! ### `linkProg` and an extra line entry -/

theorem pushEndP_withSym (p : Program) (k : Symbol) (v : Nat × Nat) :
    pushEndP (p.withSym k v) = (pushEndP p).withSym k v := by
  by_cases hsz : (p.link.ops.push Opcode.end).size > Gen.stackMaxLen
  · simp only [pushEndP, Link.push, withSym, Link.withSym, hsz, if_true]
  · simp only [pushEndP, Link.push, withSym, Link.withSym, hsz, if_false]

theorem ensureEnd_symbols (p : Program) :
    (ensureEnd p).link.symbols = p.link.symbols ∧ (ensureEnd p).link.unlinked = p.link.unlinked ∧
    (ensureEnd p).link.whiles = p.link.whiles ∧ (ensureEnd p).link.data = p.link.data := by
  have hp : (pushEndP p).link.symbols = p.link.symbols ∧ (pushEndP p).link.unlinked = p.link.unlinked ∧
      (pushEndP p).link.whiles = p.link.whiles ∧ (pushEndP p).link.data = p.link.data := by
    unfold pushEndP
    dsimp only
    split <;> exact ⟨rfl, rfl, rfl, rfl⟩
  unfold ensureEnd
  split
  · split
    · exact hp
    · exact ⟨rfl, rfl, rfl, rfl⟩
  · exact hp

theorem ensureEnd_eq (p : Program) :
    ensureEnd p =
      if p.link.ops.back? = some .end ∧ p.link.hasLineAtEnd = false then p else pushEndP p := by
  unfold ensureEnd
  split
  · rename_i hb
    split
    · rename_i hh
      rw [if_neg (fun h => by rw [hh] at h; exact absurd h.2 (by simp))]
    · rename_i hh
      rw [if_pos ⟨hb, by simpa using hh⟩]
  · rename_i hb
    rw [if_neg (fun h => hb h.1)]

theorem ensureEnd_withSym (p : Program) (k : Symbol) (v : Nat × Nat)
    (h : (p.link.withSym k v).hasLineAtEnd = p.link.hasLineAtEnd) :
    ensureEnd (p.withSym k v) = (ensureEnd p).withSym k v := by
  rw [ensureEnd_eq, ensureEnd_eq p, pushEndP_withSym]
  show (if p.link.ops.back? = some .end ∧ (p.link.withSym k v).hasLineAtEnd = false then _ else _) = _
  rw [h]
  by_cases hc : p.link.ops.back? = some .end ∧ p.link.hasLineAtEnd = false
  · rw [if_pos hc, if_pos hc]
  · rw [if_neg hc, if_neg hc]

theorem resolve_eq (q : Program) :
    resolve q =
      if q.errors.isEmpty = true then { q with link := q.link.link.1, errors := q.link.link.2 }
      else { q with link := q.link.link.1 } := rfl

theorem resolve_withSym (q : Program) (k : Symbol) (v : Nat × Nat)
    (h : (q.link.withSym k v).link = (q.link.link.1.withSym k v, q.link.link.2)) :
    resolve (q.withSym k v) = (resolve q).withSym k v := by
  rw [resolve_eq, resolve_eq q]
  show (if q.errors.isEmpty = true then
      ({ q.withSym k v with link := (q.link.withSym k v).link.1, errors := (q.link.withSym k v).link.2 } : Program)
    else { q.withSym k v with link := (q.link.withSym k v).link.1 }) = _
  rw [h]
  by_cases he : q.errors.isEmpty = true
  · rw [if_pos he, if_pos he]; rfl
  · rw [if_neg he, if_neg he]; rfl

theorem setStartOfDirect_withSym (l : Link) (a : Nat) (k : Symbol) (v : Nat × Nat)
    (hk : k ≠ (Gen.maxLineNumber : Int) + 1) :
    (l.withSym k v).setStartOfDirect a = (l.setStartOfDirect a).withSym k v := by
  unfold setStartOfDirect Link.withSym
  dsimp only
  rw [symInsert_comm (fun e => hk e.symm)]

/-- the result of `markDirect` when the direct segment has not been started yet -/
def startDirect (q : Program) : Program :=
  { q with indirectErrors := q.errors, errors := [], directAddress := q.link.ops.size,
           link := q.link.setStartOfDirect q.link.ops.size }

theorem markDirect_eq (q : Program) : markDirect q = if q.directAddress = 0 then startDirect q else q := rfl

theorem startDirect_withSym (q : Program) (k : Symbol) (v : Nat × Nat) (hk : k ≠ (Gen.maxLineNumber : Int) + 1) :
    startDirect (q.withSym k v) = (startDirect q).withSym k v := by
  have e : startDirect (q.withSym k v) =
      { startDirect q with link := (q.link.withSym k v).setStartOfDirect q.link.ops.size } := rfl
  rw [e, setStartOfDirect_withSym _ _ _ _ hk]
  rfl

theorem markDirect_withSym (q : Program) (k : Symbol) (v : Nat × Nat) (hk : k ≠ (Gen.maxLineNumber : Int) + 1) :
    markDirect (q.withSym k v) = (markDirect q).withSym k v := by
  rw [markDirect_eq, markDirect_eq q, startDirect_withSym _ _ _ hk]
  show (if q.directAddress = 0 then _ else _) = _
  by_cases hd : q.directAddress = 0
  · rw [if_pos hd, if_pos hd]
  · rw [if_neg hd, if_neg hd]

/-- **`linkProg` commutes with an extra line entry** under the three side conditions: the entry
    does not make the last line one "at the end" (`h1`), nothing pending refers to it (`href`),
    and the linker's reports do not change (`hl`) -/
theorem linkProg_withSym (p : Program) (k : Symbol) (hk0 : 0 ≤ k) (hk : k ≠ (Gen.maxLineNumber : Int) + 1)
    (v : Nat × Nat)
    (h1 : (p.link.withSym k v).hasLineAtEnd = p.link.hasLineAtEnd)
    (href : ∀ x ∈ p.link.linkWhiles.1.unlinked, x.2.2 ≠ k)
    (hl : (∀ a, (p.link.withSym k v).lineNumberFor a = p.link.lineNumberFor a) ∨
      (ensureEnd p).link.link.2 = []) :
    (p.withSym k v).linkProg = p.linkProg.withSym k v := by
  rw [linkProg_eq, linkProg_eq, ensureEnd_withSym p k v h1]
  obtain ⟨e1, e2, e3, -⟩ := ensureEnd_symbols p
  rw [resolve_withSym, markDirect_withSym _ _ _ hk]
  apply link_withSym _ _ hk0
  · intro x hx
    apply href x
    rw [linkWhiles_matches] at hx ⊢
    dsimp only at hx ⊢
    rw [e2, e3] at hx
    exact hx
  · rcases hl with hl | hl
    · left
      intro a
      have a1 : ((ensureEnd p).link.withSym k v).lineNumberFor a = (p.link.withSym k v).lineNumberFor a :=
        lineNumberFor_congr (by show symInsert k v _ = symInsert k v _; rw [e1]) a
      rw [a1, hl a]
      exact (lineNumberFor_congr e1 a).symm
    · exact .inr hl

end Program
end Basic
namespace Basic
namespace Program
open Link

/-! ### inserting a code-less line -/

/-- the listing order: every line carries a valid number, strictly ascending -/
structure Listed (ls : List Line) : Prop where
  numbered : ∀ l ∈ ls, ∃ n : Nat, l.number = some n ∧ n ≤ Gen.maxLineNumber
  ascending : ls.Pairwise (fun a b => ∀ x y, a.number = some x → b.number = some y → x < y)

/-- no pending reference (branch, RESTORE, RUN) of the compiled lines names line `n` -/
def NoRef (n : Nat) (ls : List Line) : Prop :=
  ∀ x ∈ (({} : Program).codegenLines ls).link.linkWhiles.1.unlinked, x.2.2 ≠ (n : Int)

theorem fresh_cur : (({} : Program)).link.currentSymbol ≤ 0 := Int.le_refl 0

theorem codegenLines_lineNumber (p : Program) (ln : Option Nat) (l : Line) (ls : List Line) (n : Nat)
    (hn : l.number = some n) :
    ({ p with lineNumber := ln } : Program).codegenLines (l :: ls) = p.codegenLines (l :: ls) := by
  rw [codegenLines_cons, codegenLines_cons, codegenLine_numbered _ l n hn, codegenLine_numbered _ l n hn,
    genNumbered_lineNumber]

/-- **inserting a code-less line before a further line**: the compile state before linking is the
    same except for the entry of the new line, whose address is the end of the code (and data)
    compiled so far -/
theorem codegenLines_insert_mid (pre post : List Line) (r : Line) (rn : Nat) (hr : r.number = some rn)
    (hc : CodeLess r) (hpre : Numbered pre)
    (hpost : ∀ l ∈ post, ∃ n : Nat, l.number = some n ∧ (n : Symbol) ≠ (rn : Int)) (hne : post ≠ []) :
    ({} : Program).codegenLines (pre ++ r :: post) =
      (({} : Program).codegenLines (pre ++ post)).withSym (rn : Int)
        ((({} : Program).codegenLines pre).link.ops.size, (({} : Program).codegenLines pre).link.data.size) := by
  rw [codegenLines_append, codegenLines_cons, codegenLine_codeLess _ r rn hr hc, codegenLines_append]
  cases post with
  | nil => exact absurd rfl hne
  | cons hd tl =>
    obtain ⟨m, hm, -⟩ := hpost hd List.mem_cons_self
    rw [codegenLines_lineNumber _ _ hd tl m hm]
    exact codegenLines_withSym (hd :: tl) _ (Int.natCast_nonneg rn) _ hpost _
      (codegenLines_keeps pre hpre {} fresh_cur).1

/-- **appending a code-less line** -/
theorem codegenLines_insert_end (pre : List Line) (r : Line) (rn : Nat) (hr : r.number = some rn)
    (hc : CodeLess r) :
    ({} : Program).codegenLines (pre ++ [r]) =
      { (({} : Program).codegenLines pre).withSym (rn : Int)
          ((({} : Program).codegenLines pre).link.ops.size, (({} : Program).codegenLines pre).link.data.size) with
        lineNumber := some rn } := by
  rw [codegenLines_append, codegenLines_cons, codegenLine_codeLess _ r rn hr hc]
  rfl

theorem Listed.split {pre post : List Line} {r : Line} {rn : Nat} (h : Listed (pre ++ r :: post))
    (hr : r.number = some rn) :
    Numbered pre ∧ Numbered post ∧ rn ≤ Gen.maxLineNumber ∧
    (∀ l ∈ pre, ∀ x, l.number = some x → x < rn) ∧
    (∀ l ∈ post, ∀ x, l.number = some x → rn < x ∧ x ≤ Gen.maxLineNumber) ∧
    post.Pairwise (fun a b => ∀ x y, a.number = some x → b.number = some y → x < y) := by
  have hasc := h.ascending
  rw [List.pairwise_append, List.pairwise_cons] at hasc
  obtain ⟨-, ⟨h2, h3⟩, h4⟩ := hasc
  refine ⟨?_, ?_, ?_, ?_, ?_, h3⟩
  · intro l hl
    obtain ⟨n, hn, -⟩ := h.numbered l (List.mem_append_left _ hl)
    exact ⟨n, hn⟩
  · intro l hl
    obtain ⟨n, hn, -⟩ := h.numbered l (List.mem_append_right _ (List.mem_cons_of_mem _ hl))
    exact ⟨n, hn⟩
  · obtain ⟨n, hn, hle⟩ := h.numbered r (List.mem_append_right _ List.mem_cons_self)
    rw [hr] at hn
    injection hn with hn
    rw [hn]; exact hle
  · intro l hl x hx
    exact h4 l hl r List.mem_cons_self x rn hx hr
  · intro l hl x hx
    refine ⟨h2 l hl rn x hr hx, ?_⟩
    obtain ⟨n, hn, hle⟩ := h.numbered l (List.mem_append_right _ (List.mem_cons_of_mem _ hl))
    rw [hx] at hn
    injection hn with hn
    rw [hn]; exact hle

/-- no entry of the compiled table carries a number that no line has -/
theorem codegenLines_no_key (ls : List Line) (hnum : Numbered ls) (n : Nat) (hn : ∀ l ∈ ls, l.number ≠ some n) :
    ∀ p ∈ (({} : Program).codegenLines ls).link.symbols, p.1 ≠ (n : Int) := by
  intro p hp e
  have h1 := (codegenLines_keeps ls hnum {} fresh_cur).2.2.1 n hn
  have h2 : ((({} : Program).codegenLines ls).link.symbols.lookup (n : Int)).isSome := by
    rw [← e]
    exact lookup_isSome_of_mem (k := p.1) (v := p.2) hp
  rw [h1] at h2
  cases h2

theorem fresh_sorted (ls : List Line) (hnum : Numbered ls) :
    SymSorted (({} : Program).codegenLines ls).link.symbols :=
  (codegenLines_keeps ls hnum {} fresh_cur).2.1 List.Pairwise.nil

/-- the entry of the first line after `pre`: the end of the code and data of `pre` -/
theorem codegenLines_entry (pre tl : List Line) (hd : Line) (m : Nat) (hm : hd.number = some m)
    (hpre : Numbered pre) (htl : Numbered tl) (hne : ∀ l ∈ tl, l.number ≠ some m) :
    ((m : Int), ((({} : Program).codegenLines pre).link.ops.size, (({} : Program).codegenLines pre).link.data.size)) ∈
      (({} : Program).codegenLines (pre ++ hd :: tl)).link.symbols := by
  apply mem_of_lookup
  rw [codegenLines_append, codegenLines_cons, codegenLine_numbered _ hd m hm]
  have hc := (codegenLines_keeps pre hpre {} fresh_cur).1
  have g := genNumbered_keeps (({} : Program).codegenLines pre) m hd.tokens hc
  rw [(codegenLines_keeps tl htl _ g.1).2.2.1 m hne, g.2.2.1 m, if_pos rfl]

end Program
end Basic
namespace Basic
namespace Program
open Link

/-- the address pair a code-less line inserted after `pre` gets: the end of `pre`'s code and data -/
def endOf (pre : List Line) : Nat × Nat :=
  ((({} : Program).codegenLines pre).link.ops.size, (({} : Program).codegenLines pre).link.data.size)

theorem link_symbols (l : Link) : l.link.1.symbols = l.symbols.filter (fun p => p.1 ≥ 0) := by
  rw [link_eq_from]
  unfold linkFrom
  dsimp only
  rw [foldl_linkStep_symbols]
  dsimp only
  rw [linkWhiles_matches]

/-- the symbol table of a compiled listing: the line entries of the compile state, plus the mark
    of the direct segment -/
theorem compile_symbols (ls : List Line) (hnum : Numbered ls) :
    (compile ls).link.symbols =
      symInsert ((Gen.maxLineNumber : Int) + 1) ((compile ls).directAddress, (compile ls).link.data.size)
        ((({} : Program).codegenLines ls).link.symbols.filter (fun p => p.1 ≥ 0)) := by
  have hd : (resolve (ensureEnd (({} : Program).codegenLines ls))).directAddress = 0 := by
    have h0 := (codegenLines_keeps ls hnum {} fresh_cur).2.2.2.1
    have h1 : (resolve (ensureEnd (({} : Program).codegenLines ls))).directAddress =
        (ensureEnd (({} : Program).codegenLines ls)).directAddress := by
      rw [resolve_eq]; split <;> rfl
    have h2 : (ensureEnd (({} : Program).codegenLines ls)).directAddress =
        (({} : Program).codegenLines ls).directAddress := by
      rw [ensureEnd_eq]
      split
      · rfl
      · unfold pushEndP; dsimp only; split <;> rfl
    rw [h1, h2, h0]
  have hsym : (resolve (ensureEnd (({} : Program).codegenLines ls))).link.symbols =
      (({} : Program).codegenLines ls).link.symbols.filter (fun p => p.1 ≥ 0) := by
    have : (resolve (ensureEnd (({} : Program).codegenLines ls))).link =
        (ensureEnd (({} : Program).codegenLines ls)).link.link.1 := by
      rw [resolve_eq]; split <;> rfl
    rw [this, link_symbols, (ensureEnd_symbols _).1]
  unfold compile
  rw [linkProg_eq, markDirect_eq, if_pos hd]
  show symInsert _ _ (resolve (ensureEnd (({} : Program).codegenLines ls))).link.symbols = _
  rw [hsym]
  rfl

/-- **layout invariance, compile level**: inserting a code-less line `r` (number `rn`) in its
    place before a further line of an ascending listing changes the compiled and linked program
    in exactly one respect — the symbol table has the additional entry `rn ↦ endOf pre`, the
    address of the code of the following line.  Code, data, errors, `directAddress`: identical.
    (`NoRef`: the old program has no branch to the new number.) -/
theorem compile_insert_mid (pre post : List Line) (r : Line) (rn : Nat) (hl : Listed (pre ++ r :: post))
    (hr : r.number = some rn) (hc : CodeLess r) (hne : post ≠ []) (href : NoRef rn (pre ++ post)) :
    compile (pre ++ r :: post) = (compile (pre ++ post)).withSym (rn : Int) (endOf pre) ∧
    ∀ a, (compile (pre ++ r :: post)).link.lineNumberFor a = (compile (pre ++ post)).link.lineNumberFor a := by
  obtain ⟨hpre, hpost, hrn, hlt, hgt, hasc⟩ := hl.split hr
  have hpost' : ∀ l ∈ post, ∃ n : Nat, l.number = some n ∧ (n : Symbol) ≠ (rn : Int) := by
    intro l hl
    obtain ⟨n, hn⟩ := hpost l hl
    refine ⟨n, hn, ?_⟩
    have := (hgt l hl n hn).1
    intro e
    have : n = rn := by exact_mod_cast e
    omega
  have hnum : Numbered (pre ++ post) := by
    intro l hl
    rcases List.mem_append.1 hl with h | h
    · exact hpre l h
    · exact hpost l h
  have hnokey : ∀ l ∈ pre ++ post, l.number ≠ some rn := by
    intro l hl e
    rcases List.mem_append.1 hl with h | h
    · have := hlt l h rn e; omega
    · have := (hgt l h rn e).1; omega
  have hk := codegenLines_no_key (pre ++ post) hnum rn hnokey
  have hs := fresh_sorted (pre ++ post) hnum
  -- the line that follows
  cases post with
  | nil => exact absurd rfl hne
  | cons hd tl =>
    obtain ⟨m, hm⟩ := hpost hd List.mem_cons_self
    obtain ⟨hm1, hm2⟩ := hgt hd List.mem_cons_self m hm
    rw [List.pairwise_cons] at hasc
    have htl : Numbered tl := fun l hl => hpost l (List.mem_cons_of_mem _ hl)
    have hmne : ∀ l ∈ tl, l.number ≠ some m := by
      intro l hl e
      have := hasc.1 l hl m m hm e
      omega
    have hent := codegenLines_entry pre tl hd m hm hpre htl hmne
    have hlnf : ∀ a, ((({} : Program).codegenLines (pre ++ hd :: tl)).link.withSym (rn : Int) (endOf pre)).lineNumberFor a =
        (({} : Program).codegenLines (pre ++ hd :: tl)).link.lineNumberFor a :=
      lineNumberFor_withSym_all hs hk (Int.natCast_nonneg rn)
        ⟨_, hent, by show (rn : Int) < (m : Int); exact_mod_cast hm1, Nat.le_refl _⟩
    have hcomp : compile (pre ++ r :: hd :: tl) = (compile (pre ++ hd :: tl)).withSym (rn : Int) (endOf pre) := by
      unfold compile
      rw [codegenLines_insert_mid pre (hd :: tl) r rn hr hc hpre hpost' hne]
      apply linkProg_withSym _ _ (Int.natCast_nonneg rn)
      · intro e
        have : rn = Gen.maxLineNumber + 1 := by exact_mod_cast e
        omega
      · rw [hasLineAtEnd_withSym _ _ _ hk]
        show (((({} : Program).codegenLines pre).link.ops.size ==
          (({} : Program).codegenLines (pre ++ hd :: tl)).link.ops.size) || _) = _
        cases hsz : ((({} : Program).codegenLines pre).link.ops.size ==
          (({} : Program).codegenLines (pre ++ hd :: tl)).link.ops.size) with
        | false => simp only [Bool.false_or]
        | true =>
          have : (({} : Program).codegenLines (pre ++ hd :: tl)).link.hasLineAtEnd = true := by
            unfold hasLineAtEnd
            rw [List.any_eq_true]
            exact ⟨_, hent, hsz⟩
          rw [this]
          simp only [Bool.or_true]
      · exact href
      · exact .inl hlnf
    refine ⟨hcomp, ?_⟩
    intro a
    rw [hcomp]
    have hnum' : Numbered (pre ++ hd :: tl) := hnum
    have hS := compile_symbols (pre ++ hd :: tl) hnum'
    have hmemS : ∀ p, p ∈ (compile (pre ++ hd :: tl)).link.symbols →
        p.1 = (Gen.maxLineNumber : Int) + 1 ∨ p ∈ (({} : Program).codegenLines (pre ++ hd :: tl)).link.symbols := by
      intro p hp
      rw [hS] at hp
      rcases mem_symInsert hp with e | hp
      · left; rw [e]
      · right; exact (List.mem_filter.1 hp).1
    apply lineNumberFor_withSym_all (l := (compile (pre ++ hd :: tl)).link)
    · rw [hS]
      exact symInsert_sorted _ _ (List.Pairwise.filter _ hs)
    · intro p hp e
      rcases hmemS p hp with h | h
      · rw [e] at h
        have : rn = Gen.maxLineNumber + 1 := by exact_mod_cast h
        omega
      · exact hk p h e
    · exact Int.natCast_nonneg rn
    · refine ⟨((m : Int), endOf pre), ?_, by show (rn : Int) < (m : Int); exact_mod_cast hm1, Nat.le_refl _⟩
      rw [hS]
      apply mem_symInsert_of_mem
      · exact List.mem_filter.2 ⟨hent, by simp⟩
      · show (m : Int) ≠ _
        intro e
        have : m = Gen.maxLineNumber + 1 := by exact_mod_cast e
        omega

end Program
end Basic
namespace Basic
namespace Program
open Link

/-! ### programs without compile errors -/

theorem compile_indirectErrors (ls : List Line) (hnum : Numbered ls) :
    (compile ls).indirectErrors = (resolve (ensureEnd (({} : Program).codegenLines ls))).errors := by
  have hd : (resolve (ensureEnd (({} : Program).codegenLines ls))).directAddress = 0 := by
    have h0 := (codegenLines_keeps ls hnum {} fresh_cur).2.2.2.1
    have h1 : (resolve (ensureEnd (({} : Program).codegenLines ls))).directAddress =
        (ensureEnd (({} : Program).codegenLines ls)).directAddress := by
      rw [resolve_eq]; split <;> rfl
    have h2 : (ensureEnd (({} : Program).codegenLines ls)).directAddress =
        (({} : Program).codegenLines ls).directAddress := by
      rw [ensureEnd_eq]
      split
      · rfl
      · unfold pushEndP; dsimp only; split <;> rfl
    rw [h1, h2, h0]
  unfold compile
  rw [linkProg_eq, markDirect_eq, if_pos hd]
  rfl

/-- a listing that compiles without errors: the linker had nothing to report -/
theorem link_clean_of_compile_clean (ls : List Line) (hnum : Numbered ls) (h : (compile ls).indirectErrors = []) :
    (ensureEnd (({} : Program).codegenLines ls)).link.link.2 = [] := by
  rw [compile_indirectErrors ls hnum, resolve_eq] at h
  split at h
  · exact h
  · rename_i he
    dsimp only at h
    rw [h] at he
    exact absurd rfl he

/-- a listing that compiles without errors has no reference to a line it does not contain -/
theorem noRef_of_clean (ls : List Line) (hnum : Numbered ls) (n : Nat) (hn : ∀ l ∈ ls, l.number ≠ some n)
    (h : (compile ls).indirectErrors = []) : NoRef n ls := by
  intro x hx e
  have hc := link_clean_of_compile_clean ls hnum h
  obtain ⟨e1, e2, e3, -⟩ := ensureEnd_symbols (({} : Program).codegenLines ls)
  have hx' : (x.1, (x.2.1, (n : Int))) ∈ (ensureEnd (({} : Program).codegenLines ls)).link.linkWhiles.1.unlinked := by
    rw [linkWhiles_matches] at hx ⊢
    dsimp only at hx ⊢
    rw [e2, e3, ← e]
    exact hx
  have := link_reports_undefined _ x.1 x.2.1 (n : Int) hx'
    (by rw [e1]; exact (codegenLines_keeps ls hnum {} fresh_cur).2.2.1 n hn) (Int.natCast_nonneg n)
  rw [hc] at this
  cases this

/-! ### what a running program can see of its compiled image -/

/-- `q` cannot be told from `p` by a running program: same DATA and DATA cursor, same code below
    `directAddress`, same compile errors, and every code address belongs to the same line -/
structure ProgSim (p q : Program) : Prop where
  indirectErrors : q.indirectErrors = p.indirectErrors
  directAddress : q.directAddress = p.directAddress
  data : q.link.data = p.link.data
  dataPos : q.link.dataPos = p.link.dataPos
  lnf : ∀ a, q.link.lineNumberFor a = p.link.lineNumberFor a
  ops : ∀ i, i < p.directAddress → q.link.ops[i]? = p.link.ops[i]?

theorem ProgSim.refl (p : Program) : ProgSim p p := ⟨rfl, rfl, rfl, rfl, fun _ => rfl, fun _ _ => rfl⟩

theorem ProgSim.symm {p q : Program} (h : ProgSim p q) : ProgSim q p :=
  ⟨h.indirectErrors.symm, h.directAddress.symm, h.data.symm, h.dataPos.symm, fun a => (h.lnf a).symm,
   fun i hi => (h.ops i (by rw [← h.directAddress]; exact hi)).symm⟩

theorem ProgSim.trans {p q r : Program} (h1 : ProgSim p q) (h2 : ProgSim q r) : ProgSim p r :=
  ⟨h2.indirectErrors.trans h1.indirectErrors, h2.directAddress.trans h1.directAddress, h2.data.trans h1.data,
   h2.dataPos.trans h1.dataPos, fun a => (h2.lnf a).trans (h1.lnf a),
   fun i hi => (h2.ops i (by rw [h1.directAddress]; exact hi)).trans (h1.ops i hi)⟩

/-- the runtime relation of `Lemmas/Sim.lean` between a state and the same state holding `q` -/
theorem ProgSim.sim {p q : Program} (h : ProgSim p q) (col : Bool) (s : Runtime) (hs : s.program = p) :
    Runtime.Sim col s { s with program := q } := by
  subst hs
  exact ⟨rfl, rfl, rfl, rfl, rfl, fun _ => rfl, rfl, rfl, rfl, rfl, rfl, rfl, fun _ => rfl,
    h.indirectErrors, h.directAddress, h.data, h.dataPos, h.lnf, h.ops⟩

/-- the program the interpreter holds after a direct line `d` has been entered over the listing
    `ls` (`enterDirect`: compile the lines, the direct line, link) -/
def runProg (ls : List Line) (d : Line) : Program := ((({} : Program).codegenLines ls).codegenLine d).linkProg

theorem lineNumberFor_of_filter {l b : Link} (h : l.symbols.filter (fun p => p.1 ≥ 0) = b.symbols)
    (hb : ∀ p ∈ b.symbols, 0 ≤ p.1) (a : Nat) : l.lineNumberFor a = b.lineNumberFor a := by
  have hb' : b.symbols.filter (fun p => p.1 ≥ 0) = b.symbols :=
    List.filter_eq_self.2 fun p hp => by simpa using hb p hp
  unfold lineNumberFor
  rw [h, hb']

/-- the direct line adds code above `directAddress` only -/
theorem progSim_runProg (ls : List Line) (d : Line) (hd : d.number = none) :
    ProgSim (base (({} : Program).codegenLines ls)) (runProg ls d) := by
  have hb := based_compile ls
  unfold runProg
  rw [codegenLine_direct _ d hd]
  obtain ⟨h1, -⟩ := (POver.directGen hb d).linkProg hb
  refine ⟨h1.indirectErrors, h1.directAddress, h1.link.data, h1.link.dataPos, ?_, ?_⟩
  · exact lineNumberFor_of_filter h1.link.symbols hb.clean.symbols
  · intro i hi
    rw [hb.addr] at hi
    exact h1.link.ops i hi

theorem progSim_base_compile (ls : List Line) :
    ProgSim (compile ls) (base (({} : Program).codegenLines ls)) := by
  have hb := based_compile ls
  refine ⟨rfl, rfl, rfl, rfl, fun _ => rfl, ?_⟩
  intro i hi
  unfold compile at hi ⊢
  show ((({} : Program).codegenLines ls).linkProg.link.ops.extract 0
    (({} : Program).codegenLines ls).linkProg.directAddress)[i]? = _
  rw [Array.getElem?_extract]
  have : i < min (({} : Program).codegenLines ls).linkProg.directAddress
      (({} : Program).codegenLines ls).linkProg.link.ops.size - 0 := by
    have := hb.addr
    unfold base at this
    dsimp only at this
    rw [Array.size_extract] at this
    omega
  rw [if_pos this]
  simp

end Program
end Basic
namespace Basic
namespace Link

/-! ### one more `End` behind the code (the D16 case) -/

theorem setIfInBounds_push_ne {α : Type} (xs : Array α) (e x : α) (a : Nat) (h : a ≠ xs.size) :
    (xs.push e).setIfInBounds a x = (xs.setIfInBounds a x).push e := by
  apply Array.ext_getElem?
  intro i
  simp only [Array.getElem?_setIfInBounds, Array.getElem?_push, Array.size_push, Array.size_setIfInBounds]
  grind

/-- `l` with an `End` pushed behind its code -/
def withEnd (l : Link) : Link := { l with ops := l.ops.push .end }

theorem linkOneWith_withEnd (l : Link) (ln : Option Nat) (a : Nat) (c : Col) (sym : Symbol) :
    linkOneWith (withEnd l) ln a c sym =
      (withEnd (linkOneWith l ln a c sym).1, (linkOneWith l ln a c sym).2) := by
  unfold linkOneWith
  show (match l.symbols.lookup sym with
    | none => _
    | some (opDest, dataDest) => match (l.ops.push Opcode.end)[a]? with
      | some (.ifNot _) => _
      | some (.jump _) => _
      | some (.literal (.ret _)) => _
      | some (.literal (.nxt _)) => _
      | some (.restore _) => _
      | _ => _) = _
  cases l.symbols.lookup sym with
  | none => dsimp only; split <;> rfl
  | some od =>
    obtain ⟨o, d⟩ := od
    dsimp only
    by_cases ha : a = l.ops.size
    · have h1 : (l.ops.push Opcode.end)[a]? = some .end := by rw [ha]; simp
      have h2 : l.ops[a]? = none := by rw [ha]; simp
      rw [h1, h2]
    · have h1 : (l.ops.push Opcode.end)[a]? = l.ops[a]? := by
        rw [Array.getElem?_push, if_neg ha]
      rw [h1]
      have hset : ∀ x, (withEnd l).ops.setIfInBounds a x = (l.ops.setIfInBounds a x).push .end :=
        fun x => setIfInBounds_push_ne l.ops .end x a ha
      generalize l.ops[a]? = x
      have hpatch : ∀ y, (({ withEnd l with ops := (withEnd l).ops.setIfInBounds a y } : Link), (none : Option Error)) =
          (withEnd ({ l with ops := l.ops.setIfInBounds a y } : Link), none) := by
        intro y; rw [hset]; rfl
      rcases x with _ | op
      · rfl
      · cases op <;> first
          | rfl
          | exact hpatch _
          | (rename_i v; cases v <;> first | rfl | exact hpatch _)

theorem linkOne_withEnd (l : Link) (a : Nat) (c : Col) (sym : Symbol) :
    (withEnd l).linkOne a c sym = (withEnd (l.linkOne a c sym).1, (l.linkOne a c sym).2) := by
  rw [linkOne_eq_with, linkOne_eq_with l]
  exact linkOneWith_withEnd l _ a c sym

theorem linkStep_withEnd (acc : Link × List Error) (p : Nat × (Col × Symbol)) :
    linkStep (withEnd acc.1, acc.2) p = (withEnd (linkStep acc p).1, (linkStep acc p).2) := by
  unfold linkStep
  dsimp only
  rw [linkOne_withEnd]
  generalize acc.1.linkOne p.1 p.2.1 p.2.2 = r
  rcases r with ⟨l', o⟩
  cases o <;> rfl

theorem foldl_linkStep_withEnd (ps : List (Nat × (Col × Symbol))) (acc : Link × List Error) :
    ps.foldl linkStep (withEnd acc.1, acc.2) = (withEnd (ps.foldl linkStep acc).1, (ps.foldl linkStep acc).2) := by
  induction ps generalizing acc with
  | nil => rfl
  | cons p rest ih =>
    simp only [List.foldl_cons]
    rw [linkStep_withEnd, ih]

/-- the linker does not look at an `End` behind the code -/
theorem link_withEnd (l : Link) : (withEnd l).link = (withEnd l.link.1, l.link.2) := by
  rw [link_eq_from, link_eq_from l]
  have hw : (withEnd l).linkWhiles = (withEnd l.linkWhiles.1, l.linkWhiles.2) := by
    rw [linkWhiles_matches, linkWhiles_matches l]
    rfl
  rw [hw]
  generalize l.linkWhiles = w
  rcases w with ⟨w, es⟩
  unfold linkFrom
  dsimp only
  have hf := foldl_linkStep_withEnd w.unlinked ({ w with unlinked := [] }, es)
  have e0 : (withEnd w).unlinked = w.unlinked := rfl
  have e3 : ({ withEnd w with unlinked := [] } : Link) = withEnd ({ w with unlinked := [] } : Link) := rfl
  rw [e0, e3, hf]
  rfl

end Link
end Basic
namespace Basic
namespace Link

theorem symInsert_symInsert (k : Symbol) (v v' : Nat × Nat) (m : List (Symbol × (Nat × Nat))) :
    symInsert k v' (symInsert k v m) = symInsert k v' m := by
  induction m with
  | nil => simp [symInsert]
  | cons hd tl ih =>
    obtain ⟨x, y⟩ := hd
    by_cases h1 : k < x
    · simp [symInsert, h1]
    · by_cases h2 : k = x
      · subst h2; simp [symInsert]
      · simp only [symInsert, if_neg h1, if_neg h2, ih]

end Link

namespace Program
open Link

/-! ### appending a code-less line -/

/-- `p` with another "line being compiled" (a field the linker neither reads nor writes) -/
def setLN (p : Program) (x : Option Nat) : Program := { p with lineNumber := x }

theorem pushEndP_setLN (p : Program) (x : Option Nat) : pushEndP (p.setLN x) = (pushEndP p).setLN x := by
  unfold pushEndP setLN; dsimp only; split <;> rfl

theorem ensureEnd_setLN (p : Program) (x : Option Nat) : ensureEnd (p.setLN x) = (ensureEnd p).setLN x := by
  rw [ensureEnd_eq, ensureEnd_eq p, pushEndP_setLN]
  show (if p.link.ops.back? = some .end ∧ p.link.hasLineAtEnd = false then _ else _) = _
  by_cases hc : p.link.ops.back? = some .end ∧ p.link.hasLineAtEnd = false
  · rw [if_pos hc, if_pos hc]
  · rw [if_neg hc, if_neg hc]

theorem resolve_setLN (p : Program) (x : Option Nat) : resolve (p.setLN x) = (resolve p).setLN x := by
  rw [resolve_eq, resolve_eq p]
  show (if p.errors.isEmpty = true then _ else _) = _
  by_cases he : p.errors.isEmpty = true
  · rw [if_pos he, if_pos he]; rfl
  · rw [if_neg he, if_neg he]; rfl

theorem markDirect_setLN (p : Program) (x : Option Nat) : markDirect (p.setLN x) = (markDirect p).setLN x := by
  rw [markDirect_eq, markDirect_eq p]
  show (if p.directAddress = 0 then _ else _) = _
  by_cases hd : p.directAddress = 0
  · rw [if_pos hd, if_pos hd]; rfl
  · rw [if_neg hd, if_neg hd]

theorem linkProg_setLN (p : Program) (x : Option Nat) : (p.setLN x).linkProg = p.linkProg.setLN x := by
  rw [linkProg_eq, linkProg_eq p, ensureEnd_setLN, resolve_setLN, markDirect_setLN]

/-- `p` with an `End` pushed behind its code -/
def withEndP (p : Program) : Program := { p with link := p.link.withEnd }

theorem pushEndP_link (p : Program) : (pushEndP p).link = p.link.withEnd := by
  unfold pushEndP; dsimp only; split <;> rfl

theorem pushEndP_of_room (p : Program) (h : p.link.ops.size < Gen.stackMaxLen) : pushEndP p = withEndP p := by
  have : ¬ (p.link.ops.push Opcode.end).size > Gen.stackMaxLen := by rw [Array.size_push]; omega
  simp only [pushEndP, Link.push, this, if_false]
  rfl

/-- **appending a code-less line** forces an `End` behind the code and adds the entry of the new
    line, whose address is the address of that `End` -/
theorem compile_append_codeless (pre : List Line) (r : Line) (rn : Nat) (hl : Listed (pre ++ [r]))
    (hr : r.number = some rn) (hc : CodeLess r) (href : NoRef rn pre)
    (hclean : (pushEndP (({} : Program).codegenLines pre)).link.link.2 = []) :
    compile (pre ++ [r]) =
      ((markDirect (resolve (pushEndP (({} : Program).codegenLines pre)))).withSym (rn : Int) (endOf pre)).setLN
        (some rn) := by
  obtain ⟨hpre, -, hrn, hlt, -, -⟩ := hl.split hr
  have hnokey : ∀ l ∈ pre, l.number ≠ some rn := by
    intro l hl e
    have := hlt l hl rn e; omega
  have hk := codegenLines_no_key pre hpre rn hnokey
  have hk1 : (rn : Int) ≠ (Gen.maxLineNumber : Int) + 1 := by
    intro e
    have : rn = Gen.maxLineNumber + 1 := by exact_mod_cast e
    omega
  unfold compile
  rw [codegenLines_insert_end pre r rn hr hc]
  show (((({} : Program).codegenLines pre).withSym (rn : Int) (endOf pre)).setLN (some rn)).linkProg = _
  rw [linkProg_setLN, linkProg_eq]
  have hE : ensureEnd ((({} : Program).codegenLines pre).withSym (rn : Int) (endOf pre)) =
      (pushEndP (({} : Program).codegenLines pre)).withSym (rn : Int) (endOf pre) := by
    rw [ensureEnd_eq, pushEndP_withSym, if_neg]
    rintro ⟨-, h⟩
    have h2 := hasLineAtEnd_withSym (({} : Program).codegenLines pre).link (rn : Int) (endOf pre) hk
    have h3 : ((endOf pre).1 == (({} : Program).codegenLines pre).link.ops.size) = true := by
      simp [endOf]
    rw [h3, Bool.true_or] at h2
    change (((({} : Program).codegenLines pre).link.withSym (rn : Int) (endOf pre)).hasLineAtEnd = false) at h
    rw [h2] at h
    cases h
  rw [hE, resolve_withSym, markDirect_withSym _ _ _ hk1]
  apply link_withSym _ _ (Int.natCast_nonneg rn)
  · intro x hx
    apply href x
    rw [pushEndP_link] at hx
    rw [linkWhiles_matches] at hx ⊢
    exact hx
  · exact .inr hclean

end Program
end Basic

namespace Basic
namespace Program
open Link

theorem fresh_directAddress (ls : List Line) (hnum : Numbered ls) :
    (({} : Program).codegenLines ls).directAddress = 0 :=
  (codegenLines_keeps ls hnum {} fresh_cur).2.2.2.1

/-- the case without the D16 `End`: the listing's code does not end with `END`, or its last line
    is itself code-less — then the compiled program only gains the entry of the new line -/
theorem compile_append_codeless_same (pre : List Line) (r : Line) (rn : Nat) (hl : Listed (pre ++ [r]))
    (hr : r.number = some rn) (hc : CodeLess r) (hclean : (compile pre).indirectErrors = [])
    (hE : ¬ ((({} : Program).codegenLines pre).link.ops.back? = some .end ∧
            (({} : Program).codegenLines pre).link.hasLineAtEnd = false)) :
    compile (pre ++ [r]) = ((compile pre).withSym (rn : Int) (endOf pre)).setLN (some rn) := by
  obtain ⟨hpre, -, hrn, hlt, -, -⟩ := hl.split hr
  have hnokey : ∀ l ∈ pre, l.number ≠ some rn := by
    intro l hl e
    have := hlt l hl rn e; omega
  have hee : ensureEnd (({} : Program).codegenLines pre) = pushEndP (({} : Program).codegenLines pre) := by
    rw [ensureEnd_eq, if_neg hE]
  have hcl := link_clean_of_compile_clean pre hpre hclean
  rw [hee] at hcl
  rw [compile_append_codeless pre r rn hl hr hc (noRef_of_clean pre hpre rn hnokey hclean) hcl]
  unfold compile
  rw [linkProg_eq, hee]

theorem resolve_withEndP (p : Program) : resolve (withEndP p) = withEndP (resolve p) := by
  rw [resolve_eq, resolve_eq p]
  show (if p.errors.isEmpty = true then
      ({ withEndP p with link := p.link.withEnd.link.1, errors := p.link.withEnd.link.2 } : Program)
    else { withEndP p with link := p.link.withEnd.link.1 }) = _
  rw [link_withEnd]
  by_cases he : p.errors.isEmpty = true
  · rw [if_pos he, if_pos he]; rfl
  · rw [if_neg he, if_neg he]; rfl

/-- a linked program with one more `End` behind its code: the direct segment starts one later -/
def bump (c : Program) : Program :=
  { c with directAddress := c.directAddress + 1,
           link := (c.link.withEnd).setStartOfDirect (c.directAddress + 1) }

theorem startDirect_withEndP (q : Program) : startDirect (withEndP q) = bump (startDirect q) := by
  unfold startDirect bump withEndP
  dsimp only
  have e1 : (q.link.withEnd).ops.size = q.link.ops.size + 1 := by
    show (q.link.ops.push Opcode.end).size = _
    rw [Array.size_push]
  rw [e1]
  congr 1
  unfold setStartOfDirect withEnd
  dsimp only
  rw [symInsert_symInsert]

/-- **the D16 case**: the listing's code ends with `END` and its last line has code.  The listing
    alone needs no further `End`; with a code-less line appended the linker adds one (the new
    line is a branch target whose address is the end of the code).  The compiled program is that
    of the listing with one more `End`, `directAddress` one later, and the new entry. -/
theorem compile_append_codeless_D16 (pre : List Line) (r : Line) (rn : Nat) (hl : Listed (pre ++ [r]))
    (hr : r.number = some rn) (hc : CodeLess r) (hclean : (compile pre).indirectErrors = [])
    (hE : (({} : Program).codegenLines pre).link.ops.back? = some .end ∧
            (({} : Program).codegenLines pre).link.hasLineAtEnd = false)
    (hroom : (({} : Program).codegenLines pre).link.ops.size < Gen.stackMaxLen) :
    compile (pre ++ [r]) = ((bump (compile pre)).withSym (rn : Int) (endOf pre)).setLN (some rn) := by
  obtain ⟨hpre, -, hrn, hlt, -, -⟩ := hl.split hr
  have hnokey : ∀ l ∈ pre, l.number ≠ some rn := by
    intro l hl e
    have := hlt l hl rn e; omega
  have hee : ensureEnd (({} : Program).codegenLines pre) = (({} : Program).codegenLines pre) := by
    rw [ensureEnd_eq, if_pos hE]
  have hcl := link_clean_of_compile_clean pre hpre hclean
  rw [hee] at hcl
  have hpe := pushEndP_of_room _ hroom
  have hcl' : (pushEndP (({} : Program).codegenLines pre)).link.link.2 = [] := by
    rw [pushEndP_link, link_withEnd]; exact hcl
  rw [compile_append_codeless pre r rn hl hr hc (noRef_of_clean pre hpre rn hnokey hclean) hcl']
  have hd0 : (resolve (({} : Program).codegenLines pre)).directAddress = 0 := by
    have : (resolve (({} : Program).codegenLines pre)).directAddress =
        (({} : Program).codegenLines pre).directAddress := by
      rw [resolve_eq]; split <;> rfl
    rw [this, fresh_directAddress pre hpre]
  have hC : compile pre = startDirect (resolve (({} : Program).codegenLines pre)) := by
    unfold compile
    rw [linkProg_eq, hee, markDirect_eq, if_pos hd0]
  rw [hpe, resolve_withEndP, markDirect_eq, if_pos (show (withEndP _).directAddress = 0 from hd0),
    startDirect_withEndP, ← hC]

end Program
end Basic
namespace Basic
namespace Program
open Link

/-! ### the running program's view -/

/-- a program with an extra line entry that does not change the line of any address -/
theorem progSim_withSym (p : Program) (k : Symbol) (v : Nat × Nat)
    (h : ∀ a, (p.withSym k v).link.lineNumberFor a = p.link.lineNumberFor a) : ProgSim p (p.withSym k v) :=
  ⟨rfl, rfl, rfl, rfl, h, fun _ _ => rfl⟩

/-- **layout invariance for the running program**, compiled listing -/
theorem progSim_insert_mid (pre post : List Line) (r : Line) (rn : Nat) (hl : Listed (pre ++ r :: post))
    (hr : r.number = some rn) (hc : CodeLess r) (hne : post ≠ []) (href : NoRef rn (pre ++ post)) :
    ProgSim (compile (pre ++ post)) (compile (pre ++ r :: post)) := by
  obtain ⟨h1, h2⟩ := compile_insert_mid pre post r rn hl hr hc hne href
  rw [h1] at h2 ⊢
  exact progSim_withSym _ _ _ h2

/-- … and for the program the interpreter really holds: the listing plus a direct line (`RUN`,
    `GOTO 10`, `CONT` …), which may even differ on the two sides -/
theorem progSim_run_insert_mid (pre post : List Line) (r : Line) (rn : Nat) (hl : Listed (pre ++ r :: post))
    (hr : r.number = some rn) (hc : CodeLess r) (hne : post ≠ []) (href : NoRef rn (pre ++ post))
    (d d' : Line) (hd : d.number = none) (hd' : d'.number = none) :
    ProgSim (runProg (pre ++ post) d) (runProg (pre ++ r :: post) d') :=
  (((progSim_runProg (pre ++ post) d hd).symm.trans (progSim_base_compile (pre ++ post)).symm).trans
    (progSim_insert_mid pre post r rn hl hr hc hne href)).trans
    ((progSim_base_compile (pre ++ r :: post)).trans (progSim_runProg (pre ++ r :: post) d' hd'))

/-! ### the appended line and the final `End` -/

/-- every line entry of the compile state belongs to a line of the listing -/
theorem codegenLines_key (ls : List Line) (hnum : Numbered ls) (p : Symbol × (Nat × Nat))
    (hp : p ∈ (({} : Program).codegenLines ls).link.symbols) (h0 : 0 ≤ p.1) :
    ∃ l ∈ ls, l.number = some p.1.toNat := by
  apply Classical.byContradiction
  intro hno
  have hn : ∀ l ∈ ls, l.number ≠ some p.1.toNat := fun l hl e => hno ⟨l, hl, e⟩
  have e : ((p.1.toNat : Nat) : Int) = p.1 := Int.toNat_of_nonneg h0
  exact codegenLines_no_key ls hnum p.1.toNat hn p hp e.symm

/-- the forced `End`: what `linkProg` makes of the compile state `P` when it pushes an `End` -/
theorem forced_fields (P : Program) (hd : P.directAddress = 0) :
    (markDirect (resolve (pushEndP P))).directAddress = P.link.ops.size + 1 ∧
    (markDirect (resolve (pushEndP P))).link.symbols =
      symInsert ((Gen.maxLineNumber : Int) + 1)
        (P.link.ops.size + 1, (markDirect (resolve (pushEndP P))).link.data.size)
        (P.link.symbols.filter (fun p => p.1 ≥ 0)) := by
  have hlink : (resolve (pushEndP P)).link = (pushEndP P).link.link.1 := by
    rw [resolve_eq]; split <;> rfl
  have hd0 : (resolve (pushEndP P)).directAddress = 0 := by
    have : (resolve (pushEndP P)).directAddress = (pushEndP P).directAddress := by
      rw [resolve_eq]; split <;> rfl
    rw [this]
    unfold pushEndP; dsimp only
    split <;> exact hd
  have hsz : (resolve (pushEndP P)).link.ops.size = P.link.ops.size + 1 := by
    rw [hlink, (link_cleans _).2.2, pushEndP_link]
    show (P.link.ops.push Opcode.end).size = _
    rw [Array.size_push]
  have hsym : (resolve (pushEndP P)).link.symbols = P.link.symbols.filter (fun p => p.1 ≥ 0) := by
    rw [hlink, link_symbols, pushEndP_link]; rfl
  rw [markDirect_eq, if_pos hd0]
  refine ⟨hsz, ?_⟩
  show symInsert _ ((resolve (pushEndP P)).link.ops.size, _) (resolve (pushEndP P)).link.symbols = _
  rw [hsz, hsym]
  rfl

/-- **finding (TRON / error reports)**: in the program with a code-less line appended, the final
    `End` — the instruction at the end of the listing's code — belongs to the appended line
    (without it, it belongs to the last line of the listing) -/
theorem lineNumberFor_appended (pre : List Line) (r : Line) (rn : Nat) (hl : Listed (pre ++ [r]))
    (hr : r.number = some rn) (hc : CodeLess r) (href : NoRef rn pre)
    (hclean : (pushEndP (({} : Program).codegenLines pre)).link.link.2 = []) :
    (compile (pre ++ [r])).link.lineNumberFor (endOf pre).1 = some rn ∧
    (compile (pre ++ [r])).link.ops[(endOf pre).1]? = some .end := by
  obtain ⟨hpre, -, hrn, hlt, -, -⟩ := hl.split hr
  have hnokey : ∀ l ∈ pre, l.number ≠ some rn := by
    intro l hl e
    have := hlt l hl rn e; omega
  have hk := codegenLines_no_key pre hpre rn hnokey
  rw [compile_append_codeless pre r rn hl hr hc href hclean]
  obtain ⟨f1, f2⟩ := forced_fields _ (fresh_directAddress pre hpre)
  constructor
  · show ((markDirect (resolve (pushEndP (({} : Program).codegenLines pre)))).link.withSym (rn : Int)
      (endOf pre)).lineNumberFor (endOf pre).1 = some rn
    have hmem : ∀ p, p ∈ (markDirect (resolve (pushEndP (({} : Program).codegenLines pre)))).link.symbols →
        p = ((Gen.maxLineNumber : Int) + 1, ((endOf pre).1 + 1,
          (markDirect (resolve (pushEndP (({} : Program).codegenLines pre)))).link.data.size)) ∨
        (p ∈ (({} : Program).codegenLines pre).link.symbols ∧ 0 ≤ p.1) := by
      intro p hp
      rw [f2] at hp
      rcases mem_symInsert hp with e | hp
      · exact .inl e
      · have := List.mem_filter.1 hp
        exact .inr ⟨this.1, by simpa using this.2⟩
    apply lineNumberFor_withSym_at
    · rw [f2]
      exact symInsert_sorted _ _ (List.Pairwise.filter _ (fresh_sorted pre hpre))
    · exact hrn
    · intro p hp e
      rcases hmem p hp with h | ⟨h, -⟩
      · rw [h] at e
        have e' : (Gen.maxLineNumber : Int) + 1 = (rn : Int) := e
        have : Gen.maxLineNumber + 1 = rn := by exact_mod_cast e'
        omega
      · exact hk p h e
    · exact Nat.le_refl _
    · intro p hp h0 hpa
      rcases hmem p hp with h | ⟨h, -⟩
      · rw [h] at hpa
        simp only at hpa
        omega
      · obtain ⟨l, hl, hn⟩ := codegenLines_key pre hpre p h h0
        have := hlt l hl _ hn
        have e : ((p.1.toNat : Nat) : Int) = p.1 := Int.toNat_of_nonneg h0
        rw [← e]
        exact_mod_cast this
  · show (markDirect (resolve (pushEndP (({} : Program).codegenLines pre)))).link.ops[(endOf pre).1]? = some .end
    have hlink : (resolve (pushEndP (({} : Program).codegenLines pre))).link =
        (pushEndP (({} : Program).codegenLines pre)).link.link.1 := by
      rw [resolve_eq]; split <;> rfl
    have hops : (markDirect (resolve (pushEndP (({} : Program).codegenLines pre)))).link.ops =
        (resolve (pushEndP (({} : Program).codegenLines pre))).link.ops := by
      rw [markDirect_eq]; split <;> rfl
    rw [hops, hlink, pushEndP_link, link_withEnd]
    show ((({} : Program).codegenLines pre).link.link.1.ops.push Opcode.end)[(({} : Program).codegenLines pre).link.ops.size]? = _
    rw [← (link_cleans (({} : Program).codegenLines pre).link).2.2]
    simp

end Program
end Basic
namespace Basic
namespace Program
open Link

/-! ### helpers for concrete listings -/

deriving instance DecidableEq for Link
deriving instance DecidableEq for Program

/-- decidable check of `Listed`: `lo` is the number of the preceding line -/
def listedFrom : Option Nat → List Line → Bool
  | _, [] => true
  | lo, l :: ls =>
    match l.number with
    | some n =>
      (match lo with | none => true | some x => decide (x < n)) && decide (n ≤ Gen.maxLineNumber) &&
        listedFrom (some n) ls
    | none => false

theorem listedFrom_sound : ∀ (ls : List Line) (lo : Option Nat), listedFrom lo ls = true →
    Listed ls ∧ ∀ l ∈ ls, ∀ x, l.number = some x → ∀ y, lo = some y → y < x := by
  intro ls
  induction ls with
  | nil => intro lo _; exact ⟨⟨fun _ h => (nomatch h), List.Pairwise.nil⟩, fun _ h => (nomatch h)⟩
  | cons l rest ih =>
    intro lo h
    unfold listedFrom at h
    cases hn : l.number with
    | none => rw [hn] at h; cases h
    | some n =>
      rw [hn] at h
      simp only [Bool.and_eq_true, decide_eq_true_eq] at h
      obtain ⟨⟨h1, h2⟩, h3⟩ := h
      obtain ⟨i1, i2⟩ := ih (some n) h3
      have hlo : ∀ y, lo = some y → y < n := by
        intro y hy
        rw [hy] at h1
        simpa using h1
      refine ⟨⟨?_, ?_⟩, ?_⟩
      · intro l' hl'
        rcases List.mem_cons.1 hl' with e | hl'
        · rw [e]; exact ⟨n, hn, h2⟩
        · exact i1.numbered l' hl'
      · rw [List.pairwise_cons]
        refine ⟨?_, i1.ascending⟩
        intro l' hl' x y hx hy
        rw [hn] at hx
        injection hx with hx
        rw [← hx]
        exact i2 l' hl' y hy n rfl
      · intro l' hl' x hx y hy
        rcases List.mem_cons.1 hl' with e | hl'
        · rw [e, hn] at hx
          injection hx with hx
          rw [← hx]; exact hlo y hy
        · have := i2 l' hl' x hx n rfl
          have := hlo y hy
          omega

theorem listed_of_check (ls : List Line) (h : listedFrom none ls = true) : Listed ls :=
  (listedFrom_sound ls none h).1

/-- `codegenLine` of a numbered line whose parse is known (the kernel does not evaluate the parser) -/
theorem codegenLine_of_parse (p : Program) (n : Nat) (toks : List Token) (ast : List Stmt)
    (h : Parse.parse (some n) toks = .ok ast) :
    p.codegenLine ⟨some n, toks⟩ =
      { p with lineNumber := some n, link := (Codegen.codegen (p.link.pushSymbol n) ast).1,
               errors := p.errors ++ (Codegen.codegen (p.link.pushSymbol n) ast).2.map (·.inLine (some n)) } := by
  rw [codegenLine_numbered p _ n rfl]
  unfold genNumbered
  rw [h]

end Program

namespace Parse

/-! ### empty statements -/

/-- **an empty statement is not represented in the AST**: when the next token is `:`, the loop of
    `expect_statements` consumes it and goes on with the statements collected so far (and no
    separator is expected any more) -/
theorem statements_colon (fuel : Nat) (ec : Bool) (acc : List Stmt) (s : PState) (ts' : List Token)
    (rem' : Bool) (cs' ce' : Nat) (hp : s.peeked = none)
    (hn : nextLoop s.toks s.rem s.cs s.ce = (some .colon, ts', rem', cs', ce')) :
    (statements (fuel + 1) ec acc).run s =
      (statements fuel false acc).run { s with toks := ts', rem := rem', cs := cs', ce := ce' } := by
  obtain ⟨toks, peeked, rem, cs, ce⟩ := s
  dsimp only at hp hn
  subst hp
  simp [statements, peek, next, hn, StateT.run, bind, StateT.bind, Except.bind, get,
    getThe, MonadStateOf.get, StateT.get, pure, StateT.pure, Except.pure, set, StateT.set, modify,
    modifyGet, MonadStateOf.modifyGet, StateT.modifyGet]

/-- a line of empty statements only: `::` -/
theorem parse_colons (n : Option Nat) : parse n [.colon, .colon] = .ok [] := by
  simp [Parse.parse, Parse.parseTokens, Parse.fuelFor, Parse.statements, Parse.peek,
    Parse.next, Parse.nextLoop, Parse.isRem, StateT.run, bind, StateT.bind, Except.bind, get,
    getThe, MonadStateOf.get, StateT.get, pure, StateT.pure, Except.pure, set, StateT.set, modify,
    modifyGet, MonadStateOf.modifyGet, StateT.modifyGet, Except.map, Token.text]

/-- `:END::` is the one statement `END` -/
theorem parse_colon_end (n : Option Nat) : parse n [.colon, .word .end, .colon, .colon] = .ok [.end (1, 4)] := by
  simp [Parse.parse, Parse.parseTokens, Parse.fuelFor, Parse.statements, Parse.statement, Parse.peek,
    Parse.next, Parse.nextLoop, Parse.col, Parse.isRem, StateT.run, bind, StateT.bind, Except.bind, get,
    getThe, MonadStateOf.get, StateT.get, pure, StateT.pure, Except.pure, set, StateT.set, modify,
    modifyGet, MonadStateOf.modifyGet, StateT.modifyGet, Except.map, Token.text, Word.text]

theorem parse_end (n : Option Nat) : parse n [.word .end] = .ok [.end (0, 3)] := by
  simp [Parse.parse, Parse.parseTokens, Parse.fuelFor, Parse.statements, Parse.statement, Parse.peek,
    Parse.next, Parse.nextLoop, Parse.col, Parse.isRem, StateT.run, bind, StateT.bind, Except.bind, get,
    getThe, MonadStateOf.get, StateT.get, pure, StateT.pure, Except.pure, set, StateT.set, modify,
    modifyGet, MonadStateOf.modifyGet, StateT.modifyGet, Except.map, Token.text, Word.text]

theorem parse_cls (n : Option Nat) : parse n [.word .cls] = .ok [.cls (0, 3)] := by
  simp [Parse.parse, Parse.parseTokens, Parse.fuelFor, Parse.statements, Parse.statement, Parse.peek,
    Parse.next, Parse.nextLoop, Parse.col, Parse.isRem, StateT.run, bind, StateT.bind, Except.bind, get,
    getThe, MonadStateOf.get, StateT.get, pure, StateT.pure, Except.pure, set, StateT.set, modify,
    modifyGet, MonadStateOf.modifyGet, StateT.modifyGet, Except.map, Token.text, Word.text]

theorem parse_wend (n : Option Nat) : parse n [.word .wend] = .ok [.wend (0, 4)] := by
  simp [Parse.parse, Parse.parseTokens, Parse.fuelFor, Parse.statements, Parse.statement, Parse.peek,
    Parse.next, Parse.nextLoop, Parse.col, Parse.isRem, StateT.run, bind, StateT.bind, Except.bind, get,
    getThe, MonadStateOf.get, StateT.get, pure, StateT.pure, Except.pure, set, StateT.set, modify,
    modifyGet, MonadStateOf.modifyGet, StateT.modifyGet, Except.map, Token.text, Word.text]

theorem parse_while_a (n : Option Nat) : parse n [.word .while, .whitespace 1, .ident (.plain ['A'])] =
    .ok [.while (0, 5) (.var (.unary (6, 7) (.plain ['A'])))] := by
  simp [Parse.parse, Parse.parseTokens, Parse.fuelFor, Parse.statements, Parse.statement, Parse.peek,
    Parse.next, Parse.nextLoop, Parse.col, Parse.isRem, StateT.run, bind, StateT.bind, Except.bind, get,
    getThe, MonadStateOf.get, StateT.get, pure, StateT.pure, Except.pure, set, StateT.set, modify,
    modifyGet, MonadStateOf.modifyGet, StateT.modifyGet, Except.map, Token.text, Word.text,
    Parse.expression, Parse.descend, Parse.binLoop, Parse.isUserFunction, TIdent.name, List.lookup]

end Parse
end Basic
namespace Basic
namespace Program
open Link

theorem lookup_filter {P : Symbol × (Nat × Nat) → Bool} (x : Symbol) :
    ∀ (m : List (Symbol × (Nat × Nat))), (∀ p ∈ m, p.1 = x → P p = true) → (m.filter P).lookup x = m.lookup x := by
  intro m
  induction m with
  | nil => intro _; rfl
  | cons hd tl ih =>
    intro h
    obtain ⟨k, v⟩ := hd
    have ih' := ih (fun p hp => h p (List.mem_cons_of_mem _ hp))
    by_cases hP : P (k, v) = true
    · rw [List.filter_cons_of_pos hP, lookup_cons_eq, lookup_cons_eq, ih']
    · rw [List.filter_cons_of_neg hP, lookup_cons_eq, ih']
      have : ¬ x = k := fun e => hP (h (k, v) List.mem_cons_self e.symm)
      rw [if_neg this]

/-- line entries survive linking unchanged -/
theorem compile_lookup_line (ls : List Line) (hnum : Numbered ls) (x : Nat) (hx : x ≤ Gen.maxLineNumber) :
    (compile ls).link.symbols.lookup (x : Int) = (({} : Program).codegenLines ls).link.symbols.lookup (x : Int) := by
  rw [compile_symbols ls hnum, symInsert_lookup, if_neg]
  · exact lookup_filter (x : Int) _ (fun p _ e => by rw [e]; simp)
  · intro e
    have : x = Gen.maxLineNumber + 1 := by exact_mod_cast e
    omega

theorem codegenLines_entry_lookup (pre tl : List Line) (hd : Line) (m : Nat) (hm : hd.number = some m)
    (hpre : Numbered pre) (htl : Numbered tl) (hne : ∀ l ∈ tl, l.number ≠ some m) :
    (({} : Program).codegenLines (pre ++ hd :: tl)).link.symbols.lookup (m : Int) = some (endOf pre) := by
  rw [codegenLines_append, codegenLines_cons, codegenLine_numbered _ hd m hm]
  have hc := (codegenLines_keeps pre hpre {} fresh_cur).1
  have g := genNumbered_keeps (({} : Program).codegenLines pre) m hd.tokens hc
  rw [(codegenLines_keeps tl htl _ g.1).2.2.1 m hne, g.2.2.1 m, if_pos rfl]
  rfl

/-- the entry of an inserted code-less line carries the address of the following line's code -/
theorem inserted_entry_address (pre tl : List Line) (r hd : Line) (rn m : Nat)
    (hl : Listed (pre ++ r :: hd :: tl)) (hr : r.number = some rn) (hc : CodeLess r) (hm : hd.number = some m)
    (href : NoRef rn (pre ++ hd :: tl)) :
    (compile (pre ++ r :: hd :: tl)).link.symbols.lookup (rn : Int) = some (endOf pre) ∧
    (compile (pre ++ r :: hd :: tl)).link.symbols.lookup (m : Int) = some (endOf pre) ∧
    (compile (pre ++ hd :: tl)).link.symbols.lookup (m : Int) = some (endOf pre) := by
  obtain ⟨hpre, hpost, hrn, hlt, hgt, hasc⟩ := hl.split hr
  obtain ⟨hm1, hm2⟩ := hgt hd List.mem_cons_self m hm
  rw [List.pairwise_cons] at hasc
  have htl : Numbered tl := fun l hl => hpost l (List.mem_cons_of_mem _ hl)
  have hmne : ∀ l ∈ tl, l.number ≠ some m := by
    intro l hl e
    have := hasc.1 l hl m m hm e
    omega
  have hnum : Numbered (pre ++ hd :: tl) := by
    intro l hl
    rcases List.mem_append.1 hl with h | h
    · exact hpre l h
    · exact hpost l h
  have h3 : (compile (pre ++ hd :: tl)).link.symbols.lookup (m : Int) = some (endOf pre) := by
    rw [compile_lookup_line _ hnum m hm2]
    exact codegenLines_entry_lookup pre tl hd m hm hpre htl hmne
  obtain ⟨h1, -⟩ := compile_insert_mid pre (hd :: tl) r rn hl hr hc (List.cons_ne_nil _ _) href
  rw [h1]
  refine ⟨?_, ?_, h3⟩
  · show (symInsert (rn : Int) (endOf pre) _).lookup (rn : Int) = _
    rw [symInsert_lookup, if_pos rfl]
  · show (symInsert (rn : Int) (endOf pre) _).lookup (m : Int) = _
    rw [symInsert_lookup, if_neg, h3]
    intro e
    have : m = rn := by exact_mod_cast e
    omega

end Program
end Basic
namespace Basic
namespace Codegen
open Link

theorem appendAll_symBounded (frags : List (Col × Link)) (hf : ∀ x ∈ frags, x.2.SymBounded) :
    ∀ (l : Link) (errs : List Error), SymBounded l → SymBounded (codegen.appendAll frags l errs).1 := by
  induction frags with
  | nil => intro l errs h; exact h
  | cons f rest ih =>
    intro l errs h
    rcases f with ⟨c, f⟩
    have h1 := h.append (hf (c, f) List.mem_cons_self)
    unfold codegen.appendAll
    generalize l.append f = x at h1
    rcases x with ⟨l', r⟩
    cases r with
    | error e => exact h1
    | ok u => exact ih (fun x hx => hf x (List.mem_cons_of_mem _ hx)) l' errs h1

theorem codegen_symBounded (l : Link) (ast : List Stmt) (h : SymBounded l) : SymBounded (codegen l ast).1 := by
  unfold codegen
  exact appendAll_symBounded _ (fragments_symBounded ast) l _ h

end Codegen

namespace Program
open Link

/-! ### every branch target lies inside the indirect code -/

theorem genNumbered_symBounded (p : Program) (n : Nat) (toks : List Token) (h : SymBounded p.link) :
    SymBounded (genNumbered p n toks).link := by
  unfold genNumbered
  cases Parse.parse (some n) toks with
  | error e => exact h.pushSymbol n
  | ok ast => exact Codegen.codegen_symBounded _ ast (h.pushSymbol n)

theorem codegenLines_symBounded (ls : List Line) (hnum : Numbered ls) :
    ∀ p : Program, SymBounded p.link → SymBounded (p.codegenLines ls).link := by
  induction ls with
  | nil => intro p h; exact h
  | cons l rest ih =>
    intro p h
    obtain ⟨n, hn⟩ := hnum l List.mem_cons_self
    rw [codegenLines_cons, codegenLine_numbered p l n hn]
    exact ih (fun l hl => hnum l (List.mem_cons_of_mem _ hl)) _ (genNumbered_symBounded p n l.tokens h)

/-- after `ensureEnd` (the D20 rule) every symbol — line or local label — has its address strictly
    inside the code -/
theorem ensureEnd_symbols_lt (p : Program) (hb : SymBounded p.link) :
    ∀ q ∈ (ensureEnd p).link.symbols, q.2.1 < (ensureEnd p).link.ops.size := by
  rw [ensureEnd_eq]
  split
  · rename_i hc
    intro q hq
    have h1 := hb q hq
    have h2 : (q.2.1 == p.link.ops.size) = false := by
      have := hc.2
      unfold hasLineAtEnd at this
      rw [List.any_eq_false] at this
      simpa using this q hq
    have : q.2.1 ≠ p.link.ops.size := by simpa using h2
    omega
  · intro q hq
    rw [pushEndP_link]
    have e : (pushEndP p).link.symbols = p.link.symbols := by rw [pushEndP_link]; rfl
    rw [e] at hq
    show q.2.1 < (p.link.ops.push Opcode.end).size
    rw [Array.size_push]
    exact Nat.lt_succ_of_le (hb q hq)

theorem compile_directAddress (ls : List Line) (hnum : Numbered ls) :
    (compile ls).directAddress = (ensureEnd (({} : Program).codegenLines ls)).link.ops.size := by
  have hd : (resolve (ensureEnd (({} : Program).codegenLines ls))).directAddress = 0 := by
    have h0 := fresh_directAddress ls hnum
    have h1 : (resolve (ensureEnd (({} : Program).codegenLines ls))).directAddress =
        (ensureEnd (({} : Program).codegenLines ls)).directAddress := by
      rw [resolve_eq]; split <;> rfl
    have h2 : (ensureEnd (({} : Program).codegenLines ls)).directAddress =
        (({} : Program).codegenLines ls).directAddress := by
      rw [ensureEnd_eq]
      split
      · rfl
      · unfold pushEndP; dsimp only; split <;> rfl
    rw [h1, h2, h0]
  have hlink : (resolve (ensureEnd (({} : Program).codegenLines ls))).link =
      (ensureEnd (({} : Program).codegenLines ls)).link.link.1 := by
    rw [resolve_eq]; split <;> rfl
  unfold compile
  rw [linkProg_eq, markDirect_eq, if_pos hd]
  show (resolve (ensureEnd (({} : Program).codegenLines ls))).link.ops.size = _
  rw [hlink, (link_cleans _).2.2]

/-- **no branch can fall into the direct line's code**: the table the linker resolves every
    reference of the listing with (`linkOne` patches an operand with `symbols.lookup sym`, and the
    table does not change during the pass) has all its code addresses — line numbers and local
    labels (ELSE/end of IF, WHILE/WEND, FOR/NEXT and GOSUB return addresses, DEF FN skip) —
    strictly below `directAddress` -/
theorem resolved_target_below_direct (ls : List Line) (hnum : Numbered ls) (sym : Symbol) (o d : Nat)
    (h : (ensureEnd (({} : Program).codegenLines ls)).link.symbols.lookup sym = some (o, d)) :
    o < (compile ls).directAddress := by
  rw [compile_directAddress ls hnum]
  exact ensureEnd_symbols_lt _ (codegenLines_symBounded ls hnum {} SymBounded.empty) (sym, (o, d)) (mem_of_lookup h)

/-- in the linked program every line starts strictly below `directAddress` (only the mark of the
    direct segment, key 65530, sits at it) -/
theorem line_address_below_direct (ls : List Line) (hnum : Numbered ls) (p : Symbol × (Nat × Nat))
    (hp : p ∈ (compile ls).link.symbols) (hk : p.1 ≠ (Gen.maxLineNumber : Int) + 1) :
    p.2.1 < (compile ls).directAddress := by
  rw [compile_symbols ls hnum] at hp
  rcases mem_symInsert hp with e | hp
  · rw [e] at hk; exact absurd rfl hk
  · have hm := (List.mem_filter.1 hp).1
    rw [compile_directAddress ls hnum]
    apply ensureEnd_symbols_lt _ (codegenLines_symBounded ls hnum {} SymBounded.empty) p
    rw [(ensureEnd_symbols _).1]
    exact hm

end Program
end Basic

namespace Basic
namespace Parse

theorem i16_zero : Fmt.parseI16 (numText ['0']) = some 0 := by decide +kernel

/-- `IF 0 THEN END` -/
theorem parse_if0_end (n : Option Nat) :
    parse n [.word .if, .whitespace 1, .literal (.integer ['0']), .whitespace 1, .word .then,
      .whitespace 1, .word .end] =
    .ok [.if (0, 2) (.integer (3, 4) 0) [.end (10, 13)] []] := by
  simp [Parse.parse, Parse.parseTokens, Parse.fuelFor, Parse.statements, Parse.statement, Parse.peek,
    Parse.next, Parse.nextLoop, Parse.col, Parse.isRem, StateT.run, bind, StateT.bind, Except.bind, get,
    getThe, MonadStateOf.get, StateT.get, pure, StateT.pure, Except.pure, set, StateT.set, modify,
    modifyGet, MonadStateOf.modifyGet, StateT.modifyGet, Except.map, Token.text, Word.text, Literal.text,
    Parse.expression, Parse.descend, Parse.binLoop, Parse.ifStmt, Parse.maybe, Parse.expect, Parse.literal,
    Parse.maybeLineNumber, i16_zero]

end Parse
end Basic
