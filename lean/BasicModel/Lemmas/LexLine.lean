import BasicModel.Lemmas.LexScan
/-
  The arms of the token iterator stated on `lexFrom` (no fuel), the line-number prefix and the
  post-passes on short lists.
-/
set_option linter.unusedSimpArgs false
namespace Basic
namespace Lex

/-! ### arms of `next()` -/

theorem lexFrom_ws (c : Char) (cs : List Char) (h : isWs c = true) :
    lexFrom (c :: cs) false = (whitespace (c :: cs)).1 :: lexFrom (whitespace (c :: cs)).2 false := by
  rw [lexFrom_cons]; simp [h]

theorem lexFrom_number (c : Char) (cs : List Char) (h : (isDigit c || c = '.') = true) :
    lexFrom (c :: cs) false = (number (c :: cs)).1 :: lexFrom (number (c :: cs)).2 false := by
  have hw : isWs c = false := by
    simp only [Bool.or_eq_true, decide_eq_true_eq] at h
    rcases h with h | h
    · exact not_isWs_of_isDigit c h
    · subst h; decide
  rw [lexFrom_cons]; simp only [hw, h]; simp

theorem lexFrom_alpha (c : Char) (cs : List Char) (h : isAlpha c = true) (t : Token)
    (ts : List Token) (r : List Char) (ha : alphabetic (c :: cs) = (t :: ts, r)) :
    lexFrom (c :: cs) false = t :: ts ++ lexFrom r (t == .word .rem1) := by
  have hw := not_isWs_of_isAlpha c h
  have hd := not_isDigit_of_isAlpha c h
  have hdot : c ≠ '.' := ne_of_isAlpha c _ h (by decide)
  rw [lexFrom_cons]; simp only [hw, hd, hdot, h, ha]; simp

theorem lexFrom_string (cs : List Char) :
    lexFrom ('"' :: cs) false = (string ('"' :: cs)).1 :: lexFrom (string ('"' :: cs)).2 false := by
  rw [lexFrom_cons]
  have h1 : isWs '"' = false := by decide
  have h2 : isDigit '"' = false := by decide
  have h3 : isAlpha '"' = false := by decide
  simp [h1, h2, h3]

theorem lexFrom_radix (cs : List Char) :
    lexFrom ('&' :: cs) false = (radix ('&' :: cs)).1 :: lexFrom (radix ('&' :: cs)).2 false := by
  rw [lexFrom_cons]
  have h1 : isWs '&' = false := by decide
  have h2 : isDigit '&' = false := by decide
  have h3 : isAlpha '&' = false := by decide
  simp [h1, h2, h3]

/-- a one-character token -/
theorem lexFrom_minutia (c : Char) (cs : List Char) (t : Token) (h : matchMinutia [c] = some t) :
    lexFrom (c :: cs) false = t :: lexFrom cs (t == .word .rem2) := by
  have hc : c = '(' ∨ c = ')' ∨ c = ',' ∨ c = ':' ∨ c = ';' ∨ c = '?' ∨ c = '\'' ∨ c = '^' ∨ c = '*' ∨
      c = '/' ∨ c = '\\' ∨ c = '+' ∨ c = '-' ∨ c = '=' ∨ c = '<' ∨ c = '>' := by
    unfold matchMinutia at h
    split at h <;> simp_all
  have hm := minutia_one c cs t h
  rw [lexFrom_cons, hm]
  rcases hc with h | h | h | h | h | h | h | h | h | h | h | h | h | h | h | h <;> subst h <;>
    simp (decide := true)

/-- remark mode: the rest of the line is one token -/
theorem lexFrom_remark (cs : List Char) (h : cs ≠ []) : lexFrom cs true = [.unknown cs] := by
  cases cs with
  | nil => contradiction
  | cons c cs => rw [lexFrom_cons]; simp

/-! ### the line-number prefix -/

theorem splitLineNumber_plain (c : Char) (cs : List Char) (hd : isDigit c = false)
    (hw : isWs c = false) : splitLineNumber (c :: cs) = (none, c :: cs) := by
  have h0 : prefixLen (c :: cs) false = 0 := by simp [prefixLen, hd, hw]
  have hp : Fmt.parseU16 [] = none := by decide
  simp only [splitLineNumber, h0, List.take_zero, List.dropWhile_nil, hp]

theorem splitLineNumber_nil : splitLineNumber [] = (none, []) := by
  have hp : Fmt.parseU16 [] = none := by decide
  simp only [splitLineNumber, prefixLen, List.take_zero, List.dropWhile_nil, hp]

/-- a line that does not start with a digit or a blank has no line number -/
theorem lex_plain (c : Char) (cs : List Char) (hd : isDigit c = false) (hw : isWs c = false) :
    lex (c :: cs) = (none, postPasses (lexFrom (c :: cs) false)) := by
  simp [lex, splitLineNumber_plain c cs hd hw, rawTokens_eq]

/-! ### post-passes on a single token -/

theorem postPasses_single (t : Token) (hw : ∀ n, t ≠ .whitespace n) (hu : ∀ s, t ≠ .unknown s) :
    postPasses [t] = [t] := by
  cases t with
  | whitespace n => exact absurd rfl (hw n)
  | unknown s => exact absurd rfl (hu s)
  | _ => simp [postPasses, trimEnd, trimEndRev, collapseTriples, tripleLocs, collapseDoubles, doubleLocs,
      separateWords, wordLocs, applyLocs]

end Lex
end Basic
