import BasicModel.Lemmas.SpellingCmp
/-
  C16: optional blanks.  A line printed WITHOUT any blank between its tokens (`FORI=1TO10`,
  `IFATHENPRINTB`) lexes to the same significant tokens, provided the packing is legal:

  * a run of adjacent letter tokens (reserved words, word operators, names) is one call of
    `alphabetic()`, which cuts the text at the reserved words it finds, leftmost first; whether that
    gives the tokens back is a property of the whole run, not of its adjacent pairs (`S`,`TO`,`P`
    packs to `STOP`), so the condition on a run is the decidable check `alphabetic run = run`;
  * every other token must be followed by text it cannot absorb (`Follows`, a condition on the
    adjacent pair): two names, or a name and a number, are not packable.
-/
set_option linter.unusedSimpArgs false
set_option linter.unusedVariables false
namespace Basic
namespace Lex

/-! ### `alphabetic()` does not look beyond a boundary -/

theorem alphaFinish_parts (p : List Token) (s : Str) (rest : List Char) :
    (alphaFinish p s rest).1 = (alphaFinish p s []).1 ∧ (alphaFinish p s rest).2 = rest := by
  unfold alphaFinish; split <;> simp

/-- the last token is not an undecorated name -/
def NotPlainLast (out : List Token) : Prop := ∀ t i, out.getLast? = some t → t ≠ .ident (.plain i)

/-- if `alphabetic()` consumes all of `cs`, it consumes exactly `cs` when more text follows that
    starts with a boundary character (or when `cs` ends in a type suffix, whatever follows; or
    when `cs` ends in a reserved word and a digit or type suffix follows) -/
theorem alphaLoop_append (cs : List Char) : ∀ (s : Str) (d : Bool) (p : List Token) (rest : List Char),
    cs ≠ [] → (alphaLoop cs s d p).2 = [] →
    (AlphaBoundary rest ∨ (∃ c, cs.getLast? = some c ∧ isSuffixChar c = true) ∨
      ((∀ c ∈ rest.head?, isAlpha c = false) ∧ NotPlainLast (alphaLoop cs s d p).1)) →
    alphaLoop (cs ++ rest) s d p = ((alphaLoop cs s d p).1, rest) := by
  induction cs with
  | nil => intros; contradiction
  | cons c cs ih =>
    intro s d p rest _ h2 hb
    cases cs with
    | nil =>
      have e0 := alphaLoop_cons c [] s d p
      simp only at e0
      rw [e0] at hb
      rw [List.cons_append, List.nil_append, alphaLoop_cons, e0]
      by_cases h1 : upper c = '$'
      · simp [h1]
      by_cases h2' : upper c = '!'
      · simp [h2']
      by_cases h3 : upper c = '#'
      · simp [h3]
      by_cases h4 : upper c = '%'
      · simp [h4]
      simp only [h1, h2', h3, h4, if_false] at hb ⊢
      have hns : ¬ ∃ c0, [c].getLast? = some c0 ∧ isSuffixChar c0 = true := by
        rintro ⟨c0, e, hs⟩
        simp at e; subst e
        have hu := upper_suffix c hs
        rw [isSuffixChar_iff] at hs
        rw [hu] at h1 h2' h3 h4
        rcases hs with h | h | h | h <;> contradiction
      cases rest with
      | nil => exact Prod.ext rfl (alphaFinish_parts _ _ []).2
      | cons pk tl =>
        by_cases hbd : AlphaBoundary (pk :: tl)
        · obtain ⟨b1, b2, b3⟩ := hbd pk (by simp)
          simp only [isSuffixChar, Bool.or_eq_false_iff, decide_eq_false_iff_not] at b3
          simp only [b1, b2, b3, Bool.false_eq_true, if_false, decide_false, Bool.or_false]
          exact Prod.ext (alphaFinish_parts _ _ _).1 (alphaFinish_parts _ _ _).2
        · rcases hb with hb | hb | ⟨hb1, hb2⟩
          · exact absurd hb hbd
          · exact absurd hb hns
          · have b1 := hb1 pk (by simp)
            simp only [b1, Bool.false_eq_true, if_false]
            by_cases hk : (isDigit pk || pk = '$' || pk = '!' || pk = '#' || pk = '%') = true
            · simp only [hk, if_true]
              by_cases he : (scanAlphabetic p (s ++ [upper c])).2.isEmpty = true
              · simp [alphaFinish, he]
              · exfalso
                have : (alphaFinish p (s ++ [upper c]) []).1.getLast? =
                    some (.ident (.plain (scanAlphabetic p (s ++ [upper c])).2)) := by
                  simp [alphaFinish, he]
                exact hb2 _ _ this rfl
            · exfalso
              apply hbd
              intro x hx
              simp at hx; subst hx
              simp only [Bool.or_eq_true, decide_eq_true_eq, not_or] at hk
              refine ⟨b1, by simpa using hk.1.1.1.1, ?_⟩
              simp [isSuffixChar, hk.1.1.1.2, hk.1.1.2, hk.1.2, hk.2]
    | cons c' cs' =>
      have e1 := alphaLoop_cons c (c' :: (cs' ++ rest)) s d p
      have e2 := alphaLoop_cons c (c' :: cs') s d p
      simp only at e1 e2
      rw [e2] at h2 hb
      rw [getLast?_cons_of_ne_nil c (c' :: cs') (by simp)] at hb
      rw [List.cons_append, List.cons_append, e1, e2]
      by_cases h1 : upper c = '$'
      · simp [h1] at h2
      by_cases h2' : upper c = '!'
      · simp [h1, h2'] at h2
      by_cases h3 : upper c = '#'
      · simp [h1, h2', h3] at h2
      by_cases h4 : upper c = '%'
      · simp [h1, h2', h3, h4] at h2
      simp only [h1, h2', h3, h4, if_false] at h2 hb ⊢
      by_cases ha : isAlpha c' = true
      · simp only [ha, if_true] at h2 hb ⊢
        by_cases hd : (d || isDigit (upper c)) = true
        · simp [hd] at h2
        · simp only [hd, Bool.false_eq_true, if_false] at h2 hb ⊢
          have := ih (s ++ [upper c]) false p rest (by simp) h2 hb
          simp only [List.cons_append] at this
          exact this
      · simp only [ha, Bool.false_eq_true, if_false] at h2 hb ⊢
        by_cases hk : (isDigit c' || c' = '$' || c' = '!' || c' = '#' || c' = '%') = true
        · simp only [hk, if_true] at h2 hb ⊢
          by_cases he : (scanAlphabetic p (s ++ [upper c])).2.isEmpty = true
          · simp [he] at h2
          · simp only [he, Bool.false_eq_true, if_false] at h2 hb ⊢
            have := ih _ (d || isDigit (upper c)) _ rest (by simp) h2 hb
            simp only [List.cons_append] at this
            exact this
        · simp only [hk, Bool.false_eq_true, if_false] at h2 ⊢
          rw [(alphaFinish_parts _ _ _).2] at h2
          cases h2

theorem alphabetic_append (cs rest : List Char) (hne : cs ≠ []) (h2 : (alphabetic cs).2 = [])
    (hb : AlphaBoundary rest ∨ (∃ c, cs.getLast? = some c ∧ isSuffixChar c = true) ∨
      ((∀ c ∈ rest.head?, isAlpha c = false) ∧ NotPlainLast (alphabetic cs).1)) :
    alphabetic (cs ++ rest) = ((alphabetic cs).1, rest) :=
  alphaLoop_append cs [] false [] rest hne h2 hb

/-! ### letter tokens and runs -/

/-- tokens that `alphabetic()` produces: reserved words (`'` is not one), word operators, names -/
def isAlphaTok : Token → Bool
  | .word w => w != .rem2
  | .operator o => o.isWord
  | .ident _ => true
  | _ => false

/-- names with a type suffix: `alphabetic()` returns right after them -/
def endsSuffix : Token → Bool
  | .ident (.plain _) => false
  | .ident _ => true
  | _ => false

/-- the maximal run of letter tokens at the head of the list that one call of `alphabetic()`
    can produce: it stops after a name with a type suffix -/
def takeRun : List Token → List Token × List Token
  | [] => ([], [])
  | t :: ts =>
    if isAlphaTok t then
      if endsSuffix t then ([t], ts) else (t :: (takeRun ts).1, (takeRun ts).2)
    else ([], t :: ts)

theorem takeRun_append (L : List Token) : (takeRun L).1 ++ (takeRun L).2 = L := by
  induction L with
  | nil => rfl
  | cons t ts ih =>
    simp only [takeRun]
    split
    · split
      · rfl
      · simp [ih]
    · rfl

theorem takeRun_alpha (L : List Token) : ∀ t ∈ (takeRun L).1, isAlphaTok t = true := by
  induction L with
  | nil => intro t h; simp [takeRun] at h
  | cons a ts ih =>
    intro t h
    simp only [takeRun] at h
    split at h
    · rename_i ha
      split at h
      · simp at h; subst h; exact ha
      · simp at h; rcases h with h | h
        · subst h; exact ha
        · exact ih t h
    · simp at h

theorem takeRun_length (L : List Token) : (takeRun L).2.length ≤ L.length := by
  have := congrArg List.length (takeRun_append L)
  simp at this; omega

theorem rawOf_alphaTok (t : Token) (h : isAlphaTok t = true) : rawOf t = [t] := by
  cases t with
  | operator o => cases o <;> first | rfl | (simp [isAlphaTok, Operator.isWord] at h)
  | _ => rfl

theorem flatMap_rawOf_alpha (R : List Token) (h : ∀ t ∈ R, isAlphaTok t = true) : R.flatMap rawOf = R := by
  induction R with
  | nil => rfl
  | cons t R ih =>
    rw [List.flatMap_cons, rawOf_alphaTok t (h t (by simp)), ih (fun x hx => h x (by simp [hx]))]
    rfl

theorem alphaTok_text_head (t : Token) (h : isAlphaTok t = true) (hp : Printable t) :
    ∃ c cs, t.text = c :: cs ∧ isAlpha c = true := by
  have key : ∀ p ∈ keywords, ∃ c cs, p.1 = c :: cs ∧ isAlpha c = true := by
    intro p hpk
    obtain ⟨-, h2, h3⟩ := keywords_alpha p hpk
    cases hh : p.1 with
    | nil => exact absurd hh h3
    | cons c cs => exact ⟨c, cs, rfl, h2 c (by simp [hh])⟩
  cases t with
  | word w =>
    have hw : w ≠ .rem2 := by intro e; subst e; simp [isAlphaTok] at h
    exact key _ (word_in_keywords w hw)
  | operator o => exact key _ (operator_in_keywords o h)
  | ident i =>
    obtain ⟨nm, hw, ht, hu⟩ := hp
    have htx : (Token.ident i).text = nm.base ++ nm.sfx.toList := by rw [← ht, nm.token_text hw]
    obtain ⟨hl, hne, -, -, -⟩ := hw
    cases hh : nm.letters with
    | nil => exact absurd hh hne
    | cons c cs =>
      refine ⟨upper c, cs.map upper ++ nm.digits ++ nm.sfx.toList, ?_, ?_⟩
      · rw [htx, Name.base, hh]; simp
      · rw [isAlpha_upper]; exact hl c (by simp [hh])
  | _ => simp [isAlphaTok] at h

/-! ### the packing check -/

/-- the two remark markers -/
def isRemTok : Token → Bool
  | .word .rem1 | .word .rem2 => true
  | _ => false

instance (t : Token) (r : List Char) : Decidable (Follows t r) := by
  cases t with
  | literal l => cases l <;> simp only [Follows] <;> infer_instance
  | word w => cases w <;> simp only [Follows] <;> infer_instance
  | _ => simp only [Follows] <;> infer_instance

/-- what must hold between the last token of a letter run and the text that follows -/
def runEndOk (R : List Token) (rest : Str) : Bool :=
  (match R.getLast? with | some t => endsSuffix t | none => false) || decide (AlphaBoundary rest) ||
    (decide (∀ c ∈ rest.head?, isAlpha c = false) &&
      (match R.getLast? with | some (.ident (.plain _)) => false | _ => true))

/-- the decidable legality check for a blank-free token list; fuel = length of the list -/
def packOK : Nat → List Token → Bool
  | 0, L => L.isEmpty
  | _ + 1, [] => true
  | n + 1, t :: ts =>
    if t = .word .rem1 then
      match ts with
      | [] => true
      | [.unknown s] => !s.isEmpty && decide (AlphaBoundary s)
      | _ => false
    else if t = .word .rem2 then
      match ts with
      | [] => true
      | [.unknown s] => !s.isEmpty
      | _ => false
    else if isAlphaTok t then
      let r := takeRun (t :: ts)
      decide (alphabetic (printTokens r.1) = (r.1, [])) && runEndOk r.1 (printTokens r.2) && packOK n r.2
    else
      (match t with | .unknown _ => false | _ => true) && decide (Follows t (printTokens ts)) && packOK n ts

theorem printTokens_append (a b : List Token) : printTokens (a ++ b) = printTokens a ++ printTokens b := by
  simp [printTokens]

theorem suffix_token_last (t : Token) (h : endsSuffix t = true) (hp : Printable t) :
    ∃ c, t.text.getLast? = some c ∧ isSuffixChar c = true := by
  cases t with
  | ident i =>
    obtain ⟨nm, hw, ht, hu⟩ := hp
    have htx : (Token.ident i).text = nm.base ++ nm.sfx.toList := by rw [← ht, nm.token_text hw]
    cases hs : nm.sfx with
    | none =>
      simp only [Name.token, hs] at ht
      cases i <;> simp [endsSuffix] at h <;> cases ht
    | some c =>
      refine ⟨c, ?_, hw.2.2.2.1 c hs⟩
      rw [htx, hs]; simp
  | _ => simp [endsSuffix] at h

/-- the iterator on a blank-free printed list that passes the check: token by token, letter runs
    by one call of `alphabetic()` each -/
theorem lexFrom_packed (n : Nat) : ∀ (L : List Token), L.length ≤ n →
    (∀ t ∈ L, isRemTok t = false → (∀ s, t ≠ .unknown s) → Printable t) → packOK n L = true →
    lexFrom (printTokens L) false = L.flatMap rawOf := by
  induction n with
  | zero =>
    intro L hl _ _
    have : L = [] := by cases L <;> simp_all
    subst this; rfl
  | succ n ih =>
    intro L hl hP hk
    cases L with
    | nil => rfl
    | cons t ts =>
      simp only [packOK] at hk
      by_cases h1 : t = .word .rem1
      · rw [if_pos h1] at hk
        subst h1
        have hkw : ∀ r, (∀ c ∈ r.head?, isAlpha c = false) →
            lexFrom ((Token.word Word.rem1).text ++ r) false = .word .rem1 :: lexFrom r true :=
          fun r hb => lexFrom_keyword' ("REM".toList, .word .rem1) (by decide) r hb
        cases ts with
        | nil =>
          rw [printTokens_cons, show printTokens [] = [] from rfl, hkw [] (by intro c hc; simp at hc)]; rfl
        | cons u us =>
          cases us with
          | cons _ _ => cases u <;> simp at hk
          | nil =>
            cases u with
            | unknown s =>
              simp only [Bool.and_eq_true, Bool.not_eq_true', decide_eq_true_eq] at hk
              have hs : s ≠ [] := by intro e; subst e; simp at hk
              rw [printTokens_cons, show printTokens [.unknown s] = s by simp [printTokens, Token.text],
                hkw s (fun c hc => (hk.2 c hc).1), lexFrom_remark s hs]
              rfl
            | _ => simp at hk
      · by_cases h2 : t = .word .rem2
        · rw [if_neg h1, if_pos h2] at hk
          subst h2
          have hkw : ∀ r, lexFrom ((Token.word Word.rem2).text ++ r) false = .word .rem2 :: lexFrom r true :=
            fun r => lexFrom_minutia '\'' r _ rfl
          cases ts with
          | nil => rw [printTokens_cons, show printTokens [] = [] from rfl, hkw]; rfl
          | cons u us =>
            cases us with
            | cons _ _ => cases u <;> simp at hk
            | nil =>
              cases u with
              | unknown s =>
                have hs : s ≠ [] := by intro e; subst e; simp at hk
                rw [printTokens_cons, show printTokens [.unknown s] = s by simp [printTokens, Token.text], hkw,
                  lexFrom_remark s hs]
                rfl
              | _ => simp at hk
        · rw [if_neg h1, if_neg h2] at hk
          by_cases ha : isAlphaTok t = true
          · simp only [ha, if_true, Bool.and_eq_true, decide_eq_true_eq] at hk
            obtain ⟨⟨hrun, hend⟩, hrest⟩ := hk
            have happ := takeRun_append (t :: ts)
            have halpha := takeRun_alpha (t :: ts)
            -- the run starts with `t`
            obtain ⟨R', hR⟩ : ∃ R', (takeRun (t :: ts)).1 = t :: R' := by
              simp only [takeRun, ha, if_true]
              split
              · exact ⟨[], rfl⟩
              · exact ⟨_, rfl⟩
            have hlen : (takeRun (t :: ts)).2.length ≤ n := by
              have := congrArg List.length happ
              rw [hR] at this
              simp at this hl; omega
            have hsub : ∀ x ∈ (takeRun (t :: ts)).2, x ∈ t :: ts := by
              intro x hx; rw [← happ]; simp [hx]
            have hPt : Printable t := hP t (by simp) (by
              cases t <;> simp [isAlphaTok] at ha <;> first | rfl | skip
              rename_i w; cases w <;> first | rfl | (exact absurd rfl h1) | (exact absurd rfl h2))
              (by intro s e; subst e; simp [isAlphaTok] at ha)
            obtain ⟨c, cs, htx, hc⟩ := alphaTok_text_head t ha hPt
            have hne : printTokens (takeRun (t :: ts)).1 ≠ [] := by
              rw [hR, printTokens_cons, htx]; simp
            -- what follows the run cannot be absorbed
            have hb : AlphaBoundary (printTokens (takeRun (t :: ts)).2) ∨
                (∃ c, (printTokens (takeRun (t :: ts)).1).getLast? = some c ∧ isSuffixChar c = true) ∨
                ((∀ c ∈ (printTokens (takeRun (t :: ts)).2).head?, isAlpha c = false) ∧
                  NotPlainLast (alphabetic (printTokens (takeRun (t :: ts)).1)).1) := by
              simp only [runEndOk, Bool.or_eq_true, Bool.and_eq_true, decide_eq_true_eq] at hend
              rcases hend with (hend | hend) | ⟨hend1, hend2⟩
              · right; left
                cases hl' : (takeRun (t :: ts)).1.getLast? with
                | none => rw [hl'] at hend; simp at hend
                | some u =>
                  rw [hl'] at hend
                  simp only at hend
                  obtain ⟨P, hP'⟩ := List.getLast?_eq_some_iff.1 hl'
                  have hu_mem : u ∈ t :: ts := by rw [← happ, hP']; simp
                  have hua : isAlphaTok u = true := halpha u (by rw [hP']; simp)
                  have hPu : Printable u := hP u hu_mem (by
                    cases u <;> simp [endsSuffix] at hend <;> rfl) (by
                    intro s e; subst e; simp [endsSuffix] at hend)
                  obtain ⟨c0, hc0, hs0⟩ := suffix_token_last u hend hPu
                  refine ⟨c0, ?_, hs0⟩
                  rw [hP', printTokens_append, show printTokens [u] = u.text by simp [printTokens]]
                  have hune : u.text ≠ [] := by intro e; rw [e] at hc0; simp at hc0
                  rw [List.getLast?_append, hc0]; rfl
              · exact Or.inl hend
              · right; right
                refine ⟨hend1, ?_⟩
                rw [hrun]
                intro u i hu e
                subst e
                simp only at hu
                rw [hu] at hend2
                simp at hend2
            have hal := alphabetic_append _ (printTokens (takeRun (t :: ts)).2) hne (by rw [hrun]) hb
            rw [hrun] at hal
            simp only at hal
            have htext : printTokens (t :: ts) =
                printTokens (takeRun (t :: ts)).1 ++ printTokens (takeRun (t :: ts)).2 := by
              rw [← printTokens_append, happ]
            have hcs : ∃ cs', printTokens (takeRun (t :: ts)).1 ++ printTokens (takeRun (t :: ts)).2 = c :: cs' := by
              rw [hR, printTokens_cons, htx]; exact ⟨_, rfl⟩
            obtain ⟨cs', hcs'⟩ := hcs
            rw [htext, hcs']
            rw [hcs', hR] at hal
            rw [lexFrom_alpha c cs' hc t R' _ hal]
            have hflag : (t == Token.word Word.rem1) = false := by simp [h1]
            rw [hflag, ih _ hlen (fun x hx => hP x (hsub x hx)) hrest]
            conv => rhs; rw [← happ, List.flatMap_append, flatMap_rawOf_alpha _ halpha, hR]
          · simp only [ha, Bool.false_eq_true, if_false, Bool.and_eq_true, decide_eq_true_eq] at hk
            obtain ⟨⟨hu, hf⟩, hrest⟩ := hk
            have hPt : Printable t := hP t (by simp) (by
              cases t <;> first | rfl | skip
              rename_i w; cases w <;> first | rfl | (exact absurd rfl h1) | (exact absurd rfl h2))
              (by intro s e; subst e; simp at hu)
            rw [printTokens_cons, lexFrom_token t _ hPt hf h1 h2,
              ih ts (by simp at hl; omega) (fun x hx => hP x (by simp [hx])) hrest, List.flatMap_cons]

/-! ### whole packed lines -/

theorem triRec_no_blank (X : List Token) (h : ∀ t ∈ X, isBlank t = false) : triRec X = X := by
  induction X with
  | nil => rfl
  | cons a X ih =>
    cases X with
    | nil => rfl
    | cons b X' =>
      cases X' with
      | nil => rfl
      | cons c rest =>
        rw [triRec, tripleMatch_none_of_not_blank a b c (h b (by simp))]
        simp only
        rw [ih (fun x hx => h x (by simp [hx]))]

theorem rawOf_not_blank (t : Token) (h : isBlank t = false) : ∀ x ∈ rawOf t, isBlank x = false := by
  cases t with
  | operator o => cases o <;> simp [rawOf, isBlank]
  | whitespace n => simp [isBlank] at h
  | _ => simp [rawOf, isBlank]

/-- the post-passes on a line that passes the syntactic checks: the collapse passes rebuild the
    comparison operators, `separate_words` puts one blank between adjacent word-like tokens,
    nothing else happens -/
theorem postPasses_packed (L : List Token) (ht : tripleClash L = false) (hd : doubleClash L = false)
    (he : endOk L = true) : postPasses (L.flatMap rawOf) = sepRec L := by
  unfold postPasses
  rw [trimEnd_raw L he]
  have : collapseTriples (L.flatMap rawOf) = L.flatMap rawOf := by
    simp [collapseTriples, tripleLocs_of_free _ 0 (tripleFree_raw L ht), applyLocs]
  rw [this, collapseDoubles_eq, dblRec_raw L hd, separateWords_eq]

/-- the decidable legality check for a line with ANY placement of blanks (none at all included):
    every letter run scans back to itself, every other token is followed by text it cannot absorb,
    no two comparison operators adjacent or one blank apart, no `GO <blank> TO|SUB`, no trailing
    blank run, no trailing white space in the remark text -/
def packLegal (L : List Token) : Bool :=
  packOK L.length L && !tripleClash L && !doubleClash L && endOk L

theorem packLegal_parts (L : List Token) (h : packLegal L = true) :
    packOK L.length L = true ∧ tripleClash L = false ∧ doubleClash L = false ∧ endOk L = true := by
  simp only [packLegal, Bool.and_eq_true, Bool.not_eq_true'] at h
  exact ⟨h.1.1.1, h.1.1.2, h.1.2, h.2⟩

/-- the hypothesis on the tokens: all but the remark markers and the remark text are `Printable` -/
def AllPrintable (L : List Token) : Prop :=
  ∀ t ∈ L, isRemTok t = false → (∀ s, t ≠ .unknown s) → Printable t

theorem lex_packed_direct (L : List Token) (hP : AllPrintable L) (hk : packLegal L = true)
    (h0 : StartsPlain (printTokens L)) : lex (printLine none L) = (none, sepRec L) := by
  obtain ⟨h1, h2, h3, h4⟩ := packLegal_parts L hk
  have hr := lexFrom_packed L.length L (Nat.le_refl _) hP h1
  simp only [printLine]
  cases hh : printTokens L with
  | nil =>
    rw [hh] at hr
    simp only [lex, splitLineNumber_nil, rawTokens_eq, hr, postPasses_packed L h2 h3 h4]
  | cons c cs =>
    obtain ⟨hd, hw⟩ := h0 c (by simp [hh])
    rw [lex_plain c cs hd hw, ← hh, hr, postPasses_packed L h2 h3 h4]

theorem lex_packed_numbered (n : Nat) (hn : n ≤ 65529) (L : List Token) (hP : AllPrintable L)
    (hk : packLegal L = true) : lex (printLine (some n) L) = (some n, sepRec L) := by
  obtain ⟨h1, h2, h3, h4⟩ := packLegal_parts L hk
  have hr := lexFrom_packed L.length L (Nat.le_refl _) hP h1
  simp only [printLine, lex, splitLineNumber_listed n hn, rawTokens_eq, hr, postPasses_packed L h2 h3 h4]

theorem canonRaw_printable (ts : List Token) (h : CanonRaw ts) : AllPrintable ts := by
  induction ts with
  | nil => intro t ht; simp at ht
  | cons a rest ih =>
    unfold CanonRaw at h
    intro t ht hr hu
    by_cases h1 : a = .word .rem1
    · subst h1
      simp only [if_true] at h
      simp at ht
      rcases ht with ht | ht
      · subst ht; simp [isRemTok] at hr
      · rcases h with h | ⟨s, h, -⟩ <;> subst h <;> simp at ht
        exact absurd ht (hu s)
    · by_cases h2 : a = .word .rem2
      · subst h2
        simp only [h1, if_false, if_true] at h
        simp at ht
        rcases ht with ht | ht
        · subst ht; simp [isRemTok] at hr
        · rcases h with h | ⟨s, h, -⟩ <;> subst h <;> simp at ht
          exact absurd ht (hu s)
      · simp only [h1, h2, if_false] at h
        simp at ht
        rcases ht with ht | ht
        · subst ht; exact h.1
        · exact ih h.2.2 t ht hr hu

theorem sig_sig (ts : List Token) : sig (sig ts) = sig ts := by
  simp [sig, List.filter_filter]

theorem allPrintable_sig (ts : List Token) (h : AllPrintable ts) : AllPrintable (sig ts) := by
  intro t ht
  exact h t (List.mem_filter.1 ht).1

/-- C16, optional blanks: the canonical listing of a line and the same line without any blank have
    the same significant tokens (direct lines) -/
theorem packed_same_direct (ts : List Token) (h : Canon ts) (hk : packLegal (sig ts) = true)
    (h0 : StartsPlain (printTokens ts)) (h0' : StartsPlain (printTokens (sig ts))) :
    lex (printLine none (sig ts)) = (none, sepRec (sig ts)) ∧ lex (printLine none ts) = (none, ts) ∧
    sig (lex (printLine none (sig ts))).2 = sig (lex (printLine none ts)).2 := by
  have e1 := lex_packed_direct (sig ts) (allPrintable_sig ts (canonRaw_printable ts h.1)) hk h0'
  have e2 := lex_print_direct ts h h0
  refine ⟨e1, e2, ?_⟩
  rw [e1, e2]
  simp only [sig_sepRec, sig_sig]

/-- the same for program lines -/
theorem packed_same_numbered (n : Nat) (hn : n ≤ 65529) (ts : List Token) (h : Canon ts)
    (hk : packLegal (sig ts) = true) :
    lex (printLine (some n) (sig ts)) = (some n, sepRec (sig ts)) ∧
    lex (printLine (some n) ts) = (some n, ts) ∧
    sig (lex (printLine (some n) (sig ts))).2 = sig (lex (printLine (some n) ts)).2 := by
  have e1 := lex_packed_numbered n hn (sig ts) (allPrintable_sig ts (canonRaw_printable ts h.1)) hk
  have e2 := lex_print_numbered n hn ts h
  refine ⟨e1, e2, ?_⟩
  rw [e1, e2]
  simp only [sig_sepRec, sig_sig]

end Lex
end Basic
