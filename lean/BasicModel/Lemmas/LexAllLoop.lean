import BasicModel.Lemmas.LexAllAlpha
/-
  C05 for ALL strings, part 4: the loop of `alphabetic()` keeps the invariant of part 3.
-/
set_option linter.unusedSimpArgs false
set_option linter.unusedVariables false
namespace Basic
namespace Lex
open Lemmas.LexIdent

theorem LD.snoc_digit {s : Str} (h : LD s) (k : Char) (hk : isDigit k = true) : LD (s ++ [k]) := by
  obtain ⟨ls, ds, rfl, h1, h2, h3, h4⟩ := h
  refine ⟨ls, ds ++ [k], by simp, h1, h2, ?_, noKeyword_snoc _ k (not_isUpperAlpha_of_isDigit k hk) h4⟩
  intro c hc
  rcases List.mem_append.mp hc with hc | hc
  · exact h3 c hc
  · simp at hc; rw [hc]; exact hk

theorem LD.head_snoc {s : Str} (h : LD s) (k : Char) : (s ++ [k]).head? = s.head? := by
  have := h.ne_nil
  cases s with
  | nil => contradiction
  | cons a l => rfl

theorem alphaLoop_spec (cs : List Char) : ∀ (s : Str) (digit : Bool) (p : List Token) (c0 : Char),
    cs ≠ [] → (∀ t ∈ p, AlphaTok t) → (p ≠ [] → p.head?.bind fc = some c0) →
    (p = [] → ∀ ch ∈ cs.head?, (s ++ [upper ch]).head? = some c0) → AState cs s digit →
    AlphaRes c0 (alphaLoop cs s digit p).1 (alphaLoop cs s digit p).2 ∧
      ∃ w, w ≠ [] ∧ cs = w ++ (alphaLoop cs s digit p).2 := by
  induction cs with
  | nil => intro s d p c0 h; exact absurd rfl h
  | cons ch0 rest ih =>
    intro s d p c0 _ hp hh1 hh2 hst
    have hh2' : p = [] → (s ++ [upper ch0]).head? = some c0 := fun e => hh2 e ch0 (by simp)
    have hw : ∃ w, w ≠ [] ∧ ch0 :: rest = w ++ rest := ⟨[ch0], by simp, rfl⟩
    -- a type suffix ends the name
    by_cases hsx : isSuffixChar ch0 = true
    · have hu := upper_suffix ch0 hsx
      rcases hst with ⟨ha, -, -⟩ | ⟨-, hld⟩
      · have := ha ch0 (by simp)
        rw [not_isAlpha_of_isSuffixChar ch0 hsx] at this; cases this
      · obtain ⟨ls, ds, rfl, h1, h2, h3, h4⟩ := hld
        have hpr := printable_sfx ls ds ch0 hsx h1 h2 h3 h4
        have hname : p = [] → (suffixIdent ch0 (ls ++ ds ++ [ch0])).name.head? = some c0 := by
          intro e
          have := hh2' e
          rw [hu] at this
          simp only [suffixIdent]
          repeat' split
          all_goals exact this
        have hres := alphaRes_ident c0 p (suffixIdent ch0 (ls ++ ds ++ [ch0])) rest hp hh1 hname hpr
          (by intro s' e; simp only [suffixIdent] at e; repeat' split at e
              all_goals cases e)
        rw [alphaLoop_cons, hu]
        rw [isSuffixChar_iff] at hsx
        rcases hsx with e | e | e | e <;> subst e <;>
          simp (decide := true) only [if_true, if_false] <;> exact ⟨by simpa [suffixIdent] using hres, hw⟩
    · have hsx' : isSuffixChar ch0 = false := by simpa using hsx
      -- letter (state 1) or digit (state 2)
      have hcls : (isAlpha ch0 = true ∧ AllUp (s ++ [upper ch0]) ∧ (d || isDigit (upper ch0)) = false) ∨
          (isDigit ch0 = true ∧ LD (s ++ [upper ch0]) ∧ (d || isDigit (upper ch0)) = true) := by
        rcases hst with ⟨ha, hd, hs⟩ | ⟨hc, hld⟩
        · have ha' := ha ch0 (by simp)
          left
          refine ⟨ha', allUp_snoc hs (isUpperAlpha_upper_of_isAlpha ch0 ha'), ?_⟩
          rw [hd, isDigit_upper, not_isDigit_of_isAlpha ch0 ha']; rfl
        · have hc' := hc ch0 (by simp)
          rw [hsx', Bool.or_false] at hc'
          right
          rw [upper_of_isDigit ch0 hc']
          exact ⟨hc', hld.snoc_digit ch0 hc', by simp [hc']⟩
      have hns : upper ch0 ≠ '$' ∧ upper ch0 ≠ '!' ∧ upper ch0 ≠ '#' ∧ upper ch0 ≠ '%' := by
        rcases hcls with ⟨ha, -, -⟩ | ⟨hd, -, -⟩
        · exact upper_not_suffix_of_isAlpha ch0 ha
        · rw [upper_of_isDigit ch0 hd]; exact not_suffix_of_isDigit ch0 hd
      have hs' : AllUp (s ++ [upper ch0]) ∨ LD (s ++ [upper ch0]) := by
        rcases hcls with ⟨-, h, -⟩ | ⟨-, h, -⟩
        · exact Or.inl h
        · exact Or.inr h
      have hne' : s ++ [upper ch0] ≠ [] := by simp
      rw [alphaLoop_cons]
      simp only [hns.1, hns.2.1, hns.2.2.1, hns.2.2.2, if_false]
      cases rest with
      | nil =>
        simp only
        obtain ⟨hr, he⟩ := alphaRes_finish c0 p (s ++ [upper ch0]) [] hp hh1 hh2' hs' hne'
          (by intro c hc; simp at hc)
        exact ⟨hr, ⟨[ch0], by simp, by rw [he]; rfl⟩⟩
      | cons pk tl =>
        simp only
        split
        · rename_i hpk
          split
          · -- a letter after a digit ends the name
            rename_i hdig
            rcases hcls with ⟨-, -, hd⟩ | ⟨hdg, hld, -⟩
            · rw [hd] at hdig; cases hdig
            · refine ⟨alphaRes_ident c0 p (.plain (s ++ [upper ch0])) (pk :: tl) hp hh1 (fun e => hh2' e)
                hld.printable ?_, hw⟩
              intro s' _ c hc ha
              simp at hc; subst hc; rw [hpk] at ha; cases ha
          · rename_i hdig
            rcases hcls with ⟨ha, hs1, hd⟩ | ⟨-, -, hd⟩
            · obtain ⟨hr, w, hw1, hw2⟩ := ih (s ++ [upper ch0]) (d || isDigit (upper ch0)) p c0 (by simp) hp hh1
                (by
                  intro e ch hch
                  have := hh2' e
                  cases hh : s ++ [upper ch0] with
                  | nil => exact absurd hh hne'
                  | cons a l => rw [hh] at this; simpa using this)
                (Or.inl ⟨by intro c hc; simp at hc; subst hc; exact hpk, hd, hs1⟩)
              exact ⟨hr, ch0 :: w, by simp, by rw [List.cons_append, ← hw2]⟩
            · rw [hd] at hdig; exact absurd rfl hdig
        · rename_i hpk
          split
          · rename_i hpk2
            obtain ⟨new, e1, e2, e3, e4, e5⟩ := scan_ok p (s ++ [upper ch0]) hs'
            have hpn : ∀ t ∈ p ++ new, AlphaTok t := by
              intro t ht
              rcases List.mem_append.mp ht with h | h
              · exact hp t h
              · exact e2 t h
            have hhead : p ++ new ≠ [] → (p ++ new).head?.bind fc = some c0 := by
              intro hne''
              cases p with
              | nil =>
                simp only [List.nil_append] at hne'' ⊢
                rw [(e4 hne'').1]; exact hh2' rfl
              | cons a l => simpa using hh1 (by simp)
            split
            · -- the text was all reserved words
              rename_i hemp
              have hr : (scanAlphabetic p (s ++ [upper ch0])).2 = [] := by simpa using hemp
              have hnew : new ≠ [] := by
                intro e; rw [e3 e] at hr; exact hne' hr
              refine ⟨?_, hw⟩
              simp only [e1]
              refine ⟨by simp [hnew], hpn, hhead (by simp [hnew]), ?_⟩
              intro c hc
              constructor
              · intro ha
                simp at hc; subst hc
                rw [ha] at hpk; exact absurd rfl hpk
              · intro ha s' hs''
                obtain ⟨-, t, ht, hk⟩ := e4 hnew
                rw [List.getLast?_append, ht] at hs''
                simp at hs''
                rw [hs''] at hk; cases hk
            · rename_i hemp
              have hr : (scanAlphabetic p (s ++ [upper ch0])).2 ≠ [] := by simpa using hemp
              have hld := e5 hr
              obtain ⟨hres, w, hw1, hw2⟩ := ih (scanAlphabetic p (s ++ [upper ch0])).2 (d || isDigit (upper ch0))
                (scanAlphabetic p (s ++ [upper ch0])).1 c0 (by simp) (by rw [e1]; exact hpn)
                (by rw [e1]; exact hhead)
                (by
                  intro e ch hch
                  rw [e1] at e
                  have hp' : p = [] := by cases p <;> simp_all
                  have hn' : new = [] := by cases new <;> simp_all
                  rw [hld.head_snoc, e3 hn']
                  exact hh2' hp')
                (Or.inr ⟨by
                  intro c hc; simp at hc; subst hc
                  simpa [isSuffixChar, Bool.or_assoc] using hpk2, hld⟩)
              exact ⟨hres, ch0 :: w, by simp, by rw [List.cons_append, ← hw2]⟩
          · rename_i hpk2
            obtain ⟨hr, he⟩ := alphaRes_finish c0 p (s ++ [upper ch0]) (pk :: tl) hp hh1 hh2' hs' hne'
              (by
                intro c hc
                simp at hc; subst hc
                simp only [Bool.or_eq_true, decide_eq_true_eq, not_or] at hpk2
                refine ⟨by simpa using hpk, by simpa using hpk2.1.1.1.1, ?_⟩
                simp [isSuffixChar, hpk2.1.1.1.2, hpk2.1.1.2, hpk2.1.2, hpk2.2])
            exact ⟨hr, ⟨[ch0], by simp, by rw [he]; rfl⟩⟩

/-- what `alphabetic()` returns -/
theorem alphabetic_spec (pk : Char) (cs : List Char) (h : isAlpha pk = true) :
    AlphaRes (upper pk) (alphabetic (pk :: cs)).1 (alphabetic (pk :: cs)).2 ∧
      ∃ w, w ≠ [] ∧ pk :: cs = w ++ (alphabetic (pk :: cs)).2 := by
  apply alphaLoop_spec (pk :: cs) [] false [] (upper pk) (by simp) (by intro t ht; simp at ht)
    (by intro h; exact absurd rfl h)
  · intro _ ch hch; simp at hch; subst hch; rfl
  · left
    exact ⟨by intro c hc; simp at hc; subst hc; exact h, rfl, by intro c hc; simp at hc⟩

end Lex
end Basic
