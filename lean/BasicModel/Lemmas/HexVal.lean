import BasicModel.Model.Func
/-
  Reading a radix constant from TEXT (`impl From<&str> for Val`, the model's `Val.ofStr`; used by `VAL`
  and by the field conversion of INPUT): helper lemmas for `Thm/C17Hex.lean`.

  * `hexDigits`, `hexDigitValue`, `hexValue` — an explicit table of the 22 hexadecimal digit
    characters, their values, and the base-16 fold (the specification side);
  * `go_spec`, `parseI16Radix_spec` — `i16::from_str_radix` on a run of digit characters of the
    radix: the value when at most 32767, nothing otherwise (and nothing for the empty run);
  * `parseF64_amp`, `fallback_amp` — a text that begins with `&` is no decimal number: the reader's
    second half (D→E, suffix strip, `str::parse::<f64>`) returns the text itself;
  * `ofStr_amp` — the shape of `Val.ofStr` on `& c r`.
-/
set_option linter.unusedSimpArgs false
namespace Basic
namespace HexVal
open Fmt

/-! ### the specification side -/

/-- the hexadecimal digit characters -/
def hexDigits : List Char :=
  ['0', '1', '2', '3', '4', '5', '6', '7', '8', '9', 'A', 'B', 'C', 'D', 'E', 'F',
   'a', 'b', 'c', 'd', 'e', 'f']

/-- the octal digit characters -/
def octDigits : List Char := ['0', '1', '2', '3', '4', '5', '6', '7']

/-- the value of a hexadecimal digit character (anything else: 0) -/
def hexDigitValue : Char → Nat
  | '0' => 0 | '1' => 1 | '2' => 2 | '3' => 3 | '4' => 4 | '5' => 5 | '6' => 6 | '7' => 7
  | '8' => 8 | '9' => 9
  | 'A' => 10 | 'B' => 11 | 'C' => 12 | 'D' => 13 | 'E' => 14 | 'F' => 15
  | 'a' => 10 | 'b' => 11 | 'c' => 12 | 'd' => 13 | 'e' => 14 | 'f' => 15
  | _ => 0

/-- the number a string of hexadecimal digits denotes, most significant digit first -/
def hexValue (ds : List Char) : Nat := ds.foldl (fun acc c => acc * 16 + hexDigitValue c) 0

/-- the number a string of octal digits denotes -/
def octValue (ds : List Char) : Nat := ds.foldl (fun acc c => acc * 8 + hexDigitValue c) 0

theorem hexDigits_radixDigit : ∀ c ∈ hexDigits,
    radixDigit 16 c = some (hexDigitValue c) ∧ c ≠ '-' ∧ c ≠ '+' := by decide

theorem octDigits_radixDigit : ∀ c ∈ octDigits,
    radixDigit 8 c = some (hexDigitValue c) ∧ c ≠ '-' ∧ c ≠ '+' ∧ c ≠ 'H' ∧ c ≠ 'h' := by decide

/-! ### `from_str_radix` -/

/-- the accumulator loop, from `acc` -/
def foldFrom (radix : Nat) (acc : Nat) (ds : Str) : Nat :=
  ds.foldl (fun a c => a * radix + hexDigitValue c) acc

theorem foldFrom_ge (radix : Nat) (hr : 1 ≤ radix) (ds : Str) (acc : Nat) : acc ≤ foldFrom radix acc ds := by
  induction ds generalizing acc with
  | nil => exact Nat.le_refl _
  | cons c cs ih =>
    have := ih (acc * radix + hexDigitValue c)
    have h2 : acc * 1 ≤ acc * radix := Nat.mul_le_mul_left _ hr
    simp only [foldFrom, List.foldl_cons] at this ⊢
    omega

theorem go_spec (radix : Nat) (hr : 1 ≤ radix) (ds : Str)
    (hd : ∀ c ∈ ds, radixDigit radix c = some (hexDigitValue c)) (acc : Nat) :
    (∀ n, parseI16Radix.go radix ds acc = some n → n = foldFrom radix acc ds) ∧
    (parseI16Radix.go radix ds acc = none → 100000 < foldFrom radix acc ds) := by
  induction ds generalizing acc with
  | nil =>
    constructor
    · intro n h; simp [parseI16Radix.go] at h; exact h.symm
    · intro h; simp [parseI16Radix.go] at h
  | cons c cs ih =>
    have hdg := hd c (by simp)
    have ih' := ih (fun x hx => hd x (by simp [hx])) (acc * radix + hexDigitValue c)
    have hge := foldFrom_ge radix hr cs (acc * radix + hexDigitValue c)
    have h2 : acc * 1 ≤ acc * radix := Nat.mul_le_mul_left _ hr
    simp only [parseI16Radix.go, hdg, foldFrom, List.foldl_cons] at ih' hge ⊢
    by_cases hbig : acc > 100000
    · simp only [hbig, if_true]
      constructor
      · intro n h; cases h
      · intro _; omega
    · simp only [hbig, if_false]
      exact ih'

/-- **`i16::from_str_radix` on a run of digits of the radix**: the value when it is at most 32767;
    nothing for the empty run and for every larger value (there is no wrap to negative numbers, and
    no limit on the number of digits: leading zeros are digits like the others) -/
theorem parseI16Radix_spec (radix : Nat) (hr : 1 ≤ radix) (ds : Str)
    (hd : ∀ c ∈ ds, radixDigit radix c = some (hexDigitValue c) ∧ c ≠ '-' ∧ c ≠ '+') :
    parseI16Radix ds radix =
      if ds ≠ [] ∧ foldFrom radix 0 ds ≤ 32767 then some (Int16.ofNat (foldFrom radix 0 ds)) else none := by
  cases ds with
  | nil => simp [parseI16Radix]
  | cons c cs =>
    obtain ⟨-, hm, hp⟩ := hd c (by simp)
    have hgo := go_spec radix hr (c :: cs) (fun x hx => (hd x hx).1) 0
    unfold parseI16Radix
    split
    rename_i neg r heq
    have hnr : neg = false ∧ r = c :: cs := by
      split at heq
      · rename_i r' heq'; exact absurd (List.cons.inj heq').1 hm
      · rename_i r' heq'; exact absurd (List.cons.inj heq').1 hp
      · cases heq; exact ⟨rfl, rfl⟩
    obtain ⟨rfl, rfl⟩ := hnr
    simp only [List.isEmpty_cons, Bool.false_eq_true, if_false, ne_eq, reduceCtorEq, not_false_eq_true,
      true_and]
    cases hg : parseI16Radix.go radix (c :: cs) 0 with
    | none =>
      have := hgo.2 hg
      have : ¬ foldFrom radix 0 (c :: cs) ≤ 32767 := by omega
      simp [this]
    | some n =>
      have hn := hgo.1 n hg
      subst hn
      by_cases hv : foldFrom radix 0 (c :: cs) ≤ 32767
      · have : RStd.inI16 (foldFrom radix 0 (c :: cs) : Int) = true := by
          simp only [RStd.inI16, Bool.and_eq_true, decide_eq_true_eq]; omega
        simp [hv, this]
        rfl
      · have : RStd.inI16 (foldFrom radix 0 (c :: cs) : Int) = false := by
          simp only [RStd.inI16, Bool.and_eq_false_iff, decide_eq_false_iff_not]; omega
        simp [hv, this]

/-! ### the reader's second half on a text that begins with `&` -/

theorem parseDecimal_amp (s : Str) : parseDecimal ('&' :: s) = none := by
  unfold parseDecimal
  simp [lower, takeDigits, isDigit]

theorem parseF64_amp (s : Str) : parseF64 ('&' :: s) = none := by
  simp [parseF64, parseFloat, parseDecimal_amp]

/-- the second half of `Val::from(&str)`: exponent letter D→E, one type suffix stripped,
    `str::parse::<f64>`, else the text itself -/
def fallback (string : Str) : Val :=
  let s := string.map (fun c => if c = 'D' then 'E' else if c = 'd' then 'e' else c)
  let s := match s.getLast? with
    | some '!' | some '#' | some '%' => s.dropLast
    | _ => s
  match parseF64 s with
  | some b => .dbl b
  | none => .str string

theorem fallback_amp (rest : Str) : fallback ('&' :: rest) = .str ('&' :: rest) := by
  unfold fallback
  simp only [List.map_cons]
  generalize rest.map (fun c => if c = 'D' then 'E' else if c = 'd' then 'e' else c) = t
  have key : ∃ t', (match (('&' : Char) :: t).getLast? with
      | some '!' | some '#' | some '%' => (('&' : Char) :: t).dropLast
      | _ => ('&' :: t)) = '&' :: t' := by
    cases t with
    | nil => exact ⟨[], by decide⟩
    | cons x xs =>
      split
      · exact ⟨(x :: xs).dropLast, rfl⟩
      · exact ⟨(x :: xs).dropLast, rfl⟩
      · exact ⟨(x :: xs).dropLast, rfl⟩
      · exact ⟨x :: xs, rfl⟩
  obtain ⟨t', ht⟩ := key
  simp only [show (if ('&' : Char) = 'D' then 'E' else if ('&' : Char) = 'd' then 'e' else '&') = '&' from by decide]
  rw [ht, parseF64_amp]

/-- the shape of the reader on `&` + one more character -/
theorem ofStr_amp (c : Char) (r : Str) :
    Val.ofStr ('&' :: c :: r) =
      match (if c = 'H' || c = 'h' then (parseI16Radix r 16).map Val.int
             else (parseI16Radix (c :: r) 8).map Val.int) with
      | some v => v
      | none => fallback ('&' :: c :: r) := rfl

theorem ofStr_amp_nil : Val.ofStr ['&'] = .str ['&'] := by decide

end HexVal
end Basic
