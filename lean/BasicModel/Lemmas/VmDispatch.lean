import BasicModel.Model.Runtime
import BasicModel.Lemmas.C17
/-
  The operator part of the VM's dispatch (`Runtime.step`), read off the `match` on the opcode:
  which `Ops.*` function each operator opcode applies (`vmBinary`, `vmUnary`), and the lemma that
  `step` on such an opcode is exactly `pop2Push` / `pop1Push` of that function.
-/
namespace Basic
namespace Lemmas.VmDispatch
open Basic.Runtime
open Basic.Lemmas.C17 (run_pop_push run_push_room)

/-! ### the `RM` monad on an explicit state -/

theorem rr_bind {α β} (x : RM α) (f : α → RM β) (s : Runtime) :
    (x >>= f).run.run s = (match x.run.run s with
      | (.ok a, s') => (f a).run.run s'
      | (.error e, s') => (.error e, s')) := by
  simp only [ExceptT.run_bind, StateT.run_bind]
  rcases x.run.run s with ⟨r, s'⟩
  cases r <;> rfl

theorem rr_get (s : Runtime) : (get : RM Runtime).run.run s = (.ok s, s) := rfl
theorem rr_set (s s' : Runtime) : (set s' : RM PUnit).run.run s = (.ok ⟨⟩, s') := rfl
theorem rr_pure {α} (a : α) (s : Runtime) : (pure a : RM α).run.run s = (.ok a, s) := rfl

/-- the binary operator opcodes and the function `Runtime.step` applies for each -/
def vmBinary : Opcode → Option (Val → Val → Res Val)
  | .pow => some Ops.power | .mul => some Ops.multiply | .div => some Ops.divide
  | .divInt => some Ops.divint | .mod => some Ops.remainder | .add => some Ops.sum
  | .sub => some Ops.subtract | .eq => some Ops.equal | .notEq => some Ops.notEqual
  | .lt => some Ops.less | .ltEq => some Ops.lessEqual | .gt => some Ops.greater
  | .gtEq => some Ops.greaterEqual | .and => some Ops.and | .or => some Ops.or
  | .xor => some Ops.xor | .imp => some Ops.imp | .eqv => some Ops.eqv
  | _ => none

/-- the unary operator opcodes -/
def vmUnary : Opcode → Option (Val → Res Val)
  | .neg => some Ops.negate
  | .not => some Ops.not
  | _ => none

/-- `step` on a binary operator opcode (trace off): advance the pc, pop two, apply, push -/
theorem step_binary (env : Env) (hie : Bool) (s : Runtime) (oc : Opcode) (f : Val → Val → Res Val)
    (htr : s.tron = false) (hop : s.program.link.ops[s.pc]? = some oc) (hf : vmBinary oc = some f) :
    (step env hie).run.run s =
      ((do pop2Push f; pure Step.continue : RM Step).run.run { s with pc := s.pc + 1 }) := by
  cases oc <;> simp only [vmBinary, reduceCtorEq, Option.some.injEq] at hf <;> subst hf <;>
  · unfold step
    simp only [rr_bind, rr_get, htr, Bool.false_eq_true, if_false, rr_pure, hop, rr_set]

/-- `step` on a unary operator opcode (trace off): advance the pc, pop one, apply, push -/
theorem step_unary (env : Env) (hie : Bool) (s : Runtime) (oc : Opcode) (f : Val → Res Val)
    (htr : s.tron = false) (hop : s.program.link.ops[s.pc]? = some oc) (hf : vmUnary oc = some f) :
    (step env hie).run.run s =
      ((do pop1Push f; pure Step.continue : RM Step).run.run { s with pc := s.pc + 1 }) := by
  cases oc <;> simp only [vmUnary, reduceCtorEq, Option.some.injEq] at hf <;> subst hf <;>
  · unfold step
    simp only [rr_bind, rr_get, htr, Bool.false_eq_true, if_false, rr_pure, hop, rr_set]

theorem rr_liftE_ok {α} (a : α) (s : Runtime) : (liftE (.ok a) : RM α).run.run s = (.ok a, s) := rfl
theorem rr_liftE_error {α} (e : Error) (s : Runtime) :
    (liftE (.error e) : RM α).run.run s = (.error e, s) := rfl

/-- on the stack: with `a` below `b` on top, a binary operator opcode replaces both by `f a b`
    (left operand = the deeper value), or raises `f`'s error with both operands popped -/
theorem step_binary_stack (env : Env) (hie : Bool) (s : Runtime) (oc : Opcode)
    (f : Val → Val → Res Val) (st : Array Val) (a b : Val)
    (htr : s.tron = false) (hop : s.program.link.ops[s.pc]? = some oc) (hf : vmBinary oc = some f)
    (hst : s.stack = (st.push a).push b) (hroom : st.size + 1 ≤ Gen.stackMaxLen) :
    (step env hie).run.run s =
      match f a b with
      | .ok v => (.ok .continue, { s with pc := s.pc + 1, stack := st.push v })
      | .error e => (.error e, { s with pc := s.pc + 1, stack := st }) := by
  rw [step_binary env hie s oc f htr hop hf]
  simp only [pop2Push, pop2, rr_bind,
    run_pop_push b (st.push a) { s with pc := s.pc + 1 } hst,
    run_pop_push a st { s with pc := s.pc + 1, stack := st.push a } rfl, rr_pure]
  cases hfa : f a b with
  | ok v =>
    simp only [rr_liftE_ok]
    rw [run_push_room v _ hroom]
  | error e => simp only [rr_liftE_error]

theorem step_unary_stack (env : Env) (hie : Bool) (s : Runtime) (oc : Opcode)
    (f : Val → Res Val) (st : Array Val) (a : Val)
    (htr : s.tron = false) (hop : s.program.link.ops[s.pc]? = some oc) (hf : vmUnary oc = some f)
    (hst : s.stack = st.push a) (hroom : st.size + 1 ≤ Gen.stackMaxLen) :
    (step env hie).run.run s =
      match f a with
      | .ok v => (.ok .continue, { s with pc := s.pc + 1, stack := st.push v })
      | .error e => (.error e, { s with pc := s.pc + 1, stack := st }) := by
  rw [step_unary env hie s oc f htr hop hf]
  simp only [pop1Push, rr_bind, run_pop_push a st { s with pc := s.pc + 1 } hst, rr_pure]
  cases hfa : f a with
  | ok v =>
    simp only [rr_liftE_ok]
    rw [run_push_room v _ hroom]
  | error e => simp only [rr_liftE_error]

end Lemmas.VmDispatch
end Basic
