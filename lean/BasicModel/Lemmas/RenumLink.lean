import BasicModel.Lemmas.RenumAcceptStmt
/-
  RENUM and the compiler, part 9: the program under construction and the linker.

  At program level the keys of the symbol table are renumbered too (`mapSyms`).  `K` is the set of
  line numbers of the listing together with the mark 65530 of the direct segment; the renumbering
  must be strictly monotone on it (`LineMap`): then `symInsert` commutes with it and lookups agree.
-/
namespace Basic
namespace RenumRel
open Link Codegen

variable {φ : Nat → Nat} {K : Nat → Prop}

variable (φ K) in
/-- what the renumbering must satisfy: strictly monotone on the line numbers of the listing and the
    mark of the direct segment, which stays -/
structure LineMap : Prop where
  mono : ∀ i j, K i → K j → i < j → φ i < φ j
  top : K (Gen.maxLineNumber + 1)
  topFix : φ (Gen.maxLineNumber + 1) = Gen.maxLineNumber + 1
  bound : ∀ k, K k → (φ k ≤ Gen.maxLineNumber ↔ k ≤ Gen.maxLineNumber)

variable (K) in
/-- a key of the program's symbol table: a local label or a line of the listing -/
def KeyOK (s : Symbol) : Prop := s < 0 ∨ ∃ n : Nat, s = (n : Int) ∧ K n

variable (φ) in
def mapSyms (m : List (Symbol × (Nat × Nat))) : List (Symbol × (Nat × Nat)) := m.map fun p => (symMap φ p.1, p.2)

theorem symMap_lt (hm : LineMap φ K) {s t : Symbol} (hs : KeyOK K s) (ht : KeyOK K t) (h : s < t) :
    symMap φ s < symMap φ t := by
  rcases hs with hs | ⟨n, rfl, hn⟩
  · rw [symMap_neg φ hs]
    rcases ht with ht | ⟨m, rfl, _⟩
    · rw [symMap_neg φ ht]; exact h
    · rw [symMap_nat]; simp only [Symbol] at *; omega
  · rcases ht with ht | ⟨m, rfl, hk⟩
    · simp only [Symbol] at *; omega
    · rw [symMap_nat, symMap_nat]
      have := hm.mono n m hn hk (by simp only [Symbol] at h; omega)
      simp only [Symbol]; omega

theorem symMap_lt_iff (hm : LineMap φ K) {s t : Symbol} (hs : KeyOK K s) (ht : KeyOK K t) :
    symMap φ s < symMap φ t ↔ s < t := by
  constructor
  · intro h
    by_cases h1 : s < t
    · exact h1
    · by_cases h2 : s = t
      · subst h2; simp only [Symbol] at *; omega
      · have := symMap_lt hm ht hs (by simp only [Symbol] at *; omega)
        simp only [Symbol] at *; omega
  · exact symMap_lt hm hs ht

theorem symMap_eq_iff (hm : LineMap φ K) {s t : Symbol} (hs : KeyOK K s) (ht : KeyOK K t) :
    symMap φ s = symMap φ t ↔ s = t := by
  constructor
  · intro h
    by_cases h1 : s < t
    · have := symMap_lt hm hs ht h1; simp only [Symbol] at *; omega
    · by_cases h2 : t < s
      · have := symMap_lt hm ht hs h2; simp only [Symbol] at *; omega
      · simp only [Symbol] at *; omega
  · intro h; rw [h]

theorem symInsert_map (hm : LineMap φ K) {k : Symbol} (hk : KeyOK K k) (v : Nat × Nat) :
    ∀ {m : List (Symbol × (Nat × Nat))}, (∀ p ∈ m, KeyOK K p.1) →
    symInsert (symMap φ k) v (mapSyms φ m) = mapSyms φ (symInsert k v m)
  | [], _ => rfl
  | (k', v') :: rest, h => by
    have hk' : KeyOK K k' := h (k', v') List.mem_cons_self
    show symInsert (symMap φ k) v ((symMap φ k', v') :: mapSyms φ rest) = _
    simp only [symInsert]
    by_cases h1 : k < k'
    · rw [if_pos h1, if_pos ((symMap_lt_iff hm hk hk').2 h1)]; rfl
    · rw [if_neg h1, if_neg (fun h => h1 ((symMap_lt_iff hm hk hk').1 h))]
      by_cases h2 : k = k'
      · rw [if_pos h2, if_pos ((symMap_eq_iff hm hk hk').2 h2)]; rfl
      · rw [if_neg h2, if_neg (fun h => h2 ((symMap_eq_iff hm hk hk').1 h))]
        rw [symInsert_map hm hk v (fun p hp => h p (List.mem_cons_of_mem _ hp))]
        rfl

theorem mem_symInsert_keyOK {k : Symbol} (hk : KeyOK K k) {v : Nat × Nat} {m : List (Symbol × (Nat × Nat))}
    (h : ∀ p ∈ m, KeyOK K p.1) : ∀ p ∈ symInsert k v m, KeyOK K p.1 := by
  intro p hp
  rcases mem_symInsert_iff hp with rfl | hp
  · exact hk
  · exact h p hp

/-- lookups agree for local labels and lines of the listing -/
theorem lookup_mapSyms (hm : LineMap φ K) {s : Symbol} (hs : KeyOK K s) :
    ∀ {m : List (Symbol × (Nat × Nat))}, (∀ p ∈ m, KeyOK K p.1) → (mapSyms φ m).lookup (symMap φ s) = m.lookup s
  | [], _ => rfl
  | (k, v) :: rest, h => by
    have hk : KeyOK K k := h (k, v) List.mem_cons_self
    show List.lookup (symMap φ s) ((symMap φ k, v) :: mapSyms φ rest) = _
    rw [lookup_cons_eq, lookup_cons_eq]
    by_cases h1 : s = k
    · rw [if_pos h1, if_pos ((symMap_eq_iff hm hs hk).2 h1)]
    · rw [if_neg h1, if_neg (fun h => h1 ((symMap_eq_iff hm hs hk).1 h))]
      exact lookup_mapSyms hm hs (fun p hp => h p (List.mem_cons_of_mem _ hp))

variable (φ K) in
/-- the program's link object: as for fragments, but the keys of the symbol table are renumbered -/
structure ProgLinkRel (l l' : Link) : Prop extends LinkCore φ l l' where
  symbols : l'.symbols = mapSyms φ l.symbols
  keys : ∀ p ∈ l.symbols, KeyOK K p.1

theorem ProgLinkRel.empty : ProgLinkRel φ K {} {} := ⟨LinkCore.empty, rfl, fun _ h => nomatch h⟩

theorem ProgLinkRel.size {l l' : Link} (h : ProgLinkRel φ K l l') : l'.ops.size = l.ops.size := h.toLinkCore.size

theorem ProgLinkRel.push {l l' : Link} (h : ProgLinkRel φ K l l') (op : Opcode) :
    ProgLinkRel φ K (l.push op).1 (l'.push op).1 ∧ (l'.push op).2 = (l.push op).2 :=
  ⟨⟨(h.toLinkCore.push op).1, h.symbols, h.keys⟩, (h.toLinkCore.push op).2⟩

theorem ProgLinkRel.pushSymbol (hm : LineMap φ K) {l l' : Link} (h : ProgLinkRel φ K l l') {n : Nat} (hn : K n) :
    ProgLinkRel φ K (l.pushSymbol n) (l'.pushSymbol (φ n)) := by
  have hk : KeyOK K (n : Int) := .inr ⟨n, rfl, hn⟩
  refine ⟨⟨h.cur, h.curNeg, h.ops, h.data, h.dataPos, h.directSet, h.unlinked, h.whiles⟩, ?_, ?_⟩
  · show symInsert ((φ n : Nat) : Int) (l'.ops.size, l'.data.size) l'.symbols = mapSyms φ (symInsert n (l.ops.size, l.data.size) l.symbols)
    rw [h.size, h.data, h.symbols, ← symMap_nat, symInsert_map hm hk _ h.keys]
  · exact mem_symInsert_keyOK hk h.keys

/-! ### `append` of a fragment to the program -/

theorem foldl_symInsert_map (hm : LineMap φ K) {so : Int} (hso : so ≤ 0) (oo dd : Nat)
    (bs : List (Symbol × (Nat × Nat))) (hb : ∀ p ∈ bs, p.1 < 0) :
    ∀ {m : List (Symbol × (Nat × Nat))}, (∀ p ∈ m, KeyOK K p.1) →
    bs.foldl (fun m p => symInsert (rebase so p.1) (p.2.1 + oo, p.2.2 + dd) m) (mapSyms φ m) =
      mapSyms φ (bs.foldl (fun m p => symInsert (rebase so p.1) (p.2.1 + oo, p.2.2 + dd) m) m) ∧
    ∀ p ∈ bs.foldl (fun m p => symInsert (rebase so p.1) (p.2.1 + oo, p.2.2 + dd) m) m, KeyOK K p.1 := by
  induction bs with
  | nil => intro m hmk; exact ⟨rfl, hmk⟩
  | cons b rest ih =>
    intro m hmk
    have hb0 : b.1 < 0 := hb b List.mem_cons_self
    have hneg : rebase so b.1 < 0 := by unfold rebase; rw [if_pos hb0]; simp only [Symbol] at *; omega
    have hk : KeyOK K (rebase so b.1) := .inl hneg
    simp only [List.foldl_cons]
    have e : symInsert (rebase so b.1) (b.2.1 + oo, b.2.2 + dd) (mapSyms φ m) =
        mapSyms φ (symInsert (rebase so b.1) (b.2.1 + oo, b.2.2 + dd) m) := by
      have := symInsert_map hm hk (b.2.1 + oo, b.2.2 + dd) hmk
      rwa [symMap_neg φ hneg] at this
    rw [e]
    exact ih (fun p hp => hb p (List.mem_cons_of_mem _ hp)) (mem_symInsert_keyOK hk hmk)

theorem appendSymbols_prog (hm : LineMap φ K) {a a' b b' : Link} (ha : ProgLinkRel φ K a a') (hb : FragRel φ b b')
    (hn : ∀ p ∈ b.symbols, p.1 < 0) :
    appendSymbols a' b' = mapSyms φ (appendSymbols a b) ∧ ∀ p ∈ appendSymbols a b, KeyOK K p.1 := by
  unfold appendSymbols
  rw [ha.symbols, hb.symbols, ha.cur, ha.size, ha.data]
  exact foldl_symInsert_map hm ha.curNeg _ _ _ hn ha.keys

theorem ProgLinkRel.append (hm : LineMap φ K) {a a' b b' : Link} (ha : ProgLinkRel φ K a a') (hb : FragRel φ b b')
    (hn : ∀ p ∈ b.symbols, p.1 < 0) :
    ProgLinkRel φ K (a.append b).1 (a'.append b').1 ∧ (a'.append b').2 = (a.append b).2 := by
  have e1 : (a'.directSet && !b'.data.isEmpty) = (a.directSet && !b.data.isEmpty) := by rw [ha.directSet, hb.data]
  have e2 : a'.ops.size + b'.ops.size = a.ops.size + b.ops.size := by rw [ha.size, hb.size]
  have e3 : a'.data.size + b'.data.size = a.data.size + b.data.size := by rw [ha.data, hb.data]
  have hs := appendSymbols_prog hm ha hb hn
  rw [append_eq a' b', append_eq a b, e1, e2, e3]
  split
  · exact ⟨ha, rfl⟩
  · split
    · exact ⟨⟨ha.toLinkCore.appended_noData hb.toLinkCore, hs.1, hs.2⟩, rfl⟩
    · exact ⟨⟨ha.toLinkCore.appended hb.toLinkCore, hs.1, hs.2⟩, rfl⟩

/-- `codegen`: all statement fragments appended -/
theorem appendAll_rel (hm : LineMap φ K) {frags frags' : List (Col × Link)} (hf : All₂ (EntryRel φ) frags frags')
    (hn : ∀ x ∈ frags, ∀ p ∈ x.2.symbols, p.1 < 0) :
    ∀ {l l' : Link} {errs errs' : List Error}, ProgLinkRel φ K l l' → All₂ ErrRel errs errs' →
    ProgLinkRel φ K (codegen.appendAll frags l errs).1 (codegen.appendAll frags' l' errs').1 ∧
    All₂ ErrRel (codegen.appendAll frags l errs).2 (codegen.appendAll frags' l' errs').2 := by
  induction hf with
  | nil => intro l l' errs errs' hl he; exact ⟨hl, he⟩
  | @cons x x' rest rest' hx _ ih =>
    intro l l' errs errs' hl he
    rcases x with ⟨c, f⟩
    rcases x' with ⟨c', f'⟩
    have ha := hl.append hm hx (hn (c, f) List.mem_cons_self)
    unfold codegen.appendAll
    generalize l.append f = r at ha
    generalize l'.append f' = r' at ha
    rcases r with ⟨l1, r1⟩
    rcases r' with ⟨l1', r1'⟩
    dsimp only at ha ⊢
    obtain ⟨h1, rfl⟩ := ha
    cases r1' with
    | ok u => exact ih (fun y hy => hn y (List.mem_cons_of_mem _ hy)) h1 he
    | error e => exact ⟨h1, he.append (.cons (ErrRel.refl e) .nil)⟩

theorem codegen_rel (hm : LineMap φ K) {ast ast' : List Stmt} (h : StmtsRel φ ast ast') {l l' : Link}
    (hl : ProgLinkRel φ K l l') :
    ProgLinkRel φ K (codegen l ast).1 (codegen l' ast').1 ∧ All₂ ErrRel (codegen l ast).2 (codegen l' ast').2 := by
  unfold codegen
  have hf := fragments_rel h
  exact appendAll_rel hm hf.1 (fun x hx => (fragments_negSyms ast x hx).2) hl hf.2

end RenumRel
end Basic
