import BasicModel.Model.Parse
/-
  Monotonicity of the expression parser in its fuel (DESIGN Appendix A, `descend_mono / loop_mono`):
  a run of `descend` / `binLoop` / `exprList` that succeeds with some fuel succeeds with the same
  result with any larger fuel.  (Running out of fuel is the only effect of the fuel parameter.)
-/
namespace Basic
namespace Lemmas.ParseFuel
open Parse

/-- every successful run of `x` is a successful run of `y` with the same result -/
def Le {α} (x y : PM α) : Prop := ∀ st r, x.run st = .ok r → y.run st = .ok r

theorem Le.refl {α} (x : PM α) : Le x x := fun _ _ h => h

theorem Le.bind {α β} {x x' : PM α} {k k' : α → PM β} (hx : Le x x') (hk : ∀ a, Le (k a) (k' a)) :
    Le (x >>= k) (x' >>= k') := by
  intro st r h
  simp only [StateT.run_bind] at h ⊢
  cases hxs : x.run st with
  | error e => rw [hxs] at h; cases h
  | ok p =>
    rw [hxs] at h
    rw [hx st p hxs]
    exact hk p.1 p.2 r h

theorem Le.outOfFuel {α} (y : PM α) : Le (outOfFuel : PM α) y := by
  intro st r h; cases h

theorem Le.ite {α} {c : Prop} [Decidable c] {x x' y y' : PM α} (hx : Le x x') (hy : Le y y') :
    Le (if c then x else y) (if c then x' else y') := by
  split <;> assumption

theorem descend_step (f f' : Nat)
    (hd : ∀ vm p, Le (descend f vm p) (descend f' vm p))
    (hb : ∀ vm p l, Le (binLoop f vm p l) (binLoop f' vm p l))
    (he : ∀ vm, Le (exprList f vm) (exprList f' vm)) :
    (∀ vm p, Le (descend (f+1) vm p) (descend (f'+1) vm p)) := by
  intro vm p
  simp only [descend]
  refine Le.bind (Le.bind (Le.refl _) ?_) (fun l => hb vm p l)
  intro t
  rcases t with _ | (_|_|_|_|op|_|_|_|_|_|_)
  all_goals try exact Le.refl _
  · -- operator
    cases op
    all_goals try exact Le.refl _
    · exact hd _ _
    · exact Le.bind (Le.refl _) (fun c => Le.bind (hd _ _) (fun _ => Le.refl _))
    · exact Le.bind (Le.refl _) (fun c => Le.bind (hd _ _) (fun _ => Le.refl _))
  · -- ident
    refine Le.bind (Le.refl _) (fun c => Le.bind (Le.refl _) (fun t => ?_))
    rcases t with _ | (_|_|_|_|op|_|_|_|_|_|_)
    all_goals try exact Le.refl _
    refine Le.bind (Le.refl _) (fun _ => Le.bind ?_ (fun _ => Le.refl _))
    refine Le.bind (Le.refl _) (fun b => ?_)
    exact Le.ite (Le.refl _) (Le.bind (he _) (fun _ => Le.refl _))
  · -- lparen
    exact Le.bind (hd _ _) (fun _ => Le.refl _)

theorem binLoop_step (f f' : Nat)
    (hd : ∀ vm p, Le (descend f vm p) (descend f' vm p))
    (hb : ∀ vm p l, Le (binLoop f vm p l) (binLoop f' vm p l)) :
    (∀ vm p l, Le (binLoop (f+1) vm p l) (binLoop (f'+1) vm p l)) := by
  intro vm p l
  simp only [binLoop]
  refine Le.bind (Le.refl _) (fun t => ?_)
  rcases t with _ | (_|_|_|_|op|_|_|_|_|_|_)
  all_goals try exact Le.refl _
  refine Le.ite (Le.refl _) (Le.bind (Le.refl _) (fun _ => Le.bind (Le.refl _) (fun c =>
    Le.bind (hd _ _) (fun r => ?_))))
  cases BinOp.ofOperator op with
  | none => exact Le.refl _
  | some b => exact hb _ _ _

theorem exprList_step (f f' : Nat)
    (hd : ∀ vm p, Le (descend f vm p) (descend f' vm p))
    (he : ∀ vm, Le (exprList f vm) (exprList f' vm)) :
    (∀ vm, Le (exprList (f+1) vm) (exprList (f'+1) vm)) := by
  intro vm
  simp only [exprList]
  refine Le.bind (hd _ _) (fun e => Le.bind (Le.refl _) (fun b => ?_))
  exact Le.ite (Le.bind (he _) (fun _ => Le.refl _)) (Le.refl _)

theorem mono_succ (f : Nat) :
    (∀ vm p, Le (descend f vm p) (descend (f+1) vm p)) ∧
    (∀ vm p l, Le (binLoop f vm p l) (binLoop (f+1) vm p l)) ∧
    (∀ vm, Le (exprList f vm) (exprList (f+1) vm)) := by
  induction f with
  | zero =>
    refine ⟨fun vm p => ?_, fun vm p l => ?_, fun vm => ?_⟩
    · rw [descend]; exact Le.outOfFuel _
    · rw [binLoop]; exact Le.outOfFuel _
    · rw [exprList]; exact Le.outOfFuel _
  | succ f ih =>
    exact ⟨descend_step f (f+1) ih.1 ih.2.1 ih.2.2, binLoop_step f (f+1) ih.1 ih.2.1,
      exprList_step f (f+1) ih.1 ih.2.2⟩

theorem le_trans' {α} {x y z : PM α} (h1 : Le x y) (h2 : Le y z) : Le x z :=
  fun st r h => h2 st r (h1 st r h)

theorem mono_le {f f' : Nat} (h : f ≤ f') :
    (∀ vm p, Le (descend f vm p) (descend f' vm p)) ∧
    (∀ vm p l, Le (binLoop f vm p l) (binLoop f' vm p l)) ∧
    (∀ vm, Le (exprList f vm) (exprList f' vm)) := by
  induction h with
  | refl => exact ⟨fun _ _ => Le.refl _, fun _ _ _ => Le.refl _, fun _ => Le.refl _⟩
  | @step m _ ih =>
    have s := mono_succ m
    exact ⟨fun vm p => le_trans' (ih.1 vm p) (s.1 vm p),
      fun vm p l => le_trans' (ih.2.1 vm p l) (s.2.1 vm p l),
      fun vm => le_trans' (ih.2.2 vm) (s.2.2 vm)⟩

end Lemmas.ParseFuel
end Basic
