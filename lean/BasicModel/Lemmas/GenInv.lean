import BasicModel.Model.Program
import BasicModel.Lemmas.Link
/-
  A Hoare calculus for the generator functions of `Model/Codegen.lean` with the invariants as
  parameters (`PH I m Q`), in the style of `Lemmas/GenNeg.lean` / `Lemmas/GenBound.lean`, and the
  walk through every generator function once and for all (`ph_genStatement`, `ph_genExpression`,
  `ph_genVariable`).  Chain-neutral: it imports only the model and `Lemmas/Link.lean` (which both
  lemma chains share), and lives in its own namespace `Basic.DataOrder`.

  Instances: `Lemmas/DataOrder.lean` — "expression fragments carry no data / plain statements leave
  data and statement stack alone" (`kdInv`) and its weak form (`wkInv`); `Lemmas/WhileMarks.lean` —
  "every WHILE/WEND mark sits on its branch" (`wInv`) and "every pending reference lies below the end
  of the code" (`rInv`).
-/
namespace Basic
namespace DataOrder
open Link Codegen
variable {α β : Type}

/-! ### run lemmas for `GM` (own names: the file is imported by both lemma chains) -/

theorem d_bind (m : GM α) (f : α → GM β) (g : GState) :
    (m >>= f).run.run g =
      match m.run.run g with
      | (.ok a, g') => (f a).run.run g'
      | (.error e, g') => (.error e, g') := by
  simp only [bind, ExceptT.bind, ExceptT.mk, ExceptT.bindCont, StateT.bind, ExceptT.run, StateT.run]
  generalize m g = x
  rcases x with ⟨r, g'⟩
  cases r <;> rfl

theorem d_pure (a : α) (g : GState) : (pure a : GM α).run.run g = (.ok a, g) := rfl
theorem d_throw (e : Error) (g : GState) : (throw e : GM α).run.run g = (.error e, g) := rfl
theorem d_get (g : GState) : (get : GM GState).run.run g = (.ok g, g) := rfl
theorem d_set (t g : GState) : (set t : GM Unit).run.run g = (.ok (), t) := rfl
theorem d_modify (f : GState → GState) (g : GState) : (modify f : GM Unit).run.run g = (.ok (), f g) := rfl
theorem d_liftE (r : Except Error α) (g : GState) : (liftE r : GM α).run.run g = (r, g) := by
  cases r <;> rfl

theorem d_bind_ok {m : GM α} {f : α → GM β} {g g' : GState} {a : α} (h : m.run.run g = (.ok a, g')) :
    (m >>= f).run.run g = (f a).run.run g' := by rw [d_bind, h]

theorem d_bind_error {m : GM α} {f : α → GM β} {g g' : GState} {e : Error} (h : m.run.run g = (.error e, g')) :
    (m >>= f).run.run g = (.error e, g') := by rw [d_bind, h]

/-! ### the calculus -/

/-- the invariants: `C` of the fragment under construction, `E` of the fragments on the variable
    and expression stacks, `S` of those on the statement stack, `K` of the statement stack as a whole -/
structure Inv where
  C : Link → Prop
  E : Link → Prop
  S : Link → Prop
  K : Array (Col × Link) → Prop

/-- while an expression or a variable is generated, the fragment under construction is a future
    stack entry -/
def Inv.ex (I : Inv) : Inv := { I with C := I.E }

structure PGood (I : Inv) (g : GState) : Prop where
  cur : I.C g.cur
  var : ∀ v ∈ g.var.toList, I.E v.link
  expr : ∀ x ∈ g.expr.toList, I.E x.2
  stmt : ∀ x ∈ g.stmt.toList, I.S x.2
  stk : I.K g.stmt

theorem PGood.setCur {I : Inv} {g : GState} (h : PGood I g) {l : Link} (hl : I.C l) : PGood I { g with cur := l } :=
  ⟨hl, h.var, h.expr, h.stmt, h.stk⟩

/-- what the primitives must keep -/
structure Ok (I : Inv) : Prop where
  push : ∀ l op, I.C l → I.C (l.push op).1
  nextSymbol : ∀ l, I.C l → I.C l.nextSymbol.1
  pushSymbol : ∀ l s, I.C l → I.C (l.pushSymbol s)
  append : ∀ a b, I.C a → I.E b → I.C (a.append b).1

/-- what the two WHILE/WEND marks (statements only) must keep -/
structure MarkOk (I : Inv) : Prop where
  markJump : ∀ (l : Link) k c s, I.C l →
    I.C (({ l with whiles := l.whiles ++ [(k, c, l.ops.size, s)] } : Link).push (.jump 0)).1
  markIfNot : ∀ (l : Link) k c s, I.C l →
    I.C (({ l with whiles := l.whiles ++ [(k, c, l.ops.size, s)] } : Link).push (.ifNot 0)).1

abbrev T {α : Type} : α → Prop := fun _ => True

/-- `PH I m Q`: `m` keeps the generator state good, and its successful results satisfy `Q` -/
structure PH (I : Inv) (m : GM α) (Q : α → Prop) : Prop where
  run : ∀ g, PGood I g → PGood I (m.run.run g).2 ∧ ∀ a, (m.run.run g).1 = .ok a → Q a

variable {I : Inv}

theorem PH.ret {Q : α → Prop} {a : α} (h : Q a) : PH I (pure a : GM α) Q :=
  ⟨fun _ hg => ⟨hg, fun b hb => by cases hb; exact h⟩⟩

theorem PH.thr {Q : α → Prop} (e : Error) : PH I (throw e : GM α) Q :=
  ⟨fun _ hg => ⟨hg, fun b hb => by cases hb⟩⟩

theorem PH.lift (r : Except Error α) : PH I (liftE r : GM α) T :=
  ⟨fun g hg => by rw [d_liftE]; exact ⟨hg, fun _ _ => trivial⟩⟩

theorem PH.mod {f : GState → GState} (h : ∀ g, PGood I g → PGood I (f g)) : PH I (modify f : GM Unit) T :=
  ⟨fun g hg => ⟨h g hg, fun _ _ => trivial⟩⟩

theorem PH.weaken {Q Q' : α → Prop} {m : GM α} (h : PH I m Q) (hq : ∀ a, Q a → Q' a) : PH I m Q' :=
  ⟨fun g hg => ⟨(h.run g hg).1, fun a ha => hq a ((h.run g hg).2 a ha)⟩⟩

theorem PH.any {Q : α → Prop} {m : GM α} (h : PH I m Q) : PH I m T := h.weaken fun _ _ => trivial

theorem PH.seq {Q : α → Prop} {Q' : β → Prop} {m : GM α} {f : α → GM β}
    (hm : PH I m Q) (hf : ∀ a, Q a → PH I (f a) Q') : PH I (m >>= f) Q' := by
  constructor
  intro g hg
  have h1 := hm.run g hg
  rw [d_bind]
  rcases h : m.run.run g with ⟨r, g'⟩
  rw [h] at h1
  cases r with
  | ok a => exact (hf a (h1.2 a rfl)).run g' h1.1
  | error e => exact ⟨h1.1, fun b hb => by cases hb⟩

theorem PH.seq_any {Q' : β → Prop} {m : GM α} {f : α → GM β}
    (hm : PH I m T) (hf : ∀ a, PH I (f a) Q') : PH I (m >>= f) Q' :=
  PH.seq hm fun a _ => hf a

theorem PH.forLoop {γ : Type} {P : γ → Prop} (l : List γ) (init : β) (f : γ → β → GM (ForInStep β))
    (hl : ∀ a ∈ l, P a) (hf : ∀ a b, P a → PH I (f a b) T) : PH I (forIn l init f) T := by
  induction l generalizing init with
  | nil => exact PH.ret trivial
  | cons a as ih =>
    rw [List.forIn_cons]
    refine PH.seq_any (hf a init (hl a List.mem_cons_self)) ?_
    intro r
    cases r with
    | done b => exact PH.ret trivial
    | yield b => exact ih b (fun x hx => hl x (List.mem_cons_of_mem _ hx))

/-! ### the primitives -/

theorem mem_of_back? {γ : Type} {a : Array γ} {x : γ} (h : a.back? = some x) : x ∈ a.toList := by
  rw [Array.back?_eq_getElem?] at h
  exact Array.mem_toList_iff.2 (Array.mem_of_getElem? h)

theorem mem_of_mem_pop {γ : Type} {a : Array γ} {x : γ} (h : x ∈ a.pop.toList) : x ∈ a.toList := by
  rw [Array.toList_pop] at h
  exact List.dropLast_subset _ h

theorem mem_of_mem_extract {γ : Type} {a : Array γ} {i j : Nat} {x : γ} (h : x ∈ (a.extract i j).toList) :
    x ∈ a.toList := by
  rw [Array.toList_extract] at h
  exact List.mem_of_mem_drop (List.mem_of_mem_take h)

theorem mem_push_toList {γ : Type} {a : Array γ} {x y : γ} (h : y ∈ (a.push x).toList) :
    y ∈ a.toList ∨ y = x := by
  rw [Array.toList_push, List.mem_append, List.mem_singleton] at h
  exact h

theorem ph_popExpr : PH I popExpr (fun x => I.E x.2) := by
  constructor
  intro g hg
  simp only [popExpr, d_bind, d_get]
  cases hb : g.expr.back? with
  | none => exact ⟨hg, fun a ha => by cases ha⟩
  | some x =>
    refine ⟨⟨hg.cur, hg.var, fun y hy => hg.expr y (mem_of_mem_pop hy), hg.stmt, hg.stk⟩, ?_⟩
    intro a ha
    cases ha
    exact hg.expr x (mem_of_back? hb)

theorem ph_popVar : PH I popVar (fun v => I.E v.link) := by
  constructor
  intro g hg
  simp only [popVar, d_bind, d_get]
  cases hb : g.var.back? with
  | none => exact ⟨hg, fun a ha => by cases ha⟩
  | some x =>
    refine ⟨⟨hg.cur, fun y hy => hg.var y (mem_of_mem_pop hy), hg.expr, hg.stmt, hg.stk⟩, ?_⟩
    intro a ha
    cases ha
    exact hg.var x (mem_of_back? hb)

theorem ph_popNExpr (n : Nat) : PH I (popNExpr n) (fun l => ∀ x ∈ l, I.E x.2) := by
  constructor
  intro g hg
  simp only [popNExpr, d_bind, d_get]
  split
  · exact ⟨hg, fun a ha => by cases ha⟩
  · refine ⟨⟨hg.cur, hg.var, fun y hy => hg.expr y (mem_of_mem_extract hy), hg.stmt, hg.stk⟩, ?_⟩
    intro a ha
    cases ha
    exact fun y hy => hg.expr y (mem_of_mem_extract hy)

theorem ph_popNVar (n : Nat) : PH I (popNVar n) (fun l => ∀ x ∈ l, I.E x.link) := by
  constructor
  intro g hg
  simp only [popNVar, d_bind, d_get]
  split
  · exact ⟨hg, fun a ha => by cases ha⟩
  · refine ⟨⟨hg.cur, fun y hy => hg.var y (mem_of_mem_extract hy), hg.expr, hg.stmt, hg.stk⟩, ?_⟩
    intro a ha
    cases ha
    exact fun y hy => hg.var y (mem_of_mem_extract hy)

/-- popping statement fragments (IF only) needs the stack invariant to survive it -/
def PopOk (I : Inv) : Prop := ∀ (st : Array (Col × Link)) k, I.K st → I.K (st.extract 0 k)

theorem ph_popNStmt (hK : PopOk I) (n : Nat) : PH I (popNStmt n) (fun l => ∀ x ∈ l, I.S x.2) := by
  constructor
  intro g hg
  simp only [popNStmt, d_bind, d_get]
  split
  · exact ⟨hg, fun a ha => by cases ha⟩
  · refine ⟨⟨hg.cur, hg.var, hg.expr, fun y hy => hg.stmt y (mem_of_mem_extract hy), hK _ _ hg.stk⟩, ?_⟩
    intro a ha
    cases ha
    exact fun y hy => hg.stmt y (mem_of_mem_extract hy)

theorem ph_lpush (hC : Ok I) (op : Opcode) : PH I (lpush op) T := by
  constructor
  intro g hg
  simp only [lpush, d_bind, d_get, d_set, d_liftE]
  exact ⟨hg.setCur (hC.push _ op hg.cur), fun _ _ => trivial⟩

theorem ph_lappend (hC : Ok I) (f : Link) (hf : I.E f) : PH I (lappend f) T := by
  constructor
  intro g hg
  simp only [lappend, d_bind, d_get, d_set, d_liftE]
  exact ⟨hg.setCur (hC.append _ f hg.cur hf), fun _ _ => trivial⟩

/-- appending a statement fragment (the branches of IF) -/
def AppS (I : Inv) : Prop := ∀ a b, I.C a → I.S b → I.C (a.append b).1

theorem ph_lappendS (hS : AppS I) (f : Link) (hf : I.S f) : PH I (lappend f) T := by
  constructor
  intro g hg
  simp only [lappend, d_bind, d_get, d_set, d_liftE]
  exact ⟨hg.setCur (hS _ f hg.cur hf), fun _ _ => trivial⟩

/-- an invariant of the fragment under construction that any `append` keeps -/
def AppAny (I : Inv) : Prop := ∀ a b, I.C a → I.C (a.append b).1

theorem ph_lappendAny (hA : AppAny I) (f : Link) : PH I (lappend f) T := by
  constructor
  intro g hg
  simp only [lappend, d_bind, d_get, d_set, d_liftE]
  exact ⟨hg.setCur (hA _ f hg.cur), fun _ _ => trivial⟩

theorem ph_lnextSymbol (hC : Ok I) : PH I lnextSymbol T := by
  constructor
  intro g hg
  simp only [lnextSymbol, d_bind, d_get, d_set, d_pure]
  exact ⟨hg.setCur (l := g.cur.nextSymbol.1) (hC.nextSymbol _ hg.cur), fun _ _ => trivial⟩

theorem ph_lpushSymbol (hC : Ok I) (sym : Symbol) : PH I (lpushSymbol sym) T :=
  PH.mod fun _ hg => hg.setCur (hC.pushSymbol _ sym hg.cur)

/-- recording a pending reference keeps the invariant (not so for "reference addresses lie below the
    end of the code": the instruction the reference belongs to is pushed next) -/
def AddOk (I : Inv) : Prop := ∀ l c s, I.C l → I.C (l.addUnlinked c s)

theorem ph_laddUnlinked (hA : AddOk I) (c : Col) (sym : Symbol) : PH I (laddUnlinked c sym) T :=
  PH.mod fun _ hg => hg.setCur (hA _ c sym hg.cur)

theorem ph_lenVal (n : Nat) : PH I (lenVal n) T := PH.lift _

/-! ### the walk through a `do` block -/

syntax "ph_known" : tactic
macro_rules | `(tactic| ph_known) => `(tactic| assumption)
macro_rules | `(tactic| ph_known) => `(tactic| with_reducible exact ph_lpush (by assumption) _)
macro_rules | `(tactic| ph_known) => `(tactic| with_reducible exact ph_lappend (by assumption) _ (by assumption))
macro_rules | `(tactic| ph_known) => `(tactic| with_reducible exact ph_lappendS (by assumption) _ (by assumption))
macro_rules | `(tactic| ph_known) => `(tactic| with_reducible exact ph_lappendAny (by assumption) _)
macro_rules | `(tactic| ph_known) => `(tactic| with_reducible exact ph_lpushSymbol (by assumption) _)
macro_rules | `(tactic| ph_known) => `(tactic| with_reducible exact ph_laddUnlinked (by assumption) _ _)
macro_rules | `(tactic| ph_known) => `(tactic| with_reducible exact ph_lenVal _)
macro_rules | `(tactic| ph_known) => `(tactic| with_reducible exact ph_lnextSymbol (by assumption))
macro_rules | `(tactic| ph_known) => `(tactic| with_reducible exact PH.any ph_popExpr)
macro_rules | `(tactic| ph_known) => `(tactic| with_reducible exact PH.any ph_popVar)
macro_rules | `(tactic| ph_known) => `(tactic| with_reducible exact PH.any (ph_popNExpr _))
macro_rules | `(tactic| ph_known) => `(tactic| with_reducible exact PH.any (ph_popNVar _))
macro_rules | `(tactic| ph_known) => `(tactic| with_reducible exact PH.any (ph_popNStmt (by assumption) _))

syntax "ph_post" : tactic
macro_rules | `(tactic| ph_post) => `(tactic| (with_reducible refine PH.seq ph_popExpr ?_; intro _ _))
macro_rules | `(tactic| ph_post) => `(tactic| (with_reducible refine PH.seq ph_popVar ?_; intro _ _))
macro_rules | `(tactic| ph_post) => `(tactic| (with_reducible refine PH.seq (ph_popNExpr _) ?_; intro _ _))
macro_rules | `(tactic| ph_post) => `(tactic| (with_reducible refine PH.seq (ph_popNVar _) ?_; intro _ _))
macro_rules | `(tactic| ph_post) => `(tactic| (with_reducible refine PH.seq (ph_popNStmt (by assumption) _) ?_; intro _ _))

macro "ph_step" : tactic =>
  `(tactic| first
    | with_reducible exact PH.ret trivial
    | with_reducible exact PH.thr _
    | with_reducible exact PH.lift _
    | ph_known
    | ph_post
    | (with_reducible refine PH.forLoop _ _ _ (by assumption) ?_; intro _ _ _)
    | (with_reducible refine PH.forLoop (P := T) _ _ _ (fun _ _ => trivial) ?_; intro _ _ _)
    | with_reducible apply PH.seq_any
    | intro _
    | split)

macro "ph" : tactic => `(tactic| (try dsimp only
                                  repeat' ph_step))

/-! ### `Link::push_*` -/

/-- the eight generator functions that record a pending reference together with its instruction -/
structure RefOk (I : Inv) : Prop where
  pushJump : ∀ c sym, PH I (pushJump c sym) T
  pushIfnot : ∀ c sym, PH I (pushIfnot c sym) T
  pushReturnVal : ∀ c sym, PH I (pushReturnVal c sym) T
  pushGoto : ∀ c ln, PH I (pushGoto c ln) T
  pushGosub : ∀ c ln, PH I (pushGosub c ln) T
  pushFor : ∀ c, PH I (pushFor c) T
  pushRestore : ∀ c ln, PH I (pushRestore c ln) T
  pushRun : ∀ c ln, PH I (pushRun c ln) T

/-- for an invariant that recording a reference keeps, the eight follow from the primitives -/
theorem RefOk.of (hC : Ok I) (hA : AddOk I) : RefOk I := by
  have h1 : ∀ c sym, PH I (Codegen.pushJump c sym) T := by intros; unfold Codegen.pushJump; ph
  have h2 : ∀ c sym, PH I (Codegen.pushIfnot c sym) T := by intros; unfold Codegen.pushIfnot; ph
  have h3 : ∀ c sym, PH I (Codegen.pushReturnVal c sym) T := by intros; unfold Codegen.pushReturnVal; ph
  refine ⟨h1, h2, h3, ?_, ?_, ?_, ?_, ?_⟩
  · intros; unfold Codegen.pushGoto; ph
  · intro c ln
    have := h3
    unfold Codegen.pushGosub
    refine PH.seq_any (ph_lnextSymbol hC) ?_
    intro ret
    refine PH.seq_any (h3 c ret) ?_
    intro _
    ph
  · intros; unfold Codegen.pushFor; ph
  · intros; unfold Codegen.pushRestore; ph
  · intros; unfold Codegen.pushRun; ph

theorem ph_pushJump (hR : RefOk I) (c : Col) (sym : Symbol) : PH I (pushJump c sym) T := hR.pushJump c sym
theorem ph_pushIfnot (hR : RefOk I) (c : Col) (sym : Symbol) : PH I (pushIfnot c sym) T := hR.pushIfnot c sym
theorem ph_pushReturnVal (hR : RefOk I) (c : Col) (sym : Symbol) : PH I (pushReturnVal c sym) T := hR.pushReturnVal c sym
theorem ph_pushGoto (hR : RefOk I) (c : Col) (ln : Option Nat) : PH I (pushGoto c ln) T := hR.pushGoto c ln
theorem ph_pushGosub (hR : RefOk I) (c : Col) (ln : Option Nat) : PH I (pushGosub c ln) T := hR.pushGosub c ln
theorem ph_pushFor (hR : RefOk I) (c : Col) : PH I (pushFor c) T := hR.pushFor c
theorem ph_pushRestore (hR : RefOk I) (c : Col) (ln : Option Nat) : PH I (pushRestore c ln) T := hR.pushRestore c ln
theorem ph_pushRun (hR : RefOk I) (c : Col) (ln : Option Nat) : PH I (pushRun c ln) T := hR.pushRun c ln
macro_rules | `(tactic| ph_known) => `(tactic| with_reducible exact ph_pushJump (by assumption) _ _)
macro_rules | `(tactic| ph_known) => `(tactic| with_reducible exact ph_pushIfnot (by assumption) _ _)
macro_rules | `(tactic| ph_known) => `(tactic| with_reducible exact ph_pushReturnVal (by assumption) _ _)
macro_rules | `(tactic| ph_known) => `(tactic| with_reducible exact ph_pushGoto (by assumption) _ _)
macro_rules | `(tactic| ph_known) => `(tactic| with_reducible exact ph_pushGosub (by assumption) _ _)
macro_rules | `(tactic| ph_known) => `(tactic| with_reducible exact ph_pushFor (by assumption) _)
macro_rules | `(tactic| ph_known) => `(tactic| with_reducible exact ph_pushRestore (by assumption) _ _)
macro_rules | `(tactic| ph_known) => `(tactic| with_reducible exact ph_pushRun (by assumption) _ _)

theorem d_lpush (op : Opcode) (g : GState) :
    (lpush op).run.run g = ((g.cur.push op).2, { g with cur := (g.cur.push op).1 }) := by
  simp only [lpush, d_bind, d_get, d_set, d_liftE]

theorem d_lappend (f : Link) (g : GState) :
    (lappend f).run.run g = ((g.cur.append f).2, { g with cur := (g.cur.append f).1 }) := by
  simp only [lappend, d_bind, d_get, d_set, d_liftE]

/-- a WHILE/WEND mark followed by the branch it marks -/
theorem ph_mark (hM : MarkOk I) (k : Bool) (c : Col) (sym : Symbol) (op : Opcode) (hop : op = .jump 0 ∨ op = .ifNot 0)
    {Q : β → Prop} (rest : Unit → GM β) (hrest : ∀ u, PH I (rest u) Q) :
    PH I ((modify fun s => { s with cur := { s.cur with whiles := s.cur.whiles ++ [(k, c, s.cur.ops.size, sym)] } } :
      GM Unit) >>= fun _ => lpush op >>= rest) Q := by
  constructor
  intro g hg
  rw [d_bind_ok (d_modify _ g), d_bind, d_lpush]
  have hc : I.C (({ g.cur with whiles := g.cur.whiles ++ [(k, c, g.cur.ops.size, sym)] } : Link).push op).1 := by
    rcases hop with rfl | rfl
    · exact hM.markJump g.cur k c sym hg.cur
    · exact hM.markIfNot g.cur k c sym hg.cur
  have hg' : PGood I { g with cur := (({ g.cur with whiles := g.cur.whiles ++ [(k, c, g.cur.ops.size, sym)] } : Link).push op).1 } :=
    hg.setCur hc
  cases hr : (({ g.cur with whiles := g.cur.whiles ++ [(k, c, g.cur.ops.size, sym)] } : Link).push op).2 with
  | ok u => exact (hrest u).run _ hg'
  | error e => exact ⟨hg', fun b hb => by cases hb⟩

theorem ph_pushWend (hC : Ok I) (hM : MarkOk I) (c : Col) : PH I (pushWend c) T := by
  unfold pushWend
  refine PH.seq_any (ph_lnextSymbol hC) ?_
  intro sym
  refine ph_mark hM false c sym _ (.inl rfl) _ ?_
  intro u
  ph

theorem ph_pushWhile (hC : Ok I) (hM : MarkOk I) (c : Col) (e : Link) (he : I.E e) : PH I (pushWhile c e) T := by
  unfold pushWhile
  refine PH.seq_any (ph_lnextSymbol hC) ?_
  intro sym
  refine PH.seq_any (ph_lpushSymbol hC sym) ?_
  intro _
  refine PH.seq_any (ph_lappend hC e he) ?_
  intro _
  have := ph_mark (I := I) (Q := T) hM true c sym (.ifNot 0) (.inr rfl) (fun u => pure u) (fun u => PH.ret trivial)
  simpa using this

macro_rules | `(tactic| ph_known) => `(tactic| with_reducible exact ph_pushWend (by assumption) (by assumption) _)
macro_rules | `(tactic| ph_known) => `(tactic| with_reducible exact ph_pushWhile (by assumption) (by assumption) _ _ (by assumption))

theorem ph_pushDefFn (hC : Ok I) (hR : RefOk I) (c : Col) (ident : Str) (vars : List Str) (e : Link) (he : I.E e) :
    PH I (pushDefFn c ident vars e) T := by unfold pushDefFn; ph
macro_rules | `(tactic| ph_known) => `(tactic| with_reducible exact ph_pushDefFn (by assumption) (by assumption) _ _ _ _ (by assumption))

/-! ### `VarItem` -/

theorem ph_pushAsDim (hC : Ok I) (v : VarItem) (hv : I.E v.link) : PH I (pushAsDim v) T := by
  unfold pushAsDim; ph
theorem ph_pushAsPopUnary (hC : Ok I) (v : VarItem) : PH I (pushAsPopUnary v) T := by unfold pushAsPopUnary; ph
theorem ph_pushAsPop (hC : Ok I) (v : VarItem) (hv : I.E v.link) : PH I (pushAsPop v) T := by
  unfold pushAsPop; ph
theorem ph_pushAsExpression (hC : Ok I) (v : VarItem) (hv : I.E v.link) : PH I (pushAsExpression v) T := by
  unfold pushAsExpression; ph
macro_rules | `(tactic| ph_known) => `(tactic| with_reducible exact ph_pushAsDim (by assumption) _ (by assumption))
macro_rules | `(tactic| ph_known) => `(tactic| with_reducible exact ph_pushAsPopUnary (by assumption) _)
macro_rules | `(tactic| ph_known) => `(tactic| with_reducible exact ph_pushAsPop (by assumption) _ (by assumption))
macro_rules | `(tactic| ph_known) => `(tactic| with_reducible exact ph_pushAsExpression (by assumption) _ (by assumption))

/-! ### `Generator` -/

theorem ph_exprPopLineNumber : PH I exprPopLineNumber T := by unfold exprPopLineNumber; ph
macro_rules | `(tactic| ph_known) => `(tactic| with_reducible exact ph_exprPopLineNumber)

theorem ph_genVariable (hC : Ok I) (v : Variable) : PH I (genVariable v) T := by
  cases v <;> (simp only [genVariable]; ph)

theorem ph_unaryExpr (hC : Ok I) (op : Opcode) (c : Col) : PH I (unaryExpr op c) T := by unfold unaryExpr; ph
theorem ph_binaryExpr (hC : Ok I) (op : Opcode) : PH I (binaryExpr op) T := by unfold binaryExpr; ph
macro_rules | `(tactic| ph_known) => `(tactic| with_reducible exact ph_unaryExpr (by assumption) _ _)
macro_rules | `(tactic| ph_known) => `(tactic| with_reducible exact ph_binaryExpr (by assumption) _)

theorem ph_genExpression (hC : Ok I) (e : Expr) : PH I (genExpression e) T := by
  cases e <;> (simp only [genExpression]; ph)

theorem ph_defType (hC : Ok I) (op : Opcode) (c : Col) : PH I (defType op c) T := by unfold defType; ph
theorem ph_rangeStmt (hC : Ok I) (op : Opcode) (c : Col) : PH I (rangeStmt op c) T := by unfold rangeStmt; ph
theorem ph_genOn (hC : Ok I) (hR : RefOk I) (c : Col) (len : Nat) (b : Bool) : PH I (genOn c len b) T := by
  unfold genOn; ph
macro_rules | `(tactic| ph_known) => `(tactic| with_reducible exact ph_defType (by assumption) _ _)
macro_rules | `(tactic| ph_known) => `(tactic| with_reducible exact ph_rangeStmt (by assumption) _ _)
macro_rules | `(tactic| ph_known) => `(tactic| with_reducible exact ph_genOn (by assumption) (by assumption) _ _ _)

/-- DATA items keep the stack invariant (false for "carries no data": DATA is then treated apart) -/
def TdOk (I : Inv) : Prop := ∀ l c, I.E l → I.E (transformToData l c).1

theorem td_of_eq {l l' : Link} {c : Col} {r : Except Error Unit} (hT : TdOk I) (h : I.E l)
    (e : transformToData l c = (l', r)) : I.E l' := by
  have := hT l c h
  rw [e] at this
  exact this
macro_rules | `(tactic| ph_known) => `(tactic| with_reducible exact ph_lappend (by assumption) _ (td_of_eq (by assumption) (by assumption) (by assumption)))
theorem td_apply (hT : TdOk I) (l : Link) (c : Col) (h : I.E l) : I.E (transformToData l c).1 := hT l c h
macro_rules | `(tactic| ph_known) => `(tactic| with_reducible exact ph_lappend (by assumption) _ (td_apply (by assumption) _ _ (by assumption)))

theorem ph_gs_clear (hC : Ok I) (hR : RefOk I) : ∀ c, PH I (genStatement (.clear c)) T := by
  intros; simp only [genStatement]; ph
theorem ph_gs_cls (hC : Ok I) (hR : RefOk I) : ∀ c, PH I (genStatement (.cls c)) T := by
  intros; simp only [genStatement]; ph
theorem ph_gs_cont (hC : Ok I) (hR : RefOk I) : ∀ c, PH I (genStatement (.cont c)) T := by
  intros; simp only [genStatement]; ph
theorem ph_gs_data (hC : Ok I) (hR : RefOk I) (hT : TdOk I) : ∀ c es, PH I (genStatement (.data c es)) T := by
  intros; simp only [genStatement]; ph
theorem ph_gs_data_any (hC : Ok I) (hR : RefOk I) (hA : AppAny I) : ∀ c es, PH I (genStatement (.data c es)) T := by
  intros; simp only [genStatement]; ph
theorem ph_gs_def (hC : Ok I) (hR : RefOk I) : ∀ c v ps e, PH I (genStatement (.«def» c v ps e)) T := by
  intros; simp only [genStatement]; ph
theorem ph_gs_defdbl (hC : Ok I) (hR : RefOk I) : ∀ c a b, PH I (genStatement (.defdbl c a b)) T := by
  intros; simp only [genStatement]; ph
theorem ph_gs_defint (hC : Ok I) (hR : RefOk I) : ∀ c a b, PH I (genStatement (.defint c a b)) T := by
  intros; simp only [genStatement]; ph
theorem ph_gs_defsng (hC : Ok I) (hR : RefOk I) : ∀ c a b, PH I (genStatement (.defsng c a b)) T := by
  intros; simp only [genStatement]; ph
theorem ph_gs_defstr (hC : Ok I) (hR : RefOk I) : ∀ c a b, PH I (genStatement (.defstr c a b)) T := by
  intros; simp only [genStatement]; ph
theorem ph_gs_delete (hC : Ok I) (hR : RefOk I) : ∀ c a b, PH I (genStatement (.delete c a b)) T := by
  intros; simp only [genStatement]; ph
theorem ph_gs_dim (hC : Ok I) (hR : RefOk I) : ∀ c vs, PH I (genStatement (.dim c vs)) T := by
  intros; simp only [genStatement]; ph
theorem ph_gs_end (hC : Ok I) (hR : RefOk I) : ∀ c, PH I (genStatement (.«end» c)) T := by
  intros; simp only [genStatement]; ph
theorem ph_gs_erase (hC : Ok I) (hR : RefOk I) : ∀ c vs, PH I (genStatement (.erase c vs)) T := by
  intros; simp only [genStatement]; ph
theorem ph_gs_for (hC : Ok I) (hR : RefOk I) : ∀ c v a b s, PH I (genStatement (.«for» c v a b s)) T := by
  intros; simp only [genStatement]; ph
theorem ph_gs_gosub (hC : Ok I) (hR : RefOk I) : ∀ c e, PH I (genStatement (.gosub c e)) T := by
  intros; simp only [genStatement]; ph
theorem ph_gs_goto (hC : Ok I) (hR : RefOk I) : ∀ c e, PH I (genStatement (.goto c e)) T := by
  intros; simp only [genStatement]; ph
theorem ph_gs_if (hC : Ok I) (hR : RefOk I) (hK : PopOk I) (hS : AppS I) : ∀ c p th el, PH I (genStatement (.«if» c p th el)) T := by
  intros; simp only [genStatement]; ph
theorem ph_gs_input (hC : Ok I) (hR : RefOk I) : ∀ c caps prompt vs, PH I (genStatement (.input c caps prompt vs)) T := by
  intros; simp only [genStatement]; ph
theorem ph_gs_let (hC : Ok I) (hR : RefOk I) : ∀ c v e, PH I (genStatement (.«let» c v e)) T := by
  intros; simp only [genStatement]; ph
theorem ph_gs_list (hC : Ok I) (hR : RefOk I) : ∀ c a b, PH I (genStatement (.list c a b)) T := by
  intros; simp only [genStatement]; ph
theorem ph_gs_load (hC : Ok I) (hR : RefOk I) : ∀ c e, PH I (genStatement (.load c e)) T := by
  intros; simp only [genStatement]; ph
theorem ph_gs_mid (hC : Ok I) (hR : RefOk I) : ∀ c v pos len e, PH I (genStatement (.mid c v pos len e)) T := by
  intros; simp only [genStatement]; ph
theorem ph_gs_new (hC : Ok I) (hR : RefOk I) : ∀ c, PH I (genStatement (.new c)) T := by
  intros; simp only [genStatement]; ph
theorem ph_gs_next (hC : Ok I) (hR : RefOk I) : ∀ c vs, PH I (genStatement (.next c vs)) T := by
  intros; simp only [genStatement]; ph
theorem ph_gs_onGoto (hC : Ok I) (hR : RefOk I) : ∀ c e ls, PH I (genStatement (.onGoto c e ls)) T := by
  intros; simp only [genStatement]; ph
theorem ph_gs_onGosub (hC : Ok I) (hR : RefOk I) : ∀ c e ls, PH I (genStatement (.onGosub c e ls)) T := by
  intros; simp only [genStatement]; ph
theorem ph_gs_print (hC : Ok I) (hR : RefOk I) : ∀ c es, PH I (genStatement (.print c es)) T := by
  intros; simp only [genStatement]; ph
theorem ph_gs_read (hC : Ok I) (hR : RefOk I) : ∀ c vs, PH I (genStatement (.read c vs)) T := by
  intros; simp only [genStatement]; ph
theorem ph_gs_renum (hC : Ok I) (hR : RefOk I) : ∀ c a b s, PH I (genStatement (.renum c a b s)) T := by
  intros; simp only [genStatement]; ph
theorem ph_gs_restore (hC : Ok I) (hR : RefOk I) : ∀ c e, PH I (genStatement (.restore c e)) T := by
  intros; simp only [genStatement]; ph
theorem ph_gs_return (hC : Ok I) (hR : RefOk I) : ∀ c, PH I (genStatement (.«return» c)) T := by
  intros; simp only [genStatement]; ph
theorem ph_gs_run (hC : Ok I) (hR : RefOk I) : ∀ c e, PH I (genStatement (.run c e)) T := by
  intros; simp only [genStatement]; ph
theorem ph_gs_save (hC : Ok I) (hR : RefOk I) : ∀ c e, PH I (genStatement (.save c e)) T := by
  intros; simp only [genStatement]; ph
theorem ph_gs_stop (hC : Ok I) (hR : RefOk I) : ∀ c, PH I (genStatement (.stop c)) T := by
  intros; simp only [genStatement]; ph
theorem ph_gs_swap (hC : Ok I) (hR : RefOk I) : ∀ c a b, PH I (genStatement (.swap c a b)) T := by
  intros; simp only [genStatement]; ph
theorem ph_gs_troff (hC : Ok I) (hR : RefOk I) : ∀ c, PH I (genStatement (.troff c)) T := by
  intros; simp only [genStatement]; ph
theorem ph_gs_tron (hC : Ok I) (hR : RefOk I) : ∀ c, PH I (genStatement (.tron c)) T := by
  intros; simp only [genStatement]; ph
theorem ph_gs_wend (hC : Ok I) (hR : RefOk I) (hM : MarkOk I) : ∀ c, PH I (genStatement (.wend c)) T := by
  intros; simp only [genStatement]; ph
theorem ph_gs_while (hC : Ok I) (hR : RefOk I) (hM : MarkOk I) : ∀ c e, PH I (genStatement (.«while» c e)) T := by
  intros; simp only [genStatement]; ph

/-- a statement other than DATA and IF -/
def Stmt.plain : Stmt → Bool
  | .data _ _ => false
  | .«if» _ _ _ _ => false
  | _ => true

theorem ph_genStatement_plain (hC : Ok I) (hR : RefOk I) (hM : MarkOk I) (st : Stmt) (hp : Stmt.plain st = true) : PH I (genStatement st) T := by
  cases st with
  | data c es => cases hp
  | «if» c p th el => cases hp
  | clear c => exact ph_gs_clear hC hR _
  | cls c => exact ph_gs_cls hC hR _
  | cont c => exact ph_gs_cont hC hR _
  | «def» c v ps e => exact ph_gs_def hC hR _ _ _ _
  | defdbl c a b => exact ph_gs_defdbl hC hR _ _ _
  | defint c a b => exact ph_gs_defint hC hR _ _ _
  | defsng c a b => exact ph_gs_defsng hC hR _ _ _
  | defstr c a b => exact ph_gs_defstr hC hR _ _ _
  | delete c a b => exact ph_gs_delete hC hR _ _ _
  | dim c vs => exact ph_gs_dim hC hR _ _
  | «end» c => exact ph_gs_end hC hR _
  | erase c vs => exact ph_gs_erase hC hR _ _
  | «for» c v a b s => exact ph_gs_for hC hR _ _ _ _ _
  | gosub c e => exact ph_gs_gosub hC hR _ _
  | goto c e => exact ph_gs_goto hC hR _ _
  | input c caps prompt vs => exact ph_gs_input hC hR _ _ _ _
  | «let» c v e => exact ph_gs_let hC hR _ _ _
  | list c a b => exact ph_gs_list hC hR _ _ _
  | load c e => exact ph_gs_load hC hR _ _
  | mid c v pos len e => exact ph_gs_mid hC hR _ _ _ _ _
  | new c => exact ph_gs_new hC hR _
  | next c vs => exact ph_gs_next hC hR _ _
  | onGoto c e ls => exact ph_gs_onGoto hC hR _ _ _
  | onGosub c e ls => exact ph_gs_onGosub hC hR _ _ _
  | print c es => exact ph_gs_print hC hR _ _
  | read c vs => exact ph_gs_read hC hR _ _
  | renum c a b s => exact ph_gs_renum hC hR _ _ _ _
  | restore c e => exact ph_gs_restore hC hR _ _
  | «return» c => exact ph_gs_return hC hR _
  | run c e => exact ph_gs_run hC hR _ _
  | save c e => exact ph_gs_save hC hR _ _
  | stop c => exact ph_gs_stop hC hR _
  | swap c a b => exact ph_gs_swap hC hR _ _ _
  | troff c => exact ph_gs_troff hC hR _
  | tron c => exact ph_gs_tron hC hR _
  | wend c => exact ph_gs_wend hC hR hM _
  | «while» c e => exact ph_gs_while hC hR hM _ _

/-- every statement, for an invariant that survives DATA items and the appending of statement fragments -/
theorem ph_genStatement (hC : Ok I) (hR : RefOk I) (hM : MarkOk I) (hT : TdOk I) (hK : PopOk I) (hS : AppS I) (st : Stmt) :
    PH I (genStatement st) T := by
  by_cases hp : Stmt.plain st = true
  · exact ph_genStatement_plain hC hR hM st hp
  · cases st with
    | data c es => exact ph_gs_data hC hR hT _ _
    | «if» c p th el => exact ph_gs_if hC hR hK hS _ _ _ _
    | _ => exact absurd rfl hp

end DataOrder
end Basic
