import BasicModel.Gen.Limits
import BasicModel.Lemmas.SortedList
import BasicModel.Spec.MapSpec
import BasicModel.Lemmas.RangeForms
/-
  C15 — The program store is an ordered map with exact LIST / DELETE ranges.

  `abs` maps a `Listing` (sorted association list, `Model/Listing.lean`) to the specification's map
  `Nat → Option Line` (`Spec/MapSpec.lean`).  Every operation preserves the invariant `WF` (strictly
  ascending keys, keys ≤ 65529, every line stored under its own number) and refines the map
  operation; iterating `list_line` emits exactly `listSpec`.

  The last section (`Statements`) is the level above the store: the operand forms `n`, `n-`, `-n`,
  `a-b` and none of `Parse.lineNumberRange`, the refusal of a bare DELETE / an inverted range / a
  number above 65529 by the parser, and `Runtime.doDelete` / `doList` / the listing state of
  `Runtime.execute` tied to `removeRange_refines` and `list_emits_exactly`
  (lemmas: `Lemmas/RangeForms.lean`).
-/
namespace Basic
namespace Thm.C15
open Listing SortedList Spec

/-- abstraction function -/
def abs (l : Listing) : LMap := fun k => look k l.source

theorem abs_eq_get? (l : Listing) (k : Nat) : abs l k = l.get? k := rfl

/-- invariant of the program store -/
structure WF (l : Listing) : Prop where
  sorted : Sorted l.source
  bounded : ∀ p ∈ l.source, p.1 ≤ maxLineNumber
  coherent : ∀ p ∈ l.source, p.2.number = some p.1

theorem wf_empty : WF ({} : Listing) :=
  ⟨sorted_nil, (fun _ h => by cases h), (fun _ h => by cases h)⟩

theorem wf_clear (l : Listing) : WF l.clear := wf_empty

theorem abs_clear (l : Listing) : abs l.clear = LMap.empty := rfl

example : abs (Listing.clear { source := [(10, ⟨some 10, []⟩)] }) 10 = none := rfl

/-! ### insert -/

/-- inserting a numbered line keeps the invariant -/
theorem wf_insert {l : Listing} (hl : WF l) (line : Line) (n : Nat) (hn : line.number = some n)
    (hb : n ≤ maxLineNumber) : WF (l.insert line) := by
  unfold Listing.insert
  rw [hn]
  refine ⟨sorted_insertSorted n line hl.sorted, ?_, ?_⟩
  · intro p hp
    rcases mem_insertSorted hp with rfl | hp
    · exact hb
    · exact hl.bounded p hp
  · intro p hp
    rcases mem_insertSorted hp with rfl | hp
    · exact hn
    · exact hl.coherent p hp

/-- `insert` is the map insert (replace or add), at the line's own number -/
theorem insert_refines (l : Listing) (line : Line) (n : Nat) (hn : line.number = some n) :
    abs (l.insert line) = (abs l).insert n line := by
  funext k
  unfold abs Listing.insert LMap.insert
  rw [hn]
  exact look_insertSorted n line k l.source

example : abs (({} : Listing).insert ⟨some 10, [.unknown "A".toList]⟩ |>.insert ⟨some 5, []⟩
    |>.insert ⟨some 10, []⟩) 10 = some ⟨some 10, []⟩ := by decide

/-! ### remove -/

theorem remove_source (l : Listing) (n : Nat) :
    (l.remove (some n)).1.source = l.source.filter (fun p => p.1 != n) := rfl

theorem wf_remove {l : Listing} (hl : WF l) (n : Option Nat) : WF (l.remove n).1 := by
  cases n with
  | none => exact hl
  | some n =>
    refine ⟨?_, ?_, ?_⟩
    · rw [remove_source]; exact sorted_filter _ hl.sorted
    · intro p hp; rw [remove_source] at hp; exact hl.bounded p (List.mem_filter.1 hp).1
    · intro p hp; rw [remove_source] at hp; exact hl.coherent p (List.mem_filter.1 hp).1

/-- `remove` is the map delete; its flag says whether the line existed -/
theorem remove_refines (l : Listing) (n : Nat) :
    abs (l.remove (some n)).1 = (abs l).delete n ∧ (l.remove (some n)).2 = (abs l n).isSome := by
  constructor
  · funext k
    unfold abs LMap.delete
    rw [remove_source]
    refine (look_filter_key (fun k => k != n) k l.source).trans ?_
    by_cases hk : k = n
    · simp [hk]
    · simp [hk]
  · show l.source.any (fun p => (fun k => k == n) p.1) = (look n l.source).isSome
    cases h : (look n l.source).isSome with
    | true =>
      exact (any_key_iff (fun k => k == n) l.source).2 ⟨n, by simp, h⟩
    | false =>
      cases h2 : l.source.any (fun p => (fun k => k == n) p.1) with
      | false => rfl
      | true =>
        obtain ⟨k, hk, hl⟩ := (any_key_iff (fun k => k == n) l.source).1 h2
        have : k = n := by simpa using hk
        rw [this, h] at hl
        cases hl

/-- removing an absent line changes nothing (a bare number for an absent line is a no-op) -/
theorem remove_absent_noop (l : Listing) (n : Nat) (h : abs l n = none) :
    (l.remove (some n)).1 = l ∧ (l.remove (some n)).2 = false := by
  have h2 := (remove_refines l n).2
  rw [h] at h2
  refine ⟨?_, h2⟩
  have hall : ∀ p ∈ l.source, (p.1 != n) = true := by
    intro p hp
    cases hpn : (p.1 != n) with
    | true => rfl
    | false =>
      have hany : l.source.any (fun p => (fun k => k == n) p.1) = true := by
        rw [List.any_eq_true]
        exact ⟨p, hp, by simpa using hpn⟩
      have : (l.remove (some n)).2 = true := hany
      rw [h2] at this
      cases this
  show { l with source := l.source.filter (fun p => p.1 != n) } = l
  rw [List.filter_eq_self.2 hall]

/-- `remove(None)`: there is no direct line in the store -/
theorem remove_none (l : Listing) : l.remove none = (l, false) := rfl

example : (({} : Listing).insert ⟨some 10, []⟩ |>.remove (some 10)).2 = true ∧
    (({} : Listing).insert ⟨some 10, []⟩ |>.remove (some 7)).2 = false := by decide

/-! ### removeRange -/

theorem inRange_some (a b k : Nat) : inRange (some a) (some b) k = true ↔ a ≤ k ∧ k ≤ b := by
  simp [inRange]

theorem removeRange_source (l : Listing) (lo hi : Option Nat) :
    (l.removeRange lo hi).1.source = l.source.filter (fun p => !inRange lo hi p.1) := by
  unfold removeRange
  split
  · rfl
  · rename_i h
    simp only
    symm
    rw [List.filter_eq_self]
    intro p hp
    cases hr : inRange lo hi p.1 with
    | false => rfl
    | true =>
      exfalso; apply h
      rw [List.any_eq_true]
      exact ⟨p, hp, hr⟩

theorem wf_removeRange {l : Listing} (hl : WF l) (lo hi : Option Nat) : WF (l.removeRange lo hi).1 := by
  refine ⟨?_, ?_, ?_⟩
  · rw [removeRange_source]; exact sorted_filter _ hl.sorted
  · intro p hp; rw [removeRange_source] at hp; exact hl.bounded p (List.mem_filter.1 hp).1
  · intro p hp; rw [removeRange_source] at hp; exact hl.coherent p (List.mem_filter.1 hp).1

/-- `remove_range` deletes exactly the lines whose numbers lie in the range and reports whether there
    was one (stated for the range of `LineNumber`s, `None` below every number) -/
theorem removeRange_exact (l : Listing) (lo hi : Option Nat) :
    abs (l.removeRange lo hi).1 = (fun k => if inRange lo hi k then none else abs l k) ∧
    ((l.removeRange lo hi).2 = true ↔ ∃ k, inRange lo hi k = true ∧ (abs l k).isSome = true) := by
  constructor
  · funext k
    unfold abs
    rw [removeRange_source]
    refine (look_filter_key (fun k => !inRange lo hi k) k l.source).trans ?_
    cases inRange lo hi k <;> rfl
  · unfold abs
    rw [← any_key_iff (fun k => inRange lo hi k) l.source]
    unfold removeRange
    split
    · rename_i h; simp [h]
    · rename_i h; simp [h]

/-- … for a range `lo..hi` of numbers this is the specification's range delete -/
theorem removeRange_refines (l : Listing) (lo hi : Nat) :
    abs (l.removeRange (some lo) (some hi)).1 = (abs l).deleteRange lo hi := by
  rw [(removeRange_exact l (some lo) (some hi)).1]
  funext k
  unfold LMap.deleteRange
  by_cases h : lo ≤ k ∧ k ≤ hi
  · rw [if_pos h, if_pos ((inRange_some lo hi k).2 h)]
  · rw [if_neg h, if_neg (fun h' => h ((inRange_some lo hi k).1 h'))]

example : ((({} : Listing).insert ⟨some 10, []⟩ |>.insert ⟨some 20, []⟩ |>.insert ⟨some 30, []⟩
    |>.removeRange (some 10) (some 20)).1.source.map (·.1)) = [30] := by decide

/-! ### LIST: iterating `list_line` -/

/-- what `list_line` reports for a stored line: its text and the columns of its compile errors -/
def render (l : Listing) (p : Nat × Line) : Str × List (Nat × Nat) :=
  (printLine p.2.number p.2.tokens,
   l.indirectErrors.filterMap fun e => if e.line = some p.1 then some (errColumn p.1 e) else none)

/-- the range `list_line` continues with after emitting line `n` -/
def nextRange (hi : Option Nat) (n : Nat) : Option Nat × Option Nat :=
  match hi with
  | some b => if n < b then (some (n + 1), hi) else (some endMark, some endMark)
  | none => (some endMark, some endMark)

theorem listLine_eq (l : Listing) (lo hi : Option Nat) :
    l.listLine lo hi =
      (l.source.find? (fun p => inRange lo hi p.1)).map fun p => (render l p, nextRange hi p.1) := by
  unfold listLine
  cases l.source.find? (fun p => inRange lo hi p.1) with
  | none => rfl
  | some p => cases hi <;> rfl

/-- the driver loop of LIST: call `list_line` until it returns `None` (`none` = out of fuel) -/
def listIter (l : Listing) : Nat → Option Nat → Option Nat → Option (List (Str × List (Nat × Nat)))
  | 0, _, _ => none
  | fuel + 1, lo, hi =>
    match l.listLine lo hi with
    | none => some []
    | some (x, (lo', hi')) => (listIter l fuel lo' hi').map (x :: ·)

theorem inRange_next {lo hi : Option Nat} {x y : Nat} (hx : inRange lo hi x = true) (hxy : x < y)
    (hy : y ≤ maxLineNumber) :
    inRange (nextRange hi x).1 (nextRange hi x).2 y = inRange lo hi y := by
  cases hi with
  | none => simp [inRange] at hx
  | some b =>
    rw [Bool.eq_iff_iff]
    unfold nextRange
    cases lo with
    | none =>
      simp only [inRange, Bool.true_and, decide_eq_true_eq] at hx
      by_cases hlt : x < b
      · simp only [hlt, if_true, inRange, Bool.and_eq_true, decide_eq_true_eq, Bool.true_and]
        omega
      · simp only [hlt, if_false, inRange, endMark, maxLineNumber, Bool.and_eq_true,
          decide_eq_true_eq, Bool.true_and] at hy ⊢
        omega
    | some a =>
      simp only [inRange, Bool.and_eq_true, decide_eq_true_eq] at hx
      by_cases hlt : x < b
      · simp only [hlt, if_true, inRange, Bool.and_eq_true, decide_eq_true_eq]
        omega
      · simp only [hlt, if_false, inRange, endMark, maxLineNumber, Bool.and_eq_true,
          decide_eq_true_eq] at hy ⊢
        omega

theorem inRange_next_le {hi : Option Nat} {a x : Nat} (hxa : x ≤ a) (hx : x ≤ maxLineNumber) :
    inRange (nextRange hi a).1 (nextRange hi a).2 x = false := by
  rw [Bool.eq_false_iff]
  have he : ¬ inRange (some endMark) (some endMark) x = true := by
    intro h
    have := (inRange_some endMark endMark x).1 h
    simp only [endMark, maxLineNumber] at this hx
    omega
  unfold nextRange
  cases hi with
  | none => exact he
  | some b =>
    simp only
    split
    · intro h
      have := (inRange_some (a + 1) b x).1 h
      omega
    · exact he

/-- one step of LIST on a well-formed store: the first line in the range, then the rest of the range -/
theorem filter_next : ∀ {s : List (Nat × Line)}, Sorted s → (∀ p ∈ s, p.1 ≤ maxLineNumber) →
    ∀ (lo hi : Option Nat) (a : Nat × Line), s.find? (fun p => inRange lo hi p.1) = some a →
    s.filter (fun p => inRange lo hi p.1) =
      a :: s.filter (fun p => inRange (nextRange hi a.1).1 (nextRange hi a.1).2 p.1)
  | [], _, _, _, _, _, h => by simp at h
  | x :: r, hs, hb, lo, hi, a, h => by
    obtain ⟨hs1, hs2⟩ := sorted_cons.1 hs
    have hbr : ∀ p ∈ r, p.1 ≤ maxLineNumber := fun p hp => hb p (List.mem_cons_of_mem _ hp)
    rw [List.find?_cons] at h
    cases hx : inRange lo hi x.1 with
    | true =>
      rw [hx] at h
      cases h
      rw [List.filter_cons, if_pos hx, List.filter_cons,
        if_neg (by rw [inRange_next_le (Nat.le_refl _) (hb x List.mem_cons_self)]; simp)]
      congr 1
      apply List.filter_congr
      intro y hy
      exact (inRange_next hx (hs1 y hy) (hbr y hy)).symm
    | false =>
      rw [hx] at h
      simp only at h
      have ha : a ∈ r := List.mem_of_find?_eq_some h
      have hlt : x.1 < a.1 := hs1 a ha
      rw [List.filter_cons, if_neg (by simp [hx]), filter_next hs2 hbr lo hi a h, List.filter_cons,
        if_neg (by rw [inRange_next_le (Nat.le_of_lt hlt) (hb x List.mem_cons_self)]; simp)]

theorem listIter_eq (l : Listing) (hl : WF l) : ∀ (fuel : Nat) (lo hi : Option Nat),
    (l.source.filter (fun p => inRange lo hi p.1)).length < fuel →
    listIter l fuel lo hi = some ((l.source.filter (fun p => inRange lo hi p.1)).map (render l))
  | 0, _, _, h => by omega
  | fuel + 1, lo, hi, h => by
    unfold listIter
    rw [listLine_eq]
    cases hf : l.source.find? (fun p => inRange lo hi p.1) with
    | none =>
      have : l.source.filter (fun p => inRange lo hi p.1) = [] := by
        rw [List.filter_eq_nil_iff]
        intro p hp
        have := List.find?_eq_none.1 hf p hp
        exact this
      rw [this]; rfl
    | some a =>
      have hn := filter_next hl.sorted hl.bounded lo hi a hf
      rw [hn] at h ⊢
      simp only [Option.map_some, List.length_cons] at h ⊢
      rw [listIter_eq l hl fuel _ _ (by omega)]
      rfl

/-- the lines in the range, in ascending order, are the specification's `listSpec` -/
theorem filter_eq_listSpec (l : Listing) (hl : WF l) (lo hi : Nat) :
    l.source.filter (fun p => inRange (some lo) (some hi) p.1) = listSpec (abs l) lo hi := by
  apply sorted_ext (sorted_filter _ hl.sorted)
  · unfold listSpec Sorted
    apply List.Pairwise.filterMap (R := fun a b => a < b) _ _ List.pairwise_lt_range'
    intro a a' haa b hb b' hb'
    simp only [Option.map_eq_some_iff] at hb hb'
    obtain ⟨_, _, rfl⟩ := hb
    obtain ⟨_, _, rfl⟩ := hb'
    exact haa
  · intro p
    rcases p with ⟨k, x⟩
    rw [List.mem_filter, inRange_some, mem_iff_look hl.sorted]
    unfold listSpec
    rw [List.mem_filterMap]
    constructor
    · rintro ⟨hlk, h1, h2⟩
      refine ⟨k, ?_, ?_⟩
      · rw [List.mem_range'_1]; omega
      · show (look k l.source).map (fun x => (k, x)) = some (k, x)
        rw [hlk]; rfl
    · rintro ⟨k', hk', hm⟩
      rw [List.mem_range'_1] at hk'
      have hm' : (look k' l.source).map (fun x => (k', x)) = some (k, x) := hm
      cases hlk : look k' l.source with
      | none => rw [hlk] at hm'; cases hm'
      | some y =>
        rw [hlk] at hm'
        simp only [Option.map_some, Option.some.injEq, Prod.mk.injEq] at hm'
        obtain ⟨rfl, rfl⟩ := hm'
        exact ⟨hlk, by omega, by omega⟩

/-- LIST lo-hi: iterating `list_line` from the range `(lo, hi)` terminates (within one more call than
    there are lines) and emits exactly the stored lines with numbers in `[lo, hi]`, in ascending
    order, each as its listed text with its error columns -/
theorem list_emits_exactly (l : Listing) (hl : WF l) (lo hi : Nat) :
    listIter l (l.source.length + 1) (some lo) (some hi) =
      some ((listSpec (abs l) lo hi).map (render l)) := by
  rw [← filter_eq_listSpec l hl]
  apply listIter_eq l hl
  exact Nat.lt_succ_of_le (List.length_filter_le _ _)

/-- the open-start form (`LIST -hi` passes `None`, which lies below every number) -/
theorem list_emits_exactly_from_start (l : Listing) (hl : WF l) (hi : Nat) :
    listIter l (l.source.length + 1) none (some hi) =
      some ((listSpec (abs l) 0 hi).map (render l)) := by
  rw [← filter_eq_listSpec l hl]
  have : (fun p : Nat × Line => inRange none (some hi) p.1) = (fun p => inRange (some 0) (some hi) p.1) := by
    funext p; simp [inRange]
  rw [← this]
  apply listIter_eq l hl
  exact Nat.lt_succ_of_le (List.length_filter_le _ _)

example : listIter (({} : Listing).insert ⟨some 10, [.unknown "A".toList]⟩ |>.insert ⟨some 5, [.unknown "B".toList]⟩
    |>.insert ⟨some 30, []⟩) 4 (some 5) (some 10) = some [("5 B".toList, []), ("10 A".toList, [])] := by decide

/-- the column computation inside `list_line` is `Error::column()` of that error -/
theorem errColumn_eq (n : Nat) (e : Error) (h : e.line = some n) :
    Listing.errColumn n e = Listing.errorColumn e := by
  unfold Listing.errColumn Listing.errorColumn
  rw [h]
  simp [RStd.natDigits]
  rw [← Nat.toList_repr, String.length_toList]

example : Listing.errColumn 120 { code := 2, line := some 120, colStart := 3, colEnd := 5 } = (7, 9) ∧
    Listing.errorColumn { code := 2, line := some 120, colStart := 3, colEnd := 5 } = (7, 9) := by decide

/-- `line n` is the single-line case -/
theorem line_eq (l : Listing) (n : Nat) (hn : n ≤ maxLineNumber) :
    l.line n = (l.source.find? (fun p => inRange (some n) (some n) p.1)).map (render l) := by
  unfold Listing.line
  rw [if_neg (by omega), listLine_eq]
  cases l.source.find? (fun p => inRange (some n) (some n) p.1) <;> rfl

/-! ### the finder's `listSpecOn` is `listSpec` -/

theorem mem_insKey {k p : Nat} : ∀ {s : List Nat}, p ∈ insKey k s ↔ p = k ∨ p ∈ s
  | [] => by simp [insKey]
  | a :: r => by
    unfold insKey
    split
    · simp
    · split
      · rename_i heq
        simp only [List.mem_cons]
        constructor
        · intro h; exact Or.inr h
        · rintro (h | h)
          · left; omega
          · exact h
      · simp only [List.mem_cons]
        rw [mem_insKey (s := r)]
        constructor
        · rintro (h | h | h)
          · exact Or.inr (Or.inl h)
          · exact Or.inl h
          · exact Or.inr (Or.inr h)
        · rintro (h | h | h)
          · exact Or.inr (Or.inl h)
          · exact Or.inl h
          · exact Or.inr (Or.inr h)

theorem pairwise_insKey (k : Nat) : ∀ {s : List Nat}, s.Pairwise (· < ·) → (insKey k s).Pairwise (· < ·)
  | [], _ => by simp [insKey]
  | a :: r, hs => by
    obtain ⟨h1, h2⟩ := List.pairwise_cons.1 hs
    unfold insKey
    split
    · rename_i hlt
      refine List.pairwise_cons.2 ⟨?_, hs⟩
      intro b hb
      rcases List.mem_cons.1 hb with rfl | hb
      · exact hlt
      · have := h1 b hb; omega
    · split
      · exact hs
      · refine List.pairwise_cons.2 ⟨?_, pairwise_insKey k h2⟩
        intro b hb
        rcases mem_insKey.1 hb with rfl | hb
        · omega
        · exact h1 b hb

theorem sortKeys_spec (cands : List Nat) :
    (sortKeys cands).Pairwise (· < ·) ∧ ∀ k, k ∈ sortKeys cands ↔ k ∈ cands := by
  unfold sortKeys
  have gen : ∀ (cs acc : List Nat), acc.Pairwise (· < ·) →
      (cs.foldl (fun acc k => insKey k acc) acc).Pairwise (· < ·) ∧
      ∀ k, k ∈ cs.foldl (fun acc k => insKey k acc) acc ↔ k ∈ acc ∨ k ∈ cs := by
    intro cs
    induction cs with
    | nil => intro acc h; simp [h]
    | cons c cs ih =>
      intro acc h
      simp only [List.foldl_cons]
      obtain ⟨i1, i2⟩ := ih (insKey c acc) (pairwise_insKey c h)
      refine ⟨i1, ?_⟩
      intro k
      rw [i2, mem_insKey, List.mem_cons]
      constructor
      · rintro ((h | h) | h)
        · exact Or.inr (Or.inl h)
        · exact Or.inl h
        · exact Or.inr (Or.inr h)
      · rintro (h | h | h)
        · exact Or.inl (Or.inr h)
        · exact Or.inl (Or.inl h)
        · exact Or.inr h
  obtain ⟨g1, g2⟩ := gen cands [] List.Pairwise.nil
  exact ⟨g1, fun k => by rw [g2]; simp⟩

/-- computing the listing from a finite candidate set of keys gives `listSpec`, provided the
    candidates cover the keys of the map that lie in the range -/
theorem listSpecOn_eq_listSpec (cands : List Nat) (m : LMap) (lo hi : Nat)
    (hc : ∀ k, lo ≤ k → k ≤ hi → (m k).isSome = true → k ∈ cands) :
    listSpecOn cands m lo hi = listSpec m lo hi := by
  obtain ⟨hs, hm⟩ := sortKeys_spec cands
  have key : ∀ (ks : List Nat), ks.Pairwise (· < ·) →
      Sorted (ks.filterMap fun k => (m k).map fun x => (k, x)) := by
    intro ks hks
    unfold Sorted
    apply List.Pairwise.filterMap (R := fun a b => a < b) _ _ hks
    intro a a' haa b hb b' hb'
    simp only [Option.map_eq_some_iff] at hb hb'
    obtain ⟨_, _, rfl⟩ := hb
    obtain ⟨_, _, rfl⟩ := hb'
    exact haa
  apply sorted_ext
  · exact key _ (List.Pairwise.sublist List.filter_sublist hs)
  · exact key _ List.pairwise_lt_range'
  · intro p
    unfold listSpecOn listSpec
    rw [List.mem_filterMap, List.mem_filterMap]
    constructor
    · rintro ⟨k, hk, hp⟩
      rw [List.mem_filter] at hk
      have : lo ≤ k ∧ k ≤ hi := by simpa using hk.2
      exact ⟨k, by rw [List.mem_range'_1]; omega, hp⟩
    · rintro ⟨k, hk, hp⟩
      rw [List.mem_range'_1] at hk
      refine ⟨k, ?_, hp⟩
      rw [List.mem_filter]
      refine ⟨(hm k).2 (hc k (by omega) (by omega) ?_), by simp; omega⟩
      cases hmk : m k with
      | none => rw [hmk] at hp; cases hp
      | some x => rfl

example : listSpecOn [30, 10, 20, 10] (LMap.empty.insert 10 ⟨some 10, []⟩ |>.insert 30 ⟨some 30, []⟩) 5 30
    = [(10, ⟨some 10, []⟩), (30, ⟨some 30, []⟩)] := by decide

/-! ### RENUM: the numbering plan -/

/-- shape of a successful plan, for any loop state: the changed lines are exactly those numbered
    `≥ oldStart` (the others are kept), in order; they receive `newNum, newNum + step, …`; every new
    number is a line number (≤ 65529) -/
theorem renumGo_ok (newStart oldStart step : Nat) : ∀ (keys : List Nat) (oldEnd newNum : Nat)
    (ch : List (Nat × Nat)), renumGo newStart oldStart step keys oldEnd newNum = .ok ch →
    ch.map (·.1) = keys.filter (fun k => decide (k ≥ oldStart)) ∧
    ch.map (·.2) = (List.range ch.length).map (fun i => newNum + step * i) ∧
    ∀ c ∈ ch, c.2 ≤ maxLineNumber
  | [], _, _, ch, h => by
    simp only [renumGo, Except.ok.injEq] at h
    subst h
    simp
  | ln :: r, oldEnd, newNum, ch, h => by
    unfold renumGo at h
    by_cases hge : ln ≥ oldStart
    · rw [if_pos hge] at h
      split at h
      · cases h
      · split at h
        · cases h
        · split at h
          · cases h
          · rename_i _ hnew _
            cases hrest : renumGo newStart oldStart step r oldEnd (newNum + step) with
            | error e => rw [hrest] at h; cases h
            | ok rest =>
              rw [hrest] at h
              simp only [bind, Except.bind, Except.ok.injEq] at h
              subst h
              obtain ⟨i1, i2, i3⟩ := renumGo_ok newStart oldStart step r oldEnd (newNum + step) rest hrest
              refine ⟨?_, ?_, ?_⟩
              · rw [List.filter_cons, if_pos (by simpa using hge), List.map_cons, i1]
              · rw [List.map_cons, i2, List.length_cons, List.range_succ_eq_map, List.map_cons,
                  List.map_map]
                congr 1
                apply List.map_congr_left
                intro i _
                simp only [Function.comp, Nat.mul_succ]
                omega
              · intro c hc
                rcases List.mem_cons.1 hc with rfl | hc
                · simp only; omega
                · exact i3 c hc
    · rw [if_neg hge] at h
      obtain ⟨i1, i2, i3⟩ := renumGo_ok newStart oldStart step r ln newNum ch h
      refine ⟨?_, i2, i3⟩
      rw [List.filter_cons, if_neg (by simpa using hge), i1]

/-- the RENUM plan: a step of 0 is rejected; otherwise lines below `oldStart` keep their numbers,
    the others become `newStart, newStart + step, …` in order, strictly increasing, all ≤ 65529 -/
theorem renumPlan_ok (keys : List Nat) (newStart oldStart step : Nat) (ch : List (Nat × Nat))
    (h : renumPlan keys newStart oldStart step = .ok ch) :
    0 < step ∧
    ch.map (·.1) = keys.filter (fun k => decide (k ≥ oldStart)) ∧
    ch.map (·.2) = (List.range ch.length).map (fun i => newStart + step * i) ∧
    (ch.map (·.2)).Pairwise (· < ·) ∧
    ∀ c ∈ ch, c.2 ≤ maxLineNumber := by
  unfold renumPlan at h
  split at h
  · cases h
  · rename_i hs
    have hpos : 0 < step := Nat.pos_of_ne_zero hs
    obtain ⟨i1, i2, i3⟩ := renumGo_ok newStart oldStart step keys endMark newStart ch h
    refine ⟨hpos, i1, i2, ?_, i3⟩
    rw [i2, List.pairwise_map]
    apply List.Pairwise.imp _ List.pairwise_lt_range
    intro a b hab
    have := Nat.mul_lt_mul_of_pos_left hab hpos
    omega

theorem renumPlan_step_zero (keys : List Nat) (newStart oldStart : Nat) :
    renumPlan keys newStart oldStart 0 = err Code.illegalFunctionCall := by
  simp [renumPlan]

example : renumPlan [10, 20, 30, 45] 100 20 10 = .ok [(20, 100), (30, 110), (45, 120)] := by decide
example : renumPlan [10, 20, 30] 10 20 10 = err Code.illegalFunctionCall := by decide
example : renumPlan [10, 20, 30] 65520 0 10 = err Code.overflow := by decide

/-- when the plan succeeds, every kept line number lies below the first new number: the renumbered
    program has as many lines as before, in the same order -/
theorem renumGo_kept_below (newStart oldStart step : Nat) : ∀ (keys : List Nat) (oldEnd newNum : Nat)
    (ch : List (Nat × Nat)), renumGo newStart oldStart step keys oldEnd newNum = .ok ch → ch ≠ [] →
    keys.Pairwise (· < ·) → (∀ k ∈ keys, oldEnd < k ∨ oldEnd = endMark) →
    (∀ k ∈ keys, k ≤ maxLineNumber) →
    (oldEnd ≤ maxLineNumber → oldEnd < newStart) ∧ ∀ k ∈ keys, k < oldStart → k < newStart
  | [], _, _, ch, h, hne, _, _, _ => by
    simp only [renumGo, Except.ok.injEq] at h
    exact absurd h.symm hne
  | ln :: r, oldEnd, newNum, ch, h, hne, hs, ho, hb => by
    obtain ⟨hs1, hs2⟩ := List.pairwise_cons.1 hs
    unfold renumGo at h
    by_cases hge : ln ≥ oldStart
    · rw [if_pos hge] at h
      split at h
      · cases h
      · rename_i hchk
        refine ⟨fun hle => by omega, ?_⟩
        intro k hk hlt
        rcases List.mem_cons.1 hk with rfl | hk
        · omega
        · have := hs1 k hk; omega
    · rw [if_neg hge] at h
      have hbl : ln ≤ maxLineNumber := hb ln List.mem_cons_self
      obtain ⟨i1, i2⟩ := renumGo_kept_below newStart oldStart step r ln newNum ch h hne hs2
        (fun k hk => Or.inl (hs1 k hk)) (fun k hk => hb k (List.mem_cons_of_mem _ hk))
      have hln : ln < newStart := i1 hbl
      refine ⟨?_, ?_⟩
      · intro hle
        rcases ho ln List.mem_cons_self with h1 | h1
        · omega
        · simp only [endMark, maxLineNumber] at h1 hle; omega
      · intro k hk hlt
        rcases List.mem_cons.1 hk with rfl | hk
        · exact hln
        · exact i2 k hk hlt

theorem renumPlan_kept_below (keys : List Nat) (newStart oldStart step : Nat) (ch : List (Nat × Nat))
    (h : renumPlan keys newStart oldStart step = .ok ch) (hne : ch ≠ [])
    (hs : keys.Pairwise (· < ·)) (hb : ∀ k ∈ keys, k ≤ maxLineNumber) :
    ∀ k ∈ keys, k < oldStart → ∀ c ∈ ch, k < c.2 := by
  obtain ⟨_, _, i2, _, _⟩ := renumPlan_ok keys newStart oldStart step ch h
  unfold renumPlan at h
  split at h
  · cases h
  · have := (renumGo_kept_below newStart oldStart step keys endMark newStart ch h hne hs
      (fun _ _ => Or.inr rfl) hb).2
    intro k hk hlt c hc
    have hk' := this k hk hlt
    have hc2 : c.2 ∈ ch.map (·.2) := List.mem_map.2 ⟨c, hc, rfl⟩
    rw [i2, List.mem_map] at hc2
    obtain ⟨i, _, hi⟩ := hc2
    omega

example : ∀ k ∈ [10, 20, 30, 45], k < 20 → ∀ c ∈ [(20, 100), (30, 110), (45, 120)], k < c.2 :=
  renumPlan_kept_below [10, 20, 30, 45] 100 20 10 _ (by decide) (by decide) (by decide) (by decide)

/-! ### RENUM keeps the store well-formed -/

theorem sorted_rebuild (ls : List Line) : Sorted (rebuild ls) ∧ ∀ p ∈ rebuild ls, p.2.number = some p.1 := by
  unfold rebuild
  have gen : ∀ (ls : List Line) (acc : List (Nat × Line)), Sorted acc → (∀ p ∈ acc, p.2.number = some p.1) →
      Sorted (ls.foldl (fun acc line => match line.number with
        | some n => insertSorted n line acc | none => acc) acc) ∧
      ∀ p ∈ (ls.foldl (fun acc line => match line.number with
        | some n => insertSorted n line acc | none => acc) acc), p.2.number = some p.1 := by
    intro ls
    induction ls with
    | nil => intro acc h1 h2; exact ⟨h1, h2⟩
    | cons x xs ih =>
      intro acc h1 h2
      simp only [List.foldl_cons]
      cases hx : x.number with
      | none => exact ih acc h1 h2
      | some n =>
        apply ih
        · exact sorted_insertSorted n x h1
        · intro p hp
          rcases mem_insertSorted hp with rfl | hp
          · exact hx
          · exact h2 p hp
  exact gen ls [] sorted_nil (fun _ h => by cases h)

/-- `renum` (with any per-line rewriting function) yields a store with strictly ascending keys in
    which every line is stored under its own number; an error returns no new store at all -/
theorem renum_sorted (f : List (Nat × Nat) → Line → Line) (l l' : Listing) (a b c : Nat)
    (h : l.renum f a b c = .ok l') :
    Sorted l'.source ∧ ∀ p ∈ l'.source, p.2.number = some p.1 := by
  unfold Listing.renum at h
  cases hp : renumPlan (l.source.map (·.1)) a b c with
  | error e => rw [hp] at h; cases h
  | ok ch =>
    rw [hp] at h
    simp only [bind, Except.bind, Except.ok.injEq] at h
    subst h
    exact sorted_rebuild _

example : ((({} : Listing).insert ⟨some 10, []⟩ |>.insert ⟨some 20, []⟩).renum renumNumberOnly 100 0 10).toOption.map
    (·.source.map (·.1)) = some [100, 110] := by decide

theorem rebuild_all (Q : Line → Prop) (ls : List Line) (h : ∀ x ∈ ls, Q x) :
    ∀ p ∈ rebuild ls, Q p.2 := by
  unfold rebuild
  have gen : ∀ (ls : List Line) (acc : List (Nat × Line)), (∀ p ∈ acc, Q p.2) → (∀ x ∈ ls, Q x) →
      ∀ p ∈ (ls.foldl (fun acc line => match line.number with
        | some n => insertSorted n line acc | none => acc) acc), Q p.2 := by
    intro ls
    induction ls with
    | nil => intro acc h1 _; exact h1
    | cons x xs ih =>
      intro acc h1 h2
      simp only [List.foldl_cons]
      apply ih _ _ (fun y hy => h2 y (List.mem_cons_of_mem _ hy))
      cases hx : x.number with
      | none => exact h1
      | some n =>
        intro p hp
        rcases mem_insertSorted hp with rfl | hp
        · exact h2 x List.mem_cons_self
        · exact h1 p hp
  exact gen ls [] (fun _ hp => by cases hp) h

/-- RENUM (numbering part) keeps the whole invariant: new numbers are line numbers -/
theorem wf_renum {l l' : Listing} (hl : WF l) (a b c : Nat)
    (h : l.renum renumNumberOnly a b c = .ok l') : WF l' := by
  obtain ⟨s1, s2⟩ := renum_sorted _ l l' a b c h
  refine ⟨s1, ?_, s2⟩
  unfold Listing.renum at h
  cases hp : renumPlan (l.source.map (·.1)) a b c with
  | error e => rw [hp] at h; cases h
  | ok ch =>
    rw [hp] at h
    simp only [bind, Except.bind, Except.ok.injEq] at h
    subst h
    obtain ⟨_, _, _, _, hle⟩ := renumPlan_ok _ a b c ch hp
    intro p hpm
    have hQ := rebuild_all (fun line => ∀ n, line.number = some n → n ≤ maxLineNumber)
      (l.lines.map (renumNumberOnly ch)) ?_ p hpm
    · exact hQ p.1 (s2 p hpm)
    · intro x hx
      obtain ⟨y, hy, rfl⟩ := List.mem_map.1 hx
      obtain ⟨q, hq, rfl⟩ := List.mem_map.1 hy
      intro n hn
      unfold renumNumberOnly at hn
      rw [hl.coherent q hq] at hn
      simp only at hn
      cases hf : List.find? (fun p => p.1 == q.1) ch with
      | none =>
        rw [hf] at hn
        simp only at hn
        rw [hl.coherent q hq] at hn
        cases hn
        exact hl.bounded q hq
      | some c' =>
        rw [hf] at hn
        simp only [Option.some.injEq] at hn
        rw [← hn]
        exact hle c' (List.mem_of_find?_eq_some hf)

/-! ### load_str keeps the store well-formed -/

theorem wf_loadStr (lexFn : Str → Option Nat × List Token) (hlex : ∀ s n, (lexFn s).1 = some n → n ≤ maxLineNumber)
    {l l' : Listing} (hl : WF l) (s : Str) (h : l.loadStr lexFn s = .ok l') : WF l' := by
  unfold loadStr at h
  split at h
  · cases h
  · simp only at h
    split at h
    · cases h
    split at h
    · cases hn : (lexFn s).1 with
      | none => rw [hn] at h; cases h; exact hl
      | some n => rw [hn] at h; cases h; exact wf_remove hl (some n)
    · split at h
      · cases h
      · rename_i hnone
        cases h
        cases hn : (lexFn s).1 with
        | none => simp [hn] at hnone
        | some n => exact wf_insert hl _ n rfl (hlex s n hn)

example : ((({} : Listing).loadStr (fun _ => (some 10, [Token.unknown "X".toList])) "10 X".toList).toOption.map
    (·.source.map (·.1))) = some [10] ∧
    (match ({} : Listing).loadStr (fun _ => (none, [Token.unknown "X".toList])) "X".toList with
      | .error e => e.code | .ok _ => 0) = Code.directStatementInFile := by decide

/-! ### the invariant holds after every history -/

/-- the operations of the program store (numbers are line numbers, 0..65529) -/
inductive Op where
  | ins (n : Fin 65530) (tokens : List Token)
  | del (n : Option Nat)
  | delRange (lo hi : Option Nat)
  | renum (newStart oldStart step : Nat)
  | clear

/-- state after an operation (an error leaves the store as it was) -/
def step (l : Listing) : Op → Listing
  | .ins n ts => l.insert { number := some n.val, tokens := ts }
  | .del n => (l.remove n).1
  | .delRange lo hi => (l.removeRange lo hi).1
  | .renum a b c => match l.renum renumNumberOnly a b c with
    | .ok l' => l'
    | .error _ => l
  | .clear => l.clear

/-- strictly ascending keys and "stored under its own number" hold after every history … -/
theorem sorted_run (ops : List Op) :
    Sorted (ops.foldl step {}).source ∧ ∀ p ∈ (ops.foldl step {}).source, p.2.number = some p.1 := by
  have gen : ∀ (ops : List Op) (l : Listing), (Sorted l.source ∧ ∀ p ∈ l.source, p.2.number = some p.1) →
      Sorted (ops.foldl step l).source ∧ ∀ p ∈ (ops.foldl step l).source, p.2.number = some p.1 := by
    intro ops
    induction ops with
    | nil => intro l h; exact h
    | cons op ops ih =>
      intro l h
      simp only [List.foldl_cons]
      apply ih
      cases op with
      | ins n ts =>
        refine ⟨sorted_insertSorted _ _ h.1, ?_⟩
        intro p hp
        rcases mem_insertSorted hp with rfl | hp
        · rfl
        · exact h.2 p hp
      | del n =>
        cases n with
        | none => exact h
        | some n =>
          exact ⟨sorted_filter _ h.1, fun p hp => h.2 p (List.mem_filter.1 hp).1⟩
      | delRange lo hi =>
        simp only [step]
        rw [removeRange_source]
        exact ⟨sorted_filter _ h.1, fun p hp => h.2 p (List.mem_filter.1 hp).1⟩
      | renum a b c =>
        simp only [step]
        cases hr : l.renum renumNumberOnly a b c with
        | error e => exact h
        | ok l' => exact renum_sorted _ l l' a b c hr
      | clear => exact ⟨sorted_nil, fun _ hp => by cases hp⟩
  exact gen ops {} ⟨sorted_nil, fun _ hp => by cases hp⟩

/-- … and so does the whole invariant (keys ≤ 65529 included) -/
theorem wf_run (ops : List Op) : WF (ops.foldl step {}) := by
  have gen : ∀ (ops : List Op) (l : Listing), WF l → WF (ops.foldl step l) := by
    intro ops
    induction ops with
    | nil => intro l h; exact h
    | cons op ops ih =>
      intro l h
      simp only [List.foldl_cons]
      apply ih
      cases op with
      | ins n ts =>
        exact wf_insert h { number := some n.val, tokens := ts } n.val rfl
          (by have := n.isLt; simp only [maxLineNumber]; omega)
      | del n => exact wf_remove h n
      | delRange lo hi => exact wf_removeRange h lo hi
      | renum a b c =>
        simp only [step]
        cases hr : l.renum renumNumberOnly a b c with
        | error e => exact h
        | ok l' => exact wf_renum h a b c hr
      | clear => exact wf_empty
  exact gen ops {} wf_empty

example : WF ([Op.ins ⟨10, by omega⟩ [], Op.ins ⟨5, by omega⟩ [], Op.delRange none (some 7),
    Op.renum 100 0 10].foldl step {}) := wf_run _

/-! ### the statements LIST and DELETE: operand forms, parser, runtime

  Helper lemmas: `Lemmas/RangeForms.lean`.  Parser states: `st0 ts cs ce` is the state with the
  tokens `ts` still to read, no look-ahead, no remark seen.  `lit a` is the token the lexer makes of
  the decimal numeral of `a` (`number_lit`).  Before every operand token an arbitrary run of
  `.whitespace _` tokens (`AllWs ws`) is allowed; `[]` gives the forms without whitespace.
  What follows the operand is constrained only as far as the parser looks: `StmtEnd tl` (end of the
  tokens, `:`, ELSE or a remark, after any whitespace) always suffices. -/

section Statements
open Parse Lemmas.RangeForms Lemmas.C19 _root_.Basic.Runtime

/-- `n`: both ends of the range are `n` -/
theorem operand_n (ws tl : List Token) (a : Nat) (hw : AllWs ws) (ha : a ≤ 65529)
    (htl : NoMinusNext tl) (cs ce : Nat) :
    ∃ c₁ c₂ st', lineNumberRange.run (st0 (ws ++ lit a :: tl) cs ce)
      = .ok ((lineExpr c₁ a, lineExpr c₂ a), st') :=
  ⟨_, _, _, range_n ws (lit a) _ a tl hw (lit_isNum a) (parseU16_lit ha) ha htl cs ce⟩

/-- `n-`: from `n` to 65529 -/
theorem operand_n_minus (ws ws1 tl : List Token) (a : Nat) (hw : AllWs ws) (hw1 : AllWs ws1)
    (ha : a ≤ 65529) (htl : NoNumNext tl) (cs ce : Nat) :
    ∃ c₁ c₂ st', lineNumberRange.run (st0 (ws ++ lit a :: (ws1 ++ .operator .minus :: tl)) cs ce)
      = .ok ((lineExpr c₁ a, lineExpr c₂ 65529), st') :=
  ⟨_, _, _, range_n_minus ws ws1 (lit a) _ a tl hw hw1 (lit_isNum a) (parseU16_lit ha) ha htl cs ce⟩

/-- `-n`: from 0 to `n` (whatever follows) -/
theorem operand_minus_n (ws ws1 tl : List Token) (b : Nat) (hw : AllWs ws) (hw1 : AllWs ws1)
    (hb : b ≤ 65529) (cs ce : Nat) :
    ∃ c₁ c₂ st', lineNumberRange.run (st0 (ws ++ .operator .minus :: (ws1 ++ lit b :: tl)) cs ce)
      = .ok ((lineExpr c₁ 0, lineExpr c₂ b), st') :=
  ⟨_, _, _, range_minus_n ws ws1 (lit b) _ b tl hw hw1 (lit_isNum b) (parseU16_lit hb) hb cs ce⟩

/-- `a-b` with `a ≤ b` (whatever follows) -/
theorem operand_a_minus_b (ws ws1 ws2 tl : List Token) (a b : Nat) (hw : AllWs ws) (hw1 : AllWs ws1)
    (hw2 : AllWs ws2) (hab : a ≤ b) (hb : b ≤ 65529) (cs ce : Nat) :
    ∃ c₁ c₂ st', lineNumberRange.run
        (st0 (ws ++ lit a :: (ws1 ++ .operator .minus :: (ws2 ++ lit b :: tl))) cs ce)
      = .ok ((lineExpr c₁ a, lineExpr c₂ b), st') :=
  ⟨_, _, _, range_n_minus_n ws ws1 ws2 (lit a) (lit b) _ _ a b tl hw hw1 hw2 (lit_isNum a) (lit_isNum b)
    (parseU16_lit (Nat.le_trans hab hb)) (parseU16_lit hb) hab hb cs ce⟩

/-- no operand: the full range 0 to 65529 -/
theorem operand_none (tl : List Token) (htl : StmtEnd tl) (cs ce : Nat) :
    ∃ c₁ c₂ st', lineNumberRange.run (st0 tl cs ce)
      = .ok ((lineExpr c₁ 0, lineExpr c₂ 65529), st') :=
  ⟨_, _, _, range_empty tl htl.noNum htl.noMinus cs ce⟩

/-- an inverted range is refused with UNDEFINED LINE; the result is an error value, so no statement
    is produced and nothing else happens -/
theorem operand_inverted (ws ws1 ws2 tl : List Token) (a b : Nat) (hw : AllWs ws) (hw1 : AllWs ws1)
    (hw2 : AllWs ws2) (hab : b < a) (ha : a ≤ 65529) (cs ce : Nat) :
    ∃ e, lineNumberRange.run
        (st0 (ws ++ lit a :: (ws1 ++ .operator .minus :: (ws2 ++ lit b :: tl))) cs ce) = .error e ∧
      e.code = Code.undefinedLine :=
  ⟨_, range_inverted ws ws1 ws2 (lit a) (lit b) _ _ a b tl hw hw1 hw2 (lit_isNum a) (lit_isNum b)
    (parseU16_lit ha) (parseU16_lit (by simp only [maxLineNumber]; omega)) hab ha cs ce, rfl⟩

/-- a number above 65529 in first position (forms `n`, `n-`, `n-m`; whatever follows) is refused
    with UNDEFINED LINE; `t` is any numeral token spelling `a` in decimal -/
theorem operand_first_too_large (ws tl : List Token) (t : Token) (a : Nat) (hw : AllWs ws)
    (ht : IsNum t (RStd.natDigits a)) (ha : 65529 < a) (cs ce : Nat) :
    ∃ e, lineNumberRange.run (st0 (ws ++ t :: tl) cs ce) = .error e ∧ e.code = Code.undefinedLine :=
  ⟨_, range_bad_first ws t _ tl hw ht (parseU16_lit_bad ha) cs ce, rfl⟩

/-- … in the form `-n` -/
theorem operand_upto_too_large (ws ws1 tl : List Token) (t : Token) (b : Nat) (hw : AllWs ws)
    (hw1 : AllWs ws1) (ht : IsNum t (RStd.natDigits b)) (hb : 65529 < b) (cs ce : Nat) :
    ∃ e, lineNumberRange.run (st0 (ws ++ .operator .minus :: (ws1 ++ t :: tl)) cs ce) = .error e ∧
      e.code = Code.undefinedLine :=
  ⟨_, range_minus_bad ws ws1 t _ tl hw hw1 ht (parseU16_lit_bad hb) cs ce, rfl⟩

/-- … as the second number of `a-n` -/
theorem operand_second_too_large (ws ws1 ws2 tl : List Token) (t : Token) (a b : Nat) (hw : AllWs ws)
    (hw1 : AllWs ws1) (hw2 : AllWs ws2) (ht : IsNum t (RStd.natDigits b)) (ha : a ≤ 65529)
    (hb : 65529 < b) (cs ce : Nat) :
    ∃ e, lineNumberRange.run
        (st0 (ws ++ lit a :: (ws1 ++ .operator .minus :: (ws2 ++ t :: tl))) cs ce) = .error e ∧
      e.code = Code.undefinedLine :=
  ⟨_, range_bad_second ws ws1 ws2 (lit a) t _ _ a tl hw hw1 hw2 (lit_isNum a) ht (parseU16_lit ha) ha
    (parseU16_lit_bad hb) cs ce, rfl⟩

/-- a numeral token whose text is no `u16` at all (e.g. `1.5`, `1E3`) is refused as well -/
theorem operand_not_u16 (ws tl : List Token) (t : Token) (s : Str) (hw : AllWs ws) (ht : IsNum t s)
    (hs : Fmt.parseU16 s = none) (cs ce : Nat) :
    ∃ e, lineNumberRange.run (st0 (ws ++ t :: tl) cs ce) = .error e ∧ e.code = Code.undefinedLine :=
  ⟨_, range_bad_first ws t s tl hw ht (fun a h => by rw [hs] at h; cases h) cs ce, rfl⟩

/-- the lexer makes `lit a` of the decimal numeral of `a` -/
theorem lit_is_lexed (a : Nat) (ha : a ≤ 65535) (rest : List Char) (hb : Lex.NumBoundary rest) :
    Lex.number (RStd.natDigits a ++ rest) = (lit a, rest) := number_lit a ha rest hb

example : ∃ c₁ c₂ st', lineNumberRange.run (st0 [lit 10] 0 4)
    = .ok ((lineExpr c₁ 10, lineExpr c₂ 10), st') :=
  operand_n [] [] 10 AllWs.nil (by decide) stmtEnd_nil.noMinus 0 4
example : ∃ c₁ c₂ st', lineNumberRange.run (st0 [lit 10, .operator .minus, .colon, .word .end] 0 6)
    = .ok ((lineExpr c₁ 10, lineExpr c₂ 65529), st') :=
  operand_n_minus [] [] _ 10 AllWs.nil AllWs.nil (by decide) (stmtEnd_colon _).noNum 0 6
example : ∃ c₁ c₂ st', lineNumberRange.run (st0 [.whitespace 1, .operator .minus, .whitespace 2, lit 40000] 0 4)
    = .ok ((lineExpr c₁ 0, lineExpr c₂ 40000), st') :=
  operand_minus_n [.whitespace 1] [.whitespace 2] [] 40000 AllWs.nil.cons AllWs.nil.cons (by decide) 0 4
example : ∃ c₁ c₂ st', lineNumberRange.run (st0 [lit 10, .operator .minus, lit 65529] 0 4)
    = .ok ((lineExpr c₁ 10, lineExpr c₂ 65529), st') :=
  operand_a_minus_b [] [] [] [] 10 65529 AllWs.nil AllWs.nil AllWs.nil (by decide) (by decide) 0 4
example : ∃ c₁ c₂ st', lineNumberRange.run (st0 [.whitespace 1, .word .else] 0 4)
    = .ok ((lineExpr c₁ 0, lineExpr c₂ 65529), st') :=
  operand_none _ (stmtEnd_ws [.whitespace 1] _ AllWs.nil.cons (stmtEnd_else [])) 0 4
example : ∃ e, lineNumberRange.run (st0 [lit 20, .operator .minus, lit 10] 0 6) = .error e ∧
    e.code = Code.undefinedLine :=
  operand_inverted [] [] [] [] 20 10 AllWs.nil AllWs.nil AllWs.nil (by decide) (by decide) 0 6
example : ∃ e, lineNumberRange.run (st0 [.literal (.single (RStd.natDigits 65530))] 0 6) = .error e ∧
    e.code = Code.undefinedLine :=
  operand_first_too_large [] [] _ 65530 AllWs.nil (Or.inr (Or.inl rfl)) (by decide) 0 6
example : ∃ e, lineNumberRange.run (st0 [.operator .minus, .literal (.single (RStd.natDigits 70000))] 0 6)
    = .error e ∧ e.code = Code.undefinedLine :=
  operand_upto_too_large [] [] [] _ 70000 AllWs.nil AllWs.nil (Or.inr (Or.inl rfl)) (by decide) 0 6
example : ∃ e, lineNumberRange.run
    (st0 [lit 10, .operator .minus, .literal (.double (RStd.natDigits 123456789))] 0 6) = .error e ∧
    e.code = Code.undefinedLine :=
  operand_second_too_large [] [] [] [] _ 10 123456789 AllWs.nil AllWs.nil AllWs.nil
    (Or.inr (Or.inr rfl)) (by decide) (by decide) 0 6
example : ∃ e, lineNumberRange.run (st0 [.literal (.single "1.5".toList)] 0 6) = .error e ∧
    e.code = Code.undefinedLine :=
  operand_not_u16 [] [] _ _ AllWs.nil (Or.inr (Or.inl rfl)) (by decide) 0 6
example : Lex.number ("10-".toList) = (lit 10, "-".toList) :=
  lit_is_lexed 10 (by decide) "-".toList (by decide)

/-! #### whole lines through `Parse.parse` -/

/-- a bare DELETE (followed by the end of the line, `:`, ELSE or a remark) does not parse:
    ILLEGAL FUNCTION CALL (fix D17), and no statement is produced -/
theorem delete_bare_refused (ln : Option Nat) (ws tl : List Token) (hw : AllWs ws) (htl : StmtEnd tl) :
    ∃ e, parse ln (ws ++ .word .delete :: tl) = .error e ∧ e.code = Code.illegalFunctionCall ∧
      e.line = ln := by
  refine ⟨(bareDeleteErr (width ws) (width ws + 6)).inLine ln, ?_, rfl, rfl⟩
  unfold parse
  rw [parseTokens_delete_bare ws tl hw htl]

/-- a bare LIST parses to the LIST statement for the full range 0 to 65529 -/
theorem list_bare_full_range (ln : Option Nat) (ws tl : List Token) (hw : AllWs ws) (htl : LineEnd tl) :
    ∃ c c₁ c₂, parse ln (ws ++ .word .list :: tl)
      = .ok [.list c (lineExpr c₁ 0) (lineExpr c₂ 65529)] := by
  have h := (parseTokens_list ws tl hw).2 _ _ _ _
    (range_empty tl htl.stmtEnd.noNum htl.stmtEnd.noMinus _ _) (by rw [peek_afterPeek, htl])
  exact ⟨_, _, _, by unfold parse; rw [h]; rfl⟩

/-- the line `LIST a-b`, `a ≤ b ≤ 65529`, parses to the LIST statement with ends `a` and `b` -/
theorem list_line_a_minus_b (ln : Option Nat) (ws ws0 ws1 ws2 tl : List Token) (a b : Nat)
    (hw : AllWs ws) (hw0 : AllWs ws0) (hw1 : AllWs ws1) (hw2 : AllWs ws2) (htl : LineEnd tl)
    (hab : a ≤ b) (hb : b ≤ 65529) :
    ∃ c c₁ c₂, parse ln (ws ++ .word .list ::
        (ws0 ++ lit a :: (ws1 ++ .operator .minus :: (ws2 ++ lit b :: tl))))
      = .ok [.list c (lineExpr c₁ a) (lineExpr c₂ b)] := by
  have h := (parseTokens_list ws _ hw).2 _ _ _ _
    (range_n_minus_n ws0 ws1 ws2 (lit a) (lit b) _ _ a b tl hw0 hw1 hw2 (lit_isNum a) (lit_isNum b)
      (parseU16_lit (Nat.le_trans hab hb)) (parseU16_lit hb) hab hb _ _)
    (by rw [peek_st0, htl])
  exact ⟨_, _, _, by unfold parse; rw [h]⟩

/-- the line `DELETE a-b`, `a ≤ b ≤ 65529`, parses to the DELETE statement with ends `a` and `b` -/
theorem delete_line_a_minus_b (ln : Option Nat) (ws ws0 ws1 ws2 tl : List Token) (a b : Nat)
    (hw : AllWs ws) (hw0 : AllWs ws0) (hw1 : AllWs ws1) (hw2 : AllWs ws2) (htl : LineEnd tl)
    (hab : a ≤ b) (hb : b ≤ 65529) :
    ∃ c c₁ c₂, parse ln (ws ++ .word .delete ::
        (ws0 ++ lit a :: (ws1 ++ .operator .minus :: (ws2 ++ lit b :: tl))))
      = .ok [.delete c (lineExpr c₁ a) (lineExpr c₂ b)] := by
  have hne : isEnd (peekTok (ws0 ++ lit a :: (ws1 ++ .operator .minus :: (ws2 ++ lit b :: tl))) false
      (width ws) (width ws + 6)) = false := by
    rw [(afterPeek_solid ws0 (lit a) _ hw0 (lit_isNum a).solid _ _).1]
    rcases lit_isNum a with h | h | h <;> rw [h] <;> rfl
  have h := (parseTokens_delete ws _ hw hne).2 _ _ _ _
    (range_n_minus_n ws0 ws1 ws2 (lit a) (lit b) _ _ a b tl hw0 hw1 hw2 (lit_isNum a) (lit_isNum b)
      (parseU16_lit (Nat.le_trans hab hb)) (parseU16_lit hb) hab hb _ _)
    (by rw [peek_st0, htl])
  exact ⟨_, _, _, by unfold parse; rw [h]⟩

/-- the line `DELETE a-b` with `a > b` does not parse: UNDEFINED LINE -/
theorem delete_line_inverted (ln : Option Nat) (ws ws0 ws1 ws2 tl : List Token) (a b : Nat)
    (hw : AllWs ws) (hw0 : AllWs ws0) (hw1 : AllWs ws1) (hw2 : AllWs ws2)
    (hab : b < a) (ha : a ≤ 65529) :
    ∃ e, parse ln (ws ++ .word .delete ::
        (ws0 ++ lit a :: (ws1 ++ .operator .minus :: (ws2 ++ lit b :: tl)))) = .error e ∧
      e.code = Code.undefinedLine := by
  have hne : isEnd (peekTok (ws0 ++ lit a :: (ws1 ++ .operator .minus :: (ws2 ++ lit b :: tl))) false
      (width ws) (width ws + 6)) = false := by
    rw [(afterPeek_solid ws0 (lit a) _ hw0 (lit_isNum a).solid _ _).1]
    rcases lit_isNum a with h | h | h <;> rw [h] <;> rfl
  have h := (parseTokens_delete ws _ hw hne).1 _
    (range_inverted ws0 ws1 ws2 (lit a) (lit b) _ _ a b tl hw0 hw1 hw2 (lit_isNum a) (lit_isNum b)
      (parseU16_lit ha) (parseU16_lit (by simp only [maxLineNumber]; omega)) hab ha _ _)
  exact ⟨_, by unfold parse; rw [h], rfl⟩

example : ∃ e, parse none [.word .delete] = .error e ∧ e.code = Code.illegalFunctionCall ∧ e.line = none :=
  delete_bare_refused none [] [] AllWs.nil stmtEnd_nil
example : ∃ e, parse (some 10) [.whitespace 1, .word .delete, .whitespace 1, .colon, .word .end] = .error e ∧
    e.code = Code.illegalFunctionCall ∧ e.line = some 10 :=
  delete_bare_refused (some 10) [.whitespace 1] _ AllWs.nil.cons
    (stmtEnd_ws [.whitespace 1] _ AllWs.nil.cons (stmtEnd_colon _))
example : ∃ e, parse none [.word .delete, .word .else, .word .end] = .error e ∧
    e.code = Code.illegalFunctionCall ∧ e.line = none :=
  delete_bare_refused none [] _ AllWs.nil (stmtEnd_else _)
example : ∃ c c₁ c₂, parse none [.word .list] = .ok [.list c (lineExpr c₁ 0) (lineExpr c₂ 65529)] :=
  list_bare_full_range none [] [] AllWs.nil lineEnd_nil
example : ∃ c c₁ c₂, parse none [.word .list, .whitespace 1, lit 10, .operator .minus, lit 20]
    = .ok [.list c (lineExpr c₁ 10) (lineExpr c₂ 20)] :=
  list_line_a_minus_b none [] [.whitespace 1] [] [] [] 10 20 AllWs.nil AllWs.nil.cons AllWs.nil AllWs.nil
    lineEnd_nil (by decide) (by decide)
example : ∃ c c₁ c₂, parse none [.word .delete, .whitespace 1, lit 10, .operator .minus, lit 20]
    = .ok [.delete c (lineExpr c₁ 10) (lineExpr c₂ 20)] :=
  delete_line_a_minus_b none [] [.whitespace 1] [] [] [] 10 20 AllWs.nil AllWs.nil.cons AllWs.nil AllWs.nil
    lineEnd_nil (by decide) (by decide)
example : ∃ e, parse none [.word .delete, .whitespace 1, lit 20, .operator .minus, lit 10] = .error e ∧
    e.code = Code.undefinedLine :=
  delete_line_inverted none [] [.whitespace 1] [] [] [] 20 10 AllWs.nil AllWs.nil.cons AllWs.nil AllWs.nil
    (by decide) (by decide)

/-! #### run time -/

/-- DELETE at run time, with the two ends of the range on the stack (`a` below `b`) and both of
    them line numbers: the statement ends the program (`Event.stopped`), the store afterwards is the
    store before with exactly the lines numbered `lo … hi` removed, the invariant is kept, and the
    store is marked dirty exactly when a line was removed.
    (The operands the compiled statement pushes are `Single` values built by `Float32.ofNat`, which
    the kernel cannot evaluate; hence the hypotheses on `toLineNumber` instead of concrete values.) -/
theorem delete_removes_exactly (s : Runtime) (stk : Array Val) (a b : Val) (lo hi : Nat)
    (h : s.stack = (stk.push a).push b) (ha : a.toLineNumber = .ok (some lo))
    (hb : b.toLineNumber = .ok (some hi)) :
    ((doDelete.run).run s).1 = .ok .stopped ∧
    abs ((doDelete.run).run s).2.listing = (abs s.listing).deleteRange lo hi ∧
    (WF s.listing → WF ((doDelete.run).run s).2.listing) ∧
    (((doDelete.run).run s).2.dirty = true ↔
      s.dirty = true ∨ ∃ k, lo ≤ k ∧ k ≤ hi ∧ (abs s.listing k).isSome = true) := by
  obtain ⟨h1, h2, h3⟩ := doDelete_listing s stk a b (some lo) (some hi) h ha hb
  refine ⟨h1, ?_, ?_, ?_⟩
  · rw [h2]; exact removeRange_refines s.listing lo hi
  · intro hwf; rw [h2]; exact wf_removeRange hwf _ _
  · rw [h3, Bool.or_eq_true, (removeRange_exact s.listing (some lo) (some hi)).2]
    simp only [inRange_some, and_assoc]

/-- … and when no stored line lies in the range the store is the very same and `dirty` keeps its
    value -/
theorem delete_nothing_in_range (s : Runtime) (stk : Array Val) (a b : Val) (lo hi : Nat)
    (h : s.stack = (stk.push a).push b) (ha : a.toLineNumber = .ok (some lo))
    (hb : b.toLineNumber = .ok (some hi))
    (hn : ∀ k, lo ≤ k → k ≤ hi → abs s.listing k = none) :
    ((doDelete.run).run s).1 = .ok .stopped ∧
    ((doDelete.run).run s).2.listing = s.listing ∧ ((doDelete.run).run s).2.dirty = s.dirty := by
  have hany : s.listing.source.any (fun p => inRange (some lo) (some hi) p.1) = false := by
    cases hc : s.listing.source.any (fun p => inRange (some lo) (some hi) p.1) with
    | false => rfl
    | true =>
      obtain ⟨k, hk, hs⟩ := (any_key_iff (fun k => inRange (some lo) (some hi) k) s.listing.source).1 hc
      have hk' := (inRange_some lo hi k).1 hk
      have : abs s.listing k = none := hn k hk'.1 hk'.2
      unfold abs at this
      rw [this] at hs; cases hs
  rw [doDelete_noop s stk a b _ _ h ha hb hany]
  exact ⟨rfl, doEnd_listing _, doEnd_dirty _⟩

/-- an operand that is no line number (`toLineNumber` fails: above 65529, negative, not a number)
    makes DELETE raise that error; the store and its dirty flag are unchanged -/
theorem delete_not_a_line_number (s : Runtime) (stk : Array Val) (a b : Val) (e : Error)
    (h : s.stack = (stk.push a).push b)
    (hab : a.toLineNumber = .error e ∨ (∃ lo, a.toLineNumber = .ok lo) ∧ b.toLineNumber = .error e) :
    ((doDelete.run).run s).1 = .error e ∧
    ((doDelete.run).run s).2.listing = s.listing ∧ ((doDelete.run).run s).2.dirty = s.dirty := by
  rcases hab with ha | ⟨⟨lo, ha⟩, hb⟩
  · rw [doDelete_bad_lo s stk a b e h ha]; exact ⟨rfl, rfl, rfl⟩
  · rw [doDelete_bad_hi s stk a b lo e h ha hb]; exact ⟨rfl, rfl, rfl⟩

/-- which values are no line numbers: anything whose `u16` value exceeds 65529 (UNDEFINED LINE),
    and anything that is no `u16` (the error of that conversion) -/
theorem not_a_line_number (v : Val) :
    (∀ n, v.toU16 = .ok n → 65529 < n → v.toLineNumber = err Code.undefinedLine) ∧
    (∀ e, v.toU16 = .error e → v.toLineNumber = .error e) :=
  ⟨fun n h hn => toLineNumber_big v n h hn, fun e h => toLineNumber_noU16 v e h⟩

/-- LIST at run time, with two line numbers on the stack: the runtime enters the listing state for
    that range; nothing is emitted yet and nothing else changes (the operands are popped) -/
theorem list_enters_listing (s : Runtime) (stk : Array Val) (a b : Val) (lo hi : Nat)
    (h : s.stack = (stk.push a).push b) (ha : a.toLineNumber = .ok (some lo))
    (hb : b.toLineNumber = .ok (some hi)) :
    (doList.run).run s = (.ok (), { s with stack := stk, state := .listing (some lo) (some hi) }) :=
  doList_ok s stk a b _ _ h ha hb

/-- … and with an operand that is no line number LIST raises the error and no listing state is
    entered -/
theorem list_not_a_line_number (s : Runtime) (stk : Array Val) (a b : Val) (e : Error)
    (h : s.stack = (stk.push a).push b)
    (hab : a.toLineNumber = .error e ∨ (∃ lo, a.toLineNumber = .ok lo) ∧ b.toLineNumber = .error e) :
    (doList.run).run s = (.error e, { s with stack := stk }) := by
  rcases hab with ha | ⟨⟨lo, ha⟩, hb⟩
  · exact doList_bad_lo s stk a b e h ha
  · exact doList_bad_hi s stk a b lo e h ha hb

/-- `listLines` is `listIter` with the last range remembered -/
theorem listLines_fst (l : Listing) : ∀ (fuel : Nat) (lo hi : Option Nat),
    (listLines l fuel lo hi).map (·.1) = listIter l fuel lo hi
  | 0, _, _ => rfl
  | fuel + 1, lo, hi => by
    unfold listLines listIter
    cases l.listLine lo hi with
    | none => rfl
    | some x =>
      obtain ⟨x, lo', hi'⟩ := x
      simp only
      rw [← listLines_fst l fuel lo' hi']
      cases listLines l fuel lo' hi' <;> rfl

/-- LIST at run time: from the listing state of the range `lo … hi` over a well-formed store, as
    many calls of `Runtime.execute` as there are stored lines in the range return exactly those
    lines, in ascending order, each as an `Event.list` with its listed text and error columns
    (`list_emits_exactly`); afterwards the range in the state is exhausted, and apart from the
    state's range and the print column nothing has changed, the store included -/
theorem list_runtime_emits_exactly (env : Env) (n : Nat) (s : Runtime) (lo hi : Nat)
    (hs : s.state = .listing (some lo) (some hi)) (hl : WF s.listing) :
    ∃ r : Option Nat × Option Nat,
      executeN env n (listSpec (abs s.listing) lo hi).length s =
        ((listSpec (abs s.listing) lo hi).map fun p =>
            Event.list (render s.listing p).1 (render s.listing p).2,
          { s with state := .listing r.1 r.2,
                   printCol := if (listSpec (abs s.listing) lo hi).isEmpty then s.printCol else 0 }) ∧
      s.listing.listLine r.1 r.2 = none := by
  have hi' := list_emits_exactly s.listing hl lo hi
  rw [← listLines_fst] at hi'
  cases hq : listLines s.listing (s.listing.source.length + 1) (some lo) (some hi) with
  | none => rw [hq] at hi'; cases hi'
  | some q =>
    obtain ⟨out, r⟩ := q
    rw [hq] at hi'
    simp only [Option.map_some, Option.some.injEq] at hi'
    subst hi'
    have := executeN_listing env n _ s _ _ _ r hs hq
    simp only [List.length_map, List.map_map, List.isEmpty_map] at this
    exact ⟨r, this, listLines_last _ _ _ _ _ _ hq⟩

/-- once the range is exhausted the next call of `execute` carries on with the rest of the direct
    line exactly as from the running state (LIST emits nothing more) -/
theorem list_runtime_done (env : Env) (s : Runtime) (n : Nat) (lo hi : Option Nat)
    (hs : s.state = .listing lo hi) (hl : s.listing.listLine lo hi = none)
    (hd : s.listing.directErrors.isEmpty = true) :
    execute env s n = execute env { s with state := .running } n :=
  execute_listing_done env s n lo hi hs hl hd

/-- the store of the examples: lines 0, 10 and 65529 -/
def exStore : Listing :=
  ({} : Listing).insert ⟨some 10, [.word .end]⟩ |>.insert ⟨some 0, [.word .cls]⟩
    |>.insert ⟨some 65529, [.word .stop]⟩

/-- `DELETE 10-` on it: the stack holds 10 and 65529.0 (as `f32` bits) -/
def exDelete : Runtime :=
  { listing := exStore, stack := (#[].push (.int 10)).push (.sng 0x477FF900) }

example : (Val.int 10).toLineNumber = .ok (some 10) ∧
    (Val.sng 0x477FF900).toLineNumber = .ok (some 65529) := by decide
theorem exStore_wf : WF exStore :=
  wf_insert (wf_insert (wf_insert wf_empty _ 10 rfl (by decide)) _ 0 rfl (by decide)) _ 65529 rfl (by decide)
example : abs ((doDelete.run).run exDelete).2.listing = (abs exStore).deleteRange 10 65529 :=
  (delete_removes_exactly exDelete #[] (.int 10) (.sng 0x477FF900) 10 65529 rfl (by decide) (by decide)).2.1
example : ((doDelete.run).run exDelete).2.listing.source.map (·.1) = [0] ∧
    ((doDelete.run).run exDelete).2.dirty = true := by decide
/-- `DELETE 11-20`: nothing there -/
example : ((doDelete.run).run { exDelete with stack := (#[].push (.int 11)).push (.int 20) }).2.listing
    = exStore :=
  (delete_nothing_in_range { exDelete with stack := (#[].push (.int 11)).push (.int 20) } #[]
    (.int 11) (.int 20) 11 20 rfl (by decide) (by decide) (by
      intro k h1 h2
      have : ∀ k : Fin 21, 11 ≤ k.val → abs exStore k.val = none := by decide
      exact this ⟨k, by omega⟩ h1)).2.1
/-- 65530.0 and -1 are no line numbers -/
example : (Val.sng 0x477FFA00).toLineNumber = err Code.undefinedLine ∧
    (Val.int (-1)).toLineNumber = err Code.overflow := by decide
example : ((doDelete.run).run { exDelete with stack := (#[].push (.int 10)).push (.sng 0x477FFA00) }).1
    = err Code.undefinedLine ∧
    ((doDelete.run).run { exDelete with stack := (#[].push (.int 10)).push (.sng 0x477FFA00) }).2.listing
    = exStore :=
  have h := delete_not_a_line_number { exDelete with stack := (#[].push (.int 10)).push (.sng 0x477FFA00) }
    #[] (.int 10) (.sng 0x477FFA00) (Error.mk' Code.undefinedLine) rfl
    (Or.inr ⟨⟨some 10, by decide⟩, by decide⟩)
  ⟨h.1, h.2.1⟩
example : (Val.sng 0x477FFA00).toLineNumber = err Code.undefinedLine :=
  (not_a_line_number _).1 65530 (by decide) (by decide)
example : (Val.str []).toLineNumber = err Code.typeMismatch := (not_a_line_number _).2 _ rfl
example : (doList.run).run exDelete
    = (.ok (), { exDelete with stack := #[], state := .listing (some 10) (some 65529) }) :=
  list_enters_listing exDelete #[] (.int 10) (.sng 0x477FF900) 10 65529 rfl (by decide) (by decide)
example : (doList.run).run { exDelete with stack := (#[].push (.int (-1))).push (.int 5) }
    = (.error (Error.mk' Code.overflow), { exDelete with stack := #[] }) :=
  list_not_a_line_number _ #[] (.int (-1)) (.int 5) _ rfl (Or.inl (by decide))
/-- `LIST 10-`: two calls of `execute` return lines 10 and 65529 -/
example (env : Env) : (executeN env 100 2 { listing := exStore, state := .listing (some 10) (some 65529) }).1
    = [.list "10 END".toList [], .list "65529 STOP".toList []] := by
  obtain ⟨r, h, _⟩ := list_runtime_emits_exactly env 100
    { listing := exStore, state := .listing (some 10) (some 65529) } 10 65529 rfl
    exStore_wf
  have hs : listSpec (abs exStore) 10 65529 = [(10, ⟨some 10, [.word .end]⟩), (65529, ⟨some 65529, [.word .stop]⟩)] := by
    rw [← filter_eq_listSpec exStore
      exStore_wf]
    decide
  simp only [hs] at h
  rw [show (2 : Nat) = [(10, (⟨some 10, [.word .end]⟩ : Line)), (65529, ⟨some 65529, [.word .stop]⟩)].length from rfl, h]
  have h1 : render exStore (10, ⟨some 10, [.word .end]⟩) = ("10 END".toList, []) := by decide
  have h2 : render exStore (65529, ⟨some 65529, [.word .stop]⟩) = ("65529 STOP".toList, []) := by decide
  simp only [List.map_cons, List.map_nil, h1, h2]
example (env : Env) : execute env { listing := exStore, state := .listing (some endMark) (some endMark) } 5
    = execute env { listing := exStore, state := .running } 5 :=
  list_runtime_done env _ 5 _ _ rfl (by decide) rfl

end Statements

/-- the largest line number re-extracted from lang/mod.rs; `Gen/Limits.lean` is regenerated from /repo/src on every run, so editing one of these
    constants in the Rust source breaks this obligation -/
theorem generated_limits_documented : Gen.maxLineNumber = 65529 := by decide

end Thm.C15
end Basic
