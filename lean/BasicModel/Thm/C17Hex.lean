import BasicModel.Lemmas.HexVal
import BasicModel.Thm.C07
import BasicModel.Thm.C17Input
/-
  C17 / C07 — reading a radix constant from TEXT.

  `Val.ofStr` (the model of `impl From<&str> for Val`, val.rs) is the reader behind `VAL` and behind the
  conversion of an INPUT field for a numeric target.  It looks for `&H…` / `&…` FIRST and only then
  normalises the exponent letter D→E for `str::parse::<f64>`; a change that did the D→E replacement
  before the `&H` branch read `&H0D` as `&H0E` = 14.  The theorems below pin, for ALL digit strings:

  * `ofStr_hex` — `&H ds` / `&h ds`, `ds` a non-empty run of hexadecimal digit characters
    (`0-9 A-F a-f`, so D, d, E, e among them): the INTEGER whose value is `hexValue ds` when that is
    at most 32767 (any number of digits, leading zeros allowed); from `&H8000` on NOT an error and NOT
    a negative number but the text itself (`Val.str`) — which a numeric INPUT target then refuses and
    from which VAL drops characters at the end;
  * `ofStr_hex_D_is_13` — appending the digit `D` / `d` adds 13, `E` / `e` adds 14 (the regression);
  * `ofStr_oct` — `& ds`, octal digits; FINDING `ofStr_ampO`: in TEXT the spelling `&O17` is NOT octal
    (the lexer accepts `&O17` in a program; `from_str_radix("O17", 8)` fails);
  * `val_hex`, `val_hex_overflow` — VAL;
  * `fieldValue_hex`, `doInput_hex_field`, `inputSpec_hex_single` — INPUT.
-/
set_option linter.unusedSimpArgs false
namespace Basic
namespace Thm
namespace C17Hex
open HexVal Fmt Spec
open Basic.Runtime

/-! ### the reader -/

theorem hexValue_eq_foldFrom (ds : List Char) : hexValue ds = foldFrom 16 0 ds := rfl
theorem octValue_eq_foldFrom (ds : List Char) : octValue ds = foldFrom 8 0 ds := rfl

/-- **`&H` constants in text.**  For every non-empty run `ds` of hexadecimal digit characters the
    reader returns the Integer `hexValue ds` when it is at most 32767, and otherwise the text
    unchanged (a `Val.str`): no OVERFLOW error, no two's-complement wrap, no digit limit. -/
theorem ofStr_hex (h : Char) (hh : h = 'H' ∨ h = 'h') (ds : List Char) (hne : ds ≠ [])
    (hd : ∀ c ∈ ds, c ∈ hexDigits) :
    Val.ofStr ('&' :: h :: ds) =
      if hexValue ds ≤ 32767 then .int (Int16.ofNat (hexValue ds)) else .str ('&' :: h :: ds) := by
  have hH : (h = 'H' || h = 'h') = true := by rcases hh with rfl | rfl <;> decide
  rw [ofStr_amp, if_pos hH,
    parseI16Radix_spec 16 (by decide) ds (fun c hc => hexDigits_radixDigit c (hd c hc)),
    ← hexValue_eq_foldFrom]
  by_cases hv : hexValue ds ≤ 32767
  · simp [hne, hv]
  · simp [hne, hv, fallback_amp]

/-- no digit at all: the text itself -/
theorem ofStr_hex_empty (h : Char) (hh : h = 'H' ∨ h = 'h') : Val.ofStr ['&', h] = .str ['&', h] := by
  rcases hh with rfl | rfl <;> decide

/-- the value of a digit string that ends in the digit `c` -/
theorem hexValue_snoc (ds : List Char) (c : Char) : hexValue (ds ++ [c]) = hexValue ds * 16 + hexDigitValue c := by
  simp [hexValue, List.foldl_append]

/-- **the regression**: a final `D` (or `d`) is the digit thirteen, a final `E` (`e`) fourteen — the
    exponent-letter normalisation D→E of the decimal reader does not touch a radix constant -/
theorem ofStr_hex_D_is_13 (h : Char) (hh : h = 'H' ∨ h = 'h') (ds : List Char) (hd : ∀ c ∈ ds, c ∈ hexDigits)
    (x : Char) (k : Nat) (hx : (x = 'D' ∨ x = 'd') ∧ k = 13 ∨ (x = 'E' ∨ x = 'e') ∧ k = 14)
    (hv : hexValue ds * 16 + k ≤ 32767) :
    Val.ofStr ('&' :: h :: (ds ++ [x])) = .int (Int16.ofNat (hexValue ds * 16 + k)) := by
  have hxm : x ∈ hexDigits ∧ hexDigitValue x = k := by
    rcases hx with ⟨rfl | rfl, rfl⟩ | ⟨rfl | rfl, rfl⟩ <;> decide
  have hd' : ∀ c ∈ ds ++ [x], c ∈ hexDigits := by
    intro c hc
    rcases List.mem_append.1 hc with hc | hc
    · exact hd c hc
    · simp at hc; subst hc; exact hxm.1
  rw [ofStr_hex h hh (ds ++ [x]) (by simp) hd', hexValue_snoc, hxm.2, if_pos hv]

/-- **`&` (octal) constants in text**: the same, base 8 -/
theorem ofStr_oct (ds : List Char) (hne : ds ≠ []) (hd : ∀ c ∈ ds, c ∈ octDigits) :
    Val.ofStr ('&' :: ds) =
      if octValue ds ≤ 32767 then .int (Int16.ofNat (octValue ds)) else .str ('&' :: ds) := by
  cases ds with
  | nil => contradiction
  | cons c r =>
    obtain ⟨-, -, -, h1, h2⟩ := octDigits_radixDigit c (hd c (by simp))
    have hH : (c = 'H' || c = 'h') = false := by simp [h1, h2]
    rw [ofStr_amp, hH,
      parseI16Radix_spec 8 (by decide) (c :: r) (fun x hx =>
        ⟨(octDigits_radixDigit x (hd x hx)).1, (octDigits_radixDigit x (hd x hx)).2.1,
          (octDigits_radixDigit x (hd x hx)).2.2.1⟩),
      ← octValue_eq_foldFrom]
    by_cases hv : octValue (c :: r) ≤ 32767
    · simp [hv]
    · simp [hv, fallback_amp]

/-- FINDING: in text, `&O…` is not an octal constant (the lexer reads `&O17` in a program line as
    octal 17; `Val::from("&O17")` hands `O17` to `from_str_radix(_, 8)`, which fails) — `VAL("&O17")`
    is 0 and an INPUT reply `&O17` is refused for a numeric target -/
theorem ofStr_ampO : Val.ofStr ['&', 'O', '1', '7'] = .str ['&', 'O', '1', '7'] ∧
    Val.ofStr ['&', '1', '7'] = .int 15 := by decide

/-- FINDING: `from_str_radix` accepts a sign, so `&H-D` reads as −13 and `&H+D` as 13 -/
theorem ofStr_hex_signed : Val.ofStr ['&', 'H', '-', 'D'] = .int (-13) ∧
    Val.ofStr ['&', 'H', '+', 'D'] = .int 13 := by decide

/-! ### non-vacuity of the reader theorems -/

example : Val.ofStr ['&', 'H', '0', 'D'] = .int 13 :=
  ofStr_hex_D_is_13 'H' (.inl rfl) ['0'] (by decide) 'D' 13 (.inl ⟨.inl rfl, rfl⟩) (by decide)
example : Val.ofStr ['&', 'h', 'd', 'e'] = .int 222 :=
  ofStr_hex_D_is_13 'h' (.inr rfl) ['d'] (by decide) 'e' 14 (.inr ⟨.inr rfl, rfl⟩) (by decide)
example : Val.ofStr ['&', 'H', '0', 'D'] = .int 13 := by decide
example : Val.ofStr ['&', 'H', '7', 'F', 'F', 'F'] = .int 32767 := by decide
example : Val.ofStr ['&', 'H', '8', '0', '0', '0'] = .str ['&', 'H', '8', '0', '0', '0'] := by decide
example : Val.ofStr ['&', 'H', 'F', 'F', 'F', 'F'] = .str ['&', 'H', 'F', 'F', 'F', 'F'] := by decide
example : Val.ofStr ['&', 'H', '0', '0', '0', '0', '0', '0', '0', '1', 'e'] = .int 30 := by decide
example : Val.ofStr ['&', '7', '7', '7', '7', '7'] = .int 32767 ∧
    Val.ofStr ['&', '1', '0', '0', '0', '0', '0'] = .str ['&', '1', '0', '0', '0', '0', '0'] := by decide
/-- the decimal reader does normalise D: `1D2` is the Double 100 -/
example : (Val.ofStr ['1', 'D', '2']).ty = .dbl := by decide

/-! ### VAL -/

theorem hexDigits_not_white : ∀ c ∈ hexDigits, RStd.isWhitespace c = false := by decide

theorem trim_id (s : Str) (h1 : ∀ c ∈ s.head?, RStd.isWhitespace c = false)
    (h2 : ∀ c ∈ s.getLast?, RStd.isWhitespace c = false) : RStd.trim s = s := by
  cases s with
  | nil => rfl
  | cons a t =>
    have ha := h1 a (by simp)
    have e1 : (a :: t).dropWhile RStd.isWhitespace = a :: t := by simp [List.dropWhile_cons, ha]
    unfold RStd.trim
    rw [e1]
    cases hr : (a :: t).reverse with
    | nil => simp at hr
    | cons y ys =>
      have hy : (a :: t).getLast? = some y := by
        rw [List.getLast?_eq_head?_reverse, hr]; rfl
      have hy' := h2 y (by rw [hy]; simp)
      rw [List.dropWhile_cons, hy']
      simp only [Bool.false_eq_true, if_false]
      rw [← hr, List.reverse_reverse]

theorem trim_hex (h : Char) (hh : h = 'H' ∨ h = 'h') (ds : List Char) (hd : ∀ c ∈ ds, c ∈ hexDigits) :
    RStd.trim ('&' :: h :: ds) = '&' :: h :: ds := by
  apply trim_id
  · intro c hc; simp at hc; subst hc; decide
  · intro c hc
    have hc' := List.mem_of_getLast? hc
    simp only [List.mem_cons] at hc'
    rcases hc' with rfl | rfl | hc'
    · decide
    · rcases hh with rfl | rfl <;> decide
    · exact hexDigits_not_white c (hd c hc')

/-- VAL of a text that the reader takes as a number is that number -/
theorem val_of_ofStr (s : Str) (hs : s ≠ []) (ht : RStd.trim s = s) (n : Int16) (h : Val.ofStr s = .int n) :
    Func.val (.str s) = .ok (.int n) := by
  cases s with
  | nil => contradiction
  | cons a t =>
    simp only [Func.val, Func.trim, ht, List.length_cons]
    unfold Func.val.go
    simp [h]

/-- **`VAL("&H…")`**: the Integer `hexValue ds`, whenever that is at most 32767 -/
theorem val_hex (h : Char) (hh : h = 'H' ∨ h = 'h') (ds : List Char) (hne : ds ≠ [])
    (hd : ∀ c ∈ ds, c ∈ hexDigits) (hv : hexValue ds ≤ 32767) :
    Func.val (.str ('&' :: h :: ds)) = .ok (.int (Int16.ofNat (hexValue ds))) :=
  val_of_ofStr _ (by simp) (trim_hex h hh ds hd) _ (by rw [ofStr_hex h hh ds hne hd, if_pos hv])

example : Func.val (.str ['&', 'H', '0', 'D']) = .ok (.int 13) := by decide
example : Func.val (.str ['&', 'h', 'd', 'e']) = .ok (.int 222) := by decide
example : Func.val (.str ['&', 'H', '0', 'D']) = .ok (.int 13) :=
  val_hex 'H' (.inl rfl) ['0', 'D'] (by decide) (by decide) (by decide)
/-- blanks around the text are VAL's business (`trim`), and they are dropped -/
example : Func.val (.str [' ', '&', 'H', '0', 'D', ' ']) = .ok (.int 13) := by decide
/-- FINDING: beyond `&H7FFF`, VAL does not fail: it drops characters at the end until the rest is a
    number — `VAL("&H8000")` is `&H800` = 2048, `VAL("&HFFFF")` is `&HFFF` = 4095 -/
theorem val_hex_overflow : Func.val (.str ['&', 'H', '8', '0', '0', '0']) = .ok (.int 2048) ∧
    Func.val (.str ['&', 'H', 'F', 'F', 'F', 'F']) = .ok (.int 4095) ∧
    Func.val (.str ['&', 'O', '1', '7']) = .ok (.int 0) := by decide

/-! ### INPUT -/

/-- **INPUT, the specification's field conversion**: a field `&H…` (blanks around it allowed by the
    trimming of the field are not considered here) for a numeric target stands for `hexValue ds` -/
theorem fieldValue_hex (name : Str) (hn : name.getLast? ≠ some '$') (h : Char) (hh : h = 'H' ∨ h = 'h')
    (ds : List Char) (hne : ds ≠ []) (hd : ∀ c ∈ ds, c ∈ hexDigits) (hv : hexValue ds ≤ 32767) :
    fieldValue name ('&' :: h :: ds) = .int (Int16.ofNat (hexValue ds)) := by
  rw [C17.fieldValue_numeric name _ hn, trim_hex h hh ds hd, ofStr_hex h hh ds hne hd, if_pos hv]
  simp

/-- the same for the model's own conversion (`convertField`, read off `doInput`) -/
theorem convertField_hex (name : Str) (hn : name.getLast? ≠ some '$') (h : Char) (hh : h = 'H' ∨ h = 'h')
    (ds : List Char) (hne : ds ≠ []) (hd : ∀ c ∈ ds, c ∈ hexDigits) (hv : hexValue ds ≤ 32767) :
    C17.convertField name ('&' :: h :: ds) = .int (Int16.ofNat (hexValue ds)) := by
  rw [C17.field_conversion_spec, fieldValue_hex name hn h hh ds hne hd hv]

/-- **INPUT, the machine**: the opcode `input name` with the field `&H…` on top of the stack replaces
    it by the Integer `hexValue ds` (which the following `pop name` stores) -/
theorem doInput_hex_field (name : Str) (s : Runtime) (st : Array Val)
    (hstate : s.state = .inputRunning) (hname : name ≠ []) (hn : name.getLast? ≠ some '$')
    (h : Char) (hh : h = 'H' ∨ h = 'h') (ds : List Char) (hne : ds ≠ []) (hd : ∀ c ∈ ds, c ∈ hexDigits)
    (hv : hexValue ds ≤ 32767)
    (hs : s.stack = st.push (.str ('&' :: h :: ds))) (hroom : st.size + 1 ≤ Gen.stackMaxLen) :
    ((doInput name).run).run s =
      (.ok false, { s with stack := st.push (.int (Int16.ofNat (hexValue ds))) }) := by
  rw [C17.doInput_field name s st _ hstate hname hs hroom, convertField_hex name hn h hh ds hne hd hv]

/-- **INPUT, one numeric scalar target, reply `&H…`**: the statement stores `hexValue ds` -/
theorem inputSpec_hex_single (vars : Var) (n : Str) (hn : n.getLast? ≠ some '$')
    (h : Char) (hh : h = 'H' ∨ h = 'h') (ds : List Char) (hne : ds ≠ []) (hd : ∀ c ∈ ds, c ∈ hexDigits)
    (hv : hexValue ds ≤ 32767) (hlen : RStd.utf8Len ('&' :: h :: ds) ≤ Gen.maxLineLen) :
    inputSpec vars [.scalar n] ('&' :: h :: ds) =
      match vars.store n (.int (Int16.ofNat (hexValue ds))) with
      | .ok v => .ok v
      | .error _ => .error .redo := by
  rw [C17.inputSpec_single vars n _ hlen, fieldValue_hex n hn h hh ds hne hd hv]
  cases vars.store n (.int (Int16.ofNat (hexValue ds))) <;> rfl

/-- a reply beyond `&H7FFF` is a text for the reader, so a numeric target refuses it -/
example : fieldValue ['A'] ['&', 'H', '8', '0', '0', '0'] = .str ['&', 'H', '8', '0', '0', '0'] := by decide

/-- `INPUT "N";A%,B$` (the machine of `Thm/C17Input.lean`) with the reply `&H0D,&hde`:
    `A% = 13`; the `$` target takes its field as text -/
example : (execute C17.demoEnv (enter C17.demoEnv (C17.waiting C17.demo (-1) ['N'] 2)
      ['&', 'H', '0', 'D', ',', '&', 'h', 'd', 'e']) 5).1.vars.vars =
    [(['B', '$'], .str ['&', 'h', 'd', 'e']), (['A', '%'], .int 13)] := by decide +kernel

end C17Hex
end Thm
end Basic
