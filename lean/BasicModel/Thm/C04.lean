import BasicModel.Lemmas.Program
import BasicModel.Lemmas.Execute
import BasicModel.Lemmas.Inv
import BasicModel.Thm.C03
/-
  C04 — what runs is always the program that LIST shows.

  * An edit (a numbered line) cancels everything resumable — CONT point, operand stack (pending
    RETURN / NEXT frames), DEF FN table — and marks the compiled program stale (`dirty`), except
    for the one edit that changes nothing: a bare number for a line that does not exist.
  * The next direct line recompiles from the *current* listing before it runs; compiling into the
    cleared old program and compiling in a fresh interpreter give the same program up to the DATA
    cursor, which RUN's CLEAR resets: RUN after any edit history = RUN in a fresh interpreter
    holding the same listing (`run_after_edit_eq_fresh`, an equality of states).
  * Only DELETE, RENUM and NEW (and numbered lines, `set_listing`) change the listing.
-/
namespace Basic
namespace Thm.C04
open Basic.Runtime

/-! ### an edit leaves nothing to resume -/

theorem enterIndirect_cancels (s : Runtime) (line : Line) :
    (enterIndirect s line).cont = .stopped ∧
    (enterIndirect s line).stack = #[] ∧
    (enterIndirect s line).functions = [] := by
  unfold enterIndirect
  dsimp only
  split
  · split <;> exact ⟨rfl, rfl, rfl⟩
  · exact ⟨rfl, rfl, rfl⟩

/-- a line with text is stored and the program marked stale -/
theorem enterIndirect_insert (s : Runtime) (line : Line) (h : line.tokens.isEmpty = false) :
    (enterIndirect s line).listing = s.listing.insert line ∧ (enterIndirect s line).dirty = true := by
  unfold enterIndirect
  simp only [h, Bool.false_eq_true, if_false, and_self]

/-- a bare number deletes its line, if there is one, and marks the program stale -/
theorem enterIndirect_delete (s : Runtime) (line : Line) (h : line.tokens.isEmpty = true)
    (hr : (s.listing.remove line.number).2 = true) :
    (enterIndirect s line).listing = (s.listing.remove line.number).1 ∧
    (enterIndirect s line).dirty = true := by
  unfold enterIndirect
  simp only [h, if_true, hr, and_self]

/-- a bare number for an absent line changes neither the listing nor `dirty` -/
theorem enterIndirect_absent (s : Runtime) (line : Line) (h : line.tokens.isEmpty = true)
    (hr : (s.listing.remove line.number).2 = false) :
    (enterIndirect s line).listing = s.listing ∧ (enterIndirect s line).dirty = s.dirty := by
  unfold enterIndirect
  simp only [h, if_true, hr, Bool.false_eq_true, if_false, and_self]

/-- … and an absent line really is absent: `remove` reports `false` only when it changed nothing -/
theorem remove_absent (l : Listing) (n : Option Nat) (h : (l.remove n).2 = false) :
    (l.remove n).1 = l := by
  unfold Listing.remove at h ⊢
  cases n with
  | none => rfl
  | some k =>
    dsimp only at h ⊢
    have : l.source.filter (fun p => p.1 != k) = l.source := by
      rw [List.filter_eq_self]
      intro p hp
      have := List.any_eq_false.1 h p hp
      simpa using this
    rw [this]

/-- whatever the edit: if the listing changed, the program is marked stale -/
theorem enterIndirect_dirty_of_changed (s : Runtime) (line : Line)
    (h : (enterIndirect s line).listing ≠ s.listing) : (enterIndirect s line).dirty = true := by
  cases ht : line.tokens.isEmpty with
  | false => exact (enterIndirect_insert s line ht).2
  | true =>
    cases hr : (s.listing.remove line.number).2 with
    | true => exact (enterIndirect_delete s line ht hr).2
    | false => exact absurd (enterIndirect_absent s line ht hr).1 h

/-! ### the next direct line recompiles from the current listing -/

theorem enterDirect_recompiles (s : Runtime) (line : Line) (hd : s.dirty = true) :
    (enterDirect s line).program =
      (((s.program.clear).codegenLines s.listing.lines).codegenLine line).linkProg ∧
    (enterDirect s line).dirty = false := by
  unfold enterDirect
  simp only [hd, if_true, and_self]

/-- when nothing was edited only the direct line is compiled, onto the program in memory -/
theorem enterDirect_clean (s : Runtime) (line : Line) (hd : s.dirty = false) :
    (enterDirect s line).program = (s.program.codegenLine line).linkProg ∧
    (enterDirect s line).dirty = false := by
  unfold enterDirect
  simp only [hd, Bool.false_eq_true, if_false, and_self]

/-- a direct line never changes the stored lines (it replaces the diagnostics) -/
theorem enterDirect_source (s : Runtime) (line : Line) :
    (enterDirect s line).listing.source = s.listing.source := by
  unfold enterDirect
  dsimp only
  split <;> rfl

/-- what `enterDirect` sets besides the program: execution starts at the direct code -/
theorem enterDirect_entry (s : Runtime) (line : Line) :
    (enterDirect s line).state = .running ∧
    (enterDirect s line).pc = (enterDirect s line).program.directAddress ∧
    (enterDirect s line).entryAddress = (enterDirect s line).program.directAddress ∧
    (enterDirect s line).listing.indirectErrors = (enterDirect s line).program.indirectErrors ∧
    (enterDirect s line).listing.directErrors = (enterDirect s line).program.errors ∧
    (enterDirect s line).stack = s.stack ∧ (enterDirect s line).vars = s.vars ∧
    (enterDirect s line).cont = s.cont ∧ (enterDirect s line).functions = s.functions := by
  unfold enterDirect
  dsimp only
  split <;> exact ⟨rfl, rfl, rfl, rfl, rfl, rfl, rfl, rfl, rfl⟩

/-! ### compiling into the cleared old program = compiling from scratch -/

/-- `Program.clear` does not reset the data cursor (and `Link.clear` not the WHILE list, which is
    empty after every `linkProg`): up to the cursor the recompiled program is the one a fresh
    interpreter compiles from the same lines -/
theorem clear_codegen_eq_compile (p : Program) (hw : p.link.whiles = []) (ls : List Line) :
    (p.clear).codegenLines ls = (({} : Program).codegenLines ls).withDP p.link.dataPos :=
  Program.clear_codegenLines p hw ls

/-- the hypothesis holds for whatever `enterDirect` has left in memory -/
theorem enterDirect_whiles (s : Runtime) (line : Line) : (enterDirect s line).program.link.whiles = [] := by
  unfold enterDirect
  exact Program.linkProg_whiles _

/-- field by field: everything agrees except `link.dataPos`.  (Named `_partial` for the
    hypothesis `p.link.whiles = []`; it is an invariant — `enterDirect_whiles` — not a restriction
    on the listing or the history.) -/
theorem clear_codegen_eq_compile_partial (p : Program) (hw : p.link.whiles = []) (ls : List Line) :
    let a := (p.clear).codegenLines ls
    let b := ({} : Program).codegenLines ls
    a.errors = b.errors ∧ a.indirectErrors = b.indirectErrors ∧ a.directAddress = b.directAddress ∧
    a.lineNumber = b.lineNumber ∧ a.link.ops = b.link.ops ∧ a.link.data = b.link.data ∧
    a.link.symbols = b.link.symbols ∧ a.link.unlinked = b.link.unlinked ∧
    a.link.currentSymbol = b.link.currentSymbol ∧ a.link.directSet = b.link.directSet ∧
    a.link.whiles = b.link.whiles ∧ a.link.dataPos = p.link.dataPos ∧ b.link.dataPos = 0 := by
  intro a b
  have h : a = b.withDP p.link.dataPos := clear_codegen_eq_compile p hw ls
  rw [h]
  exact ⟨rfl, rfl, rfl, rfl, rfl, rfl, rfl, rfl, rfl, rfl, rfl, rfl,
    (Program.fresh_dataPos ls ⟨none, []⟩).1⟩

/-- the program a fresh interpreter holding `listing` compiles for the direct line `line` -/
def freshProgram (listing : Listing) (line : Line) : Program :=
  ((({} : Program).codegenLines listing.lines).codegenLine line).linkProg

/-- after an edit, the direct line runs the fresh program, up to the data cursor -/
theorem enterDirect_program_eq_fresh (s : Runtime) (line : Line) (hd : s.dirty = true)
    (hw : s.program.link.whiles = []) :
    (enterDirect s line).program = (freshProgram s.listing line).withDP s.program.link.dataPos := by
  rw [(enterDirect_recompiles s line hd).1, clear_codegen_eq_compile _ hw,
    Program.codegenLine_withDP, Program.linkProg_withDP]
  rfl

/-- a fresh interpreter (`Runtime::default()`) given the listing (`set_listing` marks it dirty) -/
def fresh (listing : Listing) : Runtime := { listing := listing, dirty := true }

/-- RUN (or any direct line) after an edit, followed by the CLEAR that RUN starts with: the state
    is the one a fresh interpreter reaches, except for the fields an edit history may legitimately
    leave behind — the prompt text, TRON, the print column and the dead `contPc` -/
theorem run_after_edit_eq_fresh (env : Env) (s : Runtime) (line : Line) (hd : s.dirty = true)
    (hw : s.program.link.whiles = []) :
    doClear env (enterDirect s line) =
      { doClear env (enterDirect (fresh s.listing) line) with
        prompt := s.prompt, tron := s.tron, printCol := s.printCol, contPc := s.contPc } := by
  have h1 := enterDirect_program_eq_fresh s line hd hw
  have h2 : (enterDirect (fresh s.listing) line).program = freshProgram s.listing line :=
    (enterDirect_recompiles (fresh s.listing) line rfl).1
  -- both sides, field by field
  have e1 : enterDirect s line =
      { s with program := (enterDirect s line).program, dirty := false,
               pc := (enterDirect s line).program.directAddress, tr := none,
               entryAddress := (enterDirect s line).program.directAddress,
               listing := { s.listing with indirectErrors := (enterDirect s line).program.indirectErrors,
                                           directErrors := (enterDirect s line).program.errors },
               state := .running } := by
    unfold enterDirect; simp only [hd, if_true]
  have e2 : enterDirect (fresh s.listing) line =
      { fresh s.listing with
               program := (enterDirect (fresh s.listing) line).program, dirty := false,
               pc := (enterDirect (fresh s.listing) line).program.directAddress, tr := none,
               entryAddress := (enterDirect (fresh s.listing) line).program.directAddress,
               listing := { s.listing with
                 indirectErrors := (enterDirect (fresh s.listing) line).program.indirectErrors,
                 directErrors := (enterDirect (fresh s.listing) line).program.errors },
               state := .running } := by
    unfold enterDirect; simp only [fresh, if_true]
  rw [e1, e2, h1, h2]
  unfold doClear Link.restoreData Program.withDP Link.withDP fresh
  rfl

/-! ### only DELETE, RENUM and NEW change the listing -/

theorem editsListing_iff (op : Opcode) :
    editsListing op = true ↔ op = .delete ∨ op = .renum ∨ op = .new := by
  cases op <;> simp [editsListing]

/-- one instruction: unless it is DELETE, RENUM or NEW the whole listing (lines and
    diagnostics) is unchanged — whether the instruction succeeds, throws or returns an event -/
theorem listing_frame (env : Env) (h : Bool) (s : Runtime)
    (hop : ∀ op, s.program.link.ops[s.pc]? = some op → op ≠ .delete ∧ op ≠ .renum ∧ op ≠ .new) :
    ((step env h).run.run s).2.listing = s.listing := by
  apply step_keepListing
  intro op hq
  have := hop op hq
  cases hb : editsListing op with
  | false => rfl
  | true =>
    rcases (editsListing_iff op).1 hb with e | e | e
    · exact absurd e this.1
    · exact absurd e this.2.1
    · exact absurd e this.2.2

/-- contrapositive: a step that changed the listing executed DELETE, RENUM or NEW -/
theorem listing_changed_only_by_edit (env : Env) (h : Bool) (s : Runtime)
    (hc : ((step env h).run.run s).2.listing ≠ s.listing) :
    s.program.link.ops[s.pc]? = some .delete ∨ s.program.link.ops[s.pc]? = some .renum ∨
    s.program.link.ops[s.pc]? = some .new := by
  cases hq : s.program.link.ops[s.pc]? with
  | none =>
    exact absurd (listing_frame env h s (fun op hop => by rw [hq] at hop; cases hop)) hc
  | some op =>
    cases hb : editsListing op with
    | true =>
      rcases (editsListing_iff op).1 hb with e | e | e <;> subst e
      · exact .inl rfl
      · exact .inr (.inl rfl)
      · exact .inr (.inr rfl)
    | false =>
      refine absurd (step_keepListing env h s ?_) hc
      intro op' hop'
      rw [hq] at hop'
      cases hop'
      exact hb

/-- a whole slice: either the listing is unchanged or the slice came to a state — still with the
    original listing — whose next instruction is DELETE, RENUM or NEW -/
theorem slice_listing_frame (env : Env) (h : Bool) (n : Nat) (s : Runtime) :
    (sliceRun env h n s).2.1.listing = s.listing ∨
    ∃ (t : Runtime) (op : Opcode), t.listing = s.listing ∧ t.program.link.ops[t.pc]? = some op ∧ editsListing op = true := by
  induction n generalizing s with
  | zero => exact .inl rfl
  | succ k ih =>
    by_cases hop : ∀ op, s.program.link.ops[s.pc]? = some op → editsListing op = false
    · have hk := step_keepListing env h s hop
      rw [sliceRun_succ]
      rcases hs : (step env h).run.run s with ⟨r, s'⟩
      rw [hs] at hk
      rcases r with e | st
      · exact .inl hk
      · cases st with
        | event e => exact .inl hk
        | «continue» =>
          rcases ih s' with h1 | ⟨t, op, h1, h2, h3⟩
          · exact .inl (h1.trans hk)
          · exact .inr ⟨t, op, h1.trans hk, h2, h3⟩
    · have : ∃ op, s.program.link.ops[s.pc]? = some op ∧ editsListing op = true := by
        apply Classical.byContradiction
        intro hne
        apply hop
        intro op hq
        cases hb : editsListing op with
        | false => rfl
        | true => exact absurd ⟨op, hq, hb⟩ hne
      obtain ⟨op, hq, hb⟩ := this
      exact .inr ⟨s, op, rfl, hq, hb⟩

/-- `executeLoop` likewise -/
theorem executeLoop_listing_frame (env : Env) (n : Nat) (s : Runtime) :
    ((executeLoop env n).run.run s).2.listing = s.listing ∨
    ∃ (t : Runtime) (op : Opcode), t.listing = s.listing ∧ t.program.link.ops[t.pc]? = some op ∧ editsListing op = true := by
  rw [executeLoop_run]; exact slice_listing_frame env _ n s

theorem readyPrompt_listing (s : Runtime) : (readyPrompt s).1.listing = s.listing := by
  unfold readyPrompt; split <;> rfl

theorem executePre_listing (s : Runtime) : (executePre s).1.listing = s.listing := by
  unfold executePre
  split
  · rfl
  · have := readyPrompt_listing s
    split <;> rename_i heq <;> rw [heq] at this <;> exact this
  · rfl
  · split <;> rfl
  · have hq := frame_executeInput.run s
    generalize executeInput.run.run s = x at hq ⊢
    rcases x with ⟨r, s'⟩
    cases r <;> exact hq.listing
  · rfl
  · split <;> rfl
  · split <;> rfl
  · rfl
  · rfl

theorem finishLoop_listing (r : Except Error Event) (s : Runtime) :
    (finishLoop r s).1.listing = s.listing := by
  unfold finishLoop
  split
  · split
    · have := readyPrompt_listing s
      split <;> rename_i heq <;> rw [heq] at this <;> exact this
    · rfl
  · split
    · rfl
    · dsimp only; split <;> rfl

/-- the API call: `execute` changes the listing only by executing DELETE, RENUM or NEW -/
theorem execute_listing_frame (env : Env) (s : Runtime) (n : Nat) :
    (execute env s n).1.listing = s.listing ∨
    ∃ (t : Runtime) (op : Opcode), t.listing = s.listing ∧ t.program.link.ops[t.pc]? = some op ∧ editsListing op = true := by
  rw [execute_eq]
  have hp := executePre_listing s
  generalize executePre s = x at hp ⊢
  rcases x with ⟨s', o⟩
  cases o with
  | some e => exact .inl hp
  | none =>
    dsimp only at hp ⊢
    unfold executeRest
    split
    · split <;> exact .inl hp
    · rw [finishLoop_listing]
      rcases executeLoop_listing_frame env n s' with h | ⟨t, op, h1, h2, h3⟩
      · exact .inl (h.trans hp)
      · exact .inr ⟨t, op, h1.trans hp, h2, h3⟩

/-- the stored lines never change while the quantum is merely used up -/
theorem slice_exhausted_listing (env : Env) (n : Nat) (s : Runtime)
    (h : (slice env n s).1 = .ok none) : (slice env n s).2.1.listing = s.listing :=
  (slice_none_calm env n s h).listing

/-! ### non-vacuity -/

def line10 : Line := ⟨some 10, [.word .end]⟩
def bare10 : Line := ⟨some 10, []⟩
def bare20 : Line := ⟨some 20, []⟩

/-- stopped inside a subroutine, with a CONT point and a DEF FN -/
def mid : Runtime :=
  { state := .stopped, cont := .running, contPc := 3, stack := #[.ret 7], functions := [("FNA".toList, (1, 4))],
    listing := { source := [(10, line10)] }, dirty := false }

example : (enterIndirect mid line10).stack = #[] ∧ (enterIndirect mid line10).cont = .stopped ∧
    (enterIndirect mid line10).functions = [] ∧ (enterIndirect mid line10).dirty = true := by decide
example : (enterIndirect mid bare10).listing.source = [] ∧ (enterIndirect mid bare10).dirty = true := by decide
/-- the absent line: listing and `dirty` as before, but the resumable state is gone all the same -/
example : (enterIndirect mid bare20).listing.source = [(10, line10)] ∧ (enterIndirect mid bare20).dirty = false ∧
    (enterIndirect mid bare20).stack = #[] := by decide
example : (mid.listing.remove (some 20)).2 = false ∧ (mid.listing.remove (some 10)).2 = true := by decide
/-- `Program.clear` keeps the cursor: the two compiles differ exactly there -/
example : (Program.clear { link := { dataPos := 5 } }).link.dataPos = 5 := rfl
example : editsListing .delete = true ∧ editsListing .print = false ∧ editsListing (.jump 3) = false := by decide

/-! ### the invariant over ALL histories (DESIGN.md Appendix E, clause 4)

  `Runtime.Inv` (Lemmas/Inv.lean): when `dirty = false`, `Program.base s.program` — the program in
  memory linked and cut back to `directAddress`, i.e. the code below `directAddress`, the DATA
  segment, the line symbols, `indirectErrors` and `directAddress` — is, up to the DATA cursor, the
  image `freshBase s.listing` that compiling the current listing from scratch gives, and the
  diagnostics LIST shows are those of that compile.  The direct segment, the direct-mode errors
  and the DATA cursor are free.  It is stable under compiling a further direct line
  (`Program.base_directGen`, which rests on `Codegen.fragments_negSyms`: the generator defines
  local labels only, so no line symbol, no code below `directAddress` and — `Link.append` refuses
  DATA in direct mode — no DATA item ever changes). -/

/-- every API call of the session protocol preserves the invariant -/
theorem inv_preserved (env : Env) (s : Runtime) (hi : Inv s) :
    (∀ line, Inv (enter env s line)) ∧ (∀ n, Inv (execute env s n).1) ∧ Inv (interrupt s) ∧
    (∀ l run, Inv (setListing env s l run)) :=
  ⟨fun line => inv_enter env s line hi, fun n => inv_execute env s n hi, inv_interrupt s hi,
   fun l run => inv_setListing env s l run hi⟩

/-- the invariant spelled out field by field: when nothing has been edited since the last compile,
    the program in memory, once linked (which compiling the next direct line starts with; for a
    program that is linked already this adds at most an `End` above `directAddress`), agrees with
    `Program.compile` of the current listing on `indirectErrors`, on `directAddress`, on the DATA
    segment, on the symbol table (line symbols and the start-of-direct mark), and on the code below
    `directAddress`; LIST shows the diagnostics of that compile -/
theorem inv_spelled_out (s : Runtime) (hi : Inv s) (hd : s.dirty = false) :
    s.program.linkProg.indirectErrors = (Program.compile s.listing.lines).indirectErrors ∧
    s.program.linkProg.directAddress = (Program.compile s.listing.lines).directAddress ∧
    s.program.linkProg.link.data = (Program.compile s.listing.lines).link.data ∧
    s.program.linkProg.link.symbols = (Program.compile s.listing.lines).link.symbols ∧
    s.program.linkProg.link.ops.extract 0 s.program.linkProg.directAddress =
      (Program.compile s.listing.lines).link.ops.extract 0 (Program.compile s.listing.lines).directAddress ∧
    s.listing.indirectErrors = (Program.compile s.listing.lines).indirectErrors := by
  obtain ⟨⟨d, hb⟩, he⟩ := hi.compiled hd
  have h1 : (Program.base s.program).indirectErrors = ((freshBase s.listing).withDP d).indirectErrors :=
    congrArg Program.indirectErrors hb
  have h2 : (Program.base s.program).directAddress = ((freshBase s.listing).withDP d).directAddress :=
    congrArg Program.directAddress hb
  have h3 : (Program.base s.program).link.data = ((freshBase s.listing).withDP d).link.data :=
    congrArg (fun p => p.link.data) hb
  have h4 : (Program.base s.program).link.symbols = ((freshBase s.listing).withDP d).link.symbols :=
    congrArg (fun p => p.link.symbols) hb
  have h5 : (Program.base s.program).link.ops = ((freshBase s.listing).withDP d).link.ops :=
    congrArg (fun p => p.link.ops) hb
  exact ⟨h1, h2, h3, h4, h5, he⟩

/-- no instruction changes the compiled program except for the DATA cursor -/
theorem step_program_code_frame (env : Env) (h : Bool) (s : Runtime) :
    ∃ d, ((step env h).run.run s).2.program = s.program.withDP d :=
  Runtime.step_program_code_frame env h s

/-- … nor does a whole `execute`; and it changes the listing only with `dirty` set -/
theorem execute_program_frame (env : Env) (s : Runtime) (n : Nat) :
    (∃ d, (execute env s n).1.program = s.program.withDP d) ∧
    (((execute env s n).1.listing = s.listing ∧ (execute env s n).1.dirty = s.dirty) ∨
      (execute env s n).1.dirty = true) :=
  ⟨(execute_keep env s n).prog, (execute_keep env s n).edit⟩

/-- **`Inv` holds after any finite list of API calls from `Runtime::default()`** — whatever the
    lexer, the RENUM rewriter and the entropy are, and whatever listings `set_listing` is given -/
theorem inv_reachable (env : Env) (calls : List C03.Call) :
    Inv (calls.foldl (C03.Call.apply env) ({} : Runtime)) := by
  have key : ∀ (calls : List C03.Call) (s : Runtime), Inv s → Inv (calls.foldl (C03.Call.apply env) s) := by
    intro calls
    induction calls with
    | nil => intro s h; exact h
    | cons c cs ih =>
      intro s h
      apply ih
      cases c with
      | execute n => exact inv_execute env s n h
      | enter line => exact inv_enter env s line h
      | interrupt => exact inv_interrupt s h
      | setListing l run => exact inv_setListing env s l run h
  exact key calls _ inv_init

/-- under the invariant — edited or not — the direct line runs the program a fresh interpreter
    would compile from the current listing, up to the DATA cursor -/
theorem enterDirect_program_eq_fresh_inv (s : Runtime) (line : Line) (hn : line.number = none) (hi : Inv s) :
    ∃ d, (enterDirect s line).program = (freshProgram s.listing line).withDP d :=
  enterDirect_program_inv s line hn hi

/-- **`run_after_edit_eq_fresh` for ALL states**: for a state satisfying the invariant (no
    hypothesis on `dirty`) and a direct line (`RUN`, `RUN n`, or any other), the state right after
    RUN's CLEAR is the state a fresh interpreter holding the same listing reaches, except for the
    prompt text, TRON, the print column and the dead `contPc` -/
theorem run_eq_fresh (env : Env) (s : Runtime) (line : Line) (hn : line.number = none) (hi : Inv s) :
    doClear env (enterDirect s line) =
      { doClear env (enterDirect (fresh s.listing) line) with
        prompt := s.prompt, tron := s.tron, printCol := s.printCol, contPc := s.contPc } := by
  rw [run_state_eq_freshLike env s line hn hi, enterDirect_dirty (freshLike s) line rfl,
    enterDirect_dirty (fresh s.listing) line rfl]
  rfl

/-- … in particular in every reachable state -/
theorem run_eq_fresh_reachable (env : Env) (calls : List C03.Call) (line : Line) (hn : line.number = none) :
    doClear env (enterDirect (calls.foldl (C03.Call.apply env) {}) line) =
      { doClear env (enterDirect (fresh (calls.foldl (C03.Call.apply env) {}).listing) line) with
        prompt := (calls.foldl (C03.Call.apply env) {}).prompt,
        tron := (calls.foldl (C03.Call.apply env) {}).tron,
        printCol := (calls.foldl (C03.Call.apply env) {}).printCol,
        contPc := (calls.foldl (C03.Call.apply env) {}).contPc } :=
  run_eq_fresh env _ line hn (inv_reachable env calls)

/-- as an equality without exceptions: against the fresh interpreter that has been given the same
    prompt, TRON setting, print column (and `contPc`) — `Runtime.freshLike` -/
theorem run_eq_freshLike (env : Env) (s : Runtime) (line : Line) (hn : line.number = none) (hi : Inv s) :
    doClear env (enterDirect s line) = doClear env (enterDirect (freshLike s) line) :=
  run_state_eq_freshLike env s line hn hi

/-- the events and the final state of a sequence of further API calls -/
def session (env : Env) : List C03.Call → Runtime → List Event × Runtime
  | [], s => ([], s)
  | .execute n :: cs, s =>
    let r := session env cs (execute env s n).1
    ((execute env s n).2 :: r.1, r.2)
  | c :: cs, s => session env cs (C03.Call.apply env s c)

/-- hence, by determinism of the API: after RUN's CLEAR every further sequence of calls produces
    the same events and ends in the same state as in the fresh interpreter -/
theorem run_then_same_session (env : Env) (s : Runtime) (line : Line) (hn : line.number = none)
    (hi : Inv s) (cs : List C03.Call) :
    session env cs (doClear env (enterDirect s line)) =
      session env cs (doClear env (enterDirect (freshLike s) line)) := by
  rw [run_eq_freshLike env s line hn hi]

/-! ### after an edit, a direct CONT / RETURN / NEXT / FN is refused -/

/-- `enterDirect` leaves `cont`, `stack` and `functions` alone -/
theorem enterDirect_keeps_resumables (s : Runtime) (line : Line) :
    (enterDirect s line).cont = s.cont ∧ (enterDirect s line).stack = s.stack ∧
    (enterDirect s line).functions = s.functions :=
  ⟨(enterDirect_entry s line).2.2.2.2.2.2.2.1, (enterDirect_entry s line).2.2.2.2.2.1,
   (enterDirect_entry s line).2.2.2.2.2.2.2.2⟩

/-- a numbered line, then a direct line: the state in which the direct code starts has nothing
    to resume … -/
theorem edit_then_direct_nothing_resumable (s : Runtime) (numbered line : Line) :
    (enterDirect (enterIndirect s numbered) line).cont = .stopped ∧
    (enterDirect (enterIndirect s numbered) line).stack = #[] ∧
    (enterDirect (enterIndirect s numbered) line).functions = [] := by
  obtain ⟨h1, h2, h3⟩ := enterDirect_keeps_resumables (enterIndirect s numbered) line
  obtain ⟨k1, k2, k3⟩ := enterIndirect_cancels s numbered
  exact ⟨h1.trans k1, h2.trans k2, h3.trans k3⟩

/-- … so (for any state `t` with `cont = stopped`, an empty stack and an empty DEF FN table, such
    as the one above at any `pc`): CONT is CAN'T CONTINUE, RETURN is RETURN WITHOUT GOSUB, NEXT is
    NEXT WITHOUT FOR, and a call `FNx(…)` — whatever arguments the direct line has pushed by then
    (stack `st`) — is UNDEFINED USER FUNCTION -/
theorem edit_then_resume_refused (t : Runtime) (hc : t.cont = .stopped) (hs : t.stack = #[])
    (hf : t.functions = []) (name : Str) :
    doCont.run.run t = (.error (Error.mk' Code.cantContinue), t) ∧
    doReturn.run.run t = (.error (Error.mk' Code.returnWithoutGosub), t) ∧
    (doNext name).run.run t = (.error (Error.mk' Code.nextWithoutFor), t) ∧
    (∀ (st : Array Val) (v : Runtime) (args : List Val),
      popVec.run.run { t with stack := st } = (.ok args, v) →
      (doFn name).run.run { t with stack := st } = (.error (Error.mk' Code.undefinedUserFunction), v)) :=
  ⟨doCont_refused t hc, doReturn_refused t hs, doNext_refused name t hs,
   fun _ v args hv => doFn_refused name _ v args hf hv⟩

/-- the four refusals for the state a direct line starts in after an edit -/
theorem edit_then_resume_refused_enter (s : Runtime) (numbered line : Line) (name : Str) :
    let t := enterDirect (enterIndirect s numbered) line
    doCont.run.run t = (.error (Error.mk' Code.cantContinue), t) ∧
    doReturn.run.run t = (.error (Error.mk' Code.returnWithoutGosub), t) ∧
    (doNext name).run.run t = (.error (Error.mk' Code.nextWithoutFor), t) ∧
    (∀ (st : Array Val) (v : Runtime) (args : List Val),
      popVec.run.run { t with stack := st } = (.ok args, v) →
      (doFn name).run.run { t with stack := st } = (.error (Error.mk' Code.undefinedUserFunction), v)) := by
  intro t
  obtain ⟨h1, h2, h3⟩ := edit_then_direct_nothing_resumable s numbered line
  exact edit_then_resume_refused t h1 h2 h3 name

/-! ### non-vacuity of the invariant theorems -/

/-- a lexer that knows two lines -/
def envR : Env :=
  { lex := fun s => if s = "10 END".toList then ⟨some 10, [.word .end]⟩
                    else if s = "RUN".toList then ⟨none, [.word .run]⟩ else ⟨none, []⟩,
    lineRenum := fun _ l => l }

/-- a concrete two-call history: type a line, RUN -/
def hist2 : List C03.Call := [.enter "10 END".toList, .enter "RUN".toList]

/-- after it the program is *not* marked stale, so `Inv`'s clause is not vacuous there … -/
example : (hist2.foldl (C03.Call.apply envR) {}).dirty = false ∧
    (hist2.foldl (C03.Call.apply envR) {}).listing.source = [(10, ⟨some 10, [.word .end]⟩)] ∧
    (hist2.foldl (C03.Call.apply envR) {}).state = .running := by decide
/-- … after the edit alone it is -/
example : ([C03.Call.enter "10 END".toList].foldl (C03.Call.apply envR) {}).dirty = true := by decide
example : Inv (hist2.foldl (C03.Call.apply envR) {}) := inv_reachable envR hist2
/-- a second RUN in that (not dirty) state: covered by `run_eq_fresh`, not by `run_after_edit_eq_fresh` -/
example : doClear envR (enterDirect (hist2.foldl (C03.Call.apply envR) {}) ⟨none, [.word .run]⟩) =
    doClear envR (enterDirect (freshLike (hist2.foldl (C03.Call.apply envR) {})) ⟨none, [.word .run]⟩) :=
  run_eq_freshLike envR _ _ rfl (inv_reachable envR hist2)
/-- the initial state satisfies the invariant with `dirty = false` and an empty program -/
example : Inv ({} : Runtime) ∧ ({} : Runtime).dirty = false := ⟨inv_init, rfl⟩
/-- `mid` (stopped inside a subroutine, with a CONT point and a DEF FN), edited, then a direct line -/
example : (enterDirect (enterIndirect mid line10) ⟨none, [.word .cont]⟩).cont = .stopped ∧
    mid.cont = .running := ⟨(edit_then_direct_nothing_resumable mid line10 _).1, rfl⟩
example : (doReturn.run.run { mid with stack := #[] }).1 = .error (Error.mk' Code.returnWithoutGosub) := by
  rw [doReturn_refused _ rfl]

end Thm.C04
end Basic
