import BasicModel.Lemmas.Execute
import BasicModel.Lemmas.Inspect
import BasicModel.Lemmas.LinkedInv
/-
  C13 — Interrupt, STOP and END are transparent under CONT; slicing does not matter.

  * Quantum independence.  `executeLoop env n` runs at most `n` instructions.  It returns
    `Event.running` both when the quantum is exhausted and when CONT / INPUT / LIST return that
    event, so the additivity law is stated over `slice` (`Lemmas/Slice.lean`), which keeps the two
    apart (`none` = exhausted), and then transferred to `executeLoop`: the two readings of
    `Event.running` are told apart by the state (`executeLoop_add_of_running`).
  * Interrupt.  `interrupt` records `(state, pc)` in `(cont, contPc)`; the BREAK report takes at
    most two calls of `execute` and touches only `state` and `printCol`; `doCont` (the CONT
    statement) puts `(cont, contPc)` back.  The composition is the identity on everything a
    program can observe except `printCol := 0`.
-/
namespace Basic
namespace Thm.C13
open Basic.Runtime

/-! ### slicing does not matter -/

/-- `executeLoop` in terms of `slice` -/
theorem executeLoop_eq_slice (env : Env) (n : Nat) (s : Runtime) :
    (executeLoop env n).run.run s = (toEvent (slice env n s).1, (slice env n s).2.1) :=
  executeLoop_run env n s

/-- additivity: a slice of `m + n` instructions is a slice of `m` followed, if the quantum was
    exhausted, by a slice of `n`; the instruction counts add up -/
theorem slice_add (env : Env) (m n : Nat) (s : Runtime) :
    slice env (m + n) s =
      match slice env m s with
      | (.ok none, s', c) => let r := slice env n s'; (r.1, r.2.1, c + r.2.2)
      | r => r :=
  Runtime.slice_add env m n s

/-- the key lemma: `executeLoop env (m + n)` is `executeLoop env m` and, if that exhausted its
    quantum, `executeLoop env n` from the state reached; otherwise the event or error of the first -/
theorem executeLoop_add (env : Env) (m n : Nat) (s : Runtime) :
    (executeLoop env (m + n)).run.run s =
      match slice env m s with
      | (.ok none, s', _) => (executeLoop env n).run.run s'
      | (.ok (some e), s', _) => (.ok e, s')
      | (.error e, s', _) => (.error e, s') := by
  rw [executeLoop_run, Runtime.slice_add]
  rcases slice env m s with ⟨r, s', c⟩
  rcases r with e | o
  · rfl
  · cases o with
    | some e => rfl
    | none => dsimp only; rw [executeLoop_run]

/-- the same in terms of `executeLoop` alone, for a running program: `Event.running` with the
    state still `running` is the exhausted quantum -/
theorem executeLoop_add_of_running (env : Env) (m n : Nat) (s : Runtime) (hs : s.state = .running) :
    (executeLoop env (m + n)).run.run s =
      match (executeLoop env m).run.run s with
      | (.ok .running, s') =>
        if s'.state = .running then (executeLoop env n).run.run s' else (.ok .running, s')
      | r => r := by
  rw [executeLoop_add, executeLoop_run env m s]
  have hcalm := slice_none_calm env m s
  have hrun := sliceRun_running_state env (hasIndirectErrors s) m s
  change (slice env m s).1 = .ok (some .running) → (slice env m s).2.1.state ≠ .running at hrun
  generalize slice env m s = x at hcalm hrun ⊢
  rcases x with ⟨r, s', c⟩
  rcases r with e | o
  · rfl
  · cases o with
    | none =>
      have h1 : s'.state = .running := by
        rcases (hcalm rfl).state with h | h
        · exact h.trans hs
        · exact h
      show _ = if s'.state = .running then _ else _
      rw [if_pos h1]
    | some e =>
      cases e with
      | running =>
        show _ = if s'.state = .running then _ else _
        rw [if_neg (hrun rfl)]
      | _ => rfl

/-- an event other than `running`, or an error, ends both runs alike -/
theorem executeLoop_add_event (env : Env) (m n : Nat) (s s' : Runtime) (r : Except Error Event)
    (h : (executeLoop env m).run.run s = (r, s')) (hr : r ≠ .ok .running) :
    (executeLoop env (m + n)).run.run s = (r, s') := by
  rw [executeLoop_add]
  rw [executeLoop_run] at h
  rcases hsl : slice env m s with ⟨q, t, c⟩
  rw [hsl] at h
  rcases q with e | o
  · exact h
  · cases o with
    | some e => exact h
    | none =>
      have : r = .ok .running := by
        have := congrArg Prod.fst h; exact this.symm
      exact absurd this hr

/-- run a list of quanta, one slice after the other, while the quantum is exhausted -/
def runQuanta (env : Env) : List Nat → Runtime → Except Error (Option Event) × Runtime × Nat
  | [], s => (.ok none, s, 0)
  | q :: qs, s =>
    match slice env q s with
    | (.ok none, s', c) => let r := runQuanta env qs s'; (r.1, r.2.1, c + r.2.2)
    | r => r

/-- quantum independence: any way of cutting the run into slices gives the first event (or
    error, or "still running"), the final state and the number of instructions of the single
    slice with the total quantum -/
theorem quantum_split (env : Env) (qs : List Nat) (s : Runtime) :
    runQuanta env qs s = slice env qs.sum s := by
  induction qs generalizing s with
  | nil => rfl
  | cons q qs ih =>
    rw [List.sum_cons, Runtime.slice_add, runQuanta]
    rcases slice env q s with ⟨r, s', c⟩
    rcases r with e | o
    · rfl
    · cases o with
      | some e => rfl
      | none => dsimp only; rw [ih]

theorem quantum_independent (env : Env) (qs qs' : List Nat) (s : Runtime) (h : qs.sum = qs'.sum) :
    runQuanta env qs s = runQuanta env qs' s := by
  rw [quantum_split, quantum_split, h]

/-- the driver's view: call `executeLoop` again while it reports `running` in state `running` -/
def runLoops (env : Env) : List Nat → Runtime → Except Error Event × Runtime
  | [], s => (.ok .running, s)
  | q :: qs, s =>
    match (executeLoop env q).run.run s with
    | (.ok .running, s') => if s'.state = .running then runLoops env qs s' else (.ok .running, s')
    | r => r

theorem quantum_split_loops (env : Env) (qs : List Nat) (s : Runtime) (hs : s.state = .running) :
    runLoops env qs s = (executeLoop env qs.sum).run.run s := by
  induction qs generalizing s with
  | nil => rfl
  | cons q qs ih =>
    rw [List.sum_cons, executeLoop_add_of_running env q qs.sum s hs, runLoops]
    rcases (executeLoop env q).run.run s with ⟨r, s'⟩
    rcases r with e | ev
    · rfl
    · cases ev with
      | running =>
        dsimp only
        by_cases h1 : s'.state = .running
        · rw [if_pos h1, if_pos h1, ih s' h1]
        · rw [if_neg h1, if_neg h1]
      | _ => rfl

theorem quantum_independent_loops (env : Env) (qs qs' : List Nat) (s : Runtime)
    (hs : s.state = .running) (h : qs.sum = qs'.sum) : runLoops env qs s = runLoops env qs' s := by
  rw [quantum_split_loops env qs s hs, quantum_split_loops env qs' s hs, h]

/-! ### … also at the API (`execute`) -/

/-- `finishLoop` on an error never leaves the state `running` -/
theorem finishLoop_error_state (e : Error) (s : Runtime) :
    (finishLoop (.error e) s).2 = .running ∧ (finishLoop (.error e) s).1.state ≠ .running := by
  unfold finishLoop
  dsimp only
  split
  · exact ⟨rfl, nofun⟩
  · dsimp only
    split <;> exact ⟨rfl, nofun⟩

theorem finishLoop_running (s : Runtime) : finishLoop (.ok .running) s = (s, .running) := by
  unfold finishLoop
  dsimp only
  split
  · rename_i h; cases h
  · rfl

/-- an event other than `running` is passed on (or replaced by the READY prompt) -/
theorem finishLoop_event_ne_running (ev : Event) (s : Runtime) (h : ev ≠ .running) :
    (finishLoop (.ok ev) s).2 ≠ .running := by
  unfold finishLoop
  dsimp only
  split
  · unfold readyPrompt
    split
    · rename_i heq
      split at heq
      · cases heq; nofun
      · cases heq
    · nofun
  · exact h

/-- "call `execute` again if the quantum was used up" -/
def thenExecute (env : Env) (n : Nat) (r : Runtime × Event) : Runtime × Event :=
  match r with
  | (s', .running) => if s'.state = .running then execute env s' n else (s', .running)
  | r => r

theorem thenExecute_other (env : Env) (n : Nat) (t : Runtime) (ev : Event) (h : ev ≠ .running) :
    thenExecute env n (t, ev) = (t, ev) := by
  cases ev <;> first | rfl | exact absurd rfl h

/-- slicing does not matter at the API: `execute` with quantum `m + n` is `execute` with `m`
    and, if that used up its quantum (`Event.running`, state still `running`), `execute` with `n` -/
theorem execute_add (env : Env) (m n : Nat) (s : Runtime)
    (hs : s.state = .running) (hd : s.listing.directErrors = []) :
    execute env s (m + n) =
      match execute env s m with
      | (s', .running) => if s'.state = .running then execute env s' n else (s', .running)
      | r => r := by
  show _ = thenExecute env n (execute env s m)
  rw [execute_running env s (m + n) hs hd, execute_running env s m hs hd,
    executeLoop_add_of_running env m n s hs]
  have hex := slice_exhausted_of_running env m s
  have hcalm := slice_none_calm env m s
  rw [executeLoop_run env m s] at *
  generalize slice env m s = x at hex hcalm ⊢
  rcases x with ⟨r, s', c⟩
  dsimp only at hex hcalm ⊢
  rcases r with e | o
  · -- error
    simp only [toEvent]
    have := finishLoop_error_state e s'
    rcases hf : finishLoop (.error e) s' with ⟨t, ev⟩
    rw [hf] at this
    dsimp only at this
    obtain ⟨h1, h2⟩ := this
    subst h1
    show _ = if t.state = .running then _ else _
    rw [if_neg h2]
  · cases o with
    | none =>
      have hst : s'.state = .running := by
        rcases (hcalm rfl).state with h | h
        · exact h.trans hs
        · exact h
      have hd' : s'.listing.directErrors = [] := by rw [(hcalm rfl).listing]; exact hd
      simp only [toEvent, hst, if_true, finishLoop_running]
      show _ = if s'.state = .running then _ else _
      rw [if_pos hst, execute_running env s' n hst hd']
    | some ev =>
      by_cases hev : ev = .running
      · subst hev
        have hst : s'.state ≠ .running := fun hst => by have := hex rfl hst; cases this
        simp only [toEvent, hst, if_false, finishLoop_running]
        show _ = if s'.state = .running then _ else _
        rw [if_neg hst]
      · have hfin := finishLoop_event_ne_running ev s' hev
        have key : ∀ (X : Except Error Event × Runtime), X = (.ok ev, s') →
            finishLoop X.1 X.2 = thenExecute env n (finishLoop (.ok ev) s') := by
          intro X hX
          rw [hX]
          rcases hf : finishLoop (.ok ev) s' with ⟨t, ev'⟩
          rw [hf] at hfin
          exact (thenExecute_other env n t ev' hfin).symm
        apply key
        simp only [toEvent]
        cases ev <;> first | rfl | exact absurd rfl hev

/-- if `execute` reports `running` in state `running`, the quantum was used up, and the listing
    (with its diagnostics) is untouched -/
theorem execute_running_listing (env : Env) (q : Nat) (s s' : Runtime)
    (hs : s.state = .running) (hd : s.listing.directErrors = [])
    (he : execute env s q = (s', .running)) (hs' : s'.state = .running) :
    s'.listing = s.listing := by
  rw [execute_running env s q hs hd, executeLoop_run] at he
  have hex := slice_exhausted_of_running env q s
  have hcalm := slice_none_calm env q s
  generalize slice env q s = x at hex hcalm he
  rcases x with ⟨r, t, c⟩
  dsimp only at hex hcalm he
  rcases r with e | o
  · have := finishLoop_error_state e t
    simp only [toEvent] at he
    rw [he] at this
    exact absurd hs' this.2
  · cases o with
    | none =>
      simp only [toEvent, finishLoop_running] at he
      cases he
      exact (hcalm rfl).listing
    | some ev =>
      by_cases hev : ev = .running
      · subst hev
        simp only [toEvent, finishLoop_running] at he
        cases he
        have := hex rfl hs'; cases this
      · have := finishLoop_event_ne_running ev t hev
        simp only [toEvent] at he
        rw [he] at this
        exact absurd rfl this

/-- the driver's loop: call `execute` with the next quantum while it reports `running` in state
    `running` -/
def runExecutes (env : Env) : Nat → List Nat → Runtime → Runtime × Event
  | q, [], s => execute env s q
  | q, q' :: qs, s =>
    match execute env s q with
    | (s', .running) => if s'.state = .running then runExecutes env q' qs s' else (s', .running)
    | r => r

/-- quantum independence at the API: however the driver cuts the run of a program into slices,
    the state and the event it ends up with are those of one call with the total quantum -/
theorem quantum_split_execute (env : Env) (q : Nat) (qs : List Nat) (s : Runtime)
    (hs : s.state = .running) (hd : s.listing.directErrors = []) :
    runExecutes env q qs s = execute env s (q + qs.sum) := by
  induction qs generalizing q s with
  | nil => rfl
  | cons q' qs ih =>
    rw [List.sum_cons, execute_add env q (q' + qs.sum) s hs hd, runExecutes]
    rcases he : execute env s q with ⟨s', ev⟩
    by_cases hev : ev = .running
    · subst hev
      show (if s'.state = .running then _ else _) = if s'.state = .running then _ else _
      by_cases hs' : s'.state = .running
      · rw [if_pos hs', if_pos hs']
        have hl := execute_running_listing env q s s' hs hd he hs'
        exact ih q' s' hs' (by rw [hl]; exact hd)
      · rw [if_neg hs', if_neg hs']
    · cases ev <;> first | rfl | exact absurd rfl hev

theorem quantum_independent_execute (env : Env) (q q' : Nat) (qs qs' : List Nat) (s : Runtime)
    (hs : s.state = .running) (hd : s.listing.directErrors = [])
    (h : q + qs.sum = q' + qs'.sum) : runExecutes env q qs s = runExecutes env q' qs' s := by
  rw [quantum_split_execute env q qs s hs hd, quantum_split_execute env q' qs' s hs hd, h]

/-! ### interrupt, the BREAK report, CONT -/

/-- an interrupt inside the program saves `(state, pc)` and changes nothing else -/
theorem interrupt_saves (s : Runtime) (h : s.pc < s.entryAddress) :
    interrupt s = { s with state := .interrupt, cont := s.state, contPc := s.pc } := by
  unfold interrupt
  dsimp only
  rw [if_neg (by omega)]

theorem interrupt_saves_fields (s : Runtime) (h : s.pc < s.entryAddress) :
    (interrupt s).state = .interrupt ∧ (interrupt s).cont = s.state ∧ (interrupt s).contPc = s.pc ∧
    (interrupt s).stack = s.stack ∧ (interrupt s).vars = s.vars ∧ (interrupt s).pc = s.pc ∧
    (interrupt s).program = s.program ∧ (interrupt s).listing = s.listing ∧
    (interrupt s).functions = s.functions ∧ (interrupt s).tron = s.tron ∧
    (interrupt s).printCol = s.printCol := by
  rw [interrupt_saves s h]
  exact ⟨rfl, rfl, rfl, rfl, rfl, rfl, rfl, rfl, rfl, rfl, rfl⟩

/-- an interrupt in direct code (at or beyond `entryAddress`) leaves nothing to continue -/
theorem interrupt_direct (s : Runtime) (h : s.pc ≥ s.entryAddress) :
    interrupt s = { s with state := .interrupt, cont := .stopped, contPc := s.pc, stack := #[] } := by
  unfold interrupt
  dsimp only
  rw [if_pos h]

theorem interrupt_state (s : Runtime) : (interrupt s).state = .interrupt := by
  unfold interrupt; dsimp only; split <;> rfl

/-- the BREAK report: `execute` once or twice, depending on the print column -/
def breakReport (env : Env) (n : Nat) (s : Runtime) : Runtime :=
  if s.printCol > 0 then (execute env (execute env s n).1 n).1 else (execute env s n).1

/-- the events of the report: an optional line break, then `?BREAK IN line` -/
theorem break_report_events (env : Env) (n : Nat) (s : Runtime) (hs : s.state = .interrupt) :
    (s.printCol > 0 →
      (execute env s n).2 = .print ['\n'] ∧
      (execute env (execute env s n).1 n).2 = .errors [breakError s]) ∧
    (s.printCol = 0 → (execute env s n).2 = .errors [breakError s]) := by
  constructor
  · intro hc
    rw [execute_interrupt_col env s n hs hc]
    refine ⟨rfl, ?_⟩
    rw [execute_runtimeError_nocol env _ n (breakError s) rfl rfl]
  · intro hc
    rw [execute_interrupt_nocol env s n hs hc]

/-- the report changes `state` (to `stopped`) and `printCol` (to 0), nothing else: `cont`,
    `contPc`, the stack, the variables, `pc`, the program, the function table all survive -/
theorem break_report (env : Env) (n : Nat) (s : Runtime) (hs : s.state = .interrupt) :
    breakReport env n s = { s with state := .stopped, printCol := 0 } := by
  unfold breakReport
  by_cases hc : s.printCol > 0
  · rw [if_pos hc, execute_interrupt_col env s n hs hc,
      execute_runtimeError_nocol env _ n (breakError s) rfl rfl]
  · have h0 : s.printCol = 0 := by omega
    rw [if_neg hc, execute_interrupt_nocol env s n hs h0]
    cases s; dsimp only at h0; subst h0; rfl

/-- the intermediate state when a line break is due: `runtimeError BREAK`, column 0 -/
theorem break_report_first (env : Env) (n : Nat) (s : Runtime) (hs : s.state = .interrupt)
    (hc : s.printCol > 0) :
    (execute env s n).1 = { s with state := .runtimeError (breakError s), printCol := 0 } := by
  rw [execute_interrupt_col env s n hs hc]

/-- `execute`, `k` times -/
def execN (env : Env) (n : Nat) : Nat → Runtime → Runtime
  | 0, s => s
  | k+1, s => execN env n k (execute env s n).1

/-- one interrupt suffices: at most two calls of `execute` later the state is `stopped`,
    whatever the state was and whatever quantum the driver uses -/
theorem interrupt_reaches_stopped (env : Env) (n : Nat) (s : Runtime) :
    ∃ k, 1 ≤ k ∧ k ≤ 2 ∧ (execN env n k (interrupt s)).state = .stopped := by
  have hs := interrupt_state s
  by_cases hc : (interrupt s).printCol > 0
  · refine ⟨2, by omega, by omega, ?_⟩
    show (execute env (execute env (interrupt s) n).1 n).1.state = .stopped
    have := break_report env n (interrupt s) hs
    unfold breakReport at this
    rw [if_pos hc] at this
    rw [this]
  · refine ⟨1, by omega, by omega, ?_⟩
    show (execute env (interrupt s) n).1.state = .stopped
    have := break_report env n (interrupt s) hs
    unfold breakReport at this
    rw [if_neg hc] at this
    rw [this]

/-- CONT: `(cont, contPc)` go back to `(state, pc)`; `true` (the slice ends with
    `Event.running`) iff the restored state is not `running` -/
theorem doCont_restores (s : Runtime) (hs : s.state = .running) (hc : s.cont ≠ .stopped) :
    doCont.run.run s =
      (.ok (s.cont != .running), { s with state := s.cont, cont := .stopped, pc := s.contPc }) := by
  rw [run_doCont, if_neg hc, if_pos hs]

/-- CONT with nothing to continue: CAN'T CONTINUE, state untouched -/
theorem doCont_refuses (s : Runtime) (hc : s.cont = .stopped) :
    doCont.run.run s = (.error (Error.mk' Code.cantContinue), s) := by
  rw [run_doCont, if_pos hc]

/-- interrupt ∘ report ∘ CONT = identity up to `printCol := 0`, from any state of a program in
    progress (`running`, `input`, `inputRunning`, `listing`, …: anything but `stopped`).  `t` is the
    state in which the CONT statement executes: the state after the report with `state = running`
    and whatever `pc`, `entryAddress`, `tr` and (direct-code) program compiling the line `CONT`
    gave.  The slice goes on (`false`) exactly when the interrupted state was `running`. -/
theorem interrupt_cont_identity (env : Env) (n : Nat) (s t : Runtime)
    (hs : s.state ≠ .stopped) (hpc : s.pc < s.entryAddress)
    (ht : t.state = .running)
    (hcont : t.cont = (breakReport env n (interrupt s)).cont)
    (hcontPc : t.contPc = (breakReport env n (interrupt s)).contPc)
    (hstack : t.stack = (breakReport env n (interrupt s)).stack)
    (hvars : t.vars = (breakReport env n (interrupt s)).vars)
    (hfns : t.functions = (breakReport env n (interrupt s)).functions)
    (hdata : t.program.link.dataPos = (breakReport env n (interrupt s)).program.link.dataPos)
    (htron : t.tron = (breakReport env n (interrupt s)).tron)
    (hcol : t.printCol = (breakReport env n (interrupt s)).printCol) :
    (doCont.run.run t).1 = .ok (s.state != .running) ∧
    (doCont.run.run t).2.pc = s.pc ∧
    (doCont.run.run t).2.state = s.state ∧
    (doCont.run.run t).2.cont = .stopped ∧
    (doCont.run.run t).2.stack = s.stack ∧
    (doCont.run.run t).2.vars = s.vars ∧
    (doCont.run.run t).2.functions = s.functions ∧
    (doCont.run.run t).2.program.link.dataPos = s.program.link.dataPos ∧
    (doCont.run.run t).2.tron = s.tron ∧
    (doCont.run.run t).2.printCol = 0 := by
  rw [break_report env n (interrupt s) (interrupt_state s), interrupt_saves s hpc] at *
  dsimp only at hcont hcontPc hstack hvars hfns hdata htron hcol
  have hc' : t.cont ≠ .stopped := by rw [hcont]; exact hs
  rw [doCont_restores t ht hc']
  dsimp only
  rw [hcont, hcontPc, hstack, hvars, hfns, hdata, htron, hcol]
  exact ⟨rfl, rfl, rfl, rfl, rfl, rfl, rfl, rfl, rfl, rfl⟩

/-- the case of the task statement: a `running` program goes on running -/
theorem interrupt_cont_running (env : Env) (n : Nat) (s t : Runtime)
    (hs : s.state = .running) (hpc : s.pc < s.entryAddress) (ht : t.state = .running)
    (hcont : t.cont = (breakReport env n (interrupt s)).cont)
    (hcontPc : t.contPc = (breakReport env n (interrupt s)).contPc) :
    doCont.run.run t = (.ok false, { t with state := .running, cont := .stopped, pc := s.pc }) := by
  rw [break_report env n (interrupt s) (interrupt_state s), interrupt_saves s hpc] at *
  dsimp only at hcont hcontPc
  have hc' : t.cont ≠ .stopped := by rw [hcont, hs]; nofun
  rw [doCont_restores t ht hc', hcont, hcontPc, hs]
  rfl

/-- END / STOP-like termination inside the program records where to continue … -/
theorem doEnd_cont (s : Runtime) (h : s.pc < s.entryAddress) :
    doEnd s = { s with cont := s.state, contPc := s.pc, state := .stopped } := by
  simp only [doEnd, h, if_true, Nat.ne_of_lt h, if_false]

/-- … at `pc = entryAddress` (the END that closes a direct line) nothing is left to continue … -/
theorem doEnd_direct (s : Runtime) (h : s.pc = s.entryAddress) :
    doEnd s = { s with cont := .stopped, state := .stopped } := by
  simp only [doEnd, h, Nat.lt_irrefl, if_true, if_false]

/-- … and beyond it `cont` is left as it is -/
theorem doEnd_beyond (s : Runtime) (h : s.pc > s.entryAddress) :
    doEnd s = { s with state := .stopped } := by
  simp only [doEnd, Nat.not_lt_of_gt h, Nat.ne_of_gt h, if_false]

/-- END then CONT: execution resumes after the END, state `running` -/
theorem end_cont_identity (s t : Runtime) (hs : s.state = .running) (hpc : s.pc < s.entryAddress)
    (ht : t.state = .running) (hcont : t.cont = (doEnd s).cont) (hcontPc : t.contPc = (doEnd s).contPc) :
    doCont.run.run t = (.ok false, { t with state := .running, cont := .stopped, pc := s.pc }) := by
  rw [doEnd_cont s hpc] at hcont hcontPc
  dsimp only at hcont hcontPc
  have hc' : t.cont ≠ .stopped := by rw [hcont, hs]; nofun
  rw [doCont_restores t ht hc', hcont, hcontPc, hs]
  rfl

/-! ### STOP -/

/-- the instruction STOP ends the slice with the error BREAK, `pc` already past it -/
theorem step_stop (env : Env) (h : Bool) (s : Runtime) (htr : s.tron = false)
    (hop : s.program.link.ops[s.pc]? = some .stop) :
    (step env h).run.run s = (.error (Error.mk' Code.break), { s with pc := s.pc + 1 }) := by
  rw [step_troff env h s htr, run_fetchExec, hop]
  rfl

/-- STOP inside the program: `execute` records the CONT point *after* the STOP and enters the
    same `runtimeError BREAK` state as an interrupt does; stack, variables, functions untouched.
    With `break_report` and `doCont_restores`: STOP followed by CONT is a no-op. -/
theorem stop_saves (env : Env) (n : Nat) (s : Runtime)
    (hs : s.state = .running) (hd : s.listing.directErrors = []) (htr : s.tron = false)
    (hop : s.program.link.ops[s.pc]? = some .stop)
    (hpc : s.pc + 1 < s.entryAddress) (hfull : isFull s = false) :
    execute env s (n + 1) =
      ({ s with pc := s.pc + 1, cont := .running, contPc := s.pc + 1,
                state := .runtimeError ((Error.mk' Code.break).inLine (lineNumber { s with pc := s.pc + 1 })) },
       .running) := by
  rw [execute_running env s (n + 1) hs hd, executeLoop_run]
  have h1 : slice env (n + 1) s = (.error (Error.mk' Code.break), { s with pc := s.pc + 1 }, 1) := by
    unfold slice
    rw [sliceRun_succ, step_stop env _ s htr hop]
  rw [h1]
  have hge : decide (s.pc + 1 ≥ s.entryAddress) = false := by
    rw [decide_eq_false_iff_not]; omega
  unfold isFull at hfull
  unfold finishLoop isFull
  dsimp only [toEvent]
  rw [if_neg (by rw [hs]; nofun), hge, hfull, hs]
  rfl

/-! ### non-vacuity -/

def env0 : Env := { lex := fun _ => ⟨none, []⟩, lineRenum := fun _ l => l }

/-- a program `10 A=A+1 : GOTO 10` in the middle of its loop, column 3 -/
def looping : Runtime :=
  { state := .running, pc := 2, entryAddress := 5, printCol := 3, stack := #[.int 4, .int 1],
    program := { link := { ops := #[.push "A".toList, .literal (.int 1), .add, .pop "A".toList, .jump 0, .cont, .end],
                           symbols := [(10, (0, 0))] } } }

example : (interrupt looping).state = .interrupt ∧ (interrupt looping).cont = .running ∧
    (interrupt looping).contPc = 2 ∧ (interrupt looping).stack = #[.int 4, .int 1] := by decide
example : (interrupt { looping with pc := 5 }).cont = .stopped ∧
    (interrupt { looping with pc := 5 }).stack = #[] := by decide
example : (breakReport env0 100 (interrupt looping)).state = .stopped ∧
    (breakReport env0 100 (interrupt looping)).printCol = 0 ∧
    (breakReport env0 100 (interrupt looping)).cont = .running := by
  rw [break_report env0 100 _ (interrupt_state _)]; decide
/-- CONT typed after the report: direct code at 5, `pc = 5`, `entryAddress = 5` -/
example : (doCont.run.run { interrupt looping with state := .running, pc := 6, printCol := 0 }).2.pc = 2 := by
  decide
example : (doEnd looping).cont = .running ∧ (doEnd looping).contPc = 2 ∧
    (doEnd { looping with pc := 5 }).cont = .stopped := by decide
/-- STOP at address 2 of a three-instruction program -/
def stopping : Runtime := { looping with program := { link := { ops := #[.stop, .stop, .stop] } } }
example : (execute env0 stopping 10).1.contPc = 3 ∧ (execute env0 stopping 10).1.cont = .running := by
  rw [stop_saves env0 9 stopping rfl rfl rfl rfl (by decide) (by decide)]; exact ⟨rfl, rfl⟩
/-- three instructions in one slice or in three -/
example : runExecutes env0 1 [1, 1] looping = execute env0 looping 3 :=
  quantum_split_execute env0 1 [1, 1] looping rfl rfl
example : runQuanta env0 [1, 1, 1] looping = slice env0 3 looping := quantum_split env0 [1, 1, 1] looping
example : (slice env0 3 looping).2.2 = 3 ∧ (slice env0 3 looping).2.1.pc = 0 := by decide

/-! ### C13 end to end at the session API

  The driver's calls, in order: `interrupt`; `execute` once or twice (the report: a line break if
  the column is not 0, then `?BREAK IN line`); `execute` any number of times at the prompt (the
  first prints READY, the others report `stopped`); `enter "CONT"`; `execute`.  The quanta of
  the calls before CONT are arbitrary (no instruction runs).  Hypotheses on the interrupted state
  `s`, all of them established by the direct line (RUN, GOTO …) that started the program and kept
  by every instruction that does not edit the listing:

  * `s.entryAddress = s.program.directAddress`, `s.listing.directErrors = []`,
    `s.listing.indirectErrors = s.program.indirectErrors` (`enterDirect_entry`);
  * `s.dirty = false` (`enterDirect_clean`), `Program.Linked s.program`;
  * `tron = false`; two size bounds far below the limits (`directAddress + 3 ≤ 65535`, the DATA
    segment within its limit) so that compiling `CONT` cannot overflow.

  `LexCont env` says that the lexer (a separate model) reads `CONT` as the statement word. -/

/-- the standing hypotheses on a running program that is going to be stopped and continued -/
structure Resumable (s : Runtime) : Prop where
  running : s.state = .running
  entry : s.entryAddress = s.program.directAddress
  clean : s.dirty = false
  troff : s.tron = false
  noDirectErrors : s.listing.directErrors = []
  indirectErrors : s.listing.indirectErrors = s.program.indirectErrors
  linked : Program.Linked s.program
  codeRoom : s.program.directAddress + 3 ≤ Gen.stackMaxLen
  dataRoom : s.program.link.data.size ≤ Gen.stackMaxLen

theorem interrupt_inside (s : Runtime) (h : s.pc < s.entryAddress) :
    interrupt s = { s with state := .interrupt, cont := s.state, contPc := s.pc } :=
  interrupt_saves s h

/-- interrupt → report → prompt → CONT → the instruction `Cont`: the events are the line break
    (iff the column was not 0), `?BREAK IN line`, READY and `stopped`s, then `running`; the state
    is `resumed s` — `s` itself up to `printCol = 0`, `cont = stopped`, `contPc`, `tr = none`
    and the direct code (`resumed_fields`, `resumed_sim`); with a larger quantum the last call of
    `execute` goes on from there. -/
theorem interrupt_break_cont_transparent (env : Env) (hlex : LexCont env) (s : Runtime)
    (q₁ q₂ : Nat) (qs : List Nat) (hr : Resumable s) (hpc : s.pc < s.entryAddress) :
    let r₁ := execList env (reportQuanta s q₁ q₂) (interrupt s)
    let r₂ := execList env qs r₁.1
    let v := enter env r₂.1 "CONT".toList
    r₁.2 = (if s.printCol > 0 then [.print ['\n']] else []) ++ [.errors [breakError s]] ∧
    r₂.2 = (match qs with
            | [] => []
            | _ :: rest => .print (promptLine s) :: List.replicate rest.length .stopped) ∧
    execute env v 1 = (resumed s, .running) ∧
    (∀ m, execute env v (m + 1) = execute env (resumed s) m) := by
  intro r₁ r₂ v
  have he : s.entryAddress ≠ 0 := by rw [hr.entry]; exact hr.linked.direct
  have h1 : r₁ = (broken s s.entryAddress,
      (if s.printCol > 0 then [.print ['\n']] else []) ++ [.errors [breakError s]]) := by
    show execList env (reportQuanta s q₁ q₂) (interrupt s) = _
    rw [interrupt_inside s hpc]
    have := report_interrupt env q₁ q₂ { s with state := .interrupt, cont := s.state, contPc := s.pc } rfl
    rw [show reportQuanta s q₁ q₂ =
      reportQuanta { s with state := .interrupt, cont := s.state, contPc := s.pc } q₁ q₂ from rfl, this, hr.running]
    rfl
  have h2 : r₂ = (broken s (if qs.isEmpty then s.entryAddress else 0),
       match qs with
       | [] => []
       | _ :: rest => .print (promptLine s) :: List.replicate rest.length .stopped) := by
    show execList env qs r₁.1 = _
    rw [h1]
    exact prompt_after_report env s qs he
  have h3 := cont_resumes env hlex s (if qs.isEmpty then s.entryAddress else 0) hr.entry hr.clean hr.troff
    hr.noDirectErrors hr.indirectErrors hr.linked hr.codeRoom hr.dataRoom hr.running
  have hv : v = enter env (broken s (if qs.isEmpty then s.entryAddress else 0)) "CONT".toList := by
    show enter env r₂.1 "CONT".toList = _
    rw [h2]
  refine ⟨by rw [h1], by rw [h2], ?_, ?_⟩
  · rw [hv]; exact h3.1
  · rw [hv]; exact h3.2

/-- what `resumed s` is, field by field: the program goes on exactly where it was -/
theorem resumed_fields (s : Runtime) :
    (resumed s).pc = s.pc ∧ (resumed s).state = s.state ∧ (resumed s).stack = s.stack ∧
    (resumed s).vars = s.vars ∧ (resumed s).functions = s.functions ∧ (resumed s).rand = s.rand ∧
    (resumed s).listing = s.listing ∧ (resumed s).entryAddress = s.entryAddress ∧
    (resumed s).tron = s.tron ∧ (resumed s).dirty = s.dirty ∧ (resumed s).prompt = s.prompt ∧
    (resumed s).printCol = 0 ∧ (resumed s).cont = .stopped ∧ (resumed s).contPc = s.pc ∧
    (resumed s).tr = none ∧ (resumed s).program = contProgram s.program :=
  ⟨rfl, rfl, rfl, rfl, rfl, rfl, rfl, rfl, rfl, rfl, rfl, rfl, rfl, rfl, rfl, rfl⟩

/-- … and its program is the old one with `Cont; End` as direct code: same instructions below
    `directAddress`, same DATA and cursor, same line-number table, same diagnostics -/
theorem resumed_program (s : Runtime) (hr : Resumable s) :
    Program.ContOf s.program (resumed s).program :=
  contOf_contProgram s.program hr.linked hr.codeRoom hr.dataRoom

/-- … and it simulates `s`: `s ≈ resumed s` (`Sim`: equal on all fields except `cont`, `contPc`,
    `tr`, the code from `directAddress` on and the compile-time fields of the program; the print
    columns agree — `col` — iff the program was interrupted at column 0) -/
theorem resumed_sim (s : Runtime) (hr : Resumable s) (col : Bool) (hcol : col = true → s.printCol = 0) :
    Sim col s (resumed s) :=
  Runtime.resumed_sim s col hcol hr.troff (resumed_program s hr)

/-- The resumed run coincides with the uninterrupted one.  From `s` and `resumed s`, `n` further
    instructions give the same result — the same event or error, or both quanta exhausted —
    after the same number of instructions, in states that are again `≈`; and so does the call
    `execute … n` at the API, up to the READY prompt printed when the program ends, which starts
    with a line break iff the column is not 0.

    `_partial`, the restriction being `StaysInProg`: as long as the slice goes on, the next
    instruction of the uninterrupted run lies below `directAddress` (the program proper, not the
    direct code, which differs) and is not `Cont` (a CONT statement *inside* the program reads the
    continuation, which the break has consumed) nor — unless `col`, i.e. unless the break
    happened at column 0 — `Tab` or `Pos` (TAB( and POS( read the print column, which the
    `?BREAK` report resets: the "line break it forces"). -/
theorem resumed_run_coincides_partial (env : Env) (s : Runtime) (hr : Resumable s) (col : Bool)
    (hcol : col = true → s.printCol = 0) (n : Nat)
    (hstay : StaysInProg col env (hasIndirectErrors s) n s) :
    (slice env n (resumed s)).1 = (slice env n s).1 ∧
    (slice env n (resumed s)).2.2 = (slice env n s).2.2 ∧
    Sim col (slice env n s).2.1 (slice env n (resumed s)).2.1 ∧
    Sim col (execute env s n).1 (execute env (resumed s) n).1 ∧
    ((col = true ∨ (slice env n s).1 ≠ .ok (some .stopped)) →
      (execute env (resumed s) n).2 = (execute env s n).2) := by
  have hsim := resumed_sim s hr col hcol
  have h1 := sliceRun_sim env (hasIndirectErrors s) n hsim hstay
  have h2 := execute_sim env n hsim hr.running hr.noDirectErrors hstay
  refine ⟨?_, ?_, ?_, h2.1, h2.2⟩
  · unfold slice; rw [hasIndirectErrors_sim hsim]; exact h1.1
  · unfold slice; rw [hasIndirectErrors_sim hsim]; exact h1.2.1
  · unfold slice; rw [hasIndirectErrors_sim hsim]; exact h1.2.2

/-- The two together, at the API: after interrupt, report, prompt and `CONT`, the call
    `execute … (m + 1)` (one instruction for `Cont`, `m` for the program) ends in a state `≈` the
    one the uninterrupted `execute … m` ends in, with the same event — under the restriction of
    `resumed_run_coincides_partial`. -/
theorem interrupted_run_coincides_partial (env : Env) (hlex : LexCont env) (s : Runtime)
    (q₁ q₂ : Nat) (qs : List Nat) (m : Nat) (col : Bool) (hr : Resumable s) (hpc : s.pc < s.entryAddress)
    (hcol : col = true → s.printCol = 0)
    (hstay : StaysInProg col env (hasIndirectErrors s) m s) :
    let v := enter env (execList env qs (execList env (reportQuanta s q₁ q₂) (interrupt s)).1).1 "CONT".toList
    Sim col (execute env s m).1 (execute env v (m + 1)).1 ∧
    ((col = true ∨ (slice env m s).1 ≠ .ok (some .stopped)) →
      (execute env v (m + 1)).2 = (execute env s m).2) := by
  intro v
  have h1 := (interrupt_break_cont_transparent env hlex s q₁ q₂ qs hr hpc).2.2.2 m
  have h2 := resumed_run_coincides_partial env s hr col hcol m hstay
  show Sim col (execute env s m).1 (execute env v (m + 1)).1 ∧ _
  rw [show execute env v (m + 1) = execute env (resumed s) m from h1]
  exact ⟨h2.2.2.2.1, h2.2.2.2.2⟩

/-- one instruction, from any two `≈` states -/
theorem step_coincides (env : Env) (h : Bool) (col : Bool) (s t : Runtime) (hst : Sim col s t)
    (hin : InProg col s) :
    ((step env h).run.run t).1 = ((step env h).run.run s).1 ∧
    Sim col ((step env h).run.run s).2 ((step env h).run.run t).2 :=
  step_sim env h hst hin

/-- STOP as the next instruction of a running program, then report → prompt → CONT → `Cont`:
    the state is the one in which the STOP was skipped (`pc` after it), up to the same fields. -/
theorem stop_cont_transparent (env : Env) (hlex : LexCont env) (s : Runtime)
    (n q₁ q₂ : Nat) (qs : List Nat) (hr : Resumable s)
    (hop : s.program.link.ops[s.pc]? = some .stop)
    (hpc : s.pc + 1 < s.entryAddress) (hfull : isFull s = false) :
    let r₀ := execute env s (n + 1)
    let r₁ := execList env (reportQuanta s q₁ q₂) r₀.1
    let r₂ := execList env qs r₁.1
    let v := enter env r₂.1 "CONT".toList
    r₀.2 = .running ∧
    r₁.2 = (if s.printCol > 0 then [.print ['\n']] else []) ++
      [.errors [(Error.mk' Code.break).inLine (lineNumber { s with pc := s.pc + 1 })]] ∧
    r₂.2 = (match qs with
            | [] => []
            | _ :: rest => .print (promptLine s) :: List.replicate rest.length .stopped) ∧
    execute env v 1 = (resumed { s with pc := s.pc + 1 }, .running) ∧
    (∀ m, execute env v (m + 1) = execute env (resumed { s with pc := s.pc + 1 }) m) := by
  intro r₀ r₁ r₂ v
  have he : s.entryAddress ≠ 0 := by rw [hr.entry]; exact hr.linked.direct
  have h0 : r₀ = _ := stop_saves env n s hr.running hr.noDirectErrors hr.troff hop hpc hfull
  have h1 : r₁ = (broken { s with pc := s.pc + 1 } s.entryAddress,
      (if s.printCol > 0 then [.print ['\n']] else []) ++
        [.errors [(Error.mk' Code.break).inLine (lineNumber { s with pc := s.pc + 1 })]]) := by
    show execList env (reportQuanta s q₁ q₂) r₀.1 = _
    rw [h0]
    exact report_runtimeError env q₁ q₂
      { s with pc := s.pc + 1, cont := .running, contPc := s.pc + 1,
               state := .runtimeError ((Error.mk' Code.break).inLine (lineNumber { s with pc := s.pc + 1 })) }
      _ rfl
  have h2 : r₂ = (broken { s with pc := s.pc + 1 } (if qs.isEmpty then s.entryAddress else 0),
       match qs with
       | [] => []
       | _ :: rest => .print (promptLine s) :: List.replicate rest.length .stopped) := by
    show execList env qs r₁.1 = _
    rw [h1]
    exact prompt_after_report env { s with pc := s.pc + 1 } qs he
  have h3 := cont_resumes env hlex { s with pc := s.pc + 1 } (if qs.isEmpty then s.entryAddress else 0)
    hr.entry hr.clean hr.troff hr.noDirectErrors hr.indirectErrors hr.linked hr.codeRoom hr.dataRoom hr.running
  have hv : v = enter env (broken { s with pc := s.pc + 1 } (if qs.isEmpty then s.entryAddress else 0))
      "CONT".toList := by
    show enter env r₂.1 "CONT".toList = _
    rw [h2]
  refine ⟨by rw [h0], by rw [h1], by rw [h2], ?_, ?_⟩
  · rw [hv]; exact h3.1
  · rw [hv]; exact h3.2

/-- END in the middle of a program (more code follows), then prompt → CONT → `Cont`: READY is
    printed by the same call of `execute`; CONT resumes at the next instruction. -/
theorem end_cont_transparent (env : Env) (hlex : LexCont env) (s : Runtime)
    (n : Nat) (qs : List Nat) (hr : Resumable s)
    (hop : s.program.link.ops[s.pc]? = some .end) (hpc : s.pc + 1 < s.entryAddress) :
    let r₀ := execute env s (n + 1)
    let r₂ := execList env qs r₀.1
    let v := enter env r₂.1 "CONT".toList
    r₀.2 = .print ((if s.printCol > 0 then ['\n'] else []) ++ promptLine s) ∧
    r₂.2 = List.replicate qs.length .stopped ∧
    execute env v 1 = (resumed { s with pc := s.pc + 1 }, .running) ∧
    (∀ m, execute env v (m + 1) = execute env (resumed { s with pc := s.pc + 1 }) m) := by
  intro r₀ r₂ v
  have h0 : r₀ = (broken { s with pc := s.pc + 1 } 0,
      .print ((if s.printCol > 0 then ['\n'] else []) ++ promptLine s)) := by
    show execute env s (n + 1) = _
    rw [end_saves env n s hr.running hr.noDirectErrors hr.troff hop hpc]
    rfl
  have h2 : r₂ = (broken { s with pc := s.pc + 1 } 0, List.replicate qs.length .stopped) := by
    show execList env qs r₀.1 = _
    rw [h0]
    exact execList_at_prompt env qs _ rfl rfl
  have h3 := cont_resumes env hlex { s with pc := s.pc + 1 } 0
    hr.entry hr.clean hr.troff hr.noDirectErrors hr.indirectErrors hr.linked hr.codeRoom hr.dataRoom hr.running
  have hv : v = enter env (broken { s with pc := s.pc + 1 } 0) "CONT".toList := by
    show enter env r₂.1 "CONT".toList = _
    rw [h2]
  refine ⟨by rw [h0], by rw [h2], ?_, ?_⟩
  · rw [hv]; exact h3.1
  · rw [hv]; exact h3.2

/-- Inspecting variables between the break and CONT does not disturb the continuation.  After the
    report of a break of `s` (state `broken s ea`, whether or not READY was printed), a direct
    line `str` is entered whose code consists of harmless instructions (a PRINT of expressions
    over simple variables: literals, fetches, arithmetic, side-effect-free built-ins, `Print`)
    and is balanced (never reaches below its own operands, leaves none behind — `Balanced`, a
    decidable check of the code), and the driver calls `execute` any number of times.  Unless
    one of these calls ended in a runtime error (the report of an error in direct mode clears
    the continuation), the continuation, the variables, the function table and the DATA cursor
    are untouched, and once the prompt is back the stack is the one the line found and CONT
    resumes the program in a state `t ≈ s`. -/
theorem inspect_between_harmless (env : Env) (hlex : LexCont env) (s : Runtime) (ea : Nat)
    (str : Str) (line : Line) (code : Array Opcode) (qs : List Nat) (col : Bool)
    (hr : Resumable s) (hcol : col = true → s.printCol = 0)
    (hlen : RStd.utf8Len str ≤ Gen.maxLineLen) (hline : env.lex str = line)
    (hne : line.tokens.isEmpty = false) (hp : Program.PlainLine line code)
    (hharm : ∀ (i : Nat) (op : Opcode), code[i]? = some op → harmless op = true)
    (hbal : Balanced code)
    (hsize : s.program.directAddress + code.size + 2 ≤ Gen.stackMaxLen) :
    let u := enter env (broken s ea) str
    let w := (execList env qs u).1
    (∀ k, k ≤ qs.length → ¬ Failed (execList env (qs.take k) u).1) →
    (w.state = .running ∨ w.state = .stopped) ∧
    w.cont = .running ∧ w.contPc = s.pc ∧ w.vars = s.vars ∧ w.functions = s.functions ∧
    w.program.link.dataPos = s.program.link.dataPos ∧
    (w.state = .stopped →
      w.stack = s.stack ∧
      ∃ t, execute env (enter env w "CONT".toList) 1 = (t, .running) ∧
        (∀ m, execute env (enter env w "CONT".toList) (m + 1) = execute env t m) ∧ Sim col s t) := by
  intro u w hnf
  have hu : u = enterDirect (broken s ea) line :=
    enter_direct env (broken s ea) str line rfl hlen hline hp.number hne
  obtain ⟨h1, h2, h3, h4, h5, c1, c2, c3, c4, c5, c6, c7, c8, c9, c10⟩ :=
    inspect_start s ea line code hp hharm hr.clean hr.linked hr.troff hsize hr.dataRoom
  obtain ⟨d1, d2⟩ := inspect_start_direct s ea line code hp hr.clean hr.linked hsize hr.dataRoom
  rw [← hu] at h1 h2 h3 h4 h5 c1 c2 c3 c4 c5 c6 c7 c8 c9 c10 d1 d2
  have hk : Kept u w ∧ (w.state = .running ∨ (w.state = .stopped ∧ w.printCol = 0 ∧ w.stack = u.stack)) := by
    rcases inspect_execList_stack env qs code u u h1 d2 h2 h3 h4
        (.inl ⟨h5, stackInv_start code u hbal d1⟩) with (h | h) | ⟨k, hk, hf⟩
    · exact ⟨h.1.kept, .inl h.1.state⟩
    · exact ⟨h.1.kept, .inr ⟨h.1.state, h.1.printCol, h.2⟩⟩
    · exact absurd hf (hnf k hk)
  obtain ⟨hkept, hst⟩ := hk
  refine ⟨hst.elim .inl (fun h => .inr h.1), hkept.cont.trans c1, hkept.contPc.trans c2, hkept.vars.trans c3,
    hkept.functions.trans c4, ?_, ?_⟩
  · rw [hkept.program]; exact c10.dataPos
  · intro hstop
    have hst' : w.printCol = 0 ∧ w.stack = u.stack := by
      rcases hst with h | h
      · rw [hstop] at h; cases h
      · exact h.2
    have hstack : w.stack = s.stack := hst'.2.trans c5
    have hlist : w.listing = s.listing := by
      rw [hkept.listing, c9, ← hr.indirectErrors, ← hr.noDirectErrors]
    have hbl : BrokenLike s w :=
      ⟨hstop, hkept.cont.trans c1, hkept.contPc.trans c2, hstack, hkept.vars.trans c3,
       hkept.functions.trans c4, hkept.rand.trans c6, hkept.prompt.trans c7, hkept.dirty.trans c8,
       hkept.tron.trans h2, hlist, hst'.1, by rw [hkept.program]; exact SameBelow.of_directOf c10,
       by rw [hkept.program]; exact c10.linked⟩
    exact ⟨hstack, cont_from_brokenLike env hlex s w col hcol hr.entry hr.noDirectErrors hr.indirectErrors
      hr.codeRoom hr.dataRoom hr.running hr.troff hr.clean hbl⟩

/-- where `Program.Linked` comes from: every direct line entered at a linked program that was not
    edited leaves a linked program with the same `directAddress`; and a direct line compiled
    onto any program whose direct code (if marked at all) lies within the code leaves a linked
    one — in particular the first direct line of a session -/
theorem linked_is_invariant (s : Runtime) (line : Line) (hn : line.number = none) (hd : s.dirty = false)
    (hl : Program.Linked s.program) :
    Program.Linked (enterDirect s line).program ∧
    (enterDirect s line).program.directAddress = s.program.directAddress :=
  enterDirect_linked s line hn hd hl

theorem linked_first_direct_line (line : Line) (hn : line.number = none) :
    Program.Linked (({} : Program).codegenLine line).linkProg :=
  (Program.linked_codegenLine {} line hn (Nat.le_refl _)).1

/-! ### non-vacuity of the end-to-end theorems

  The parser model cannot be evaluated by the kernel on lines with line-number operands (RUN,
  GOTO: `Float32.ofNat` is opaque), so the running state is written down as the compiler leaves
  it — program `10 A=B / 20 STOP / 30 A=B / 40 END / 50 A=B`, started by RUN — and the
  hypotheses of the theorems are checked on it by evaluation.  The lines typed at the prompt
  (`CONT`, `PRINT A`) do go through `enter`, with the hand-written lexer `env1`. -/

/-- the tokens of the direct line `PRINT A` -/
def printLine : Line := ⟨none, [.word .print, .whitespace 1, .ident (.plain "A".toList)]⟩

def env1 : Env :=
  { lex := fun str =>
      if str = "CONT".toList then contLine else if str = "PRINT A".toList then printLine else ⟨none, []⟩,
    lineRenum := fun _ l => l }

theorem lexCont_env1 : LexCont env1 := rfl

def prog0 : Program :=
  { directAddress := 9,
    link := { ops := #[.push "B".toList, .pop "A".toList, .stop, .push "B".toList, .pop "A".toList, .end,
                       .push "B".toList, .pop "A".toList, .end, .clear, .jump 0, .end],
              directSet := true,
              symbols := [(10, (0, 0)), (20, (2, 0)), (30, (3, 0)), (40, (5, 0)), (50, (6, 0)), (65530, (9, 0))] } }

/-- in line 10, between the fetch of `B` and the store to `A`, at column 3 -/
def s0 : Runtime :=
  { state := .running, pc := 1, entryAddress := 9, printCol := 3, stack := #[.int 5],
    vars := { vars := [("B".toList, .int 5)] }, program := prog0 }

theorem resumable_s0 : Resumable s0 :=
  ⟨rfl, rfl, rfl, rfl, rfl, rfl, ⟨rfl, rfl, by decide, by decide⟩, by decide, by decide⟩

/-- the events of the report: a line break (column 3), then `?BREAK IN 10` -/
example : (execList env1 (reportQuanta s0 7 7) (interrupt s0)).2 =
    [.print ['\n'], .errors [(Error.mk' Code.break).inLine (some 10)]] :=
  (interrupt_break_cont_transparent env1 lexCont_env1 s0 7 7 [7, 7] resumable_s0 (by decide)).1

/-- two calls at the prompt: READY, `stopped` -/
example : (execList env1 [7, 7] (execList env1 (reportQuanta s0 7 7) (interrupt s0)).1).2 =
    [.print "READY.\n".toList, .stopped] :=
  (interrupt_break_cont_transparent env1 lexCont_env1 s0 7 7 [7, 7] resumable_s0 (by decide)).2.1

/-- CONT: the program is back where it was -/
example : execute env1 (enter env1 (execList env1 [7, 7]
      (execList env1 (reportQuanta s0 7 7) (interrupt s0)).1).1 "CONT".toList) 1 = (resumed s0, .running) :=
  (interrupt_break_cont_transparent env1 lexCont_env1 s0 7 7 [7, 7] resumable_s0 (by decide)).2.2.1

example : (resumed s0).pc = 1 ∧ (resumed s0).stack = #[.int 5] ∧ (resumed s0).printCol = 0 ∧
    (resumed s0).state = .running ∧ (resumed s0).entryAddress = 9 := ⟨rfl, rfl, rfl, rfl, rfl⟩

theorem inProg_of (col : Bool) (s : Runtime) (op : Opcode) (h1 : s.pc < s.program.directAddress)
    (h2 : s.program.link.ops[s.pc]? = some op) (h3 : simOk col op = true) : InProg col s :=
  ⟨h1, fun op' h => by rw [h2] at h; cases h; exact h3⟩

/-- the next two instructions (`Pop A`, then the STOP of line 20) are in the program proper -/
theorem stays_s0 : StaysInProg false env1 (hasIndirectErrors s0) 2 s0 := by
  intro k hk _
  match k, hk with
  | 0, _ => exact inProg_of false _ (.pop "A".toList) (by decide) (by decide) rfl
  | 1, _ => exact inProg_of false _ .stop (by decide) (by decide) rfl

/-- the resumed run and the uninterrupted one: both end with the BREAK of line 20 after two
    instructions -/
example : (slice env1 2 (resumed s0)).1 = (slice env1 2 s0).1 ∧
    (slice env1 2 (resumed s0)).2.2 = (slice env1 2 s0).2.2 :=
  let h := resumed_run_coincides_partial env1 s0 resumable_s0 false (fun h => by cases h) 2 stays_s0
  ⟨h.1, h.2.1⟩
example : (slice env1 2 s0).1 = .error (Error.mk' Code.break) ∧ (slice env1 2 s0).2.2 = 2 ∧
    (slice env1 2 s0).2.1.vars.vars = [("A".toList, .sng 0x40a00000), ("B".toList, .int 5)] := ⟨rfl, rfl, rfl⟩

/-- … and at the API: the call after CONT (quantum 3) reports what the uninterrupted call
    (quantum 2) reports -/
example : (execute env1 (enter env1 (execList env1 [7, 7]
      (execList env1 (reportQuanta s0 7 7) (interrupt s0)).1).1 "CONT".toList) 3).2 = (execute env1 s0 2).2 :=
  (interrupted_run_coincides_partial env1 lexCont_env1 s0 7 7 [7, 7] 2 false resumable_s0 (by decide)
    (fun h => by cases h) stays_s0).2
    (.inr (by rw [show (slice env1 2 s0).1 = .error (Error.mk' Code.break) from rfl]; nofun))

/-- at the STOP of line 20 -/
def s1 : Runtime := { s0 with pc := 2, stack := #[], printCol := 0 }
theorem resumable_s1 : Resumable s1 :=
  ⟨rfl, rfl, rfl, rfl, rfl, rfl, ⟨rfl, rfl, by decide, by decide⟩, by decide, by decide⟩
example : execute env1 (enter env1 (execList env1 [7]
      (execList env1 (reportQuanta s1 7 7) (execute env1 s1 4).1).1).1 "CONT".toList) 1 =
    (resumed { s1 with pc := 3 }, .running) :=
  (stop_cont_transparent env1 lexCont_env1 s1 3 7 7 [7] resumable_s1 rfl (by decide) rfl).2.2.2.1

/-- at the END of line 40 -/
def s2 : Runtime := { s0 with pc := 5, stack := #[], printCol := 0 }
theorem resumable_s2 : Resumable s2 :=
  ⟨rfl, rfl, rfl, rfl, rfl, rfl, ⟨rfl, rfl, by decide, by decide⟩, by decide, by decide⟩
example : execute env1 (enter env1 (execList env1 [7] (execute env1 s2 4).1).1 "CONT".toList) 1 =
    (resumed { s2 with pc := 6 }, .running) :=
  (end_cont_transparent env1 lexCont_env1 s2 3 [7] resumable_s2 rfl (by decide)).2.2.1

/-- the direct line `PRINT A` is plain, harmless and balanced -/
theorem parse_printLine : Parse.parse none printLine.tokens =
    .ok [.print (0, 5) [.var (.unary (6, 7) (.plain "A".toList)), .string (7, 7) ['\n']]] := by
  simp [printLine, Parse.parse, Parse.parseTokens, Parse.fuelFor, Parse.statements, Parse.statement, Parse.peek,
    Parse.next, Parse.nextLoop, Parse.col, Parse.isRem, Parse.printList, Parse.isEnd, Parse.expression,
    Parse.descend, Parse.binLoop, Parse.isUserFunction, StateT.run, bind, StateT.bind, Except.bind, get, getThe,
    MonadStateOf.get, StateT.get, pure, StateT.pure, Except.pure, set, StateT.set, modify, modifyGet,
    MonadStateOf.modifyGet, StateT.modifyGet, Except.map, Token.text, Word.text, TIdent.name, List.lookup,
    List.isPrefixOf]

def printCode : Array Opcode := #[.push "A".toList, .print, .literal (.str ['\n']), .print]

theorem plainLine_print : Program.PlainLine printLine printCode :=
  Program.plainLine_of_check printLine printCode _ rfl parse_printLine
    (by decide +kernel) (by decide +kernel) (by decide +kernel)

theorem harmless_printCode : ∀ (i : Nat) (op : Opcode), printCode[i]? = some op → harmless op = true := by
  intro i op h
  match i, h with
  | 0, h => cases h; rfl
  | 1, h => cases h; rfl
  | 2, h => cases h; rfl
  | 3, h => cases h; rfl
  | _ + 4, h => cases h

theorem balanced_printCode : Balanced printCode := by decide

/-- `inspect_between_harmless` on `s0`, READY not yet printed, the line `PRINT A`, five calls of
    `execute`: every hypothesis but "no call ended in a runtime error" holds by evaluation -/
example (hnf : ∀ k, k ≤ 5 →
      ¬ Failed (execList env1 ([9, 9, 9, 9, 9].take k) (enter env1 (broken s0 9) "PRINT A".toList)).1)
    (hdone : (execList env1 [9, 9, 9, 9, 9] (enter env1 (broken s0 9) "PRINT A".toList)).1.state = .stopped) :
    (execList env1 [9, 9, 9, 9, 9] (enter env1 (broken s0 9) "PRINT A".toList)).1.stack = s0.stack :=
  ((inspect_between_harmless env1 lexCont_env1 s0 9 "PRINT A".toList printLine printCode [9, 9, 9, 9, 9] false
    resumable_s0 (fun h => by cases h) (by decide) rfl rfl plainLine_print harmless_printCode
    balanced_printCode (by decide) hnf).2.2.2.2.2.2 hdone).1

/-- … and on the state the line `PRINT A` compiles to (written down, as `s0` is), the calls do
    not fail (A is not yet assigned: ` 0 `, line break, READY, `stopped`); continuation, stack and
    variables as before -/
def u0 : Runtime :=
  { broken s0 9 with
    state := .running, pc := 9,
    program := { prog0 with link := { prog0.link with
      ops := #[.push "B".toList, .pop "A".toList, .stop, .push "B".toList, .pop "A".toList, .end,
               .push "B".toList, .pop "A".toList, .end,
               .push "A".toList, .print, .literal (.str ['\n']), .print, .end] } } }

example : (execList env1 [9, 9, 9, 9, 9] u0).1.state = .stopped ∧
    (execList env1 [9, 9, 9, 9, 9] u0).1.cont = .running ∧
    (execList env1 [9, 9, 9, 9, 9] u0).1.contPc = 1 ∧ (execList env1 [9, 9, 9, 9, 9] u0).1.stack = #[.int 5] ∧
    (execList env1 [9, 9, 9, 9, 9] u0).1.vars.vars = [("B".toList, .int 5)] := ⟨rfl, rfl, rfl, rfl, rfl⟩

end Thm.C13
end Basic
