import BasicModel.Lemmas.Execute
/-
  C13 — Interrupt, STOP and END are transparent under CONT; slicing does not matter.

  * Quantum independence.  `executeLoop env n` runs at most `n` instructions.  It returns
    `Event.running` both when the quantum is exhausted and when CONT / INPUT / LIST return that
    event, so the additivity law is stated over `slice` (`Lemmas/Slice.lean`), which keeps the two
    apart (`none` = exhausted), and then transferred to `executeLoop`: the two readings of
    `Event.running` are told apart by the state (`executeLoop_add_of_running`).
  * Interrupt.  `interrupt` records `(state, pc)` in `(cont, contPc)`; the BREAK report takes at
    most two calls of `execute` and touches only `state` and `printCol`; `doCont` (the CONT
    statement) puts `(cont, contPc)` back.  The composition is the identity on everything a
    program can observe except `printCol := 0`.
-/
namespace Basic
namespace Thm.C13
open Basic.Runtime

/-! ### slicing does not matter -/

/-- `executeLoop` in terms of `slice` -/
theorem executeLoop_eq_slice (env : Env) (n : Nat) (s : Runtime) :
    (executeLoop env n).run.run s = (toEvent (slice env n s).1, (slice env n s).2.1) :=
  executeLoop_run env n s

/-- additivity: a slice of `m + n` instructions is a slice of `m` followed, if the quantum was
    exhausted, by a slice of `n`; the instruction counts add up -/
theorem slice_add (env : Env) (m n : Nat) (s : Runtime) :
    slice env (m + n) s =
      match slice env m s with
      | (.ok none, s', c) => let r := slice env n s'; (r.1, r.2.1, c + r.2.2)
      | r => r :=
  Runtime.slice_add env m n s

/-- the key lemma: `executeLoop env (m + n)` is `executeLoop env m` and, if that exhausted its
    quantum, `executeLoop env n` from the state reached; otherwise the event or error of the first -/
theorem executeLoop_add (env : Env) (m n : Nat) (s : Runtime) :
    (executeLoop env (m + n)).run.run s =
      match slice env m s with
      | (.ok none, s', _) => (executeLoop env n).run.run s'
      | (.ok (some e), s', _) => (.ok e, s')
      | (.error e, s', _) => (.error e, s') := by
  rw [executeLoop_run, Runtime.slice_add]
  rcases slice env m s with ⟨r, s', c⟩
  rcases r with e | o
  · rfl
  · cases o with
    | some e => rfl
    | none => dsimp only; rw [executeLoop_run]

/-- the same in terms of `executeLoop` alone, for a running program: `Event.running` with the
    state still `running` is the exhausted quantum -/
theorem executeLoop_add_of_running (env : Env) (m n : Nat) (s : Runtime) (hs : s.state = .running) :
    (executeLoop env (m + n)).run.run s =
      match (executeLoop env m).run.run s with
      | (.ok .running, s') =>
        if s'.state = .running then (executeLoop env n).run.run s' else (.ok .running, s')
      | r => r := by
  rw [executeLoop_add, executeLoop_run env m s]
  have hcalm := slice_none_calm env m s
  have hrun := sliceRun_running_state env (hasIndirectErrors s) m s
  change (slice env m s).1 = .ok (some .running) → (slice env m s).2.1.state ≠ .running at hrun
  generalize slice env m s = x at hcalm hrun ⊢
  rcases x with ⟨r, s', c⟩
  rcases r with e | o
  · rfl
  · cases o with
    | none =>
      have h1 : s'.state = .running := by
        rcases (hcalm rfl).state with h | h
        · exact h.trans hs
        · exact h
      show _ = if s'.state = .running then _ else _
      rw [if_pos h1]
    | some e =>
      cases e with
      | running =>
        show _ = if s'.state = .running then _ else _
        rw [if_neg (hrun rfl)]
      | _ => rfl

/-- an event other than `running`, or an error, ends both runs alike -/
theorem executeLoop_add_event (env : Env) (m n : Nat) (s s' : Runtime) (r : Except Error Event)
    (h : (executeLoop env m).run.run s = (r, s')) (hr : r ≠ .ok .running) :
    (executeLoop env (m + n)).run.run s = (r, s') := by
  rw [executeLoop_add]
  rw [executeLoop_run] at h
  rcases hsl : slice env m s with ⟨q, t, c⟩
  rw [hsl] at h
  rcases q with e | o
  · exact h
  · cases o with
    | some e => exact h
    | none =>
      have : r = .ok .running := by
        have := congrArg Prod.fst h; exact this.symm
      exact absurd this hr

/-- run a list of quanta, one slice after the other, while the quantum is exhausted -/
def runQuanta (env : Env) : List Nat → Runtime → Except Error (Option Event) × Runtime × Nat
  | [], s => (.ok none, s, 0)
  | q :: qs, s =>
    match slice env q s with
    | (.ok none, s', c) => let r := runQuanta env qs s'; (r.1, r.2.1, c + r.2.2)
    | r => r

/-- quantum independence: any way of cutting the run into slices gives the first event (or
    error, or "still running"), the final state and the number of instructions of the single
    slice with the total quantum -/
theorem quantum_split (env : Env) (qs : List Nat) (s : Runtime) :
    runQuanta env qs s = slice env qs.sum s := by
  induction qs generalizing s with
  | nil => rfl
  | cons q qs ih =>
    rw [List.sum_cons, Runtime.slice_add, runQuanta]
    rcases slice env q s with ⟨r, s', c⟩
    rcases r with e | o
    · rfl
    · cases o with
      | some e => rfl
      | none => dsimp only; rw [ih]

theorem quantum_independent (env : Env) (qs qs' : List Nat) (s : Runtime) (h : qs.sum = qs'.sum) :
    runQuanta env qs s = runQuanta env qs' s := by
  rw [quantum_split, quantum_split, h]

/-- the driver's view: call `executeLoop` again while it reports `running` in state `running` -/
def runLoops (env : Env) : List Nat → Runtime → Except Error Event × Runtime
  | [], s => (.ok .running, s)
  | q :: qs, s =>
    match (executeLoop env q).run.run s with
    | (.ok .running, s') => if s'.state = .running then runLoops env qs s' else (.ok .running, s')
    | r => r

theorem quantum_split_loops (env : Env) (qs : List Nat) (s : Runtime) (hs : s.state = .running) :
    runLoops env qs s = (executeLoop env qs.sum).run.run s := by
  induction qs generalizing s with
  | nil => rfl
  | cons q qs ih =>
    rw [List.sum_cons, executeLoop_add_of_running env q qs.sum s hs, runLoops]
    rcases (executeLoop env q).run.run s with ⟨r, s'⟩
    rcases r with e | ev
    · rfl
    · cases ev with
      | running =>
        dsimp only
        by_cases h1 : s'.state = .running
        · rw [if_pos h1, if_pos h1, ih s' h1]
        · rw [if_neg h1, if_neg h1]
      | _ => rfl

theorem quantum_independent_loops (env : Env) (qs qs' : List Nat) (s : Runtime)
    (hs : s.state = .running) (h : qs.sum = qs'.sum) : runLoops env qs s = runLoops env qs' s := by
  rw [quantum_split_loops env qs s hs, quantum_split_loops env qs' s hs, h]

/-! ### … also at the API (`execute`) -/

/-- `finishLoop` on an error never leaves the state `running` -/
theorem finishLoop_error_state (e : Error) (s : Runtime) :
    (finishLoop (.error e) s).2 = .running ∧ (finishLoop (.error e) s).1.state ≠ .running := by
  unfold finishLoop
  dsimp only
  split
  · exact ⟨rfl, nofun⟩
  · dsimp only
    split <;> exact ⟨rfl, nofun⟩

theorem finishLoop_running (s : Runtime) : finishLoop (.ok .running) s = (s, .running) := by
  unfold finishLoop
  dsimp only
  split
  · rename_i h; cases h
  · rfl

/-- an event other than `running` is passed on (or replaced by the READY prompt) -/
theorem finishLoop_event_ne_running (ev : Event) (s : Runtime) (h : ev ≠ .running) :
    (finishLoop (.ok ev) s).2 ≠ .running := by
  unfold finishLoop
  dsimp only
  split
  · unfold readyPrompt
    split
    · rename_i heq
      split at heq
      · cases heq; nofun
      · cases heq
    · nofun
  · exact h

/-- "call `execute` again if the quantum was used up" -/
def thenExecute (env : Env) (n : Nat) (r : Runtime × Event) : Runtime × Event :=
  match r with
  | (s', .running) => if s'.state = .running then execute env s' n else (s', .running)
  | r => r

theorem thenExecute_other (env : Env) (n : Nat) (t : Runtime) (ev : Event) (h : ev ≠ .running) :
    thenExecute env n (t, ev) = (t, ev) := by
  cases ev <;> first | rfl | exact absurd rfl h

/-- slicing does not matter at the API: `execute` with quantum `m + n` is `execute` with `m`
    and, if that used up its quantum (`Event.running`, state still `running`), `execute` with `n` -/
theorem execute_add (env : Env) (m n : Nat) (s : Runtime)
    (hs : s.state = .running) (hd : s.listing.directErrors = []) :
    execute env s (m + n) =
      match execute env s m with
      | (s', .running) => if s'.state = .running then execute env s' n else (s', .running)
      | r => r := by
  show _ = thenExecute env n (execute env s m)
  rw [execute_running env s (m + n) hs hd, execute_running env s m hs hd,
    executeLoop_add_of_running env m n s hs]
  have hex := slice_exhausted_of_running env m s
  have hcalm := slice_none_calm env m s
  rw [executeLoop_run env m s] at *
  generalize slice env m s = x at hex hcalm ⊢
  rcases x with ⟨r, s', c⟩
  dsimp only at hex hcalm ⊢
  rcases r with e | o
  · -- error
    simp only [toEvent]
    have := finishLoop_error_state e s'
    rcases hf : finishLoop (.error e) s' with ⟨t, ev⟩
    rw [hf] at this
    dsimp only at this
    obtain ⟨h1, h2⟩ := this
    subst h1
    show _ = if t.state = .running then _ else _
    rw [if_neg h2]
  · cases o with
    | none =>
      have hst : s'.state = .running := by
        rcases (hcalm rfl).state with h | h
        · exact h.trans hs
        · exact h
      have hd' : s'.listing.directErrors = [] := by rw [(hcalm rfl).listing]; exact hd
      simp only [toEvent, hst, if_true, finishLoop_running]
      show _ = if s'.state = .running then _ else _
      rw [if_pos hst, execute_running env s' n hst hd']
    | some ev =>
      by_cases hev : ev = .running
      · subst hev
        have hst : s'.state ≠ .running := fun hst => by have := hex rfl hst; cases this
        simp only [toEvent, hst, if_false, finishLoop_running]
        show _ = if s'.state = .running then _ else _
        rw [if_neg hst]
      · have hfin := finishLoop_event_ne_running ev s' hev
        have key : ∀ (X : Except Error Event × Runtime), X = (.ok ev, s') →
            finishLoop X.1 X.2 = thenExecute env n (finishLoop (.ok ev) s') := by
          intro X hX
          rw [hX]
          rcases hf : finishLoop (.ok ev) s' with ⟨t, ev'⟩
          rw [hf] at hfin
          exact (thenExecute_other env n t ev' hfin).symm
        apply key
        simp only [toEvent]
        cases ev <;> first | rfl | exact absurd rfl hev

/-- if `execute` reports `running` in state `running`, the quantum was used up, and the listing
    (with its diagnostics) is untouched -/
theorem execute_running_listing (env : Env) (q : Nat) (s s' : Runtime)
    (hs : s.state = .running) (hd : s.listing.directErrors = [])
    (he : execute env s q = (s', .running)) (hs' : s'.state = .running) :
    s'.listing = s.listing := by
  rw [execute_running env s q hs hd, executeLoop_run] at he
  have hex := slice_exhausted_of_running env q s
  have hcalm := slice_none_calm env q s
  generalize slice env q s = x at hex hcalm he
  rcases x with ⟨r, t, c⟩
  dsimp only at hex hcalm he
  rcases r with e | o
  · have := finishLoop_error_state e t
    simp only [toEvent] at he
    rw [he] at this
    exact absurd hs' this.2
  · cases o with
    | none =>
      simp only [toEvent, finishLoop_running] at he
      cases he
      exact (hcalm rfl).listing
    | some ev =>
      by_cases hev : ev = .running
      · subst hev
        simp only [toEvent, finishLoop_running] at he
        cases he
        have := hex rfl hs'; cases this
      · have := finishLoop_event_ne_running ev t hev
        simp only [toEvent] at he
        rw [he] at this
        exact absurd rfl this

/-- the driver's loop: call `execute` with the next quantum while it reports `running` in state
    `running` -/
def runExecutes (env : Env) : Nat → List Nat → Runtime → Runtime × Event
  | q, [], s => execute env s q
  | q, q' :: qs, s =>
    match execute env s q with
    | (s', .running) => if s'.state = .running then runExecutes env q' qs s' else (s', .running)
    | r => r

/-- quantum independence at the API: however the driver cuts the run of a program into slices,
    the state and the event it ends up with are those of one call with the total quantum -/
theorem quantum_split_execute (env : Env) (q : Nat) (qs : List Nat) (s : Runtime)
    (hs : s.state = .running) (hd : s.listing.directErrors = []) :
    runExecutes env q qs s = execute env s (q + qs.sum) := by
  induction qs generalizing q s with
  | nil => rfl
  | cons q' qs ih =>
    rw [List.sum_cons, execute_add env q (q' + qs.sum) s hs hd, runExecutes]
    rcases he : execute env s q with ⟨s', ev⟩
    by_cases hev : ev = .running
    · subst hev
      show (if s'.state = .running then _ else _) = if s'.state = .running then _ else _
      by_cases hs' : s'.state = .running
      · rw [if_pos hs', if_pos hs']
        have hl := execute_running_listing env q s s' hs hd he hs'
        exact ih q' s' hs' (by rw [hl]; exact hd)
      · rw [if_neg hs', if_neg hs']
    · cases ev <;> first | rfl | exact absurd rfl hev

theorem quantum_independent_execute (env : Env) (q q' : Nat) (qs qs' : List Nat) (s : Runtime)
    (hs : s.state = .running) (hd : s.listing.directErrors = [])
    (h : q + qs.sum = q' + qs'.sum) : runExecutes env q qs s = runExecutes env q' qs' s := by
  rw [quantum_split_execute env q qs s hs hd, quantum_split_execute env q' qs' s hs hd, h]

/-! ### interrupt, the BREAK report, CONT -/

/-- an interrupt inside the program saves `(state, pc)` and changes nothing else -/
theorem interrupt_saves (s : Runtime) (h : s.pc < s.entryAddress) :
    interrupt s = { s with state := .interrupt, cont := s.state, contPc := s.pc } := by
  unfold interrupt
  dsimp only
  rw [if_neg (by omega)]

theorem interrupt_saves_fields (s : Runtime) (h : s.pc < s.entryAddress) :
    (interrupt s).state = .interrupt ∧ (interrupt s).cont = s.state ∧ (interrupt s).contPc = s.pc ∧
    (interrupt s).stack = s.stack ∧ (interrupt s).vars = s.vars ∧ (interrupt s).pc = s.pc ∧
    (interrupt s).program = s.program ∧ (interrupt s).listing = s.listing ∧
    (interrupt s).functions = s.functions ∧ (interrupt s).tron = s.tron ∧
    (interrupt s).printCol = s.printCol := by
  rw [interrupt_saves s h]
  exact ⟨rfl, rfl, rfl, rfl, rfl, rfl, rfl, rfl, rfl, rfl, rfl⟩

/-- an interrupt in direct code (at or beyond `entryAddress`) leaves nothing to continue -/
theorem interrupt_direct (s : Runtime) (h : s.pc ≥ s.entryAddress) :
    interrupt s = { s with state := .interrupt, cont := .stopped, contPc := s.pc, stack := #[] } := by
  unfold interrupt
  dsimp only
  rw [if_pos h]

theorem interrupt_state (s : Runtime) : (interrupt s).state = .interrupt := by
  unfold interrupt; dsimp only; split <;> rfl

/-- the BREAK report: `execute` once or twice, depending on the print column -/
def breakReport (env : Env) (n : Nat) (s : Runtime) : Runtime :=
  if s.printCol > 0 then (execute env (execute env s n).1 n).1 else (execute env s n).1

/-- the events of the report: an optional line break, then `?BREAK IN line` -/
theorem break_report_events (env : Env) (n : Nat) (s : Runtime) (hs : s.state = .interrupt) :
    (s.printCol > 0 →
      (execute env s n).2 = .print ['\n'] ∧
      (execute env (execute env s n).1 n).2 = .errors [breakError s]) ∧
    (s.printCol = 0 → (execute env s n).2 = .errors [breakError s]) := by
  constructor
  · intro hc
    rw [execute_interrupt_col env s n hs hc]
    refine ⟨rfl, ?_⟩
    rw [execute_runtimeError_nocol env _ n (breakError s) rfl rfl]
  · intro hc
    rw [execute_interrupt_nocol env s n hs hc]

/-- the report changes `state` (to `stopped`) and `printCol` (to 0), nothing else: `cont`,
    `contPc`, the stack, the variables, `pc`, the program, the function table all survive -/
theorem break_report (env : Env) (n : Nat) (s : Runtime) (hs : s.state = .interrupt) :
    breakReport env n s = { s with state := .stopped, printCol := 0 } := by
  unfold breakReport
  by_cases hc : s.printCol > 0
  · rw [if_pos hc, execute_interrupt_col env s n hs hc,
      execute_runtimeError_nocol env _ n (breakError s) rfl rfl]
  · have h0 : s.printCol = 0 := by omega
    rw [if_neg hc, execute_interrupt_nocol env s n hs h0]
    cases s; dsimp only at h0; subst h0; rfl

/-- the intermediate state when a line break is due: `runtimeError BREAK`, column 0 -/
theorem break_report_first (env : Env) (n : Nat) (s : Runtime) (hs : s.state = .interrupt)
    (hc : s.printCol > 0) :
    (execute env s n).1 = { s with state := .runtimeError (breakError s), printCol := 0 } := by
  rw [execute_interrupt_col env s n hs hc]

/-- `execute`, `k` times -/
def execN (env : Env) (n : Nat) : Nat → Runtime → Runtime
  | 0, s => s
  | k+1, s => execN env n k (execute env s n).1

/-- one interrupt suffices: at most two calls of `execute` later the state is `stopped`,
    whatever the state was and whatever quantum the driver uses -/
theorem interrupt_reaches_stopped (env : Env) (n : Nat) (s : Runtime) :
    ∃ k, 1 ≤ k ∧ k ≤ 2 ∧ (execN env n k (interrupt s)).state = .stopped := by
  have hs := interrupt_state s
  by_cases hc : (interrupt s).printCol > 0
  · refine ⟨2, by omega, by omega, ?_⟩
    show (execute env (execute env (interrupt s) n).1 n).1.state = .stopped
    have := break_report env n (interrupt s) hs
    unfold breakReport at this
    rw [if_pos hc] at this
    rw [this]
  · refine ⟨1, by omega, by omega, ?_⟩
    show (execute env (interrupt s) n).1.state = .stopped
    have := break_report env n (interrupt s) hs
    unfold breakReport at this
    rw [if_neg hc] at this
    rw [this]

/-- CONT: `(cont, contPc)` go back to `(state, pc)`; `true` (the slice ends with
    `Event.running`) iff the restored state is not `running` -/
theorem doCont_restores (s : Runtime) (hs : s.state = .running) (hc : s.cont ≠ .stopped) :
    doCont.run.run s =
      (.ok (s.cont != .running), { s with state := s.cont, cont := .stopped, pc := s.contPc }) := by
  rw [run_doCont, if_neg hc, if_pos hs]

/-- CONT with nothing to continue: CAN'T CONTINUE, state untouched -/
theorem doCont_refuses (s : Runtime) (hc : s.cont = .stopped) :
    doCont.run.run s = (.error (Error.mk' Code.cantContinue), s) := by
  rw [run_doCont, if_pos hc]

/-- interrupt ∘ report ∘ CONT = identity up to `printCol := 0`, from any state of a program in
    progress (`running`, `input`, `inputRunning`, `listing`, …: anything but `stopped`).  `t` is the
    state in which the CONT statement executes: the state after the report with `state = running`
    and whatever `pc`, `entryAddress`, `tr` and (direct-code) program compiling the line `CONT`
    gave.  The slice goes on (`false`) exactly when the interrupted state was `running`. -/
theorem interrupt_cont_identity (env : Env) (n : Nat) (s t : Runtime)
    (hs : s.state ≠ .stopped) (hpc : s.pc < s.entryAddress)
    (ht : t.state = .running)
    (hcont : t.cont = (breakReport env n (interrupt s)).cont)
    (hcontPc : t.contPc = (breakReport env n (interrupt s)).contPc)
    (hstack : t.stack = (breakReport env n (interrupt s)).stack)
    (hvars : t.vars = (breakReport env n (interrupt s)).vars)
    (hfns : t.functions = (breakReport env n (interrupt s)).functions)
    (hdata : t.program.link.dataPos = (breakReport env n (interrupt s)).program.link.dataPos)
    (htron : t.tron = (breakReport env n (interrupt s)).tron)
    (hcol : t.printCol = (breakReport env n (interrupt s)).printCol) :
    (doCont.run.run t).1 = .ok (s.state != .running) ∧
    (doCont.run.run t).2.pc = s.pc ∧
    (doCont.run.run t).2.state = s.state ∧
    (doCont.run.run t).2.cont = .stopped ∧
    (doCont.run.run t).2.stack = s.stack ∧
    (doCont.run.run t).2.vars = s.vars ∧
    (doCont.run.run t).2.functions = s.functions ∧
    (doCont.run.run t).2.program.link.dataPos = s.program.link.dataPos ∧
    (doCont.run.run t).2.tron = s.tron ∧
    (doCont.run.run t).2.printCol = 0 := by
  rw [break_report env n (interrupt s) (interrupt_state s), interrupt_saves s hpc] at *
  dsimp only at hcont hcontPc hstack hvars hfns hdata htron hcol
  have hc' : t.cont ≠ .stopped := by rw [hcont]; exact hs
  rw [doCont_restores t ht hc']
  dsimp only
  rw [hcont, hcontPc, hstack, hvars, hfns, hdata, htron, hcol]
  exact ⟨rfl, rfl, rfl, rfl, rfl, rfl, rfl, rfl, rfl, rfl⟩

/-- the case of the task statement: a `running` program goes on running -/
theorem interrupt_cont_running (env : Env) (n : Nat) (s t : Runtime)
    (hs : s.state = .running) (hpc : s.pc < s.entryAddress) (ht : t.state = .running)
    (hcont : t.cont = (breakReport env n (interrupt s)).cont)
    (hcontPc : t.contPc = (breakReport env n (interrupt s)).contPc) :
    doCont.run.run t = (.ok false, { t with state := .running, cont := .stopped, pc := s.pc }) := by
  rw [break_report env n (interrupt s) (interrupt_state s), interrupt_saves s hpc] at *
  dsimp only at hcont hcontPc
  have hc' : t.cont ≠ .stopped := by rw [hcont, hs]; nofun
  rw [doCont_restores t ht hc', hcont, hcontPc, hs]
  rfl

/-- END / STOP-like termination inside the program records where to continue … -/
theorem doEnd_cont (s : Runtime) (h : s.pc < s.entryAddress) :
    doEnd s = { s with cont := s.state, contPc := s.pc, state := .stopped } := by
  simp only [doEnd, h, if_true, Nat.ne_of_lt h, if_false]

/-- … at `pc = entryAddress` (the END that closes a direct line) nothing is left to continue … -/
theorem doEnd_direct (s : Runtime) (h : s.pc = s.entryAddress) :
    doEnd s = { s with cont := .stopped, state := .stopped } := by
  simp only [doEnd, h, Nat.lt_irrefl, if_true, if_false]

/-- … and beyond it `cont` is left as it is -/
theorem doEnd_beyond (s : Runtime) (h : s.pc > s.entryAddress) :
    doEnd s = { s with state := .stopped } := by
  simp only [doEnd, Nat.not_lt_of_gt h, Nat.ne_of_gt h, if_false]

/-- END then CONT: execution resumes after the END, state `running` -/
theorem end_cont_identity (s t : Runtime) (hs : s.state = .running) (hpc : s.pc < s.entryAddress)
    (ht : t.state = .running) (hcont : t.cont = (doEnd s).cont) (hcontPc : t.contPc = (doEnd s).contPc) :
    doCont.run.run t = (.ok false, { t with state := .running, cont := .stopped, pc := s.pc }) := by
  rw [doEnd_cont s hpc] at hcont hcontPc
  dsimp only at hcont hcontPc
  have hc' : t.cont ≠ .stopped := by rw [hcont, hs]; nofun
  rw [doCont_restores t ht hc', hcont, hcontPc, hs]
  rfl

/-! ### STOP -/

/-- the instruction STOP ends the slice with the error BREAK, `pc` already past it -/
theorem step_stop (env : Env) (h : Bool) (s : Runtime) (htr : s.tron = false)
    (hop : s.program.link.ops[s.pc]? = some .stop) :
    (step env h).run.run s = (.error (Error.mk' Code.break), { s with pc := s.pc + 1 }) := by
  rw [step_troff env h s htr, run_fetchExec, hop]
  rfl

/-- STOP inside the program: `execute` records the CONT point *after* the STOP and enters the
    same `runtimeError BREAK` state as an interrupt does; stack, variables, functions untouched.
    With `break_report` and `doCont_restores`: STOP followed by CONT is a no-op. -/
theorem stop_saves (env : Env) (n : Nat) (s : Runtime)
    (hs : s.state = .running) (hd : s.listing.directErrors = []) (htr : s.tron = false)
    (hop : s.program.link.ops[s.pc]? = some .stop)
    (hpc : s.pc + 1 < s.entryAddress) (hfull : isFull s = false) :
    execute env s (n + 1) =
      ({ s with pc := s.pc + 1, cont := .running, contPc := s.pc + 1,
                state := .runtimeError ((Error.mk' Code.break).inLine (lineNumber { s with pc := s.pc + 1 })) },
       .running) := by
  rw [execute_running env s (n + 1) hs hd, executeLoop_run]
  have h1 : slice env (n + 1) s = (.error (Error.mk' Code.break), { s with pc := s.pc + 1 }, 1) := by
    unfold slice
    rw [sliceRun_succ, step_stop env _ s htr hop]
  rw [h1]
  have hge : decide (s.pc + 1 ≥ s.entryAddress) = false := by
    rw [decide_eq_false_iff_not]; omega
  unfold isFull at hfull
  unfold finishLoop isFull
  dsimp only [toEvent]
  rw [if_neg (by rw [hs]; nofun), hge, hfull, hs]
  rfl

/-! ### non-vacuity -/

def env0 : Env := { lex := fun _ => ⟨none, []⟩, lineRenum := fun _ l => l }

/-- a program `10 A=A+1 : GOTO 10` in the middle of its loop, column 3 -/
def looping : Runtime :=
  { state := .running, pc := 2, entryAddress := 5, printCol := 3, stack := #[.int 4, .int 1],
    program := { link := { ops := #[.push "A".toList, .literal (.int 1), .add, .pop "A".toList, .jump 0, .cont, .end],
                           symbols := [(10, (0, 0))] } } }

example : (interrupt looping).state = .interrupt ∧ (interrupt looping).cont = .running ∧
    (interrupt looping).contPc = 2 ∧ (interrupt looping).stack = #[.int 4, .int 1] := by decide
example : (interrupt { looping with pc := 5 }).cont = .stopped ∧
    (interrupt { looping with pc := 5 }).stack = #[] := by decide
example : (breakReport env0 100 (interrupt looping)).state = .stopped ∧
    (breakReport env0 100 (interrupt looping)).printCol = 0 ∧
    (breakReport env0 100 (interrupt looping)).cont = .running := by
  rw [break_report env0 100 _ (interrupt_state _)]; decide
/-- CONT typed after the report: direct code at 5, `pc = 5`, `entryAddress = 5` -/
example : (doCont.run.run { interrupt looping with state := .running, pc := 6, printCol := 0 }).2.pc = 2 := by
  decide
example : (doEnd looping).cont = .running ∧ (doEnd looping).contPc = 2 ∧
    (doEnd { looping with pc := 5 }).cont = .stopped := by decide
/-- STOP at address 2 of a three-instruction program -/
def stopping : Runtime := { looping with program := { link := { ops := #[.stop, .stop, .stop] } } }
example : (execute env0 stopping 10).1.contPc = 3 ∧ (execute env0 stopping 10).1.cont = .running := by
  rw [stop_saves env0 9 stopping rfl rfl rfl rfl (by decide) (by decide)]; exact ⟨rfl, rfl⟩
/-- three instructions in one slice or in three -/
example : runExecutes env0 1 [1, 1] looping = execute env0 looping 3 :=
  quantum_split_execute env0 1 [1, 1] looping rfl rfl
example : runQuanta env0 [1, 1, 1] looping = slice env0 3 looping := quantum_split env0 [1, 1, 1] looping
example : (slice env0 3 looping).2.2 = 3 ∧ (slice env0 3 looping).2.1.pc = 0 := by decide

end Thm.C13
end Basic
