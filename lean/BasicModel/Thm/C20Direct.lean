import BasicModel.Thm.C20Layout
/-
  C20 (continuation, runtime chain) — the direct statement's code is addressed by a symbol that can
  never be a program line number.

  What the model (= `link.rs` / `program.rs`) does: the first `linkProg` after the numbered lines
  (`markDirect`) records where the direct segment starts as `directAddress` AND as an entry of the
  symbol table under the key `maxLineNumber + 1 = 65530` (`Link.setStartOfDirect`).  Line numbers
  are `≤ 65529`, so that entry never replaces (and is never found instead of) a line's entry:

  * `direct_mark`: the table of a compiled listing maps 65530 to `directAddress`, and
    `direct_mark_not_a_line`: no line number equals that key;
  * `direct_line_table`: the table with which the linker resolves the references of the DIRECT line
    (the compile state after the direct line, `ensureEnd`ed — `linkOne` looks `sym` up in it, and the
    pass does not change it) is, on keys `≥ 0`, exactly the table of the compiled listing;
  * `direct_branch_resolves`: in it every line `m` of a well-formed listing (numbers `≤ 65529`,
    ascending) — 65529 included — is found with the address of that line's code, strictly below
    `directAddress`, i.e. not the direct code; `direct_jump_patched`: a `Jump` of the direct code
    that refers to line `m` is patched to that address, without an error;
  * `runProg_symbols`: the linked program the interpreter then runs has the listing's table and
    `directAddress` unchanged.
-/
namespace Basic
namespace Thm.C20
open Link Program

/-- the key under which the start of the direct segment is recorded -/
def directKey : Symbol := (Gen.maxLineNumber : Int) + 1

theorem directKey_eq : directKey = 65530 := by decide

/-- **no line number is the key of the direct segment** -/
theorem direct_mark_not_a_line (n : Nat) (hn : n ≤ Gen.maxLineNumber) : (n : Symbol) ≠ directKey := by
  intro e
  have : n = Gen.maxLineNumber + 1 := by
    unfold directKey at e
    exact_mod_cast e
  omega

/-- the compiled listing records the start of the direct segment under `directKey` -/
theorem direct_mark (ls : List Line) (hnum : Numbered ls) :
    (compile ls).link.symbols.lookup directKey =
      some ((compile ls).directAddress, (compile ls).link.data.size) := by
  rw [compile_symbols ls hnum, symInsert_lookup]
  exact if_pos rfl

/-- the state whose symbol table resolves the references of the direct line `d` entered over the
    listing `ls`: lines compiled, `d` compiled, `End` ensured (stage 1 of `linkProg`) -/
def directLinkState (ls : List Line) (d : Line) : Program :=
  ensureEnd ((({} : Program).codegenLines ls).codegenLine d)

theorem runProg_eq (ls : List Line) (d : Line) :
    runProg ls d = markDirect (resolve (directLinkState ls d)) := rfl

/-- the table the direct line is linked with is, on the keys `≥ 0` (line numbers and the mark),
    the table of the compiled listing; `directAddress` is the listing's -/
theorem direct_line_table (ls : List Line) (d : Line) (hd : d.number = none) :
    (directLinkState ls d).link.symbols.filter (fun p => p.1 ≥ 0) = (compile ls).link.symbols ∧
    (directLinkState ls d).directAddress = (compile ls).directAddress := by
  have hb := based_compile ls
  unfold directLinkState
  rw [codegenLine_direct _ d hd]
  have h := (POver.directGen hb d).ensureEnd
  exact ⟨h.link.symbols, h.directAddress⟩

/-- … so a lookup of any key `≥ 0` gives what the compiled listing has -/
theorem direct_line_lookup (ls : List Line) (d : Line) (hd : d.number = none) (x : Symbol) (hx : 0 ≤ x) :
    (directLinkState ls d).link.symbols.lookup x = (compile ls).link.symbols.lookup x := by
  rw [← (direct_line_table ls d hd).1]
  exact (lookup_filter x _ (fun p _ e => by rw [e]; simpa using hx)).symm

/-- the linked program the interpreter runs after the direct line: table and `directAddress` are
    the listing's -/
theorem runProg_symbols (ls : List Line) (d : Line) (hd : d.number = none) :
    (runProg ls d).link.symbols = (compile ls).link.symbols ∧
    (runProg ls d).directAddress = (compile ls).directAddress := by
  have hb := based_compile ls
  unfold runProg
  rw [codegenLine_direct _ d hd]
  obtain ⟨h1, h2⟩ := (POver.directGen hb d).linkProg hb
  refine ⟨?_, h1.directAddress⟩
  have e := h1.link.symbols
  rw [List.filter_eq_self.2 fun p hp => by simpa using h2.symbols p hp] at e
  exact e

/-- **a reference to line `m` in the direct statement finds that program line** — address
    `endOf pre` (the code and data compiled before it), strictly below `directAddress`: never the
    direct code itself.  `m` is any line of a well-formed listing, `65529` included. -/
theorem direct_branch_resolves (pre tl : List Line) (hdl : Line) (m : Nat) (d : Line)
    (hl : Listed (pre ++ hdl :: tl)) (hm : hdl.number = some m) (hd : d.number = none) :
    (directLinkState (pre ++ hdl :: tl) d).link.symbols.lookup (m : Symbol) = some (endOf pre) ∧
    (endOf pre).1 < (directLinkState (pre ++ hdl :: tl) d).directAddress ∧
    (endOf pre).1 < (runProg (pre ++ hdl :: tl) d).directAddress ∧
    (directLinkState (pre ++ hdl :: tl) d).link.symbols.lookup directKey =
      some ((runProg (pre ++ hdl :: tl) d).directAddress, (compile (pre ++ hdl :: tl)).link.data.size) ∧
    (m : Symbol) ≠ directKey := by
  obtain ⟨hpre, htl, hmax, _, hafter, _⟩ := hl.split hm
  have hnum : Numbered (pre ++ hdl :: tl) := fun l hl' => by
    obtain ⟨n, hn, _⟩ := hl.numbered l hl'
    exact ⟨n, hn⟩
  have hne : ∀ l ∈ tl, l.number ≠ some m := fun l hl' e => by
    have := (hafter l hl' m e).1
    omega
  have hlook : (compile (pre ++ hdl :: tl)).link.symbols.lookup (m : Symbol) = some (endOf pre) := by
    rw [compile_lookup_line _ hnum m hmax]
    exact codegenLines_entry_lookup pre tl hdl m hm hpre htl hne
  have hkey := direct_mark_not_a_line m hmax
  have hbelow : (endOf pre).1 < (compile (pre ++ hdl :: tl)).directAddress :=
    line_address_below_direct _ hnum ((m : Symbol), endOf pre) (mem_of_lookup hlook) hkey
  have hda := (direct_line_table (pre ++ hdl :: tl) d hd).2
  have hda' := (runProg_symbols (pre ++ hdl :: tl) d hd).2
  refine ⟨?_, ?_, ?_, ?_, hkey⟩
  · rw [direct_line_lookup _ d hd _ (Int.natCast_nonneg m)]; exact hlook
  · rw [hda]; exact hbelow
  · rw [hda']; exact hbelow
  · rw [direct_line_lookup _ d hd _ (by decide), direct_mark _ hnum, hda']

/-- the linker's step on such a reference: a `Jump` (GOTO / GOSUB / THEN / RUN n) is patched with
    the address the table holds — no error, and (with `linkOne_frame`) the table stays as it is -/
theorem direct_jump_patched (l : Link) (a : Nat) (c : Col) (sym : Symbol) (o dd x : Nat)
    (hs : l.symbols.lookup sym = some (o, dd)) (hop : l.ops[a]? = some (.jump x)) :
    (l.linkOne a c sym).2 = none ∧ (l.linkOne a c sym).1.ops[a]? = some (.jump o) ∧
    (l.linkOne a c sym).1.symbols = l.symbols := by
  have hlt : a < l.ops.size := by
    rcases Nat.lt_or_ge a l.ops.size with h | h
    · exact h
    · rw [Array.getElem?_eq_none h] at hop; cases hop
  unfold linkOne
  rw [hs]
  dsimp only
  rw [hop]
  dsimp only
  refine ⟨rfl, ?_, rfl⟩
  rw [Array.getElem?_setIfInBounds_self_of_lt hlt]

/-- put together for `GOTO m` typed as a direct statement: the pending `Jump` at address `a` of
    the direct code, linked with the direct line's table, becomes a jump to line `m`'s code, below
    `directAddress` -/
theorem direct_goto_lands_in_program (pre tl : List Line) (hdl : Line) (m : Nat) (d : Line)
    (hl : Listed (pre ++ hdl :: tl)) (hm : hdl.number = some m) (hd : d.number = none)
    (a x : Nat) (c : Col)
    (hop : (directLinkState (pre ++ hdl :: tl) d).link.ops[a]? = some (.jump x)) :
    ∃ o, ((directLinkState (pre ++ hdl :: tl) d).link.linkOne a c (m : Symbol)).1.ops[a]? = some (.jump o) ∧
      o < (runProg (pre ++ hdl :: tl) d).directAddress ∧
      ((directLinkState (pre ++ hdl :: tl) d).link.linkOne a c (m : Symbol)).2 = none := by
  obtain ⟨h1, _, h3, _, _⟩ := direct_branch_resolves pre tl hdl m d hl hm hd
  obtain ⟨k1, k2, _⟩ := direct_jump_patched _ a c (m : Symbol) (endOf pre).1 (endOf pre).2 x h1 hop
  exact ⟨(endOf pre).1, k2, h3, k1⟩

/-! ### non-vacuity: `65529 END`, and `GOTO 65529` typed as a direct statement -/

def exLast : Line := ⟨some 65529, [.word .end]⟩
def exGoto : Line := ⟨none, [.word .goto, .whitespace 1, .literal (.integer "65529".toList)]⟩

theorem exLast_listed : Listed ([] ++ exLast :: []) := listed_of_check _ (by decide)

/-- the hypotheses of `direct_branch_resolves` hold for it, so line 65529 is found at address 0,
    the direct segment starts above it, and the mark sits under 65530 -/
example : (directLinkState [exLast] exGoto).link.symbols.lookup (65529 : Symbol) = some (0, 0) ∧
    0 < (runProg [exLast] exGoto).directAddress :=
  have h := direct_branch_resolves [] [] exLast 65529 exGoto exLast_listed rfl rfl
  ⟨h.1, h.2.2.1⟩

end Thm.C20
end Basic
