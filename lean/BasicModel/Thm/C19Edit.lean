import BasicModel.Thm.C04
/-
  C19 / C04 (continuation, runtime chain) — after DELETE took lines away, or a numbered line was
  entered, nothing may resume into the old program.

  What the model (= `runtime.rs`) does, exactly:

  * `doDelete` (`r#delete`) pops two values, converts both with `toLineNumber`, calls
    `Listing.removeRange`.  ONLY IF that reports `removed = true` does it set `dirty := true`,
    `state := stopped`, `cont := stopped`, `stack := #[]`, `functions := []`; then, in both cases,
    `r#end` (`doEnd`) runs.  From a state with `state = cont = stopped`, `doEnd` leaves `cont = stopped`
    at every `pc` (`doEnd_of_cancelled`).  A DELETE whose range holds no line behaves like END: inside
    a program it *keeps* a continue point (see the second example at the end) — nothing was edited.
  * `enter` with a numbered line (state neither `input` nor `inkey`, the typed text and the listed
    text both within the line buffer) is `enterIndirect`, which cancels `cont`, `stack`, `functions`
    *unconditionally* — also for a bare number naming no line — and raises `dirty` iff the listing
    changed (`Thm/C04.lean`).  If one of the two length tests fails the line is NOT stored and the
    continue point survives: the state only turns into the LINE BUFFER OVERFLOW report.
  * In a state with `cont = stopped` and an empty stack the instructions CONT / RETURN / NEXT fail
    with CAN'T CONTINUE / RETURN WITHOUT GOSUB / NEXT WITHOUT FOR and change nothing.
-/
namespace Basic
namespace Thm.C19
open Basic.Runtime

/-! ### `r#end` after the cancellation -/

/-- from a cancelled state (`state = cont = stopped`) `r#end` keeps everything cancelled, at any `pc` -/
theorem doEnd_of_cancelled (s : Runtime) (hs : s.state = .stopped) (hc : s.cont = .stopped) :
    (doEnd s).cont = .stopped ∧ (doEnd s).state = .stopped ∧ (doEnd s).stack = s.stack ∧
    (doEnd s).functions = s.functions ∧ (doEnd s).dirty = s.dirty ∧ (doEnd s).listing = s.listing := by
  unfold doEnd
  dsimp only
  split <;> split <;> simp only [hs, hc, and_self]

/-! ### DELETE -/

/-- the state `r#delete` builds when lines were removed, before `r#end` -/
def deleted (s : Runtime) (l : Listing) : Runtime :=
  { s with listing := l, dirty := true, state := .stopped, cont := .stopped, stack := #[], functions := [] }

/-- `r#delete` computed: any stack, any two operands -/
theorem run_doDelete (s : Runtime) (stk : Array Val) (a b : Val) (lo hi : Option Nat)
    (h : s.stack = (stk.push a).push b) (ha : a.toLineNumber = .ok lo) (hb : b.toLineNumber = .ok hi) :
    doDelete.run.run s =
      (.ok .stopped,
       doEnd (if (s.listing.removeRange lo hi).2 = true
              then deleted s (s.listing.removeRange lo hi).1 else { s with stack := stk })) := by
  unfold doDelete pop2
  simp only [run_bind, run_pop, h, Array.back?_push, Array.pop_push, run_pure, run_liftE, ha, hb, run_get]
  generalize s.listing.removeRange lo hi = r
  obtain ⟨l, removed⟩ := r
  cases removed with
  | true => simp only [if_true, run_bind, run_set, run_modify, run_pure]; rfl
  | false => simp only [Bool.false_eq_true, if_false, run_bind, run_pure, run_modify]

/-- **DELETE that took lines away leaves nothing to resume** — whatever the range, the stack below
    the operands, the continue point and `pc` were -/
theorem delete_removed_cancels (s : Runtime) (stk : Array Val) (a b : Val) (lo hi : Option Nat)
    (h : s.stack = (stk.push a).push b) (ha : a.toLineNumber = .ok lo) (hb : b.toLineNumber = .ok hi)
    (hr : (s.listing.removeRange lo hi).2 = true) :
    (doDelete.run.run s).1 = .ok .stopped ∧
    (doDelete.run.run s).2.cont = .stopped ∧ (doDelete.run.run s).2.stack = #[] ∧
    (doDelete.run.run s).2.functions = [] ∧ (doDelete.run.run s).2.dirty = true ∧
    (doDelete.run.run s).2.state = .stopped ∧
    (doDelete.run.run s).2.listing = (s.listing.removeRange lo hi).1 := by
  rw [run_doDelete s stk a b lo hi h ha hb, if_pos hr]
  obtain ⟨h1, h2, h3, h4, h5, h6⟩ :=
    doEnd_of_cancelled (deleted s (s.listing.removeRange lo hi).1) rfl rfl
  exact ⟨rfl, h1, h3, h4, h5, h2, h6⟩

/-- `removeRange` reports `false` only when it returns the listing it was given -/
theorem removeRange_false (l : Listing) (lo hi : Option Nat) (h : (l.removeRange lo hi).2 = false) :
    (l.removeRange lo hi).1 = l := by
  unfold Listing.removeRange at h ⊢
  split
  · rename_i hc; rw [if_pos hc] at h; cases h
  · rfl

/-- the same without naming the operands: ANY successful `r#delete` after which the listing differs
    from the one before has cancelled the continue point, the stack and the DEF FN table -/
theorem delete_changed_cancels (s t : Runtime) (ev : Event) (hrun : doDelete.run.run s = (.ok ev, t))
    (hl : t.listing ≠ s.listing) :
    t.cont = .stopped ∧ t.stack = #[] ∧ t.functions = [] ∧ t.dirty = true ∧ t.state = .stopped := by
  unfold doDelete pop2 at hrun
  simp only [run_bind, run_pop] at hrun
  cases hb : s.stack.back? with
  | none => rw [hb] at hrun; cases hrun
  | some b =>
    rw [hb] at hrun; dsimp only at hrun
    cases ha : s.stack.pop.back? with
    | none => rw [ha] at hrun; cases hrun
    | some a =>
      rw [ha] at hrun; dsimp only [run_pure] at hrun
      simp only [run_liftE] at hrun
      cases hlo : a.toLineNumber with
      | error e => rw [hlo] at hrun; cases hrun
      | ok lo =>
        rw [hlo] at hrun; dsimp only at hrun
        cases hhi : b.toLineNumber with
        | error e => rw [hhi] at hrun; cases hrun
        | ok hi =>
          rw [hhi] at hrun; dsimp only at hrun
          simp only [run_get] at hrun
          have hfalse := removeRange_false s.listing lo hi
          generalize s.listing.removeRange lo hi = r at hrun hfalse
          obtain ⟨l, removed⟩ := r
          cases removed with
          | true =>
            simp only [if_true, run_bind, run_set, run_modify, run_pure] at hrun
            obtain ⟨_, rfl⟩ := hrun
            obtain ⟨h1, h2, h3, h4, h5, _⟩ := doEnd_of_cancelled
              (deleted { s with stack := s.stack.pop.pop } l) rfl rfl
            exact ⟨h1, h3, h4, h5, h2⟩
          | false =>
            simp only [Bool.false_eq_true, if_false, run_bind, run_pure, run_modify] at hrun
            obtain ⟨_, rfl⟩ := hrun
            exact (hl (by rw [doEnd_keeps_listing])).elim
where
  doEnd_keeps_listing {u : Runtime} : (doEnd u).listing = u.listing := by
    unfold doEnd; dsimp only
    split <;> split <;> rfl

/-- the DELETE instruction: the event is `stopped`, and the state is the one of `r#delete` -/
theorem execOp_delete_run (env : Env) (h : Bool) (s : Runtime) :
    (execOp env h .delete).run.run s =
      match doDelete.run.run s with
      | (.ok ev, t) => (.ok (.event ev), t)
      | (.error e, t) => (.error e, t) := by
  simp only [execOp, run_bind]
  rcases doDelete.run.run s with ⟨r, t⟩
  cases r <;> rfl

/-- the instruction form of `delete_removed_cancels` -/
theorem delete_instruction_cancels (env : Env) (hie : Bool) (s : Runtime) (stk : Array Val) (a b : Val)
    (lo hi : Option Nat)
    (h : s.stack = (stk.push a).push b) (ha : a.toLineNumber = .ok lo) (hb : b.toLineNumber = .ok hi)
    (hr : (s.listing.removeRange lo hi).2 = true) :
    ∃ t, (execOp env hie .delete).run.run s = (.ok (.event .stopped), t) ∧
      t.cont = .stopped ∧ t.stack = #[] ∧ t.functions = [] ∧ t.dirty = true ∧ t.state = .stopped := by
  obtain ⟨h0, h1, h2, h3, h4, h5, _⟩ := delete_removed_cancels s stk a b lo hi h ha hb hr
  refine ⟨(doDelete.run.run s).2, ?_, h1, h2, h3, h4, h5⟩
  rw [execOp_delete_run]
  generalize doDelete.run.run s = x at h0
  obtain ⟨r, t⟩ := x
  cases h0
  rfl

/-! ### a numbered line -/

/-- `enter` of a numbered line that fits the line buffer (typed and listed) is `enterIndirect` -/
theorem enter_numbered (env : Env) (s : Runtime) (str : Str) (n : Nat)
    (hi : s.state ≠ .input) (hk : s.state ≠ .inkey)
    (hlen : ¬ RStd.utf8Len str > Gen.maxLineLen)
    (hn : (env.lex str).number = some n)
    (hfit : ¬ RStd.utf8Len (printLine (env.lex str).number (env.lex str).tokens) > Gen.maxLineLen) :
    enter env s str = enterIndirect s (env.lex str) := by
  unfold enter
  split
  · rename_i hst; exact (hi hst).elim
  · rename_i hst; exact (hk hst).elim
  · rw [if_neg hlen]
    dsimp only
    rw [if_neg (by rw [hn]; simp), if_neg hfit]

/-- **entering any numbered line** — insert, replace or a bare number, whether or not the listing
    changes — **leaves nothing to resume** -/
theorem enter_numbered_cancels (env : Env) (s : Runtime) (str : Str) (n : Nat)
    (hi : s.state ≠ .input) (hk : s.state ≠ .inkey)
    (hlen : ¬ RStd.utf8Len str > Gen.maxLineLen)
    (hn : (env.lex str).number = some n)
    (hfit : ¬ RStd.utf8Len (printLine (env.lex str).number (env.lex str).tokens) > Gen.maxLineLen) :
    (enter env s str).cont = .stopped ∧ (enter env s str).stack = #[] ∧ (enter env s str).functions = [] := by
  rw [enter_numbered env s str n hi hk hlen hn hfit]
  exact C04.enterIndirect_cancels s _

/-- without the length hypotheses: a numbered line is either refused as a whole (LINE BUFFER
    OVERFLOW; listing, continue point and stack untouched) or it cancels everything resumable -/
theorem enter_numbered_cancels_or_refused (env : Env) (s : Runtime) (str : Str) (n : Nat)
    (hi : s.state ≠ .input) (hk : s.state ≠ .inkey) (hn : (env.lex str).number = some n) :
    enter env s str = { s with state := .runtimeError (Error.mk' Code.lineBufferOverflow) } ∨
    ((enter env s str).cont = .stopped ∧ (enter env s str).stack = #[] ∧ (enter env s str).functions = []) := by
  by_cases hlen : RStd.utf8Len str > Gen.maxLineLen
  · left
    unfold enter
    split
    · rename_i hst; exact (hi hst).elim
    · rename_i hst; exact (hk hst).elim
    · rw [if_pos hlen]
  · by_cases hfit : RStd.utf8Len (printLine (env.lex str).number (env.lex str).tokens) > Gen.maxLineLen
    · left
      unfold enter
      split
      · rename_i hst; exact (hi hst).elim
      · rename_i hst; exact (hk hst).elim
      · rw [if_neg hlen]
        dsimp only
        rw [if_neg (by rw [hn]; simp), if_pos hfit]
    · exact .inr (enter_numbered_cancels env s str n hi hk hlen hn hfit)

/-! ### in such a state CONT / RETURN / NEXT are refused -/

/-- the three *instructions* in a state with no continue point and an empty stack: the error, and
    the state is untouched -/
theorem resume_instructions_refused (env : Env) (hie : Bool) (t : Runtime) (hc : t.cont = .stopped)
    (hs : t.stack = #[]) (name : Str) :
    (execOp env hie .cont).run.run t = (.error (Error.mk' Code.cantContinue), t) ∧
    (execOp env hie .return).run.run t = (.error (Error.mk' Code.returnWithoutGosub), t) ∧
    (execOp env hie (.next name)).run.run t = (.error (Error.mk' Code.nextWithoutFor), t) := by
  refine ⟨?_, ?_, ?_⟩
  · rw [execOp_cont_run, if_pos hc]
  · simp only [execOp]
    exact run_bind_error (doReturn_refused t hs)
  · simp only [execOp]
    exact run_bind_error (doNext_refused name t hs)

/-- the same for a whole `step` (trace off) whose `pc` points at one of the three instructions:
    `pc` has advanced, the rest of the state is untouched -/
theorem resume_step_refused (env : Env) (hie : Bool) (t : Runtime) (hc : t.cont = .stopped)
    (hs : t.stack = #[]) (htr : t.tron = false) (op : Opcode) (hop : t.program.link.ops[t.pc]? = some op) :
    (op = .cont → (step env hie).run.run t =
        (.error (Error.mk' Code.cantContinue), { t with pc := t.pc + 1 })) ∧
    (op = .return → (step env hie).run.run t =
        (.error (Error.mk' Code.returnWithoutGosub), { t with pc := t.pc + 1 })) ∧
    (∀ name, op = .next name → (step env hie).run.run t =
        (.error (Error.mk' Code.nextWithoutFor), { t with pc := t.pc + 1 })) := by
  have hstep : (step env hie).run.run t = (execOp env hie op).run.run { t with pc := t.pc + 1 } := by
    rw [step_troff env hie t htr, run_fetchExec, hop]
  have h3 := fun name => resume_instructions_refused env hie { t with pc := t.pc + 1 } hc hs name
  refine ⟨fun h => ?_, fun h => ?_, fun name h => ?_⟩
  · rw [hstep, h]; exact (h3 []).1
  · rw [hstep, h]; exact (h3 []).2.1
  · rw [hstep, h]; exact (h3 name).2.2

/-- DELETE took lines away ⇒ in the state it leaves — and in the state any later direct line starts
    in — CONT, RETURN and NEXT are refused -/
theorem delete_then_resume_refused (env : Env) (hie : Bool) (s : Runtime) (stk : Array Val) (a b : Val)
    (lo hi : Option Nat)
    (h : s.stack = (stk.push a).push b) (ha : a.toLineNumber = .ok lo) (hb : b.toLineNumber = .ok hi)
    (hr : (s.listing.removeRange lo hi).2 = true) (line : Line) (name : Str) :
    ∀ t, (t = (doDelete.run.run s).2 ∨ t = enterDirect (doDelete.run.run s).2 line) →
      (execOp env hie .cont).run.run t = (.error (Error.mk' Code.cantContinue), t) ∧
      (execOp env hie .return).run.run t = (.error (Error.mk' Code.returnWithoutGosub), t) ∧
      (execOp env hie (.next name)).run.run t = (.error (Error.mk' Code.nextWithoutFor), t) := by
  obtain ⟨_, h1, h2, _⟩ := delete_removed_cancels s stk a b lo hi h ha hb hr
  intro t ht
  rcases ht with rfl | rfl
  · exact resume_instructions_refused env hie _ h1 h2 name
  · obtain ⟨k1, k2, _⟩ := C04.enterDirect_keeps_resumables (doDelete.run.run s).2 line
    exact resume_instructions_refused env hie _ (k1.trans h1) (k2.trans h2) name

/-- a numbered line was entered ⇒ the same -/
theorem edit_then_resume_refused (env : Env) (hie : Bool) (s : Runtime) (str : Str) (n : Nat)
    (hi : s.state ≠ .input) (hk : s.state ≠ .inkey)
    (hlen : ¬ RStd.utf8Len str > Gen.maxLineLen)
    (hn : (env.lex str).number = some n)
    (hfit : ¬ RStd.utf8Len (printLine (env.lex str).number (env.lex str).tokens) > Gen.maxLineLen)
    (line : Line) (name : Str) :
    ∀ t, (t = enter env s str ∨ t = enterDirect (enter env s str) line) →
      (execOp env hie .cont).run.run t = (.error (Error.mk' Code.cantContinue), t) ∧
      (execOp env hie .return).run.run t = (.error (Error.mk' Code.returnWithoutGosub), t) ∧
      (execOp env hie (.next name)).run.run t = (.error (Error.mk' Code.nextWithoutFor), t) := by
  obtain ⟨h1, h2, _⟩ := enter_numbered_cancels env s str n hi hk hlen hn hfit
  intro t ht
  rcases ht with rfl | rfl
  · exact resume_instructions_refused env hie _ h1 h2 name
  · obtain ⟨k1, k2, _⟩ := C04.enterDirect_keeps_resumables (enter env s str) line
    exact resume_instructions_refused env hie _ (k1.trans h1) (k2.trans h2) name

/-! ### non-vacuity -/

def line10 : Line := ⟨some 10, [.word .end]⟩
def line20 : Line := ⟨some 20, [.word .cls]⟩

/-- stopped inside a subroutine of a two-line program: a continue point, a pending RETURN frame, a
    DEF FN, and the operands of `DELETE 20` (the Integer 20 twice) on the stack -/
def mid : Runtime :=
  { listing := { source := [(10, line10), (20, line20)], rooted := true }, dirty := false, state := .running,
    cont := .running, contPc := 3, pc := 1, entryAddress := 5,
    stack := #[.ret 7, .int 20, .int 20], functions := [(['F'], (1, 2))] }

example : mid.stack = ((#[.ret 7] : Array Val).push (.int 20)).push (.int 20) ∧
    (Val.int 20).toLineNumber = .ok (some 20) ∧
    (mid.listing.removeRange (some 20) (some 20)).2 = true := by decide

/-- `delete_removed_cancels` on it: the RETURN frame and the continue point are gone -/
example : (doDelete.run.run mid).2.cont = .stopped ∧ (doDelete.run.run mid).2.stack = #[] ∧
    mid.cont = .running :=
  have h := delete_removed_cancels mid #[.ret 7] (.int 20) (.int 20) (some 20) (some 20) rfl
    (by decide) (by decide) (by decide)
  ⟨h.2.1, h.2.2.1, rfl⟩

/-- the contrast the model makes (and `runtime.rs` with it): a DELETE whose range is empty edits
    nothing and acts like END — inside a program the continue point and the frames below the two
    operands SURVIVE -/
example : (mid.listing.removeRange (some 30) (some 40)).2 = false ∧
    (doDelete.run.run { mid with stack := #[.ret 7, .int 30, .int 40] }).2.cont = .running ∧
    (doDelete.run.run { mid with stack := #[.ret 7, .int 30, .int 40] }).2.stack = #[.ret 7] := by
  refine ⟨by decide, ?_, ?_⟩
  · rw [run_doDelete _ #[.ret 7] (.int 30) (.int 40) (some 30) (some 40) rfl (by decide) (by decide)]
    decide
  · rw [run_doDelete _ #[.ret 7] (.int 30) (.int 40) (some 30) (some 40) rfl (by decide) (by decide)]
    decide

/-- a lexer that knows one numbered line and one bare number -/
def envE : Env :=
  { lex := fun s => if s = "10 END".toList then line10
                    else if s = "30".toList then ⟨some 30, []⟩ else ⟨none, []⟩,
    lineRenum := fun _ l => l }

/-- the hypotheses of `enter_numbered_cancels` hold for `10 END` and for the bare `30` (which names
    no line of `mid`) -/
example : mid.state ≠ .input ∧ mid.state ≠ .inkey ∧ ¬ RStd.utf8Len "10 END".toList > Gen.maxLineLen ∧
    (envE.lex "10 END".toList).number = some 10 ∧
    ¬ RStd.utf8Len (printLine (envE.lex "10 END".toList).number (envE.lex "10 END".toList).tokens) > Gen.maxLineLen := by
  decide
example : (enter envE mid "30".toList).cont = .stopped ∧ (enter envE mid "30".toList).stack = #[] ∧
    (enter envE mid "30".toList).dirty = false := by decide

/-- the refusal theorem applied to a concrete state -/
example : (execOp envE false .cont).run.run (enter envE mid "10 END".toList) =
    (.error (Error.mk' Code.cantContinue), enter envE mid "10 END".toList) :=
  (resume_instructions_refused envE false _ (by decide) (by decide) []).1

end Thm.C19
end Basic
