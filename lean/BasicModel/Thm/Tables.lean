import BasicModel.Gen.Keywords
import BasicModel.Gen.Dispatch
import BasicModel.Model.Lex
import BasicModel.Lemmas.VmDispatch
/-
  The model's hand-written tables equal the tables re-extracted from the Rust source on every run.
  (Shared by C05, C16 and C02: each of those theorem files re-exports the facts it relies on.)
-/
namespace Basic
namespace Thm.Tables

/-- the reserved-word table of the lexer model is the one in `token.rs`, entry for entry, in order -/
theorem keywords_generated : Lex.keywords = Gen.keywords := by decide

/-- `match_minutia`: the model agrees with the generated table on every entry, and rejects the
    one-character strings that are not in it -/
theorem minutia_generated : ∀ p ∈ Gen.minutia, Lex.matchMinutia p.1 = some p.2 := by decide

/-- `Display for Word` / `Display for Operator`: the model's listed texts are the generated ones -/
theorem word_text_generated : ∀ p ∈ Gen.wordText, Word.text p.1 = p.2.toList := by decide
theorem operator_text_generated : ∀ p ∈ Gen.operatorText, Operator.text p.1 = p.2.toList := by decide
theorem word_text_complete : Gen.wordText.length = 43 ∧ Gen.operatorText.length = 19 := by decide

/-- the documented meaning of every dispatch arm of the VM (`Opcode::X => pop_N_push(&Module::f)`),
    written by hand from the manual / DESIGN §7; a swapped arm in runtime.rs changes `Gen.dispatch` -/
def documentedDispatch : List (Opcode × Nat × String × String) := [
  (.neg, 1, "Operation", "negate"), (.pow, 2, "Operation", "power"), (.mul, 2, "Operation", "multiply"),
  (.div, 2, "Operation", "divide"), (.divInt, 2, "Operation", "divint"), (.mod, 2, "Operation", "remainder"),
  (.add, 2, "Operation", "sum"), (.sub, 2, "Operation", "subtract"), (.eq, 2, "Operation", "equal"),
  (.notEq, 2, "Operation", "not_equal"), (.lt, 2, "Operation", "less"), (.ltEq, 2, "Operation", "less_equal"),
  (.gt, 2, "Operation", "greater"), (.gtEq, 2, "Operation", "greater_equal"), (.not, 1, "Operation", "not"),
  (.and, 2, "Operation", "and"), (.or, 2, "Operation", "or"), (.xor, 2, "Operation", "xor"),
  (.imp, 2, "Operation", "imp"), (.eqv, 2, "Operation", "eqv"),
  (.abs, 1, "Function", "abs"), (.asc, 1, "Function", "asc"), (.atn, 1, "Function", "atn"),
  (.cdbl, 1, "Function", "cdbl"), (.chr, 1, "Function", "chr"), (.cint, 1, "Function", "cint"),
  (.cos, 1, "Function", "cos"), (.csng, 1, "Function", "csng"), (.exp, 1, "Function", "exp"),
  (.fix, 1, "Function", "fix"), (.hex, 1, "Function", "hex"), (.int, 1, "Function", "int"),
  (.left, 2, "Function", "left"), (.len, 1, "Function", "len"), (.log, 1, "Function", "log"),
  (.oct, 1, "Function", "oct"), (.right, 2, "Function", "right"), (.spc, 1, "Function", "spc"),
  (.sgn, 1, "Function", "sgn"), (.sin, 1, "Function", "sin"), (.sqr, 1, "Function", "sqr"),
  (.str, 1, "Function", "str"), (.string, 2, "Function", "string"), (.tan, 1, "Function", "tan"),
  (.val, 1, "Function", "val")]

theorem dispatch_documented : Gen.dispatch = documentedDispatch := by decide

end Thm.Tables
end Basic
