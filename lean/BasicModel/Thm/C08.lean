import BasicModel.Model.Func
/-
  C08 — 16-bit Integer arithmetic is always checked.

  Every Integer operation of the model returns the mathematically exact result (stated over `Int`,
  via `Int16.toInt`) when it lies in -32768..32767, and OVERFLOW / DIVISION BY ZERO otherwise — for
  all operands at once.  Float → Integer conversion is ⌊x⌋ or OVERFLOW, by exact integer decoding
  of the bit pattern.
-/
namespace Basic
namespace Thm.C08
open RStd

abbrev InRange (z : Int) : Prop := -32768 ≤ z ∧ z ≤ 32767

theorem inI16_iff (z : Int) : inI16 z = true ↔ InRange z := by
  simp [inI16, InRange]

theorem inI16_false {z : Int} (h : ¬ InRange z) : inI16 z = false := by
  cases hh : inI16 z with
  | false => rfl
  | true => exact absurd ((inI16_iff z).1 hh) h

theorem bmod_id {z : Int} (h : InRange z) : z.bmod (2 ^ 16) = z := by
  have h1 := h.1; have h2 := h.2
  rw [Int.bmod_eq_of_le] <;> omega

theorem toInt_range (a : Int16) : InRange a.toInt :=
  ⟨Int16.le_toInt a, by have := Int16.toInt_lt a; omega⟩

/-- `+` : exact or OVERFLOW -/
theorem add_checked (a b : Int16) :
    (InRange (a.toInt + b.toInt) → ∃ r, Ops.sum (.int a) (.int b) = .ok (.int r) ∧ r.toInt = a.toInt + b.toInt) ∧
    (¬ InRange (a.toInt + b.toInt) → Ops.sum (.int a) (.int b) = err Code.overflow) := by
  constructor
  · intro h
    refine ⟨a + b, ?_, ?_⟩
    · simp [Ops.sum, Ops.arith, Ops.ofChecked, checkedAdd, (inI16_iff _).2 h]
    · rw [Int16.toInt_add]; exact bmod_id h
  · intro h
    have : inI16 (a.toInt + b.toInt) = false := inI16_false h
    simp [Ops.sum, Ops.arith, Ops.ofChecked, checkedAdd, this]

/-- `-` : exact or OVERFLOW -/
theorem sub_checked (a b : Int16) :
    (InRange (a.toInt - b.toInt) → ∃ r, Ops.subtract (.int a) (.int b) = .ok (.int r) ∧ r.toInt = a.toInt - b.toInt) ∧
    (¬ InRange (a.toInt - b.toInt) → Ops.subtract (.int a) (.int b) = err Code.overflow) := by
  constructor
  · intro h
    refine ⟨a - b, ?_, ?_⟩
    · simp [Ops.subtract, Ops.arith, Ops.ofChecked, checkedSub, (inI16_iff _).2 h]
    · rw [Int16.toInt_sub]; exact bmod_id h
  · intro h
    have : inI16 (a.toInt - b.toInt) = false := inI16_false h
    simp [Ops.subtract, Ops.arith, Ops.ofChecked, checkedSub, this]

/-- `*` : exact or OVERFLOW -/
theorem mul_checked (a b : Int16) :
    (InRange (a.toInt * b.toInt) → ∃ r, Ops.multiply (.int a) (.int b) = .ok (.int r) ∧ r.toInt = a.toInt * b.toInt) ∧
    (¬ InRange (a.toInt * b.toInt) → Ops.multiply (.int a) (.int b) = err Code.overflow) := by
  constructor
  · intro h
    refine ⟨a * b, ?_, ?_⟩
    · simp [Ops.multiply, Ops.arith, Ops.ofChecked, checkedMul, (inI16_iff _).2 h]
    · rw [Int16.toInt_mul]; exact bmod_id h
  · intro h
    have : inI16 (a.toInt * b.toInt) = false := inI16_false h
    simp [Ops.multiply, Ops.arith, Ops.ofChecked, checkedMul, this]

/-- unary minus: exact or OVERFLOW (only at -32768) -/
theorem neg_checked (a : Int16) :
    (InRange (- a.toInt) → ∃ r, Ops.negate (.int a) = .ok (.int r) ∧ r.toInt = - a.toInt) ∧
    (¬ InRange (- a.toInt) → Ops.negate (.int a) = err Code.overflow) := by
  constructor
  · intro h
    refine ⟨-a, ?_, ?_⟩
    · simp [Ops.negate, checkedNeg, (inI16_iff _).2 h]
    · rw [Int16.toInt_neg]; exact bmod_id h
  · intro h
    have : inI16 (- a.toInt) = false := inI16_false h
    simp [Ops.negate, checkedNeg, this]

theorem neg_overflow_iff (a : Int16) : Ops.negate (.int a) = err Code.overflow ↔ a.toInt = -32768 := by
  have hr := toInt_range a
  constructor
  · intro h
    by_cases hh : InRange (- a.toInt)
    · obtain ⟨r, hr', _⟩ := (neg_checked a).1 hh
      rw [hr'] at h; cases h
    · simp only [InRange] at hh hr; omega
  · intro h
    apply (neg_checked a).2
    simp only [InRange]; omega

/-- ABS: exact |a| or OVERFLOW -/
theorem abs_checked (a : Int16) :
    (InRange a.toInt.natAbs → ∃ r, Func.abs (.int a) = .ok (.int r) ∧ r.toInt = a.toInt.natAbs) ∧
    (¬ InRange a.toInt.natAbs → Func.abs (.int a) = err Code.overflow) := by
  have hr := toInt_range a
  by_cases hneg : a.toInt < 0
  · have hn := neg_checked a
    have habs : (a.toInt.natAbs : Int) = - a.toInt := by omega
    constructor
    · intro h
      rw [habs] at h
      obtain ⟨r, h1, h2⟩ := hn.1 h
      refine ⟨r, ?_, by rw [habs]; exact h2⟩
      simp only [Ops.negate] at h1
      simp only [Func.abs, checkedAbs, hneg, if_true]
      exact h1
    · intro h
      rw [habs] at h
      have h1 := hn.2 h
      simp only [Ops.negate] at h1
      simp only [Func.abs, checkedAbs, hneg, if_true]
      exact h1
  · have habs : (a.toInt.natAbs : Int) = a.toInt := by omega
    constructor
    · intro _
      exact ⟨a, by simp [Func.abs, checkedAbs, hneg], habs.symm⟩
    · intro h
      rw [habs] at h; exact absurd hr h

/-- `\` : truncated quotient, DIVISION BY ZERO for a zero divisor, OVERFLOW for -32768 \ -1 -/
theorem divint_checked (a b : Int16) :
    (b = 0 → Ops.divint (.int a) (.int b) = err Code.divisionByZero) ∧
    (b ≠ 0 → InRange (a.toInt.tdiv b.toInt) →
        ∃ r, Ops.divint (.int a) (.int b) = .ok (.int r) ∧ r.toInt = a.toInt.tdiv b.toInt) ∧
    (b ≠ 0 → ¬ InRange (a.toInt.tdiv b.toInt) → Ops.divint (.int a) (.int b) = err Code.overflow) := by
  refine ⟨?_, ?_, ?_⟩
  · intro h; subst h
    simp [Ops.divint, Val.toI16, bind, Except.bind]
  · intro hb h
    refine ⟨Int16.ofInt (a.toInt.tdiv b.toInt), ?_, ?_⟩
    · simp [Ops.divint, Val.toI16, bind, Except.bind, hb, checkedDiv, (inI16_iff _).2 h]
    · rw [Int16.toInt_ofInt]; exact bmod_id h
  · intro hb h
    have : inI16 (a.toInt.tdiv b.toInt) = false := inI16_false h
    simp [Ops.divint, Val.toI16, bind, Except.bind, hb, checkedDiv, this]

/-- MOD : exact remainder (always in range), DIVISION BY ZERO for a zero divisor -/
theorem mod_checked (a b : Int16) :
    (b = 0 → Ops.remainder (.int a) (.int b) = err Code.divisionByZero) ∧
    (b ≠ 0 → ∃ r, Ops.remainder (.int a) (.int b) = .ok (.int r) ∧ r.toInt = a.toInt.tmod b.toInt) := by
  refine ⟨?_, ?_⟩
  · intro h; subst h
    simp [Ops.remainder, Val.toI16, bind, Except.bind]
  · intro hb
    have ha := toInt_range a
    have hbr := toInt_range b
    have hb0 : b.toInt ≠ 0 := by
      intro h; apply hb
      have : b = Int16.ofInt b.toInt := (Int16.ofInt_toInt b).symm
      rw [this, h]; rfl
    have hmod := Int.natAbs_tmod a.toInt b.toInt
    have hdiv := Int.natAbs_tdiv a.toInt b.toInt
    have hlt : a.toInt.natAbs % b.toInt.natAbs < b.toInt.natAbs := Nat.mod_lt _ (by omega)
    by_cases h : InRange (a.toInt.tdiv b.toInt)
    · refine ⟨Int16.ofInt (a.toInt.tmod b.toInt), ?_, ?_⟩
      · simp [Ops.remainder, Val.toI16, bind, Except.bind, hb, checkedRem, (inI16_iff _).2 h]
      · rw [Int16.toInt_ofInt]
        apply bmod_id
        simp only [InRange] at *
        omega
    · have : inI16 (a.toInt.tdiv b.toInt) = false := inI16_false h
      refine ⟨0, ?_, ?_⟩
      · simp [Ops.remainder, Val.toI16, bind, Except.bind, hb, checkedRem, this]
      · -- an out-of-range quotient forces |a| / |b| = 32768, hence |a| = 32768, |b| = 1, remainder 0
        have hle : a.toInt.natAbs / b.toInt.natAbs ≤ a.toInt.natAbs := Nat.div_le_self _ _
        have hq : (a.toInt.tdiv b.toInt).natAbs = a.toInt.natAbs / b.toInt.natAbs := hdiv
        have h32 : a.toInt.natAbs / b.toInt.natAbs = 32768 := by
          simp only [InRange] at h ha
          omega
        have hb1 : b.toInt.natAbs = 1 := by
          rcases (show b.toInt.natAbs = 1 ∨ 2 ≤ b.toInt.natAbs by omega) with h1 | h2
          · exact h1
          · exfalso
            have : a.toInt.natAbs / b.toInt.natAbs ≤ a.toInt.natAbs / 2 :=
              Nat.div_le_div_left h2 (by omega)
            simp only [InRange] at ha
            omega
        have hz : (a.toInt.tmod b.toInt).natAbs = 0 := by
          rw [hmod, hb1]; exact Nat.mod_one _
        have : a.toInt.tmod b.toInt = 0 := by omega
        rw [this]; rfl

/-- `^` with a non-negative Integer exponent: exact power or OVERFLOW -/
theorem pow_checked (a b : Int16) (hb : 0 ≤ b.toInt) :
    (InRange (a.toInt ^ b.toInt.toNat) →
        ∃ r, Ops.power (.int a) (.int b) = .ok (.int r) ∧ r.toInt = a.toInt ^ b.toInt.toNat) ∧
    (¬ InRange (a.toInt ^ b.toInt.toNat) → Ops.power (.int a) (.int b) = err Code.overflow) := by
  constructor
  · intro h
    refine ⟨Int16.ofInt (a.toInt ^ b.toInt.toNat), ?_, ?_⟩
    · simp only [Ops.power, ge_iff_le, hb, ↓reduceIte, checkedPow, (inI16_iff _).2 h]
    · rw [Int16.toInt_ofInt]; exact bmod_id h
  · intro h
    have : inI16 (a.toInt ^ b.toInt.toNat) = false := inI16_false h
    simp only [Ops.power, ge_iff_le, hb, ↓reduceIte, checkedPow, this, Bool.false_eq_true]

/-- float → Integer: ⌊x⌋ when it lies in range, OVERFLOW otherwise (incl. NaN, ±inf) -/
theorem float_to_int (v : Val) (hv : v.ty = .sng ∨ v.ty = .dbl) :
    v.toI16 = match v.floorZ with
      | some z => if InRange z then .ok (Int16.ofInt z) else err Code.overflow
      | none => err Code.overflow := by
  cases v <;> simp_all [Val.ty, Val.toI16, InRange] <;> rfl

/-- … and the stored Integer is exactly ⌊x⌋ -/
theorem float_to_int_exact (v : Val) (r : Int16) (h : v.toI16 = .ok r) (hv : v.ty = .sng ∨ v.ty = .dbl) :
    v.floorZ = some r.toInt := by
  rw [float_to_int v hv] at h
  cases hz : v.floorZ with
  | none => rw [hz] at h; cases h
  | some z =>
    rw [hz] at h
    simp only at h
    split at h
    · rename_i hin
      injection h with h
      rw [← h, Int16.toInt_ofInt]
      congr 1
      exact (bmod_id hin).symm
    · cases h

theorem ofChecked_code {o : Option Int16} {e : Error} (h : Ops.ofChecked o = .error e) :
    e.code = Code.overflow := by
  cases o with
  | none => simp only [Ops.ofChecked, err] at h; injection h with h; subst h; rfl
  | some v => simp [Ops.ofChecked] at h

/-- no Integer operation of the model ever faults (panics): every failure is OVERFLOW or
    DIVISION BY ZERO -/
theorem never_faults (a b : Int16) (e : Error) :
    (Ops.sum (.int a) (.int b) = .error e ∨ Ops.subtract (.int a) (.int b) = .error e ∨
     Ops.multiply (.int a) (.int b) = .error e ∨ Ops.divint (.int a) (.int b) = .error e ∨
     Ops.remainder (.int a) (.int b) = .error e ∨ Ops.negate (.int a) = .error e ∨
     Func.abs (.int a) = .error e) → e.code = Code.overflow ∨ e.code = Code.divisionByZero := by
  intro h
  rcases h with h | h | h | h | h | h | h
  · exact .inl (ofChecked_code (by simpa [Ops.sum, Ops.arith] using h))
  · exact .inl (ofChecked_code (by simpa [Ops.subtract, Ops.arith] using h))
  · exact .inl (ofChecked_code (by simpa [Ops.multiply, Ops.arith] using h))
  · by_cases hb : b = 0
    · rw [(divint_checked a b).1 hb] at h
      simp only [err] at h; injection h with h; subst h; exact .inr rfl
    · by_cases hr : InRange (a.toInt.tdiv b.toInt)
      · obtain ⟨r, h1, _⟩ := (divint_checked a b).2.1 hb hr
        rw [h1] at h; cases h
      · rw [(divint_checked a b).2.2 hb hr] at h
        simp only [err] at h; injection h with h; subst h; exact .inl rfl
  · by_cases hb : b = 0
    · rw [(mod_checked a b).1 hb] at h
      simp only [err] at h; injection h with h; subst h; exact .inr rfl
    · obtain ⟨r, h1, _⟩ := (mod_checked a b).2 hb
      rw [h1] at h; cases h
  · by_cases hr : InRange (- a.toInt)
    · obtain ⟨r, h1, _⟩ := (neg_checked a).1 hr
      rw [h1] at h; cases h
    · rw [(neg_checked a).2 hr] at h
      simp only [err] at h; injection h with h; subst h; exact .inl rfl
  · by_cases hr : InRange a.toInt.natAbs
    · obtain ⟨r, h1, _⟩ := (abs_checked a).1 hr
      rw [h1] at h; cases h
    · rw [(abs_checked a).2 hr] at h
      simp only [err] at h; injection h with h; subst h; exact .inl rfl

/-! non-vacuity: concrete operands on both sides of every guard -/
example : Ops.sum (.int 32767) (.int 1) = err Code.overflow := by decide
example : Ops.sum (.int 32766) (.int 1) = .ok (.int 32767) := by decide
example : Ops.negate (.int (-32768)) = err Code.overflow := by decide
example : Func.abs (.int (-32768)) = err Code.overflow := by decide
example : Ops.divint (.int (-32768)) (.int (-1)) = err Code.overflow := by decide
example : Ops.remainder (.int (-32768)) (.int (-1)) = .ok (.int 0) := by decide
example : Ops.remainder (.int (-7)) (.int 2) = .ok (.int (-1)) := by decide
example : Ops.divint (.int 7) (.int 0) = err Code.divisionByZero := by decide
example : Ops.multiply (.int 182) (.int 181) = err Code.overflow := by decide
example : Ops.multiply (.int 181) (.int 181) = .ok (.int 32761) := by decide
example : Ops.power (.int 2) (.int 15) = err Code.overflow := by decide
example : Ops.power (.int (-2)) (.int 15) = .ok (.int (-32768)) := by decide
example : (Val.sng 0x46fffe00).toI16 = .ok 32767 := by decide       -- 32767.0
example : (Val.sng 0x47000000).toI16 = err Code.overflow := by decide -- 32768.0
example : (Val.sng 0xc7000080).toI16 = err Code.overflow := by decide -- -32768.5 → floor -32769
example : (Val.sng 0xbf000000).toI16 = .ok (-1) := by decide          -- -0.5 → floor -1
example : (Val.dbl 0x7ff8000000000000).toI16 = err Code.overflow := by decide -- NaN

end Thm.C08
end Basic
