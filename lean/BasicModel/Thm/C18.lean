import BasicModel.Gen.Limits
import BasicModel.Lemmas.Link
import BasicModel.Lemmas.StackBound
import BasicModel.Lemmas.Control
import BasicModel.Lemmas.CodegenShape
import BasicModel.Lemmas.ExprCompile
import BasicModel.Lemmas.NoResidue
/-
  C18 — Memory pools are bounded at 64K and completed statements leave nothing behind.

  Code, data and the VM stack are the Rust `Stack`s limited to 65 535 entries: every growth goes
  through a checked push that reports OUT OF MEMORY.  Control statements are stack-balanced:
  ON pops its two operands, RETURN removes the frame GOSUB pushed, NEXT either re-pushes the
  FOR frame unchanged or removes it, and ON…GOSUB that selects nothing leaves no return address
  behind (the repaired defect D6).  A successfully evaluated expression of the fragment `Spec.Pure`
  grows the stack by exactly one value (`expr_pushes_one`), and `LET v = e` leaves it as it found it
  (`let_stack_neutral`).

  "A statement that completes leaves no residue" (section `noResidue`, from the block calculus of
  `Lemmas/StructCompile.lean` via `Lemmas/NoResidue.lean`): a structured statement — LET, `:`, IF,
  WHILE, FOR, nested at will — that completes ends with the stack, the code, the data, the DATA cursor
  and the function table exactly as they were; only the variable store changes, and only in the
  entries of the variables the statement assigns (`structured_no_residue`); any number of passes of a
  loop (`loop_any_number_of_passes`, `while_k_passes`, `for_k_passes`).  Beyond that fragment:
  GOSUB / ON…GOSUB to a block ending in RETURN, LET with a user-function call, PRINT (also in a
  GOTO loop), READ.  The converse for FOR: the VM has no `for` instruction, FOR pushes its frame
  unconditionally, so a FOR left by GOTO and entered again grows the stack by four values per round
  until OUT OF MEMORY (`abandoned_for_*`), after which `execute` empties the stack and the session
  goes on (`abandoned_for_session`).  The variable pool and the invariant "no slot holds a default
  value" are in `Thm/C18Vars.lean` (runtime chain 2) and `Lemmas/VarPool.lean`.
-/
namespace Basic
namespace Thm.C18
open Link
open Basic.Runtime

/-! ### the three pools -/

/-- code segment: a successful `push` leaves at most 65 535 ops; a failed one is OUT OF MEMORY
    "PROGRAM SIZE LIMIT EXCEEDED" -/
theorem Link.push_bounded (l : Link) (op : Opcode) :
    ((l.push op).2 = .ok () ∧ (l.push op).1.ops.size ≤ 65535) ∨
    ((l.push op).2 = .error opsOverflow ∧ l.ops.size ≥ 65535) := by
  unfold Link.push
  simp only [Array.size_push]
  by_cases h : l.ops.size + 1 > Gen.stackMaxLen
  · right; rw [if_pos h]; exact ⟨rfl, by simp only [Gen.stackMaxLen] at h; omega⟩
  · left; rw [if_neg h]; exact ⟨rfl, by simp only [Gen.stackMaxLen] at h; omega⟩

theorem opsOverflow_is_oom :
    opsOverflow.code = Code.outOfMemory ∧ opsOverflow.msg = "PROGRAM SIZE LIMIT EXCEEDED" ∧ Code.outOfMemory = 7 :=
  ⟨rfl, rfl, rfl⟩

/-- data segment: likewise, "DATA SIZE LIMIT EXCEEDED" -/
theorem Link.pushData_bounded (l : Link) (v : Val) :
    ((l.pushData v).2 = .ok () ∧ (l.pushData v).1.data.size ≤ 65535) ∨
    ((l.pushData v).2 = .error dataOverflow ∧ l.data.size ≥ 65535) := by
  unfold Link.pushData
  simp only [Array.size_push]
  by_cases h : l.data.size + 1 > Gen.stackMaxLen
  · right; rw [if_pos h]; exact ⟨rfl, by simp only [Gen.stackMaxLen] at h; omega⟩
  · left; rw [if_neg h]; exact ⟨rfl, by simp only [Gen.stackMaxLen] at h; omega⟩

theorem dataOverflow_is_oom :
    dataOverflow.code = Code.outOfMemory ∧ dataOverflow.msg = "DATA SIZE LIMIT EXCEEDED" := ⟨rfl, rfl⟩

/-- `append`: success bounds both segments; the only failures are ILLEGAL DIRECT (data in a direct
    statement) and the two OUT OF MEMORY errors -/
theorem Link.append_bounded (a b : Link) :
    ((a.append b).2 = .ok () ∧ (a.append b).1.ops.size ≤ 65535 ∧ (a.append b).1.data.size ≤ 65535) ∨
    (a.append b).2 = .error (Error.mk' Code.illegalDirect) ∨
    (a.append b).2 = .error opsOverflow ∨ (a.append b).2 = .error dataOverflow := by
  rcases append_cases a b with ⟨_, _, e⟩ | ⟨_, e⟩ | ⟨_, _, e⟩ | ⟨h1, h2, e⟩
  · right; left; rw [e]
  · right; right; left; rw [e]
  · right; right; right; rw [e]
  · left
    rw [e]
    refine ⟨rfl, ?_, ?_⟩
    · show (a.ops ++ b.ops).size ≤ _
      rw [Array.size_append]; exact h1
    · show (a.data ++ b.data).size ≤ _
      rw [Array.size_append]; exact h2

/-- the VM stack: a successful `push` stays within 65 535 values, a failed one is OUT OF MEMORY "STACK OVERFLOW" -/
theorem Runtime.push_bounded (v : Val) (s : Runtime) :
    (((Runtime.push v).run).run s = (.ok (), { s with stack := s.stack.push v }) ∧ s.stack.size + 1 ≤ 65535) ∨
    (((Runtime.push v).run).run s = (.error stackOverflow, { s with stack := s.stack.push v }) ∧ s.stack.size ≥ 65535) := by
  rw [run_push]
  by_cases h : s.stack.size + 1 > Gen.stackMaxLen
  · right; rw [if_pos h]; exact ⟨rfl, by simp only [Gen.stackMaxLen] at h; omega⟩
  · left; rw [if_neg h]; exact ⟨rfl, by simp only [Gen.stackMaxLen] at h; omega⟩

theorem stackOverflow_is_oom :
    stackOverflow.code = Code.outOfMemory ∧ stackOverflow.msg = "STACK OVERFLOW" := ⟨rfl, rfl⟩

/-! ### the stack bound is an invariant of execution -/

/-- every opcode: if the stack holds at most 65 535 values and `step` succeeds, it still does -/
theorem runtime_stack_bounded_step (env : Env) (hie : Bool) (s s' : Runtime) (r : Step)
    (hs : s.stack.size ≤ 65535) (h : ((step env hie).run).run s = (.ok r, s')) :
    s'.stack.size ≤ 65535 :=
  Good.step env hie s hs r s' h

/-- … and so does any number of instructions -/
theorem runtime_stack_bounded_executeLoop (env : Env) (n : Nat) (s s' : Runtime) (e : Event)
    (hs : s.stack.size ≤ 65535) (h : ((executeLoop env n).run).run s = (.ok e, s')) :
    s'.stack.size ≤ 65535 := by
  have hloop : ∀ (hie : Bool) (k : Nat), Good (executeLoop.loop env hie k) := by
    intro hie k
    induction k with
    | zero => unfold executeLoop.loop; exact Good.pure _
    | succ k ih =>
      unfold executeLoop.loop
      apply Good.bind (Good.step env hie)
      intro r
      cases r with
      | «continue» => exact ih
      | event e => exact Good.pure _
  have : Good (executeLoop env n) := by
    unfold executeLoop
    apply Good.get_bind
    intro s0 _
    exact hloop _ _
  exact this s hs e s' h

/-- the helpers, by name -/
theorem runtime_stack_bounded_helpers :
    (∀ v, Good (Runtime.push v)) ∧ Good Runtime.pop ∧ (∀ f, Good (pop1Push f)) ∧ (∀ f, Good (pop2Push f)) ∧
    (∀ n, Good (doFn n)) ∧ (∀ n, Good (doNext n)) ∧ Good doReturn ∧ Good doSwap ∧ Good doPrint ∧ Good doRead ∧
    (∀ n, Good (doInput n)) ∧ Good doOn ∧ (∀ n, Good (doDef n)) :=
  ⟨Good.push, Good.pop, Good.pop1Push, Good.pop2Push, Good.doFn, Good.doNext, Good.doReturn, Good.doSwap,
   Good.doPrint, Good.doRead, Good.doInput, Good.doOn, Good.doDef⟩

/-! ### stack effects of control statements -/

/-- ON pops exactly its two operands (count and selector) and pushes nothing, on every path -/
theorem doOn_stack_effect (s : Runtime) (σ : Array Val) (lenV selV : Val) (len sel : Int16)
    (hst : s.stack = (σ.push lenV).push selV) (hsel : selV.toI16 = .ok sel) (hlen : lenV.toI16 = .ok len) :
    ((doOn.run).run s).2.stack = σ := by
  rw [run_doOn s σ lenV selV len sel hst hsel hlen]
  split
  · rfl
  · split <;> rfl

/-- RETURN on `σ, ret a`: the frame is gone, control is at `a` -/
theorem gosub_return_balanced (s : Runtime) (σ : Array Val) (a : Nat) (hst : s.stack = σ.push (.ret a)) :
    (doReturn.run).run s = (.ok (), { s with stack := σ, pc := a }) := by
  have := run_doReturn s σ a [] (fun _ h => nomatch h) (by simpa using hst)
  rw [this]; rfl

/-- RETURN on `σ, ret a, v` with `v` a number or string (a function result): `σ, v`, control at `a` -/
theorem fn_return_balanced (s : Runtime) (σ : Array Val) (a : Nat) (v : Val) (hv : isValue v = true)
    (hst : s.stack = (σ.push (.ret a)).push v) (hb : s.stack.size ≤ 65535) :
    (doReturn.run).run s = (.ok (), { s with stack := σ.push v, pc := a }) := by
  have hr : isRet v = false := by cases v <;> simp_all [isRet, isValue]
  have := run_doReturn s σ a [v] (by intro x hx; simp at hx; subst hx; exact hr) (by simpa using hst)
  rw [this]
  simp only [keptTop, keptOf, hv, Bool.true_and, if_true, finishReturn]
  rw [if_neg]
  rw [hst] at hb
  simp only [Array.size_push, Gen.stackMaxLen] at hb ⊢
  omega

/-- RETURN discards abandoned FOR frames (and anything else that is not a return address) above the
    innermost return address -/
theorem return_discards_abandoned_frames (s : Runtime) (σ : Array Val) (a : Nat) (junk : List Val)
    (hj : ∀ v ∈ junk, isRet v = false) (htop : ∀ t, junk.getLast? = some t → isValue t = false)
    (hst : s.stack = σ.push (.ret a) ++ junk.toArray) :
    (doReturn.run).run s = (.ok (), { s with stack := σ, pc := a }) := by
  have := run_doReturn s σ a junk.reverse (by intro v hv; exact hj v (List.mem_reverse.1 hv))
    (by simpa using hst)
  rw [this]
  cases hr : junk.reverse with
  | nil => rfl
  | cons t rest =>
    have : junk.getLast? = some t := by
      rw [← List.head?_reverse, hr]; rfl
    simp only [keptTop, keptOf, htop t this, Bool.and_false, Bool.false_eq_true, if_false]
    rfl

/-- NEXT, loop continues: the 4-value FOR frame is re-pushed unchanged (the stack is what it was) and
    control goes to the loop body; loop finished: the frame is gone (4 values fewer) -/
theorem doNext_frame_balanced (s : Runtime) (σ : Array Val) (toV stepV : Val) (vn name : Str) (addr : Nat)
    (cur0 cur : Val) (vars' : Var) (st : Float) (done : Val)
    (hst : s.stack = σ ++ forFrame toV stepV vn addr)
    (hname : name = [] ∨ vn = name)
    (hfetch : s.vars.fetch vn = .ok cur0) (hsum : Ops.sum cur0 stepV = .ok cur)
    (hstore : s.vars.store vn cur = .ok vars') (hstep : stepV.toF64 = .ok st)
    (hdone : (if st < 0 then Ops.less cur toV else Ops.less toV cur) = .ok done)
    (hb : s.stack.size ≤ 65535) :
    (done ≠ .int (-1) →
      ((doNext name).run).run s = (.ok (), { s with vars := vars', pc := addr }) ∧
      (((doNext name).run).run s).2.stack = s.stack) ∧
    (done = .int (-1) →
      ((doNext name).run).run s = (.ok (), { s with vars := vars', stack := σ }) ∧
      (((doNext name).run).run s).2.stack.size + 4 = s.stack.size) := by
  have := run_doNext s σ toV stepV vn name addr cur0 cur vars' st done hst hname hfetch hsum hstore hstep hdone hb
  constructor
  · intro hd
    rw [this, if_pos hd]
    exact ⟨rfl, rfl⟩
  · intro hd
    rw [this, if_neg (by simp [hd])]
    refine ⟨rfl, ?_⟩
    rw [hst]
    simp [forFrame]

/-! ### ON … GOSUB that selects nothing (D6, repaired) -/

/-- the code of `ON x GOSUB n₁,…,nₖ`: `ret→L, k, ⟨x⟩, on, jump n₁ … jump nₖ, return, L:` — the jump
    table is followed by a `return`, and the return address literal refers to the label `L` placed
    right after it -/
theorem genOn_gosub_shape (g : Codegen.GState) (c : Col) (pre : Array (Col × Link)) (subCol : Col) (varOps : Link)
    (frags : List (Col × Link))
    (hexpr : g.expr = (pre.push (subCol, varOps)) ++ frags.toArray) (hcur : g.cur = {})
    (hlen : frags.length ≤ 32767)
    (hfrag : ∀ x ∈ frags, ∃ n, Codegen.lineNumberOfLink x.2 = .ok (some n))
    (ho : 2 + varOps.ops.size + 1 + frags.length + 1 ≤ 65535)
    (hdd : varOps.data.size ≤ 65535) :
    ∃ col g', ((Codegen.genOn c frags.length true).run).run g = (.ok col, g') ∧
      g'.cur.ops = #[.literal (.ret 0), .literal (.int (Int16.ofNat frags.length))] ++ varOps.ops ++ #[.on]
                ++ Array.replicate frags.length (.jump 0) ++ #[.return] ∧
      g'.cur.unlinked.lookup 0 = some (c, -1) ∧
      g'.cur.symbols.lookup (-1) = some (g'.cur.ops.size, varOps.data.size) := by
  obtain ⟨col, l', h1, h2, h3, h4⟩ := Codegen.genOn_gosub_run g c pre subCol varOps frags hexpr hcur hlen hfrag ho hdd
  exact ⟨col, _, h1, h2, h3, h4⟩

/-- running it: with the `on` at `pc`, `len` jumps after it and the `return` after those, a selector
    of 0 or beyond the list makes `on` skip the table onto the `return`, which pops exactly the
    return address pushed at the start of the statement: two instructions later the stack is what
    it was before the statement and control is at the statement's end label -/
theorem on_gosub_fallthrough_balanced (env : Env) (hie : Bool) (s : Runtime) (σ : Array Val) (R : Nat)
    (lenV selV : Val) (len sel : Int16)
    (htr : s.tron = false)
    (hon : s.program.link.ops[s.pc]? = some .on)
    (hret : s.program.link.ops[s.pc + 1 + len.toInt.toNat]? = some .return)
    (hst : s.stack = ((σ.push (.ret R)).push lenV).push selV)
    (hsel : selV.toI16 = .ok sel) (hlen : lenV.toI16 = .ok len)
    (hlen0 : 0 ≤ len.toInt) (hfall : sel.toInt = 0 ∨ sel.toInt > len.toInt) :
    ((step env hie >>= fun _ => step env hie).run).run s = (.ok .continue, { s with stack := σ, pc := R }) := by
  have hsel0 : ¬ (sel.toInt < 0 ∨ len.toInt < 0) := by omega
  rw [run_bind, run_step_on env hie s htr hon]
  rw [run_doOn _ (σ.push (.ret R)) lenV selV len sel (by simpa using hst) hsel hlen]
  rw [if_neg hsel0, if_pos hfall]
  simp only [asStep]
  rw [run_step_return env hie _ (by simpa using htr) (by simpa using hret)]
  rw [gosub_return_balanced _ σ R (by simp)]
  simp [asStep]

/-! ### non-vacuity -/

def exRt (st : Array Val) : Runtime := { stack := st }

example : ((doOn.run).run (exRt #[.int 9, .int 3, .int 5])).2.stack = #[.int 9] := by decide
example : ((doOn.run).run (exRt #[.int 9, .int 3, .int 5])).2.pc = 3 := by decide
example : ((doOn.run).run (exRt #[.int 9, .int 3, .int 2])).2.pc = 1 := by decide
example : ((doReturn.run).run (exRt #[.int 9, .ret 7])).2.stack = #[.int 9] := by decide
example : ((doReturn.run).run (exRt #[.int 9, .ret 7])).2.pc = 7 := by decide
example : ((doReturn.run).run (exRt #[.int 9, .ret 7, .int 4])).2.stack = #[.int 9, .int 4] := by decide
example : ((doReturn.run).run (exRt #[.ret 7, .int 1, .int 1, .str ['I'], .nxt 3])).2.stack = #[] := by decide
example : ((doReturn.run).run (exRt #[.int 9])).1 = .error (Error.mk' Code.returnWithoutGosub) := by decide
example : (({ ops := Array.replicate 65535 .end } : Link).push .end).2 = .error opsOverflow := by
  simp [Link.push, Gen.stackMaxLen]
example : (({ ops := #[.end] } : Link).push .end).2 = .ok () := by decide

/-- pool limits re-extracted from stack.rs and var.rs; `Gen/Limits.lean` is regenerated from /repo/src on every run, so editing one of these
    constants in the Rust source breaks this obligation -/
theorem generated_limits_documented : Gen.stackMaxLen = 65535 ∧ Gen.stackFullMargin = 32 ∧ Gen.varMaxLen = 65535 := by decide


/-! ### expressions and LET -/

section expressions
open Basic.Spec Basic.Lemmas.ExprCompile

/-- a successfully evaluated expression of the fragment grows the stack by exactly one value — its
    value —, whatever was on the stack stays below it (code `flat e` at `s.pc`, trace off, room for
    `(flat e).length` values) -/
theorem expr_pushes_one (env : Env) (hie : Bool) {e : Expr} (hp : Pure e) (s : Runtime)
    (hcode : CodeAt s.program.link.ops s.pc (flat e)) (htr : s.tron = false)
    (hroom : s.stack.size + (flat e).length ≤ 65535) (v : Val) (hv : eval s.vars e = .ok v) :
    (runOps env hie (flat e) s).2.stack = s.stack.push v ∧
    (runOps env hie (flat e) s).2.stack.size = s.stack.size + 1 ∧
    (runOps env hie (flat e) s).2.pc = s.pc + (flat e).length := by
  have h := ((flat_correct env hie hp s hcode htr hroom).1 v hv).1
  rw [h]
  exact ⟨rfl, Array.size_push _, rfl⟩

/-- `LET v = e` (scalar `v` that is not a zero-argument built-in, `e` in the fragment) compiles to one
    statement fragment, `flat e ++ [pop v]`; wherever that code lies in the code segment of `s`
    (trace off, room on the stack), if `e` evaluates and the store succeeds, running it ends with the
    variable stored, `pc` past the code and the stack exactly as it was found -/
theorem let_stack_neutral (env : Env) (hie : Bool) {e : Expr} (hp : Pure e) (c cv : Col) (i : TIdent)
    (hz : isZeroArg i.name = false) (vs : Codegen.VState) (hlen : (flat e).length + 1 ≤ 65535) :
    ∃ (col : Col) (frag : Link),
      (Codegen.acceptStmt (.let c (.unary cv i) e) vs).g.stmt = vs.g.stmt.push (col, frag) ∧
      (Codegen.acceptStmt (.let c (.unary cv i) e) vs).errors = vs.errors ∧
      frag.ops = (flat e ++ [Opcode.pop i.name]).toArray ∧
      ∀ (s : Runtime), CodeAt s.program.link.ops s.pc frag.ops.toList → s.tron = false →
        s.stack.size + frag.ops.size ≤ 65535 →
        ∀ (v : Val) (vars' : Var), eval s.vars e = .ok v → s.vars.store i.name v = .ok vars' →
          runOps env hie frag.ops.toList s =
            (.ok .continue, { s with pc := s.pc + frag.ops.size, vars := vars' }) ∧
          (runOps env hie frag.ops.toList s).2.stack = s.stack := by
  obtain ⟨col, frag, h1, h2, h3, h4⟩ := compileLet_correct env hie hp c cv i hz vs hlen
  refine ⟨col, frag, h1, h2, h3, ?_⟩
  intro s hcode htr hroom v vars' hv hst
  have h := h4 s hcode htr hroom v vars' hv hst
  exact ⟨h, by rw [h]⟩

/-! non-vacuity: `LET B% = 1 + 2 * A%` -/

/-- `1 + 2 * A%` -/
def exTree : Expr :=
  .bin .add (9, 18) (.integer (9, 10) 1)
    (.bin .multiply (13, 18) (.integer (13, 14) 2) (.var (.unary (17, 18) (.integer "A%".toList))))

def exLetCode : List Opcode := flat exTree ++ [Opcode.pop "B%".toList]

def exEnv : Env := { lex := fun _ => default, lineRenum := fun _ l => l }

/-- the code of the statement at address 1, two values on the stack, `A% = 20` -/
def exLetRt : Runtime :=
  { program := { link := { ops := #[.end] ++ exLetCode.toArray ++ #[.end] } },
    pc := 1, stack := #[.int 7, .ret 3], vars := { vars := [("A%".toList, .int 20)] } }

example : Pure exTree ∧ isZeroArg "B%".toList = false := by decide
example : eval exLetRt.vars exTree = .ok (.int 41) := by decide
example : CodeAt exLetRt.program.link.ops exLetRt.pc exLetCode ∧ exLetRt.tron = false ∧
    exLetRt.stack.size + exLetCode.length ≤ 65535 := by decide
example : ∃ col, Codegen.acceptStmt (.let (0, 18) (.unary (4, 6) (.integer "B%".toList)) exTree) {} =
    { g := { stmt := #[(col, { ops := exLetCode.toArray })] } } :=
  let_codegen_shape (by decide) _ _ _ (by decide) {} (by decide)
example : (runOps exEnv false (flat exTree) exLetRt).2.stack = #[.int 7, .ret 3, .int 41] := by decide
example : (runOps exEnv false exLetCode exLetRt).2.stack = #[.int 7, .ret 3] := by decide
example : (runOps exEnv false exLetCode exLetRt).2.vars.vars = [("B%".toList, .int 41), ("A%".toList, .int 20)] := by
  decide
example : (runOps exEnv false exLetCode exLetRt).2.pc = 7 := by decide

end expressions

/-! ### a statement that completes leaves no residue -/

section noResidue
open Basic.Spec Basic.Lemmas.ExprCompile Basic.Lemmas.StructCompile Basic.Lemmas.NoResidue Basic.Lemmas.VarPool
open Basic.Lemmas.FnCall

/-- **A structured statement that completes leaves no residue.**  Let the code of `p` (LET, `:`, IF,
    WHILE, FOR, nested at will; pure expressions) lie at `s.pc` — trace off, `size p` free stack slots,
    jumps not gated.  If the semantics answers `.ok σ'` with ANY fuel (the fuel bounds the passes of
    every loop, so: after any number of passes), then some number of steps, all answering `continue`,
    lead to a state `s'` with
    * the stack exactly the stack of `s` (every FOR frame, every temporary is gone),
    * the program — code, DATA, DATA cursor, symbols —, the function table, the listing and the
      session state as in `s`: no other pool has been touched,
    * the variables `σ'`, which differ from those of `s` only in the entries of the variables `p`
      assigns (`Within`: dimensions and DEFtypes as before, every key an old key or an assigned name,
      distinct keys still distinct, still no slot holding a default value); with distinct keys the pool
      has grown by at most the number of DISTINCT assigned names. -/
theorem structured_no_residue (env : Env) (hie : Bool) (fuel : Nat) (p : SStmt) (hp : p.Pure) (s : Runtime)
    (hcode : CodeAt s.program.link.ops s.pc (compile p s.pc)) (htr : s.tron = false)
    (hroom : s.stack.size + size p ≤ 65535) (hgate : hie = false ∨ s.entryAddress ≤ s.pc)
    (σ' : Var) (h : exec fuel s.vars p = some (.ok σ')) :
    ∃ n s', runSteps env hie n s = (.ok .continue, s') ∧
      s'.stack = s.stack ∧ s'.pc = s.pc + size p ∧ s'.vars = σ' ∧
      s'.program = s.program ∧ s'.functions = s.functions ∧ s'.listing = s.listing ∧ s'.state = s.state ∧
      Within (assigned p) s.vars σ' ∧
      (AL.NoDup s.vars.vars → σ'.vars.length ≤ s.vars.vars.length + (assigned p).eraseDups.length) := by
  have hpl : Placed hie (compile p) s := ⟨hcode, htr, by rw [compile_length]; exact hroom, hgate⟩
  have hg := exec_implemented env hie fuel p hp s hpl _ h
  rw [compile_length] at hg
  obtain ⟨n, hn⟩ := hg
  have hw := exec_within stepNeg fuel p s.vars σ' h
  exact ⟨n, _, hn, rfl, rfl, rfl, rfl, rfl, rfl, rfl, hw, fun hd => within_length hw hd⟩

/-- **"a loop executing any terminating statement sequence any number of times never runs out of
    memory"**, for the structured fragment: `FOR v = a TO b STEP st : p : NEXT v` around any structured
    `p`, and `WHILE c : p : WEND`.  The room the theorem asks for is the length of the loop's code — it
    does not depend on the number of passes —, and whenever the loop ends (`fuel` arbitrary) the stack
    is the one it started with. -/
theorem loop_any_number_of_passes (env : Env) (hie : Bool) (fuel : Nat) (p : SStmt) (hp : p.Pure) :
    (∀ (v : Str) (a b st : Expr), Spec.Pure a → Spec.Pure b → Spec.Pure st → ∀ (s : Runtime),
      CodeAt s.program.link.ops s.pc (compile (.for v a b st p) s.pc) → s.tron = false →
      s.stack.size + size (.for v a b st p) ≤ 65535 → (hie = false ∨ s.entryAddress ≤ s.pc) →
      ∀ σ', exec fuel s.vars (.for v a b st p) = some (.ok σ') →
        ∃ n s', runSteps env hie n s = (.ok .continue, s') ∧ s'.stack = s.stack ∧ s'.vars = σ' ∧
          s'.program = s.program ∧ s'.functions = s.functions) ∧
    (∀ (c : Expr), Spec.Pure c → ∀ (s : Runtime),
      CodeAt s.program.link.ops s.pc (compile (.while c p) s.pc) → s.tron = false →
      s.stack.size + size (.while c p) ≤ 65535 → (hie = false ∨ s.entryAddress ≤ s.pc) →
      ∀ σ', exec fuel s.vars (.while c p) = some (.ok σ') →
        ∃ n s', runSteps env hie n s = (.ok .continue, s') ∧ s'.stack = s.stack ∧ s'.vars = σ' ∧
          s'.program = s.program ∧ s'.functions = s.functions) := by
  constructor
  · intro v a b st ha hb hs s hcode htr hroom hgate σ' h
    obtain ⟨n, s', h1, h2, _, h3, h4, h5, _⟩ :=
      structured_no_residue env hie fuel (.for v a b st p) ⟨ha, hb, hs, hp⟩ s hcode htr hroom hgate σ' h
    exact ⟨n, s', h1, h2, h3, h4, h5⟩
  · intro c hc s hcode htr hroom hgate σ' h
    obtain ⟨n, s', h1, h2, _, h3, h4, h5, _⟩ :=
      structured_no_residue env hie fuel (.while c p) ⟨hc, hp⟩ s hcode htr hroom hgate σ' h
    exact ⟨n, s', h1, h2, h3, h4, h5⟩

/-- **WHILE with an explicit number of passes**: if the condition holds and the body `p` leads from
    `τ i` to `τ (i+1)` for `i < k`, and the condition fails in `τ k`, the machine makes those `k`
    passes — `k` ARBITRARY, 65 536 and more included; the room asked for does not mention `k` — and
    ends past the loop with the variables `τ k` and everything else, the stack included, as before -/
theorem while_k_passes (env : Env) (hie : Bool) (fuel : Nat) (c : Expr) (hc : Spec.Pure c) (p : SStmt) (hp : p.Pure)
    (s : Runtime) (hcode : CodeAt s.program.link.ops s.pc (compile (.while c p) s.pc)) (htr : s.tron = false)
    (hroom : s.stack.size + size (.while c p) ≤ 65535) (hgate : hie = false ∨ s.entryAddress ≤ s.pc)
    (k : Nat) (τ : Nat → Var) (h0 : τ 0 = s.vars)
    (hpass : ∀ i, i < k → holds (τ i) c = .ok true ∧ exec fuel (τ i) p = some (.ok (τ (i + 1))))
    (hend : holds (τ k) c = .ok false) :
    ∃ n, runSteps env hie n s = (.ok .continue, { s with pc := s.pc + size (.while c p), vars := τ k }) := by
  have hpl : Placed hie (whileCode c (size p) (compile p)) s :=
    ⟨hcode, htr, by rw [whileCode_length c _ _ (compile_length p)]; exact hroom, hgate⟩
  exact while_passes_no_residue hc (size p) (compile_length p) (exec_implemented env hie fuel p hp) s hpl k τ h0
    hpass hend

/-- **FOR with an explicit number of passes** (`k + 1`, `k` arbitrary): `τ i` the variables at the start
    of pass `i`, `υ i` after the body; NEXT says "again" after the passes before the last and "done"
    after the last -/
theorem for_k_passes (env : Env) (hie : Bool) (fuel : Nat) (v : Str) (a b st : Expr) (ha : Spec.Pure a)
    (hb : Spec.Pure b) (hst : Spec.Pure st) (p : SStmt) (hp : p.Pure)
    (s : Runtime) (hcode : CodeAt s.program.link.ops s.pc (compile (.for v a b st p) s.pc)) (htr : s.tron = false)
    (hroom : s.stack.size + size (.for v a b st p) ≤ 65535) (hgate : hie = false ∨ s.entryAddress ≤ s.pc)
    (k : Nat) (τ υ : Nat → Var) (σ' : Var) (toV stepV : Val)
    (hinit : forInit s.vars v a b st = .ok (τ 0, toV, stepV))
    (hbody : ∀ i, i ≤ k → exec fuel (τ i) p = some (.ok (υ i)))
    (hnext : ∀ i, i < k → nextStep stepNeg (υ i) v toV stepV = some (.ok (τ (i + 1), true)))
    (hend : nextStep stepNeg (υ k) v toV stepV = some (.ok (σ', false))) :
    ∃ n, runSteps env hie n s = (.ok .continue, { s with pc := s.pc + size (.for v a b st p), vars := σ' }) := by
  have hpl : Placed hie (forCode v a b st (compile p)) s :=
    ⟨hcode, htr, by rw [forCode_length v a b st _ _ (compile_length p)]; exact hroom, hgate⟩
  exact for_passes_no_residue ha hb hst (size p) (compile_length p) (exec_implemented env hie fuel p hp) v s hpl k τ υ
    σ' toV stepV hinit hbody hnext hend

/-- **GOSUB** to a subroutine whose body is a structured block followed by RETURN: control comes
    back after the GOSUB with the stack as before (the return address pushed by the call is popped
    by RETURN, `gosub_return_balanced`; the block is neutral) -/
theorem gosub_structured_balanced (env : Env) (hie : Bool) (fuel : Nat) (p : SStmt) (hp : p.Pure) (s : Runtime)
    (sub : Nat) (hcall : CodeAt s.program.link.ops s.pc (gosubCode sub s.pc))
    (hsub : CodeAt s.program.link.ops sub (subCode (compile p) sub)) (htr : s.tron = false)
    (hroom : s.stack.size + 1 + size p ≤ 65535) (hgate : hie = false ∨ s.entryAddress ≤ sub)
    (σ' : Var) (h : exec fuel s.vars p = some (.ok σ')) :
    ∃ n, runSteps env hie n s = (.ok .continue, { s with pc := s.pc + 2, vars := σ' }) :=
  gosub_block_balanced (exec_implemented env hie fuel p hp) s sub hcall hsub htr
    (by rw [compile_length]; exact hroom) hgate (.ok σ') h

/-- **ON … GOSUB**, both ways: a selector that picks the `j`-th target — a structured block followed by
    RETURN — and a selector that picks nothing (0, or beyond the list: the repaired D6) both end after
    the statement with the stack as before -/
theorem on_gosub_balanced (env : Env) (hie : Bool) {sel : Expr} (hsel : Spec.Pure sel) (targets : List Nat)
    (s : Runtime) (hcode : CodeAt s.program.link.ops s.pc (onGosubCode sel targets s.pc)) (htr : s.tron = false)
    (hroom : s.stack.size + 2 + (flat sel).length ≤ 65535) (hk : targets.length ≤ 32767)
    (selV : Val) (j : Int16) (hv : eval s.vars sel = .ok selV) (hj : selV.toI16 = .ok j) :
    ((j.toInt = 0 ∨ j.toInt > targets.length) →
      ∃ n, runSteps env hie n s = (.ok .continue, { s with pc := s.pc + (onGosubCode sel targets s.pc).length })) ∧
    (∀ (fuel : Nat) (p : SStmt) (sub : Nat) (σ' : Var), p.Pure → 1 ≤ j.toInt → j.toInt ≤ targets.length →
      targets[j.toInt.toNat - 1]? = some sub → CodeAt s.program.link.ops sub (subCode (compile p) sub) →
      s.stack.size + 1 + size p ≤ 65535 → (hie = false ∨ s.entryAddress ≤ sub) →
      exec fuel s.vars p = some (.ok σ') →
      ∃ n, runSteps env hie n s =
        (.ok .continue, { s with pc := s.pc + (onGosubCode sel targets s.pc).length, vars := σ' })) := by
  constructor
  · intro hfall
    have hj0 : 0 ≤ j.toInt := by omega
    exact on_gosub_fallthrough_goes env hie hsel targets s hcode htr hroom hk selV j hv hj hj0 hfall
  · intro fuel p sub σ' hp hj1 hjk htarget hsub hroomB hgate h
    exact on_gosub_selected_balanced hsel targets (exec_implemented env hie fuel p hp) s hcode htr hroom hk selV j hv hj
      hj1 hjk sub htarget hsub (by rw [compile_length]; exact hroomB) hgate (.ok σ') h

/-- **`LET x = FNname(args)`**: the call (return address, arguments, the function's parameter
    assignments, its body, RETURN) and the assignment together leave the stack as it was -/
theorem let_call_stack_neutral (env : Env) (hie : Bool) {s : Runtime} {name : Str} {params : List Str} {body : Expr}
    {args : List Expr} {entry : Nat} (hs : CallSite s name params body args entry)
    (harity : params.length = args.length) (x : Str)
    (hpop : s.program.link.ops[s.pc + (callCode name args).length]? = some (.pop x))
    {v : Val} {vars' vars'' : Var} (h : evalCall s.vars params body args = .ok (v, vars'))
    (hst : vars'.store x v = .ok vars'') :
    ∃ n, runSteps env hie n s =
      (.ok .continue, { s with pc := s.pc + (callCode name args).length + 1, vars := vars'' }) :=
  let_call_goes env hie hs harity x hpop h hst

/-- **PRINT and READ**: a PRINT statement that completes leaves stack and variables as they were; a
    READ list leaves the stack as it was, whether it completes or stops in an error; a GOTO loop
    around a PRINT statement is, after `k` passes (`k` arbitrary), the machine it started as except for
    the print column -/
theorem print_read_no_residue (env : Env) (hie : Bool) :
    (∀ (items : List PrItem), (∀ it ∈ items, it.Ok) → ∀ (s : Runtime),
      CodeAt s.program.link.ops s.pc (Lemmas.PrintRun.stmtCode items) → s.tron = false →
      s.stack.size + (Lemmas.PrintRun.stmtCode items).length ≤ Gen.stackMaxLen →
      (printSpec s.vars s.printCol items).err = none → ∀ acc,
      (Lemmas.PrintRun.runCollect env hie (Lemmas.PrintRun.stmtCode items).length s acc).2.1.stack = s.stack ∧
      (Lemmas.PrintRun.runCollect env hie (Lemmas.PrintRun.stmtCode items).length s acc).2.1.vars = s.vars ∧
      (Lemmas.PrintRun.runCollect env hie (Lemmas.PrintRun.stmtCode items).length s acc).1 = .done) ∧
    (∀ (names : List Str) (s : Runtime), CodeAt s.program.link.ops s.pc (Lemmas.ReadRun.readCode names) →
      s.tron = false → s.stack.size + 1 ≤ Gen.stackMaxLen →
      (runOps env hie (Lemmas.ReadRun.readCode names) s).2.stack = s.stack) ∧
    (∀ (items : List PrItem), (∀ it ∈ items, it.Ok) → ∀ (k : Nat) (s : Runtime) (acc : List Str),
      CodeAt s.program.link.ops s.pc (printLoopCode items s.pc) → s.tron = false →
      s.stack.size + (Lemmas.PrintRun.stmtCode items).length ≤ Gen.stackMaxLen →
      (hie = false ∨ s.entryAddress ≤ s.pc) → (∀ c, (printSpec s.vars c items).err = none) →
      Lemmas.PrintRun.runCollect env hie (k * ((Lemmas.PrintRun.stmtCode items).length + 1)) s acc =
        (.done, { s with printCol := printLoopCol s.vars items k s.printCol },
         acc ++ printLoopChunks s.vars items k s.printCol)) :=
  ⟨fun items hok s hcode htr hroom herr acc => print_no_residue env hie items hok s hcode htr hroom herr acc,
   fun names s hcode htr hroom => read_no_residue env hie names s hcode htr hroom,
   fun items hok k s acc hcode htr hroom hgate herr =>
     print_loop_no_residue env hie items hok k s acc hcode htr hroom hgate herr⟩

/-! ### abandoned FOR loops -/

/-- **FOR does not reuse or drop an older frame of its variable** (the model, like `runtime.rs`, has no
    `for` instruction: `codegen.rs` `r#for` emits the start value's assignment and four pushes).
    Entering `FOR v = a TO b STEP st` pushes four values on whatever stack it finds. -/
theorem for_always_pushes_a_frame (env : Env) (hie : Bool) {a b st : Expr} (hpa : Spec.Pure a) (hpb : Spec.Pure b)
    (hps : Spec.Pure st) (name : Str) (s : Runtime)
    (hcode : CodeAt s.program.link.ops s.pc (forEntryCode name a b st s.pc)) (htr : s.tron = false)
    (hroom : s.stack.size + forInitLen a b st ≤ Gen.stackMaxLen)
    {σ1 : Var} {t sv : Val} (hi : forInit s.vars name a b st = .ok (σ1, t, sv)) :
    ∃ n s', runSteps env hie n s = (.ok .continue, s') ∧ s'.stack.size = s.stack.size + 4 ∧
      s'.stack = s.stack ++ forFrame t sv name (s.pc + forInitLen a b st) := by
  obtain ⟨n, hn⟩ := for_entry_pushes_frame env hie hpa hpb hps name s hcode htr hroom hi
  exact ⟨n, _, hn, by simp [forFrame], rfl⟩

/-- **a FOR left by GOTO and entered again `k` times has grown the stack by `4·k` values** -/
theorem abandoned_for_grows (env : Env) (hie : Bool) {a b st : Expr} (hpa : Spec.Pure a) (hpb : Spec.Pure b)
    (hps : Spec.Pure st) (name : Str) (k : Nat) (s : Runtime) (τ : Nat → Var)
    (hcode : CodeAt s.program.link.ops s.pc (abandonCode name a b st s.pc)) (htr : s.tron = false)
    (hgate : hie = false ∨ s.entryAddress ≤ s.pc)
    (hroom : s.stack.size + 4 * k + forInitLen a b st ≤ Gen.stackMaxLen + 4) (h0 : τ 0 = s.vars)
    (hinit : ∀ i, i < k → ∃ t sv, forInit (τ i) name a b st = .ok (τ (i + 1), t, sv)) :
    ∃ n s', runSteps env hie n s = (.ok .continue, s') ∧ s'.stack.size = s.stack.size + 4 * k ∧
      s'.pc = s.pc ∧ s'.vars = τ k := by
  obtain ⟨frames, hsz, n, hn⟩ := abandoned_for_rounds env hie hpa hpb hps name k s τ hcode htr hgate hroom h0 hinit
  exact ⟨n, _, hn, by show (s.stack ++ frames).size = _; rw [Array.size_append, hsz], rfl, rfl⟩

/-- **"abandoned FOR loops … end in OUT OF MEMORY"**: the program `10 FOR I%=1 TO 2` / `20 GOTO 10`,
    started by RUN, completes 16 383 rounds (65 532 values on the stack) and fails in the next with
    OUT OF MEMORY "STACK OVERFLOW", the stack holding 65 536 values — never more -/
theorem abandoned_for_out_of_memory (env : Env) (hie : Bool) (s : Runtime) (h : AbandonedStart s)
    (hgate : hie = false ∨ s.entryAddress ≤ s.pc) :
    (∀ k, 1 ≤ k → k ≤ 16383 → ∃ n s', runSteps env hie n s = (.ok .continue, s') ∧ s'.stack.size = 4 * k) ∧
    ∃ n s', runSteps env hie n s = (.error stackOverflow, s') ∧ s'.stack.size = 65536 ∧
      stackOverflow.code = Code.outOfMemory ∧ s'.vars = abandonedV1 ∧ s'.program = s.program := by
  constructor
  · intro k hk1 hk
    obtain ⟨frames, hsz, n, hn⟩ := abandonedLoop_rounds env hie s h hgate k hk1 hk
    exact ⟨n, _, hn, hsz⟩
  · obtain ⟨n, stk, hsz, hn⟩ := abandonedLoop_overflows env hie s h hgate
    exact ⟨n, _, hn, hsz, rfl, rfl, rfl⟩

/-- **"… and the session stays usable afterwards"**: `execute` on that program (quantum large enough to
    reach the failure) returns with OUT OF MEMORY recorded and the stack EMPTY (`r.stack = #[]`: an
    error on a full stack clears it, also inside a program), nothing to continue, the variables, the
    program and the listing untouched; the next `execute` reports the error and stops; a direct line
    entered then is compiled and started with an empty stack and the variables as they were. -/
theorem abandoned_for_session (env : Env) (s : Runtime) (h : AbandonedStart s) (hst : s.state = .running)
    (hde : s.listing.directErrors.isEmpty = true) (hie : s.listing.indirectErrors.isEmpty = true)
    (hcol : s.printCol = 0) :
    ∃ n, ∀ q, n ≤ q → ∃ r e,
      execute env s q = (r, .running) ∧ r.state = .runtimeError e ∧ e.code = Code.outOfMemory ∧
      e.msg = "STACK OVERFLOW" ∧ r.stack = #[] ∧ r.cont = .stopped ∧ r.vars = abandonedV1 ∧
      r.program = s.program ∧ r.listing = s.listing ∧
      (∀ q', execute env r q' = ({ r with state := .stopped }, .errors [e])) ∧
      (∀ line, ¬ RStd.utf8Len line > Gen.maxLineLen → (env.lex line).number = none → (env.lex line).tokens ≠ [] →
        enter env { r with state := .stopped } line = enterDirect { r with state := .stopped } (env.lex line) ∧
        (enter env { r with state := .stopped } line).stack = #[] ∧
        (enter env { r with state := .stopped } line).vars = abandonedV1 ∧
        (enter env { r with state := .stopped } line).state = .running) := by
  obtain ⟨n, hn⟩ := abandonedLoop_execute env s h hst hde hie
  refine ⟨n, fun q hq => ⟨_, stackOverflow.inLine (s.program.link.lineNumberFor 5), hn q hq, rfl, rfl, rfl, rfl, rfl,
    rfl, rfl, rfl, ?_, ?_⟩⟩
  · intro q'
    exact execute_reports_error env _ q' _ rfl hcol
  · intro line hlen hnum htok
    obtain ⟨h1, h2, h3, h4, _⟩ := enter_direct_line env
      { ({ s with pc := 6, vars := abandonedV1, stack := #[], cont := .stopped, contPc := 6,
                  state := .runtimeError (stackOverflow.inLine (s.program.link.lineNumberFor 5)) } : Runtime) with
        state := .stopped } line rfl hlen hnum htok
    exact ⟨h1, h2, h3, h4⟩

/-- the general form (any program): a slice that fails on a full stack — more than 65 503 values, as
    after every failed push — makes `execute` clear the stack -/
theorem full_stack_error_clears (env : Env) (s s' : Runtime) (q : Nat) (e : Error)
    (hst : s.state = .running) (hde : s.listing.directErrors.isEmpty = true)
    (hrun : runSteps env (!s.listing.indirectErrors.isEmpty) q s = (.error e, s'))
    (hs' : s'.state = .running) (hfull : isFull s' = true) :
    (execute env s q).1.stack = #[] ∧ (execute env s q).1.cont = .stopped ∧
    (execute env s q).1.state = .runtimeError (e.inLine (lineNumber s')) ∧ (execute env s q).1.vars = s'.vars := by
  rw [execute_error_full_clears env s s' q e hst hde hrun hs' hfull]
  exact ⟨rfl, rfl, rfl, rfl⟩

/-! ### non-vacuity -/

/-- `S% = 0 : FOR I% = 1 TO 3 STEP 1 : FOR J% = 1 TO 2 STEP 1 : S% = S% + J% : NEXT J% : NEXT I%` -/
def exNest : SStmt :=
  .seq (.assign "S%".toList (cI 0))
    (.for "I%".toList (cI 1) (cI 3) (cI 1)
      (.for "J%".toList (cI 1) (cI 2) (cI 1)
        (.assign "S%".toList (.bin .add (0, 0) (.var (.unary (0, 0) (.integer "S%".toList)))
          (.var (.unary (0, 0) (.integer "J%".toList)))))))

example : exNest.Pure := by decide
example : assigned exNest = ["S%".toList, "I%".toList, "J%".toList, "S%".toList] := by decide
example : (assigned exNest).eraseDups.length = 3 := by decide
/-- six passes of the inner body; `S% = 9`, the counters one past their limits — three slots -/
example : ((execWith (oneStep 1 false) 8 { vars := [] } exNest).bind (·.toOption)).map (·.vars) =
    some [("I%".toList, .int 4), ("J%".toList, .int 3), ("S%".toList, .int 9)] := by decide

/-- the machine of the examples: code at address 2, two values on the stack -/
def exMach (code : List Opcode) (vars : List (Str × Val)) : Runtime :=
  { program := { link := { ops := #[.end, .end] ++ code.toArray ++ #[.end] } },
    pc := 2, stack := #[.int 7, .ret 3], vars := { vars := vars } }

/-- `Float` is opaque to the kernel: the sign of the step `1` is a hypothesis (as in `Thm.C01`) -/
example (h : stepNeg (.int 1) = some false) :
    ∃ n s', runSteps exEnv false n (exMach (compile exNest 2) []) = (.ok .continue, s') ∧
      s'.stack = #[.int 7, .ret 3] ∧ s'.vars.vars.length ≤ 0 + 3 := by
  have hd : ∃ σ', execWith (oneStep 1 false) 8 { vars := [] } exNest = some (.ok σ') := by
    cases hx : execWith (oneStep 1 false) 8 { vars := [] } exNest with
    | none =>
      have : ((execWith (oneStep 1 false) 8 { vars := [] } exNest).bind (·.toOption)).map (·.vars) =
        some [("I%".toList, .int 4), ("J%".toList, .int 3), ("S%".toList, .int 9)] := by decide
      rw [hx] at this; cases this
    | some r =>
      cases r with
      | ok σ' => exact ⟨σ', rfl⟩
      | error e =>
        have : ((execWith (oneStep 1 false) 8 { vars := [] } exNest).bind (·.toOption)).map (·.vars) =
          some [("I%".toList, .int 4), ("J%".toList, .int 3), ("S%".toList, .int 9)] := by decide
        rw [hx] at this; cases this
  obtain ⟨σ', hσ⟩ := hd
  have hσ' := execWith_mono (negLe_oneStep h) 8 exNest _ _ hσ
  obtain ⟨n, s', h1, h2, _, h3, _, _, _, _, _, h4⟩ :=
    structured_no_residue exEnv false 8 exNest (by decide) (exMach (compile exNest 2) [])
      (CodeAt.of_append #[.end, .end] #[.end] (compile exNest 2)) rfl (by decide) (.inl rfl) σ' hσ'
  refine ⟨n, s', h1, h2, ?_⟩
  rw [h3]
  exact h4 AL.noDup_nil

/-- GOSUB 9 (at 2) … subroutine at 9: `B% = A% + 1`, RETURN: back at 4, stack as before -/
def exGosub : Runtime :=
  { program := { link := { ops := (#[.end, .end] ++ (gosubCode 9 2).toArray ++ #[.end, .end, .end, .end, .end] ++
      (subCode (compile (.assign "B%".toList (.bin .add (0, 0) (.var (.unary (0, 0) (.integer "A%".toList))) (cI 1)))) 9).toArray) } },
    pc := 2, stack := #[.int 7, .ret 3], vars := { vars := [("A%".toList, .int 20)] } }

example : (runSteps exEnv false 7 exGosub).2.stack = #[.int 7, .ret 3] ∧ (runSteps exEnv false 7 exGosub).2.pc = 4 ∧
    (runSteps exEnv false 7 exGosub).2.vars.vars = [("B%".toList, .int 21), ("A%".toList, .int 20)] := by decide +kernel
example : (runSteps exEnv false 2 exGosub).2.stack = #[.int 7, .ret 3, .ret 4] := by decide +kernel

/-- `ON A% GOSUB 20,20` (targets = address 20) at 2; subroutine at 20: `B% = 5`, RETURN -/
def exOnGosub (a : Int16) : Runtime :=
  { program := { link := { ops := (#[.end, .end] ++
      (onGosubCode (.var (.unary (0, 0) (.integer "A%".toList))) [20, 20] 2).toArray ++
      Array.replicate 11 .end ++ (subCode (compile (.assign "B%".toList (cI 5))) 20).toArray) } },
    pc := 2, stack := #[.int 7], vars := { vars := [("A%".toList, .int a)] } }

example : (onGosubCode (.var (.unary (0, 0) (.integer "A%".toList))) [20, 20] 2).length = 7 := by decide
/-- selected (`A% = 2`): dispatch 4 steps, jump, 2 steps of the block, RETURN — at 9 with the stack as before -/
example : (runSteps exEnv false 8 (exOnGosub 2)).2.stack = #[.int 7] ∧ (runSteps exEnv false 8 (exOnGosub 2)).2.pc = 9 ∧
    (runSteps exEnv false 8 (exOnGosub 2)).2.vars.vars = [("B%".toList, .int 5), ("A%".toList, .int 2)] := by decide +kernel
/-- not selected (`A% = 3`, `A% = 0`): dispatch, RETURN -/
example : (runSteps exEnv false 5 (exOnGosub 3)).2.stack = #[.int 7] ∧ (runSteps exEnv false 5 (exOnGosub 3)).2.pc = 9 := by
  decide +kernel
example : (runSteps exEnv false 5 (exOnGosub 0)).2.stack = #[.int 7] ∧ (runSteps exEnv false 5 (exOnGosub 0)).2.pc = 9 := by
  decide +kernel

/-- `10 FOR I%=1 TO 2` / `20 GOTO 10` after RUN's CLEAR -/
def exAbandoned : Runtime :=
  { program := { link := { ops := abandonedOps.toArray ++ #[.end, .clear, .jump 0, .end] } },
    pc := 0, entryAddress := 8, state := .running }

example : AbandonedStart exAbandoned := ⟨by decide, rfl, rfl, rfl, rfl⟩
/-- one round: four values; two rounds: eight — the first frame is still there -/
example : (runSteps exEnv false 7 exAbandoned).2.stack = #[.int 2, .int 1, .str "I%".toList, .nxt 6] ∧
    (runSteps exEnv false 7 exAbandoned).2.pc = 0 := by decide +kernel
example : (runSteps exEnv false 14 exAbandoned).2.stack =
    #[.int 2, .int 1, .str "I%".toList, .nxt 6, .int 2, .int 1, .str "I%".toList, .nxt 6] := by decide +kernel
example : ∃ n s', runSteps exEnv false n exAbandoned = (.error stackOverflow, s') ∧ s'.stack.size = 65536 :=
  let ⟨n, s', h1, h2, _⟩ := (abandoned_for_out_of_memory exEnv false exAbandoned ⟨by decide, rfl, rfl, rfl, rfl⟩ (.inl rfl)).2
  ⟨n, s', h1, h2⟩

end noResidue

end Thm.C18
end Basic
